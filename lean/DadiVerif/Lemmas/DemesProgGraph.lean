import DadiVerif.Lemmas.DemesProgOrder
/-! C16 (round 5) — what the reference program `getDemographicEventsRef` (`_get_demographic_events`) computes: the two dicts it returns, read
    the way the rest of the importer reads them, are the hand-written `demesPresent` and `demoEvents` of `Model/DemesConv.lean`. -/
namespace DadiVerif.DemesConv
open Gen.Demes

/-! ### the pieces of the program (its text after unfolding the `let`s) -/

/-- the set `break_points` after the three loops -/
def bpOf (g : Graph InEpoch) : List ETime :=
  List.foldl (fun (break_points : List ETime) (migration : GMig) => pySetAdd (pySetAdd break_points migration.st) (some migration.et))
    (List.foldl (fun (break_points : List ETime) (pulse : GPulse) => pySetAdd break_points (some pulse.time))
      (List.foldl (fun (break_points : List ETime) (deme : GDeme InEpoch) =>
          List.foldl (fun (break_points : List ETime) (e : Epoch) => pySetAdd (pySetAdd break_points e.st) e.et) break_points (epochsOf deme.start deme.epochs))
        [] g.demes) g.pulses) g.migs

/-- `integration_times` -/
def ivsOf (g : Graph InEpoch) : List (ETime × ETime) :=
  List.map (fun (x12 : ETime × ETime) => (x12.1, x12.2)) ((pyRevDropFirst (pySortedSet (bpOf g))).zip (pyRevDropLast (pySortedSet (bpOf g))))

/-- `deme_start_times` -/
def dstOf (g : Graph InEpoch) : PyDD ETime DName :=
  List.foldl (fun (deme_start_times : PyDD ETime DName) (deme : GDeme InEpoch) => ddAppend deme_start_times deme.start deme.name) [] g.demes

/-- `demes_present` -/
def presOf (g : Graph InEpoch) : PyDD (ETime × ETime) DName :=
  List.foldl (fun (demes_present : PyDD (ETime × ETime) DName) (start_time : ETime) =>
      List.foldl (fun (demes_present : PyDD (ETime × ETime) DName) (deme_id : DName) =>
          List.foldl (fun (demes_present : PyDD (ETime × ETime) DName) (interval : ETime × ETime) =>
              if (tge start_time interval.1 && tle (g.endTimeOf deme_id) interval.2) = true then ddAppend demes_present interval deme_id else demes_present)
            demes_present (ivsOf g))
        demes_present (ddGet (dstOf g) start_time))
    [] (pySortedSet (ddKeys (dstOf g))).reverse

/-- `demo_events` -/
def evOf (g : Graph InEpoch) (lib : LibEvents) (sp : List DName) : PyDD ETime DEvt :=
  List.foldl (fun (demo_events : PyDD ETime DEvt) (p13 : DName × List DName) =>
      if (!sp.contains p13.1 && (p13.2.length == 0 || p13.2.all fun (x14 : DName) => tgt (g.startTimeOf x14) (g.endTimeOf p13.1))) = true then
        ddAppend demo_events (g.endTimeOf p13.1) (DEvt.marginalize p13.1)
      else demo_events)
    (List.foldl (fun (demo_events : PyDD ETime DEvt) (split : LSplit) => ddAppend demo_events (some split.time) (DEvt.split split.parent split.children))
      (List.foldl (fun (demo_events : PyDD ETime DEvt) (admix : LMerge) => ddAppend demo_events (some admix.time) (DEvt.admix admix.parents admix.proportions admix.child))
        (List.foldl (fun (demo_events : PyDD ETime DEvt) (merge : LMerge) => ddAppend demo_events (some merge.time) (DEvt.merge merge.parents merge.proportions merge.child))
          (List.foldl (fun (demo_events : PyDD ETime DEvt) (branch : LBranch) => ddAppend demo_events (some branch.time) (DEvt.branch branch.parent branch.child))
            (List.foldl (fun (demo_events : PyDD ETime DEvt) (pulse : LPulse) => ddAppend demo_events (some pulse.time) (DEvt.pulses pulse.sources pulse.dest pulse.proportions))
              [] lib.pulses) lib.branches) lib.mergers) lib.admixtures) lib.splits) g.successors

/-- the two guards: the root deme must start at `inf`, and only one deme may -/
def rootOk (g : Graph InEpoch) : Bool :=
  (ddKeys (dstOf g)).contains none && !((ddGet (dstOf g) none).length != 1)

theorem getDemographicEventsRef_eq (g : Graph InEpoch) (lib : LibEvents) (sp : List DName) :
    getDemographicEventsRef g lib sp = if rootOk g then some (evOf g lib sp, presOf g) else none := by
  unfold getDemographicEventsRef rootOk
  dsimp only
  show (pyRaiseIf (!(ddKeys (dstOf g)).contains none) >>= fun _ => pyRaiseIf ((ddGet (dstOf g) none).length != 1) >>= fun _ => pure (evOf g lib sp, presOf g)) = _
  cases h1 : (ddKeys (dstOf g)).contains none <;> cases h2 : ((ddGet (dstOf g) none).length != 1) <;> simp [pyRaiseIf, bind, pure, Option.bind]

/-! ### break points, intervals -/

theorem bpOf_eq (g : Graph InEpoch) : bpOf g = breakPoints g := by
  unfold bpOf breakPoints
  have h1 : ∀ (bp : List ETime) (eps : List Epoch),
      List.foldl (fun (break_points : List ETime) (e : Epoch) => pySetAdd (pySetAdd break_points e.st) e.et) bp eps
        = bp ++ eps.flatMap fun e => [e.st, e.et] := by
    intro bp eps
    rw [← foldl_append_flatMap]
    congr 1
    funext b e
    simp [pySetAdd]
  have h2 : ∀ (bp : List ETime) (ps : List GPulse),
      List.foldl (fun (break_points : List ETime) (pulse : GPulse) => pySetAdd break_points (some pulse.time)) bp ps
        = bp ++ ps.map fun p => some p.time := by
    intro bp ps
    induction ps generalizing bp with
    | nil => simp
    | cons p t ih => rw [List.foldl_cons, ih]; simp [pySetAdd]
  have h3 : ∀ (bp : List ETime) (ms : List GMig),
      List.foldl (fun (break_points : List ETime) (migration : GMig) => pySetAdd (pySetAdd break_points migration.st) (some migration.et)) bp ms
        = bp ++ ms.flatMap fun m => [m.st, some m.et] := by
    intro bp ms
    rw [← foldl_append_flatMap]
    congr 1
    funext b e
    simp [pySetAdd]
  simp only [h1, h2, h3]
  rw [foldl_append_flatMap]
  simp

theorem ivsOf_eq (g : Graph InEpoch) : ivsOf g = intervals g := by
  unfold ivsOf intervals
  rw [integrationTimes_eq, bpOf_eq]

theorem intervals_desc (g : Graph InEpoch) : (intervals g).Pairwise fun a b => ivw b < ivw a := by
  unfold intervals
  exact zip_tail_desc _ (sortDesc_desc _)

theorem intervals_nodup (g : Graph InEpoch) : (intervals g).Nodup :=
  List.Pairwise.imp (fun hab e => by rw [e] at hab; exact lt_irrefl _ hab) (intervals_desc g)

/-! ### the order of the visit -/

theorem dstOf_eq (g : Graph InEpoch) : dstOf g = ddAppendAll [] (g.demes.map fun d => (d.start, d.name)) := by
  unfold dstOf ddAppendAll
  rw [List.foldl_map]

/-- the (start time, name) pairs in the order of the two outer loops = the demes in `orderDemes` order -/
theorem visited_eq (g : Graph InEpoch) :
    ((pySortedSet (ddKeys (dstOf g))).reverse.flatMap fun st => (ddGet (dstOf g) st).map fun id => (st, id))
      = (orderDemes g.demes).map fun d => (d.start, d.name) := by
  rw [orderDemes_map, ← groups_eq_stableDesc _ (sortDesc (ddKeys (dstOf g))) (sortDesc_desc _)]
  · unfold pySortedSet
    rw [List.reverse_reverse]
    apply List.flatMap_congr
    intro st _
    rw [dstOf_eq, ddGet_appendAll, ddGet_nil, List.nil_append, List.map_map]
    have : ∀ l : List (ETime × DName), (l.filter fun p => decide (p.1 = st)).map ((fun id => (st, id)) ∘ fun x => x.2) = l.filter fun p => decide (p.1 = st) := by
      intro l
      induction l with
      | nil => rfl
      | cons a t ih =>
        rw [List.filter_cons]
        by_cases h : a.1 = st
        · simp only [h, decide_true, if_true, List.map_cons, ih, Function.comp]
          rw [← h]
        · simp only [h, decide_false, Bool.false_eq_true, if_false, ih]
    exact this _
  · intro q hq
    rw [mem_sortDesc, dstOf_eq, mem_keys_appendAll]
    exact Or.inr (List.mem_map_of_mem hq)

/-! ### `demes_present` -/

theorem demeOf_name (g : Graph InEpoch) (hnd : (g.demes.map (·.name)).Nodup) (d : GDeme InEpoch) (hd : d ∈ g.demes) : g.demeOf d.name = some d := by
  unfold Graph.demeOf
  generalize g.demes = ds at hnd hd
  induction ds with
  | nil => cases hd
  | cons x t ih =>
    simp only [List.map_cons, List.nodup_cons] at hnd
    rw [List.find?_cons]
    by_cases hx : x.name = d.name
    · rcases List.mem_cons.1 hd with h | h
      · simp [h]
      · exact absurd (hx ▸ List.mem_map_of_mem h) hnd.1
    · rcases List.mem_cons.1 hd with h | h
      · exact absurd (h ▸ rfl) hx
      · simp only [hx, decide_false]
        exact ih hnd.2 h

theorem endTimeOf_name (g : Graph InEpoch) (hnd : (g.demes.map (·.name)).Nodup) (d : GDeme InEpoch) (hd : d ∈ g.demes) : g.endTimeOf d.name = d.endTime := by
  unfold Graph.endTimeOf; rw [demeOf_name g hnd d hd]

theorem startTimeOf_name (g : Graph InEpoch) (hnd : (g.demes.map (·.name)).Nodup) (d : GDeme InEpoch) (hd : d ∈ g.demes) : g.startTimeOf d.name = d.start := by
  unfold Graph.startTimeOf; rw [demeOf_name g hnd d hd]

theorem epochsOfName_name (g : Graph InEpoch) (hnd : (g.demes.map (·.name)).Nodup) (d : GDeme InEpoch) (hd : d ∈ g.demes) :
    g.epochsOfName d.name = epochsOf d.start d.epochs := by
  unfold Graph.epochsOfName; rw [demeOf_name g hnd d hd]

/-- the `(interval, deme)` pairs in the order in which the triple loop appends them -/
def presPairs (g : Graph InEpoch) : List ((ETime × ETime) × DName) :=
  (orderDemes g.demes).flatMap fun d => ((intervals g).filter fun iv => tge d.start iv.1 && tle (g.endTimeOf d.name) iv.2).map fun iv => (iv, d.name)

theorem presOf_eq (g : Graph InEpoch) : presOf g = ddAppendAll [] (presPairs g) := by
  unfold presOf presPairs
  rw [ivsOf_eq]
  let step : PyDD (ETime × ETime) DName → (ETime × ETime) × DName → PyDD (ETime × ETime) DName := fun d p => ddAppend d p.1 p.2
  let F : ETime → DName → List ((ETime × ETime) × DName) := fun st id =>
    ((intervals g).filter fun iv => tge st iv.1 && tle (g.endTimeOf id) iv.2).map fun iv => (iv, id)
  have inner : ∀ (st : ETime) (id : DName) (dp : PyDD (ETime × ETime) DName),
      List.foldl (fun (demes_present : PyDD (ETime × ETime) DName) (interval : ETime × ETime) =>
          if (tge st interval.1 && tle (g.endTimeOf id) interval.2) = true then ddAppend demes_present interval id else demes_present) dp (intervals g)
        = List.foldl step dp (F st id) := by
    intro st id dp
    have h := foldl_filter' (fun iv : ETime × ETime => tge st iv.1 && tle (g.endTimeOf id) iv.2)
      (fun (d : PyDD (ETime × ETime) DName) iv => ddAppend d iv id) (intervals g) dp
    refine h.trans ?_
    show _ = List.foldl step dp (List.map _ _)
    rw [List.foldl_map]
  have mid : ∀ (st : ETime) (dp : PyDD (ETime × ETime) DName) (ids : List DName),
      List.foldl (fun (demes_present : PyDD (ETime × ETime) DName) (deme_id : DName) => List.foldl step demes_present (F st deme_id)) dp ids
        = List.foldl step dp (ids.flatMap (F st)) := fun st dp ids => foldl_flatMap' (F st) step ids dp
  have outer : ∀ (dp : PyDD (ETime × ETime) DName) (sts : List ETime),
      List.foldl (fun (demes_present : PyDD (ETime × ETime) DName) (start_time : ETime) =>
          List.foldl step demes_present ((ddGet (dstOf g) start_time).flatMap (F start_time))) dp sts
        = List.foldl step dp (sts.flatMap fun st => (ddGet (dstOf g) st).flatMap (F st)) :=
    fun dp sts => foldl_flatMap' (fun st => (ddGet (dstOf g) st).flatMap (F st)) step sts dp
  simp only [inner, mid, outer]
  unfold ddAppendAll
  congr 1
  -- the pairs (start time, name) in visiting order
  have hv := visited_eq g
  have : ((pySortedSet (ddKeys (dstOf g))).reverse.flatMap fun st => (ddGet (dstOf g) st).flatMap (F st))
      = ((pySortedSet (ddKeys (dstOf g))).reverse.flatMap fun st => (ddGet (dstOf g) st).map fun id => (st, id)).flatMap fun v => F v.1 v.2 := by
    rw [List.flatMap_assoc]
    apply List.flatMap_congr
    intro st _
    rw [List.flatMap_map]
  rw [this, hv, List.flatMap_map]

theorem filter_eq_nodup {α : Type} [DecidableEq α] (l : List α) (hnd : l.Nodup) (a : α) :
    l.filter (fun x => decide (x = a)) = if a ∈ l then [a] else [] := by
  induction l with
  | nil => rfl
  | cons x t ih =>
    rw [List.nodup_cons] at hnd
    rw [List.filter_cons, ih hnd.2]
    by_cases hx : x = a
    · subst hx
      simp [hnd.1]
    · have : ¬ a = x := fun e => hx e.symm
      simp [hx, this]

/-- **what a read of `demes_present` returns**: for an integration interval the names of the demes alive in it, in the order of their start
    times (graph order within one start time); nothing for any other key -/
theorem ddGet_presOf (hpres : ∀ s e i0 i1 : ETime, demePresent s e i0 i1 = (tge s i0 && tle e i1)) (g : Graph InEpoch)
    (hnd : (g.demes.map (·.name)).Nodup) (iv : ETime × ETime) :
    ddGet (presOf g) iv = if iv ∈ intervals g then (liveIn g iv.1 iv.2).map (·.name) else [] := by
  rw [presOf_eq, ddGet_appendAll, ddGet_nil, List.nil_append]
  unfold presPairs liveIn
  rw [List.filter_flatMap, List.map_flatMap]
  have hod : ∀ d ∈ orderDemes g.demes, d ∈ g.demes := fun d hd => (perm_orderDemes g.demes).subset hd
  have step : ∀ d ∈ orderDemes g.demes,
      ((((intervals g).filter fun iv' => tge d.start iv'.1 && tle (g.endTimeOf d.name) iv'.2).map fun iv' => (iv', d.name)).filter fun p => decide (p.1 = iv)).map (·.2)
        = if iv ∈ intervals g ∧ demePresent d.start d.endTime iv.1 iv.2 = true then [d.name] else [] := by
    intro d hd
    rw [endTimeOf_name g hnd d (hod d hd), List.filter_map, List.map_map, List.filter_filter]
    have : ((intervals g).filter fun a => (decide (a = iv) && (tge d.start a.1 && tle d.endTime a.2)))
        = if iv ∈ intervals g ∧ demePresent d.start d.endTime iv.1 iv.2 = true then [iv] else [] := by
      rw [← List.filter_filter, hpres]
      have h1 : ((intervals g).filter fun a => tge d.start a.1 && tle d.endTime a.2).Nodup := (intervals_nodup g).filter _
      rw [filter_eq_nodup _ h1]
      simp only [List.mem_filter]
    simp only [Function.comp_def] at this ⊢
    rw [this]
    split_ifs <;> rfl
  rw [List.flatMap_congr step]
  by_cases hiv : iv ∈ intervals g
  · simp only [hiv, true_and, if_true]
    generalize orderDemes g.demes = od
    induction od with
    | nil => rfl
    | cons x t ih =>
      rw [List.flatMap_cons, List.filter_cons, ih]
      by_cases hx : demePresent x.start x.endTime iv.1 iv.2 = true <;> simp [hx]
  · simp [hiv]

theorem mem_keys_presOf (hpres : ∀ s e i0 i1 : ETime, demePresent s e i0 i1 = (tge s i0 && tle e i1)) (g : Graph InEpoch)
    (hnd : (g.demes.map (·.name)).Nodup) (iv : ETime × ETime) :
    iv ∈ ddKeys (presOf g) ↔ iv ∈ intervals g ∧ liveIn g iv.1 iv.2 ≠ [] := by
  have hget := ddGet_presOf hpres g hnd iv
  constructor
  · intro h
    have hne : ddGet (presOf g) iv ≠ [] := by
      rw [presOf_eq] at h ⊢
      rw [mem_keys_appendAll] at h
      rcases h with h | h
      · cases h
      · rw [ddGet_appendAll, ddGet_nil, List.nil_append]
        rw [List.mem_map] at h
        obtain ⟨p, hp, hpk⟩ := h
        intro e
        have : p ∈ (presPairs g).filter fun q => decide (q.1 = iv) := List.mem_filter.2 ⟨hp, by simp [hpk]⟩
        have hm := List.mem_map_of_mem (f := fun q : (ETime × ETime) × DName => q.2) this
        rw [e] at hm
        cases hm
    rw [hget] at hne
    by_cases hiv : iv ∈ intervals g
    · refine ⟨hiv, ?_⟩
      intro e
      apply hne
      simp [hiv, e]
    · exact absurd (by simp [hiv]) hne
  · rintro ⟨hiv, hl⟩
    by_contra hk
    have := ddGet_of_not_mem (presOf g) iv hk
    rw [hget, if_pos hiv] at this
    exact hl (List.map_eq_nil_iff.1 this)

theorem nodup_keys_presOf (g : Graph InEpoch) : (ddKeys (presOf g)).Nodup := by
  rw [presOf_eq]
  exact nodup_keys_appendAll [] _ (by simp [ddKeys])

/-- **`sorted(demes_present.items())[::-1]` and `sorted(list(demes_present.keys()))[::-1]`** are the hand-written `demesPresent`: the
    integration intervals in which some deme is alive, oldest first, each with the names of its demes -/
theorem sorted_presOf (hpres : ∀ s e i0 i1 : ETime, demePresent s e i0 i1 = (tge s i0 && tle e i1)) (g : Graph InEpoch)
    (hnd : (g.demes.map (·.name)).Nodup) :
    pySortedItemsDesc (presOf g) = (demesPresent g).map (fun p => (p.1, p.2.map (·.name)))
    ∧ pySortedKeysDesc (ddKeys (presOf g)) = (demesPresent g).map (·.1) := by
  obtain ⟨h1, h2⟩ := sortedItems_eq (presOf g) (intervals g) (intervals_desc g) (nodup_keys_presOf g)
    (fun k hk => ((mem_keys_presOf hpres g hnd k).1 hk).1)
  constructor
  · rw [h1]
    unfold demesPresent
    rw [List.map_filterMap]
    apply List.filterMap_congr
    intro iv hiv
    by_cases hl : liveIn g iv.1 iv.2 = []
    · have : iv ∉ ddKeys (presOf g) := fun hk => ((mem_keys_presOf hpres g hnd iv).1 hk).2 hl
      simp [this, hl]
    · have hk : iv ∈ ddKeys (presOf g) := (mem_keys_presOf hpres g hnd iv).2 ⟨hiv, hl⟩
      have hne : (liveIn g iv.1 iv.2).isEmpty = false := by
        cases h : liveIn g iv.1 iv.2 with
        | nil => exact absurd h hl
        | cons a t => rfl
      simp [hk, hne, ddGet_presOf hpres g hnd iv, hiv]
  · rw [h2]
    unfold demesPresent
    rw [List.map_filterMap]
    rw [← List.filterMap_eq_filter]
    apply List.filterMap_congr
    intro iv hiv
    by_cases hl : liveIn g iv.1 iv.2 = []
    · have : iv ∉ ddKeys (presOf g) := fun hk => ((mem_keys_presOf hpres g hnd iv).1 hk).2 hl
      simp [this, hl, Option.guard]
    · have hk : iv ∈ ddKeys (presOf g) := (mem_keys_presOf hpres g hnd iv).2 ⟨hiv, hl⟩
      have hne : (liveIn g iv.1 iv.2).isEmpty = false := by
        cases h : liveIn g iv.1 iv.2 with
        | nil => exact absurd h hl
        | cons a t => rfl
      simp [hk, hne, Option.guard]

/-! ### `demo_events` -/

theorem ddAppendAll_append {κ ν : Type} [DecidableEq κ] (d : PyDD κ ν) (a b : List (κ × ν)) : ddAppendAll (ddAppendAll d a) b = ddAppendAll d (a ++ b) := by
  unfold ddAppendAll
  rw [List.foldl_append]

theorem foldl_ddAppend_map {κ ν α : Type} [DecidableEq κ] (k : α → κ) (v : α → ν) (l : List α) (d : PyDD κ ν) :
    List.foldl (fun d x => ddAppend d (k x) (v x)) d l = ddAppendAll d (l.map fun x => (k x, v x)) := by
  unfold ddAppendAll
  rw [List.foldl_map]

theorem filterMap_ite {α β : Type} (c : α → Bool) (h : α → β) (l : List α) : l.filterMap (fun x => if c x then some (h x) else none) = (l.filter c).map h := by
  induction l with
  | nil => rfl
  | cons x xs ih =>
    simp only [List.filterMap_cons, List.filter_cons]
    cases c x <;> simp [ih]

theorem all_congr_mem {α : Type} (f g : α → Bool) (l : List α) (h : ∀ x ∈ l, f x = g x) : l.all f = l.all g := by
  induction l with
  | nil => rfl
  | cons a t ih => simp only [List.all_cons, h a List.mem_cons_self, ih (fun x hx => h x (List.mem_cons_of_mem _ hx))]

/-- **`demo_events`** is the list `demoEvents` of the model, appended in its order to an empty dict keyed by the event time -/
theorem evOf_eq (hmarg : ∀ (sp : List DName) (d : DName) (e : ETime) (ss : List ETime),
      marginalizeCond sp d e ss = ((!sp.contains d) && ((ss.length == 0) || (ss.all fun s => (!tle s e)))))
    (g : Graph InEpoch) (hnd : (g.demes.map (·.name)).Nodup) (lib : LibEvents) (sp : List DName) :
    evOf g lib sp = ddAppendAll [] (demoEvents g lib.toList sp) := by
  unfold evOf
  rw [foldl_ddAppend_map (fun p : LPulse => (some p.time : ETime)) (fun p => DEvt.pulses p.sources p.dest p.proportions),
    foldl_ddAppend_map (fun p : LBranch => (some p.time : ETime)) (fun p => DEvt.branch p.parent p.child),
    foldl_ddAppend_map (fun p : LMerge => (some p.time : ETime)) (fun p => DEvt.merge p.parents p.proportions p.child),
    foldl_ddAppend_map (fun p : LMerge => (some p.time : ETime)) (fun p => DEvt.admix p.parents p.proportions p.child),
    foldl_ddAppend_map (fun p : LSplit => (some p.time : ETime)) (fun p => DEvt.split p.parent p.children)]
  rw [foldl_filter' (fun p13 : DName × List DName => (!sp.contains p13.1 && (p13.2.length == 0 || p13.2.all fun (x14 : DName) => tgt (g.startTimeOf x14) (g.endTimeOf p13.1))))
    (fun (d : PyDD ETime DEvt) p13 => ddAppend d (g.endTimeOf p13.1) (DEvt.marginalize p13.1))]
  rw [foldl_ddAppend_map (fun p13 : DName × List DName => g.endTimeOf p13.1) (fun p13 => DEvt.marginalize p13.1)]
  simp only [ddAppendAll_append]
  congr 1
  unfold demoEvents LibEvents.toList
  simp only [List.map_append, List.map_map, List.append_assoc]
  congr 1; congr 1; congr 1; congr 1; congr 1
  -- the marginalisations
  unfold Graph.successors
  rw [List.filter_map, List.map_map, filterMap_ite (fun d : GDeme InEpoch =>
      marginalizeCond sp d.name d.endTime ((g.demes.filter fun x => x.ancestors.contains d.name).map (·.start))) (fun d => (d.endTime, DEvt.marginalize d.name))]
  have hc : ∀ d ∈ g.demes, ((fun p13 : DName × List DName => (!sp.contains p13.1 && (p13.2.length == 0 || p13.2.all fun (x14 : DName) => tgt (g.startTimeOf x14) (g.endTimeOf p13.1))))
        ∘ fun d : GDeme InEpoch => (d.name, (g.demes.filter fun x => x.ancestors.contains d.name).map (·.name))) d
      = marginalizeCond sp d.name d.endTime ((g.demes.filter fun x => x.ancestors.contains d.name).map (·.start)) := by
    intro d hd
    rw [hmarg]
    simp only [Function.comp, List.length_map, List.all_map, endTimeOf_name g hnd d hd]
    congr 2
    apply all_congr_mem
    intro x hx
    have hxm : x ∈ g.demes := (List.mem_filter.1 hx).1
    simp only [Function.comp, startTimeOf_name g hnd x hxm, tgt]
  rw [List.filter_congr hc]
  apply List.map_congr_left
  intro d hd
  have hdm : d ∈ g.demes := (List.mem_filter.1 hd).1
  simp only [Function.comp, endTimeOf_name g hnd d hdm]

theorem ddGet_evOf (hmarg : ∀ (sp : List DName) (d : DName) (e : ETime) (ss : List ETime),
      marginalizeCond sp d e ss = ((!sp.contains d) && ((ss.length == 0) || (ss.all fun s => (!tle s e)))))
    (g : Graph InEpoch) (hnd : (g.demes.map (·.name)).Nodup) (lib : LibEvents) (sp : List DName) (t : ETime) :
    ddGet (evOf g lib sp) t = eventsAt (demoEvents g lib.toList sp) t := by
  rw [evOf_eq hmarg g hnd, ddGet_appendAll, ddGet_nil, List.nil_append]
  unfold eventsAt
  congr 1
  apply List.filter_congr
  intro p _
  cases h : teq p.1 t
  · have : ¬ p.1 = t := fun e => by rw [(teq_iff p.1 t).2 e] at h; cases h
    simp [this]
  · simp [(teq_iff p.1 t).1 h]

/-- the two guards of `_get_demographic_events` in terms of the graph: some deme starts at `inf`, and exactly one does -/
theorem rootOk_eq (g : Graph InEpoch) :
    rootOk g = ((g.demes.any fun d => decide (d.start = none)) && ((g.demes.filter fun d => decide (d.start = none)).length == 1)) := by
  unfold rootOk
  have hk : (ddKeys (dstOf g)).contains none = g.demes.any fun d => decide (d.start = none) := by
    rw [Bool.eq_iff_iff, List.contains_iff_mem, dstOf_eq, mem_keys_appendAll]
    simp only [ddKeys, List.map_nil, List.not_mem_nil, false_or, List.map_map, List.mem_map, Function.comp, List.any_eq_true, decide_eq_true_eq]
  have hl : (ddGet (dstOf g) none).length = (g.demes.filter fun d => decide (d.start = none)).length := by
    rw [dstOf_eq, ddGet_appendAll, ddGet_nil, List.nil_append, List.length_map, List.filter_map, List.length_map]
    rfl
  rw [hk, hl]
  cases (g.demes.any fun d => decide (d.start = none)) <;> simp [bne]

/-- **what `_get_demographic_events` returns.**  For a graph whose deme names are distinct: it raises unless exactly one deme starts at
    `inf`; otherwise it returns two dicts `(demo_events, demes_present)` such that
    * a read `demo_events[t]` gives the events of the model's `demoEvents` at `t`, in its order (the library's pulses, branches, mergers,
      admixtures, splits, then the marginalisations);
    * `sorted(demes_present.items())[::-1]` is the model's `demesPresent` (the intervals between consecutive break points in which some deme
      is alive, oldest first, each with the names of its demes by descending start time, graph order within one start time), and
      `sorted(list(demes_present.keys()))[::-1]` its intervals;
    * a read `demes_present[iv]` gives the names of `liveIn` for an integration interval, nothing otherwise. -/
theorem getDemographicEventsRef_spec (hpres : ∀ s e i0 i1 : ETime, demePresent s e i0 i1 = (tge s i0 && tle e i1))
    (hmarg : ∀ (sp : List DName) (d : DName) (e : ETime) (ss : List ETime),
      marginalizeCond sp d e ss = ((!sp.contains d) && ((ss.length == 0) || (ss.all fun s => (!tle s e)))))
    (g : Graph InEpoch) (hnd : (g.demes.map (·.name)).Nodup) (lib : LibEvents) (sp : List DName) :
    getDemographicEventsRef g lib sp
        = (if (g.demes.any fun d => decide (d.start = none)) && ((g.demes.filter fun d => decide (d.start = none)).length == 1)
           then some (evOf g lib sp, presOf g) else none)
    ∧ (∀ t, ddGet (evOf g lib sp) t = eventsAt (demoEvents g lib.toList sp) t)
    ∧ pySortedItemsDesc (presOf g) = (demesPresent g).map (fun p => (p.1, p.2.map (·.name)))
    ∧ pySortedKeysDesc (ddKeys (presOf g)) = (demesPresent g).map (·.1)
    ∧ ∀ iv, ddGet (presOf g) iv = if iv ∈ intervals g then (liveIn g iv.1 iv.2).map (·.name) else [] := by
  refine ⟨?_, ddGet_evOf hmarg g hnd lib sp, (sorted_presOf hpres g hnd).1, (sorted_presOf hpres g hnd).2, ddGet_presOf hpres g hnd⟩
  rw [getDemographicEventsRef_eq, rootOk_eq]

end DadiVerif.DemesConv
