import DadiVerif.Lemmas.FileRoundTrip
/-!
# C14: the `%.{p}g` contract — numbers behind the opaque tokens

The file model treats a formatted entry as an opaque token.  What the round trip needs of the pair
`'%.{p}g' % x` (C `printf`) / numpy's text parser (`strtod`) is stated here as an explicit hypothesis structure
`FmtContract fmt parse rnd` over an abstract type `F` of floats (equality on `F` = the same float, all nans identified);
`rnd p x` is "x to the written precision": the double nearest to the p-significant-digit decimal nearest to x.
(NOT assumed, because false for p = 16: that the value read back prints as the token written — `'%.16g'` of
1.0000000000000001e+23 is `1e+23`, which reads back as the double 9.999999999999999e+22.)
The four fields are validated NUMERICALLY on the real `%`-formatting and `numpy.fromstring` by harness/c14.py (`contract_check`:
`rnd` computed independently with exact rational arithmetic, over 1e-300..1e300, denormals, ±0, ±inf, nan, random bit
patterns, p = 16…30); everything derived from them is proved.
-/
set_option linter.unusedVariables false
namespace DadiVerif.FileFormat

/-- the part of the assumptions that concerns one trip through the file -/
structure FmtCore {F : Type} (fmt : Nat → F → Str) (parse : Str → Option F) (rnd : Nat → F → F) : Prop where
  /-- a formatted entry is a non-empty string without whitespace -/
  tok : ∀ p x, Tok (fmt p x)
  /-- reading a formatted entry gives the value rounded to the written precision -/
  parse_fmt : ∀ p x, parse (fmt p x) = some (rnd p x)

/-- the assumptions on number formatting / parsing -/
structure FmtContract {F : Type} (fmt : Nat → F → Str) (parse : Str → Option F) (rnd : Nat → F → F) : Prop
    extends FmtCore fmt parse rnd where
  /-- a value that has been through the file once is not changed by going through it again -/
  rnd_idem : ∀ p x, rnd p (rnd p x) = rnd p x
  /-- 17 significant digits identify a double -/
  exact17 : ∀ p x, 17 ≤ p → rnd p x = x

variable {F : Type} {fmt : Nat → F → Str} {parse : Str → Option F} {rnd : Nat → F → F}

theorem FmtCore.toks (fc : FmtCore fmt parse rnd) (p : Nat) (vals : List F) : ∀ t ∈ vals.map (fmt p), Tok t := by
  intro t ht
  obtain ⟨x, _, rfl⟩ := List.mem_map.mp ht
  exact fc.tok p x

/-- parsing the written row gives every value rounded to the written precision -/
theorem FmtCore.parse_row (fc : FmtCore fmt parse rnd) (p : Nat) (vals : List F) :
    (vals.map (fmt p)).mapM parse = some (vals.map (rnd p)) := by
  induction vals with
  | nil => rfl
  | cons x xs ih => simp [List.mapM_cons, fc.parse_fmt, ih]

theorem FmtContract.toks (fc : FmtContract fmt parse rnd) (p : Nat) (vals : List F) : ∀ t ∈ vals.map (fmt p), Tok t :=
  fc.toFmtCore.toks p vals

/-- parsing the written row gives every value rounded to the written precision -/
theorem FmtContract.parse_row (fc : FmtContract fmt parse rnd) (p : Nat) (vals : List F) :
    (vals.map (fmt p)).mapM parse = some (vals.map (rnd p)) := fc.toFmtCore.parse_row p vals

/-- writing the values read back and reading again changes nothing -/
theorem FmtContract.stable_row (fc : FmtContract fmt parse rnd) (p : Nat) (vals : List F) :
    ((vals.map (rnd p)).map (fmt p)).mapM parse = some (vals.map (rnd p)) := by
  rw [fc.parse_row]
  simp [List.map_map, Function.comp_def, fc.rnd_idem]

/-- with ≥ 17 digits the values read back are the values written -/
theorem FmtContract.exact_row (fc : FmtContract fmt parse rnd) (p : Nat) (hp : 17 ≤ p) (vals : List F) :
    vals.map (rnd p) = vals := by
  induction vals with
  | nil => rfl
  | cons x xs ih => simp [fc.exact17 p x hp, ih]

/-- the contract is satisfiable: non-negative integers written with `'%i'` and read with `int` (no rounding) -/
theorem fmtContract_nat : FmtContract (F := Nat) (fun _ n => fmtI n) parseInt (fun _ n => n) where
  tok := fun _ n => tok_fmtI n
  parse_fmt := fun _ n => parseInt_fmtI n
  rnd_idem := fun _ _ => rfl
  exact17 := fun _ _ _ => rfl

/-! ## the pickle byte stream — outside the model, as an explicit hypothesis -/

/-- what is assumed of the `pickle` module for an object whose class is registered with `copyreg.pickle(cls, reducer, rebuild)`,
    for ANY protocol 0–5 (also what `multiprocessing` / `ForkingPickler` do): `dumps` calls the reducer, writes a reference to
    the rebuild function and the argument tuple; `loads` calls the rebuild function on the tuple read back; and the components
    that occur here (float and bool ndarrays, bool, None, list of str, float) come out of the byte stream as they went in.
    (`copy.copy` / `copy.deepcopy` do NOT take this route for an ndarray subclass: they use `ndarray.__copy__` /
    `MaskedArray.__deepcopy__`, i.e. `__array_finalize__` — `C14_new_finalize_block`.) -/
structure PickleTransport {Stream : Type} (dump : Nat → List PyVal → Stream) (load : Stream → Option (List PyVal)) : Prop where
  args_back : ∀ proto, proto ≤ 5 → ∀ args, load (dump proto args) = some args

/-- the hypothesis is satisfiable -/
theorem pickleTransport_id : PickleTransport (Stream := Nat × List PyVal) (fun p a => (p, a)) (fun s => some s.2) where
  args_back := fun _ _ _ => rfl

/-- the precision a reader of the format string `'%.<p>g'` finds is p -/
theorem precisionOf_gFormat (p : Nat) : precisionOf (gFormat p) = some p := by
  unfold precisionOf gFormat
  simp only [List.cons_append, List.nil_append, List.reverse_append, List.reverse_cons, List.reverse_nil,
    List.reverse_reverse]
  have hne : (fmtI p).reverse ≠ [] := by simpa using fmtI_ne_nil p
  have he : (fmtI p).reverse.isEmpty = false := by simpa using fmtI_ne_nil p
  simp only [he, Bool.false_eq_true, if_false, parseDigits_fmtI]

end DadiVerif.FileFormat
