import Mathlib.Analysis.SpecialFunctions.Log.Basic
import DadiVerif.Lemmas.Optim
/-! C12, round 5: the generated START terms read over the REAL numbers with the real `exp` and `log` (the executable model works over ℚ with
    `exp`/`log` as parameters; this file only serves `C12_start_real`).  `projectDown` is the polymorphic definition of Model/Optim.lean. -/
namespace DadiVerif.Optim

/-- a start term over ℝ: `p0`, `numpy.log`, `numpy.exp`, `_project_params_down` (anything else is not a start vector) -/
noncomputable def evalVR (p0 : List ℝ) (fixed : Option Fixed) : VE → Option (List ℝ)
  | .p0 => some p0
  | .log e => (evalVR p0 fixed e).map (·.map Real.log)
  | .exp e => (evalVR p0 fixed e).map (·.map Real.exp)
  | .down e => (evalVR p0 fixed e).map (projectDownO · fixed)
  | _ => none

theorem map_exp_log (l : List ℝ) (h : ∀ x ∈ l, 0 < x) : (l.map Real.log).map Real.exp = l := by
  rw [List.map_map]
  conv_rhs => rw [← List.map_id l]
  apply List.map_congr_left
  intro x hx
  simp [Real.exp_log (h x hx)]

/-- a well-formed start row, over ℝ: what the objective makes of the start handed to the optimiser is the contracted `p0` -/
theorem start_real (w : Wrapper) (hs : w.startOk = true) (p0 : List ℝ) (fixed : Option Fixed)
    (hpos : w.objLog = true → ∀ x ∈ projectDownO p0 fixed, 0 < x) :
    ∃ x0, w.start.bind (evalVR p0 fixed) = some x0 ∧ (if w.objLog then x0.map Real.exp else x0) = projectDownO p0 fixed := by
  simp only [Wrapper.startOk, beq_iff_eq] at hs
  rw [hs]
  cases h : w.objLog with
  | false => exact ⟨projectDownO p0 fixed, by simp [evalVR], by simp⟩
  | true => exact ⟨(projectDownO p0 fixed).map Real.log, by simp [evalVR], by simpa using map_exp_log _ (hpos h)⟩

end DadiVerif.Optim
