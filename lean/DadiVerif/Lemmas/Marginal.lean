import DadiVerif.Lemmas.Mass
/-!
# Isolated marginals (C04): without migration and selection the marginal density of a subset S of the
populations evolves, away from the all-zero / all-one corners of the S-grid, exactly like the S-system alone.

Everything is stated for ONE kernel sweep / ONE injection in a form that composes:

* `marginal_sweep_in_S`      (Theorem A) sweep along an axis that belongs to S,
* `marginal_sweep_outside_S` (Theorem B) sweep along an axis that does not belong to S,
* `marginal_stepAxisFn_in_S`, `marginal_stepAxisFn_outside_S`: A and B restated for the kernel sweep `stepAxisFn`,
* `marginal_invariant_sweep`, `marginal_invariant_step`, `marginal_invariant_integrate`,
  `marginal_invariant_integrateFn` (Theorem D) composition over axes, and over time steps,
* injection (Theorem C) lives in `Lemmas/Marginal2.lean`.

Index conventions.  A d-dimensional density swept along an axis a ∈ S is a family of lines
`φ : σ → κ → ℕ → ℚ`: `s : σ` = the coordinates of the populations of S other than a, `k : κ` = the
coordinates of all populations outside S.  `W k` is the product of the trapezoid weights of the
populations outside S, `μ φ s j = ∑ k, W k * φ s k j` the marginal, `ψ : σ → ℕ → ℚ` the S-system density.
`cs s` are the frequencies of the S-line `s`, `others s k` the frequencies of the d-line `(s,k)` (some
interleaving of `cs s` with the frequencies of `k`).
-/
namespace DadiVerif
open Gen Finset

/-! ### 1. the pivots of the forward sweep, pointwise -/

/-- `bet` of row j of `tridiag.c` as a function of the row index -/
def pivSeq (a b c : ℕ → ℚ) : ℕ → ℚ
  | 0 => b 0
  | j+1 => b (j+1) - a (j+1) * (c j / pivSeq a b c j)

theorem pivotsOk_range'_aux (a b c r : ℕ → ℚ) : ∀ (n s : ℕ),
    PivotsOk (pivSeq a b c s) (c s) ((List.range' (s+1) n).map fun j => (⟨a j, b j, c j, r j⟩ : Row)) →
    ∀ i < n, pivSeq a b c (s+1+i) ≠ 0 := by
  intro n
  induction n with
  | zero => intro s _ i hi; omega
  | succ n ih =>
    intro s h i hi
    rw [List.range'_succ, List.map_cons] at h
    obtain ⟨h0, hrest⟩ := h
    cases i with
    | zero => exact h0
    | succ i =>
      have := ih (s+1) hrest i (by omega)
      rwa [show s + 1 + (i + 1) = s + 1 + 1 + i by omega]

/-- `PivotsOk` of the rows of a line = no entry of the pointwise pivot sequence vanishes -/
theorem Line.pivots_ne_zero (L : Line) (φ : ℕ → ℚ) (hp : PivotsOk 1 0 (L.rows φ)) :
    ∀ j < L.N, pivSeq L.a L.b L.c j ≠ 0 := by
  unfold Line.rows at hp
  cases hN : L.N with
  | zero => intro j hj; omega
  | succ n =>
    rw [hN, List.range_eq_range', List.range'_succ, List.map_cons] at hp
    obtain ⟨h0, hrest⟩ := hp
    have ha : L.a 0 = 0 := by simp [Line.a]
    have e : L.b 0 - L.a 0 * ((0:ℚ) / 1) = pivSeq L.a L.b L.c 0 := by simp [pivSeq, ha]
    simp only at h0 hrest
    rw [e] at h0 hrest
    intro j hj
    cases j with
    | zero => exact h0
    | succ j =>
      have := pivotsOk_range'_aux L.a L.b L.c (fun j => φ j / L.dt) n 0 hrest j (by omega)
      rwa [show 0 + 1 + j = j + 1 by omega] at this

/-! ### 2. uniqueness for the closed interior system -/

/-- rows 1..m of a tridiagonal system with a₁ = 0 and c_m = 0 form a closed system for the unknowns
    1..m; if its pivots do not vanish its homogeneous version has only the zero solution -/
theorem tridiag_interior_zero (a b c D : ℕ → ℚ) (m : ℕ) (ha : a 1 = 0) (hc : c m = 0)
    (hpiv : ∀ j, 1 ≤ j → j ≤ m → pivSeq a b c j ≠ 0)
    (heq : ∀ j, 1 ≤ j → j ≤ m → a j * D (j-1) + b j * D j + c j * D (j+1) = 0) :
    ∀ j, 1 ≤ j → j ≤ m → D j = 0 := by
  -- forward elimination
  have fwd : ∀ j, 1 ≤ j → j ≤ m → pivSeq a b c j * D j + c j * D (j+1) = 0 := by
    intro j hj
    induction j, hj using Nat.le_induction with
    | base =>
      intro h1
      have := heq 1 (le_refl _) h1
      have e : pivSeq a b c 1 = b 1 := by simp [pivSeq, ha]
      rw [e]; rw [ha] at this; linarith
    | succ j hj ih =>
      intro hj1
      have h := ih (by omega)
      have hp := hpiv j hj (by omega)
      have hD : D j = -(c j / pivSeq a b c j) * D (j+1) := by
        field_simp; linarith
      have h' := heq (j+1) (by omega) hj1
      simp only [Nat.add_sub_cancel] at h'
      show (b (j+1) - a (j+1) * (c j / pivSeq a b c j)) * D (j+1) + c (j+1) * D (j+1+1) = 0
      linear_combination h' - a (j+1) * hD
  -- back substitution
  have back : ∀ i, i < m → D (m - i) = 0 := by
    intro i
    induction i with
    | zero =>
      intro hm
      have := fwd m hm (le_refl _)
      rw [hc] at this
      have hp := hpiv m hm (le_refl _)
      simpa [hp] using this
    | succ i ih =>
      intro hi
      have hnext := ih (by omega)
      have h := fwd (m - (i+1)) (by omega) (by omega)
      rw [show m - (i+1) + 1 = m - i by omega, hnext] at h
      have hp := hpiv (m - (i+1)) (by omega) (by omega)
      simpa [hp] using h
  intro j hj hjm
  have := back (m - j) (by omega)
  rwa [show m - (m - j) = j by omega] at this

/-! ### 3. the marginal of a family of lines that differ only in their boundary terms -/

/-- Abstract core of Theorem A.  `L0` is the line of the S-system, `Lk k` the lines of the d-system above
    it; they share `a`, `c`, `dt`, `N` and the interior of `b` (they differ only in the absorbing terms at
    the two end nodes), and the interior rows are decoupled from the end nodes (`a 1 = 0`,
    `c (N-2) = 0`).  If the `W`-weighted sum of the right-hand sides agrees with the S right-hand side
    on the interior nodes then so do the solutions; at an end node they agree as well provided the
    diagonal entries agree there and the right-hand sides agree there. -/
theorem Line.marginal_step {κ : Type} [Fintype κ] (L0 : Line) (Lk : κ → Line) (W : κ → ℚ)
    (φ : κ → ℕ → ℚ) (ψ : ℕ → ℚ) (hN : 3 ≤ L0.N)
    (hsN : ∀ k, (Lk k).N = L0.N) (hsdt : ∀ k, (Lk k).dt = L0.dt)
    (hsa : ∀ k j, (Lk k).a j = L0.a j) (hsc : ∀ k j, (Lk k).c j = L0.c j)
    (hsb : ∀ k j, 1 ≤ j → j + 2 ≤ L0.N → (Lk k).b j = L0.b j)
    (ha1 : L0.a 1 = 0) (hcN : L0.c (L0.N - 2) = 0)
    (hp0 : PivotsOk 1 0 (L0.rows ψ)) (hpk : ∀ k, PivotsOk 1 0 ((Lk k).rows (φ k)))
    (hint : ∀ j, 1 ≤ j → j + 2 ≤ L0.N → ∑ k, W k * φ k j = ψ j) :
    (∀ j, 1 ≤ j → j + 2 ≤ L0.N → ∑ k, W k * (Lk k).stepFn (φ k) j = L0.stepFn ψ j)
    ∧ ((∀ k, (Lk k).b 0 = L0.b 0) → ∑ k, W k * φ k 0 = ψ 0 →
        ∑ k, W k * (Lk k).stepFn (φ k) 0 = L0.stepFn ψ 0)
    ∧ ((∀ k, (Lk k).b (L0.N - 1) = L0.b (L0.N - 1)) → ∑ k, W k * φ k (L0.N - 1) = ψ (L0.N - 1) →
        ∑ k, W k * (Lk k).stepFn (φ k) (L0.N - 1) = L0.stepFn ψ (L0.N - 1)) := by
  set S : ℕ → ℚ := fun j => ∑ k, W k * (Lk k).stepFn (φ k) j with hS
  set y : ℕ → ℚ := L0.stepFn ψ with hy
  have hy_eq : ∀ j < L0.N, L0.a j * y (j-1) + L0.b j * y j + L0.c j * y (j+1) = ψ j / L0.dt :=
    L0.step_solves ψ hp0
  -- the W-weighted sum of the d-solutions satisfies row j of the S-system wherever the diagonals agree
  have key : ∀ j < L0.N, (∀ k, (Lk k).b j = L0.b j) →
      L0.a j * S (j-1) + L0.b j * S j + L0.c j * S (j+1) = (∑ k, W k * φ k j) / L0.dt := by
    intro j hj hb
    simp only [hS, Finset.mul_sum, ← Finset.sum_add_distrib, Finset.sum_div]
    refine Finset.sum_congr rfl (fun k _ => ?_)
    have h := (Lk k).step_solves (φ k) (hpk k) j (by rw [hsN k]; exact hj)
    unfold Line.apply at h
    rw [hsa, hsc, hb k, hsdt] at h
    linear_combination (W k) * h
  have hpiv := L0.pivots_ne_zero ψ hp0
  have hint' : ∀ j, 1 ≤ j → j + 2 ≤ L0.N → S j = y j := by
    have hD := tridiag_interior_zero L0.a L0.b L0.c (fun j => S j - y j) (L0.N - 2) ha1 hcN
      (fun j _ hj2 => hpiv j (by omega))
      (fun j hj1 hj2 => by
        have h1 := key j (by omega) (fun k => hsb k j hj1 (by omega))
        have h2 := hy_eq j (by omega)
        rw [hint j hj1 (by omega)] at h1
        linear_combination h1 - h2)
    intro j hj1 hj2
    have := hD j hj1 (by omega)
    linarith
  refine ⟨hint', ?_, ?_⟩
  · intro hb hr
    have h1 := key 0 (by omega) hb
    have h2 := hy_eq 0 (by omega)
    have ha0 : L0.a 0 = 0 := by simp [Line.a]
    have hb0 : L0.b 0 ≠ 0 := hpiv 0 (by omega)
    rw [hr, ha0, hint' 1 (le_refl _) (by omega)] at h1
    rw [ha0] at h2
    have : L0.b 0 * (S 0 - y 0) = 0 := by linear_combination h1 - h2
    rcases mul_eq_zero.mp this with h | h
    · exact absurd h hb0
    · show S 0 = y 0
      linarith
  · intro hb hr
    obtain ⟨n, hn⟩ : ∃ n, L0.N = n + 3 := ⟨L0.N - 3, by omega⟩
    have e1 : L0.N - 1 = n + 2 := by omega
    have e2 : L0.N - 2 = n + 1 := by omega
    rw [e1] at hb hr ⊢
    rw [e2] at hcN
    have h1 := key (n+2) (by omega) hb
    have h2 := hy_eq (n+2) (by omega)
    have hc0 : L0.c (n+2) = 0 := by
      unfold Line.c; rw [if_neg (by omega)]
    have hbN : L0.b (n+2) ≠ 0 := by
      have := hpiv (n+2) (by omega)
      have e : pivSeq L0.a L0.b L0.c (n+2) = L0.b (n+2) := by
        show L0.b (n+2) - L0.a (n+2) * (L0.c (n+1) / pivSeq L0.a L0.b L0.c (n+1)) = L0.b (n+2)
        rw [hcN]; simp
      rwa [e] at this
    have e3 : n + 2 - 1 = n + 1 := by omega
    rw [e3] at h1 h2
    rw [hr, hc0, hint' (n+1) (by omega) (by omega)] at h1
    rw [hc0] at h2
    have : L0.b (n+2) * (S (n+2) - y (n+2)) = 0 := by linear_combination h1 - h2
    rcases mul_eq_zero.mp this with h | h
    · exact absurd h hbN
    · show S (n+2) = y (n+2)
      linarith

/-! ### 4. the lines of `axisLine` without migration and selection -/

theorem Mfun_zero (P : AxisParams) (ys : List ℚ) (hg : P.gamma = 0) (hm : ∀ m ∈ P.ms, m = 0) (u : ℚ) :
    (Mkernel u P.ms ys P.gamma P.h).getD (Mgen u P.ms ys P.gamma P.h) = 0 := by
  rw [Mkernel_getD, Mgen, hg]
  have : ∀ (ms ys : List ℚ), (∀ m ∈ ms, m = 0) → sumL (List.zipWith (fun m y => m * (y - u)) ms ys) = 0 := by
    intro ms
    induction ms with
    | nil => intro ys _; simp
    | cons m ms ih =>
      intro ys h
      cases ys with
      | nil => simp
      | cons y ys =>
        simp only [List.zipWith_cons_cons, sumL_cons]
        rw [h m (List.mem_cons_self), ih ys (fun m' hm' => h m' (List.mem_cons_of_mem _ hm'))]; ring
  rw [this P.ms ys hm]; ring

theorem deljC_zero (use : Bool) (eps : ℕ → ℚ) (VI dx : ℕ → ℚ) :
    deljC use eps (fun _ => 0) VI dx = fun _ => 1/2 := by
  funext i
  unfold deljC
  cases use <;> simp [C.delj_wj, C.delj_guard]

/-- normal form of the line without migration and selection -/
theorem axisLine_nomig (xs : Array ℚ) (P : AxisParams) (ys : List ℚ) (use : Bool) (eps : ℕ → ℚ) (dt : ℚ)
    (hg : P.gamma = 0) (hm : ∀ m ∈ P.ms, m = 0) :
    axisLine xs P ys use eps dt
      = mkLine xs P.V (fun _ => 0) (fun _ => 1/2) P.nu (ys.all (· == 0)) (ys.all (· == 1)) dt := by
  simp only [axisLine, Mfun_zero P ys hg hm, deljC_zero]


section mk
variable (xs : Array ℚ) (V M : ℚ → ℚ) (delj : ℕ → ℚ) (nu : ℚ) (dt : ℚ)

theorem mkLine_a (z o z' o' : Bool) (j : ℕ) :
    (mkLine xs V M delj nu z o dt).a j = (mkLine xs V M delj nu z' o' dt).a j := rfl
theorem mkLine_c (z o z' o' : Bool) (j : ℕ) :
    (mkLine xs V M delj nu z o dt).c j = (mkLine xs V M delj nu z' o' dt).c j := rfl
theorem mkLine_b (z o z' o' : Bool) (j : ℕ)
    (h : (mkLine xs V M delj nu z o dt).bc j = (mkLine xs V M delj nu z' o' dt).bc j) :
    (mkLine xs V M delj nu z o dt).b j = (mkLine xs V M delj nu z' o' dt).b j := by
  unfold Line.b
  rw [h]
  rfl
theorem mkLine_bc_interior (z o : Bool) (j : ℕ) (h1 : 1 ≤ j) (h2 : j + 2 ≤ xs.size) :
    (mkLine xs V M delj nu z o dt).bc j = 0 := by
  simp only [mkLine]
  rw [if_neg (by omega), if_neg (by omega)]; simp
theorem mkLine_bc_first (o : Bool) (hN : 3 ≤ xs.size) :
    (mkLine xs V M delj nu false o dt).bc 0 = 0 := by
  simp only [mkLine]
  rw [if_neg (by simp), if_neg (by omega)]; simp
theorem mkLine_bc_last (z : Bool) (hN : 3 ≤ xs.size) :
    (mkLine xs V M delj nu z false dt).bc (xs.size - 1) = 0 := by
  simp only [mkLine]
  rw [if_neg (by omega), if_neg (by simp)]; simp
end mk

theorem V_zero (P : AxisParams) : P.V 0 = 0 := by
  unfold AxisParams.V; cases P.beta <;> simp [C.Vfunc, C.Vfunc_beta]
theorem V_one (P : AxisParams) : P.V 1 = 0 := by
  unfold AxisParams.V; cases P.beta <;> simp [C.Vfunc, C.Vfunc_beta]

theorem mkLine_decoupled (xs : Array ℚ) (P : AxisParams) (delj : ℕ → ℚ) (z o : Bool) (dt : ℚ)
    (hN : 3 ≤ xs.size) (hx0 : xs.getD 0 0 = 0) (hx1 : xs.getD (xs.size - 1) 0 = 1) :
    (mkLine xs P.V (fun _ => 0) delj P.nu z o dt).a 1 = 0
    ∧ (mkLine xs P.V (fun _ => 0) delj P.nu z o dt).c (xs.size - 2) = 0 := by
  constructor
  · simp only [Line.a, mkLine, C.atemp]
    simp [hx0, V_zero]
  · have e : xs.size - 2 + 1 = xs.size - 1 := by omega
    simp only [Line.c, mkLine, C.ctemp, e, hx1, V_one]
    simp

/-! ### 5. Theorem A: sweep along an axis that belongs to S -/

/-- node `j` of a line with other-coordinates `ys` is not a corner of the grid: it is not (all others 0, j = 0) and not
    (all others 1, j = N−1) -/
def NonCornerAt (ys : List ℚ) (N j : ℕ) : Prop :=
  ¬(ys.all (· == 0) = true ∧ j = 0) ∧ ¬(ys.all (· == 1) = true ∧ j + 1 = N)

/-- the invariant: marginal `μ` and S-density `ψ` agree at every non-corner node of every S-line -/
def MargAgree {σ : Type} (N : ℕ) (cs : σ → List ℚ) (μ ψ : σ → ℕ → ℚ) : Prop :=
  ∀ s j, j < N → NonCornerAt (cs s) N j → μ s j = ψ s j

/-- the drift term of the 1-D kernel with its default β = 1 is the drift term of the d-D kernels -/
theorem AxisParams.V_beta_one (P Q : AxisParams) (hnu : P.nu = Q.nu) (hP : P.beta = some 1) (hQ : Q.beta = none)
    (u : ℚ) : P.V u = Q.V u := by
  unfold AxisParams.V
  rw [hP, hQ, hnu]
  simp only [C.Vfunc_beta, C.Vfunc]
  ring

/-- the two hypotheses on `others` of Theorems A and B hold for every interleaving (permutation) of the
    S-coordinates with the coordinates of the other populations -/
theorem all_of_perm_append (p : ℚ → Bool) (l cs cz : List ℚ) (h : l.Perm (cs ++ cz)) (hl : l.all p = true) :
    cs.all p = true := by
  rw [List.all_eq_true] at hl ⊢
  intro x hx
  exact hl x (h.mem_iff.mpr (List.mem_append_left _ hx))

/-- **Theorem A** (sweep along an axis a ∈ S).  No migration, no selection (`gamma = 0`, all `ms = 0`) in both systems,
    the same ν and the same drift function V (see `AxisParams.V_beta_one`), the same grid from 0 to 1 with ≥ 3 points and the
    same dt; `use`/`eps` (Chang–Cooper) may differ, they are irrelevant when M ≡ 0.  If the W-marginal of the d-density and the
    S-density agree at every non-corner node of every S-line before the sweep, they do so after it. -/
theorem marginal_sweep_in_S {σ κ : Type} [Fintype κ] (W : κ → ℚ) (xs : Array ℚ) (Pd Ps : AxisParams)
    (cs : σ → List ℚ) (others : σ → κ → List ℚ) (used uses : Bool)
    (epsd : σ → κ → ℕ → ℚ) (epss : σ → ℕ → ℚ) (dt : ℚ)
    (φ : σ → κ → ℕ → ℚ) (ψ : σ → ℕ → ℚ)
    (hN : 3 ≤ xs.size) (hx0 : xs.getD 0 0 = 0) (hx1 : xs.getD (xs.size - 1) 0 = 1)
    (hgd : Pd.gamma = 0) (hmd : ∀ m ∈ Pd.ms, m = 0) (hgs : Ps.gamma = 0) (hms : ∀ m ∈ Ps.ms, m = 0)
    (hnu : Pd.nu = Ps.nu) (hV : ∀ u, Pd.V u = Ps.V u)
    (hZ : ∀ s k, (others s k).all (· == 0) = true → (cs s).all (· == 0) = true)
    (hO : ∀ s k, (others s k).all (· == 1) = true → (cs s).all (· == 1) = true)
    (hpd : ∀ s k, PivotsOk 1 0 ((axisLine xs Pd (others s k) used (epsd s k) dt).rows (φ s k)))
    (hps : ∀ s, PivotsOk 1 0 ((axisLine xs Ps (cs s) uses (epss s) dt).rows (ψ s)))
    (hinv : MargAgree xs.size cs (fun s j => ∑ k, W k * φ s k j) ψ) :
    MargAgree xs.size cs
      (fun s j => ∑ k, W k *
        stepFam (fun i : σ × κ => axisLine xs Pd (others i.1 i.2) used (epsd i.1 i.2) dt)
          (fun i => φ i.1 i.2) (s, k) j)
      (stepFam (fun s => axisLine xs Ps (cs s) uses (epss s) dt) ψ) := by
  intro s j hj hnc
  have hV' : Pd.V = Ps.V := funext hV
  -- normal forms
  have eS : axisLine xs Ps (cs s) uses (epss s) dt
      = mkLine xs Ps.V (fun _ => 0) (fun _ => 1/2) Ps.nu ((cs s).all (· == 0)) ((cs s).all (· == 1)) dt :=
    axisLine_nomig xs Ps (cs s) uses (epss s) dt hgs hms
  have eD : ∀ k, axisLine xs Pd (others s k) used (epsd s k) dt
      = mkLine xs Ps.V (fun _ => 0) (fun _ => 1/2) Ps.nu ((others s k).all (· == 0)) ((others s k).all (· == 1)) dt := by
    intro k
    rw [axisLine_nomig xs Pd (others s k) used (epsd s k) dt hgd hmd, hV', hnu]
  have hdec := mkLine_decoupled xs Ps (fun _ => 1/2) ((cs s).all (· == 0)) ((cs s).all (· == 1)) dt hN hx0 hx1
  have hps' := hps s
  have hpd' := hpd s
  simp only [stepFam]
  rw [eS] at hps' ⊢
  simp only [eD] at hpd' ⊢
  set L0 := mkLine xs Ps.V (fun _ => 0) (fun _ => 1/2) Ps.nu ((cs s).all (· == 0)) ((cs s).all (· == 1)) dt with hL0
  have hmain := Line.marginal_step L0
    (fun k => mkLine xs Ps.V (fun _ => 0) (fun _ => 1/2) Ps.nu ((others s k).all (· == 0)) ((others s k).all (· == 1)) dt)
    W (φ s) (ψ s) hN (fun _ => rfl) (fun _ => rfl) (fun _ _ => rfl) (fun _ _ => rfl)
    (fun k j h1 h2 => mkLine_b _ _ _ _ _ _ _ _ _ _ _ (by
      rw [mkLine_bc_interior _ _ _ _ _ _ _ _ _ h1 h2, mkLine_bc_interior _ _ _ _ _ _ _ _ _ h1 h2]))
    hdec.1 hdec.2 hps' hpd'
    (fun j h1 h2 => by
      have h2' : j + 2 ≤ xs.size := h2
      exact hinv s j (by omega) ⟨by omega, by omega⟩)
  obtain ⟨hI, hF, hL⟩ := hmain
  show ∑ k, W k * (Line.stepFn _ (φ s k)) j = L0.stepFn (ψ s) j
  by_cases h0 : j = 0
  · subst h0
    have hz : (cs s).all (· == 0) = false := by
      rw [Bool.eq_false_iff]; intro h; exact hnc.1 ⟨h, rfl⟩
    have hzk : ∀ k, (others s k).all (· == 0) = false := by
      intro k; rw [Bool.eq_false_iff]; intro h; rw [hZ s k h] at hz; exact Bool.noConfusion hz
    refine hF (fun k => mkLine_b _ _ _ _ _ _ _ _ _ _ _ ?_) (hinv s 0 hj hnc)
    rw [hzk k, hz, mkLine_bc_first _ _ _ _ _ _ _ hN, mkLine_bc_first _ _ _ _ _ _ _ hN]
  · by_cases h1 : j + 1 = xs.size
    · have ej : j = xs.size - 1 := by omega
      subst ej
      have ho : (cs s).all (· == 1) = false := by
        rw [Bool.eq_false_iff]; intro h; exact hnc.2 ⟨h, h1⟩
      have hok : ∀ k, (others s k).all (· == 1) = false := by
        intro k; rw [Bool.eq_false_iff]; intro h; rw [hO s k h] at ho; exact Bool.noConfusion ho
      refine hL (fun k => mkLine_b _ _ _ _ _ _ _ _ _ _ _ ?_) (hinv s _ hj hnc)
      show (mkLine _ _ _ _ _ _ _ _).bc (xs.size - 1) = (mkLine _ _ _ _ _ _ _ _).bc (xs.size - 1)
      rw [hok k, ho, mkLine_bc_last _ _ _ _ _ _ _ hN, mkLine_bc_last _ _ _ _ _ _ _ hN]
    · exact hI j (by omega) (by show j + 2 ≤ xs.size; omega)


/-! ### 6. Theorem B: sweep along an axis that does not belong to S -/

/-- trapezoid weight of node j of a grid (what `Line.w` is for every line built on that grid) -/
def gridW (xs : Array ℚ) (j : ℕ) : ℚ :=
  (Line.mk xs.size (fun j => xs.getD j 0) (fun _ => 0) (fun _ => 0) (fun _ => 0) 0).w j

theorem axisLine_w (xs : Array ℚ) (P : AxisParams) (ys : List ℚ) (use : Bool) (eps : ℕ → ℚ) (dt : ℚ) (j : ℕ) :
    (axisLine xs P ys use eps dt).w j = gridW xs j := rfl

/-- **Theorem B** -/
theorem marginal_sweep_outside_S {τ κ' : Type} [Fintype κ'] (W' : κ' → ℚ) (zs : Array ℚ) (hg : GridOk zs)
    (P : AxisParams) (ct : τ → List ℚ) (others : τ → κ' → List ℚ) (use : Bool) (eps : τ → κ' → ℕ → ℚ)
    (dt : ℚ) (hdt : dt ≠ 0) (φ : τ → κ' → ℕ → ℚ)
    (hZ : ∀ t k, (others t k).all (· == 0) = true → (ct t).all (· == 0) = true)
    (hO : ∀ t k, (others t k).all (· == 1) = true → (ct t).all (· == 1) = true)
    (hp : ∀ t k, PivotsOk 1 0 ((axisLine zs P (others t k) use (eps t k) dt).rows (φ t k)))
    (t : τ) (h0 : (ct t).all (· == 0) = false) (h1 : (ct t).all (· == 1) = false) :
    ∑ k, W' k * ∑ j ∈ range zs.size, gridW zs j *
        stepFam (fun i : τ × κ' => axisLine zs P (others i.1 i.2) use (eps i.1 i.2) dt)
          (fun i => φ i.1 i.2) (t, k) j
      = ∑ k, W' k * ∑ j ∈ range zs.size, gridW zs j * φ t k j := by
  refine Finset.sum_congr rfl (fun k _ => ?_)
  congr 1
  have hz : (others t k).all (· == 0) = false := by
    rw [Bool.eq_false_iff]; intro h; rw [hZ t k h] at h0; exact Bool.noConfusion h0
  have ho : (others t k).all (· == 1) = false := by
    rw [Bool.eq_false_iff]; intro h; rw [hO t k h] at h1; exact Bool.noConfusion h1
  exact stepFam_line_conserved
    (fun i : τ × κ' => axisLine zs P (others i.1 i.2) use (eps i.1 i.2) dt) (fun i => φ i.1 i.2) (t, k) hdt
    (weights_ne_zero zs hg P (others t k) use (eps t k) dt) (hp t k)
    (axisLine_bc_noncorner zs P (others t k) use (eps t k) dt hz ho)

/-- Theorem B in invariant form -/
theorem marginal_sweep_outside_S_inv {τ κ' : Type} [Fintype κ'] (W' : κ' → ℚ) (zs : Array ℚ) (hg : GridOk zs)
    (P : AxisParams) (ct : τ → List ℚ) (others : τ → κ' → List ℚ) (use : Bool) (eps : τ → κ' → ℕ → ℚ)
    (dt : ℚ) (hdt : dt ≠ 0) (φ : τ → κ' → ℕ → ℚ) (ψ : τ → ℚ)
    (hZ : ∀ t k, (others t k).all (· == 0) = true → (ct t).all (· == 0) = true)
    (hO : ∀ t k, (others t k).all (· == 1) = true → (ct t).all (· == 1) = true)
    (hp : ∀ t k, PivotsOk 1 0 ((axisLine zs P (others t k) use (eps t k) dt).rows (φ t k)))
    (hinv : ∀ t, (ct t).all (· == 0) = false → (ct t).all (· == 1) = false →
      ∑ k, W' k * ∑ j ∈ range zs.size, gridW zs j * φ t k j = ψ t) :
    ∀ t, (ct t).all (· == 0) = false → (ct t).all (· == 1) = false →
      ∑ k, W' k * ∑ j ∈ range zs.size, gridW zs j *
        stepFam (fun i : τ × κ' => axisLine zs P (others i.1 i.2) use (eps i.1 i.2) dt)
          (fun i => φ i.1 i.2) (t, k) j = ψ t := by
  intro t h0 h1
  rw [marginal_sweep_outside_S W' zs hg P ct others use eps dt hdt φ hZ hO hp t h0 h1]
  exact hinv t h0 h1

/-! ### 7. Theorem D: composition over the axes of one time step, and over time steps -/

theorem marginal_invariant_sweep {Xd Xs α : Type} (Inv : Xd → Xs → Prop) (inS : α → Bool)
    (fd : Xd → α → Xd) (gs : Xs → ℕ → Xs) :
    ∀ (l : List α) (n : ℕ),
    (∀ i (hi : i < (l.filter inS).length), ∀ x y, Inv x y → Inv (fd x (l.filter inS)[i]) (gs y (n + i))) →
    (∀ a ∈ l, inS a = false → ∀ x y, Inv x y → Inv (fd x a) y) →
    ∀ x y, Inv x y → Inv (l.foldl fd x) ((List.range' n (l.filter inS).length).foldl gs y) := by
  intro l
  induction l with
  | nil => intro n _ _ x y h; simpa using h
  | cons a l ih =>
    intro n hin hout x y h
    by_cases ha : inS a = true
    · have hf : (a :: l).filter inS = a :: l.filter inS := by simp [ha]
      simp only [hf, List.length_cons, List.range'_succ, List.foldl_cons] at hin ⊢
      refine ih (n+1) ?_ (fun b hb => hout b (List.mem_cons_of_mem _ hb)) _ _ ?_
      · intro i hi x y hxy
        have := hin (i+1) (by omega) x y hxy
        simpa [Nat.add_assoc, Nat.add_comm 1 i] using this
      · simpa using hin 0 (by omega) x y h
    · have ha' : inS a = false := by simpa using ha
      have hf : (a :: l).filter inS = l.filter inS := by simp [ha']
      simp only [hf, List.foldl_cons] at hin ⊢
      exact ih n hin (fun b hb => hout b (List.mem_cons_of_mem _ hb)) _ _
        (hout a List.mem_cons_self ha' x y h)

/-- one full time step -/
theorem marginal_invariant_step (Inv : (List ℕ → ℚ) → (List ℕ → ℚ) → Prop) (inS : ℕ → Bool)
    (gridsD gridsS : List (Array ℚ)) (frD nmD frS nmS : List Bool) (useD useS : Bool)
    (epsD epsS : ℕ → List ℕ → ℕ → ℚ) (PD PS : StepParams) (dt : ℚ)
    (hlen : gridsS.length = ((List.range gridsD.length).filter inS).length)
    (hinj : ∀ T U, Inv T U → Inv (injectFn gridsD frD nmD dt PD.theta0 T) (injectFn gridsS frS nmS dt PS.theta0 U))
    (hin : ∀ i (hi : i < ((List.range gridsD.length).filter inS).length), ∀ T U, Inv T U →
      Inv (sweepAxisFn gridsD frD useD epsD PD.pops PD.beta dt T ((List.range gridsD.length).filter inS)[i])
          (sweepAxisFn gridsS frS useS epsS PS.pops PS.beta dt U i))
    (hout : ∀ a < gridsD.length, inS a = false → ∀ T U, Inv T U →
      Inv (sweepAxisFn gridsD frD useD epsD PD.pops PD.beta dt T a) U) :
    ∀ T U, Inv T U → Inv (sweepFn gridsD frD nmD useD epsD PD dt T) (sweepFn gridsS frS nmS useS epsS PS dt U) := by
  intro T U h
  unfold sweepFn
  rw [hlen, List.range_eq_range' (n := ((List.range gridsD.length).filter inS).length)]
  exact marginal_invariant_sweep Inv inS _ _ (List.range gridsD.length) 0
    (fun i hi x y hxy => by simpa using hin i hi x y hxy)
    (fun a ha => hout a (List.mem_range.mp ha)) _ _ (hinj T U h)

/-- the time step actually taken is positive while `t < T`, provided the rule `stepDt` is `none` (= +∞) or positive -/
theorem thisDt_pos (o : Option ℚ) (t T : ℚ) (ht : t < T) (ho : ∀ d, o = some d → 0 < d) : 0 < thisDt o (T - t) := by
  cases o with
  | none => simp only [thisDt]; linarith
  | some d =>
    have hd := ho d rfl
    simp only [thisDt, ratMin]
    split_ifs
    · exact hd
    · linarith

/-- constant-parameter driver: both systems take the same time steps (`stepDt` equal, positive) -/
theorem marginal_invariant_integrate {Xd Xs : Type} (Inv : Xd → Xs → Prop)
    (stepD : StepParams → ℚ → Xd → Xd) (stepS : StepParams → ℚ → Xs → Xs) (tf : ℚ) (PD PS : StepParams) (T : ℚ)
    (hdt : stepDt tf PD = stepDt tf PS) (hpos : ∀ d, stepDt tf PS = some d → 0 < d)
    (hstep : ∀ dt, 0 < dt → ∀ x y, Inv x y → Inv (stepD PD dt x) (stepS PS dt y)) :
    ∀ (fuel : ℕ) (t : ℚ) (x : Xd) (y : Xs), Inv x y →
      Inv (integrateConst stepD tf PD T fuel t x) (integrateConst stepS tf PS T fuel t y) := by
  intro fuel
  induction fuel with
  | zero => intro t x y h; exact h
  | succ n ih =>
    intro t x y h
    simp only [integrateConst]
    by_cases ht : t < T
    · rw [if_pos ht, if_pos ht, hdt]
      exact ih _ _ _ (hstep _ (thisDt_pos _ t T ht hpos) _ _ h)
    · rw [if_neg ht, if_neg ht]; exact h

/-- time-dependent driver -/
theorem marginal_invariant_integrateFn {Xd Xs : Type} (Inv : Xd → Xs → Prop)
    (stepD : StepParams → ℚ → Xd → Xd) (stepS : StepParams → ℚ → Xs → Xs) (tf : ℚ) (PfD PfS : ℚ → StepParams) (T : ℚ)
    (hdt : ∀ τ, stepDt tf (PfD τ) = stepDt tf (PfS τ)) (hpos : ∀ τ d, stepDt tf (PfS τ) = some d → 0 < d)
    (hstep : ∀ τ dt, 0 < dt → ∀ x y, Inv x y → Inv (stepD (PfD τ) dt x) (stepS (PfS τ) dt y)) :
    ∀ (fuel : ℕ) (t : ℚ) (PcD PcS : StepParams) (x : Xd) (y : Xs), stepDt tf PcD = stepDt tf PcS →
      (∀ d, stepDt tf PcS = some d → 0 < d) → Inv x y →
      Inv (integrateFn stepD tf PfD T fuel t PcD x) (integrateFn stepS tf PfS T fuel t PcS y) := by
  intro fuel
  induction fuel with
  | zero => intro t _ _ x y _ _ h; exact h
  | succ n ih =>
    intro t PcD PcS x y hc hcp h
    simp only [integrateFn]
    by_cases ht : t < T
    · rw [if_pos ht, if_pos ht, hc]
      exact ih _ _ _ _ _ (hdt _) (hpos _) (hstep _ _ (thisDt_pos _ t T ht hcp) _ _ h)
    · rw [if_neg ht, if_neg ht]; exact h

/-! ### 8. Theorems A and B for the kernel sweep `stepAxisFn` on functional densities -/

/-- `stepAxisFn` on the line through the (axis-erased) multi-index `i` -/
theorem stepAxisFn_insertIdx (grids : List (Array ℚ)) (a : ℕ) (P : AxisParams) (use : Bool) (eps : List ℕ → ℕ → ℚ)
    (dt : ℚ) (T : List ℕ → ℚ) (i : List ℕ) (j : ℕ) (ha : a ≤ i.length) :
    stepAxisFn grids a P use eps dt T (i.insertIdx a j)
      = stepFam (fun i => axisLine (grids.getD a #[]) P (otherCoords grids a i) use (eps i) dt)
          (fun i j' => T (i.insertIdx a j')) i j := by
  have e : (i.insertIdx a j).getD a 0 = j := by
    simp [List.getD_eq_getElem?_getD, List.getElem?_insertIdx_self, ha]
  unfold stepAxisFn
  simp only [List.eraseIdx_insertIdx_self, e]

/-- **Theorem A for `stepAxisFn`**: `eD s k` / `eS s` are the multi-indices (swept axis erased) of the d-line `(s,k)` and of
    the S-line `s`; the swept axis is `aD` in the d-system and `aS` in the S-system, with the same grid. -/
theorem marginal_stepAxisFn_in_S {σ κ : Type} [Fintype κ] (W : κ → ℚ) (gridsD gridsS : List (Array ℚ)) (aD aS : ℕ)
    (Pd Ps : AxisParams) (used uses : Bool) (epsD epsS : List ℕ → ℕ → ℚ) (dt : ℚ)
    (eD : σ → κ → List ℕ) (eS : σ → List ℕ) (T U : List ℕ → ℚ)
    (hgrid : gridsD.getD aD #[] = gridsS.getD aS #[])
    (haD : ∀ s k, aD ≤ (eD s k).length) (haS : ∀ s, aS ≤ (eS s).length)
    (hN : 3 ≤ (gridsS.getD aS #[]).size) (hx0 : (gridsS.getD aS #[]).getD 0 0 = 0)
    (hx1 : (gridsS.getD aS #[]).getD ((gridsS.getD aS #[]).size - 1) 0 = 1)
    (hgd : Pd.gamma = 0) (hmd : ∀ m ∈ Pd.ms, m = 0) (hgs : Ps.gamma = 0) (hms : ∀ m ∈ Ps.ms, m = 0)
    (hnu : Pd.nu = Ps.nu) (hV : ∀ u, Pd.V u = Ps.V u)
    (hZ : ∀ s k, (otherCoords gridsD aD (eD s k)).all (· == 0) = true → (otherCoords gridsS aS (eS s)).all (· == 0) = true)
    (hO : ∀ s k, (otherCoords gridsD aD (eD s k)).all (· == 1) = true → (otherCoords gridsS aS (eS s)).all (· == 1) = true)
    (hpd : ∀ s k, PivotsOk 1 0 ((axisLine (gridsD.getD aD #[]) Pd (otherCoords gridsD aD (eD s k)) used (epsD (eD s k)) dt).rows
      (fun j => T ((eD s k).insertIdx aD j))))
    (hps : ∀ s, PivotsOk 1 0 ((axisLine (gridsS.getD aS #[]) Ps (otherCoords gridsS aS (eS s)) uses (epsS (eS s)) dt).rows
      (fun j => U ((eS s).insertIdx aS j))))
    (hinv : MargAgree (gridsS.getD aS #[]).size (fun s => otherCoords gridsS aS (eS s))
      (fun s j => ∑ k, W k * T ((eD s k).insertIdx aD j)) (fun s j => U ((eS s).insertIdx aS j))) :
    MargAgree (gridsS.getD aS #[]).size (fun s => otherCoords gridsS aS (eS s))
      (fun s j => ∑ k, W k * stepAxisFn gridsD aD Pd used epsD dt T ((eD s k).insertIdx aD j))
      (fun s j => stepAxisFn gridsS aS Ps uses epsS dt U ((eS s).insertIdx aS j)) := by
  rw [hgrid] at hpd
  have h := marginal_sweep_in_S W (gridsS.getD aS #[]) Pd Ps (fun s => otherCoords gridsS aS (eS s))
    (fun s k => otherCoords gridsD aD (eD s k)) used uses (fun s k => epsD (eD s k)) (fun s => epsS (eS s)) dt
    (fun s k j => T ((eD s k).insertIdx aD j)) (fun s j => U ((eS s).insertIdx aS j))
    hN hx0 hx1 hgd hmd hgs hms hnu hV hZ hO hpd hps hinv
  intro s j hj hnc
  have := h s j hj hnc
  simp only [stepAxisFn_insertIdx _ _ _ _ _ _ _ _ _ (haD s _), stepAxisFn_insertIdx _ _ _ _ _ _ _ _ _ (haS s), hgrid]
  exact this

/-- **Theorem B for `stepAxisFn`**: sweep along axis `b ∉ S` with grid `gridsD[b]`; `eD t k` is the d-multi-index (axis `b`
    erased) of the line above the S-index `t` with remaining complement index `k`. -/
theorem marginal_stepAxisFn_outside_S {τ κ' : Type} [Fintype κ'] (W' : κ' → ℚ) (gridsD : List (Array ℚ)) (b : ℕ)
    (hg : GridOk (gridsD.getD b #[])) (P : AxisParams) (ct : τ → List ℚ) (use : Bool) (eps : List ℕ → ℕ → ℚ)
    (dt : ℚ) (hdt : dt ≠ 0) (eD : τ → κ' → List ℕ) (T : List ℕ → ℚ) (ψ : τ → ℚ)
    (hb : ∀ t k, b ≤ (eD t k).length)
    (hZ : ∀ t k, (otherCoords gridsD b (eD t k)).all (· == 0) = true → (ct t).all (· == 0) = true)
    (hO : ∀ t k, (otherCoords gridsD b (eD t k)).all (· == 1) = true → (ct t).all (· == 1) = true)
    (hp : ∀ t k, PivotsOk 1 0 ((axisLine (gridsD.getD b #[]) P (otherCoords gridsD b (eD t k)) use (eps (eD t k)) dt).rows
      (fun j => T ((eD t k).insertIdx b j))))
    (hinv : ∀ t, (ct t).all (· == 0) = false → (ct t).all (· == 1) = false →
      ∑ k, W' k * ∑ j ∈ range (gridsD.getD b #[]).size, gridW (gridsD.getD b #[]) j * T ((eD t k).insertIdx b j) = ψ t) :
    ∀ t, (ct t).all (· == 0) = false → (ct t).all (· == 1) = false →
      ∑ k, W' k * ∑ j ∈ range (gridsD.getD b #[]).size, gridW (gridsD.getD b #[]) j *
        stepAxisFn gridsD b P use eps dt T ((eD t k).insertIdx b j) = ψ t := by
  intro t h0 h1
  have h := marginal_sweep_outside_S_inv W' (gridsD.getD b #[]) hg P ct (fun t k => otherCoords gridsD b (eD t k)) use
    (fun t k => eps (eD t k)) dt hdt (fun t k j => T ((eD t k).insertIdx b j)) ψ hZ hO hp hinv t h0 h1
  simp only [stepAxisFn_insertIdx _ _ _ _ _ _ _ _ _ (hb t _)]
  exact h

/-! ### 9. non-vacuity: a concrete instance (3-point grid, d = 3, |S| = 2, sweep along an axis of S) -/
namespace MarginalExample

def P (ms : List ℚ) : AxisParams := { nu := 1, gamma := 0, h := 1/2, ms := ms, beta := none }
def g (i : Fin 3) : ℚ := (i.val : ℚ) / 2
def W (k : Fin 3) : ℚ := if k.val = 1 then 1/2 else 1/4
def φ (s k : Fin 3) (j : ℕ) : ℚ := (s.val + 1) + 2 * (k.val + 1) * (j + 1)
/-- agrees with the marginal of `φ` away from the corners, differs from it at the corners -/
def ψ (s : Fin 3) (j : ℕ) : ℚ :=
  (∑ k, W k * φ s k j)
    + (if ([g s].all (· == 0) = true ∧ j = 0) ∨ ([g s].all (· == 1) = true ∧ j + 1 = 3) then 7 else 0)

/-- on the grid {0, 1/2, 1} with ν = 1, dt = 1, pure drift, no pivot vanishes — whatever the corner flags -/
theorem pivots' (P : AxisParams) (hnu : P.nu = 1) (hg : P.gamma = 0) (hm : ∀ m ∈ P.ms, m = 0)
    (hV : ∀ u, P.V u = u * (1 - u)) (ys : List ℚ) (use : Bool) (eps : ℕ → ℚ) (f : ℕ → ℚ) :
    PivotsOk 1 0 ((axisLine #[0, 1/2, 1] P ys use eps 1).rows f) := by
  rw [axisLine_nomig _ _ _ _ _ _ hg hm]
  change PivotsOk 1 0 ([0, 1, 2].map _)
  simp only [mkLine, List.map, PivotsOk, Line.a, Line.b, Line.c, Line.df,
    Line.dxL, Line.dxR, C.atemp, C.ctemp, C.bcFirst, C.bcLast, hV, hnu]
  cases ys.all (· == 0) <;> cases ys.all (· == 1) <;> norm_num [Array.getD]

theorem pivots (ms : List ℚ) (hm : ∀ m ∈ ms, m = 0) (ys : List ℚ) (use : Bool) (eps : ℕ → ℚ) (f : ℕ → ℚ) :
    PivotsOk 1 0 ((axisLine #[0, 1/2, 1] (P ms) ys use eps 1).rows f) :=
  pivots' (P ms) rfl rfl hm (fun u => by simp [AxisParams.V, P, C.Vfunc]) ys use eps f

theorem gridOk : GridOk #[0, 1/2, 1] := by
  refine ⟨by decide, ?_⟩
  intro j hj
  have h3 : j + 1 < 3 := hj
  have : j = 0 ∨ j = 1 := by omega
  rcases this with rfl | rfl <;> norm_num [Array.getD]

/-- all hypotheses of Theorem A hold for this instance (different `use`/`eps` in the two systems on purpose) -/
example :
    MargAgree 3 (fun s : Fin 3 => [g s])
      (fun s j => ∑ k, W k *
        stepFam (fun i : Fin 3 × Fin 3 => axisLine #[0, 1/2, 1] (P [0, 0]) [g i.1, g i.2] true (fun _ => 2) 1)
          (fun i => φ i.1 i.2) (s, k) j)
      (stepFam (fun s => axisLine #[0, 1/2, 1] (P [0]) [g s] false (fun _ => 0) 1) ψ) :=
  marginal_sweep_in_S W #[0, 1/2, 1] (P [0, 0]) (P [0]) (fun s => [g s]) (fun s k => [g s, g k]) true false
    (fun _ _ _ => 2) (fun _ _ => 0) 1 φ ψ (by decide) (by norm_num [Array.getD]) (by norm_num [Array.getD])
    rfl (by simp [P]) rfl (by simp [P]) rfl (fun _ => rfl)
    (fun s k h => by simp at h ⊢; exact h.1) (fun s k h => by simp at h ⊢; exact h.1)
    (fun s k => pivots _ (by simp) _ _ _ _) (fun s => pivots _ (by simp) _ _ _ _)
    (fun s j _ hnc => by
      have h : ¬(([g s].all (· == 0) = true ∧ j = 0) ∨ ([g s].all (· == 1) = true ∧ j + 1 = 3)) := not_or.mpr hnc
      show _ = (∑ k, W k * φ s k j) + _
      rw [if_neg h]; ring)

/-- the invariant of the example is not trivially true everywhere: `ψ` differs from the marginal at a corner -/
example : ψ 0 0 ≠ ∑ k, W k * φ 0 k 0 := by
  simp [ψ, g]

/-- all hypotheses of Theorem B hold: d = 2, S = {population 0}, sweep along population 1, interior S-node -/
example :
    ∑ k : Unit, (1:ℚ) * ∑ j ∈ range 3, gridW #[0, 1/2, 1] j *
        stepFam (fun i : Fin 3 × Unit => axisLine #[0, 1/2, 1] (P [0]) [g i.1] false (fun _ => 0) 1)
          (fun i => φ i.1 0) ((1 : Fin 3), k) j
      = ∑ _k : Unit, (1:ℚ) * ∑ j ∈ range 3, gridW #[0, 1/2, 1] j * φ 1 0 j :=
  marginal_sweep_outside_S (fun _ : Unit => (1:ℚ)) #[0, 1/2, 1] gridOk (P [0]) (fun t : Fin 3 => [g t])
    (fun t _ => [g t]) false (fun _ _ _ => 0) 1 one_ne_zero (fun t _ => φ t 0) (fun _ _ h => h) (fun _ _ h => h)
    (fun t _ => pivots _ (by simp) _ _ _ _) 1 (by simp [g]) (by simp [g])

end MarginalExample

end DadiVerif
