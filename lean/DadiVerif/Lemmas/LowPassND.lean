import DadiVerif.Lemmas.LowPassCov
/-! C18 helper lemmas, part 5: sums over the index boxes of the corrected model, totals of the analytic and
    simulated parts, the per-axis kernel, tables. -/
namespace DadiVerif.LowPass
open Finset

/-! ### sums over a box -/

/-- Σ over all multi-indices of a box -/
def sumBox : List ℕ → (List ℕ → ℚ) → ℚ
  | [], f => f []
  | n :: ns, f => ∑ i ∈ range n, sumBox ns fun r => f (i :: r)

theorem sumIn_eq_box (A : List Axis) (f : List ℕ → ℚ) : sumIn A f = sumBox (A.map (·.nIn)) f := by
  induction A generalizing f with
  | nil => rfl
  | cons a A ih => simp only [sumIn, sumTo_eq, List.map_cons, sumBox, ih]

theorem sumOut_eq_box (A : List Axis) (f : List ℕ → ℚ) : sumOut A f = sumBox (A.map (·.nOut)) f := by
  induction A generalizing f with
  | nil => rfl
  | cons a A ih => simp only [sumOut, sumTo_eq, List.map_cons, sumBox, ih]

/-- membership in a box -/
def inBox : List ℕ → List ℕ → Prop
  | [], [] => True
  | n :: ns, i :: is => i < n ∧ inBox ns is
  | _, _ => False

theorem sumBox_congr (ns : List ℕ) (f g : List ℕ → ℚ) (h : ∀ i, inBox ns i → f i = g i) :
    sumBox ns f = sumBox ns g := by
  induction ns generalizing f g with
  | nil => exact h [] trivial
  | cons n ns ih =>
    simp only [sumBox]
    refine Finset.sum_congr rfl (fun i hi => ih _ _ (fun r hr => h (i :: r) ⟨by simpa using hi, hr⟩))

theorem sumBox_le (ns : List ℕ) (f g : List ℕ → ℚ) (h : ∀ i, inBox ns i → f i ≤ g i) :
    sumBox ns f ≤ sumBox ns g := by
  induction ns generalizing f g with
  | nil => exact h [] trivial
  | cons n ns ih =>
    simp only [sumBox]
    refine Finset.sum_le_sum (fun i hi => ih _ _ (fun r hr => h (i :: r) ⟨by simpa using hi, hr⟩))

theorem sumBox_add (ns : List ℕ) (f g : List ℕ → ℚ) :
    sumBox ns (fun i => f i + g i) = sumBox ns f + sumBox ns g := by
  induction ns generalizing f g with
  | nil => rfl
  | cons n ns ih => simp only [sumBox, ih, Finset.sum_add_distrib]

theorem sumBox_mul_left (ns : List ℕ) (c : ℚ) (f : List ℕ → ℚ) :
    sumBox ns (fun i => c * f i) = c * sumBox ns f := by
  induction ns generalizing f with
  | nil => rfl
  | cons n ns ih => simp only [sumBox, ih, Finset.mul_sum]

theorem sumBox_zero (ns : List ℕ) : sumBox ns (fun _ => 0) = 0 := by
  induction ns with
  | nil => rfl
  | cons n ns ih => simp only [sumBox, ih, Finset.sum_const_zero]

theorem sumBox_sum (ns : List ℕ) (n : ℕ) (g : ℕ → List ℕ → ℚ) :
    sumBox ns (fun j => ∑ i ∈ range n, g i j) = ∑ i ∈ range n, sumBox ns (g i) := by
  induction ns generalizing g with
  | nil => rfl
  | cons m ns ih =>
    simp only [sumBox, ih]
    rw [Finset.sum_comm]

/-- Fubini for two boxes -/
theorem sumBox_swap (ms ns : List ℕ) (F : List ℕ → List ℕ → ℚ) :
    sumBox ms (fun j => sumBox ns (fun i => F i j)) = sumBox ns (fun i => sumBox ms (fun j => F i j)) := by
  induction ns generalizing F with
  | nil => rfl
  | cons n ns ih =>
    simp only [sumBox]
    rw [sumBox_sum]
    refine Finset.sum_congr rfl (fun i _ => ?_)
    exact ih (fun r j => F (i :: r) j)

/-! ### the product kernel -/

/-- Π_p (row sum of K_p at i_p) -/
def rowProd : List Axis → List ℕ → ℚ
  | [], _ => 1
  | a :: A, i :: is => (∑ j ∈ range a.nOut, a.K i j) * rowProd A is
  | _ :: _, [] => 0

theorem sumOut_kerND (A : List Axis) : ∀ i : List ℕ, sumOut A (kerND A i) = rowProd A i := by
  induction A with
  | nil => intro i; rfl
  | cons a A ih =>
    intro i
    cases i with
    | nil =>
      rw [sumOut_eq_box]
      simp only [kerND, rowProd]
      exact sumBox_zero _
    | cons i0 is =>
      simp only [sumOut, sumTo_eq, kerND, rowProd]
      rw [Finset.sum_mul]
      refine Finset.sum_congr rfl (fun j _ => ?_)
      rw [sumOut_eq_box, sumBox_mul_left, ← sumOut_eq_box, ih]

/-- the conditions on one axis that make the correction a sub-stochastic map -/
structure AxisOk (a : Axis) : Prop where
  K_nonneg : ∀ i, i < a.nIn → ∀ j, j < a.nOut → 0 ≤ a.K i j
  K_rowsum : ∀ i, i < a.nIn → ∑ j ∈ range a.nOut, a.K i j ≤ 1
  pnc_nonneg : ∀ i, i < a.nIn → 0 ≤ a.pnc i
  pnc_le : ∀ i, i < a.nIn → a.pnc i ≤ 1

theorem rowProd_unit (A : List Axis) (hA : ∀ a ∈ A, AxisOk a) :
    ∀ i, inBox (A.map (·.nIn)) i → 0 ≤ rowProd A i ∧ rowProd A i ≤ 1 := by
  induction A with
  | nil => intro i _; simp [rowProd]
  | cons a A ih =>
    intro i hi
    cases i with
    | nil => simp [inBox] at hi
    | cons i0 is =>
      simp only [List.map_cons, inBox] at hi
      have ha := hA a (List.mem_cons_self)
      obtain ⟨h0, h1⟩ := ih (fun b hb => hA b (List.mem_cons_of_mem _ hb)) is hi.2
      have hs0 : 0 ≤ ∑ j ∈ range a.nOut, a.K i0 j :=
        Finset.sum_nonneg (fun j hj => ha.K_nonneg i0 hi.1 j (by simpa using hj))
      have hs1 := ha.K_rowsum i0 hi.1
      simp only [rowProd]
      exact ⟨mul_nonneg hs0 h0, by nlinarith⟩

theorem pncND_unit (A : List Axis) (hA : ∀ a ∈ A, AxisOk a) :
    ∀ i, inBox (A.map (·.nIn)) i → 0 ≤ pncND A i ∧ pncND A i ≤ 1 := by
  induction A with
  | nil => intro i _; simp [pncND]
  | cons a A ih =>
    intro i hi
    cases i with
    | nil => simp [inBox] at hi
    | cons i0 is =>
      simp only [List.map_cons, inBox] at hi
      have ha := hA a (List.mem_cons_self)
      obtain ⟨h0, h1⟩ := ih (fun b hb => hA b (List.mem_cons_of_mem _ hb)) is hi.2
      have := ha.pnc_nonneg i0 hi.1
      have := ha.pnc_le i0 hi.1
      simp only [pncND]
      exact ⟨by positivity, by nlinarith⟩

/-- total of the corrected model: every source entry is weighted by
    (1−no-call)·Π row sums (analytic) or by the total of its simulated output -/
theorem corrected_total (A : List Axis) (thr : ℚ) (model : List ℕ → ℚ) (sim : List ℕ → List ℕ → ℚ) :
    sumOut A (corrected A thr model sim)
      = sumIn A fun i =>
          Gen.LowPass.analyticEntry (model i) (b2r (Gen.LowPass.useSim (pncND A i) thr)) (pncND A i) * rowProd A i
          + (if Gen.LowPass.useSim (pncND A i) thr then model i * sumOut A (sim i) else 0) := by
  unfold corrected Gen.LowPass.outputEntry Gen.LowPass.simTerm
  rw [sumOut_eq_box]
  simp only [sumIn_eq_box]
  rw [sumBox_add]
  rw [sumBox_swap (A.map (·.nOut)) (A.map (·.nIn)) (fun i j =>
        Gen.LowPass.analyticEntry (model i) (b2r (Gen.LowPass.useSim (pncND A i) thr)) (pncND A i) * kerND A i j)]
  rw [sumBox_swap (A.map (·.nOut)) (A.map (·.nIn)) (fun i j =>
        if Gen.LowPass.useSim (pncND A i) thr then model i * sim i j else 0)]
  rw [← sumBox_add]
  apply sumBox_congr
  intro i _
  congr 1
  · rw [sumBox_mul_left, ← sumOut_eq_box, sumOut_kerND]
  · split_ifs
    · rw [sumBox_mul_left, ← sumOut_eq_box]
    · exact sumBox_zero _

/-! ### the kernel of one axis -/

theorem kernel_eq (pe : ℚ) (P H : ℕ → ℕ → ℚ) (nsub i j : ℕ) :
    kernel pe P H nsub i j = ∑ k ∈ range (nsub + 1), pe * P i k * H k j := by
  simp only [kernel, sumTo_eq, Gen.LowPass.projScaled]

theorem kernel_rowsum (pe : ℚ) (P H : ℕ → ℕ → ℚ) (nsub i : ℕ)
    (hP : ∑ k ∈ range (nsub + 1), P i k = 1)
    (hH : ∀ k, k < nsub + 1 → ∑ j ∈ range (nsub + 1), H k j = 1) :
    ∑ j ∈ range (nsub + 1), kernel pe P H nsub i j = pe := by
  simp only [kernel_eq]
  rw [Finset.sum_comm]
  have : ∀ k ∈ range (nsub + 1), ∑ j ∈ range (nsub + 1), pe * P i k * H k j = pe * P i k := by
    intro k hk
    rw [← Finset.mul_sum, hH k (by simpa using hk), mul_one]
  rw [Finset.sum_congr rfl this, ← Finset.mul_sum, hP, mul_one]

theorem kernel_nonneg (pe : ℚ) (hpe : 0 ≤ pe) (P H : ℕ → ℕ → ℚ) (nsub i j : ℕ)
    (hP : ∀ k, k < nsub + 1 → 0 ≤ P i k) (hH : ∀ k, k < nsub + 1 → 0 ≤ H k j) :
    0 ≤ kernel pe P H nsub i j := by
  rw [kernel_eq]
  apply Finset.sum_nonneg
  intro k hk
  have := hP k (by simpa using hk)
  have := hH k (by simpa using hk)
  positivity

/-- no heterozygote error and enough coverage: the kernel is the projection matrix -/
theorem kernel_deep (P H : ℕ → ℕ → ℚ) (nsub i j : ℕ) (hj : j < nsub + 1)
    (hH : ∀ k, k < nsub + 1 → H k j = if j = k then 1 else 0) :
    kernel 1 P H nsub i j = P i j := by
  rw [kernel_eq, Finset.sum_eq_single j]
  · rw [hH j hj]; simp
  · intro k hk hne
    rw [hH k (by simpa using hk), if_neg (fun e => hne e.symm)]; simp
  · intro h; exfalso; exact h (by simpa using hj)

/-! ### tables -/

theorem tableAt_mkTable (n m : ℕ) (f : ℕ → ℕ → ℚ) (i j : ℕ) (hi : i < n) (hj : j < m) :
    tableAt (mkTable n m f) i j = f i j := by
  simp [tableAt, mkTable, Array.getD, hi, hj]

theorem vecAt_mkVec (n : ℕ) (f : ℕ → ℚ) (i : ℕ) (hi : i < n) : vecAt (mkVec n f) i = f i := by
  simp [vecAt, mkVec, Array.getD, hi]

theorem tableAt_tabOfRows (n m : ℕ) (f : ℕ → ℕ → ℚ) (i j : ℕ) (hi : i < n) (hj : j < m) :
    tableAt (tabOfRows ((List.range n).map fun i => (List.range m).map (f i))) i j = f i j := by
  simp [tableAt, tabOfRows, Array.getD, hi, hj]

end DadiVerif.LowPass
