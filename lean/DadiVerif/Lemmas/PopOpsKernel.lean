import DadiVerif.Lemmas.Hypergeom
import DadiVerif.Lemmas.PopOpsScramble
import DadiVerif.Lemmas.PopOpsFold
import DadiVerif.Lemmas.PopOpsProjAbs
/-! C10: the weights of the model of `_project_one_axis` are the hypergeometric weights `hyp` of Lemmas/Hypergeom.lean
    (C08's pure-mathematics file, imported, not edited); their rows sum to one; the two corner cells only reach corner cells. -/
namespace DadiVerif.PopOps
open Finset

/-- the model's windowed weight is the hypergeometric weight (outside the window the binomials vanish) -/
theorem projW_eq_hyp (n m h j : ℕ) (hm : m ≤ n) (hh : h ≤ n) : projW n m h j = hyp m n h j := by
  unfold projW
  rw [chooseN_eq, chooseN_eq, chooseN_eq, inWin_eq n m h j hh]
  by_cases hw : m - (n - h) ≤ j ∧ j ≤ min h m
  · rw [if_pos (by simpa using hw), hyp_of_le (by omega : j ≤ h)]
  · rw [if_neg (by simpa using hw)]
    by_cases hjh : j ≤ h
    · rw [hyp_of_le hjh]
      by_cases hjm : j ≤ m
      · have : (n - m).choose (h - j) = 0 := Nat.choose_eq_zero_of_lt (by omega)
        rw [this]; simp
      · rw [Nat.choose_eq_zero_of_lt (by omega : m < j)]; simp
    · rw [hyp_of_lt (by omega)]

theorem projW_zero_of_not_win (n m h j : ℕ) (hh : h ≤ n) (hw : ¬ (m - (n - h) ≤ j ∧ j ≤ min h m)) : projW n m h j = 0 := by
  unfold projW; rw [inWin_eq n m h j hh, if_neg (by simpa using hw)]

/-- every source count `h` is distributed completely over the targets `0..m` -/
theorem projW_rowsum (n m h : ℕ) (hm : m ≤ n) (hh : h ≤ n) :
    ((List.range (m + 1)).map fun j => projW n m h j).sum = 1 := by
  rw [sum_range_eq]
  rw [Finset.sum_congr rfl (fun j _ => projW_eq_hyp n m h j hm hh)]
  exact hyp_rowsum m n h hm hh

theorem getD_map_zero (sh : List Nat) (k : Nat) : (sh.map (fun _ => 0)).getD k 0 = 0 := by
  induction sh generalizing k with
  | nil => simp
  | cons s ss ih => cases k with
    | zero => simp
    | succ k => simpa using ih k

theorem map_zero_set (sh : List Nat) (k v : Nat) : (sh.set k v).map (fun _ => 0) = sh.map (fun _ => 0) := by
  rw [List.map_set]
  conv_rhs => rw [← set_getD_self (sh.map (fun _ => 0)) k 0]
  rw [getD_map_zero]

theorem map_pred_set (sh : List Nat) (k v : Nat) : (sh.set k (v + 1)).map (· - 1) = (sh.map (· - 1)).set k v := by
  rw [List.map_set]; simp

theorem isCorner_iff (sh : List Nat) (i : Idx) :
    isCorner sh i = true ↔ (i = sh.map (fun _ => 0) ∨ i = sh.map (· - 1)) := by
  simp [isCorner]

/-- the two corners of a spectrum reach exactly the two corners of its projection -/
theorem projMsk_isCorner (sh : List Nat) (k m : Nat) (hk : k < sh.length) (hm : m + 1 ≤ sh.getD k 0)
    (j : Idx) (hj : j ∈ boxIdx (sh.set k (m + 1))) :
    projMsk k (sh.getD k 0) m (isCorner sh) j = isCorner (sh.set k (m + 1)) j := by
  have hjl : k < j.length := by rw [mem_box_length _ _ hj, List.length_set]; exact hk
  have hself : j.set k (j.getD k 0) = j := set_getD_self j k 0
  rw [Bool.eq_iff_iff, projMsk_iff, isCorner_iff]
  constructor
  · rintro ⟨h, hh, hw, hc⟩
    rw [isCorner_iff] at hc
    rcases hc with hc | hc
    · left
      have h0 : h = 0 := by
        have := congrArg (fun l => l.getD k 0) hc
        simp only [getD_set_self _ _ _ _ hjl, getD_map_zero] at this
        exact this
      have hj0 : j.getD k 0 = 0 := by omega
      rw [map_zero_set, ← hc, h0, ← hj0, hself]
    · right
      have h0 : h = sh.getD k 0 - 1 := by
        have := congrArg (fun l => l.getD k 0) hc
        simp only [getD_set_self _ _ _ _ hjl, getD_map_pred] at this
        exact this
      have hjm : j.getD k 0 = m := by omega
      rw [map_pred_set, ← hc, List.set_set, ← hjm, hself]
  · rintro (hc | hc)
    · have hj0 : j.getD k 0 = 0 := by rw [hc]; exact getD_map_zero _ _
      refine ⟨0, by omega, ⟨by omega, by omega⟩, ?_⟩
      rw [isCorner_iff]; left
      have e : j.set k 0 = j := by have := hself; rwa [hj0] at this
      rw [e, hc, map_zero_set]
    · have hjm : j.getD k 0 = m := by
        rw [hc, map_pred_set, getD_set_self _ _ _ _ (by simpa using hk)]
      refine ⟨sh.getD k 0 - 1, by omega, ⟨by omega, by omega⟩, ?_⟩
      rw [isCorner_iff]; right
      rw [hc, map_pred_set, List.set_set, ← getD_map_pred, set_getD_self]

end DadiVerif.PopOps
