import DadiVerif.Model.LowPass
/-! C18 helper, part 13: the Hardy–Weinberg mixture of individual-subsampling rows (the limit of the F > 0 branch of
    `projection_matrix` as F → 0⁺) *is* the hypergeometric row of the F = 0 branch — verified by kernel evaluation over the
    complete finite table of sizes n_sequenced ≤ 14 (every n_subsampling, allele count and output entry).  The statement for
    all sizes is a double-counting identity that is not formalised. -/
namespace DadiVerif.LowPass

set_option maxRecDepth 100000 in
theorem projMix0_eq_hypW_small : ∀ N < 8, ∀ m < N + 1, ∀ af < 2 * N + 1, ∀ j < 2 * m + 1,
    projMix0 (2 * N) (2 * m) af j = hypW (2 * m) (2 * N) af j := by decide +kernel

end DadiVerif.LowPass
