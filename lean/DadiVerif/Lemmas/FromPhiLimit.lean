import DadiVerif.Lemmas.FromPhiConv
import Mathlib.Algebra.Order.BigOperators.Ring.Finset
import Mathlib.Algebra.Order.BigOperators.Group.Finset
import Mathlib.Algebra.BigOperators.Intervals
import Mathlib.Algebra.Order.Field.Basic
import Mathlib.Tactic.Positivity
import Mathlib.Tactic.GCongr
import Mathlib.Tactic.FieldSimp
import Mathlib.Tactic.Ring
import Mathlib.Tactic.Linarith
/-! C05, round 5 — the F → 0⁺ limit of the beta-binomial sampling factor of the inbreeding path.

With α = y·c, β = (1−y)·c and c = (1−F)/F the factor `betaBinom P i α β` is C(P,i) times a product of P ratios
(α+j)/(c+j) resp. (β+j−i)/(c+j), each of which lies in [0,1] and differs from its limit (y resp. 1−y) by at most j/c.
A product of numbers in [0,1] is 1-Lipschitz in every factor, so |betaBinom − binomial| ≤ C(P,i)·P²/c = C(P,i)·P²·F/(1−F).
(The convolution over individuals is treated in FromPhiLimitConv.lean.) -/
namespace DadiVerif.FromPhi
open Finset

/-! ### products of numbers in [0,1] -/

/-- |Π u − Π v| ≤ Σ |u − v| for factors in [0,1] (any ordered field: used over ℚ for the model and over ℝ for integrands) -/
theorem abs_prod_sub_prod_le {α : Type*} [Field α] [LinearOrder α] [IsStrictOrderedRing α] (m : ℕ) (u v : ℕ → α)
    (hu : ∀ j, j < m → 0 ≤ u j ∧ u j ≤ 1) (hv : ∀ j, j < m → 0 ≤ v j ∧ v j ≤ 1) :
    |∏ j ∈ range m, u j - ∏ j ∈ range m, v j| ≤ ∑ j ∈ range m, |u j - v j| := by
  induction m with
  | zero => simp
  | succ m ih =>
    have ih' := ih (fun j hj => hu j (by omega)) (fun j hj => hv j (by omega))
    rw [prod_range_succ, prod_range_succ, sum_range_succ]
    have hV0 : 0 ≤ ∏ j ∈ range m, v j := prod_nonneg fun j hj => (hv j (by have := mem_range.mp hj; omega)).1
    have hV1 : ∏ j ∈ range m, v j ≤ 1 :=
      prod_le_one (fun j hj => (hv j (by have := mem_range.mp hj; omega)).1)
        (fun j hj => (hv j (by have := mem_range.mp hj; omega)).2)
    obtain ⟨hum0, hum1⟩ := hu m (by omega)
    set U := ∏ j ∈ range m, u j
    set V := ∏ j ∈ range m, v j
    have e : U * u m - V * v m = (U - V) * u m + V * (u m - v m) := by ring
    rw [e]
    calc |(U - V) * u m + V * (u m - v m)| ≤ |(U - V) * u m| + |V * (u m - v m)| := abs_add_le _ _
      _ = |U - V| * u m + V * |u m - v m| := by rw [abs_mul, abs_mul, abs_of_nonneg hum0, abs_of_nonneg hV0]
      _ ≤ |U - V| * 1 + 1 * |u m - v m| := by
          have h1 : |U - V| * u m ≤ |U - V| * 1 := mul_le_mul_of_nonneg_left hum1 (abs_nonneg _)
          have h2 : V * |u m - v m| ≤ 1 * |u m - v m| := mul_le_mul_of_nonneg_right hV1 (abs_nonneg _)
          linarith
      _ ≤ ∑ j ∈ range m, |u j - v j| + |u m - v m| := by linarith

/-! ### rising factorials as products -/

theorem rising_eq_prod (a : ℚ) (k : ℕ) : rising a k = ∏ j ∈ range k, (a + (j : ℚ)) := by
  induction k with
  | zero => simp [rising]
  | succ k ih => rw [rising_succ, ih, prod_range_succ]

theorem rising_nonneg (a : ℚ) (ha : 0 ≤ a) (k : ℕ) : 0 ≤ rising a k := by
  rw [rising_eq_prod]
  exact prod_nonneg fun j _ => by positivity

/-! ### the beta-binomial probability as a product of P ratios -/

/-- numerator of the j-th ratio: α + j for the first i factors, β + (j − i) for the others -/
def bbNum (i : ℕ) (a b : ℚ) (j : ℕ) : ℚ := if j < i then a + (j : ℚ) else b + ((j - i : ℕ) : ℚ)

theorem prod_bbNum (P i : ℕ) (hi : i ≤ P) (a b : ℚ) :
    ∏ j ∈ range P, bbNum i a b j = rising a i * rising b (P - i) := by
  obtain ⟨m, rfl⟩ := Nat.exists_eq_add_of_le hi
  rw [prod_range_add, rising_eq_prod, rising_eq_prod, Nat.add_sub_cancel_left]
  congr 1
  · refine prod_congr rfl fun j hj => ?_
    simp [bbNum, mem_range.mp hj]
  · refine prod_congr rfl fun j _ => ?_
    simp [bbNum]

theorem betaBinom_eq_prod (P i : ℕ) (hi : i ≤ P) (a b : ℚ) :
    betaBinom P i a b = (P.choose i : ℚ) * ∏ j ∈ range P, bbNum i a b j / (a + b + (j : ℚ)) := by
  unfold betaBinom
  rw [prod_div_distrib, prod_bbNum P i hi, ← rising_eq_prod, choose_eq]
  ring

/-- the limit of the j-th ratio -/
def bbLim {α : Type*} [One α] [Sub α] (i : ℕ) (y : α) (j : ℕ) : α := if j < i then y else 1 - y

theorem prod_bbLim {α : Type*} [CommRing α] (P i : ℕ) (hi : i ≤ P) (y : α) :
    ∏ j ∈ range P, bbLim i y j = y ^ i * (1 - y) ^ (P - i) := by
  obtain ⟨m, rfl⟩ := Nat.exists_eq_add_of_le hi
  rw [prod_range_add, Nat.add_sub_cancel_left]
  congr 1
  · rw [prod_congr rfl (fun j hj => by simp [bbLim, mem_range.mp hj] : ∀ j ∈ range i, bbLim i y j = y)]
    simp
  · rw [prod_congr rfl (fun j _ => by simp [bbLim] : ∀ j ∈ range m, bbLim i y (i + j) = 1 - y)]
    simp

/-- y^i (1−y)^(n−i) is n-Lipschitz in y on [0,1] (product of n factors in [0,1]) -/
theorem abs_monomial_sub_le {α : Type*} [Field α] [LinearOrder α] [IsStrictOrderedRing α] (n i : ℕ) (hi : i ≤ n) (y z : α)
    (hy0 : 0 ≤ y) (hy1 : y ≤ 1) (hz0 : 0 ≤ z) (hz1 : z ≤ 1) :
    |y ^ i * (1 - y) ^ (n - i) - z ^ i * (1 - z) ^ (n - i)| ≤ (n : α) * |y - z| := by
  rw [← prod_bbLim n i hi, ← prod_bbLim n i hi]
  have h1 := abs_prod_sub_prod_le n (bbLim i y) (bbLim i z)
    (fun j _ => by unfold bbLim; split_ifs <;> constructor <;> linarith)
    (fun j _ => by unfold bbLim; split_ifs <;> constructor <;> linarith)
  refine h1.trans ?_
  have h2 : ∀ j ∈ range n, |bbLim i y j - bbLim i z j| ≤ |y - z| := by
    intro j _
    unfold bbLim
    split_ifs
    · exact le_rfl
    · have : 1 - y - (1 - z) = -(y - z) := by ring
      rw [this, abs_neg]
  have h3 := sum_le_card_nsmul (range n) _ _ h2
  rwa [card_range, nsmul_eq_mul] at h3

theorem bern_eq_prod (P i : ℕ) (hi : i ≤ P) (y : ℚ) : bern P i y = (P.choose i : ℚ) * ∏ j ∈ range P, bbLim i y j := by
  rw [prod_bbLim P i hi, bern, choose_eq]
  ring

/-- each ratio lies in [0,1] -/
theorem bbRatio_mem (i : ℕ) (y c : ℚ) (hy0 : 0 ≤ y) (hy1 : y ≤ 1) (hc : 0 < c) (j : ℕ) :
    0 ≤ bbNum i (y * c) ((1 - y) * c) j / (y * c + (1 - y) * c + (j : ℚ))
    ∧ bbNum i (y * c) ((1 - y) * c) j / (y * c + (1 - y) * c + (j : ℚ)) ≤ 1 := by
  have hden : y * c + (1 - y) * c + (j : ℚ) = c + j := by ring
  have hj : (0 : ℚ) ≤ j := Nat.cast_nonneg j
  have hpos : 0 < c + (j : ℚ) := by linarith
  rw [hden]
  unfold bbNum
  split_ifs with h
  · constructor
    · exact div_nonneg (by nlinarith) hpos.le
    · rw [div_le_one hpos]; nlinarith
  · have hle : ((j - i : ℕ) : ℚ) ≤ j := by exact_mod_cast Nat.sub_le j i
    have h0 : (0 : ℚ) ≤ ((j - i : ℕ) : ℚ) := Nat.cast_nonneg _
    constructor
    · exact div_nonneg (by nlinarith) hpos.le
    · rw [div_le_one hpos]; nlinarith

/-- … and differs from its limit by at most j/c -/
theorem bbRatio_sub_lim (i : ℕ) (y c : ℚ) (hy0 : 0 ≤ y) (hy1 : y ≤ 1) (hc : 0 < c) (j : ℕ) :
    |bbNum i (y * c) ((1 - y) * c) j / (y * c + (1 - y) * c + (j : ℚ)) - bbLim i y j| ≤ (j : ℚ) / c := by
  have hden : y * c + (1 - y) * c + (j : ℚ) = c + j := by ring
  have hj : (0 : ℚ) ≤ j := Nat.cast_nonneg j
  have hpos : 0 < c + (j : ℚ) := by linarith
  rw [hden]
  have hle : (j : ℚ) / (c + j) ≤ (j : ℚ) / c := div_le_div_of_nonneg_left hj hc (by linarith)
  refine le_trans ?_ hle
  unfold bbNum bbLim
  split_ifs with h
  · have e : (y * c + (j : ℚ)) / (c + j) - y = (j : ℚ) * (1 - y) / (c + j) := by field_simp; ring
    rw [e, abs_of_nonneg (div_nonneg (by nlinarith) hpos.le)]
    exact div_le_div_of_nonneg_right (by nlinarith) hpos.le
  · have hij : i ≤ j := by omega
    have hcast : ((j - i : ℕ) : ℚ) = (j : ℚ) - i := by push_cast [Nat.cast_sub hij]; ring
    have hi0 : (0 : ℚ) ≤ i := Nat.cast_nonneg i
    have hij' : (i : ℚ) ≤ j := by exact_mod_cast hij
    have e : ((1 - y) * c + ((j - i : ℕ) : ℚ)) / (c + j) - (1 - y) = (y * j - i) / (c + j) := by
      rw [hcast]; field_simp; ring
    rw [e, abs_div, abs_of_pos hpos]
    refine div_le_div_of_nonneg_right ?_ hpos.le
    rw [abs_le]
    constructor <;> nlinarith

/-- **F → 0⁺ for one individual**: with α = y·c, β = (1−y)·c (c = (1−F)/F in the code) the beta-binomial probability of i
    derived alleles among P differs from the binomial probability by at most C(P,i)·P²/c -/
theorem betaBinom_sub_bern (P i : ℕ) (hi : i ≤ P) (y c : ℚ) (hy0 : 0 ≤ y) (hy1 : y ≤ 1) (hc : 0 < c) :
    |betaBinom P i (y * c) ((1 - y) * c) - bern P i y| ≤ (P.choose i : ℚ) * ((P : ℚ) * P) / c := by
  rw [betaBinom_eq_prod P i hi, bern_eq_prod P i hi, ← mul_sub, abs_mul, abs_of_nonneg (Nat.cast_nonneg _), mul_div_assoc]
  refine mul_le_mul_of_nonneg_left ?_ (Nat.cast_nonneg _)
  have h1 := abs_prod_sub_prod_le P (fun j => bbNum i (y * c) ((1 - y) * c) j / (y * c + (1 - y) * c + (j : ℚ))) (bbLim i y)
    (fun j _ => bbRatio_mem i y c hy0 hy1 hc j)
    (fun j _ => by unfold bbLim; split_ifs <;> constructor <;> linarith)
  refine h1.trans ?_
  have h2 : ∀ j ∈ range P, |bbNum i (y * c) ((1 - y) * c) j / (y * c + (1 - y) * c + (j : ℚ)) - bbLim i y j| ≤ (P : ℚ) / c := by
    intro j hj
    refine (bbRatio_sub_lim i y c hy0 hy1 hc j).trans ?_
    exact div_le_div_of_nonneg_right (by exact_mod_cast (mem_range.mp hj).le) hc.le
  have h3 := sum_le_card_nsmul (range P) _ _ h2
  rw [card_range, nsmul_eq_mul] at h3
  calc _ ≤ (P : ℚ) * ((P : ℚ) / c) := h3
    _ = (P : ℚ) * P / c := by ring

/-! ### both probabilities lie in [0,1] -/

theorem betaBinom_nonneg (P i : ℕ) (a b : ℚ) (ha : 0 ≤ a) (hb : 0 ≤ b) (hab : 0 < a + b) : 0 ≤ betaBinom P i a b := by
  unfold betaBinom
  have := rising_pos (a + b) hab P
  have := rising_nonneg a ha i
  have := rising_nonneg b hb (P - i)
  positivity

theorem betaBinom_le_one (P i : ℕ) (a b : ℚ) (ha : 0 ≤ a) (hb : 0 ≤ b) (hab : 0 < a + b) : betaBinom P i a b ≤ 1 := by
  by_cases hi : i ≤ P
  · rw [← betaBinom_sum P a b hab]
    exact single_le_sum (f := fun i => betaBinom P i a b) (fun j _ => betaBinom_nonneg P j a b ha hb hab) (mem_range.mpr (by omega))
  · unfold betaBinom
    rw [choose_eq, Nat.choose_eq_zero_of_lt (by omega)]
    simp

theorem bern_nonneg (n i : ℕ) (y : ℚ) (hy0 : 0 ≤ y) (hy1 : y ≤ 1) : 0 ≤ bern n i y := by
  unfold bern
  have : 0 ≤ 1 - y := by linarith
  positivity

theorem bern_le_one (n i : ℕ) (y : ℚ) (hy0 : 0 ≤ y) (hy1 : y ≤ 1) : bern n i y ≤ 1 := by
  by_cases hi : i ≤ n
  · rw [← bern_sum n y]
    exact single_le_sum (f := fun i => bern n i y) (fun j _ => bern_nonneg n j y hy0 hy1) (mem_range.mpr (by omega))
  · unfold bern
    rw [choose_eq, Nat.choose_eq_zero_of_lt (by omega)]
    simp

/-- the binomial probability is Lipschitz in the frequency on [0,1] (constant C(n,i)·n; crude but explicit) -/
theorem bern_sub_bern (n i : ℕ) (hi : i ≤ n) (y z : ℚ) (hy0 : 0 ≤ y) (hy1 : y ≤ 1) (hz0 : 0 ≤ z) (hz1 : z ≤ 1) :
    |bern n i y - bern n i z| ≤ (n.choose i : ℚ) * n * |y - z| := by
  have e : ∀ t : ℚ, bern n i t = (n.choose i : ℚ) * (t ^ i * (1 - t) ^ (n - i)) := fun t => by
    rw [bern, choose_eq]; ring
  rw [e, e, ← mul_sub, abs_mul, abs_of_nonneg (Nat.cast_nonneg _), mul_assoc]
  exact mul_le_mul_of_nonneg_left (abs_monomial_sub_le n i hi y z hy0 hy1 hz0 hz1) (Nat.cast_nonneg _)

end DadiVerif.FromPhi
