import DadiVerif.Model.FileFormat
import Mathlib.Data.Int.Log
import Mathlib.Data.Rat.Floor
import Mathlib.Tactic.Linarith
import Mathlib.Tactic.Positivity
import Mathlib.Tactic.Ring
import Mathlib.Tactic.FieldSimp
import Mathlib.Tactic.Push
/-!
# C14: the concrete `round_p` — `'%.{p}g'` followed by `strtod`, on rationals

`roundSig p` (the nearest decimal with p significant digits, ties to even), `roundBin` (the nearest double: 53 significant
bits, ties to even, gradual underflow) and `rndModel p = roundBin ∘ roundSig p` of Model/FileFormat.lean are what a
CORRECTLY ROUNDING C library computes for `strtod(printf("%.{p}g", x))` on a finite double `x` (a dyadic rational).  This file
proves, for every base b ≥ 2 and every digit count p ≥ 1 (so for both roundings):

* `ilog b x = ⌊log_b x⌋` (`Int.log`), i.e. `b^(ilog b x) ≤ x < b^(ilog b x + 1)`;
* the result has at most p significant digits (`HasDigits`), and every value with at most p significant digits is a fixed
  point — hence rounding is idempotent;
* the result is within half a unit in the last place kept of `x`.

What is NOT proved and stays an assumption on the C library and on floating point (see notes/C14.md): that `printf`/`strtod`
round correctly (so that parse ∘ format_p = rndModel p on doubles), and, for p < 17, idempotence of the COMPOSED map
`roundBin ∘ roundSig p` on doubles (for p ≥ 17 it follows from `exact17`, itself the classical 17-digit theorem, not proved here).
-/
set_option linter.unusedVariables false
set_option linter.unusedSimpArgs false
namespace DadiVerif.FileFormat

theorem powB_eq (b : ℕ) (k : ℤ) : powB b k = (b : ℚ) ^ k := by
  unfold powB
  by_cases h : 0 ≤ k
  · rw [if_pos h]
    obtain ⟨n, rfl⟩ := Int.eq_ofNat_of_zero_le h
    simp
  · rw [if_neg h]
    push Not at h
    obtain ⟨n, hn⟩ : ∃ n : ℕ, -k = (n : ℤ) := Int.eq_ofNat_of_zero_le (by omega)
    have hk : k = -(n : ℤ) := by omega
    rw [hn, hk]
    simp [zpow_neg]

/-- one step of the search moves the candidate exponent toward `⌊log_b x⌋` and stops exactly there -/
theorem ilogAux_eq (b : ℕ) (hb : 1 < b) (x : ℚ) (hx : 0 < x) :
    ∀ (f : ℕ) (e : ℤ), (Int.log b x - e).natAbs ≤ f → ilogAux b f x e = Int.log b x := by
  intro f
  induction f with
  | zero => intro e h; simp only [ilogAux]; omega
  | succ f ih =>
    intro e h
    simp only [ilogAux, powB_eq]
    by_cases h1 : (b : ℚ) ^ (e + 1) ≤ x
    · rw [if_pos h1]
      have := (Int.zpow_le_iff_le_log hb hx).mp h1
      exact ih (e + 1) (by omega)
    · rw [if_neg h1]
      have h1' : ¬ (e + 1 ≤ Int.log b x) := fun hh => h1 ((Int.zpow_le_iff_le_log hb hx).mpr hh)
      by_cases h2 : x < (b : ℚ) ^ e
      · rw [if_pos h2]
        have := (Int.lt_zpow_iff_log_lt hb hx).mp h2
        exact ih (e - 1) (by omega)
      · rw [if_neg h2]
        have h2' : ¬ (Int.log b x < e) := fun hh => h2 ((Int.lt_zpow_iff_log_lt hb hx).mpr hh)
        omega

/-- the fuel `|num| + den` is enough -/
theorem log_fuel (b : ℕ) (hb : 1 < b) (x : ℚ) (hx : 0 < x) : (Int.log b x).natAbs ≤ x.num.natAbs + x.den := by
  have hb' : (1 : ℚ) < b := by exact_mod_cast hb
  have hnum : 0 < x.num := Rat.num_pos.mpr hx
  have hden : (0 : ℚ) < x.den := by exact_mod_cast x.den_pos
  have hxe : x = (x.num : ℚ) / x.den := (Rat.num_div_den x).symm
  by_cases hL : 0 ≤ Int.log b x
  · -- b^L ≤ x ≤ num
    obtain ⟨n, hn⟩ := Int.eq_ofNat_of_zero_le hL
    have h1 : (b : ℚ) ^ (Int.log b x) ≤ x := Int.zpow_log_le_self hb hx
    rw [hn, zpow_natCast] at h1
    have h2 : x ≤ x.num := by
      rw [hxe]
      have : (1 : ℚ) ≤ x.den := by exact_mod_cast x.den_pos
      have hn0 : (0 : ℚ) ≤ ((x.num : ℚ) / (x.den : ℚ)).num := by
        have := Rat.num_nonneg.mpr (le_of_lt hx); rw [← hxe]; exact_mod_cast this
      rw [← hxe]
      calc x = (x.num : ℚ) / x.den := hxe
        _ ≤ (x.num : ℚ) / 1 := by
            apply div_le_div_of_nonneg_left _ one_pos this
            exact_mod_cast le_of_lt hnum
        _ = x.num := by simp
    have h3 : ((b ^ n : ℕ) : ℚ) ≤ (x.num.natAbs : ℚ) := by
      have : (x.num : ℚ) = (x.num.natAbs : ℚ) := by
        have h' : (x.num.natAbs : ℤ) = x.num := Int.natAbs_of_nonneg (le_of_lt hnum)
        have h'' : ((x.num.natAbs : ℤ) : ℚ) = (x.num : ℚ) := by rw [h']
        rw [← h'']; simp
      rw [← this]; push_cast; linarith
    have h4 : b ^ n ≤ x.num.natAbs := by exact_mod_cast h3
    have h5 : n < b ^ n := Nat.lt_pow_self hb
    rw [hn]; simp only [Int.natAbs_natCast]; omega
  · push Not at hL
    -- x < b^(L+1) and 1/den ≤ x
    obtain ⟨n, hn⟩ : ∃ n : ℕ, -(Int.log b x + 1) = (n : ℤ) := Int.eq_ofNat_of_zero_le (by omega)
    have h1 : x < (b : ℚ) ^ (Int.log b x + 1) := Int.lt_zpow_succ_log_self hb x
    have hL1 : Int.log b x + 1 = -(n : ℤ) := by omega
    rw [hL1, zpow_neg, zpow_natCast] at h1
    have h2 : (1 : ℚ) / x.den ≤ x := by
      rw [hxe]
      rw [← hxe]
      calc (1 : ℚ) / x.den ≤ (x.num : ℚ) / x.den := by
            apply div_le_div_of_nonneg_right _ (le_of_lt hden)
            exact_mod_cast hnum
        _ = x := hxe.symm
    have hbn : (0 : ℚ) < (b : ℚ) ^ n := by positivity
    have h3 : ((b ^ n : ℕ) : ℚ) < (x.den : ℚ) := by
      push_cast
      have : (1 : ℚ) / x.den < ((b : ℚ) ^ n)⁻¹ := lt_of_le_of_lt h2 h1
      rw [one_div] at this
      exact (inv_lt_inv₀ hden hbn).mp this
    have h4 : b ^ n < x.den := by exact_mod_cast h3
    have h5 : n < b ^ n := Nat.lt_pow_self hb
    have : (Int.log b x).natAbs = n + 1 := by omega
    omega

/-- **the executable exponent search is `⌊log_b x⌋`** -/
theorem ilog_eq (b : ℕ) (hb : 1 < b) (x : ℚ) (hx : 0 < x) : ilog b x = Int.log b x := by
  unfold ilog
  apply ilogAux_eq b hb x hx
  simpa using log_fuel b hb x hx

theorem ilog_le (b : ℕ) (hb : 1 < b) (x : ℚ) (hx : 0 < x) : (b : ℚ) ^ ilog b x ≤ x := by
  rw [ilog_eq b hb x hx]; exact Int.zpow_log_le_self hb hx

theorem ilog_lt (b : ℕ) (hb : 1 < b) (x : ℚ) (hx : 0 < x) : x < (b : ℚ) ^ (ilog b x + 1) := by
  rw [ilog_eq b hb x hx]; exact Int.lt_zpow_succ_log_self hb x

/-- the bracket determines the exponent -/
theorem ilog_unique (b : ℕ) (hb : 1 < b) (x : ℚ) (hx : 0 < x) (e : ℤ) (h1 : (b : ℚ) ^ e ≤ x) (h2 : x < (b : ℚ) ^ (e + 1)) :
    ilog b x = e := by
  rw [ilog_eq b hb x hx]
  have a := (Int.zpow_le_iff_le_log hb hx).mp h1
  have c := (Int.lt_zpow_iff_log_lt hb hx).mp h2
  omega

/-! ## round half to even -/

theorem floor_eq (x : ℚ) : x.floor = ⌊x⌋ := rfl

theorem floor_le' (x : ℚ) : ((x.floor : ℤ) : ℚ) ≤ x := Int.floor_le x
theorem lt_floor_add_one' (x : ℚ) : x < ((x.floor : ℤ) : ℚ) + 1 := Int.lt_floor_add_one x

theorem rhe_close (x : ℚ) : |((rhe x : ℤ) : ℚ) - x| ≤ 1 / 2 := by
  have h0 := floor_le' x
  have h1 := lt_floor_add_one' x
  unfold rhe
  dsimp only
  split_ifs with ha hb hc <;> push_cast <;> rw [abs_le] <;> constructor <;> linarith

theorem rhe_int (n : ℤ) : rhe (n : ℚ) = n := by
  have hf : (n : ℚ).floor = n := by rw [floor_eq]; exact Int.floor_intCast n
  unfold rhe
  dsimp only
  rw [hf]
  norm_num

/-- a rational within less than ½ of an integer rounds to it -/
theorem rhe_of_close (x : ℚ) (n : ℤ) (h : |x - n| < 1 / 2) : rhe x = n := by
  have h1 := rhe_close x
  rw [abs_le] at h1
  rw [abs_lt] at h
  have a : ((rhe x : ℤ) : ℚ) - n < 1 := by linarith
  have b : -1 < ((rhe x : ℤ) : ℚ) - n := by linarith
  have a' : rhe x - n < 1 := by exact_mod_cast a
  have b' : -1 < rhe x - n := by exact_mod_cast b
  omega

theorem rhe_le (x : ℚ) (n : ℤ) (h : x ≤ n) : rhe x ≤ n := by
  have h1 := rhe_close x
  rw [abs_le] at h1
  have a : ((rhe x : ℤ) : ℚ) < n + 1 := by linarith
  have a' : rhe x < n + 1 := by exact_mod_cast a
  omega

theorem le_rhe (x : ℚ) (n : ℤ) (h : (n : ℚ) ≤ x) : n ≤ rhe x := by
  have h1 := rhe_close x
  rw [abs_le] at h1
  have a : (n : ℚ) - 1 < ((rhe x : ℤ) : ℚ) := by linarith
  have a' : n - 1 < rhe x := by exact_mod_cast a
  omega

/-! ## rounding to p significant base-b digits -/

/-- the exponent of the last digit kept when `a > 0` is rounded -/
def lastExp (b p : ℕ) (emin : Option ℤ) (a : ℚ) : ℤ :=
  match emin with
  | none => ilog b a - (p : ℤ) + 1
  | some m => if ilog b a - (p : ℤ) + 1 < m then m else ilog b a - (p : ℤ) + 1

theorem lastExp_ge (b p : ℕ) (emin : Option ℤ) (a : ℚ) : ilog b a - (p : ℤ) + 1 ≤ lastExp b p emin a := by
  unfold lastExp
  cases emin with
  | none => exact le_refl _
  | some m => dsimp only; split_ifs <;> omega

theorem lastExp_emin (b p : ℕ) (m : ℤ) (a : ℚ) : m ≤ lastExp b p (some m) a := by
  unfold lastExp; dsimp only; split_ifs <;> omega

theorem roundDig_zero (b p : ℕ) (emin : Option ℤ) : roundDig b p emin 0 = 0 := by
  unfold roundDig; simp

theorem roundDig_pos (b p : ℕ) (emin : Option ℤ) (x : ℚ) (hx : 0 < x) :
    roundDig b p emin x = ((rhe (x / (b : ℚ) ^ lastExp b p emin x) : ℤ) : ℚ) * (b : ℚ) ^ lastExp b p emin x := by
  have h0 : x ≠ 0 := ne_of_gt hx
  have h1 : ¬ x < 0 := not_lt.mpr (le_of_lt hx)
  unfold roundDig lastExp
  simp only [h0, h1, if_false, powB_eq]
  cases emin <;> rfl

theorem roundDig_neg (b p : ℕ) (emin : Option ℤ) (x : ℚ) : roundDig b p emin (-x) = -roundDig b p emin x := by
  rcases lt_trichotomy x 0 with h | h | h
  · have h0 : x ≠ 0 := ne_of_lt h
    have h1 : ¬ (-x < 0) := by linarith
    have h2 : -x ≠ 0 := by intro e; apply h0; linarith
    unfold roundDig
    simp only [h0, h1, h2, h, if_false, if_true, neg_neg]
  · subst h; simp [roundDig_zero]
  · have h0 : x ≠ 0 := ne_of_gt h
    have h1 : ¬ (x < 0) := by linarith
    have h2 : -x ≠ 0 := by intro e; apply h0; linarith
    have h3 : -x < 0 := by linarith
    unfold roundDig
    simp only [h0, h1, h2, h3, if_false, if_true, neg_neg]

/-- `x` has at most `p` significant base-`b` digits, none below `b^emin` -/
def HasDigits (b p : ℕ) (emin : Option ℤ) (x : ℚ) : Prop :=
  ∃ n k : ℤ, x = (n : ℚ) * (b : ℚ) ^ k ∧ |n| < (b : ℤ) ^ p ∧ ∀ m, emin = some m → m ≤ k

theorem hasDigits_neg (b p : ℕ) (emin : Option ℤ) (x : ℚ) (h : HasDigits b p emin x) : HasDigits b p emin (-x) := by
  obtain ⟨n, k, hx, hn, hm⟩ := h
  exact ⟨-n, k, by rw [hx]; push_cast; ring, by simpa using hn, hm⟩

/-- **fixed points**: a positive value with at most p significant digits is not changed by rounding to p digits -/
theorem roundDig_fixed_pos (b p : ℕ) (hb : 1 < b) (emin : Option ℤ) (x : ℚ) (hx : 0 < x) (h : HasDigits b p emin x) :
    roundDig b p emin x = x := by
  obtain ⟨n, k, hxe, hn, hm⟩ := h
  have hb0 : (0 : ℚ) < b := by exact_mod_cast (by omega : 0 < b)
  have hbk : ∀ j : ℤ, (0 : ℚ) < (b : ℚ) ^ j := fun j => zpow_pos hb0 j
  -- n > 0
  have hnpos : 0 < n := by
    by_contra hc
    push Not at hc
    have : (n : ℚ) ≤ 0 := by exact_mod_cast hc
    have : x ≤ 0 := by rw [hxe]; exact mul_nonpos_of_nonpos_of_nonneg this (le_of_lt (hbk k))
    linarith
  have hnlt : (n : ℚ) < (b : ℚ) ^ (p : ℤ) := by
    have : n < (b : ℤ) ^ p := lt_of_le_of_lt (le_abs_self n) hn
    have : (n : ℚ) < ((b : ℤ) ^ p : ℤ) := by exact_mod_cast this
    simpa using this
  -- x < b^(p+k), so the last exponent kept is ≤ k
  have hxlt : x < (b : ℚ) ^ ((p : ℤ) + k) := by
    rw [hxe, zpow_add₀ (ne_of_gt hb0)]
    exact mul_lt_mul_of_pos_right hnlt (hbk k)
  have hlog : ilog b x < (p : ℤ) + k := by
    rw [ilog_eq b hb x hx]; exact (Int.lt_zpow_iff_log_lt hb hx).mp hxlt
  have hek : lastExp b p emin x ≤ k := by
    unfold lastExp
    cases emin with
    | none => dsimp only; omega
    | some m => have := hm m rfl; dsimp only; split_ifs <;> omega
  rw [roundDig_pos b p emin x hx]
  set e := lastExp b p emin x with he
  obtain ⟨j, hj⟩ : ∃ j : ℕ, k - e = (j : ℤ) := Int.eq_ofNat_of_zero_le (by omega)
  have hdiv : x / (b : ℚ) ^ e = ((n * (b : ℤ) ^ j : ℤ) : ℚ) := by
    rw [hxe]
    have hk : k = e + (j : ℤ) := by omega
    rw [hk, zpow_add₀ (ne_of_gt hb0), zpow_natCast]
    push_cast
    field_simp
  rw [hdiv, rhe_int, hxe]
  have hk : k = (j : ℤ) + e := by omega
  rw [hk, zpow_add₀ (ne_of_gt hb0), zpow_natCast]
  push_cast
  ring

/-- … and so is any value, of either sign -/
theorem roundDig_fixed (b p : ℕ) (hb : 1 < b) (emin : Option ℤ) (x : ℚ) (h : HasDigits b p emin x) :
    roundDig b p emin x = x := by
  rcases lt_trichotomy x 0 with hx | hx | hx
  · have := roundDig_fixed_pos b p hb emin (-x) (by linarith) (hasDigits_neg b p emin x h)
    rw [roundDig_neg] at this
    linarith
  · subst hx; exact roundDig_zero b p emin
  · exact roundDig_fixed_pos b p hb emin x hx h

/-- **the result has at most p significant digits** (positive argument) -/
theorem roundDig_hasDigits_pos (b p : ℕ) (hb : 1 < b) (hp : 1 ≤ p) (emin : Option ℤ) (x : ℚ) (hx : 0 < x) :
    HasDigits b p emin (roundDig b p emin x) := by
  have hb0 : (0 : ℚ) < b := by exact_mod_cast (by omega : 0 < b)
  have hbk : ∀ j : ℤ, (0 : ℚ) < (b : ℚ) ^ j := fun j => zpow_pos hb0 j
  rw [roundDig_pos b p emin x hx]
  set e := lastExp b p emin x with he
  set N := rhe (x / (b : ℚ) ^ e) with hN
  have hem : ∀ m, emin = some m → m ≤ e := by
    intro m hm; subst hm; exact lastExp_emin b p m x
  -- x / b^e < b^p
  have hq : x / (b : ℚ) ^ e < (b : ℚ) ^ (p : ℤ) := by
    rw [div_lt_iff₀ (hbk e), ← zpow_add₀ (ne_of_gt hb0)]
    have h1 := ilog_lt b hb x hx
    have h2 : ilog b x + 1 ≤ (p : ℤ) + e := by have := lastExp_ge b p emin x; omega
    exact lt_of_lt_of_le h1 (zpow_le_zpow_right₀ (by exact_mod_cast (le_of_lt hb)) h2)
  have hNle : N ≤ (b : ℤ) ^ p := by
    apply rhe_le
    have : (((b : ℤ) ^ p : ℤ) : ℚ) = (b : ℚ) ^ (p : ℤ) := by push_cast; rw [zpow_natCast]
    rw [this]; exact le_of_lt hq
  have hN0 : 0 ≤ N := by
    apply le_rhe
    have : (0 : ℚ) ≤ x / (b : ℚ) ^ e := div_nonneg (le_of_lt hx) (le_of_lt (hbk e))
    simpa using this
  rcases lt_or_eq_of_le hNle with hlt | heq
  · exact ⟨N, e, rfl, by rw [abs_of_nonneg hN0]; exact hlt, hem⟩
  · refine ⟨1, (p : ℤ) + e, ?_, ?_, ?_⟩
    · rw [heq, zpow_add₀ (ne_of_gt hb0), zpow_natCast]; push_cast; ring
    · have : (1 : ℤ) < (b : ℤ) ^ p := by
        have hb' : (1 : ℤ) < b := by exact_mod_cast hb
        exact one_lt_pow₀ hb' (by omega)
      simpa using this
    · intro m hm; have := hem m hm; omega

theorem roundDig_hasDigits (b p : ℕ) (hb : 1 < b) (hp : 1 ≤ p) (emin : Option ℤ) (x : ℚ) :
    HasDigits b p emin (roundDig b p emin x) := by
  rcases lt_trichotomy x 0 with hx | hx | hx
  · have := hasDigits_neg b p emin _ (roundDig_hasDigits_pos b p hb hp emin (-x) (by linarith))
    rwa [roundDig_neg, neg_neg] at this
  · subst hx
    rw [roundDig_zero]
    cases emin with
    | none => exact ⟨0, 0, by simp, by simpa using pow_pos (by exact_mod_cast (by omega : 0 < b) : (0 : ℤ) < b) p, by intro m hm; cases hm⟩
    | some m => exact ⟨0, m, by simp, by simpa using pow_pos (by exact_mod_cast (by omega : 0 < b) : (0 : ℤ) < b) p,
                        by intro m' hm; cases hm; exact le_refl _⟩
  · exact roundDig_hasDigits_pos b p hb hp emin x hx

/-- **rounding is idempotent** -/
theorem roundDig_idem (b p : ℕ) (hb : 1 < b) (hp : 1 ≤ p) (emin : Option ℤ) (x : ℚ) :
    roundDig b p emin (roundDig b p emin x) = roundDig b p emin x :=
  roundDig_fixed b p hb emin _ (roundDig_hasDigits b p hb hp emin x)

/-- **half a unit in the last place kept** -/
theorem roundDig_error (b p : ℕ) (hb : 1 < b) (emin : Option ℤ) (x : ℚ) (hx : 0 < x) :
    |roundDig b p emin x - x| ≤ (b : ℚ) ^ lastExp b p emin x / 2 := by
  have hb0 : (0 : ℚ) < b := by exact_mod_cast (by omega : 0 < b)
  have hbe : (0 : ℚ) < (b : ℚ) ^ lastExp b p emin x := zpow_pos hb0 _
  rw [roundDig_pos b p emin x hx]
  set e := lastExp b p emin x
  have h := rhe_close (x / (b : ℚ) ^ e)
  have : ((rhe (x / (b : ℚ) ^ e) : ℤ) : ℚ) * (b : ℚ) ^ e - x
      = (((rhe (x / (b : ℚ) ^ e) : ℤ) : ℚ) - x / (b : ℚ) ^ e) * (b : ℚ) ^ e := by
    field_simp
  rw [this, abs_mul, abs_of_pos hbe]
  calc |((rhe (x / (b : ℚ) ^ e) : ℤ) : ℚ) - x / (b : ℚ) ^ e| * (b : ℚ) ^ e ≤ (1 / 2) * (b : ℚ) ^ e :=
        mul_le_mul_of_nonneg_right h (le_of_lt hbe)
    _ = (b : ℚ) ^ e / 2 := by ring

/-! ## the two roundings of the file round trip -/

/-- a decimal with at most p significant digits -/
def DecimalDigits (p : ℕ) (x : ℚ) : Prop := HasDigits 10 p none x
/-- a double: at most 53 significant bits, none below 2^-1074 (no upper bound on the exponent: overflow is not modelled) -/
def IsDouble (x : ℚ) : Prop := HasDigits 2 53 (some (-1074)) x

theorem roundSig_idem (p : ℕ) (hp : 1 ≤ p) (x : ℚ) : roundSig p (roundSig p x) = roundSig p x :=
  roundDig_idem 10 p (by norm_num) hp none x
theorem roundSig_fixed (p : ℕ) (x : ℚ) (h : DecimalDigits p x) : roundSig p x = x :=
  roundDig_fixed 10 p (by norm_num) none x h
theorem roundSig_digits (p : ℕ) (hp : 1 ≤ p) (x : ℚ) : DecimalDigits p (roundSig p x) :=
  roundDig_hasDigits 10 p (by norm_num) hp none x
theorem roundSig_neg (p : ℕ) (x : ℚ) : roundSig p (-x) = -roundSig p x := roundDig_neg 10 p none x
theorem roundBin_idem (x : ℚ) : roundBin (roundBin x) = roundBin x :=
  roundDig_idem 2 53 (by norm_num) (by norm_num) _ x
theorem roundBin_fixed (x : ℚ) (h : IsDouble x) : roundBin x = x := roundDig_fixed 2 53 (by norm_num) _ x h
theorem roundBin_isDouble (x : ℚ) : IsDouble (roundBin x) := roundDig_hasDigits 2 53 (by norm_num) (by norm_num) _ x

/-- the value read back is always a double -/
theorem rndModel_isDouble (p : ℕ) (x : ℚ) : IsDouble (rndModel p x) := roundBin_isDouble _

/-- **identity on what the file can hold exactly**: a double that has at most p significant decimal digits comes back as itself -/
theorem rndModel_fixed (p : ℕ) (x : ℚ) (h1 : DecimalDigits p x) (h2 : IsDouble x) : rndModel p x = x := by
  unfold rndModel; rw [roundSig_fixed p x h1, roundBin_fixed x h2]

/-- … and on such values the composed map is idempotent -/
theorem rndModel_idem_of_fixed (p : ℕ) (x : ℚ) (h1 : DecimalDigits p (rndModel p x)) : rndModel p (rndModel p x) = rndModel p x :=
  rndModel_fixed p _ h1 (rndModel_isDouble p x)

/-- more digits keep what fewer digits hold -/
theorem decimalDigits_mono (p q : ℕ) (hpq : p ≤ q) (x : ℚ) (h : DecimalDigits p x) : DecimalDigits q x := by
  obtain ⟨n, k, hx, hn, hm⟩ := h
  refine ⟨n, k, hx, lt_of_lt_of_le hn ?_, hm⟩
  exact pow_le_pow_right₀ (by norm_num) hpq

end DadiVerif.FileFormat
