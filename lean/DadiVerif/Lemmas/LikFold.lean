import DadiVerif.Model.Likelihood
import DadiVerif.Lemmas.Fold
import Mathlib.Tactic.Ring
import Mathlib.Tactic.Push
/-!
# C11 ↔ C09: the fold used by the likelihood model is the fold model of C09

`Lik.foldSpec` (Model/Likelihood.lean) is written by hand, polymorphic in the scalar type, on lists of cells.
`Fold.foldSpec` (Model/Fold.lean, C09) runs the pointwise programs `Gen.Fold.fold_outData / fold_outMask` that are
regenerated from `Spectrum.fold` on every run, on arrays of rationals.  Here: on every well-formed spectrum
(as many cells as the shape says) the `ℚ` instance of the former *is* the latter — values on every entry (masked or
not), masks (own ∨ mirror ∨ folded-out ∨ corners), folded flag.
-/
namespace DadiVerif.Lik
open Fold Gen.Fold Finset

/-! ### entries of a list of cells, by position -/

def valAt (cs : List (Cell ℚ)) (k : ℕ) : ℚ := ((cs[k]?).map Cell.val).getD 0
def maskAt (cs : List (Cell ℚ)) (k : ℕ) : Bool := ((cs[k]?).map Cell.mask).getD false

theorem valAt_lt {cs : List (Cell ℚ)} {k : ℕ} (h : k < cs.length) : valAt cs k = cs[k].val := by
  simp [valAt, h]
theorem maskAt_lt {cs : List (Cell ℚ)} {k : ℕ} (h : k < cs.length) : maskAt cs k = cs[k].mask := by
  simp [maskAt, h]

@[simp] theorem valAt_cons_succ (a : Cell ℚ) (cs : List (Cell ℚ)) (k : ℕ) : valAt (a :: cs) (k + 1) = valAt cs k := by
  simp [valAt]
@[simp] theorem maskAt_cons_succ (a : Cell ℚ) (cs : List (Cell ℚ)) (k : ℕ) : maskAt (a :: cs) (k + 1) = maskAt cs k := by
  simp [maskAt]
@[simp] theorem valAt_cons_zero (a : Cell ℚ) (cs : List (Cell ℚ)) : valAt (a :: cs) 0 = a.val := by simp [valAt]
@[simp] theorem maskAt_cons_zero (a : Cell ℚ) (cs : List (Cell ℚ)) : maskAt (a :: cs) 0 = a.mask := by simp [maskAt]

theorem toC09_x (M : MSpec ℚ) (k : ℕ) : (toC09 M).x k = valAt M.cells k := by
  unfold toC09 Spec.x valAt
  by_cases h : k < M.cells.length
  · simp [Array.getD, h]
  · simp [Array.getD, h]

theorem toC09_m (M : MSpec ℚ) (k : ℕ) : (toC09 M).m k = maskAt M.cells k := by
  unfold toC09 Spec.m maskAt
  by_cases h : k < M.cells.length
  · simp [Array.getD, h]
  · simp [Array.getD, h]

theorem toC09_N (M : MSpec ℚ) : (toC09 M).N = prodL M.shape := rfl
theorem toC09_shape (M : MSpec ℚ) : (toC09 M).shape = M.shape := rfl

/-! ### one entry -/

/-- the hand-written entry of the folded spectrum is the closed form `sfold` of C09 (which `fold_outData_eq` proves to be
    what the generated program computes) -/
theorem foldCell_val_eq_sfold (shape : List ℕ) (n k : ℕ) (hn : n = prodL shape) (hk : k < n) (x y : Cell ℚ) (xs : ℕ → ℚ)
    (hx : xs k = x.val) (hy : xs (mirrorFlat n k) = y.val) :
    (foldCell shape n k x y).val
      = sfold (mirrorFlat n) (Fold.totalFlat shape) (Fold.totalSamples shape) xs k := by
  subst hn
  have hl := loc_flat hk
  have h1 : Lik.totalFlat shape (mirrorFlat (prodL shape) k) = Lik.totalSamples shape - Lik.totalFlat shape k := hl.tot
  have h2 : Lik.totalFlat shape k ≤ Lik.totalSamples shape := hl.le
  have hm : prodL shape - 1 - k = mirrorFlat (prodL shape) k := rfl
  show _ = sfold (mirrorFlat (prodL shape)) (Lik.totalFlat shape) (Lik.totalSamples shape) xs k
  simp only [foldCell, sfold, foldedOut, ambiguous, hm, hx, hy]
  split_ifs <;> (try simp only [decide_eq_true_eq] at *) <;> first | (exfalso; omega) | (push_cast; ring)

theorem foldCell_mask_eq (shape : List ℕ) (n k : ℕ) (hn : n = prodL shape) (hk : k < n) (x y : Cell ℚ) :
    (foldCell shape n k x y).mask
      = (x.mask || y.mask || fo (Fold.totalFlat shape) (Fold.totalSamples shape) k || cornerFlat n k) := by
  subst hn
  have hl := loc_flat hk
  have h2 : Lik.totalFlat shape k ≤ Lik.totalSamples shape := hl.le
  show _ = (x.mask || y.mask || fo (Lik.totalFlat shape) (Lik.totalSamples shape) k || cornerFlat (prodL shape) k)
  have e1 : decide (Lik.totalFlat shape k > Lik.totalSamples shape / 2)
      = decide (2 * Lik.totalFlat shape k > Lik.totalSamples shape) := by
    rw [Bool.eq_iff_iff]; simp only [decide_eq_true_eq]; omega
  have e2 : (decide (k = 0) || decide (k + 1 = prodL shape)) = (k == 0 || k == prodL shape - 1) := by
    rw [Bool.eq_iff_iff]; simp only [Bool.or_eq_true, decide_eq_true_eq, beq_iff_eq]; omega
  simp only [foldCell, foldedOut, fo, cornerFlat, Bool.or_assoc, e1, e2]

/-! ### the whole spectrum -/

theorem foldCells_length (shape : List ℕ) (cs : List (Cell ℚ)) : (foldCells shape cs).length = cs.length := by
  simp [foldCells]

theorem foldCells_getElem (shape : List ℕ) (cs : List (Cell ℚ)) (k : ℕ) (h : k < cs.length) :
    (foldCells shape cs)[k]'(by rw [foldCells_length]; exact h)
      = foldCell shape cs.length k cs[k] (cs[cs.length - 1 - k]'(by omega)) := by
  simp [foldCells, List.getElem_reverse]

/-- **the fold of the likelihood model is the fold of C09**: for a spectrum with as many cells as its shape says and
    finite entries, `Lik.foldSpec` (hand-written, what `autofold` calls) equals the spectrum C09's `Fold.foldOut`
    constructs from the same values and masks — every entry's value, every entry's mask, the folded flag. -/
theorem foldSpec_eq_C09 (M : MSpec ℚ) (hlen : M.cells.length = prodL M.shape) (hbad : ∀ c ∈ M.cells, c.bad = false) :
    foldSpec M = ofC09 (foldOut (toC09 M)) := by
  have hN : (toC09 M).N = M.cells.length := by rw [toC09_N, hlen]
  unfold foldSpec ofC09
  congr 1
  apply List.ext_getElem
  · simp [foldCells_length, foldOut_N, hN]
  · intro k h1 h2
    have hk : k < M.cells.length := by rw [foldCells_length] at h1; exact h1
    have hkN : k < (toC09 M).N := by rw [hN]; exact hk
    have hkp : k < prodL M.shape := by rw [← hlen]; exact hk
    have hmk : M.cells.length - 1 - k < M.cells.length := by omega
    rw [foldCells_getElem M.shape M.cells k hk]
    simp only [List.getElem_map, List.getElem_range]
    rw [foldOut_x (toC09 M) hkN, foldOut_m (toC09 M) hkN]
    have hmir : mirrorFlat M.cells.length k = M.cells.length - 1 - k := rfl
    have e1 := foldCell_val_eq_sfold M.shape M.cells.length k hlen hk M.cells[k] (M.cells[M.cells.length - 1 - k]'hmk)
      (toC09 M).x (by rw [toC09_x, valAt_lt hk]) (by rw [toC09_x, hmir, valAt_lt hmk])
    have e2 := foldCell_mask_eq M.shape M.cells.length k hlen hk M.cells[k] (M.cells[M.cells.length - 1 - k]'hmk)
    rw [Cell.mk.injEq]
    refine ⟨?_, ?_, ?_⟩
    · rw [e1, hN]; rfl
    · rw [e2, toC09_m, toC09_m, hN, hmir, maskAt_lt hk, maskAt_lt hmk]; rfl
    · simp only [foldCell]
      rw [hbad _ (List.getElem_mem _), hbad _ (List.getElem_mem _)]; rfl

/-- …and `Fold.foldSpec` returns exactly that spectrum when the model is unfolded (it raises otherwise) -/
theorem foldViaC09_eq (M : MSpec ℚ) (hM : M.folded = false) (hlen : M.cells.length = prodL M.shape)
    (hbad : ∀ c ∈ M.cells, c.bad = false) : foldViaC09 M = some (foldSpec M) := by
  unfold foldViaC09
  rw [foldSpec_eq]
  have : (toC09 M).folded = false := hM
  simp [this, foldSpec_eq_C09 M hlen hbad]

/-! ### entries of `ofC09` -/

theorem ofC09_length (S : Spec) : (ofC09 S).cells.length = S.N := by simp [ofC09]
theorem ofC09_valAt (S : Spec) {k : ℕ} (h : k < S.N) : valAt (ofC09 S).cells k = S.x k := by
  simp [valAt, ofC09, h]
theorem ofC09_maskAt (S : Spec) {k : ℕ} (h : k < S.N) : maskAt (ofC09 S).cells k = S.m k := by
  simp [maskAt, ofC09, h]

/-! ### totals over jointly unmasked entries (statements about C09's `foldOut`) -/

/-- The total of the folded spectrum over the entries that are visible in it and not hidden by a second mask `dm`
    (the data's) is the total of the unfolded spectrum over the entries that are visible together with their mirror image,
    are no corner, and whose image under folding is not hidden by `dm`.  `e` is `dm` seen from the unfolded side: it agrees
    with `dm` on the entries folding keeps and is mirror-symmetric. -/
theorem foldOut_joint_total (S : Spec) (dm e : ℕ → Bool)
    (hsym : ∀ k < S.N, e (mirrorFlat S.N k) = e k)
    (hkeep : ∀ k < S.N, fo (Fold.totalFlat S.shape) (Fold.totalSamples S.shape) k = false → dm k = e k) :
    ∑ k ∈ range S.N, (if ((foldOut S).m k || dm k) then 0 else (foldOut S).x k)
      = ∑ k ∈ range S.N, (if !(S.m k || S.m (mirrorFlat S.N k) || cornerFlat S.N k || e k) then S.x k else 0) := by
  set u : ℕ → Bool := fun k => !(S.m k || S.m (mirrorFlat S.N k) || cornerFlat S.N k || e k) with hu
  have husym : ∀ k < S.N, u (mirrorFlat S.N k) = u k := by
    intro k hk
    simp only [hu, mirrorFlat_invol hk, cornerFlat_mirror hk, hsym k hk]
    cases S.m k <;> cases S.m (mirrorFlat S.N k) <;> rfl
  have hL : ∀ k ∈ range S.N, (if ((foldOut S).m k || dm k) then (0 : ℚ) else (foldOut S).x k)
      = sfold (mirrorFlat S.N) (Fold.totalFlat S.shape) (Fold.totalSamples S.shape) (fun j => if u j then S.x j else 0) k := by
    intro k hk
    have hk' := mem_range.mp hk
    rw [sfold_indicator S.x u (husym k hk'), foldOut_m S hk', foldOut_x S hk']
    by_cases hf : fo (Fold.totalFlat S.shape) (Fold.totalSamples S.shape) k = true
    · have : sfold (mirrorFlat S.N) (Fold.totalFlat S.shape) (Fold.totalSamples S.shape) S.x k = 0 := by
        unfold sfold; unfold fo at hf; simp only [decide_eq_true_eq] at hf; rw [if_pos hf]
      simp [hf, this]
    · simp only [Bool.not_eq_true] at hf
      rw [hkeep k hk' hf]
      simp only [hu, hf]
      cases S.m k <;> cases S.m (mirrorFlat S.N k) <;> cases cornerFlat S.N k <;> cases e k <;> simp
  rw [Finset.sum_congr rfl hL]
  exact sfold_total S.N _ _ _ (fun k hk => S.loc hk)

/-! ### the auto-fold of the executable (`ℚ`) instance, expressed through C09's `Fold.foldSpec` -/

theorem autofold_rat (M D : MSpec ℚ) (hD : D.folded = true) (hM : M.folded = false)
    (hlen : M.cells.length = prodL M.shape) (hbad : ∀ c ∈ M.cells, c.bad = false)
    (F : Spec) (hF : Fold.foldSpec (toC09 M) = .ok F) :
    autofold true M D = ofC09 F ∧ autofold true (ofC09 F) D = ofC09 F := by
  have hf : (toC09 M).folded = false := hM
  rw [foldSpec_eq, hf] at hF
  simp only [Bool.false_eq_true, if_false, Res.ok.injEq] at hF
  subst hF
  constructor
  · simp [autofold, hD, hM, foldSpec_eq_C09 M hlen hbad]
  · simp [autofold, ofC09, foldOut_folded]

/-- folding commutes with `theta * model` (executable instance) -/
theorem foldCell_scale_rat (θ : Cell ℚ) (shape : List ℕ) (n k : ℕ) (x y : Cell ℚ) :
    foldCell shape n k (Cell.mul θ x) (Cell.mul θ y) = Cell.mul θ (foldCell shape n k x y) := by
  simp only [foldCell, Cell.mul, Cell.mk.injEq]
  refine ⟨?_, ?_, ?_⟩
  · split_ifs <;> push_cast <;> ring
  · cases θ.mask <;> simp
  · cases θ.bad <;> simp

theorem foldCells_scale_rat (θ : Cell ℚ) (shape : List ℕ) (cs : List (Cell ℚ)) :
    foldCells shape (cs.map (Cell.mul θ)) = (foldCells shape cs).map (Cell.mul θ) := by
  simp only [foldCells, List.length_map, ← List.map_reverse, List.zip_map, List.zipWith_map_right, List.map_zipWith]
  congr 1
  funext k p
  exact foldCell_scale_rat θ shape cs.length k p.1 p.2

theorem autofold_scale_rat (θ : Cell ℚ) (M D : MSpec ℚ) (F : MSpec ℚ) (hF : F.folded = true)
    (h : autofold true M D = F) (hD : D.folded = true) (hM : M.folded = false) :
    autofold true (scaleSpec θ M) D = scaleSpec θ F ∧ autofold true (scaleSpec θ F) D = scaleSpec θ F := by
  have h1 : (scaleSpec θ M).folded = false := hM
  have h2 : (scaleSpec θ F).folded = true := hF
  constructor
  · simp only [autofold, hD, hM, Bool.true_and, Bool.not_false, if_true] at h
    simp only [autofold, hD, h1, Bool.true_and, Bool.not_false, if_true, ← h]
    simp only [foldSpec, scaleSpec, foldCells_scale_rat]
  · simp [autofold, h2]

/-- `ll_multinom_per_bin` of the executable instance on an unfolded model against folded data, through C09's fold -/
theorem llMultinomPerBin_rat (log lgam : ℚ → ℚ) (M D : MSpec ℚ) (hD : D.folded = true) (hM : M.folded = false)
    (hlen : M.cells.length = prodL M.shape) (hbad : ∀ c ∈ M.cells, c.bad = false)
    (F : Spec) (hF : Fold.foldSpec (toC09 M) = .ok F) (hflag : Gen.Lik.autofold_ll_per_bin = true)
    (hflag2 : Gen.Lik.autofold_optimal_sfs_scaling = true) :
    llMultinomPerBin log lgam M D = llMultinomPerBin log lgam (ofC09 F) D := by
  obtain ⟨a1, a2⟩ := autofold_rat M D hD hM hlen hbad F hF
  have hFf : (ofC09 F).folded = true := by
    have hf : (toC09 M).folded = false := hM
    rw [foldSpec_eq, hf] at hF
    simp only [Bool.false_eq_true, if_false, Res.ok.injEq] at hF
    subst hF; rfl
  have hθ : optimalScaling M D = optimalScaling (ofC09 F) D := by
    simp only [optimalScaling, hflag2, a1, a2]
  obtain ⟨s1, s2⟩ := autofold_scale_rat (optimalScaling (ofC09 F) D) M D (ofC09 F) hFf a1 hD hM
  simp only [llMultinomPerBin, llPerBin, hflag, hθ, s1, s2]

end DadiVerif.Lik
