import DadiVerif.Lemmas.NDArray
import DadiVerif.Lemmas.Sweep
/-! The tabulated (array) sweep the driver executes equals the functional sweep the theorems talk about, on every in-box
    index, for every dimension — so C03/C04 statements about `sweepFn` transfer to `sweep`. -/
namespace DadiVerif
open Gen

theorem inBox_length : ∀ (shape idx : List ℕ), InBox shape idx → idx.length = shape.length
  | [], [], _ => rfl
  | _ :: ss, _ :: is, h => by simp [inBox_length ss is h.2]
  | [], _ :: _, h => h.elim
  | _ :: _, [], h => h.elim

theorem inBox_eraseIdx : ∀ (shape idx : List ℕ) (k : ℕ), InBox shape idx → InBox (shape.eraseIdx k) (idx.eraseIdx k)
  | [], [], _, _ => by simp [InBox]
  | _ :: ss, _ :: is, 0, h => by simpa using h.2
  | s :: ss, i :: is, k+1, h => by
      simp only [List.eraseIdx_cons_succ]
      exact ⟨h.1, inBox_eraseIdx ss is k h.2⟩
  | [], _ :: _, _, h => h.elim
  | _ :: _, [], _, h => h.elim

theorem inBox_insertIdx : ∀ (shape i : List ℕ) (k j : ℕ), k < shape.length → InBox (shape.eraseIdx k) i →
    j < shape.getD k 0 → InBox shape (i.insertIdx k j)
  | [], _, _, _, hk, _, _ => by simp at hk
  | s :: ss, i, 0, j, _, h, hj => by
      simp only [List.eraseIdx_cons_zero] at h
      simp only [List.insertIdx_zero]
      exact ⟨by simpa using hj, h⟩
  | s :: ss, [], k+1, j, hk, h, _ => by
      simp only [List.eraseIdx_cons_succ] at h
      exact h.elim
  | s :: ss, i :: is, k+1, j, hk, h, hj => by
      simp only [List.eraseIdx_cons_succ] at h
      simp only [List.insertIdx_succ_cons]
      refine ⟨h.1, inBox_insertIdx ss is k j (by simpa using hk) h.2 (by simpa using hj)⟩

theorem insert_erase : ∀ (shape idx : List ℕ) (k : ℕ), InBox shape idx → k < shape.length →
    (idx.eraseIdx k).insertIdx k (idx.getD k 0) = idx ∧ idx.getD k 0 < shape.getD k 0
  | [], _, _, _, hk => by simp at hk
  | s :: ss, i :: is, 0, h, _ => by simp [h.1]
  | s :: ss, i :: is, k+1, h, hk => by
      have := insert_erase ss is k h.2 (by simpa using hk)
      simp only [List.eraseIdx_cons_succ, List.getD_cons_succ, List.insertIdx_succ_cons]
      exact ⟨by rw [this.1], this.2⟩
  | _ :: _, [], _, h, _ => h.elim

/-- the step along a line reads the density only at the nodes of the line -/
theorem Line.step_congr (L : Line) (φ ψ : ℕ → ℚ) (h : ∀ j < L.N, φ j = ψ j) : L.step φ = L.step ψ := by
  unfold Line.step Line.rows
  congr 1
  apply List.map_congr_left
  intro j hj
  rw [h j (List.mem_range.mp hj)]

/-- shapes and grids fit: axis k of the array has as many nodes as grid k -/
def GridsFit (grids : List (Array ℚ)) (shape : List ℕ) : Prop :=
  grids.length = shape.length ∧ ∀ k, k < shape.length → (grids.getD k #[]).size = shape.getD k 0

/-- a kernel sweep evaluates its input only inside the box -/
theorem stepAxisFn_congr (grids : List (Array ℚ)) (shape : List ℕ) (hfit : GridsFit grids shape) (k : ℕ) (hk : k < shape.length)
    (P : AxisParams) (use : Bool) (eps : List ℕ → ℕ → ℚ) (dt : ℚ) (A B : List ℕ → ℚ)
    (hAB : ∀ idx, InBox shape idx → A idx = B idx) (idx : List ℕ) (hidx : InBox shape idx) :
    stepAxisFn grids k P use eps dt A idx = stepAxisFn grids k P use eps dt B idx := by
  unfold stepAxisFn stepFam
  simp only
  congr 1
  apply Line.step_congr
  intro j hj
  apply hAB
  have hN : (axisLine (grids.getD k #[]) P (otherCoords grids k (idx.eraseIdx k)) use (eps (idx.eraseIdx k)) dt).N
      = (grids.getD k #[]).size := rfl
  rw [hN, hfit.2 k hk] at hj
  exact inBox_insertIdx shape _ k j hk (inBox_eraseIdx shape idx k hidx) hj

/-- **tabulated kernel sweep = functional kernel sweep** on the box -/
theorem stepAxis_get (grids : List (Array ℚ)) (k : ℕ) (P : AxisParams) (use : Bool) (eps : ND) (dt : ℚ) (T : ND)
    (idx : List ℕ) (hidx : InBox T.shape idx) :
    (stepAxis grids k P use eps dt T).get idx
      = stepAxisFn grids k P use (fun i j => eps.get (i.insertIdx k j)) dt T.get idx := by
  unfold stepAxis
  exact ND.get_ofFn _ _ _ hidx

theorem stepAxis_shape (grids : List (Array ℚ)) (k : ℕ) (P : AxisParams) (use : Bool) (eps : ND) (dt : ℚ) (T : ND) :
    (stepAxis grids k P use eps dt T).shape = T.shape := rfl

theorem inject_get (grids : List (Array ℚ)) (fr nm : List Bool) (dt θ : ℚ) (T : ND) (idx : List ℕ) (hidx : InBox T.shape idx) :
    (inject grids fr nm dt θ T).get idx = injectFn grids fr nm dt θ T.get idx := by
  unfold inject
  exact ND.get_ofFn _ _ _ hidx

theorem inject_shape (grids : List (Array ℚ)) (fr nm : List Bool) (dt θ : ℚ) (T : ND) :
    (inject grids fr nm dt θ T).shape = T.shape := rfl

theorem sweepAxis_shape (grids : List (Array ℚ)) (fr : List Bool) (use : Bool) (eps : ℕ → ND) (pops : List PopParams)
    (β : Option ℚ) (dt : ℚ) (acc : ND) (k : ℕ) : (sweepAxis grids fr use eps pops β dt acc k).shape = acc.shape := by
  unfold sweepAxis
  split
  · rfl
  · split <;> rfl

/-- one axis: tabulated = functional, given that the accumulated array agrees with the accumulated function on the box -/
theorem sweepAxis_get (grids : List (Array ℚ)) (shape : List ℕ) (hfit : GridsFit grids shape) (fr : List Bool) (use : Bool)
    (eps : ℕ → ND) (pops : List PopParams) (β : Option ℚ) (dt : ℚ) (acc : ND) (A : List ℕ → ℚ) (k : ℕ) (hk : k < shape.length)
    (hs : acc.shape = shape) (hA : ∀ idx, InBox shape idx → acc.get idx = A idx) (idx : List ℕ) (hidx : InBox shape idx) :
    (sweepAxis grids fr use eps pops β dt acc k).get idx
      = sweepAxisFn grids fr use (fun k i j => (eps k).get (i.insertIdx k j)) pops β dt A k idx := by
  unfold sweepAxis sweepAxisFn
  by_cases hf : fr.getD k false = true
  · simp only [hf, if_true]; exact hA idx hidx
  · simp only [hf, Bool.false_eq_true, if_false]
    cases pops[k]? with
    | none => exact hA idx hidx
    | some p =>
      simp only
      rw [stepAxis_get _ _ _ _ _ _ _ _ (hs ▸ hidx)]
      exact stepAxisFn_congr grids shape hfit k hk _ _ _ _ _ _ hA idx hidx

/-- **tabulated full time step = functional full time step** on every in-box index, any dimension -/
theorem sweep_get (grids : List (Array ℚ)) (fr nm : List Bool) (use : Bool) (eps : ℕ → ND) (P : StepParams) (dt : ℚ) (T : ND)
    (hfit : GridsFit grids T.shape) (idx : List ℕ) (hidx : InBox T.shape idx) :
    (sweep grids fr nm use eps P dt T).get idx
      = sweepFn grids fr nm use (fun k i j => (eps k).get (i.insertIdx k j)) P dt T.get idx := by
  unfold sweep sweepFn
  have key : ∀ (l : List ℕ) (acc : ND) (A : List ℕ → ℚ), (∀ k ∈ l, k < T.shape.length) → acc.shape = T.shape →
      (∀ idx, InBox T.shape idx → acc.get idx = A idx) →
      (l.foldl (sweepAxis grids fr use eps P.pops P.beta dt) acc).shape = T.shape ∧
      ∀ idx, InBox T.shape idx →
        (l.foldl (sweepAxis grids fr use eps P.pops P.beta dt) acc).get idx
          = l.foldl (sweepAxisFn grids fr use (fun k i j => (eps k).get (i.insertIdx k j)) P.pops P.beta dt) A idx := by
    intro l
    induction l with
    | nil => intro acc A _ hs hA; exact ⟨hs, hA⟩
    | cons k ks ih =>
      intro acc A hl hs hA
      simp only [List.foldl_cons]
      apply ih
      · intro k' hk'; exact hl k' (List.mem_cons_of_mem _ hk')
      · rw [sweepAxis_shape, hs]
      · intro idx' hidx'
        exact sweepAxis_get grids T.shape hfit fr use eps P.pops P.beta dt acc A k (hl k List.mem_cons_self) hs hA idx' hidx'
  refine (key (List.range grids.length) _ _ ?_ (inject_shape _ _ _ _ _ _) ?_).2 idx hidx
  · intro k hk; rw [← hfit.1]; exact List.mem_range.mp hk
  · intro idx' hidx'; exact inject_get _ _ _ _ _ _ _ hidx'

end DadiVerif

namespace DadiVerif
open Gen

theorem injectFn_congr (grids : List (Array ℚ)) (fr nm : List Bool) (dt θ : ℚ) (A B : List ℕ → ℚ) (idx : List ℕ)
    (h : A idx = B idx) : injectFn grids fr nm dt θ A idx = injectFn grids fr nm dt θ B idx := by
  unfold injectFn; simp only [h]

theorem sweepAxisFn_congr (grids : List (Array ℚ)) (shape : List ℕ) (hfit : GridsFit grids shape) (fr : List Bool) (use : Bool)
    (eps : ℕ → List ℕ → ℕ → ℚ) (pops : List PopParams) (β : Option ℚ) (dt : ℚ) (A B : List ℕ → ℚ) (k : ℕ) (hk : k < shape.length)
    (hAB : ∀ idx, InBox shape idx → A idx = B idx) (idx : List ℕ) (hidx : InBox shape idx) :
    sweepAxisFn grids fr use eps pops β dt A k idx = sweepAxisFn grids fr use eps pops β dt B k idx := by
  unfold sweepAxisFn
  by_cases hf : fr.getD k false = true
  · simp only [hf, if_true]; exact hAB idx hidx
  · simp only [hf, Bool.false_eq_true, if_false]
    cases pops[k]? with
    | none => exact hAB idx hidx
    | some p => exact stepAxisFn_congr grids shape hfit k hk _ _ _ _ _ _ hAB idx hidx

/-- the functional sweep reads its input only inside the box -/
theorem sweepFn_congr (grids : List (Array ℚ)) (shape : List ℕ) (hfit : GridsFit grids shape) (fr nm : List Bool) (use : Bool)
    (eps : ℕ → List ℕ → ℕ → ℚ) (P : StepParams) (dt : ℚ) (A B : List ℕ → ℚ)
    (hAB : ∀ idx, InBox shape idx → A idx = B idx) (idx : List ℕ) (hidx : InBox shape idx) :
    sweepFn grids fr nm use eps P dt A idx = sweepFn grids fr nm use eps P dt B idx := by
  unfold sweepFn
  have key : ∀ (l : List ℕ) (A B : List ℕ → ℚ), (∀ k ∈ l, k < shape.length) → (∀ idx, InBox shape idx → A idx = B idx) →
      ∀ idx, InBox shape idx → l.foldl (sweepAxisFn grids fr use eps P.pops P.beta dt) A idx
        = l.foldl (sweepAxisFn grids fr use eps P.pops P.beta dt) B idx := by
    intro l
    induction l with
    | nil => intro A B _ h; exact h
    | cons k ks ih =>
      intro A B hl h
      simp only [List.foldl_cons]
      apply ih
      · intro k' hk'; exact hl k' (List.mem_cons_of_mem _ hk')
      · intro idx' hidx'
        exact sweepAxisFn_congr grids shape hfit fr use eps P.pops P.beta dt A B k (hl k List.mem_cons_self) h idx' hidx'
  apply key _ _ _ _ _ idx hidx
  · intro k hk; rw [← hfit.1]; exact List.mem_range.mp hk
  · intro idx' hidx'; exact injectFn_congr _ _ _ _ _ _ _ _ (hAB idx' hidx')

theorem sweep_shape (grids : List (Array ℚ)) (fr nm : List Bool) (use : Bool) (eps : ℕ → ND) (P : StepParams) (dt : ℚ) (T : ND) :
    (sweep grids fr nm use eps P dt T).shape = T.shape := by
  unfold sweep
  have : ∀ (l : List ℕ) (acc : ND), (l.foldl (sweepAxis grids fr use eps P.pops P.beta dt) acc).shape = acc.shape := by
    intro l
    induction l with
    | nil => intro acc; rfl
    | cons k ks ih => intro acc; simp only [List.foldl_cons]; rw [ih, sweepAxis_shape]
  rw [this]; rfl

/-- **whole constant-parameter integrations: tabulated = functional**, any number of steps -/
theorem integrateConst_get (grids : List (Array ℚ)) (fr nm : List Bool) (use : Bool) (eps : ℕ → ND) (tf : ℚ) (P : StepParams)
    (Tend : ℚ) (shape : List ℕ) (hfit : GridsFit grids shape) :
    ∀ (fuel : ℕ) (t : ℚ) (T : ND) (A : List ℕ → ℚ), T.shape = shape → (∀ idx, InBox shape idx → T.get idx = A idx) →
      ∀ idx, InBox shape idx →
        (integrateConst (sweep grids fr nm use eps) tf P Tend fuel t T).get idx
          = integrateConst (sweepFn grids fr nm use (fun k i j => (eps k).get (i.insertIdx k j))) tf P Tend fuel t A idx := by
  intro fuel
  induction fuel with
  | zero => intro t T A _ hA idx hidx; exact hA idx hidx
  | succ n ih =>
    intro t T A hs hA idx hidx
    simp only [integrateConst]
    split
    · apply ih
      · rw [sweep_shape, hs]
      · intro idx' hidx'
        rw [sweep_get grids fr nm use eps P _ T (hs ▸ hfit) idx' (hs ▸ hidx')]
        exact sweepFn_congr grids shape hfit fr nm use _ P _ T.get A hA idx' hidx'
      · exact hidx
    · exact hA idx hidx

/-- …and with time-dependent parameters -/
theorem integrateFn_get (grids : List (Array ℚ)) (fr nm : List Bool) (use : Bool) (eps : ℕ → ND) (tf : ℚ) (Pf : ℚ → StepParams)
    (Tend : ℚ) (shape : List ℕ) (hfit : GridsFit grids shape) :
    ∀ (fuel : ℕ) (t : ℚ) (Pc : StepParams) (T : ND) (A : List ℕ → ℚ), T.shape = shape → (∀ idx, InBox shape idx → T.get idx = A idx) →
      ∀ idx, InBox shape idx →
        (integrateFn (sweep grids fr nm use eps) tf Pf Tend fuel t Pc T).get idx
          = integrateFn (sweepFn grids fr nm use (fun k i j => (eps k).get (i.insertIdx k j))) tf Pf Tend fuel t Pc A idx := by
  intro fuel
  induction fuel with
  | zero => intro t Pc T A _ hA idx hidx; exact hA idx hidx
  | succ n ih =>
    intro t Pc T A hs hA idx hidx
    simp only [integrateFn]
    split
    · apply ih
      · rw [sweep_shape, hs]
      · intro idx' hidx'
        rw [sweep_get grids fr nm use eps _ _ T (hs ▸ hfit) idx' (hs ▸ hidx')]
        exact sweepFn_congr grids shape hfit fr nm use _ _ _ T.get A hA idx' hidx'
      · exact hidx
    · exact hA idx hidx

end DadiVerif
