import DadiVerif.Lemmas.DemesProgLoops
import DadiVerif.Lemmas.DemesGraph
/-! C16 (round 5) — what the reference programs `makeNuFuncRef` and `getIntegrationParametersRef` compute (closed forms), and how the result
    depends on the reference size. -/
namespace DadiVerif.DemesConv
open Gen.Demes

/-- the closure `_make_nu_func` appends for one deme when not all demes are constant (`none`: `raise ValueError`) -/
def nuEntryOf (T Ne : ℚ) (s : Sym × Sym × SizeFn) : Option NuEntry :=
  match s.2.2 with
  | SizeFn.constant => some (NuEntry.lam SizeFn.constant s.1 s.1 Ne T)
  | SizeFn.linear => some (NuEntry.lam SizeFn.linear s.1 s.2.1 Ne T)
  | SizeFn.exponential => some (NuEntry.lam SizeFn.exponential s.1 s.2.1 Ne T)
  | SizeFn.other => none

/-- closed form of `_make_nu_func` -/
def makeNuFuncCF (sizes : List (Sym × Sym × SizeFn)) (T Ne : ℚ) : Option (List NuEntry) :=
  if sizes.all (fun s => s.2.2 == SizeFn.constant) then some (sizes.map fun s => NuEntry.num (nuConstList s.1 Ne))
  else sizes.mapM (nuEntryOf T Ne)

theorem makeNuFuncRef_eq (sizes : List (Sym × Sym × SizeFn)) (T Ne : ℚ) : makeNuFuncRef sizes T Ne = makeNuFuncCF sizes T Ne := by
  unfold makeNuFuncRef makeNuFuncCF
  by_cases hall : (sizes.all fun s => s.2.2 == SizeFn.constant) = true
  · simp only [hall, if_true, bind, pure, Option.bind]
  · simp only [hall, Bool.false_eq_true, if_false]
    have hbody : (fun (nu_func : List NuEntry) (s : Sym × Sym × SizeFn) => (do
          let nu_func : List NuEntry ← (if (s.2.2 == SizeFn.constant) then (do
              let nu_func : List NuEntry := nu_func ++ [(NuEntry.lam SizeFn.constant s.1 s.1 Ne T)]
              pure nu_func) else (do
              let nu_func : List NuEntry ← (if (s.2.2 == SizeFn.linear) then (do
                  let nu_func : List NuEntry := nu_func ++ [(NuEntry.lam SizeFn.linear s.1 s.2.1 Ne T)]
                  pure nu_func) else (do
                  let nu_func : List NuEntry ← (if (s.2.2 == SizeFn.exponential) then (do
                      let nu_func : List NuEntry := nu_func ++ [(NuEntry.lam SizeFn.exponential s.1 s.2.1 Ne T)]
                      pure nu_func) else (do
                      let _ : Unit ← (none : Option Unit)
                      pure nu_func))
                  pure nu_func))
              pure nu_func))
          pure nu_func : Option (List NuEntry)))
        = fun nu_func s => (nuEntryOf T Ne s).bind fun v => some (nu_func ++ [v]) := by
      funext nu_func s
      unfold nuEntryOf
      cases s.2.2 <;> simp [bind, pure, Option.bind]
    rw [hbody, foldlM_snoc_mapM]
    cases sizes.mapM (nuEntryOf T Ne) <;> simp [bind, pure, Option.bind]

/-! ### `_get_integration_parameters` -/

abbrev ParamRow := ℚ × List Bool × List NuEntry × List (List ℚ)

/-- one pass of the loop of `_get_integration_parameters`: `(T, freeze, nu_func, mig_mat)` of an interval with its live demes -/
def paramRow (g : Graph InEpoch) (frozen_list : List DName) (Ne : ℚ) (item : (ETime × ETime) × List DName) : Option ParamRow :=
  (item.2.mapM fun d => sizesAtTimeRef g d item.1).bind fun sizes =>
  (makeNuFuncCF sizes (intTime item.1.1 item.1.2 Ne) Ne).bind fun nu =>
  some (intTime item.1.1 item.1.2 Ne, item.2.map (fun d => frozen_list.contains d), nu, migMatrix g.migs item.2 item.1.1 item.1.2 Ne)

def pushRow (acc : List ℚ × List (List Bool) × List (List NuEntry) × List (List (List ℚ))) (r : ParamRow) :
    List ℚ × List (List Bool) × List (List NuEntry) × List (List (List ℚ)) :=
  (acc.1 ++ [r.1], acc.2.1 ++ [r.2.1], acc.2.2.1 ++ [r.2.2.1], acc.2.2.2 ++ [r.2.2.2])

theorem foldl_pushRow (rows : List ParamRow) (acc : List ℚ × List (List Bool) × List (List NuEntry) × List (List (List ℚ))) :
    rows.foldl pushRow acc = (acc.1 ++ rows.map (·.1), acc.2.1 ++ rows.map (·.2.1), acc.2.2.1 ++ rows.map (·.2.2.1), acc.2.2.2 ++ rows.map (·.2.2.2)) := by
  induction rows generalizing acc with
  | nil => simp
  | cons r t ih => simp [List.foldl_cons, ih, pushRow]

/-- the reference size `_get_integration_parameters` works with -/
def neOf (g : Graph InEpoch) (Ne : Option ℚ) : Option ℚ :=
  match Ne with
  | none => rootNe g
  | some v => some v

/-- **closed form of `_get_integration_parameters`**: one `paramRow` per item of `sorted(demes_present.items())[::-1]`, in that order; the
    function raises exactly when `_get_root_Ne`, a `_sizes_at_time` or a `_make_nu_func` does -/
theorem getIntegrationParametersRef_eq (hrow : migRowIsDest = true) (hentry : ∀ Ne m : ℚ, migEntry Ne m = (2 * Ne) * m)
    (g : Graph InEpoch) (dp : PyDD (ETime × ETime) DName) (frozen_list : List DName) (Ne : Option ℚ) :
    getIntegrationParametersRef g dp frozen_list Ne
      = (neOf g Ne).bind fun Ne => ((pySortedItemsDesc dp).mapM (paramRow g frozen_list Ne)).map fun rows =>
          (rows.map (·.2.2.1), rows.map (·.2.2.2), rows.map (·.1), rows.map (·.2.1)) := by
  unfold getIntegrationParametersRef neOf
  dsimp only
  -- the reference size: `Ne` itself, or `_get_root_Ne(g)`
  suffices h : ∀ N : ℚ, (do
      let r11 ← (pySortedItemsDesc dp).foldlM (fun (acc5 : (List ℚ) × (List (List Bool)) × (List (List NuEntry)) × (List (List (List ℚ)))) (p4 : (ETime × ETime) × (List DName)) => (do
            let sizes ← (p4.2).foldlM (fun (sizes : List (Sym × Sym × SizeFn)) (d : DName) => (do
                    let t7 ← sizesAtTimeRef g d p4.1
                    pure (sizes ++ [t7]) : Option _)) []
            let t8 ← makeNuFuncRef sizes (intTime p4.1.1 p4.1.2 N) N
            pure (acc5.1 ++ [intTime p4.1.1 p4.1.2 N], acc5.2.1 ++ [List.map (fun x6 => frozen_list.contains x6) p4.2], acc5.2.2.1 ++ [t8],
                  acc5.2.2.2 ++ [List.foldl (fun mig_mat (p9 : ℕ × DName) => List.foldl (fun mig_mat (p10 : ℕ × DName) =>
                      if (p9.2 != p10.2) = true then matSet mig_mat p10.1 p9.1 (2 * N * migrationRateInIntervalRef g p9.2 p10.2 p4.1) else mig_mat)
                      mig_mat (pyEnumerate p4.2)) (pyZeros p4.2.length p4.2.length) (pyEnumerate p4.2)]) : Option _)) ([], [], [], [])
      pure (r11.2.2.1, r11.2.2.2, r11.1, r11.2.1) : Option _)
      = ((pySortedItemsDesc dp).mapM (paramRow g frozen_list N)).map fun rows => (rows.map (·.2.2.1), rows.map (·.2.2.2), rows.map (·.1), rows.map (·.2.1)) by
    cases Ne with
    | some N => exact h N
    | none =>
      dsimp only
      cases rootNe g with
      | none => rfl
      | some N => exact h N
  intro N
  have hbody : (fun (acc5 : (List ℚ) × (List (List Bool)) × (List (List NuEntry)) × (List (List (List ℚ)))) (p4 : (ETime × ETime) × (List DName)) => (do
            let sizes ← (p4.2).foldlM (fun (sizes : List (Sym × Sym × SizeFn)) (d : DName) => (do
                    let t7 ← sizesAtTimeRef g d p4.1
                    pure (sizes ++ [t7]) : Option _)) []
            let t8 ← makeNuFuncRef sizes (intTime p4.1.1 p4.1.2 N) N
            pure (acc5.1 ++ [intTime p4.1.1 p4.1.2 N], acc5.2.1 ++ [List.map (fun x6 => frozen_list.contains x6) p4.2], acc5.2.2.1 ++ [t8],
                  acc5.2.2.2 ++ [List.foldl (fun mig_mat (p9 : ℕ × DName) => List.foldl (fun mig_mat (p10 : ℕ × DName) =>
                      if (p9.2 != p10.2) = true then matSet mig_mat p10.1 p9.1 (2 * N * migrationRateInIntervalRef g p9.2 p10.2 p4.1) else mig_mat)
                      mig_mat (pyEnumerate p4.2)) (pyZeros p4.2.length p4.2.length) (pyEnumerate p4.2)]) : Option _))
        = fun acc p => (paramRow g frozen_list N p).bind fun r => some (pushRow acc r) := by
    funext acc p
    have hsz : (p.2).foldlM (fun (sizes : List (Sym × Sym × SizeFn)) (d : DName) => (do
          let t7 ← sizesAtTimeRef g d p.1
          pure (sizes ++ [t7]) : Option _)) [] = (p.2.mapM fun d => sizesAtTimeRef g d p.1) := by
      have := foldlM_snoc_mapM (fun d => sizesAtTimeRef g d p.1) p.2 []
      simp only [List.nil_append] at this
      rw [show (fun (sizes : List (Sym × Sym × SizeFn)) (d : DName) => (do
          let t7 ← sizesAtTimeRef g d p.1
          pure (sizes ++ [t7]) : Option _)) = fun acc x => (sizesAtTimeRef g x p.1).bind fun v => some (acc ++ [v]) from rfl, this]
      cases (p.2.mapM fun d => sizesAtTimeRef g d p.1) <;> simp
    have hmat := matLoop_eq (fun a b => ((2 : ℚ) * N) * migrationRateInIntervalRef g a b p.1) p.2
    rw [hsz, hmat]
    simp only [makeNuFuncRef_eq, paramRow, pushRow, bind, Option.bind, pure]
    cases (p.2.mapM fun d => sizesAtTimeRef g d p.1) with
    | none => rfl
    | some sizes =>
      simp only
      cases makeNuFuncCF sizes (intTime p.1.1 p.1.2 N) N with
      | none => rfl
      | some nu =>
        simp only [Option.some.injEq, Prod.mk.injEq, true_and]
        unfold migMatrix
        simp only [hrow, if_true, hentry]
        rfl
  rw [hbody, foldlM_push]
  cases (pySortedItemsDesc dp).mapM (paramRow g frozen_list N) with
  | none => rfl
  | some rows => simp [foldl_pushRow, pure, bind]

/-! ### dependence on the reference size -/

/-- what the generated formulas do when the reference size is divided by `c` (proved in `Props/C16.lean` from their text) -/
structure NeFacts (ex lg : ℚ → ℚ) (pw : ℚ → ℚ → ℚ) : Prop where
  time : ∀ (i0 i1 : ETime) (Ne c : ℚ), c ≠ 0 → intTime i0 i1 (Ne / c) = c * intTime i0 i1 Ne
  mig : ∀ (Ne m c : ℚ), c ≠ 0 → migEntry (Ne / c) m = migEntry Ne m / c
  num : ∀ (N0 : Sym) (Ne c : ℚ), c ≠ 0 → (nuConstList N0 (Ne / c)).eval ex lg pw = c * (nuConstList N0 Ne).eval ex lg pw
  const : ∀ (N0 NF : Sym) (Ne T t c : ℚ), c ≠ 0 → (nuConstFn N0 NF (Ne / c) (c * T) (c * t)).eval ex lg pw = c * (nuConstFn N0 NF Ne T t).eval ex lg pw
  lin : ∀ (N0 NF : Sym) (Ne T t c : ℚ), c ≠ 0 → (nuLinear N0 NF (Ne / c) (c * T) (c * t)).eval ex lg pw = c * (nuLinear N0 NF Ne T t).eval ex lg pw
  expo : ∀ (N0 NF : Sym) (Ne T t c : ℚ), c ≠ 0 → (nuExp N0 NF (Ne / c) (c * T) (c * t)).eval ex lg pw = c * (nuExp N0 NF Ne T t).eval ex lg pw

/-- a row with every size evaluated at the fraction `frac` of its own integration time -/
def evalRow (ex lg : ℚ → ℚ) (pw : ℚ → ℚ → ℚ) (frac : ℚ) (r : ParamRow) : ℚ × List Bool × List ℚ × List (List ℚ) :=
  (r.1, r.2.1, r.2.2.1.map (fun e => (e.at (frac * r.1)).eval ex lg pw), r.2.2.2)

/-- the C03 re-scaling of a row: `T` and every relative size times `c`, every scaled migration rate divided by `c` -/
def scaleRow (c : ℚ) (r : ℚ × List Bool × List ℚ × List (List ℚ)) : ℚ × List Bool × List ℚ × List (List ℚ) :=
  (c * r.1, r.2.1, r.2.2.1.map (c * ·), r.2.2.2.map (·.map (· / c)))

theorem migMatrix_ne {ex lg : ℚ → ℚ} {pw : ℚ → ℚ → ℚ} (F : NeFacts ex lg pw) {c : ℚ} (hc : c ≠ 0) (migs : List GMig) (live : List DName) (i0 i1 : ETime) (Ne : ℚ) :
    migMatrix migs live i0 i1 (Ne / c) = (migMatrix migs live i0 i1 Ne).map (·.map (· / c)) := by
  unfold migMatrix
  simp only [List.map_map]
  apply List.map_congr_left
  intro r _
  simp only [Function.comp_def, List.map_map]
  apply List.map_congr_left
  intro x _
  simp only [Function.comp_def, F.mig _ _ _ hc]
  split_ifs <;> simp

theorem nuEntry_ne {ex lg : ℚ → ℚ} {pw : ℚ → ℚ → ℚ} (F : NeFacts ex lg pw) {c : ℚ} (hc : c ≠ 0) (T Ne frac : ℚ) (s : Sym × Sym × SizeFn) :
    (nuEntryOf (c * T) (Ne / c) s).map (fun e => (e.at (frac * (c * T))).eval ex lg pw)
      = ((nuEntryOf T Ne s).map (fun e => (e.at (frac * T)).eval ex lg pw)).map (c * ·) := by
  have ht : frac * (c * T) = c * (frac * T) := by ring
  unfold nuEntryOf
  cases s.2.2 <;> simp only [Option.map_some, Option.map_none, NuEntry.at, ht, F.const _ _ _ _ _ _ hc, F.lin _ _ _ _ _ _ hc, F.expo _ _ _ _ _ _ hc]

theorem mapM_map_rel {α β γ : Type} (f f' : α → Option β) (ev ev' : β → γ) (sc : γ → γ) (l : List α)
    (h : ∀ x ∈ l, (f' x).map ev' = ((f x).map ev).map sc) :
    (l.mapM f').map (List.map ev') = ((l.mapM f).map (List.map ev)).map (List.map sc) := by
  induction l with
  | nil => rfl
  | cons a t ih =>
    have ha := h a List.mem_cons_self
    have it := ih (fun x hx => h x (List.mem_cons_of_mem _ hx))
    rw [List.mapM_cons, List.mapM_cons]
    cases h1 : f' a <;> cases h2 : f a <;> rw [h1, h2] at ha <;> simp at ha
    · rfl
    · cases h3 : t.mapM f' <;> cases h4 : t.mapM f <;> rw [h3, h4] at it <;> simp at it
      · rfl
      · simp [bind, pure, Option.bind, ha, it]

theorem makeNuFuncCF_ne {ex lg : ℚ → ℚ} {pw : ℚ → ℚ → ℚ} (F : NeFacts ex lg pw) {c : ℚ} (hc : c ≠ 0) (sizes : List (Sym × Sym × SizeFn)) (T Ne frac : ℚ) :
    (makeNuFuncCF sizes (c * T) (Ne / c)).map (List.map fun e => (e.at (frac * (c * T))).eval ex lg pw)
      = ((makeNuFuncCF sizes T Ne).map (List.map fun e => (e.at (frac * T)).eval ex lg pw)).map (List.map (c * ·)) := by
  unfold makeNuFuncCF
  split_ifs
  · simp only [Option.map_some, List.map_map, Option.some.injEq]
    apply List.map_congr_left
    intro s _
    simp [NuEntry.at, F.num _ _ _ hc]
  · exact mapM_map_rel _ _ _ _ _ sizes (fun s _ => nuEntry_ne F hc T Ne frac s)

/-- **one interval, reference size divided by `c`**: the same live demes and frozen flags, `T` times `c`, every relative size (at every
    fraction of the integration time) times `c`, every scaled migration rate divided by `c` -/
theorem paramRow_ne {ex lg : ℚ → ℚ} {pw : ℚ → ℚ → ℚ} (F : NeFacts ex lg pw) {c : ℚ} (hc : c ≠ 0) (g : Graph InEpoch) (fz : List DName) (Ne frac : ℚ)
    (item : (ETime × ETime) × List DName) :
    (paramRow g fz (Ne / c) item).map (evalRow ex lg pw frac) = ((paramRow g fz Ne item).map (evalRow ex lg pw frac)).map (scaleRow c) := by
  unfold paramRow
  rw [F.time _ _ _ _ hc, migMatrix_ne F hc]
  cases item.2.mapM fun d => sizesAtTimeRef g d item.1 with
  | none => rfl
  | some sizes =>
    simp only [Option.bind_some]
    have := makeNuFuncCF_ne F hc sizes (intTime item.1.1 item.1.2 Ne) Ne frac
    cases h1 : makeNuFuncCF sizes (c * intTime item.1.1 item.1.2 Ne) (Ne / c) <;>
      cases h2 : makeNuFuncCF sizes (intTime item.1.1 item.1.2 Ne) Ne <;> rw [h1, h2] at this <;> simp at this
    · rfl
    · simp only [Option.bind_some, Option.map_some, evalRow, scaleRow, this, Option.some.injEq, Prod.mk.injEq, true_and, and_true]
      simp

/-- the four lists `_get_integration_parameters` returns, every size evaluated at the fraction `frac` of its interval's integration time:
    `(nu values, migration_matrices, integration_times, frozen_demes)` -/
def evalParams (ex lg : ℚ → ℚ) (pw : ℚ → ℚ → ℚ) (frac : ℚ) (q : List (List NuEntry) × List (List (List ℚ)) × List ℚ × List (List Bool)) :
    List (List ℚ) × List (List (List ℚ)) × List ℚ × List (List Bool) :=
  (List.zipWith (fun nu T => nu.map fun e => (e.at (frac * T)).eval ex lg pw) q.1 q.2.2.1, q.2.1, q.2.2.1, q.2.2.2)

/-- the C03 re-scaling of the four lists -/
def scaleParams (c : ℚ) (q : List (List ℚ) × List (List (List ℚ)) × List ℚ × List (List Bool)) :
    List (List ℚ) × List (List (List ℚ)) × List ℚ × List (List Bool) :=
  (q.1.map (·.map (c * ·)), q.2.1.map (·.map (·.map (· / c))), q.2.2.1.map (c * ·), q.2.2.2)

def ofEvRows (rs : List (ℚ × List Bool × List ℚ × List (List ℚ))) : List (List ℚ) × List (List (List ℚ)) × List ℚ × List (List Bool) :=
  (rs.map (·.2.2.1), rs.map (·.2.2.2), rs.map (·.1), rs.map (·.2.1))

theorem evalParams_rows (ex lg : ℚ → ℚ) (pw : ℚ → ℚ → ℚ) (frac : ℚ) (rows : List ParamRow) :
    evalParams ex lg pw frac (rows.map (·.2.2.1), rows.map (·.2.2.2), rows.map (·.1), rows.map (·.2.1)) = ofEvRows (rows.map (evalRow ex lg pw frac)) := by
  unfold evalParams ofEvRows
  simp only [List.map_map, Prod.mk.injEq]
  refine ⟨?_, rfl, rfl, rfl⟩
  induction rows with
  | nil => rfl
  | cons r t ih => simp [List.zipWith_cons_cons, ih, evalRow]

theorem scaleParams_rows (c : ℚ) (rs : List (ℚ × List Bool × List ℚ × List (List ℚ))) : scaleParams c (ofEvRows rs) = ofEvRows (rs.map (scaleRow c)) := by
  unfold scaleParams ofEvRows
  simp [List.map_map, Function.comp_def, scaleRow]

/-- **`_get_integration_parameters`, reference size divided by `c`** (same `demes_present`, same frozen list): every integration time is `c`
    times larger, every entry of every migration matrix `c` times smaller, every relative size — at every fraction of every integration
    time, the root's and the frozen branches' included — `c` times larger; the frozen flags do not change; it raises in the same cases. -/
theorem getIntegrationParametersRef_ne {ex lg : ℚ → ℚ} {pw : ℚ → ℚ → ℚ} (F : NeFacts ex lg pw) (hrow : migRowIsDest = true)
    (hentry : ∀ Ne m : ℚ, migEntry Ne m = (2 * Ne) * m) {c : ℚ} (hc : c ≠ 0) (g : Graph InEpoch) (dp : PyDD (ETime × ETime) DName)
    (fz : List DName) (Ne frac : ℚ) :
    (getIntegrationParametersRef g dp fz (some (Ne / c))).map (evalParams ex lg pw frac)
      = ((getIntegrationParametersRef g dp fz (some Ne)).map (evalParams ex lg pw frac)).map (scaleParams c) := by
  rw [getIntegrationParametersRef_eq hrow hentry, getIntegrationParametersRef_eq hrow hentry]
  simp only [neOf, Option.bind_some, Option.map_map]
  have h := mapM_map_rel (paramRow g fz Ne) (paramRow g fz (Ne / c)) (evalRow ex lg pw frac) (evalRow ex lg pw frac) (scaleRow c) (pySortedItemsDesc dp)
    (fun x _ => paramRow_ne F hc g fz Ne frac x)
  cases h1 : (pySortedItemsDesc dp).mapM (paramRow g fz (Ne / c)) <;> cases h2 : (pySortedItemsDesc dp).mapM (paramRow g fz Ne) <;>
    rw [h1, h2] at h <;> simp at h
  · rfl
  · simp only [Option.map_some, Function.comp_def, evalParams_rows, scaleParams_rows, h, List.map_map]

end DadiVerif.DemesConv
