import DadiVerif.Lemmas.FileFormat
import Mathlib.Data.List.TakeWhile
/-!
# C14: lemmas about the primitives the TRANSLATED readers are made of

`Gen.FileIO.fromFile` / `Gen.FileIO.arrayFromFile` (Generated/FileIO.lean) are produced statement by statement from the
bodies of `Spectrum.from_file` / `Numerics.array_from_file` by tools/gen_FileIO.py: `readline` on a file object, the two
`while` loops, the lambda-lifted `if` blocks, `numpy.fromstring` / `numpy.fromfile` / `reshape`, the constructor call bound
against the signature of `Spectrum.__new__`.  Props/C14.lean (`C14_reader_*`) proves them equal — for every text and every
`mask_corners` — to `FileFormat.fromFileSpec` / `FileFormat.arrayFromFileSpec` (Model/FileFormat.lean), the normal forms on
which the round-trip lemmas of Lemmas/FileRoundTrip.lean are stated.  This file holds what those proofs need about the
model-level primitives only (`split`/`strip`, `readline`, the comment loop, the scanning loop against `scanDims`,
`readCount`); it mentions no generated definition, so it builds whatever the current source looks like.
-/
set_option linter.unusedVariables false
set_option linter.unusedSimpArgs false
namespace DadiVerif.FileFormat
open Gen.FileIO

/-! ## `split()` and `strip()` -/

theorem splitAux_append_allws (w : Str) (hw : AllWs w) : ∀ (a cur : Str), splitAux (a ++ w) cur = splitAux a cur := by
  intro a
  induction a with
  | nil =>
    intro cur
    simp only [List.nil_append, splitAux_allws w hw, splitAux]
  | cons c cs ih =>
    intro cur
    simp only [List.cons_append, splitAux, ih]

theorem splitWs_append_allws (a w : Str) (hw : AllWs w) : splitWs (a ++ w) = splitWs a :=
  splitAux_append_allws w hw a []

theorem splitWs_lstrip (s : Str) : splitWs (lstrip s) = splitWs s := by
  induction s with
  | nil => rfl
  | cons c cs ih =>
    by_cases hc : isWs c = true
    · have : lstrip (c :: cs) = lstrip cs := by simp [lstrip, List.dropWhile, hc]
      rw [this, ih, splitWs_ws_cons' c hc]
    · have : lstrip (c :: cs) = c :: cs := by simp [lstrip, List.dropWhile, hc]
      rw [this]
where
  splitWs_ws_cons' (w : Char) (hw : isWs w = true) {r : Str} : splitWs (w :: r) = splitWs r := by
    simp [splitWs, splitAux, hw]

/-- `s = s.strip() + (trailing whitespace)` after the leading whitespace is gone -/
theorem lstrip_eq_strip_append (s : Str) : ∃ w, AllWs w ∧ lstrip s = strip s ++ w := by
  refine ⟨((lstrip s).reverse.takeWhile isWs).reverse, ?_, ?_⟩
  · intro c hc
    have := List.mem_reverse.mp hc
    exact List.mem_takeWhile_imp this
  · unfold strip
    rw [← List.reverse_append, List.takeWhile_append_dropWhile, List.reverse_reverse]

/-- `s.strip().split() == s.split()` -/
theorem splitWs_strip (s : Str) : splitWs (strip s) = splitWs s := by
  obtain ⟨w, hw, h⟩ := lstrip_eq_strip_append s
  rw [← splitWs_lstrip s, h, splitWs_append_allws _ _ hw]

theorem allWs_of_splitWs_nil (s : Str) (h : splitWs s = []) : AllWs s := by
  intro c hc
  by_contra hn
  have hf : isWs c = false := by simpa using hn
  exact splitAux_ne_nil s [] (Or.inr ⟨c, hc, hf⟩) h

/-- `not s.strip()` ⟺ `s.split() == []` -/
theorem strip_isEmpty (s : Str) : (strip s).isEmpty = decide (splitWs s = []) := by
  by_cases h : splitWs s = []
  · have hall := allWs_of_splitWs_nil s h
    have : strip s = [] := by
      unfold strip lstrip
      rw [dropWhile_allws s hall]; rfl
    simp [this, h]
  · have : strip s ≠ [] := by
      intro e
      apply h
      rw [← splitWs_strip, e]; rfl
    simp [h, this]

/-! ## the file object -/

theorem readline_eq (fid : Fid) : readline fid = (fid.headD [], fid.drop 1) := by
  cases fid <;> rfl

theorem startsWith_hash (l : Str) : startsWith ['#'] l = startsHash l := by
  cases l with
  | nil => rfl
  | cons c r =>
    simp only [startsWith, startsHash, List.isPrefixOf, HASH, Bool.and_true]
    exact Bool.beq_comm

/-- the comment loop: what `while line.startswith('#'): comments.append(f(line)); line = fid.readline()` leaves behind -/
theorem whileStartsWith_hash (f : Str → Str) (ls : List Str) : ∀ cs : List Str,
    whileStartsWith ['#'] f cs (ls.headD []) (ls.drop 1)
      = (cs ++ (ls.takeWhile startsHash).map f, (ls.dropWhile startsHash).headD [], (ls.dropWhile startsHash).drop 1) := by
  induction ls with
  | nil =>
    intro cs
    simp [whileStartsWith, startsWith_hash, startsHash]
  | cons l r ih =>
    intro cs
    simp only [List.headD_cons, List.drop_succ_cons, List.drop_zero]
    cases r with
    | nil =>
      simp only [whileStartsWith, startsWith_hash]
      cases h : startsHash l <;> simp [List.takeWhile, List.dropWhile, h]
    | cons l2 r2 =>
      simp only [whileStartsWith, startsWith_hash]
      cases h : startsHash l
      · simp [List.takeWhile, List.dropWhile, h]
      · have := ih (cs ++ [f l])
        simp only [List.headD_cons, List.drop_succ_cons, List.drop_zero] at this
        simp only [if_true, this, List.takeWhile, List.dropWhile, h, List.map_cons, List.append_assoc, List.cons_append,
          List.nil_append]

/-! ## the header block -/

theorem flag_ne : UNFOLDED ≠ FOLDED := by decide

/-- the scanning loop of the generated reader against `scanDims` -/
theorem scanInts_scanDims (ts : List Str) : ∀ (acc : List Nat) (i : Nat),
    scanInts [FOLDED, UNFOLDED] ts acc i
      = (scanDims ts).map (fun r => (acc ++ r.1, i + r.1.length)) := by
  induction ts with
  | nil => intro acc i; rfl
  | cons t ts ih =>
    intro acc i
    by_cases h1 : t = FOLDED
    · subst h1; simp [scanInts, scanDims]
    · by_cases h2 : t = UNFOLDED
      · subst h2; simp [scanInts, scanDims, flag_ne]
      · have hc : [FOLDED, UNFOLDED].contains t = false := by simp [h1, h2]
        simp only [scanInts, scanDims, hc, if_neg h1, if_neg h2, Bool.false_eq_true, if_false]
        cases hp : parseInt t with
        | none => simp
        | some d =>
          simp only [ih]
          cases hs : scanDims ts with
          | none => simp
          | some r =>
            obtain ⟨ds, f, after⟩ := r
            simp [List.append_assoc, Nat.add_assoc, Nat.add_comm 1]

/-- where `scanDims` stops: the flag word sits right after the dimensions, `after` is what follows it -/
theorem scanDims_shape (ts : List Str) : ∀ (ds : List Nat) (f : Bool) (after : List Str),
    scanDims ts = some (ds, f, after) →
      ts[ds.length]? = some (if f then FOLDED else UNFOLDED) ∧ ts.length = ds.length + 1 + after.length := by
  induction ts with
  | nil => intro ds f after h; simp [scanDims] at h
  | cons t ts ih =>
    intro ds f after h
    by_cases h1 : t = FOLDED
    · subst h1
      simp only [scanDims, if_true, Option.some.injEq, Prod.mk.injEq] at h
      obtain ⟨rfl, rfl, rfl⟩ := h
      simp; omega
    · by_cases h2 : t = UNFOLDED
      · subst h2
        simp only [scanDims, if_neg flag_ne, if_true, Option.some.injEq, Prod.mk.injEq] at h
        obtain ⟨rfl, rfl, rfl⟩ := h
        simp; omega
      · simp only [scanDims, if_neg h1, if_neg h2] at h
        cases hp : parseInt t with
        | none => simp [hp] at h
        | some d =>
          cases hs : scanDims ts with
          | none => simp [hp, hs] at h
          | some r =>
            obtain ⟨ds', f', after'⟩ := r
            simp only [hp, hs, Option.some.injEq, Prod.mk.injEq] at h
            obtain ⟨rfl, rfl, rfl⟩ := h
            have := ih ds' f' after' hs
            simp only [List.length_cons, List.getElem?_cons_succ]
            exact ⟨this.1, by omega⟩

/-! ## data and mask lines -/

theorem readCount_length (n : Nat) (toks d : List Str) (h : readCount n toks = some d) : d.length = n := by
  unfold readCount at h
  split at h
  · cases h
  · simp only [Option.some.injEq] at h
    subst h
    simp only [List.length_take]; omega

end DadiVerif.FileFormat
