import DadiVerif.Lemmas.FileFormat
import Mathlib.Data.List.TakeWhile
/-!
# C14: the TRANSLATED readers equal the hand-written normal forms

`Gen.FileIO.fromFile` / `Gen.FileIO.arrayFromFile` (Generated/FileIO.lean) are produced statement by statement from the
bodies of `Spectrum.from_file` / `Numerics.array_from_file` by tools/gen_FileIO.py: `readline` on a file object, the two
`while` loops, the lambda-lifted `if` blocks, `numpy.fromstring` / `numpy.fromfile` / `reshape`, the constructor call bound
against the signature of `Spectrum.__new__`.  This file proves them equal — for every text and every `mask_corners` — to
`FileFormat.fromFileSpec` / `FileFormat.arrayFromFileSpec` (Model/FileFormat.lean), the normal forms on which the round-trip lemmas
of Lemmas/FileRoundTrip.lean are stated.  Any change of a translated statement (labels from whitespace tokens, another
comment stripping, data read with `fromfile`, another default of the constructor call …) changes the generated term and
breaks these equalities, hence every `C14_*` theorem about the readers.
-/
set_option linter.unusedVariables false
set_option linter.unusedSimpArgs false
namespace DadiVerif.FileFormat
open Gen.FileIO

/-! ## `split()` and `strip()` -/

theorem splitAux_append_allws (w : Str) (hw : AllWs w) : ∀ (a cur : Str), splitAux (a ++ w) cur = splitAux a cur := by
  intro a
  induction a with
  | nil =>
    intro cur
    simp only [List.nil_append, splitAux_allws w hw, splitAux]
  | cons c cs ih =>
    intro cur
    simp only [List.cons_append, splitAux, ih]

theorem splitWs_append_allws (a w : Str) (hw : AllWs w) : splitWs (a ++ w) = splitWs a :=
  splitAux_append_allws w hw a []

theorem splitWs_lstrip (s : Str) : splitWs (lstrip s) = splitWs s := by
  induction s with
  | nil => rfl
  | cons c cs ih =>
    by_cases hc : isWs c = true
    · have : lstrip (c :: cs) = lstrip cs := by simp [lstrip, List.dropWhile, hc]
      rw [this, ih, splitWs_ws_cons' c hc]
    · have : lstrip (c :: cs) = c :: cs := by simp [lstrip, List.dropWhile, hc]
      rw [this]
where
  splitWs_ws_cons' (w : Char) (hw : isWs w = true) {r : Str} : splitWs (w :: r) = splitWs r := by
    simp [splitWs, splitAux, hw]

/-- `s = s.strip() + (trailing whitespace)` after the leading whitespace is gone -/
theorem lstrip_eq_strip_append (s : Str) : ∃ w, AllWs w ∧ lstrip s = strip s ++ w := by
  refine ⟨((lstrip s).reverse.takeWhile isWs).reverse, ?_, ?_⟩
  · intro c hc
    have := List.mem_reverse.mp hc
    exact List.mem_takeWhile_imp this
  · unfold strip
    rw [← List.reverse_append, List.takeWhile_append_dropWhile, List.reverse_reverse]

/-- `s.strip().split() == s.split()` -/
theorem splitWs_strip (s : Str) : splitWs (strip s) = splitWs s := by
  obtain ⟨w, hw, h⟩ := lstrip_eq_strip_append s
  rw [← splitWs_lstrip s, h, splitWs_append_allws _ _ hw]

theorem allWs_of_splitWs_nil (s : Str) (h : splitWs s = []) : AllWs s := by
  intro c hc
  by_contra hn
  have hf : isWs c = false := by simpa using hn
  exact splitAux_ne_nil s [] (Or.inr ⟨c, hc, hf⟩) h

/-- `not s.strip()` ⟺ `s.split() == []` -/
theorem strip_isEmpty (s : Str) : (strip s).isEmpty = decide (splitWs s = []) := by
  by_cases h : splitWs s = []
  · have hall := allWs_of_splitWs_nil s h
    have : strip s = [] := by
      unfold strip lstrip
      rw [dropWhile_allws s hall]; rfl
    simp [this, h]
  · have : strip s ≠ [] := by
      intro e
      apply h
      rw [← splitWs_strip, e]; rfl
    simp [h, this]

/-! ## the file object -/

theorem readline_eq (fid : Fid) : readline fid = (fid.headD [], fid.drop 1) := by
  cases fid <;> rfl

theorem startsWith_hash (l : Str) : startsWith ['#'] l = startsHash l := by
  cases l with
  | nil => rfl
  | cons c r =>
    simp only [startsWith, startsHash, List.isPrefixOf, HASH, Bool.and_true]
    exact Bool.beq_comm

/-- the comment loop: what `while line.startswith('#'): comments.append(f(line)); line = fid.readline()` leaves behind -/
theorem whileStartsWith_hash (f : Str → Str) (ls : List Str) : ∀ cs : List Str,
    whileStartsWith ['#'] f cs (ls.headD []) (ls.drop 1)
      = (cs ++ (ls.takeWhile startsHash).map f, (ls.dropWhile startsHash).headD [], (ls.dropWhile startsHash).drop 1) := by
  induction ls with
  | nil =>
    intro cs
    simp [whileStartsWith, startsWith_hash, startsHash]
  | cons l r ih =>
    intro cs
    simp only [List.headD_cons, List.drop_succ_cons, List.drop_zero]
    cases r with
    | nil =>
      simp only [whileStartsWith, startsWith_hash]
      cases h : startsHash l <;> simp [List.takeWhile, List.dropWhile, h]
    | cons l2 r2 =>
      simp only [whileStartsWith, startsWith_hash]
      cases h : startsHash l
      · simp [List.takeWhile, List.dropWhile, h]
      · have := ih (cs ++ [f l])
        simp only [List.headD_cons, List.drop_succ_cons, List.drop_zero] at this
        simp only [if_true, this, List.takeWhile, List.dropWhile, h, List.map_cons, List.append_assoc, List.cons_append,
          List.nil_append]

/-! ## the header block -/

theorem fromFile_if2_eq (line : Str) (toks : List Str) (n : Nat) :
    fromFile_if2 line toks n = some (if toks.length > n + 1 then some (odds (splitOnC QUOTE line)) else none) := by
  unfold fromFile_if2
  by_cases h : toks.length > n + 1 <;> simp [h, QUOTE]

theorem flag_ne : UNFOLDED ≠ FOLDED := by decide

/-- the scanning loop of the generated reader against `scanDims` -/
theorem scanInts_scanDims (ts : List Str) : ∀ (acc : List Nat) (i : Nat),
    scanInts [FOLDED, UNFOLDED] ts acc i
      = (scanDims ts).map (fun r => (acc ++ r.1, i + r.1.length)) := by
  induction ts with
  | nil => intro acc i; rfl
  | cons t ts ih =>
    intro acc i
    by_cases h1 : t = FOLDED
    · subst h1; simp [scanInts, scanDims]
    · by_cases h2 : t = UNFOLDED
      · subst h2; simp [scanInts, scanDims, flag_ne]
      · have hc : [FOLDED, UNFOLDED].contains t = false := by simp [h1, h2]
        simp only [scanInts, scanDims, hc, if_neg h1, if_neg h2, Bool.false_eq_true, if_false]
        cases hp : parseInt t with
        | none => simp
        | some d =>
          simp only [ih]
          cases hs : scanDims ts with
          | none => simp
          | some r =>
            obtain ⟨ds, f, after⟩ := r
            simp [List.append_assoc, Nat.add_assoc, Nat.add_comm 1]

/-- where `scanDims` stops: the flag word sits right after the dimensions, `after` is what follows it -/
theorem scanDims_shape (ts : List Str) : ∀ (ds : List Nat) (f : Bool) (after : List Str),
    scanDims ts = some (ds, f, after) →
      ts[ds.length]? = some (if f then FOLDED else UNFOLDED) ∧ ts.length = ds.length + 1 + after.length := by
  induction ts with
  | nil => intro ds f after h; simp [scanDims] at h
  | cons t ts ih =>
    intro ds f after h
    by_cases h1 : t = FOLDED
    · subst h1
      simp only [scanDims, if_true, Option.some.injEq, Prod.mk.injEq] at h
      obtain ⟨rfl, rfl, rfl⟩ := h
      simp; omega
    · by_cases h2 : t = UNFOLDED
      · subst h2
        simp only [scanDims, if_neg flag_ne, if_true, Option.some.injEq, Prod.mk.injEq] at h
        obtain ⟨rfl, rfl, rfl⟩ := h
        simp; omega
      · simp only [scanDims, if_neg h1, if_neg h2] at h
        cases hp : parseInt t with
        | none => simp [hp] at h
        | some d =>
          cases hs : scanDims ts with
          | none => simp [hp, hs] at h
          | some r =>
            obtain ⟨ds', f', after'⟩ := r
            simp only [hp, hs, Option.some.injEq, Prod.mk.injEq] at h
            obtain ⟨rfl, rfl, rfl⟩ := h
            have := ih ds' f' after' hs
            simp only [List.length_cons, List.getElem?_cons_succ]
            exact ⟨this.1, by omega⟩

/-- the lambda-lifted header block of the generated reader IS `parseHeader` -/
theorem fromFile_if1_eq (line : Str) : fromFile_if1 line (splitWs line) = parseHeader line := by
  unfold fromFile_if1 parseHeader
  generalize splitWs line = toks
  have hF : (['f', 'o', 'l', 'd', 'e', 'd'] : Str) = FOLDED := rfl
  have hU : (['u', 'n', 'f', 'o', 'l', 'd', 'e', 'd'] : Str) = UNFOLDED := rfl
  simp only [hU]
  simp only [hF]
  by_cases hc : (!toks.contains FOLDED && !toks.contains UNFOLDED) = true
  · simp only [hc, if_true]
    cases toks.mapM parseInt <;> rfl
  · simp only [hc, if_false, Bool.false_eq_true]
    cases toks with
    | nil => rfl
    | cons t0 ts =>
      simp only [idx, List.getElem?_cons_zero, Option.bind_some]
      cases hp : parseInt t0 with
      | none => rfl
      | some d0 =>
        simp only [Option.bind_some, whileNotInAppendInt, List.drop_succ_cons, List.drop_zero, scanInts_scanDims]
        cases hs : scanDims ts with
        | none => rfl
        | some r =>
          obtain ⟨ds, f, after⟩ := r
          obtain ⟨hflag, hlen⟩ := scanDims_shape ts ds f after hs
          simp only [Option.map_some, Option.bind_some, List.singleton_append]
          have hi : (t0 :: ts)[1 + ds.length]? = some (if f then FOLDED else UNFOLDED) := by
            rw [Nat.add_comm, List.getElem?_cons_succ]; exact hflag
          rw [hi]
          simp only [Option.bind_some, fromFile_if2_eq]
          have hfold : ((if f then FOLDED else UNFOLDED) == FOLDED) = f := by
            cases f
            · simp [flag_ne]
            · simp
          rw [hfold]
          have hgt : ((t0 :: ts).length > 1 + ds.length + 1) = ¬ (after.isEmpty = true) := by
            simp only [List.length_cons, hlen, List.isEmpty_iff]
            cases after <;> simp <;> omega
          simp only [hgt]
          cases after <;> simp

/-! ## data and mask lines -/

theorem readCount_length (n : Nat) (toks d : List Str) (h : readCount n toks = some d) : d.length = n := by
  unfold readCount at h
  split at h
  · cases h
  · simp only [Option.some.injEq] at h
    subst h
    simp only [List.length_take]; omega

/-- the mask block followed by the conversion of the constructor argument -/
theorem mask_block (shape : List Nat) (hs : shape ≠ []) (l : Str) :
    (fromFile_if3 shape (strip l)).bind maskArg
      = maskOfLine (prodL shape) (splitWs l) := by
  unfold maskOfLine
  unfold fromFile_if3
  rw [strip_isEmpty]
  by_cases h : splitWs l = []
  · simp [h, maskArg]
  · simp only [h, decide_false, Bool.false_eq_true, if_false, npProdCount, if_neg hs, Option.bind_some, fromstring,
      splitWs_strip]
    cases hr : readCount (prodL shape) (splitWs l) with
    | none => rfl
    | some ts =>
      have := readCount_length _ _ _ hr
      simp [reshape, this, maskArg]

/-! ## the whole readers -/

/-- **the translated `Spectrum.from_file` equals the hand-written normal form** -/
theorem fromFile_generated (mc : Bool) (text : Str) : Gen.FileIO.fromFile mc text = fromFileSpec mc text := by
  unfold Gen.FileIO.fromFile fromFileSpec openText
  generalize linesOf (univNL text) = ls
  simp only [readline_eq]
  have hw := whileStartsWith_hash (fun line => strip (List.drop 1 line)) ls []
  simp only [List.nil_append] at hw
  rw [hw]
  simp only [fromFile_if1_eq, lineAt, List.drop_zero, List.drop_drop, Nat.reduceAdd]
  have hcm : (fun line => strip (List.drop 1 line)) = commentOf := rfl
  rw [hcm]
  generalize ls.dropWhile startsHash = rest
  cases hh : parseHeader (rest.headD []) with
  | none => rfl
  | some r =>
    obtain ⟨shape, folded, labels⟩ := r
    simp only [Option.bind_some]
    by_cases hs : shape = []
    · simp [hs, npProdCount]
    · simp only [npProdCount, if_neg hs, Option.bind_some, fromstring, splitWs_strip]
      cases hr : readCount (prodL shape) (splitWs ((rest.drop 1).headD [])) with
      | none => rfl
      | some data =>
        have hlen := readCount_length _ _ _ hr
        simp only [Option.bind_some, reshape, hlen, if_true]
        have hm := mask_block shape hs ((rest.drop 2).headD [])
        rw [← Option.bind_assoc, hm]
        cases hmask : maskOfLine (prodL shape) (splitWs ((rest.drop 2).headD [])) with
        | none => rfl
        | some mask =>
          simp only [Option.bind_some]
          cases construct (PyVal.arr shape data) mask (PyVal.bool mc) (PyVal.bool folded) (PyVal.bool true)
            (labelsVal labels) PyVal.none <;> rfl

/-- **the translated `Numerics.array_from_file` equals the hand-written normal form** -/
theorem arrayFromFile_generated (text : Str) : Gen.FileIO.arrayFromFile text = arrayFromFileSpec text := by
  unfold Gen.FileIO.arrayFromFile arrayFromFileSpec openText
  generalize linesOf (univNL text) = ls
  simp only [readline_eq]
  have hw := whileStartsWith_hash (fun line => strip (List.drop 1 line)) ls []
  simp only [List.nil_append] at hw
  rw [hw]
  simp only [lineAt, List.drop_zero]
  have hcm : (fun line => strip (List.drop 1 line)) = commentOf := rfl
  rw [hcm]
  generalize ls.dropWhile startsHash = rest
  cases hh : (splitWs (rest.headD [])).mapM parseInt with
  | none => rfl
  | some shape =>
    simp only [Option.bind_some]
    by_cases hs : shape = []
    · simp [hs, npProdCount]
    · simp only [npProdCount, if_neg hs, Option.bind_some, fromfileText, reshape, List.length_take]
      generalize splitWs (rest.drop 1).flatten = toks
      by_cases hlt : toks.length < prodL shape
      · have : ¬ (min (prodL shape) toks.length = prodL shape) := by omega
        simp only [if_pos hlt, if_neg this]; rfl
      · have : min (prodL shape) toks.length = prodL shape := by omega
        simp only [if_neg hlt, if_pos this]; rfl

end DadiVerif.FileFormat
