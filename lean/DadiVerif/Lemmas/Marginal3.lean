import DadiVerif.Lemmas.Pivots
import DadiVerif.Lemmas.Bridge
import Mathlib.Data.Fintype.Pi
import Mathlib.Algebra.BigOperators.Fin
/-!
# Isolated marginals (C04), part 3: the generic theorem — any d ≤ 5, any subset S of the populations, one common grid

Multi-indices of the d-dimensional grid are functions `f : GIdx d xs = Fin d → Fin xs.size`; `idxL f : List ℕ` is the model's
multi-index, `idxS inS f` its restriction to the axes with `inS p = true` (a multi-index of the S-system, axes renumbered in order).
Every valid S-index is `idxS inS f0` for some `f0`, so the invariant quantifies over `f0`:

  `MargInv xs inS d T U := ∀ f0, NonCornerS inS f0 → ∑ f, wS inS f0 f * T (idxL f) = U (idxS inS f0)`

where `wS inS f0 f` = (product of the trapezoid weights `gridW xs (f p)` over the axes p ∉ S) if `f` agrees with `f0` on S, else 0,
and `NonCornerS` excludes the all-zero and the all-(N−1) S-index.

* `margInv_axis_in`, `margInv_axis_out`, `margInv_inject` : one kernel sweep along an axis in S / outside S, one injection,
* `margInv_step`        : `sweepFn (replicate d xs) …` vs `sweepFn (replicate |S| xs) …`,
* `margInv_integrate`, `margInv_integrateFn` : whole integrations (constant / time-dependent parameters),
* `margInv_integrate_nd` : the same for the tabulated arrays `integrateConst (sweep …)` (via `Lemmas/Bridge.lean`).

Hypotheses on the populations of S (`SPopsOk`): γ = 0, no immigration (`ms = 0`), same ν, same drift function, same frozen flag in
both systems; `hon`: same injection switch.  Populations outside S are arbitrary (selection, immigration — also from S); only the
non-vanishing of their Thomas pivots is assumed (`hC`; see `Lemmas/Pivots.lean` for sufficient conditions).  The pivots of the
S-populations are discharged by `axisLine_pivotsOk_nomig`.  d ≤ 5 because the generated injection formulas exist for d ≤ 5.
-/
namespace DadiVerif
open Gen Finset

/-! ### 0. generic list / sum lemmas -/

theorem insertIdx_eraseIdx_eq_set {α : Type} : ∀ (l : List α) (a : ℕ) (x : α), a < l.length →
    (l.eraseIdx a).insertIdx a x = l.set a x
  | [], _, _, h => by simp at h
  | _ :: _, 0, _, _ => by simp
  | y :: ys, a + 1, x, h => by
      simp only [List.eraseIdx_cons_succ, List.insertIdx_succ_cons, List.set_cons_succ]
      rw [insertIdx_eraseIdx_eq_set ys a x (by simpa using h)]

theorem zipWith_replicate_eq_map {α β γ : Type} (g : α → β → γ) (x : α) : ∀ (n : ℕ) (l : List β), l.length ≤ n →
    List.zipWith g (List.replicate n x) l = l.map (g x)
  | _, [], _ => by simp
  | 0, _ :: _, h => by simp at h
  | n + 1, y :: ys, h => by
      simp only [List.replicate_succ, List.zipWith_cons_cons, List.map_cons]
      rw [zipWith_replicate_eq_map g x n ys (by simpa using h)]

/-- with the same grid on every axis the other-coordinates of a line are just the grid values of the other indices -/
theorem otherCoords_replicate (xs : Array ℚ) (m a : ℕ) (i : List ℕ) (ha : a < m) (hi : i.length + 1 = m) :
    otherCoords (List.replicate m xs) a i = i.map (fun j => xs.getD j 0) := by
  unfold otherCoords
  rw [List.eraseIdx_replicate, if_pos ha]
  exact zipWith_replicate_eq_map _ xs (m - 1) i (by omega)

theorem getD_replicate (xs : Array ℚ) (m a : ℕ) (ha : a < m) : (List.replicate m xs).getD a #[] = xs := by
  simp [List.getD_eq_getElem?_getD, ha]

theorem all_map_eq (l : List ℕ) (g : ℕ → ℚ) (c : ℚ) : ((l.map g).all (· == c) = true) ↔ ∀ x ∈ l, g x = c := by
  simp [List.all_eq_true]

theorem sum_subtype_ne_zero {κ : Type} [Fintype κ] (W F : κ → ℚ) :
    ∑ k, W k * F k = ∑ k : {k // W k ≠ 0}, W k.1 * F k.1 := by
  rw [← Finset.sum_subtype (Finset.univ.filter (fun k => W k ≠ 0)) (by simp) (fun k => W k * F k)]
  symm
  apply Finset.sum_filter_of_ne
  intro k _ h hW
  exact h (by rw [hW, zero_mul])

/-! ### 1. Theorems A and B with hypotheses only on the lines of non-zero weight, grid given explicitly -/

theorem marginal_stepAxisFn_in_S_supp {σ κ : Type} [Fintype κ] (W : κ → ℚ) (xs : Array ℚ)
    (gridsD gridsS : List (Array ℚ)) (aD aS : ℕ)
    (Pd Ps : AxisParams) (used uses : Bool) (epsD epsS : List ℕ → ℕ → ℚ) (dt : ℚ)
    (eD : σ → κ → List ℕ) (eS : σ → List ℕ) (T U : List ℕ → ℚ)
    (hgD : gridsD.getD aD #[] = xs) (hgS : gridsS.getD aS #[] = xs)
    (haD : ∀ s k, W k ≠ 0 → aD ≤ (eD s k).length) (haS : ∀ s, aS ≤ (eS s).length)
    (hN : 3 ≤ xs.size) (hx0 : xs.getD 0 0 = 0) (hx1 : xs.getD (xs.size - 1) 0 = 1)
    (hgd : Pd.gamma = 0) (hmd : ∀ m ∈ Pd.ms, m = 0) (hgs : Ps.gamma = 0) (hms : ∀ m ∈ Ps.ms, m = 0)
    (hnu : Pd.nu = Ps.nu) (hV : ∀ u, Pd.V u = Ps.V u)
    (hZ : ∀ s k, W k ≠ 0 → (otherCoords gridsD aD (eD s k)).all (· == 0) = true → (otherCoords gridsS aS (eS s)).all (· == 0) = true)
    (hO : ∀ s k, W k ≠ 0 → (otherCoords gridsD aD (eD s k)).all (· == 1) = true → (otherCoords gridsS aS (eS s)).all (· == 1) = true)
    (hpd : ∀ s k, W k ≠ 0 → PivotsOk 1 0 ((axisLine xs Pd (otherCoords gridsD aD (eD s k)) used (epsD (eD s k)) dt).rows
      (fun j => T ((eD s k).insertIdx aD j))))
    (hps : ∀ s, PivotsOk 1 0 ((axisLine xs Ps (otherCoords gridsS aS (eS s)) uses (epsS (eS s)) dt).rows
      (fun j => U ((eS s).insertIdx aS j))))
    (hinv : MargAgree xs.size (fun s => otherCoords gridsS aS (eS s))
      (fun s j => ∑ k, W k * T ((eD s k).insertIdx aD j)) (fun s j => U ((eS s).insertIdx aS j))) :
    MargAgree xs.size (fun s => otherCoords gridsS aS (eS s))
      (fun s j => ∑ k, W k * stepAxisFn gridsD aD Pd used epsD dt T ((eD s k).insertIdx aD j))
      (fun s j => stepAxisFn gridsS aS Ps uses epsS dt U ((eS s).insertIdx aS j)) := by
  subst hgS
  have hgD' := hgD
  have res := marginal_stepAxisFn_in_S (σ := σ) (κ := {k // W k ≠ 0}) (fun k => W k.1) gridsD gridsS aD aS Pd Ps used uses
    epsD epsS dt (fun s k => eD s k.1) eS T U hgD (fun s k => haD s k.1 k.2) haS hN hx0 hx1 hgd hmd hgs hms hnu hV
    (fun s k => hZ s k.1 k.2) (fun s k => hO s k.1 k.2) (fun s k => by rw [hgD]; exact hpd s k.1 k.2) hps
    (fun s j hj hnc => by
      have := hinv s j hj hnc
      simp only at this ⊢
      rw [← sum_subtype_ne_zero W (fun k => T ((eD s k).insertIdx aD j))]
      exact this)
  intro s j hj hnc
  have := res s j hj hnc
  simp only at this ⊢
  rw [sum_subtype_ne_zero W (fun k => stepAxisFn gridsD aD Pd used epsD dt T ((eD s k).insertIdx aD j))]
  exact this

theorem marginal_stepAxisFn_outside_S_supp {κ' : Type} [Fintype κ'] (W' : κ' → ℚ) (xs : Array ℚ)
    (gridsD : List (Array ℚ)) (b : ℕ) (hgb : gridsD.getD b #[] = xs) (hg : GridOk xs)
    (P : AxisParams) (use : Bool) (eps : List ℕ → ℕ → ℚ) (dt : ℚ) (hdt : dt ≠ 0) (eD : κ' → List ℕ) (T : List ℕ → ℚ)
    (hb : ∀ k, W' k ≠ 0 → b ≤ (eD k).length)
    (hnc : ∀ k, W' k ≠ 0 → (otherCoords gridsD b (eD k)).all (· == 0) = false ∧ (otherCoords gridsD b (eD k)).all (· == 1) = false)
    (hp : ∀ k, W' k ≠ 0 → PivotsOk 1 0 ((axisLine xs P (otherCoords gridsD b (eD k)) use (eps (eD k)) dt).rows
      (fun j => T ((eD k).insertIdx b j)))) :
    ∑ k, W' k * ∑ j ∈ range xs.size, gridW xs j * stepAxisFn gridsD b P use eps dt T ((eD k).insertIdx b j)
      = ∑ k, W' k * ∑ j ∈ range xs.size, gridW xs j * T ((eD k).insertIdx b j) := by
  subst hgb
  refine Finset.sum_congr rfl (fun k _ => ?_)
  by_cases hW : W' k = 0
  · rw [hW, zero_mul, zero_mul]
  congr 1
  simp only [stepAxisFn_insertIdx _ _ _ _ _ _ _ _ _ (hb k hW)]
  exact stepFam_line_conserved
    (fun i : List ℕ => axisLine (gridsD.getD b #[]) P (otherCoords gridsD b i) use (eps i) dt)
    (fun i j' => T (i.insertIdx b j')) (eD k) hdt
    (weights_ne_zero (gridsD.getD b #[]) hg P _ use _ dt) (hp k hW)
    (axisLine_bc_noncorner (gridsD.getD b #[]) P _ use _ dt (hnc k hW).1 (hnc k hW).2)
/-! ### 2. multi-indices as functions -/

/-- a valid multi-index of the d-dimensional grid `xs^d` -/
abbrev GIdx (d : ℕ) (xs : Array ℚ) := Fin d → Fin xs.size

variable {d : ℕ} {xs : Array ℚ}

/-- value at position p (0 outside) -/
def fv (f : GIdx d xs) (p : ℕ) : ℕ := if h : p < d then (f ⟨p, h⟩).val else 0

/-- the multi-index as the model's `List ℕ` -/
def idxL (f : GIdx d xs) : List ℕ := (List.range d).map (fv f)

/-- its restriction to the axes in S, as a multi-index of the S-system -/
def idxS (inS : ℕ → Bool) (f : GIdx d xs) : List ℕ := ((List.range d).filter inS).map (fv f)

theorem fv_fin (f : GIdx d xs) (p : Fin d) : fv f p.val = (f p).val := by
  unfold fv; rw [dif_pos p.2]

theorem fv_update (f : GIdx d xs) (a : Fin d) (j : Fin xs.size) (p : ℕ) :
    fv (Function.update f a j) p = if p = a.val then j.val else fv f p := by
  unfold fv
  by_cases hp : p < d
  · rw [dif_pos hp, dif_pos hp]
    by_cases hpa : p = a.val
    · have : (⟨p, hp⟩ : Fin d) = a := Fin.ext hpa
      rw [if_pos hpa, this, Function.update_self]
    · have : (⟨p, hp⟩ : Fin d) ≠ a := fun h => hpa (by rw [← h])
      rw [if_neg hpa, Function.update_of_ne this]
  · rw [dif_neg hp, dif_neg hp, if_neg (by have := a.2; omega)]

theorem idxL_length (f : GIdx d xs) : (idxL f).length = d := by simp [idxL]

theorem idxL_set (f : GIdx d xs) (a : Fin d) (j : Fin xs.size) :
    ((idxL f).eraseIdx a.val).insertIdx a.val j.val = idxL (Function.update f a j) := by
  rw [insertIdx_eraseIdx_eq_set _ _ _ (by rw [idxL_length]; exact a.2)]
  apply List.ext_getElem
  · simp [idxL]
  · intro n h1 h2
    simp only [idxL, List.getElem_set, List.getElem_map, List.getElem_range, fv_update]
    by_cases h : a.val = n
    · rw [if_pos h, if_pos h.symm]
    · rw [if_neg h, if_neg (fun e => h e.symm)]

theorem filter_range_nodup (inS : ℕ → Bool) (d : ℕ) : ((List.range d).filter inS).Nodup :=
  (List.nodup_range).filter _

theorem idxS_length (inS : ℕ → Bool) (f : GIdx d xs) : (idxS inS f).length = ((List.range d).filter inS).length := by
  simp [idxS]

/-- S-axis `i` is d-axis `a` -/
def IsAxis (inS : ℕ → Bool) (d i a : ℕ) : Prop := ((List.range d).filter inS)[i]? = some a

theorem IsAxis.lt {inS : ℕ → Bool} {d i a : ℕ} (h : IsAxis inS d i a) : i < ((List.range d).filter inS).length := by
  unfold IsAxis at h
  by_contra hc
  rw [List.getElem?_eq_none (by omega)] at h
  simp at h

theorem IsAxis.getElem {inS : ℕ → Bool} {d i a : ℕ} (h : IsAxis inS d i a) : ((List.range d).filter inS)[i]'h.lt = a := by
  have := h
  unfold IsAxis at this
  rw [List.getElem?_eq_getElem h.lt] at this
  exact Option.some.inj this

theorem IsAxis.mem {inS : ℕ → Bool} {d i a : ℕ} (h : IsAxis inS d i a) : a < d ∧ inS a = true := by
  have hm : a ∈ (List.range d).filter inS := by rw [← h.getElem]; exact List.getElem_mem _
  rw [List.mem_filter, List.mem_range] at hm
  exact hm

theorem idxS_set (inS : ℕ → Bool) (f : GIdx d xs) (i : ℕ) (a : Fin d) (hia : IsAxis inS d i a.val) (j : Fin xs.size) :
    ((idxS inS f).eraseIdx i).insertIdx i j.val = idxS inS (Function.update f a j) := by
  rw [insertIdx_eraseIdx_eq_set _ _ _ (by rw [idxS_length]; exact hia.lt)]
  apply List.ext_getElem
  · simp [idxS]
  · intro n h1 h2
    have hn : n < ((List.range d).filter inS).length := by simpa [idxS] using h2
    simp only [idxS, List.getElem_set, List.getElem_map, fv_update]
    by_cases h : i = n
    · subst h
      rw [if_pos rfl, if_pos hia.getElem]
    · rw [if_neg h, if_neg]
      intro e
      apply h
      have := (filter_range_nodup inS d).getElem_inj_iff (hi := hia.lt) (hj := hn)
      exact this.mp (by rw [hia.getElem, e])

/-- ∀ over the entries of the d-index other than position a -/
theorem forall_mem_idxL_erase (f : GIdx d xs) (a : Fin d) (P : ℕ → Prop) :
    (∀ x ∈ (idxL f).eraseIdx a.val, P x) ↔ ∀ p : Fin d, p ≠ a → P (f p).val := by
  constructor
  · intro h p hp
    apply h
    rw [List.mem_eraseIdx_iff_getElem]
    refine ⟨p.val, by rw [idxL_length]; exact p.2, fun e => hp (Fin.ext e), ?_⟩
    simp [idxL, fv_fin]
  · intro h x hx
    rw [List.mem_eraseIdx_iff_getElem] at hx
    obtain ⟨n, hn, hne, rfl⟩ := hx
    have hn' : n < d := by rwa [idxL_length] at hn
    have := h ⟨n, hn'⟩ (fun e => hne (by rw [← e]))
    simpa [idxL, fv, hn'] using this

/-- ∀ over the entries of the S-index other than S-position i (= d-axis a) -/
theorem forall_mem_idxS_erase (inS : ℕ → Bool) (f : GIdx d xs) (i : ℕ) (a : Fin d) (hia : IsAxis inS d i a.val) (P : ℕ → Prop) :
    (∀ x ∈ (idxS inS f).eraseIdx i, P x) ↔ ∀ p : Fin d, inS p.val = true → p ≠ a → P (f p).val := by
  constructor
  · intro h p hpS hp
    apply h
    rw [List.mem_eraseIdx_iff_getElem]
    have hm : p.val ∈ (List.range d).filter inS := by
      rw [List.mem_filter, List.mem_range]; exact ⟨p.2, hpS⟩
    obtain ⟨n, hn, hnp⟩ := List.mem_iff_getElem.mp hm
    refine ⟨n, by rw [idxS_length]; exact hn, ?_, ?_⟩
    · intro e
      subst e
      apply hp
      apply Fin.ext
      rw [← hnp, hia.getElem]
    · simp only [idxS, List.getElem_map, hnp, fv_fin]
  · intro h x hx
    rw [List.mem_eraseIdx_iff_getElem] at hx
    obtain ⟨n, hn, hne, rfl⟩ := hx
    have hn' : n < ((List.range d).filter inS).length := by rwa [idxS_length] at hn
    have hm : ((List.range d).filter inS)[n] ∈ (List.range d).filter inS := List.getElem_mem _
    rw [List.mem_filter, List.mem_range] at hm
    have := h ⟨_, hm.1⟩ hm.2 (fun e => hne (by
      have e' : ((List.range d).filter inS)[n] = a.val := by rw [← e]
      have := (filter_range_nodup inS d).getElem_inj_iff (hi := hn') (hj := hia.lt)
      exact this.mp (by rw [e', hia.getElem])))
    simpa [idxS, fv, hm.1] using this



variable {d : ℕ} {xs : Array ℚ}

/-! ### 3. the invariant -/

/-- product of the trapezoid weights of the coordinates outside S -/
def wC (inS : ℕ → Bool) (f : GIdx d xs) : ℚ := ∏ p : Fin d, if inS p.val = true then 1 else gridW xs (f p).val

/-- weight of the d-index `f` in the marginal at the S-index of `f0`: 0 unless `f` restricts to the same S-index -/
def wS (inS : ℕ → Bool) (f0 f : GIdx d xs) : ℚ :=
  if (∀ p : Fin d, inS p.val = true → f p = f0 p) then wC inS f else 0

/-- the S-index of `f` is neither the all-zero nor the all-(N−1) index -/
def NonCornerS (inS : ℕ → Bool) (f : GIdx d xs) : Prop :=
  ¬(∀ p : Fin d, inS p.val = true → (f p).val = 0) ∧ ¬(∀ p : Fin d, inS p.val = true → (f p).val + 1 = xs.size)

/-- **the invariant**: at every non-corner index of the S-grid the trapezoid marginal of the d-dimensional density `T` over all
    coordinates outside S equals the S-dimensional density `U` -/
def MargInv (xs : Array ℚ) (inS : ℕ → Bool) (d : ℕ) (T U : List ℕ → ℚ) : Prop :=
  ∀ f0 : GIdx d xs, NonCornerS inS f0 → ∑ f : GIdx d xs, wS inS f0 f * T (idxL f) = U (idxS inS f0)

/-! ### 4. re-indexing sums over multi-indices -/

theorem sum_update_reindex (G : GIdx d xs → ℚ) (a : Fin d) (j z : Fin xs.size) :
    ∑ f : GIdx d xs, (if f a = j then G f else 0) = ∑ k : GIdx d xs, (if k a = z then G (Function.update k a j) else 0) := by
  rw [← Finset.sum_filter, ← Finset.sum_filter]
  refine Finset.sum_nbij' (fun f => Function.update f a z) (fun k => Function.update k a j) ?_ ?_ ?_ ?_ ?_
  · intro f _; simp
  · intro k _; simp
  · intro f hf
    have hf' : f a = j := by simpa using hf
    simp only [Function.update_idem]
    rw [← hf', Function.update_eq_self]
  · intro k hk
    have hk' : k a = z := by simpa using hk
    simp only [Function.update_idem]
    rw [← hk', Function.update_eq_self]
  · intro f hf
    have hf' : f a = j := by simpa using hf
    simp only [Function.update_idem]
    rw [← hf', Function.update_eq_self]

theorem sum_split_coord (G : GIdx d xs → ℚ) (b : Fin d) (z : Fin xs.size) :
    ∑ f : GIdx d xs, G f = ∑ k : GIdx d xs, (if k b = z then ∑ j : Fin xs.size, G (Function.update k b j) else 0) := by
  have h1 : ∑ f : GIdx d xs, G f = ∑ f : GIdx d xs, ∑ j : Fin xs.size, (if f b = j then G f else 0) := by
    refine Finset.sum_congr rfl (fun f _ => ?_)
    rw [Finset.sum_ite_eq]; simp
  rw [h1, Finset.sum_comm]
  simp only [sum_update_reindex G b _ z]
  rw [Finset.sum_comm]
  refine Finset.sum_congr rfl (fun k _ => ?_)
  by_cases hk : k b = z
  · simp [hk]
  · simp [hk]

theorem wC_update_inS (inS : ℕ → Bool) (k : GIdx d xs) (a : Fin d) (ha : inS a.val = true) (j : Fin xs.size) :
    wC inS (Function.update k a j) = wC inS k := by
  unfold wC
  refine Finset.prod_congr rfl (fun p _ => ?_)
  by_cases hp : p = a
  · subst hp; rw [if_pos ha, if_pos ha]
  · rw [Function.update_of_ne hp]

/-- weights of the d-lines above the S-line through `f0` along the S-axis `a` (the a-coordinate of `k` is pinned to `z`) -/
def WA (inS : ℕ → Bool) (f0 : GIdx d xs) (a : Fin d) (z : Fin xs.size) (k : GIdx d xs) : ℚ :=
  if k a = z then (if (∀ p : Fin d, inS p.val = true → p ≠ a → k p = f0 p) then wC inS k else 0) else 0

theorem sum_wS_eq_WA (inS : ℕ → Bool) (f0 : GIdx d xs) (a : Fin d) (ha : inS a.val = true) (j z : Fin xs.size) (T : List ℕ → ℚ) :
    ∑ f : GIdx d xs, wS inS (Function.update f0 a j) f * T (idxL f)
      = ∑ k : GIdx d xs, WA inS f0 a z k * T (idxL (Function.update k a j)) := by
  have h1 : ∀ f : GIdx d xs, wS inS (Function.update f0 a j) f * T (idxL f)
      = if f a = j then wS inS (Function.update f0 a j) f * T (idxL f) else 0 := by
    intro f
    by_cases hf : f a = j
    · rw [if_pos hf]
    · rw [if_neg hf]
      unfold wS
      rw [if_neg, zero_mul]
      intro h
      apply hf
      rw [h a ha, Function.update_self]
  rw [Finset.sum_congr rfl (fun f _ => h1 f), sum_update_reindex _ a j z]
  refine Finset.sum_congr rfl (fun k _ => ?_)
  unfold WA
  by_cases hk : k a = z
  · rw [if_pos hk, if_pos hk]
    congr 1
    unfold wS
    rw [wC_update_inS inS k a ha j]
    have : (∀ p : Fin d, inS p.val = true → Function.update k a j p = Function.update f0 a j p)
        ↔ (∀ p : Fin d, inS p.val = true → p ≠ a → k p = f0 p) := by
      constructor
      · intro h p hp hpa
        have := h p hp
        rwa [Function.update_of_ne hpa, Function.update_of_ne hpa] at this
      · intro h p hp
        by_cases hpa : p = a
        · subst hpa; rw [Function.update_self, Function.update_self]
        · rw [Function.update_of_ne hpa, Function.update_of_ne hpa]; exact h p hp hpa
    simp only [this]
  · rw [if_neg hk, if_neg hk, zero_mul]

/-- weights of the d-lines along the non-S axis `b` above the S-index of `f0` (the b-coordinate of `k` is pinned to `z`) -/
def WB (inS : ℕ → Bool) (f0 : GIdx d xs) (b : Fin d) (z : Fin xs.size) (k : GIdx d xs) : ℚ :=
  if k b = z then
    (if (∀ p : Fin d, inS p.val = true → k p = f0 p) then
      ∏ p ∈ Finset.univ \ {b}, (if inS p.val = true then 1 else gridW xs (k p).val) else 0)
  else 0

theorem wS_update_notS (inS : ℕ → Bool) (f0 k : GIdx d xs) (b : Fin d) (hb : inS b.val = false) (j : Fin xs.size) :
    wS inS f0 (Function.update k b j)
      = (if (∀ p : Fin d, inS p.val = true → k p = f0 p) then
          ∏ p ∈ Finset.univ \ {b}, (if inS p.val = true then 1 else gridW xs (k p).val) else 0) * gridW xs j.val := by
  unfold wS
  have hag : (∀ p : Fin d, inS p.val = true → Function.update k b j p = f0 p) ↔ (∀ p : Fin d, inS p.val = true → k p = f0 p) := by
    constructor
    · intro h p hp
      have hpb : p ≠ b := fun e => by rw [e, hb] at hp; exact Bool.noConfusion hp
      have := h p hp
      rwa [Function.update_of_ne hpb] at this
    · intro h p hp
      have hpb : p ≠ b := fun e => by rw [e, hb] at hp; exact Bool.noConfusion hp
      rw [Function.update_of_ne hpb]; exact h p hp
  simp only [hag]
  by_cases h : ∀ p : Fin d, inS p.val = true → k p = f0 p
  · rw [if_pos h, if_pos h]
    unfold wC
    have e : (fun p : Fin d => if inS p.val = true then (1:ℚ) else gridW xs (Function.update k b j p).val)
        = Function.update (fun p : Fin d => if inS p.val = true then (1:ℚ) else gridW xs (k p).val) b (gridW xs j.val) := by
      funext p
      by_cases hp : p = b
      · subst hp
        rw [Function.update_self, Function.update_self, if_neg (by rw [hb]; exact Bool.false_ne_true)]
      · rw [Function.update_of_ne hp, Function.update_of_ne hp]
    rw [e, Finset.prod_update_of_mem (Finset.mem_univ b)]
    ring
  · rw [if_neg h, if_neg h, zero_mul]

theorem sum_wS_eq_WB (inS : ℕ → Bool) (f0 : GIdx d xs) (b : Fin d) (hb : inS b.val = false) (z : Fin xs.size) (T : List ℕ → ℚ) :
    ∑ f : GIdx d xs, wS inS f0 f * T (idxL f)
      = ∑ k : GIdx d xs, WB inS f0 b z k * ∑ j : Fin xs.size, gridW xs j.val * T (idxL (Function.update k b j)) := by
  rw [sum_split_coord (fun f => wS inS f0 f * T (idxL f)) b z]
  refine Finset.sum_congr rfl (fun k _ => ?_)
  unfold WB
  by_cases hk : k b = z
  · rw [if_pos hk, if_pos hk, Finset.mul_sum]
    refine Finset.sum_congr rfl (fun j _ => ?_)
    rw [wS_update_notS inS f0 k b hb j]
    ring
  · rw [if_neg hk, if_neg hk, zero_mul]



/-! ### 5. corners of the S-grid in terms of frequencies -/

theorem grid_zero_iff (hg : GridOk xs) (hx0 : xs.getD 0 0 = 0) (i : Fin xs.size) : xs.getD i.val 0 = 0 ↔ i.val = 0 := by
  constructor
  · intro h
    by_contra hne
    have := hg.strictMono i.val 0 (Nat.pos_of_ne_zero hne) i.2
    rw [hx0, h] at this
    exact lt_irrefl _ this
  · intro h; rw [h]; exact hx0

theorem grid_one_iff (hg : GridOk xs) (hx1 : xs.getD (xs.size - 1) 0 = 1) (i : Fin xs.size) :
    xs.getD i.val 0 = 1 ↔ i.val + 1 = xs.size := by
  constructor
  · intro h
    by_contra hne
    have := hg.strictMono (xs.size - 1) i.val (by have := i.2; omega) (by have := i.2; omega)
    rw [hx1, h] at this
    exact lt_irrefl _ this
  · intro h
    have : i.val = xs.size - 1 := by omega
    rw [this]; exact hx1

/-- the other-coordinates of the S-line through `f0` along S-axis `i` (= d-axis `a`) are all `c` iff … -/
theorem cs_all_iff (inS : ℕ → Bool) (f0 : GIdx d xs) (i : ℕ) (a : Fin d) (hia : IsAxis inS d i a.val) (c : ℚ) :
    ((otherCoords (List.replicate ((List.range d).filter inS).length xs) i ((idxS inS f0).eraseIdx i)).all (· == c) = true)
      ↔ ∀ p : Fin d, inS p.val = true → p ≠ a → xs.getD (f0 p).val 0 = c := by
  rw [otherCoords_replicate xs _ i _ hia.lt (by
    rw [List.length_eraseIdx, idxS_length, if_pos hia.lt]; have := hia.lt; omega)]
  rw [all_map_eq]
  exact forall_mem_idxS_erase inS f0 i a hia (fun x => xs.getD x 0 = c)

/-- the other-coordinates of the d-line through `k` along d-axis `a` are all `c` iff … -/
theorem others_all_iff (k : GIdx d xs) (a : Fin d) (c : ℚ) :
    ((otherCoords (List.replicate d xs) a.val ((idxL k).eraseIdx a.val)).all (· == c) = true)
      ↔ ∀ p : Fin d, p ≠ a → xs.getD (k p).val 0 = c := by
  rw [otherCoords_replicate xs d a.val _ a.2 (by
    rw [List.length_eraseIdx, idxL_length, if_pos a.2]; have := a.2; omega)]
  rw [all_map_eq]
  exact forall_mem_idxL_erase k a (fun x => xs.getD x 0 = c)

theorem nonCornerS_update_of (hg : GridOk xs) (hx0 : xs.getD 0 0 = 0) (hx1 : xs.getD (xs.size - 1) 0 = 1)
    (inS : ℕ → Bool) (f0 : GIdx d xs) (i : ℕ) (a : Fin d) (hia : IsAxis inS d i a.val) (j : Fin xs.size)
    (h : NonCornerAt (otherCoords (List.replicate ((List.range d).filter inS).length xs) i ((idxS inS f0).eraseIdx i))
      xs.size j.val) : NonCornerS inS (Function.update f0 a j) := by
  constructor
  · intro hall
    apply h.1
    refine ⟨(cs_all_iff inS f0 i a hia 0).mpr (fun p hp hpa => ?_), ?_⟩
    · have := hall p hp
      rw [Function.update_of_ne hpa] at this
      exact (grid_zero_iff hg hx0 _).mpr this
    · have := hall a hia.mem.2
      rwa [Function.update_self] at this
  · intro hall
    apply h.2
    refine ⟨(cs_all_iff inS f0 i a hia 1).mpr (fun p hp hpa => ?_), ?_⟩
    · have := hall p hp
      rw [Function.update_of_ne hpa] at this
      exact (grid_one_iff hg hx1 _).mpr this
    · have := hall a hia.mem.2
      rwa [Function.update_self] at this

theorem nonCornerAt_of_nonCornerS (hg : GridOk xs) (hx0 : xs.getD 0 0 = 0) (hx1 : xs.getD (xs.size - 1) 0 = 1)
    (inS : ℕ → Bool) (f0 : GIdx d xs) (i : ℕ) (a : Fin d) (hia : IsAxis inS d i a.val) (h : NonCornerS inS f0) :
    NonCornerAt (otherCoords (List.replicate ((List.range d).filter inS).length xs) i ((idxS inS f0).eraseIdx i))
      xs.size (f0 a).val := by
  constructor
  · rintro ⟨hall, ha0⟩
    apply h.1
    intro p hp
    by_cases hpa : p = a
    · rw [hpa]; exact ha0
    · exact (grid_zero_iff hg hx0 _).mp ((cs_all_iff inS f0 i a hia 0).mp hall p hp hpa)
  · rintro ⟨hall, ha1⟩
    apply h.2
    intro p hp
    by_cases hpa : p = a
    · rw [hpa]; exact ha1
    · exact (grid_one_iff hg hx1 _).mp ((cs_all_iff inS f0 i a hia 1).mp hall p hp hpa)



/-! ### 6. one kernel sweep preserves the invariant -/

theorem WA_ne_zero {inS : ℕ → Bool} {f0 : GIdx d xs} {a : Fin d} {z : Fin xs.size} {k : GIdx d xs} (h : WA inS f0 a z k ≠ 0) :
    ∀ p : Fin d, inS p.val = true → p ≠ a → k p = f0 p := by
  unfold WA at h
  by_cases h1 : k a = z
  · rw [if_pos h1] at h
    by_cases h2 : ∀ p : Fin d, inS p.val = true → p ≠ a → k p = f0 p
    · exact h2
    · rw [if_neg h2] at h; exact absurd rfl h
  · rw [if_neg h1] at h; exact absurd rfl h

/-- sweep along an axis of S (S-axis `i` = d-axis `a`) -/
theorem margInv_axis_in (xs : Array ℚ) (hg : GridOk xs) (hN : 3 ≤ xs.size) (hx0 : xs.getD 0 0 = 0)
    (hx1 : xs.getD (xs.size - 1) 0 = 1) (inS : ℕ → Bool) (d i a : ℕ) (hia : IsAxis inS d i a)
    (Pd Ps : AxisParams) (hgd : Pd.gamma = 0) (hmd : ∀ m ∈ Pd.ms, m = 0) (hgs : Ps.gamma = 0) (hms : ∀ m ∈ Ps.ms, m = 0)
    (hnu : Pd.nu = Ps.nu) (hV : ∀ u, Pd.V u = Ps.V u) (used uses : Bool) (epsD epsS : List ℕ → ℕ → ℚ) (dt : ℚ)
    (hpd : ∀ ys eps φ, PivotsOk 1 0 ((axisLine xs Pd ys used eps dt).rows φ))
    (hps : ∀ ys eps φ, PivotsOk 1 0 ((axisLine xs Ps ys uses eps dt).rows φ))
    (T U : List ℕ → ℚ) (h : MargInv xs inS d T U) :
    MargInv xs inS d (stepAxisFn (List.replicate d xs) a Pd used epsD dt T)
      (stepAxisFn (List.replicate ((List.range d).filter inS).length xs) i Ps uses epsS dt U) := by
  intro f0 hnc
  have hpos : 0 < xs.size := by omega
  let a' : Fin d := ⟨a, hia.mem.1⟩
  let z : Fin xs.size := ⟨0, hpos⟩
  have hia' : IsAxis inS d i a'.val := hia
  have haS : inS a'.val = true := hia.mem.2
  have res := marginal_stepAxisFn_in_S_supp (σ := Unit) (κ := GIdx d xs) (WA inS f0 a' z) xs
    (List.replicate d xs) (List.replicate ((List.range d).filter inS).length xs) a i Pd Ps used uses epsD epsS dt
    (fun _ k => (idxL k).eraseIdx a) (fun _ => (idxS inS f0).eraseIdx i) T U
    (getD_replicate xs d a hia.mem.1) (getD_replicate xs _ i hia.lt)
    (fun _ k _ => by rw [List.length_eraseIdx, idxL_length, if_pos hia.mem.1]; have := hia.mem.1; omega)
    (fun _ => by rw [List.length_eraseIdx, idxS_length, if_pos hia.lt]; have := hia.lt; omega)
    hN hx0 hx1 hgd hmd hgs hms hnu hV
    (fun _ k hW hall => (cs_all_iff inS f0 i a' hia' 0).mpr (fun p hp hpa => by
      rw [← WA_ne_zero hW p hp hpa]; exact (others_all_iff k a' 0).mp hall p hpa))
    (fun _ k hW hall => (cs_all_iff inS f0 i a' hia' 1).mpr (fun p hp hpa => by
      rw [← WA_ne_zero hW p hp hpa]; exact (others_all_iff k a' 1).mp hall p hpa))
    (fun _ k _ => hpd _ _ _) (fun _ => hps _ _ _)
    (fun _ j hj hnc' => by
      let jj : Fin xs.size := ⟨j, hj⟩
      have e1 : ∀ k : GIdx d xs, ((idxL k).eraseIdx a).insertIdx a j = idxL (Function.update k a' jj) :=
        fun k => idxL_set k a' jj
      have e2 : ((idxS inS f0).eraseIdx i).insertIdx i j = idxS inS (Function.update f0 a' jj) :=
        idxS_set inS f0 i a' hia' jj
      simp only [e1, e2]
      rw [← sum_wS_eq_WA inS f0 a' haS jj z T]
      exact h (Function.update f0 a' jj) (nonCornerS_update_of hg hx0 hx1 inS f0 i a' hia' jj hnc'))
  have := res () (f0 a').val (f0 a').2 (nonCornerAt_of_nonCornerS hg hx0 hx1 inS f0 i a' hia' hnc)
  have e1 : ∀ k : GIdx d xs, ((idxL k).eraseIdx a).insertIdx a (f0 a').val = idxL (Function.update k a' (f0 a')) :=
    fun k => idxL_set k a' (f0 a')
  have e2 : ((idxS inS f0).eraseIdx i).insertIdx i (f0 a').val = idxS inS (Function.update f0 a' (f0 a')) :=
    idxS_set inS f0 i a' hia' (f0 a')
  simp only [e1, e2] at this
  rw [← sum_wS_eq_WA inS f0 a' haS (f0 a') z, Function.update_eq_self] at this
  exact this



theorem WB_ne_zero {inS : ℕ → Bool} {f0 : GIdx d xs} {b : Fin d} {z : Fin xs.size} {k : GIdx d xs} (h : WB inS f0 b z k ≠ 0) :
    ∀ p : Fin d, inS p.val = true → k p = f0 p := by
  unfold WB at h
  by_cases h1 : k b = z
  · rw [if_pos h1] at h
    by_cases h2 : ∀ p : Fin d, inS p.val = true → k p = f0 p
    · exact h2
    · rw [if_neg h2] at h; exact absurd rfl h
  · rw [if_neg h1] at h; exact absurd rfl h

/-- sweep along an axis outside S: the S-system is untouched, the marginal does not change -/
theorem margInv_axis_out (xs : Array ℚ) (hg : GridOk xs) (hx0 : xs.getD 0 0 = 0) (hx1 : xs.getD (xs.size - 1) 0 = 1)
    (inS : ℕ → Bool) (d b : ℕ) (hb : b < d) (hbS : inS b = false)
    (P : AxisParams) (use : Bool) (eps : List ℕ → ℕ → ℚ) (dt : ℚ) (hdt : dt ≠ 0)
    (hp : ∀ ys eps φ, PivotsOk 1 0 ((axisLine xs P ys use eps dt).rows φ))
    (T U : List ℕ → ℚ) (h : MargInv xs inS d T U) :
    MargInv xs inS d (stepAxisFn (List.replicate d xs) b P use eps dt T) U := by
  intro f0 hnc
  have hpos : 0 < xs.size := by have := hg.1; omega
  let b' : Fin d := ⟨b, hb⟩
  let z : Fin xs.size := ⟨0, hpos⟩
  have hbS' : inS b'.val = false := hbS
  have hne : ∀ p : Fin d, inS p.val = true → p ≠ b' := fun p hp e => by
    rw [e, hbS'] at hp; exact Bool.noConfusion hp
  have key := marginal_stepAxisFn_outside_S_supp (κ' := GIdx d xs) (WB inS f0 b' z) xs (List.replicate d xs) b
    (getD_replicate xs d b hb) hg P use eps dt hdt (fun k => (idxL k).eraseIdx b) T
    (fun k _ => by rw [List.length_eraseIdx, idxL_length, if_pos hb]; omega)
    (fun k hW => by
      have hag := WB_ne_zero hW
      constructor
      · rw [Bool.eq_false_iff]
        intro hall
        apply hnc.1
        intro p hp
        have := (others_all_iff k b' 0).mp hall p (hne p hp)
        rw [← hag p hp]
        exact (grid_zero_iff hg hx0 _).mp this
      · rw [Bool.eq_false_iff]
        intro hall
        apply hnc.2
        intro p hp
        have := (others_all_iff k b' 1).mp hall p (hne p hp)
        rw [← hag p hp]
        exact (grid_one_iff hg hx1 _).mp this)
    (fun k _ => hp _ _ _)
  have conv : ∀ (F : List ℕ → ℚ) (k : GIdx d xs),
      ∑ j ∈ range xs.size, gridW xs j * F (((idxL k).eraseIdx b).insertIdx b j)
        = ∑ j : Fin xs.size, gridW xs j.val * F (idxL (Function.update k b' j)) := by
    intro F k
    rw [Finset.sum_range]
    refine Finset.sum_congr rfl (fun j _ => ?_)
    rw [show ((idxL k).eraseIdx b).insertIdx b j.val = idxL (Function.update k b' j) from idxL_set k b' j]
  simp only [conv] at key
  rw [sum_wS_eq_WB inS f0 b' hbS' z, key, ← sum_wS_eq_WB inS f0 b' hbS' z]
  exact h f0 hnc



/-! ### 7. injection -/

/-- the unit multi-index e_p as a function -/
def unitF (h2 : 2 ≤ xs.size) (p : Fin d) : GIdx d xs := fun r => if r = p then ⟨1, by omega⟩ else ⟨0, by omega⟩

theorem idxL_eq_unit_iff (h2 : 2 ≤ xs.size) (f : GIdx d xs) (p : Fin d) :
    idxL f = unitIdx d p.val ↔ f = unitF h2 p := by
  unfold idxL unitIdx
  rw [List.map_inj_left]
  constructor
  · intro h
    funext r
    have := h r.val (List.mem_range.mpr r.2)
    rw [fv_fin] at this
    apply Fin.ext
    unfold unitF
    by_cases hr : r = p
    · rw [if_pos hr]; rw [if_pos (by rw [hr])] at this; exact this
    · rw [if_neg hr]; rw [if_neg (fun e => hr (Fin.ext e))] at this; exact this
  · intro h l hl
    have hl' : l < d := List.mem_range.mp hl
    subst h
    unfold fv unitF
    rw [dif_pos hl']
    by_cases hlp : l = p.val
    · rw [if_pos hlp, if_pos (Fin.ext hlp)]
    · rw [if_neg hlp, if_neg (fun e => hlp (by rw [← e]))]

theorem idxS_eq_unit_iff (h2 : 2 ≤ xs.size) (inS : ℕ → Bool) (f0 : GIdx d xs) (q : ℕ) (p : Fin d) (hqp : IsAxis inS d q p.val) :
    idxS inS f0 = unitIdx ((List.range d).filter inS).length q
      ↔ ∀ r : Fin d, inS r.val = true → unitF h2 p r = f0 r := by
  constructor
  · intro h r hr
    have hm : r.val ∈ (List.range d).filter inS := by
      rw [List.mem_filter, List.mem_range]; exact ⟨r.2, hr⟩
    obtain ⟨n, hn, hnr⟩ := List.mem_iff_getElem.mp hm
    have h1 : (idxS inS f0)[n]'(by rw [idxS_length]; exact hn) = (unitIdx ((List.range d).filter inS).length q)[n]'(by
        simp [unitIdx]; exact hn) := by
      simp only [h]
    simp only [idxS, unitIdx, List.getElem_map, List.getElem_range, hnr, fv_fin] at h1
    apply Fin.ext
    unfold unitF
    have hiff : r = p ↔ n = q := by
      constructor
      · intro e
        have := (filter_range_nodup inS d).getElem_inj_iff (hi := hn) (hj := hqp.lt)
        exact this.mp (by rw [hnr, hqp.getElem, e])
      · intro e
        subst e
        apply Fin.ext
        rw [← hnr, hqp.getElem]
    by_cases hrp : r = p
    · rw [if_pos hrp, h1, if_pos (hiff.mp hrp)]
    · rw [if_neg hrp, h1, if_neg (fun e => hrp (hiff.mpr e))]
  · intro h
    apply List.ext_getElem
    · simp [idxS, unitIdx]
    · intro n h1 h2'
      have hn : n < ((List.range d).filter inS).length := by rwa [idxS_length] at h1
      have hm : ((List.range d).filter inS)[n] ∈ (List.range d).filter inS := List.getElem_mem _
      rw [List.mem_filter, List.mem_range] at hm
      simp only [idxS, unitIdx, List.getElem_map, List.getElem_range]
      have := h ⟨_, hm.1⟩ hm.2
      have hv : fv f0 ((List.range d).filter inS)[n] = (f0 ⟨_, hm.1⟩).val := by
        unfold fv; rw [dif_pos hm.1]
      rw [hv, ← this]
      unfold unitF
      have hiff : ((⟨((List.range d).filter inS)[n], hm.1⟩ : Fin d) = p) ↔ n = q := by
        constructor
        · intro e
          have e' : ((List.range d).filter inS)[n] = p.val := by rw [← e]
          have := (filter_range_nodup inS d).getElem_inj_iff (hi := hn) (hj := hqp.lt)
          exact this.mp (by rw [e', hqp.getElem])
        · intro e
          subst e
          apply Fin.ext
          exact hqp.getElem
      by_cases hnq : n = q
      · rw [if_pos (hiff.mpr hnq), if_pos hnq]
      · rw [if_neg (fun e => hnq (hiff.mp e)), if_neg hnq]

theorem prod_notS (inS : ℕ → Bool) (c : ℚ) : ∀ d : ℕ,
    (∏ r ∈ range d, if inS r = true then 1 else c) * c ^ ((List.range d).filter inS).length = c ^ d := by
  intro d
  induction d with
  | zero => simp
  | succ d ih =>
    rw [Finset.prod_range_succ, List.range_succ, List.filter_append]
    by_cases hd : inS d = true
    · simp only [hd, if_true, List.filter_cons_of_pos, List.filter_nil, List.length_append, List.length_cons, List.length_nil]
      rw [pow_succ, pow_succ, ← ih]; ring
    · simp only [hd, if_false, List.filter_cons_of_neg, Bool.false_eq_true, not_false_eq_true, List.filter_nil,
        List.length_append, List.length_nil, Nat.add_zero]
      rw [pow_succ, ← ih]; ring



/-- with the same grid on every axis the generated increment of any population in the m-population system, times the weight
    (x₁/2)^m of the all-zero index, is the same number for every m ≤ 5 -/
theorem injectAmt_same (xs : Array ℚ) (m k : ℕ) (hm : m ≤ 5) (hk : k < m) (dt θ : ℚ)
    (h1 : xs.getD 1 0 ≠ 0) (h20 : xs.getD 2 0 - xs.getD 0 0 ≠ 0) :
    (injectAmt m k dt θ (fun l j => ((List.replicate m xs).getD l #[]).getD j 0)).getD 0 * (xs.getD 1 0 / 2) ^ m
      = dt * θ / (2 * (xs.getD 2 0 - xs.getD 0 0)) := by
  simp only [Array.getD_eq_getD_getElem?] at h1 h20 ⊢
  interval_cases m <;> interval_cases k <;>
    simp [injectAmt, Py.inject1D_0, Py.inject2D_0, Py.inject2D_1, Py.inject3D_0, Py.inject3D_1, Py.inject3D_2,
        Py.inject4D_0, Py.inject4D_1, Py.inject4D_2, Py.inject4D_3, Py.inject5D_0, Py.inject5D_1, Py.inject5D_2,
        Py.inject5D_3, Py.inject5D_4, List.replicate] <;> field_simp <;> ring



theorem wC_unitF (h2 : 2 ≤ xs.size) (inS : ℕ → Bool) (p : Fin d) (hp : inS p.val = true) :
    wC inS (unitF h2 p) * (gridW xs 0) ^ ((List.range d).filter inS).length = (gridW xs 0) ^ d := by
  rw [← prod_notS inS (gridW xs 0) d, Finset.prod_range]
  congr 1
  unfold wC
  refine Finset.prod_congr rfl (fun r _ => ?_)
  by_cases hr : inS r.val = true
  · rw [if_pos hr, if_pos hr]
  · rw [if_neg hr, if_neg hr]
    have : r ≠ p := fun e => hr (by rw [e]; exact hp)
    unfold unitF
    rw [if_neg this]

/-- mutation injection -/
theorem margInv_inject (xs : Array ℚ) (hg : GridOk xs) (hN : 3 ≤ xs.size) (hx0 : xs.getD 0 0 = 0)
    (inS : ℕ → Bool) (d : ℕ) (hd : d ≤ 5) (frD nmD frS nmS : List Bool)
    (hon : ∀ i a, IsAxis inS d i a →
      injectOn d a frD nmD = injectOn ((List.range d).filter inS).length i frS nmS)
    (dt θ : ℚ) (T U : List ℕ → ℚ) (h : MargInv xs inS d T U) :
    MargInv xs inS d (injectFn (List.replicate d xs) frD nmD dt θ T)
      (injectFn (List.replicate ((List.range d).filter inS).length xs) frS nmS dt θ U) := by
  intro f0 hnc
  have h2 : 2 ≤ xs.size := by omega
  have hx1 : xs.getD 1 0 ≠ 0 := by
    have := hg.2 0 (by omega)
    rw [hx0] at this; exact ne_of_gt this
  have hx20 : xs.getD 2 0 - xs.getD 0 0 ≠ 0 := by
    have a := hg.2 0 (by omega)
    have b := hg.2 1 (by omega)
    have : xs.getD 0 0 < xs.getD 2 0 := lt_trans a b
    exact ne_of_gt (by linarith)
  have hw0 : gridW xs 0 = xs.getD 1 0 / 2 := gridW_zero xs h2 hx0
  have hw0ne : gridW xs 0 ≠ 0 := by rw [hw0]; exact div_ne_zero hx1 (by norm_num)
  unfold injectFn
  simp only [List.length_replicate, mul_add, Finset.sum_add_distrib]
  rw [h f0 hnc, sum_mul_sumL]
  congr 1
  refine sumL_map_reindex inS _ _ (List.range d) ?_ ?_
  · -- populations in S
    intro q hq
    have hqa : IsAxis inS d q ((List.range d).filter inS)[q] := List.getElem?_eq_getElem hq
    set a := ((List.range d).filter inS)[q] with ha
    let p : Fin d := ⟨a, hqa.mem.1⟩
    have hqp : IsAxis inS d q p.val := hqa
    have e1 : ∀ f : GIdx d xs, (idxL f = unitIdx d a) ↔ f = unitF h2 p := fun f => idxL_eq_unit_iff h2 f p
    simp only [e1, hon q a hqa]
    rw [Finset.sum_eq_single (unitF h2 p)]
    · by_cases hc : idxS inS f0 = unitIdx ((List.range d).filter inS).length q
          ∧ injectOn ((List.range d).filter inS).length q frS nmS = true
      · rw [if_pos hc, if_pos ⟨rfl, hc.2⟩]
        unfold wS
        rw [if_pos ((idxS_eq_unit_iff h2 inS f0 q p hqp).mp hc.1)]
        have hA := injectAmt_same xs d a hd hqa.mem.1 dt θ hx1 hx20
        have hB := injectAmt_same xs ((List.range d).filter inS).length q
          (le_trans (by simpa using List.length_filter_le inS (List.range d)) hd) hq dt θ hx1 hx20
        have hW := wC_unitF h2 inS p hqa.mem.2
        rw [← hw0] at hA hB
        have hpow : (gridW xs 0) ^ ((List.range d).filter inS).length ≠ 0 := pow_ne_zero _ hw0ne
        apply mul_right_cancel₀ hpow
        rw [hB, mul_assoc, mul_comm _ (gridW xs 0 ^ _), ← mul_assoc, hW, mul_comm, hA]
      · rw [if_neg hc]
        by_cases hon' : injectOn ((List.range d).filter inS).length q frS nmS = true
        · have hne : ¬ idxS inS f0 = unitIdx ((List.range d).filter inS).length q := fun e => hc ⟨e, hon'⟩
          unfold wS
          rw [if_neg (fun hh => hne ((idxS_eq_unit_iff h2 inS f0 q p hqp).mpr hh)), zero_mul]
        · rw [if_neg (fun hh => hon' hh.2), mul_zero]
    · intro f _ hf
      rw [if_neg (fun hh => hf hh.1), mul_zero]
    · intro hh; exact absurd (Finset.mem_univ _) hh
  · -- populations outside S: their unit index lies above the all-zero corner of the S-grid
    intro a ha hs
    have ha' : a < d := List.mem_range.mp ha
    let p : Fin d := ⟨a, ha'⟩
    have e1 : ∀ f : GIdx d xs, (idxL f = unitIdx d a) ↔ f = unitF h2 p := fun f => idxL_eq_unit_iff h2 f p
    simp only [e1]
    refine Finset.sum_eq_zero (fun f _ => ?_)
    by_cases hf : f = unitF h2 p ∧ injectOn d a frD nmD = true
    · rw [if_pos hf]
      unfold wS
      rw [if_neg, zero_mul]
      intro hag
      apply hnc.1
      intro r hr
      rw [← hag r hr, hf.1]
      unfold unitF
      have : r ≠ p := fun e => by
        have : inS a = true := by rw [e] at hr; exact hr
        rw [hs] at this; exact Bool.noConfusion this
      rw [if_neg this]
    · rw [if_neg hf, mul_zero]



/-! ### 8. one full time step, whole integrations -/

/-- what the populations of S must satisfy: S-axis `i` = d-axis `a` carries populations with the same ν and drift function,
    no selection, no immigration, the same frozen flag in both systems -/
def SPopsOk (inS : ℕ → Bool) (d : ℕ) (frD frS : List Bool) (PD PS : StepParams) : Prop :=
  ∀ i a, IsAxis inS d i a →
    frD.getD a false = frS.getD i false ∧
    ∃ p q, PD.pops[a]? = some p ∧ PS.pops[i]? = some q ∧ p.gamma = 0 ∧ (∀ m ∈ p.ms, m = 0) ∧ q.gamma = 0 ∧ (∀ m ∈ q.ms, m = 0)
      ∧ p.nu = q.nu ∧ 0 < p.nu ∧ ∀ u, (p.axis PD.beta).V u = (q.axis PS.beta).V u

/-- **generic isolated-marginal theorem, one time step**: any number d ≤ 5 of populations on the same grid, any subset S of them
    (`inS`), d-system vs S-system -/
theorem margInv_step (xs : Array ℚ) (hg : GridOk xs) (hN : 3 ≤ xs.size) (hx0 : xs.getD 0 0 = 0)
    (hx1 : xs.getD (xs.size - 1) 0 = 1) (inS : ℕ → Bool) (d : ℕ) (hd : d ≤ 5)
    (frD nmD frS nmS : List Bool) (useD useS : Bool) (epsD epsS : ℕ → List ℕ → ℕ → ℚ) (PD PS : StepParams)
    (hθ : PD.theta0 = PS.theta0)
    (hβD : ∀ β, PD.beta = some β → 0 < β) (hβS : ∀ β, PS.beta = some β → 0 < β)
    (hS : SPopsOk inS d frD frS PD PS)
    (hon : ∀ i a, IsAxis inS d i a → injectOn d a frD nmD = injectOn ((List.range d).filter inS).length i frS nmS)
    (dt : ℚ) (hdt : 0 < dt)
    (hC : ∀ a, a < d → inS a = false → ∀ p, PD.pops[a]? = some p →
      ∀ ys eps φ, PivotsOk 1 0 ((axisLine xs (p.axis PD.beta) ys useD eps dt).rows φ)) :
    ∀ T U, MargInv xs inS d T U →
      MargInv xs inS d (sweepFn (List.replicate d xs) frD nmD useD epsD PD dt T)
        (sweepFn (List.replicate ((List.range d).filter inS).length xs) frS nmS useS epsS PS dt U) := by
  intro T U h
  unfold sweepFn
  simp only [List.length_replicate]
  rw [List.range_eq_range' (n := ((List.range d).filter inS).length)]
  refine marginal_invariant_sweep (MargInv xs inS d) inS _ _ (List.range d) 0 ?_ ?_ _ _ ?_
  · intro i hi T U h
    have hia : IsAxis inS d i ((List.range d).filter inS)[i] := List.getElem?_eq_getElem hi
    obtain ⟨hfr, p, q, hp, hq, hpg, hpm, hqg, hqm, hnu, hnupos, hV⟩ := hS i _ hia
    rw [Nat.zero_add]
    unfold sweepAxisFn
    rw [hfr, hp, hq]
    by_cases hf : frS.getD i false = true
    · rw [if_pos hf, if_pos hf]; exact h
    · rw [if_neg hf, if_neg hf]
      exact margInv_axis_in xs hg hN hx0 hx1 inS d i _ hia (p.axis PD.beta) (q.axis PS.beta) hpg hpm hqg hqm hnu hV
        useD useS _ _ dt
        (fun ys eps φ => axisLine_pivotsOk_nomig xs hg (le_of_eq hx0.symm) (le_of_eq hx1) (p.axis PD.beta) hpg hpm hnupos hβD
          ys useD eps dt hdt φ)
        (fun ys eps φ => axisLine_pivotsOk_nomig xs hg (le_of_eq hx0.symm) (le_of_eq hx1) (q.axis PS.beta) hqg hqm
          (by show 0 < q.nu; rw [← hnu]; exact hnupos) hβS ys useS eps dt hdt φ)
        T U h
  · intro a ha hs T U h
    have ha' : a < d := List.mem_range.mp ha
    unfold sweepAxisFn
    by_cases hf : frD.getD a false = true
    · rw [if_pos hf]; exact h
    · rw [if_neg hf]
      cases hpop : PD.pops[a]? with
      | none => exact h
      | some p =>
        exact margInv_axis_out xs hg hx0 hx1 inS d a ha' hs (p.axis PD.beta) useD _ dt (ne_of_gt hdt)
          (hC a ha' hs p hpop) T U h
  · rw [hθ]
    exact margInv_inject xs hg hN hx0 inS d hd frD nmD frS nmS hon dt _ T U h

/-- **generic isolated-marginal theorem, whole integrations** (constant parameters): both systems take the same positive steps -/
theorem margInv_integrate (xs : Array ℚ) (hg : GridOk xs) (hN : 3 ≤ xs.size) (hx0 : xs.getD 0 0 = 0)
    (hx1 : xs.getD (xs.size - 1) 0 = 1) (inS : ℕ → Bool) (d : ℕ) (hd : d ≤ 5)
    (frD nmD frS nmS : List Bool) (useD useS : Bool) (epsD epsS : ℕ → List ℕ → ℕ → ℚ) (PD PS : StepParams)
    (hθ : PD.theta0 = PS.theta0)
    (hβD : ∀ β, PD.beta = some β → 0 < β) (hβS : ∀ β, PS.beta = some β → 0 < β)
    (hS : SPopsOk inS d frD frS PD PS)
    (hon : ∀ i a, IsAxis inS d i a → injectOn d a frD nmD = injectOn ((List.range d).filter inS).length i frS nmS)
    (tf Tend : ℚ) (hdtEq : stepDt tf PD = stepDt tf PS) (hpos : ∀ dt, stepDt tf PS = some dt → 0 < dt)
    (hC : ∀ dt, 0 < dt → ∀ a, a < d → inS a = false → ∀ p, PD.pops[a]? = some p →
      ∀ ys eps φ, PivotsOk 1 0 ((axisLine xs (p.axis PD.beta) ys useD eps dt).rows φ)) :
    ∀ (fuel : ℕ) (t : ℚ) (T U : List ℕ → ℚ), MargInv xs inS d T U →
      MargInv xs inS d (integrateConst (sweepFn (List.replicate d xs) frD nmD useD epsD) tf PD Tend fuel t T)
        (integrateConst (sweepFn (List.replicate ((List.range d).filter inS).length xs) frS nmS useS epsS) tf PS Tend fuel t U) :=
  marginal_invariant_integrate (MargInv xs inS d) _ _ tf PD PS Tend hdtEq hpos
    (fun dt hdt => margInv_step xs hg hN hx0 hx1 inS d hd frD nmD frS nmS useD useS epsD epsS PD PS hθ hβD hβS hS hon dt hdt
      (hC dt hdt))


section
variable {d : ℕ} {xs : Array ℚ}

/-- time-dependent parameters -/
theorem margInv_integrateFn (xs : Array ℚ) (hg : GridOk xs) (hN : 3 ≤ xs.size) (hx0 : xs.getD 0 0 = 0)
    (hx1 : xs.getD (xs.size - 1) 0 = 1) (inS : ℕ → Bool) (d : ℕ) (hd : d ≤ 5)
    (frD nmD frS nmS : List Bool) (useD useS : Bool) (epsD epsS : ℕ → List ℕ → ℕ → ℚ) (PfD PfS : ℚ → StepParams)
    (hθ : ∀ τ, (PfD τ).theta0 = (PfS τ).theta0)
    (hβD : ∀ τ β, (PfD τ).beta = some β → 0 < β) (hβS : ∀ τ β, (PfS τ).beta = some β → 0 < β)
    (hS : ∀ τ, SPopsOk inS d frD frS (PfD τ) (PfS τ))
    (hon : ∀ i a, IsAxis inS d i a → injectOn d a frD nmD = injectOn ((List.range d).filter inS).length i frS nmS)
    (tf Tend : ℚ) (hdtEq : ∀ τ, stepDt tf (PfD τ) = stepDt tf (PfS τ)) (hpos : ∀ τ dt, stepDt tf (PfS τ) = some dt → 0 < dt)
    (hC : ∀ τ dt, 0 < dt → ∀ a, a < d → inS a = false → ∀ p, (PfD τ).pops[a]? = some p →
      ∀ ys eps φ, PivotsOk 1 0 ((axisLine xs (p.axis (PfD τ).beta) ys useD eps dt).rows φ)) :
    ∀ (fuel : ℕ) (t : ℚ) (PcD PcS : StepParams) (T U : List ℕ → ℚ), stepDt tf PcD = stepDt tf PcS →
      (∀ dt, stepDt tf PcS = some dt → 0 < dt) → MargInv xs inS d T U →
      MargInv xs inS d (integrateFn (sweepFn (List.replicate d xs) frD nmD useD epsD) tf PfD Tend fuel t PcD T)
        (integrateFn (sweepFn (List.replicate ((List.range d).filter inS).length xs) frS nmS useS epsS) tf PfS Tend fuel t PcS U) :=
  marginal_invariant_integrateFn (MargInv xs inS d) _ _ tf PfD PfS Tend hdtEq hpos
    (fun τ dt hdt => margInv_step xs hg hN hx0 hx1 inS d hd frD nmD frS nmS useD useS epsD epsS (PfD τ) (PfS τ) (hθ τ)
      (hβD τ) (hβS τ) (hS τ) hon dt hdt (hC τ dt hdt))

/-! ### 9. the tabulated arrays the driver computes -/

theorem inBox_replicate : ∀ (l : List ℕ) (n N : ℕ), l.length = n → (∀ x ∈ l, x < N) → InBox (List.replicate n N) l
  | [], 0, _, _, _ => trivial
  | [], n + 1, _, h, _ => by simp at h
  | _ :: _, 0, _, h, _ => by simp at h
  | x :: l, n + 1, N, h, hx => by
      rw [List.replicate_succ]
      exact ⟨hx x List.mem_cons_self, inBox_replicate l n N (by simpa using h) (fun y hy => hx y (List.mem_cons_of_mem _ hy))⟩

theorem fv_lt (f : GIdx d xs) (p : ℕ) (hp : p < d) : fv f p < xs.size := by
  unfold fv; rw [dif_pos hp]; exact (f ⟨p, hp⟩).2

theorem idxL_inBox (f : GIdx d xs) : InBox (List.replicate d xs.size) (idxL f) := by
  apply inBox_replicate _ _ _ (idxL_length f)
  intro x hx
  simp only [idxL, List.mem_map, List.mem_range] at hx
  obtain ⟨p, hp, rfl⟩ := hx
  exact fv_lt f p hp

theorem idxS_inBox (inS : ℕ → Bool) (f : GIdx d xs) :
    InBox (List.replicate ((List.range d).filter inS).length xs.size) (idxS inS f) := by
  apply inBox_replicate _ _ _ (idxS_length inS f)
  intro x hx
  simp only [idxS, List.mem_map, List.mem_filter, List.mem_range] at hx
  obtain ⟨p, hp, rfl⟩ := hx
  exact fv_lt f p hp.1

/-- the invariant only reads the two densities inside their boxes -/
theorem MargInv.congr {inS : ℕ → Bool} {T T' U U' : List ℕ → ℚ}
    (hT : ∀ idx, InBox (List.replicate d xs.size) idx → T idx = T' idx)
    (hU : ∀ idx, InBox (List.replicate ((List.range d).filter inS).length xs.size) idx → U idx = U' idx)
    (h : MargInv xs inS d T U) : MargInv xs inS d T' U' := by
  intro f0 hnc
  rw [← hU _ (idxS_inBox inS f0), ← h f0 hnc]
  refine Finset.sum_congr rfl (fun f _ => ?_)
  rw [hT _ (idxL_inBox f)]

theorem gridsFit_replicate (xs : Array ℚ) (n : ℕ) : GridsFit (List.replicate n xs) (List.replicate n xs.size) := by
  refine ⟨by simp, ?_⟩
  intro k hk
  have hk' : k < n := by simpa using hk
  simp [List.getD_eq_getElem?_getD, hk']

/-- **array level**: the same statement for the tabulated densities `integrateConst (sweep …)` the driver computes -/
theorem margInv_integrate_nd (xs : Array ℚ) (hg : GridOk xs) (hN : 3 ≤ xs.size) (hx0 : xs.getD 0 0 = 0)
    (hx1 : xs.getD (xs.size - 1) 0 = 1) (inS : ℕ → Bool) (d : ℕ) (hd : d ≤ 5)
    (frD nmD frS nmS : List Bool) (useD useS : Bool) (epsD epsS : ℕ → ND) (PD PS : StepParams)
    (hθ : PD.theta0 = PS.theta0)
    (hβD : ∀ β, PD.beta = some β → 0 < β) (hβS : ∀ β, PS.beta = some β → 0 < β)
    (hS : SPopsOk inS d frD frS PD PS)
    (hon : ∀ i a, IsAxis inS d i a → injectOn d a frD nmD = injectOn ((List.range d).filter inS).length i frS nmS)
    (tf Tend : ℚ) (hdtEq : stepDt tf PD = stepDt tf PS) (hpos : ∀ dt, stepDt tf PS = some dt → 0 < dt)
    (hC : ∀ dt, 0 < dt → ∀ a, a < d → inS a = false → ∀ p, PD.pops[a]? = some p →
      ∀ ys eps φ, PivotsOk 1 0 ((axisLine xs (p.axis PD.beta) ys useD eps dt).rows φ))
    (fuel : ℕ) (t : ℚ) (TD US : ND) (hTD : TD.shape = List.replicate d xs.size)
    (hUS : US.shape = List.replicate ((List.range d).filter inS).length xs.size)
    (h : MargInv xs inS d TD.get US.get) :
    MargInv xs inS d (integrateConst (sweep (List.replicate d xs) frD nmD useD epsD) tf PD Tend fuel t TD).get
      (integrateConst (sweep (List.replicate ((List.range d).filter inS).length xs) frS nmS useS epsS) tf PS Tend fuel t US).get := by
  have hfn := margInv_integrate xs hg hN hx0 hx1 inS d hd frD nmD frS nmS useD useS
    (fun k i j => (epsD k).get (i.insertIdx k j)) (fun k i j => (epsS k).get (i.insertIdx k j)) PD PS hθ hβD hβS hS hon
    tf Tend hdtEq hpos hC fuel t TD.get US.get h
  refine MargInv.congr ?_ ?_ hfn
  · intro idx hidx
    exact (integrateConst_get (List.replicate d xs) frD nmD useD epsD tf PD Tend _ (gridsFit_replicate xs d) fuel t TD TD.get
      hTD (fun _ _ => rfl) idx hidx).symm
  · intro idx hidx
    exact (integrateConst_get (List.replicate _ xs) frS nmS useS epsS tf PS Tend _ (gridsFit_replicate xs _) fuel t US US.get
      hUS (fun _ _ => rfl) idx hidx).symm

end

namespace MarginalExample

/-! ### 10. non-vacuity: d = 3, S = {population 0, population 2}, grid {0, 1/2, 1} -/

def inS02 (p : ℕ) : Bool := p == 0 || p == 2
def pop3 : PopParams := { nu := 1, gamma := 0, h := 1/2, ms := [0, 0] }
def pop2' : PopParams := { nu := 1, gamma := 0, h := 1/2, ms := [0] }

theorem filt02 : (List.range 3).filter inS02 = [0, 2] := by decide

theorem isAxis02 {i a : ℕ} (h : IsAxis inS02 3 i a) : (i = 0 ∧ a = 0) ∨ (i = 1 ∧ a = 2) := by
  unfold IsAxis at h
  rw [filt02] at h
  match i, h with
  | 0, h => left; simpa using h.symm
  | 1, h => right; simpa using h.symm
  | n + 2, h => simp at h

/-- all hypotheses of the generic step theorem hold for this instance (any dt > 0) -/
example (dt : ℚ) (hdt : 0 < dt) (epsD epsS : ℕ → List ℕ → ℕ → ℚ) (T U : List ℕ → ℚ) (h : MargInv xs3 inS02 3 T U) :
    MargInv xs3 inS02 3
      (sweepFn (List.replicate 3 xs3) [false, false, false] [false, false, false] true epsD ⟨[pop3, pop3, pop3], 1, none⟩ dt T)
      (sweepFn (List.replicate ((List.range 3).filter inS02).length xs3) [false, false] [false, false] false epsS
        ⟨[pop2', pop2'], 1, none⟩ dt U) :=
  margInv_step xs3 gridOk (by decide) (by norm_num [xs3, Array.getD]) (by norm_num [xs3, Array.getD]) inS02 3 (by norm_num)
    [false, false, false] [false, false, false] [false, false] [false, false] true false epsD epsS
    ⟨[pop3, pop3, pop3], 1, none⟩ ⟨[pop2', pop2'], 1, none⟩ rfl (fun β h => by simp at h) (fun β h => by simp at h)
    (fun i a hia => by
      rcases isAxis02 hia with ⟨rfl, rfl⟩ | ⟨rfl, rfl⟩
      · exact ⟨rfl, pop3, pop2', rfl, rfl, rfl, by simp [pop3], rfl, by simp [pop2'], rfl, by norm_num [pop3], fun _ => rfl⟩
      · exact ⟨rfl, pop3, pop2', rfl, rfl, rfl, by simp [pop3], rfl, by simp [pop2'], rfl, by norm_num [pop3], fun _ => rfl⟩)
    (fun i a hia => by
      rcases isAxis02 hia with ⟨rfl, rfl⟩ | ⟨rfl, rfl⟩ <;> rw [filt02] <;> rfl)
    dt hdt
    (fun a ha hs p hp ys eps φ => by
      have ha1 : a = 1 := by
        rcases (by omega : a = 0 ∨ a = 1 ∨ a = 2) with rfl | rfl | rfl
        · simp [inS02] at hs
        · rfl
        · simp [inS02] at hs
      subst ha1
      have hp' : p = pop3 := by simpa using hp.symm
      subst hp'
      exact axisLine_pivotsOk_nomig xs3 gridOk (by norm_num [xs3, Array.getD]) (by norm_num [xs3, Array.getD])
        (pop3.axis none) rfl (by simp [pop3, PopParams.axis]) (by norm_num [pop3, PopParams.axis])
        (fun β h => by simp [PopParams.axis] at h) ys true eps dt hdt φ)
    T U h

/-- the invariant has non-corner S-indices to talk about: e.g. the index (1, ·, 0) -/
example : NonCornerS (d := 3) (xs := xs3) inS02 (fun p => if p.val = 0 then ⟨1, by decide⟩ else ⟨0, by decide⟩) := by
  constructor
  · intro h; have := h ⟨0, by decide⟩ rfl; simp at this
  · intro h; have := h ⟨2, by decide⟩ rfl; simp [xs3] at this

end MarginalExample

end DadiVerif
