import DadiVerif.Lemmas.DataDictProj
/-! Infrastructure for C13, part 13: `Spectrum.from_data_dict_corrected` — the grouping of `_data_by_tri` loses and repeats no SNP, the
    `while by_context` loop visits every class exactly once (as the class popped or as the class it would be mistaken for), the
    `force_pos` step conserves the total.  Everything here is independent of the generated combination formulas: what a pair of
    classes contributes enters as a hypothesis (`hpair`), discharged in Props/C13.lean from the generated `corrRux`, `corrRxuInner`. -/
namespace DadiVerif.DataDict
open DadiVerif.Gen.DD

/-! ### grouping -/

theorem groupInsert_keys (k : TriKey) (s : Snp) (g : List (TriKey × List Snp)) :
    (groupInsert k s g).map (·.1) = if k ∈ g.map (·.1) then g.map (·.1) else g.map (·.1) ++ [k] := by
  induction g with
  | nil => simp [groupInsert]
  | cons e rest ih =>
    obtain ⟨k', l⟩ := e
    simp only [groupInsert]
    by_cases h : k' = k
    · subst h; simp
    · have h' : ¬ k = k' := fun e => h e.symm
      simp only [if_neg h, List.map_cons, ih, List.mem_cons, h', false_or]
      split_ifs <;> simp

theorem groupInsert_nodup (k : TriKey) (s : Snp) (g : List (TriKey × List Snp)) (h : (g.map (·.1)).Nodup) :
    ((groupInsert k s g).map (·.1)).Nodup := by
  rw [groupInsert_keys]
  split_ifs with hk
  · exact h
  · exact List.Nodup.append h (by simp) (by simpa using hk)

theorem groupInsert_sum (k : TriKey) (s : Snp) (g : List (TriKey × List Snp)) (f : Snp → ℚ) :
    sumMap (groupInsert k s g) (fun e => sumMap e.2 f) = sumMap g (fun e => sumMap e.2 f) + f s := by
  induction g with
  | nil => simp [groupInsert]
  | cons e rest ih =>
    obtain ⟨k', l⟩ := e
    simp only [groupInsert]
    by_cases h : k' = k
    · simp only [if_pos h, sumMap_cons, sumMap_append, sumMap_nil]; ring
    · simp only [if_neg h, sumMap_cons, ih]; ring

/-- the SNPs the correction applies to, in order -/
def correctable (ts : List TriSnp) : List Snp :=
  ts.filterMap fun t => match triClassify t with
    | .keep _ => some t.snp
    | _ => none

theorem byContext_spec (ts : List TriSnp) (acc g : List (TriKey × List Snp)) (h : byContext ts acc = some g)
    (hn : (acc.map (·.1)).Nodup) (f : Snp → ℚ) :
    (g.map (·.1)).Nodup ∧
    sumMap g (fun e => sumMap e.2 f) = sumMap acc (fun e => sumMap e.2 f) + sumMap (correctable ts) f := by
  induction ts generalizing acc with
  | nil =>
    simp only [byContext, Option.some.injEq] at h
    subst h
    simp [correctable, hn]
  | cons t rest ih =>
    simp only [byContext] at h
    cases hc : triClassify t with
    | skip =>
      simp only [hc] at h
      have := ih acc h hn
      simpa [correctable, hc] using this
    | keep k =>
      simp only [hc] at h
      obtain ⟨h1, h2⟩ := ih (groupInsert k t.snp acc) h (groupInsert_nodup k t.snp acc hn)
      refine ⟨h1, ?_⟩
      rw [h2, groupInsert_sum]
      simp only [correctable, List.filterMap_cons, hc, sumMap_cons]
      ring
    | valueError => simp [hc] at h
    | keyError => simp [hc] at h

/-! ### the loop -/

theorem sumMap_filter_lookup (l : List (TriKey × List Snp)) (hn : (l.map (·.1)).Nodup) (mk : TriKey) (G : List Snp → ℚ) (hG : G [] = 0) :
    sumMap (l.filter fun e => e.1 != mk) (fun e => G e.2) + G (((l.find? fun e => e.1 == mk).map (·.2)).getD [])
      = sumMap l (fun e => G e.2) := by
  induction l with
  | nil => simp [hG]
  | cons e rest ih =>
    rw [List.map_cons, List.nodup_cons] at hn
    by_cases h : e.1 = mk
    · -- `e` is the class looked up; nothing else in `rest` has its key
      have hrest : rest.filter (fun e => e.1 != mk) = rest := by
        rw [List.filter_eq_self]
        intro x hx
        have : x.1 ≠ mk := fun e' => hn.1 (List.mem_map.mpr ⟨x, hx, by rw [e', h]⟩)
        simpa using this
      simp [h, hrest]
      ring
    · have := ih hn.2
      have hb : (e.1 != mk) = true := by simpa using h
      have hb' : (e.1 == mk) = false := by simpa using h
      rw [List.filter_cons, if_pos hb, List.find?_cons, hb']
      simp only [sumMap_cons]
      linarith

/-- **every class is visited once**: for an additive functional `Φ` of the accumulated array and a per-class quantity `G` such that a
    pair of classes contributes `G nomis + G mis`, the loop adds up `G` over all classes -/
theorem corrLoop_additive (proj : List ℕ) (F : TriKey → ℚ) (Φ : (List ℕ → ℚ) → ℚ) (G : List Snp → ℚ)
    (hadd : ∀ a b : List ℕ → ℚ, Φ (fun idx => a idx + b idx) = Φ a + Φ b) (hG : G [] = 0)
    (hpair : ∀ k nomis mis, Φ (corrPairAt proj (F k) (F (misKey k)) nomis mis) = G nomis + G mis)
    (fuel : ℕ) (l : List (TriKey × List Snp)) (acc : List ℕ → ℚ) (hf : l.length ≤ fuel) (hn : (l.map (·.1)).Nodup) :
    Φ (corrLoop proj F fuel l acc) = Φ acc + sumMap l (fun e => G e.2) := by
  induction fuel generalizing l acc with
  | zero =>
    have : l = [] := List.length_eq_zero_iff.mp (Nat.le_zero.mp hf)
    subst this
    simp [corrLoop]
  | succ fuel ih =>
    rcases List.eq_nil_or_concat l with hl | ⟨init, last, hl⟩
    · subst hl; simp [corrLoop]
    · subst hl
      rw [List.concat_eq_append] at hf hn ⊢
      obtain ⟨k, nomis⟩ := last
      have hlast : (init ++ [(k, nomis)]).getLast? = some (k, nomis) := by simp
      have hdrop : (init ++ [(k, nomis)]).dropLast = init := by simp
      have hninit : (init.map (·.1)).Nodup := by
        rw [List.map_append] at hn
        exact (List.nodup_append.mp hn).1
      rw [corrLoop]
      simp only [hlast, hdrop]
      rw [ih]
      · rw [hadd, hpair, sumMap_append]
        have := sumMap_filter_lookup init hninit (misKey k) G hG
        simp only [sumMap_cons, sumMap_nil]
        linarith
      · have h1 : (init.filter fun e => e.1 != misKey k).length ≤ init.length := List.length_filter_le _ _
        have h2 : (init ++ [(k, nomis)]).length = init.length + 1 := by simp
        omega
      · exact hninit.sublist (List.Sublist.map _ List.filter_sublist)

/-! ### force_pos -/

/-- moving the negative entries to the mirrored entry conserves the total (whatever `corrNeg` extracts) -/
theorem forcePosAt_total (proj : List ℕ) (u : List ℕ → ℚ) :
    boxSum (shapeOf proj) (forcePosAt proj u) = boxSum (shapeOf proj) u := by
  have h : forcePosAt proj u = fun idx => (u idx - corrNeg (u idx)) + (fun i => corrNeg (u i)) (mirror proj idx) := by
    funext idx; rfl
  rw [h, boxSum_add, boxSum_mirror proj (fun i => corrNeg (u i)), boxSum_sub]
  ring

theorem spectrumAt_nil (pol : Bool) (proj idx : List ℕ) : spectrumAt pol proj [] idx = 0 := by
  unfold spectrumAt specAt countDict
  simp [rawAt, foldAt]

end DadiVerif.DataDict
