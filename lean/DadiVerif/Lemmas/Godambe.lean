import DadiVerif.Model.Godambe
import Mathlib.Tactic.Ring
import Mathlib.Tactic.FieldSimp
import Mathlib.Tactic.Linarith
import Mathlib.Tactic.NormNum
import Mathlib.Algebra.Order.Field.Basic
import Mathlib.Algebra.BigOperators.Group.List.Basic
import Mathlib.Algebra.BigOperators.Ring.Finset
import Mathlib.LinearAlgebra.Matrix.NonsingularInverse
import Mathlib.LinearAlgebra.Matrix.Trace
import Mathlib.Analysis.SpecialFunctions.Log.Deriv
import Mathlib.Analysis.Calculus.Deriv.Inv
import Mathlib.Analysis.Calculus.Deriv.Add
import Mathlib.LinearAlgebra.Matrix.Determinant.Basic
import Mathlib.Algebra.BigOperators.Group.Finset.Piecewise
/-!
Helper lemmas for C19 (Props/C19.lean): point updates of a parameter vector, the nested-parameter scatter/gather, and the
memo-table invariant behind the cache theorems.
-/
set_option autoImplicit false
namespace DadiVerif
namespace Godambe

section Upd
variable {α : Type}

theorem upd_self (p : ℕ → α) (i : ℕ) : upd p i (p i) = p := by
  funext k; unfold upd; split
  · rename_i h; rw [h]
  · rfl

theorem upd_comm (p : ℕ → α) (i j : ℕ) (a b : α) (h : i ≠ j) : upd (upd p i a) j b = upd (upd p j b) i a := by
  funext k; unfold upd
  by_cases hj : k = j
  · subst hj
    have hi : k ≠ i := fun q => h q.symm
    simp [hi]
  · by_cases hi : k = i
    · subst hi; simp [hj]
    · simp [hi, hj]

end Upd

theorem set_getD_self (l : List ℚ) (i : ℕ) (d : ℚ) : l.set i (l.getD i d) = l := by
  induction l generalizing i with
  | nil => simp
  | cons a t ih =>
    cases i with
    | zero => simp
    | succ k => simpa using ih k

theorem scatter_gather (p0 : List ℚ) (idx : List ℕ) : scatter p0 idx (gather p0 idx) = p0 := by
  induction idx with
  | nil => simp [gather, scatter]
  | cons i is ih =>
    simp only [gather, List.map_cons, scatter] at ih ⊢
    rw [set_getD_self]
    exact ih

/-! ### memo table -/
section Cache
variable {ω π ν κ : Type} [DecidableEq κ] [DecidableEq π]

theorem lookup_mem {κ' : Type} [DecidableEq κ'] (c : Memo κ' ν) (k : κ') (v : ν) (h : c.lookup k = some v) : (k, v) ∈ c := by
  unfold Memo.lookup at h
  cases hf : c.find? (fun p => decide (p.1 = k)) with
  | none => simp [hf] at h
  | some p =>
    simp [hf] at h
    have hmem := List.mem_of_find?_eq_some hf
    have hk : p.1 = k := by simpa using List.find?_some hf
    have : p = (k, v) := by
      cases p; simp_all
    rw [← this]; exact hmem

/-- every stored spectrum was computed by a function whose key component is the stored one -/
def CacheSound (keyOf : ω → κ) (sem : ω → π → ν) (c : Memo (κ × π) ν) : Prop :=
  ∀ e ∈ c, ∃ o, keyOf o = e.1.1 ∧ e.2 = sem o e.1.2

theorem runCache_sound (keyOf : ω → κ) (sem : ω → π → ν) (hdet : ∀ o o' k, keyOf o = keyOf o' → sem o k = sem o' k) :
    ∀ (ops : List (ω × π)) (c : Memo (κ × π) ν), CacheSound keyOf sem c →
      (runCache keyOf sem c ops).2 = ops.map (fun op => sem op.1 op.2) := by
  intro ops
  induction ops with
  | nil => intro c _; rfl
  | cons op ops ih =>
    intro c hc
    obtain ⟨o, k⟩ := op
    cases hl : Memo.lookup c (keyOf o, k) with
    | some w =>
      have hw : w = sem o k := by
        obtain ⟨o', h1, h2⟩ := hc _ (lookup_mem c _ _ hl)
        simp only at h1 h2
        rw [h2]; exact hdet o' o k h1
      simp only [runCache, Memo.call, hl, List.map_cons]
      rw [ih c hc, hw]
    | none =>
      have hc' : CacheSound keyOf sem (((keyOf o, k), sem o k) :: c) := by
        intro e he
        rcases List.mem_cons.mp he with rfl | he'
        · exact ⟨o, rfl, rfl⟩
        · exact hc e he'
      simp only [runCache, Memo.call, hl, List.map_cons]
      rw [ih _ hc']

theorem cache_transparent_iff (keyOf : ω → κ) (sem : ω → π → ν) :
    (∀ ops : List (ω × π), (runCache keyOf sem [] ops).2 = ops.map (fun op => sem op.1 op.2))
    ↔ (∀ o o' k, keyOf o = keyOf o' → sem o k = sem o' k) := by
  constructor
  · intro h o o' k hk
    have := h [(o, k), (o', k)]
    simp [runCache, Memo.call, Memo.lookup, hk] at this
    exact this
  · intro hdet ops
    exact runCache_sound keyOf sem hdet ops [] (by intro e he; simp at he)

end Cache

/-! ### general quadratic functions of n parameters restricted to a coordinate line / plane -/
section QuadForm
open Finset
variable {K : Type} [Field K]

/-- a general quadratic function of the first `n` parameters -/
def quadForm (n : ℕ) (c : K) (b : ℕ → K) (A : ℕ → ℕ → K) (p : ℕ → K) : K :=
  c + ∑ k ∈ range n, b k * p k + ∑ k ∈ range n, ∑ l ∈ range n, A k l * p k * p l

theorem quad_expand (n : ℕ) (c : K) (b : ℕ → K) (A : ℕ → ℕ → K) (x y z : ℕ → K) (s t : K) :
    quadForm n c b A (fun k => x k + s * y k + t * z k)
      = (c + ∑ k ∈ range n, b k * x k + ∑ k ∈ range n, ∑ l ∈ range n, A k l * x k * x l)
        + s * (∑ k ∈ range n, b k * y k + ∑ k ∈ range n, ∑ l ∈ range n, (A k l * x k * y l + A k l * y k * x l))
        + t * (∑ k ∈ range n, b k * z k + ∑ k ∈ range n, ∑ l ∈ range n, (A k l * x k * z l + A k l * z k * x l))
        + s ^ 2 * (∑ k ∈ range n, ∑ l ∈ range n, A k l * y k * y l)
        + t ^ 2 * (∑ k ∈ range n, ∑ l ∈ range n, A k l * z k * z l)
        + s * t * (∑ k ∈ range n, ∑ l ∈ range n, (A k l * y k * z l + A k l * z k * y l)) := by
  unfold quadForm
  have h1 : ∀ k, b k * (x k + s * y k + t * z k) = b k * x k + s * (b k * y k) + t * (b k * z k) := fun k => by ring
  have h2 : ∀ k l, A k l * (x k + s * y k + t * z k) * (x l + s * y l + t * z l)
      = A k l * x k * x l + s * (A k l * x k * y l + A k l * y k * x l) + t * (A k l * x k * z l + A k l * z k * x l)
        + s ^ 2 * (A k l * y k * y l) + t ^ 2 * (A k l * z k * z l) + s * t * (A k l * y k * z l + A k l * z k * y l) :=
    fun k l => by ring
  simp only [h1, h2, Finset.sum_add_distrib, ← Finset.mul_sum]
  ring

/-- Kronecker vector -/
def kron (i : ℕ) : ℕ → K := fun k => if k = i then 1 else 0

theorem sum_kron (n i : ℕ) (hi : i < n) (f : ℕ → K) : ∑ k ∈ range n, f k * kron i k = f i := by
  simp [kron, Finset.sum_ite_eq', hi]

theorem sum_kron2 (n i j : ℕ) (hi : i < n) (hj : j < n) (A : ℕ → ℕ → K) :
    ∑ k ∈ range n, ∑ l ∈ range n, A k l * kron i k * kron j l = A i j := by
  simp [kron, Finset.sum_ite_eq', hi, hj]

/-- restriction of a quadratic function to the coordinate plane (i, j) through p0 -/
theorem quadForm_plane (n : ℕ) (c : K) (b : ℕ → K) (A : ℕ → ℕ → K) (p0 : ℕ → K) (i j : ℕ) (hij : i ≠ j) (hi : i < n) (hj : j < n) :
    ∃ u v : K → K, ∀ s t, quadForm n c b A (upd (upd p0 i s) j t) = u s + v t + (A i j + A j i) * s * t := by
  let r : ℕ → K := fun k => if k = i then 0 else if k = j then 0 else p0 k
  have hP : ∀ s t, upd (upd p0 i s) j t = fun k => r k + s * kron i k + t * kron j k := by
    intro s t; funext k
    by_cases hkj : k = j
    · subst hkj
      have : k ≠ i := fun q => hij q.symm
      simp [upd, r, kron, this]
    · by_cases hki : k = i
      · subst hki; simp [upd, r, kron, hkj]
      · simp [upd, r, kron, hkj, hki]
  have hc : ∑ k ∈ range n, ∑ l ∈ range n, (A k l * kron i k * kron j l + A k l * kron j k * kron i l) = A i j + A j i := by
    simp only [Finset.sum_add_distrib]
    rw [sum_kron2 n i j hi hj, sum_kron2 n j i hj hi]
  refine ⟨fun s => (c + ∑ k ∈ range n, b k * r k + ∑ k ∈ range n, ∑ l ∈ range n, A k l * r k * r l)
            + s * (∑ k ∈ range n, b k * kron i k + ∑ k ∈ range n, ∑ l ∈ range n, (A k l * r k * kron i l + A k l * kron i k * r l))
            + s ^ 2 * (∑ k ∈ range n, ∑ l ∈ range n, A k l * kron i k * kron i l),
          fun t => t * (∑ k ∈ range n, b k * kron j k + ∑ k ∈ range n, ∑ l ∈ range n, (A k l * r k * kron j l + A k l * kron j k * r l))
            + t ^ 2 * (∑ k ∈ range n, ∑ l ∈ range n, A k l * kron j k * kron j l), ?_⟩
  intro s t
  rw [hP, quad_expand, hc]
  ring

/-- restriction to one coordinate line -/
theorem quadForm_line (n : ℕ) (c : K) (b : ℕ → K) (A : ℕ → ℕ → K) (p0 : ℕ → K) (i : ℕ) (hi : i < n) :
    ∃ c0 c1 : K, ∀ s, quadForm n c b A (upd p0 i s) = c0 + c1 * s + A i i * s ^ 2 := by
  let r : ℕ → K := fun k => if k = i then 0 else p0 k
  have hP : ∀ s, upd p0 i s = fun k => r k + s * kron i k + 0 * kron i k := by
    intro s; funext k
    by_cases hki : k = i
    · subst hki; simp [upd, r, kron]
    · simp [upd, r, kron, hki]
  refine ⟨c + ∑ k ∈ range n, b k * r k + ∑ k ∈ range n, ∑ l ∈ range n, A k l * r k * r l,
          ∑ k ∈ range n, b k * kron i k + ∑ k ∈ range n, ∑ l ∈ range n, (A k l * r k * kron i l + A k l * kron i k * r l), ?_⟩
  intro s
  rw [hP, quad_expand, sum_kron2 n i i hi hi]
  ring

end QuadForm

/-! ### calculus: Poisson log-likelihood of a model that is affine along a parameter direction -/
section Calc
open Finset
/-- score of the Poisson log-likelihood of a model affine along a parameter direction -/
theorem poisson_score {ι : Type} (s : Finset ι) (m b d : ι → ℝ) (hm : ∀ i ∈ s, m i ≠ 0) :
    HasDerivAt (fun t : ℝ => ∑ i ∈ s, (-(m i + t * b i) + d i * Real.log (m i + t * b i)))
      (∑ i ∈ s, (-(b i) + d i * b i / m i)) 0 := by
  have h : ∀ i ∈ s, HasDerivAt (fun t : ℝ => -(m i + t * b i) + d i * Real.log (m i + t * b i)) (-(b i) + d i * b i / m i) 0 := by
    intro i hi
    have h1 : HasDerivAt (fun t : ℝ => m i + t * b i) (b i) 0 := by
      simpa using ((hasDerivAt_id (0 : ℝ)).mul_const (b i)).const_add (m i)
    have h2 := h1.log (by simpa using hm i hi)
    have h3 := (h1.neg).add (h2.const_mul (d i))
    have hfun : (fun t : ℝ => -(m i + t * b i) + d i * Real.log (m i + t * b i))
        = ((-fun t => m i + t * b i) + fun y => d i * Real.log (m i + y * b i)) := by funext t; simp
    rw [hfun]
    exact h3.congr_deriv (by simp only [zero_mul, add_zero]; ring)
  exact HasDerivAt.fun_sum h

theorem poisson_info {ι : Type} (s : Finset ι) (m b c d : ι → ℝ) (hm : ∀ i ∈ s, m i ≠ 0) :
    HasDerivAt (fun t : ℝ => ∑ i ∈ s, (-(b i) + d i * b i / (m i + t * c i)))
      (-(∑ i ∈ s, d i * b i * c i / m i ^ 2)) 0 := by
  have h : ∀ i ∈ s, HasDerivAt (fun t : ℝ => -(b i) + d i * b i / (m i + t * c i)) (-(d i * b i * c i / m i ^ 2)) 0 := by
    intro i hi
    have h1 : HasDerivAt (fun t : ℝ => m i + t * c i) (c i) 0 := by
      simpa using ((hasDerivAt_id (0 : ℝ)).mul_const (c i)).const_add (m i)
    have h2 := (h1.inv (by simpa using hm i hi)).const_mul (d i * b i)
    have h3 := h2.const_add (-(b i))
    have e : (fun t : ℝ => -(b i) + d i * b i / (m i + t * c i)) = fun x => -b i + d i * b i * (fun t => m i + t * c i)⁻¹ x := by
      funext t; simp [div_eq_mul_inv]
    rw [e]
    exact h3.congr_deriv (by simp only [zero_mul, add_zero]; ring)
  have := HasDerivAt.fun_sum h
  simpa [Finset.sum_neg_distrib] using this

end Calc

end Godambe
end DadiVerif
