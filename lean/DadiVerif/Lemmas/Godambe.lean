import DadiVerif.Model.Godambe
import Mathlib.Tactic.Ring
import Mathlib.Tactic.FieldSimp
import Mathlib.Tactic.Linarith
import Mathlib.Tactic.NormNum
import Mathlib.Algebra.Order.Field.Basic
import Mathlib.Algebra.BigOperators.Group.List.Basic
/-!
Helper lemmas for C19 (Props/C19.lean): point updates of a parameter vector, the nested-parameter scatter/gather, and the
memo-table invariant behind the cache theorems.
-/
set_option autoImplicit false
namespace DadiVerif
namespace Godambe

section Upd
variable {α : Type}

theorem upd_self (p : ℕ → α) (i : ℕ) : upd p i (p i) = p := by
  funext k; unfold upd; split
  · rename_i h; rw [h]
  · rfl

theorem upd_comm (p : ℕ → α) (i j : ℕ) (a b : α) (h : i ≠ j) : upd (upd p i a) j b = upd (upd p j b) i a := by
  funext k; unfold upd
  by_cases hj : k = j
  · subst hj
    have hi : k ≠ i := fun q => h q.symm
    simp [hi]
  · by_cases hi : k = i
    · subst hi; simp [hj]
    · simp [hi, hj]

end Upd

theorem set_getD_self (l : List ℚ) (i : ℕ) (d : ℚ) : l.set i (l.getD i d) = l := by
  induction l generalizing i with
  | nil => simp
  | cons a t ih =>
    cases i with
    | zero => simp
    | succ k => simpa using ih k

theorem scatter_gather (p0 : List ℚ) (idx : List ℕ) : scatter p0 idx (gather p0 idx) = p0 := by
  induction idx with
  | nil => simp [gather, scatter]
  | cons i is ih =>
    simp only [gather, List.map_cons, scatter] at ih ⊢
    rw [set_getD_self]
    exact ih

/-! ### memo table -/
section Cache
variable {ω π ν κ : Type} [DecidableEq κ] [DecidableEq π]

theorem lookup_mem {κ' : Type} [DecidableEq κ'] (c : Memo κ' ν) (k : κ') (v : ν) (h : c.lookup k = some v) : (k, v) ∈ c := by
  unfold Memo.lookup at h
  cases hf : c.find? (fun p => decide (p.1 = k)) with
  | none => simp [hf] at h
  | some p =>
    simp [hf] at h
    have hmem := List.mem_of_find?_eq_some hf
    have hk : p.1 = k := by simpa using List.find?_some hf
    have : p = (k, v) := by
      cases p; simp_all
    rw [← this]; exact hmem

/-- every stored spectrum was computed by a function whose key component is the stored one -/
def CacheSound (keyOf : ω → κ) (sem : ω → π → ν) (c : Memo (κ × π) ν) : Prop :=
  ∀ e ∈ c, ∃ o, keyOf o = e.1.1 ∧ e.2 = sem o e.1.2

theorem runCache_sound (keyOf : ω → κ) (sem : ω → π → ν) (hdet : ∀ o o' k, keyOf o = keyOf o' → sem o k = sem o' k) :
    ∀ (ops : List (ω × π)) (c : Memo (κ × π) ν), CacheSound keyOf sem c →
      (runCache keyOf sem c ops).2 = ops.map (fun op => sem op.1 op.2) := by
  intro ops
  induction ops with
  | nil => intro c _; rfl
  | cons op ops ih =>
    intro c hc
    obtain ⟨o, k⟩ := op
    cases hl : Memo.lookup c (keyOf o, k) with
    | some w =>
      have hw : w = sem o k := by
        obtain ⟨o', h1, h2⟩ := hc _ (lookup_mem c _ _ hl)
        simp only at h1 h2
        rw [h2]; exact hdet o' o k h1
      simp only [runCache, Memo.call, hl, List.map_cons]
      rw [ih c hc, hw]
    | none =>
      have hc' : CacheSound keyOf sem (((keyOf o, k), sem o k) :: c) := by
        intro e he
        rcases List.mem_cons.mp he with rfl | he'
        · exact ⟨o, rfl, rfl⟩
        · exact hc e he'
      simp only [runCache, Memo.call, hl, List.map_cons]
      rw [ih _ hc']

theorem cache_transparent_iff (keyOf : ω → κ) (sem : ω → π → ν) :
    (∀ ops : List (ω × π), (runCache keyOf sem [] ops).2 = ops.map (fun op => sem op.1 op.2))
    ↔ (∀ o o' k, keyOf o = keyOf o' → sem o k = sem o' k) := by
  constructor
  · intro h o o' k hk
    have := h [(o, k), (o', k)]
    simp [runCache, Memo.call, Memo.lookup, hk] at this
    exact this
  · intro hdet ops
    exact runCache_sound keyOf sem hdet ops [] (by intro e he; simp at he)

end Cache

end Godambe
end DadiVerif
