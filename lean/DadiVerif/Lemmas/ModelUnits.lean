import DadiVerif.Model.ModelUnits
import DadiVerif.Lemmas.ModelDSL
/-!
# Lemmas for C15 (units): a well-united expression is homogeneous of the degree of its unit (core Lean only)

`UnitAction I`: an action `sc : U → I.S → I.S` of the unit group on the scalars of an interpretation ("multiply by `c^u`",
one independent factor per base family) that is compatible with the arithmetic.  The one-parameter rescaling of property
C03 (sizes and times `× c`, rates, selection and θ0 `÷ c`) is the action `sc u x = c ^ deg u · x` (Lemmas/ModelUnitsRat.lean).

* `evalS_hom`: `unitOf r tv e = some ut` ⇒ the value of `e` at the rescaled valuation is `sc ut` of its value;
* `evalV_hom`: the same for arguments (a size function satisfies `f' (sc Time τ) = sc u (f τ)`);
* `runTr_scale`: a well-united trace means the same at the rescaled valuation in every interpretation whose primitives
  are invariant under the rescaling of their keywords (`PrimScaleLawful`) — the program-level form of C03;
* `runTr_refExplicit`: making the reference size explicit does not change the meaning at `Nref = 1`, `theta_ref = 1`.
-/
namespace DadiVerif.ModelDSL

/-! ## arithmetic of units -/
namespace U
theorem ext' {a b : U} (h1 : a.size = b.size) (h2 : a.time = b.time) (h3 : a.rate = b.rate) (h4 : a.sel = b.sel)
    (h5 : a.theta = b.theta) : a = b := by
  cases a; cases b; simp only at h1 h2 h3 h4 h5; subst h1 h2 h3 h4 h5; rfl

theorem mul_one (k : U) : k.mul one = k := by apply ext' <;> simp [mul, one]
theorem div_one (k : U) : k.div one = k := by apply ext' <;> simp [div, one]
theorem div_mul_cancel (k b : U) : (k.div b).mul b = k := by apply ext' <;> simp [mul, div] <;> omega
theorem mul_div_cancel' (a k : U) : a.mul (k.div a) = k := by apply ext' <;> simp [mul, div] <;> omega
theorem mul_div_cancel (k b : U) : (k.mul b).div b = k := by apply ext' <;> simp [mul, div] <;> omega
theorem div_div_cancel (a k : U) : a.div (a.div k) = k := by apply ext' <;> simp [div] <;> omega
theorem ref_false (u : U) : u.ref false = u := rfl
end U

/-- an action of the unit group on the scalars, compatible with the arithmetic and the comparisons -/
structure UnitAction (I : Interp) where
  sc : U → I.S → I.S
  sc_one : ∀ x, sc U.one x = x
  sc_mul : ∀ a b x y, I.mul (sc a x) (sc b y) = sc (a.mul b) (I.mul x y)
  sc_div : ∀ a b x y, I.div (sc a x) (sc b y) = sc (a.div b) (I.div x y)
  sc_add : ∀ a x y, I.add (sc a x) (sc a y) = sc a (I.add x y)
  sc_sub : ∀ a x y, I.sub (sc a x) (sc a y) = sc a (I.sub x y)
  sc_neg : ∀ a x, I.neg (sc a x) = sc a (I.neg x)
  sc_zero : ∀ a d, sc a (I.lit 0 d) = I.lit 0 d
  sc_cmp : ∀ op a x y, I.cmp op (sc a x) (sc a y) = I.cmp op x y

section Hom
variable {I : Interp} (A : UnitAction I)

/-- `x'` is `x` rescaled by the unit `ut` (`poly`: by every unit) -/
def Hom : UT → I.S → I.S → Prop
  | .poly, x', x => ∀ k, x' = A.sc k x
  | .u a, x', x => x' = A.sc a x

theorem Hom.at {ut : UT} {x' x : I.S} (h : Hom A ut x' x) (a : U) (ha : ut = .poly ∨ ut = .u a) : x' = A.sc a x := by
  rcases ha with rfl | rfl
  · exact h a
  · exact h

theorem Hom.of_dimless {ut : UT} {x' x : I.S} (h : Hom A ut x' x) (hd : ut.dimless = true) : x' = x := by
  cases ut with
  | poly => rw [h U.one, A.sc_one]
  | u a =>
      have : a = U.one := by simpa [UT.dimless] using hd
      subst this
      show x' = x
      rw [show x' = A.sc U.one x from h, A.sc_one]

/-- binary operations that commute with the action on operands of one unit (`+`, `-`) -/
theorem hom_join (op : I.S → I.S → I.S) (hop : ∀ a x y, op (A.sc a x) (A.sc a y) = A.sc a (op x y))
    {ua ub : Option UT} {ut : UT} (hj : UT.join ua ub = some ut) {a' a b' b : I.S}
    (ha : ∀ u, ua = some u → Hom A u a' a) (hb : ∀ u, ub = some u → Hom A u b' b) :
    Hom A ut (op a' b') (op a b) := by
  cases ua with
  | none => simp [UT.join] at hj
  | some xa =>
    cases ub with
    | none => cases xa <;> simp [UT.join] at hj
    | some xb =>
      have ha := ha xa rfl
      have hb := hb xb rfl
      cases xa with
      | poly =>
          simp only [UT.join, Option.some.injEq] at hj
          subst hj
          cases xb with
          | poly => intro k; rw [ha k, hb k, hop]
          | u y => show _ = _; rw [ha y, show b' = A.sc y b from hb, hop]
      | u x =>
          cases xb with
          | poly =>
              simp only [UT.join, Option.some.injEq] at hj
              subst hj
              show _ = _; rw [show a' = A.sc x a from ha, hb x, hop]
          | u y =>
              simp only [UT.join] at hj
              split at hj
              · next hxy =>
                  have hxy : x = y := by simpa using hxy
                  subst hxy
                  simp only [Option.some.injEq] at hj
                  subst hj
                  show _ = _; rw [show a' = A.sc x a from ha, show b' = A.sc x b from hb, hop]
              · cases hj

/-- two quantities of one unit are rescaled by a common unit -/
theorem hom_common {ua ub : Option UT} (hj : (UT.join ua ub).isSome = true) {a' a b' b : I.S}
    (ha : ∀ u, ua = some u → Hom A u a' a) (hb : ∀ u, ub = some u → Hom A u b' b) :
    ∃ k, a' = A.sc k a ∧ b' = A.sc k b := by
  cases hju : UT.join ua ub with
  | none => rw [hju] at hj; cases hj
  | some ut =>
      -- use the pairing operation on a product interpretation? simpler: case analysis again
      cases ua with
      | none => simp [UT.join] at hju
      | some xa =>
        cases ub with
        | none => cases xa <;> simp [UT.join] at hju
        | some xb =>
          have ha := ha xa rfl
          have hb := hb xb rfl
          cases xa with
          | poly =>
              cases xb with
              | poly => exact ⟨U.one, ha _, hb _⟩
              | u y => exact ⟨y, ha _, hb⟩
          | u x =>
              cases xb with
              | poly => exact ⟨x, ha, hb _⟩
              | u y =>
                  simp only [UT.join] at hju
                  split at hju
                  · next hxy =>
                      have hxy : x = y := by simpa using hxy
                      subst hxy
                      exact ⟨x, ha, hb⟩
                  · cases hju

theorem hom_mul {ua ub : Option UT} {ut : UT} (hj : UT.mul ua ub = some ut) {a' a b' b : I.S}
    (ha : ∀ u, ua = some u → Hom A u a' a) (hb : ∀ u, ub = some u → Hom A u b' b) :
    Hom A ut (I.mul a' b') (I.mul a b) := by
  cases ua with
  | none => simp [UT.mul] at hj
  | some xa =>
    cases ub with
    | none => cases xa <;> simp [UT.mul] at hj
    | some xb =>
      have ha := ha xa rfl
      have hb := hb xb rfl
      cases xa with
      | poly =>
          cases xb with
          | poly =>
              simp only [UT.mul, Option.some.injEq] at hj; subst hj
              intro k; rw [ha k, hb U.one, A.sc_mul, U.mul_one]
          | u y =>
              simp only [UT.mul, Option.some.injEq] at hj; subst hj
              intro k; rw [ha (k.div y), show b' = A.sc y b from hb, A.sc_mul, U.div_mul_cancel]
      | u x =>
          cases xb with
          | poly =>
              simp only [UT.mul, Option.some.injEq] at hj; subst hj
              intro k; rw [show a' = A.sc x a from ha, hb (k.div x), A.sc_mul, U.mul_div_cancel']
          | u y =>
              simp only [UT.mul, Option.some.injEq] at hj; subst hj
              show _ = _; rw [show a' = A.sc x a from ha, show b' = A.sc y b from hb, A.sc_mul]

theorem hom_div {ua ub : Option UT} {ut : UT} (hj : UT.div ua ub = some ut) {a' a b' b : I.S}
    (ha : ∀ u, ua = some u → Hom A u a' a) (hb : ∀ u, ub = some u → Hom A u b' b) :
    Hom A ut (I.div a' b') (I.div a b) := by
  cases ua with
  | none => simp [UT.div] at hj
  | some xa =>
    cases ub with
    | none => cases xa <;> simp [UT.div] at hj
    | some xb =>
      have ha := ha xa rfl
      have hb := hb xb rfl
      cases xa with
      | poly =>
          cases xb with
          | poly =>
              simp only [UT.div, Option.some.injEq] at hj; subst hj
              intro k; rw [ha k, hb U.one, A.sc_div, U.div_one]
          | u y =>
              simp only [UT.div, Option.some.injEq] at hj; subst hj
              intro k; rw [ha (k.mul y), show b' = A.sc y b from hb, A.sc_div, U.mul_div_cancel]
      | u x =>
          cases xb with
          | poly =>
              simp only [UT.div, Option.some.injEq] at hj; subst hj
              intro k; rw [show a' = A.sc x a from ha, hb (x.div k), A.sc_div, U.div_div_cancel]
          | u y =>
              simp only [UT.div, Option.some.injEq] at hj; subst hj
              show _ = _; rw [show a' = A.sc x a from ha, show b' = A.sc y b from hb, A.sc_div]

theorem dimlessOp_spec {ua ub : Option UT} {ut : UT} (hj : UT.dimlessOp ua ub = some ut) :
    ut = .u U.one ∧ ∃ xa xb, ua = some xa ∧ ub = some xb ∧ xa.dimless = true ∧ xb.dimless = true := by
  cases ua with
  | none => simp [UT.dimlessOp] at hj
  | some xa =>
    cases ub with
    | none => simp [UT.dimlessOp] at hj
    | some xb =>
      simp only [UT.dimlessOp] at hj
      split at hj
      · next hd =>
          simp only [Bool.and_eq_true] at hd
          simp only [Option.some.injEq] at hj
          exact ⟨hj.symm, xa, xb, rfl, rfl, hd.1, hd.2⟩
      · cases hj

variable {r tv : Bool} {ρ ρ' : Name → I.S}

/-- **homogeneity**: a well-united expression, evaluated at the rescaled parameters (and the rescaled time), is its value
    rescaled by its unit -/
theorem evalS_hom (hρ : ∀ n u, paramUnit n = some u → ρ' n = A.sc (u.ref r) (ρ n)) {τ τ' : I.S}
    (hτ : tv = true → τ' = A.sc U.Time τ) (e : Expr) :
    ∀ ut, unitOf r tv e = some ut → Hom A ut (evalS I ρ' τ' e) (evalS I ρ τ e) := by
  induction e with
  | param n =>
      intro ut h
      simp only [unitOf, Option.map_eq_some_iff] at h
      obtain ⟨u, hu, rfl⟩ := h
      exact hρ n u hu
  | tvar =>
      intro ut h
      simp only [unitOf] at h
      split at h
      · next htv => simp only [Option.some.injEq] at h; subst h; exact hτ htv
      · cases h
  | lit a b =>
      intro ut h
      simp only [unitOf] at h
      split at h
      · next ha =>
          have ha : a = 0 := by simpa using ha
          subst ha
          simp only [Option.some.injEq] at h; subst h
          intro k; show I.lit 0 b = A.sc k (I.lit 0 b); rw [A.sc_zero]
      · simp only [Option.some.injEq] at h; subst h
        show I.lit a b = A.sc U.one (I.lit a b); rw [A.sc_one]
  | neg e ih =>
      intro ut h
      have := ih ut h
      cases ut with
      | poly => intro k; show I.neg _ = _; rw [this k, A.sc_neg]; rfl
      | u a => show I.neg _ = _; rw [show evalS I ρ' τ' e = A.sc a (evalS I ρ τ e) from this, A.sc_neg]; rfl
  | add a b iha ihb => intro ut h; exact hom_join A I.add A.sc_add h iha ihb
  | sub a b iha ihb => intro ut h; exact hom_join A I.sub A.sc_sub h iha ihb
  | mul a b iha ihb => intro ut h; exact hom_mul A h iha ihb
  | div a b iha ihb => intro ut h; exact hom_div A h iha ihb
  | pow a b iha ihb =>
      intro ut h
      obtain ⟨rfl, xa, xb, hxa, hxb, hda, hdb⟩ := dimlessOp_spec h
      show I.pow _ _ = A.sc U.one (I.pow _ _)
      rw [A.sc_one, (iha xa hxa).of_dimless A hda, (ihb xb hxb).of_dimless A hdb]
  | call1 f e ih =>
      intro ut h
      obtain ⟨rfl, xa, xb, hxa, _, hda, _⟩ := dimlessOp_spec h
      show I.call1 f _ = A.sc U.one (I.call1 f _)
      rw [A.sc_one, (ih xa hxa).of_dimless A hda]
  | sym s => intro ut h; simp [unitOf] at h
  | lam b _ => intro ut h; simp [unitOf] at h
  | app f a _ _ => intro ut h; simp [unitOf] at h
  | tnil => intro ut h; simp [unitOf] at h
  | tcons hd tl _ _ => intro ut h; simp [unitOf] at h

theorem scalarShape_of_unitOf {e : Expr} {ut : UT} (h : unitOf r tv e = some ut) : scalarShape e = true := by
  cases e <;> first | rfl | (simp [unitOf] at h)

/-- rescaled values: a number by its unit; a size function `f' (sc Time τ) = sc u (f τ)` -/
def ValHom (ut : UT) : Val I.S → Val I.S → Prop
  | .scalar x', .scalar x => Hom A ut x' x
  | .fn f', .fn f => ∀ τ, Hom A ut (f' (A.sc U.Time τ)) (f τ)
  | _, _ => False

theorem evalV_hom (hρ : ∀ n u, paramUnit n = some u → ρ' n = A.sc (u.ref r) (ρ n)) (e : Expr) (ut : UT)
    (h : argUnit r e = some ut) : ValHom A ut (evalV I ρ' e) (evalV I ρ e) := by
  cases e with
  | lam b =>
      intro τ
      exact evalS_hom A hρ (fun _ => rfl) b ut h
  | tnil => simp [argUnit, unitOf] at h
  | tcons hd tl => simp [argUnit, unitOf] at h
  | _ =>
      all_goals
        show Hom A ut (evalS I ρ' (I.sym (nm! "t")) _) (evalS I ρ (I.sym (nm! "t")) _)
        exact evalS_hom A (tv := false) hρ (fun h => by cases h) _ ut h

/-- an expression without parameters has the same value at every valuation -/
theorem evalS_noParams (ρ ρ' : Name → I.S) (τ τ' : I.S) (e : Expr) (h : noParams e = true) :
    evalS I ρ' τ' e = evalS I ρ τ e := by
  induction e with
  | param n => cases h
  | tvar => cases h
  | neg e ih => simp only [evalS, ih h]
  | add a b iha ihb => simp only [noParams, Bool.and_eq_true] at h; simp only [evalS, iha h.1, ihb h.2]
  | sub a b iha ihb => simp only [noParams, Bool.and_eq_true] at h; simp only [evalS, iha h.1, ihb h.2]
  | mul a b iha ihb => simp only [noParams, Bool.and_eq_true] at h; simp only [evalS, iha h.1, ihb h.2]
  | div a b iha ihb => simp only [noParams, Bool.and_eq_true] at h; simp only [evalS, iha h.1, ihb h.2]
  | pow a b iha ihb => simp only [noParams, Bool.and_eq_true] at h; simp only [evalS, iha h.1, ihb h.2]
  | call1 f e ih => simp only [evalS, ih h]
  | _ => rfl

theorem evalTuple_noParams (ρ ρ' : Name → I.S) (e : Expr) (h : noParams e = true) :
    evalTuple I ρ' e = evalTuple I ρ e := by
  induction e with
  | tcons hd tl _ iht =>
      simp only [noParams, Bool.and_eq_true] at h
      simp only [evalTuple, iht h.2]
      rw [evalS_noParams ρ ρ' _ _ hd h.1]
  | _ => rfl

theorem evalV_noParams (ρ ρ' : Name → I.S) (e : Expr) (h : noParams e = true) : evalV I ρ' e = evalV I ρ e := by
  cases e with
  | lam b => show Val.fn _ = Val.fn _; congr 1; funext τ; exact evalS_noParams ρ ρ' τ τ b h
  | tnil => rfl
  | tcons hd tl => show Val.tup _ = Val.tup _; congr 1; exact evalTuple_noParams ρ ρ' _ h
  | param n => cases h
  | tvar => cases h
  | _ => all_goals exact congrArg Val.scalar (evalS_noParams ρ ρ' _ _ _ h)

theorem evalTuple_dimless (hρ : ∀ n u, paramUnit n = some u → ρ' n = A.sc (u.ref r) (ρ n)) (e : Expr)
    (h : tupleAll (dimlessE r) e = true) : evalTuple I ρ' e = evalTuple I ρ e := by
  induction e with
  | tcons hd tl _ iht =>
      simp only [tupleAll, Bool.and_eq_true] at h
      simp only [evalTuple, iht h.2]
      congr 1
      have hd' := h.1
      unfold dimlessE at hd'
      cases hu : unitOf r false hd with
      | none => rw [hu] at hd'; cases hd'
      | some ut =>
          rw [hu] at hd'
          exact (evalS_hom A (tv := false) hρ (fun h => by cases h) hd ut hu).of_dimless A hd'
  | _ => rfl

/-- the arguments of a call, rescaled keyword by keyword: a number by the unit its keyword expects, everything else
    unchanged -/
def ArgsHom (r : Bool) : List (Name × Val I.S) → List (Name × Val I.S) → Prop
  | [], [] => True
  | (k', v') :: l', (k, v) :: l =>
      k' = k ∧
      (match kwExpected k with
       | some (.num u) => ValHom A (.u (u.ref r)) v' v ∨ ValHom A .poly v' v
       | _ => v' = v) ∧
      ArgsHom r l' l
  | _, _ => False

theorem tupleAll_shape {p : Expr → Bool} {e : Expr} (h : tupleAll p e = true) : scalarShape e = false := by
  cases e <;> first | rfl | (simp [tupleAll] at h)

theorem evalArgs_hom (hρ : ∀ n u, paramUnit n = some u → ρ' n = A.sc (u.ref r) (ρ n)) (args : List (Name × Expr))
    (h : args.all (fun a => kwOK r a.1 a.2) = true) : ArgsHom A r (evalArgs I ρ' args) (evalArgs I ρ args) := by
  induction args with
  | nil => trivial
  | cons a rest ih =>
      obtain ⟨k, e⟩ := a
      simp only [List.all_cons, Bool.and_eq_true] at h
      refine ⟨rfl, ?_, ih h.2⟩
      have hk := h.1
      simp only [kwOK] at hk
      cases hkw : kwExpected k with
      | none => rw [hkw] at hk; cases hk
      | some kk =>
          rw [hkw] at hk
          cases kk with
          | num u =>
              simp only at hk ⊢
              cases hu : argUnit r e with
              | none => rw [hu] at hk; cases hk
              | some ut =>
                  rw [hu] at hk
                  have hv := evalV_hom A hρ e ut hu
                  cases ut with
                  | poly => exact Or.inr hv
                  | u x =>
                      have : x = u.ref r := by simpa [UT.fits] using hk
                      subst this
                      exact Or.inl hv
          | tupleDimless =>
              simp only at hk ⊢
              cases e with
              | tnil => rfl
              | tcons hd tl => show Val.tup _ = Val.tup _; congr 1; exact evalTuple_dimless A hρ _ hk
              | _ => simp [tupleAll] at hk
          | other =>
              simp only [Bool.and_eq_true] at hk ⊢
              exact evalV_noParams ρ ρ' e hk.2

/-- the primitives are invariant under the rescaling of their keywords -/
structure PrimScaleLawful (I : Interp) (A : UnitAction I) (r : Bool) : Prop where
  start_eq : ∀ fn args' args, ArgsHom A r args' args → I.start fn args' = I.start fn args
  step_eq : ∀ fn φ args' args, ArgsHom A r args' args → I.step fn φ args' = I.step fn φ args
  finish_eq : ∀ fn φ args' args, ArgsHom A r args' args → I.finish fn φ args' = I.finish fn φ args

variable (hP : PrimScaleLawful I A r) (hρ : ∀ n u, paramUnit n = some u → ρ' n = A.sc (u.ref r) (ρ n))

include hP hρ in
theorem runSteps_scale (cs : List Call) (h : cs.all (callOK r) = true) (φ : I.Φ) :
    runSteps I ρ' φ cs = runSteps I ρ φ cs := by
  induction cs generalizing φ with
  | nil => rfl
  | cons c rest ih =>
      simp only [List.all_cons, Bool.and_eq_true] at h
      unfold runSteps
      rw [hP.step_eq c.fn φ _ _ (evalArgs_hom A hρ c.args h.1)]
      cases I.step c.fn φ (evalArgs I ρ c.args) with
      | none => rfl
      | some φ' => exact ih h.2 φ'

include hP hρ in
theorem runRun_scale (x : Run) (h : runOK r x = true) : runRun I ρ' x = runRun I ρ x := by
  simp only [runOK, Bool.and_eq_true] at h
  unfold runRun
  rw [hP.start_eq x.start.fn _ _ (evalArgs_hom A hρ x.start.args h.1.1)]
  cases I.start x.start.fn (evalArgs I ρ x.start.args) with
  | none => rfl
  | some φ =>
      simp only
      rw [runSteps_scale A hP hρ x.steps h.1.2 φ]
      cases runSteps I ρ φ x.steps with
      | none => rfl
      | some φ' => exact hP.finish_eq x.fin.fn φ' _ _ (evalArgs_hom A hρ x.fin.args h.2)

include hP hρ in
/-- **program-level scale invariance**: a well-united trace means the same at the rescaled parameters -/
theorem runTr_scale (t : Tr) (h : unitsTr r t = true) : runTr I ρ' t = runTr I ρ t := by
  induction t with
  | leaf x => exact runRun_scale A hP hρ x h
  | ite c a b iha ihb =>
      simp only [unitsTr, Bool.and_eq_true] at h
      obtain ⟨k, hl, hr⟩ := hom_common A (ua := unitOf r false c.lhs) (ub := unitOf r false c.rhs) h.1.1
        (fun u hu => evalS_hom A (tv := false) hρ (τ := I.sym (nm! "t")) (τ' := I.sym (nm! "t")) (fun h => by cases h) c.lhs u hu)
        (fun u hu => evalS_hom A (tv := false) hρ (τ := I.sym (nm! "t")) (τ' := I.sym (nm! "t")) (fun h => by cases h) c.rhs u hu)
      unfold runTr
      rw [hl, hr, A.sc_cmp, iha h.1.2, ihb h.2]

end Hom

/-! ## the reference size made explicit -/
section RefExplicit
variable {I : Interp} (hmul : ∀ x, I.mul (I.lit 1 1) x = x) {ρ : Name → I.S}
  (hN : ρ (nm! "Nref") = I.lit 1 1) (hθ : ρ (nm! "theta_ref") = I.lit 1 1)

include hmul in
theorem evalV_timesRef (ref : Name) (href : ρ ref = I.lit 1 1) (e : Expr) (hs : scalarShape e = true ∨ ∃ b, e = .lam b) :
    evalV I ρ (timesRef (.param ref) e) = evalV I ρ e := by
  rcases hs with hs | ⟨b, rfl⟩
  · have : timesRef (.param ref) e = .mul (.param ref) e := by
      cases e <;> first | rfl | (simp [scalarShape] at hs)
    rw [this, evalV_of_scalarShape ρ e hs]
    show Val.scalar (I.mul (ρ ref) _) = _
    rw [href, hmul]
  · show Val.fn _ = Val.fn _
    congr 1; funext τ
    show I.mul (ρ ref) _ = _
    rw [href, hmul]

include hmul hN hθ in
theorem evalV_refExplicitArg (k : Name) (e : Expr) : evalV I ρ (refExplicitArg k e) = evalV I ρ e := by
  unfold refExplicitArg
  split
  · next u x _ hu =>
      have hs : scalarShape e = true ∨ ∃ b, e = .lam b := by
        cases e with
        | lam b => exact Or.inr ⟨b, rfl⟩
        | _ => exact Or.inl (by first | rfl | (simp [argUnit, unitOf] at hu))
      split
      · exact evalV_timesRef hmul _ hN e hs
      · split
        · exact evalV_timesRef hmul _ hθ e hs
        · rfl
  · rfl

include hmul hN hθ in
theorem evalArgs_refExplicit (args : List (Name × Expr)) : evalArgs I ρ (refExplicitArgs args) = evalArgs I ρ args := by
  induction args with
  | nil => rfl
  | cons a rest ih =>
      obtain ⟨k, e⟩ := a
      simp only [refExplicitArgs, evalArgs, ih, evalV_refExplicitArg hmul hN hθ]

include hmul hN hθ in
theorem runSteps_refExplicit (cs : List Call) (φ : I.Φ) :
    runSteps I ρ φ (cs.map refExplicitCall) = runSteps I ρ φ cs := by
  induction cs generalizing φ with
  | nil => rfl
  | cons c rest ih =>
      simp only [List.map_cons]
      unfold runSteps
      simp only [refExplicitCall, evalArgs_refExplicit hmul hN hθ]
      cases I.step c.fn φ (evalArgs I ρ c.args) with
      | none => rfl
      | some φ' => exact ih φ'

include hmul hN hθ in
/-- at `Nref = 1`, `theta_ref = 1` the reference-explicit trace means what the trace means -/
theorem runTr_refExplicit (t : Tr) : runTr I ρ (refExplicit t) = runTr I ρ t := by
  induction t with
  | leaf x =>
      show runRun I ρ (refExplicitRun x) = runRun I ρ x
      unfold runRun
      show (match I.start x.start.fn (evalArgs I ρ (refExplicitArgs x.start.args)) with
            | some φ =>
                match runSteps I ρ φ (x.steps.map refExplicitCall) with
                | some φ' => I.finish x.fin.fn φ' (evalArgs I ρ (refExplicitArgs x.fin.args))
                | none => none
            | none => none) = _
      rw [evalArgs_refExplicit hmul hN hθ, evalArgs_refExplicit hmul hN hθ]
      cases I.start x.start.fn (evalArgs I ρ x.start.args) with
      | none => rfl
      | some φ =>
          simp only
          rw [runSteps_refExplicit hmul hN hθ x.steps φ]
          rfl
  | ite c a b iha ihb => simp only [refExplicit, runTr, iha, ihb]

end RefExplicit

end DadiVerif.ModelDSL
