import DadiVerif.Lemmas.DataDictSpec
import DadiVerif.Lemmas.DataDictPol
import Mathlib.Data.Nat.Choose.Cast
/-! Infrastructure for C13, part 3: the genotype matrix (Boolean columns), the data-dictionary entry of a fully
    called SNP, the spectrum of a fully called data set as a count of columns, discordant pairs. -/
namespace DadiVerif.DataDict
open Finset DadiVerif.Gen.DD

theorem countTrue_add_countFalse (col : List Bool) : countTrue col + countFalse col = col.length := by
  induction col with
  | nil => rfl
  | cons b t ih =>
    cases b <;> simp only [countTrue, countFalse, List.filter_cons, id, Bool.not_true, Bool.not_false,
      if_true, List.length_cons] at ih ⊢ <;> simp <;> omega

theorem countTrue_le (col : List Bool) : countTrue col ≤ col.length := by
  have := countTrue_add_countFalse col; omega

theorem any_id_iff (col : List Bool) : col.any id = true ↔ 0 < countTrue col := by
  induction col with
  | nil => simp [countTrue]
  | cons b t ih => cases b <;> simp [countTrue] at ih ⊢

theorem any_not_iff (col : List Bool) : col.any (fun b => !b) = true ↔ 0 < countFalse col := by
  induction col with
  | nil => simp [countFalse]
  | cons b t ih => cases b <;> simp [countFalse] at ih ⊢

/-- a column is segregating iff its derived count is strictly between 0 and the number of chromosomes -/
theorem isSeg_iff (col : List Bool) : isSeg col = true ↔ 0 < countTrue col ∧ countTrue col < col.length := by
  have := countTrue_add_countFalse col
  simp only [isSeg, Bool.and_eq_true, any_id_iff, any_not_iff]
  omega

/-- a column with `i` derived alleles among `n` chromosomes has `i·(n−i)` discordant pairs -/
theorem discordant_eq (l : List Bool) : discordant l = countTrue l * countFalse l := by
  induction l with
  | nil => rfl
  | cons b rest ih =>
    cases b
    · have e : rest.filter (· != false) = rest.filter id := by
        apply List.filter_congr; intro x _; cases x <;> rfl
      simp only [discordant, e, ih, countTrue, countFalse, List.filter_cons]
      simp
      ring
    · have e : rest.filter (· != true) = rest.filter (fun b => !b) := by
        apply List.filter_congr; intro x _; cases x <;> rfl
      simp only [discordant, e, ih, countTrue, countFalse, List.filter_cons]
      simp
      ring

/-! ### the dictionary entry of a fully called, polarised SNP -/

theorem snpOfCols_polRow (cols : List (List Bool)) : (snpOfCols cols).polRow = (true, some 2) := by
  show Snp.polLookup (Snp.canonKey (some 1) 1 4) = (true, some 2)
  decide

theorem snpOfCols_polarized (cols : List (List Bool)) : (snpOfCols cols).polarized = true := by
  simp [Snp.polarized, snpOfCols_polRow]

theorem snpOfCols_derived (cols : List (List Bool)) : (snpOfCols cols).derived = cols.map countTrue := by
  have hsel : (snpOfCols cols).derivedSel = some 2 := by simp [Snp.derivedSel, snpOfCols_polRow]
  simp only [Snp.derived, hsel]
  simp [snpOfCols, Snp.pick]

theorem snpOfCols_successful (cols : List (List Bool)) : (snpOfCols cols).successful = cols.map List.length := by
  simp only [Snp.successful, snpOfCols, List.map_map, successfulCalls]
  apply List.map_congr_left
  intro c _
  have := countTrue_add_countFalse c
  simp only [Function.comp]
  omega

/-- without projection the product of rows is the indicator of the derived-count vector -/
theorem prodW_full (ns is idx : List ℕ) (h2 : is.length = ns.length) (hle : List.Forall₂ (· ≤ ·) is ns)
    (hidx : InBox idx (shapeOf ns)) : prodW ns ns is idx = if idx = is then 1 else 0 := by
  induction ns generalizing is idx with
  | nil =>
    have : is = [] := List.length_eq_zero_iff.mp h2
    subst this
    cases idx with
    | nil => simp [prodW]
    | cons _ _ => exact absurd hidx (by simp [InBox, shapeOf])
  | cons n ns ih =>
    match is, idx, h2, hle, hidx with
    | i :: is, j :: js, h2, hle, hidx =>
      rw [List.forall₂_cons] at hle
      simp only [prodW, weightArgs]
      rw [projWeight_full n i j hle.1, ih is js (by simpa using h2) hle.2 hidx.2]
      by_cases e1 : j = i
      · by_cases e2 : js = is
        · simp [e1, e2]
        · simp [e1, e2]
      · simp [e1]
    | [], _, h2, _, _ => simp at h2
    | _ :: _, [], _, _, hidx => exact absurd hidx (by simp [InBox, shapeOf])

theorem forall₂_countTrue_le (cols : List (List Bool)) :
    List.Forall₂ (· ≤ ·) (cols.map countTrue) (cols.map List.length) := by
  induction cols with
  | nil => exact List.Forall₂.nil
  | cons c t ih => exact List.Forall₂.cons (countTrue_le c) ih

/-- contribution of a fully called SNP to a spectrum of the full sample sizes: 1 at its derived-count vector -/
theorem contribAt_snpOfCols (ns : List ℕ) (cols : List (List Bool)) (hlen : cols.map List.length = ns)
    (idx : List ℕ) (hidx : InBox idx (shapeOf ns)) :
    contribAt true ns (snpOfCols cols) idx = if idx = cols.map countTrue then 1 else 0 := by
  have h1 : (snpOfCols cols).nseg = biallelicLen := rfl
  simp only [contribAt, h1, ne_eq, not_true_eq_false, if_false, snpOfCols_polarized, skipEntry,
    Bool.not_true, Bool.and_false, Bool.false_eq_true, snpOfCols_derived, snpOfCols_successful, hlen]
  apply prodW_full ns (cols.map countTrue) idx
  · rw [← hlen]; simp
  · rw [← hlen]; exact forall₂_countTrue_le cols
  · exact hidx

/-- **direct counting**: the spectrum of a fully called, polarised data set at `idx` is the number of SNPs whose
    vector of derived counts is `idx` -/
theorem spectrumAt_full (ns : List ℕ) (mcols : List (List (List Bool)))
    (hlen : ∀ cols ∈ mcols, cols.map List.length = ns) (idx : List ℕ) (hidx : InBox idx (shapeOf ns)) :
    spectrumAt true ns (mcols.map snpOfCols) idx
      = sumMap mcols (fun cols => if idx = cols.map countTrue then 1 else 0) := by
  simp only [spectrumAt, specAt, if_true, rawAt_countDict, sumMap_map]
  apply sumMap_congr
  intro cols hc
  exact contribAt_snpOfCols ns cols (hlen cols hc) idx hidx

theorem inBox_counts (ns : List ℕ) (cols : List (List Bool)) (hlen : cols.map List.length = ns) :
    InBox (cols.map countTrue) (shapeOf ns) := by
  subst hlen
  induction cols with
  | nil => trivial
  | cons c t ih =>
    refine ⟨?_, ih⟩
    show countTrue c < c.length + 1
    have := countTrue_le c
    omega

/-- Σ_idx f(idx)·g(idx) over the box, for the spectrum of a fully called data set, is Σ_SNPs g(counts) -/
theorem boxSum_full_mul (ns : List ℕ) (mcols : List (List (List Bool)))
    (hlen : ∀ cols ∈ mcols, cols.map List.length = ns) (g : List ℕ → ℚ) :
    boxSum (shapeOf ns) (fun idx => spectrumAt true ns (mcols.map snpOfCols) idx * g idx)
      = sumMap mcols (fun cols => g (cols.map countTrue)) := by
  have h1 : boxSum (shapeOf ns) (fun idx => spectrumAt true ns (mcols.map snpOfCols) idx * g idx)
      = boxSum (shapeOf ns) (fun idx => sumMap mcols (fun cols => if idx = cols.map countTrue then g idx else 0)) := by
    apply boxSum_congr
    intro idx hidx
    rw [spectrumAt_full ns mcols hlen idx hidx, ← sumMap_mul_right]
    apply sumMap_congr
    intro cols _
    split_ifs <;> simp
  rw [h1, boxSum_sumMap]
  apply sumMap_congr
  intro cols hc
  exact boxSum_delta (shapeOf ns) (cols.map countTrue) (inBox_counts ns cols (hlen cols hc)) g

/-- one population: Σ_{i ≤ n} w(i)·f(i) = Σ_columns w(derived count) -/
theorem sumRange_full_mul (n : ℕ) (cols : List (List Bool)) (hlen : ∀ c ∈ cols, c.length = n) (w : ℕ → ℚ) :
    sumRange (n + 1) (fun i => w i * spectrumAt true [n] (cols.map fun c => snpOfCols [c]) [i])
      = sumMap cols (fun c => w (countTrue c)) := by
  have := boxSum_full_mul [n] (cols.map fun c => [c]) (by
    intro x hx
    obtain ⟨c, hc, rfl⟩ := List.mem_map.mp hx
    simp [hlen c hc]) (fun idx => w (idx.headD 0))
  simp only [shapeOf, List.map_cons, List.map_nil, boxSum, List.map_map, sumMap_map] at this
  simp only [Function.comp_def, List.headD_cons] at this
  rw [← this]
  apply sumRange_congr
  intro i _
  ring

end DadiVerif.DataDict
