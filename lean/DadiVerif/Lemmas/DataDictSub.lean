import DadiVerif.Lemmas.DataDictDict
/-! Infrastructure for C13, part 9: the sub-sampling pass over ALL lines (`ddSub`: `make_data_dict_vcf(subsample=…)`), which threads
    the recorded draws through the lines.  `SubPass` says what the pass is, line by line: a line that is not a SNP line is skipped
    and consumes nothing; a SNP line runs the per-line loop `subsampleLoop` on the draws that are left — it is dropped when the loop
    breaks (some population has too few complete genotypes) and kept, with the calls of the drawn individuals read in `pop_ids`
    order, when it completes; the entries are written to the dictionary in line order. -/
namespace DadiVerif.DataDict
open DadiVerif.Gen.DD

/-- the per-line loop: when it completes, exactly one draw per population was consumed, in order, the calls of a population are
    those of its drawn individuals, and every population had at least the requested number of complete genotypes -/
theorem subsampleLoop_spec (inds : List Indiv) (want : List (ℕ × ℕ)) (pops : List ℕ) (draws : List (List ℕ))
    (acc res : List (ℕ × (ℕ × ℕ))) (left : List (List ℕ))
    (h : subsampleLoop inds want pops draws acc = (some res, left)) :
    ∃ used, draws = used ++ left ∧ used.length = pops.length ∧
      res = acc ++ List.zipWith (fun p d => (p, chosenCalls (completeOfPop inds p) d)) pops used ∧
      ∀ p ∈ pops, wanted want p ≤ (completeOfPop inds p).length := by
  induction pops generalizing draws acc with
  | nil =>
    simp only [subsampleLoop, Prod.mk.injEq, Option.some.injEq] at h
    exact ⟨[], by simp [h.2], rfl, by simp [h.1], by simp⟩
  | cons p ps ih =>
    simp only [subsampleLoop] at h
    split_ifs at h with hlt
    · simp at h
    · cases draws with
      | nil => simp at h
      | cons d ds =>
        simp only at h
        obtain ⟨used, h1, h2, h3, h4⟩ := ih ds (acc ++ [(p, chosenCalls (completeOfPop inds p) d)]) h
        refine ⟨d :: used, by simp [h1], by simp [h2], ?_, ?_⟩
        · rw [h3]; simp
        · intro q hq
          rcases List.mem_cons.mp hq with e | e
          · subst e; omega
          · exact h4 q e

/-- the draws handed to the populations `pops` of one line are draws `numpy.random.choice(len(genotypes), k, replace=False)` can
    return as far as the counts are concerned: `k` = the requested number of individuals, indices into the complete genotypes -/
def DrawsValid (want : List (ℕ × ℕ)) (st : Site) (draws : List (List ℕ)) : Prop :=
  ∀ pd ∈ (popOrder st.inds want).zip draws,
    pd.2.length = wanted want pd.1 ∧ ∀ ii ∈ pd.2, ii < (completeOfPop st.inds pd.1).length

/-- `calls_dict[pop]` for each requested population, from the calls the per-line loop wrote -/
def lookupCalls (calls : List (ℕ × (ℕ × ℕ))) (popIds : List ℕ) : Option (List (ℕ × ℕ)) :=
  popIds.mapM fun p => (calls.find? (·.1 == p)).map (·.2)

/-- the pass over the lines: `SubPass … sites draws es left` — reading `sites` with the draws `draws` writes the entries `es` (in
    line order) and leaves the draws `left`; `P` is a side condition on (kept line, draws it sees) -/
inductive SubPass (filt : Bool) (want : List (ℕ × ℕ)) (popIds : List ℕ) (P : Site → List (List ℕ) → Prop) :
    List Site → List (List ℕ) → List Snp → List (List ℕ) → Prop
  | nil (d : List (List ℕ)) : SubPass filt want popIds P [] d [] d
  | skip {st : Site} {rest : List Site} {d left : List (List ℕ)} {es : List Snp} :
      siteKept filt st = false → SubPass filt want popIds P rest d es left → SubPass filt want popIds P (st :: rest) d es left
  | drop {st : Site} {rest : List Site} {d d' left : List (List ℕ)} {es : List Snp} :
      siteKept filt st = true → subsampleLoop st.inds want (popOrder st.inds want) d [] = (none, d') →
      SubPass filt want popIds P rest d' es left → SubPass filt want popIds P (st :: rest) d es left
  | keep {st : Site} {rest : List Site} {d d' left : List (List ℕ)} {calls : List (ℕ × (ℕ × ℕ))} {cl : List (ℕ × ℕ)} {es : List Snp} :
      siteKept filt st = true → subsampleLoop st.inds want (popOrder st.inds want) d [] = (some calls, d') →
      lookupCalls calls popIds = some cl → P st d →
      SubPass filt want popIds P rest d' es left → SubPass filt want popIds P (st :: rest) d (siteSnp st cl :: es) left

theorem SubPass.mono {filt : Bool} {want : List (ℕ × ℕ)} {popIds : List ℕ} {P Q : Site → List (List ℕ) → Prop}
    (hPQ : ∀ st d, P st d → Q st d) {sites : List Site} {d left : List (List ℕ)} {es : List Snp}
    (h : SubPass filt want popIds P sites d es left) : SubPass filt want popIds Q sites d es left := by
  induction h with
  | nil d => exact .nil d
  | skip hk _ ih => exact .skip hk ih
  | drop hk hl _ ih => exact .drop hk hl ih
  | keep hk hl hc hp _ ih => exact .keep hk hl hc (hPQ _ _ hp) ih

/-- the model function computes the pass -/
theorem ddSub_of_subPass {filt : Bool} {want : List (ℕ × ℕ)} {popIds : List ℕ} {P : Site → List (List ℕ) → Prop}
    {sites : List Site} {d left : List (List ℕ)} {es : List Snp}
    (h : SubPass filt want popIds P sites d es left) (acc : List Snp) :
    ddSub filt want popIds sites d acc = some (mkDict (acc ++ es), left) := by
  induction h generalizing acc with
  | nil d => simp [ddSub]
  | skip hk _ ih => rw [ddSub]; simp only [hk, Bool.not_false, if_true]; exact ih acc
  | drop hk hl _ ih =>
    rw [ddSub]; simp only [hk, Bool.not_true, Bool.false_eq_true, if_false, hl]; exact ih acc
  | @keep st rest d d' left calls cl es hk hl hc _ _ ih =>
    rw [ddSub]; simp only [hk, Bool.not_true, Bool.false_eq_true, if_false, hl]
    have hc' : popIds.mapM (fun p => (calls.find? (·.1 == p)).map (·.2)) = some cl := hc
    simp only [hc']
    rw [ih (acc ++ [siteSnp st cl])]
    simp

/-- … and whatever the model function returns is a pass -/
theorem subPass_of_ddSub (filt : Bool) (want : List (ℕ × ℕ)) (popIds : List ℕ) (sites : List Site) (d : List (List ℕ))
    (acc dd : List Snp) (left : List (List ℕ)) (h : ddSub filt want popIds sites d acc = some (dd, left)) :
    ∃ es, SubPass filt want popIds (fun _ _ => True) sites d es left ∧ dd = mkDict (acc ++ es) := by
  induction sites generalizing d acc with
  | nil =>
    simp only [ddSub, Option.some.injEq, Prod.mk.injEq] at h
    exact ⟨[], by rw [← h.2]; exact .nil d, by simp [h.1]⟩
  | cons st rest ih =>
    rw [ddSub] at h
    by_cases hk : siteKept filt st = true
    · simp only [hk, Bool.not_true, Bool.false_eq_true, if_false] at h
      cases hl : subsampleLoop st.inds want (popOrder st.inds want) d [] with
      | mk res d' =>
        cases res with
        | none =>
          simp only [hl] at h
          obtain ⟨es, hp, he⟩ := ih d' acc h
          exact ⟨es, .drop hk hl hp, he⟩
        | some calls =>
          simp only [hl] at h
          cases hc : popIds.mapM (fun p => (calls.find? (·.1 == p)).map (·.2)) with
          | none => simp [hc] at h
          | some cl =>
            simp only [hc] at h
            obtain ⟨es, hp, he⟩ := ih d' (acc ++ [siteSnp st cl]) h
            exact ⟨siteSnp st cl :: es, .keep hk hl hc trivial hp, by rw [he]; simp⟩
    · have hk' : siteKept filt st = false := by simpa using hk
      simp only [hk', Bool.not_false, if_true] at h
      obtain ⟨es, hp, he⟩ := ih d acc h
      exact ⟨es, .skip hk' hp, he⟩

/-- the per-line loop only ever consumes a prefix of the draws, whether it completes or breaks -/
theorem subsampleLoop_suffix (inds : List Indiv) (want : List (ℕ × ℕ)) (pops : List ℕ) (draws : List (List ℕ))
    (acc : List (ℕ × (ℕ × ℕ))) : ∃ used, draws = used ++ (subsampleLoop inds want pops draws acc).2 ∧ used.length ≤ pops.length := by
  induction pops generalizing draws acc with
  | nil => exact ⟨[], by simp [subsampleLoop], by simp⟩
  | cons p ps ih =>
    simp only [subsampleLoop]
    split_ifs
    · exact ⟨[], by simp, by simp⟩
    · cases draws with
      | nil => exact ⟨[], by simp, by simp⟩
      | cons dr ds =>
        obtain ⟨used, h1, h2⟩ := ih ds (acc ++ [(p, chosenCalls (completeOfPop inds p) dr)])
        exact ⟨dr :: used, by simp only [List.cons_append]; rw [← h1], by simp [h2]⟩

/-- the draws are consumed in order: what is left is a suffix of what was handed in -/
theorem SubPass.suffix {filt : Bool} {want : List (ℕ × ℕ)} {popIds : List ℕ} {P : Site → List (List ℕ) → Prop}
    {sites : List Site} {d left : List (List ℕ)} {es : List Snp}
    (h : SubPass filt want popIds P sites d es left) : ∃ used, d = used ++ left := by
  induction h with
  | nil d => exact ⟨[], rfl⟩
  | skip _ _ ih => exact ih
  | @drop st rest d d' left es _ hl _ ih =>
    obtain ⟨u1, h1, _⟩ := subsampleLoop_suffix st.inds want (popOrder st.inds want) d []
    rw [hl] at h1
    obtain ⟨u2, h2⟩ := ih
    exact ⟨u1 ++ u2, by rw [h1]; simp only at *; rw [h2]; simp⟩
  | @keep st rest d d' left calls cl es _ hl _ _ _ ih =>
    obtain ⟨u1, h1, _⟩ := subsampleLoop_suffix st.inds want (popOrder st.inds want) d []
    rw [hl] at h1
    obtain ⟨u2, h2⟩ := ih
    exact ⟨u1 ++ u2, by rw [h1]; simp only at *; rw [h2]; simp⟩

/-- where the entries of a pass come from: each one is written for a SNP line in which every sub-sampled population (visited in the
    order of its first sample column) has at least the requested number of complete genotypes, with the calls `lookupCalls` reads
    from the per-line loop's result -/
theorem SubPass.kept {filt : Bool} {want : List (ℕ × ℕ)} {popIds : List ℕ} {P : Site → List (List ℕ) → Prop}
    {sites : List Site} {d left : List (List ℕ)} {es : List Snp}
    (h : SubPass filt want popIds P sites d es left) :
    ∀ s ∈ es, ∃ st ∈ sites, siteKept filt st = true ∧
      (∀ p ∈ popOrder st.inds want, wanted want p ≤ (completeOfPop st.inds p).length) ∧ ∃ cl, s = siteSnp st cl := by
  induction h with
  | nil d => intro s hs; cases hs
  | skip _ _ ih =>
    intro s hs
    obtain ⟨st, hst, r⟩ := ih s hs
    exact ⟨st, by simp [hst], r⟩
  | drop _ _ _ ih =>
    intro s hs
    obtain ⟨st, hst, r⟩ := ih s hs
    exact ⟨st, by simp [hst], r⟩
  | @keep st rest d d' left calls cl es hk hl hc _ _ ih =>
    intro s hs
    rcases List.mem_cons.mp hs with e | e
    · obtain ⟨_, _, _, _, h4⟩ := subsampleLoop_spec st.inds want _ d [] calls d' hl
      exact ⟨st, by simp, hk, h4, cl, e⟩
    · obtain ⟨st', hst, r⟩ := ih s e
      exact ⟨st', by simp [hst], r⟩

/-- every entry of a pass with valid draws over diploid 0/1 genotypes has exactly two calls per requested individual, population by
    population in `pop_ids` order -/
theorem SubPass.calls {filt : Bool} {want : List (ℕ × ℕ)} {popIds : List ℕ}
    {sites : List Site} {d left : List (List ℕ)} {es : List Snp}
    (h : SubPass filt want popIds (DrawsValid want) sites d es left)
    (hg : ∀ st ∈ sites, ∀ x ∈ st.inds, complete x = true → x.alleles.length = 2 ∧ ∀ a ∈ x.alleles, a = 0 ∨ a = 1) :
    ∀ s ∈ es, SubsampledCalls want popIds s.calls ∧ s.nseg = biallelicLen := by
  induction h with
  | nil d => intro s hs; cases hs
  | skip _ _ ih => exact ih fun st hst => hg st (by simp [hst])
  | drop _ _ _ ih => exact ih fun st hst => hg st (by simp [hst])
  | @keep st rest d d' left calls cl es hk hl hc hp _ ih =>
    intro s hs
    rcases List.mem_cons.mp hs with e | e
    · subst e
      have hcalls : ∀ pc ∈ calls, pc.2.1 + pc.2.2 = 2 * wanted want pc.1 := by
        obtain ⟨used, h1, h2, h3, _⟩ := subsampleLoop_spec st.inds want _ d [] calls d' hl
        have hz : (popOrder st.inds want).zip d = (popOrder st.inds want).zip used := by
          rw [h1]
          have := List.zip_append (l₁ := popOrder st.inds want) (r₁ := []) (l₂ := used) (r₂ := d') h2.symm
          simpa using this
        intro pc hpc
        have e : List.zipWith (fun p dr => (p, chosenCalls (completeOfPop st.inds p) dr)) (popOrder st.inds want) used
            = ((popOrder st.inds want).zip used).map (fun pd => (pd.1, chosenCalls (completeOfPop st.inds pd.1) pd.2)) := by
          rw [List.map_zip_eq_zipWith]; rfl
        rw [h3, List.nil_append, e] at hpc
        obtain ⟨pd, hpd, rfl⟩ := List.mem_map.mp hpc
        obtain ⟨hl', hi⟩ := hp pd (hz ▸ hpd)
        have hg' : ∀ x ∈ completeOfPop st.inds pd.1, x.alleles.length = 2 ∧ ∀ a ∈ x.alleles, a = 0 ∨ a = 1 := by
          intro x hx
          have := List.mem_filter.mp hx
          exact hg st (by simp) x this.1 (by simpa using (Bool.and_eq_true _ _ ▸ this.2).2)
        have := chosenCalls_total (completeOfPop st.inds pd.1) 2 hg' pd.2 hi (0, 0)
        simpa [chosenCalls, hl'] using this
      exact ⟨lookup_forall₂ want calls hcalls popIds cl hc, rfl⟩
    · exact ih (fun st' hst => hg st' (by simp [hst])) s e

end DadiVerif.DataDict
