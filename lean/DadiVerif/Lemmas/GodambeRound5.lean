import DadiVerif.Lemmas.Godambe
set_option autoImplicit false
set_option linter.unusedVariables false
namespace DadiVerif
namespace Godambe
open Gen.Godambe

/-! ### enumerate = zipIdx: the (index → degrees of freedom) pairing -/
theorem zipIdx_map_sum {α : Type} (l : List α) (n : ℕ) (f : ℕ → α → ℚ) (dflt : α) :
    ((l.zipIdx n).map fun wd => f wd.2 wd.1).sum = ((List.range l.length).map fun k => f (n + k) (l.getD k dflt)).sum := by
  induction l generalizing n with
  | nil => simp
  | cons a t ih =>
    rw [List.zipIdx_cons, List.map_cons, List.sum_cons, ih (n + 1), List.length_cons, List.range_succ_eq_map, List.map_cons, List.sum_cons,
      List.map_map]
    have e : (fun k => f (n + 1 + k) (t.getD k dflt)) = ((fun k => f (n + k) ((a :: t).getD k dflt)) ∘ Nat.succ) := by
      funext k
      simp only [Function.comp, Nat.succ_eq_add_one]
      rw [show n + 1 + k = n + (k + 1) by omega]
      simp
    rw [e]
    simp

/-! ### the cache with theta_adjust -/
section CacheAdj
variable {ω π ν κ : Type} [DecidableEq κ] [DecidableEq π]

theorem runCacheAdj_fresh_sound (skip : Bool) (smul : ℚ → ν → ν) (keyOf : ω → κ) (sem : ω → π → ν)
    (hdet : ∀ o o' k, keyOf o = keyOf o' → sem o k = sem o' k) :
    ∀ (ops : List (ω × π × ℚ)) (c : Memo (κ × π) ν), CacheSound keyOf sem c →
      (runCacheAdjWith true skip smul keyOf sem c ops).2 = ops.map (fun op => smul op.2.2 (sem op.1 op.2.1))
      ∧ CacheSound keyOf sem (runCacheAdjWith true skip smul keyOf sem c ops).1 := by
  intro ops
  induction ops with
  | nil => intro c hc; exact ⟨rfl, hc⟩
  | cons op ops ih =>
    intro c hc
    obtain ⟨o, k, a⟩ := op
    cases hl : Memo.lookup c (keyOf o, k) with
    | some w =>
      have hw : w = sem o k := by
        obtain ⟨o', h1, h2⟩ := hc _ (lookup_mem c _ _ hl)
        simp only at h1 h2
        rw [h2]; exact hdet o' o k h1
      simp only [runCacheAdjWith, Memo.call, hl, List.map_cons, Bool.not_true, Bool.false_and, Bool.true_or, if_true]
      obtain ⟨i1, i2⟩ := ih c hc
      exact ⟨by rw [i1, hw]; simp, i2⟩
    | none =>
      have hc' : CacheSound keyOf sem (((keyOf o, k), sem o k) :: c) := by
        intro e he
        rcases List.mem_cons.mp he with rfl | he'
        · exact ⟨o, rfl, rfl⟩
        · exact hc e he'
      simp only [runCacheAdjWith, Memo.call, hl, List.map_cons, Bool.not_true, Bool.false_and, Bool.true_or, if_true]
      obtain ⟨i1, i2⟩ := ih _ hc'
      exact ⟨by rw [i1]; simp, i2⟩
end CacheAdj

/-! ### corners of a P-population spectrum in the flat array -/
theorem flatIdx_go_zero (acc : ℕ) (shape : List ℕ) : flatIdx.go (acc) shape (shape.map fun _ => 0) = acc * shape.prod := by
  induction shape generalizing acc with
  | nil => simp [flatIdx.go]
  | cons n ns ih => simp only [List.map_cons, flatIdx.go, ih, List.prod_cons]; ring

theorem flatIdx_go_last (acc : ℕ) (shape : List ℕ) (hpos : ∀ n ∈ shape, 0 < n) :
    flatIdx.go acc shape (shape.map (· - 1)) + 1 = (acc + 1) * shape.prod := by
  induction shape generalizing acc with
  | nil => simp [flatIdx.go]
  | cons n ns ih =>
    have hn : 0 < n := hpos n (by simp)
    simp only [List.map_cons, flatIdx.go, List.prod_cons]
    rw [ih _ (fun m hm => hpos m (by simp [hm]))]
    have : acc * n + (n - 1) + 1 = (acc + 1) * n := by
      have : n - 1 + 1 = n := Nat.sub_add_cancel hn
      calc acc * n + (n - 1) + 1 = acc * n + (n - 1 + 1) := by ring
        _ = (acc + 1) * n := by rw [this]; ring
    rw [this]; ring

/-! ### `Spectrum.fold` is linear in the entries (generated pointwise programs) -/
theorem foldVal_linear (shape : List ℕ) (x y : List ℚ) (mm : List Bool) (c : ℚ) (hlen : x.length = y.length) (z : List ℚ)
    (hz : z.length = x.length) (hzv : ∀ k, z.getD k 0 = x.getD k 0 + c * y.getD k 0) (k : ℕ) :
    foldVal shape z mm k = foldVal shape x mm k + c * foldVal shape y mm k := by
  unfold foldVal
  rw [hz, ← hlen]
  simp only [Gen.Fold.fold_outData, Gen.Fold.fold_folded_3, Gen.Fold.fold_folded_2, Gen.Fold.fold_folded_1, Gen.Fold.fold_reversed_1,
    Gen.Fold.fold_ambiguous_1, Gen.Fold.fold_where_ambiguous_1, Gen.Fold.fold_where_folded_out_1, hzv]
  by_cases h1 : totalOf shape k > totalSamples shape / 2 <;>
  by_cases h2 : totalOf shape (x.length - 1 - k) > totalSamples shape / 2 <;>
  by_cases h3 : ((totalOf shape k : ℕ) : ℚ) = (totalSamples shape : ℚ) / 2 <;>
  by_cases h4 : ((totalOf shape (x.length - 1 - k) : ℕ) : ℚ) = (totalSamples shape : ℚ) / 2 <;>
  simp [h1, h2, h3, h4] <;> ring

theorem foldMask_indep (shape : List ℕ) (x y : List ℚ) (mm : List Bool) (hlen : x.length = y.length) (k : ℕ) :
    foldMask shape x mm k = foldMask shape y mm k := by
  unfold foldMask
  rw [hlen]
  simp only [Gen.Fold.fold_outMask, Gen.Fold.fold_final_mask_2, Gen.Fold.fold_final_mask_1, Gen.Fold.fold_where_folded_out_1]

end Godambe
end DadiVerif
