import DadiVerif.Lemmas.FromPhiLimit
import Mathlib.Algebra.Polynomial.Coeff
import Mathlib.Algebra.Polynomial.Eval.Defs
import Mathlib.Data.Nat.Choose.Sum
import Mathlib.Data.Nat.Choose.Bounds
import Mathlib.Algebra.BigOperators.Group.Multiset.Basic
/-! C05, round 5 — the convolution over individuals (`Numerics.BetaBinomConvolution`) in the limit F → 0⁺.

(1) `conv_binom`: the convolution of `m` binomial(P, y) laws — written as the code writes it, a sum over the partitions listed
    by `Numerics.part` with multinomial coefficients of the value counts — is the binomial(P·m, y) law.  Proof: generating
    polynomial Σ_v B_{P,v}(y) X^v = (yX + 1 − y)^P, multinomial theorem in ℚ[X], coefficient of X^i.
(2) `betaBinomConv_sub_bern`: |BetaBinomConvolution(i, m, y·c, (1−y)·c, P) − B_{P·m,i}(y)| ≤ (P+1)^m · m · 2^P · P² / c. -/
namespace DadiVerif.FromPhi
open Finset Polynomial

/-! ### Σ_v v · count_v = sum of the vector -/

theorem sum_mul_count_eq_sum (q : List ℕ) (P : ℕ) (h : ∀ v ∈ q, v ≤ P) : ∑ v ∈ range (P+1), v * q.count v = q.sum := by
  have h1 := Finset.sum_multiset_count (q : Multiset ℕ)
  simp only [Multiset.sum_coe, Multiset.coe_count, smul_eq_mul] at h1
  rw [h1, sum_congr rfl (fun v _ => Nat.mul_comm v (q.count v))]
  symm
  apply Finset.sum_subset
  · intro v hv
    rw [Multiset.mem_toFinset, Multiset.mem_coe] at hv
    exact mem_range.mpr (by have := h v hv; omega)
  · intro v _ hv
    rw [Multiset.mem_toFinset, Multiset.mem_coe] at hv
    rw [List.count_eq_zero_of_not_mem hv, zero_mul]

/-! ### the partitions with a given total inside all partitions -/

theorem filter_allParts (m P i : ℕ) : (allParts m P).filter (fun q => q.sum = i) = (part m i 0 P).toFinset := by
  ext q
  simp only [mem_filter, mem_allParts, List.mem_toFinset, mem_part]
  constructor
  · rintro ⟨⟨hl, hb, hp⟩, hs⟩
    exact ⟨hl, hs, fun v hv => ⟨Nat.zero_le _, hb v hv⟩, hp⟩
  · rintro ⟨hl, hs, hb, hp⟩
    exact ⟨⟨hl, fun v hv => (hb v hv).2, hp⟩, hs⟩

theorem sumL_part_eq (m P i : ℕ) (T : List ℕ → ℚ) :
    sumL ((part m i 0 P).map T) = ∑ q ∈ (allParts m P).filter (fun q => q.sum = i), T q := by
  rw [filter_allParts, sumL_eq_sum, List.sum_toFinset _ (part_nodup m i 0 P)]

/-! ### the convolution of binomial laws is binomial -/

/-- generating polynomial of the binomial(P, y) law -/
theorem bern_genpoly (P : ℕ) (y : ℚ) :
    ∑ v ∈ range (P+1), C (bern P v y) * X ^ v = (C y * X + C (1 - y)) ^ P := by
  rw [add_pow]
  refine sum_congr rfl fun v _ => ?_
  rw [bern, choose_eq, mul_pow, ← C_pow, ← C_pow]
  simp only [map_mul, map_natCast, map_pow]
  ring

theorem coeff_genpoly (N i : ℕ) (y : ℚ) : ((C y * X + C (1 - y)) ^ N : ℚ[X]).coeff i = bern N i y := by
  rw [← bern_genpoly, finsetSum_coeff]
  simp only [coeff_C_mul_X_pow]
  rw [Finset.sum_ite_eq (range (N+1)) i (fun v => bern N v y)]
  split_ifs with h
  · rfl
  · have : N < i := by have := mt mem_range.mpr h; omega
    unfold bern
    rw [choose_eq, Nat.choose_eq_zero_of_lt this]
    simp

/-- **the convolution of m binomial(P, y) laws, summed over `Numerics.part` as the code does, is the binomial(P·m, y) law** -/
theorem conv_binom (m P i : ℕ) (y : ℚ) :
    sumL ((part m i 0 P).map (convTerm P (fun v => bern P v y))) = bern (P * m) i y := by
  have core := conv_sum_core (R := ℚ[X]) m P (fun v => C (bern P v y) * X ^ v)
  rw [bern_genpoly, ← pow_mul] at core
  have hterm : ∀ q ∈ allParts m P,
      ((Nat.multinomial (range (P+1)) (fun v => q.count v) : ℕ) : ℚ[X]) * ∏ v ∈ range (P+1), (C (bern P v y) * X ^ v) ^ q.count v
        = C (convTerm P (fun v => bern P v y) q) * X ^ q.sum := by
    intro q hq
    obtain ⟨_, hb, _⟩ := (mem_allParts m P q).mp hq
    rw [convTerm_eq]
    simp only [mul_pow, prod_mul_distrib, ← pow_mul, prod_pow_eq_pow_sum, sum_mul_count_eq_sum q P hb]
    simp only [map_mul, map_natCast, map_prod, map_pow]
    ring
  rw [sum_congr rfl hterm] at core
  have hc := congrArg (fun p : ℚ[X] => p.coeff i) core
  simp only [finsetSum_coeff, coeff_C_mul_X_pow, coeff_genpoly] at hc
  rw [sumL_part_eq, ← hc, Finset.sum_filter]
  refine sum_congr rfl fun q _ => ?_
  by_cases h : q.sum = i
  · simp [h]
  · have h' : ¬ i = q.sum := fun e => h e.symm
    simp [h, h']

/-! ### perturbation of one convolution term -/

theorem abs_pow_sub_pow_le (f g : ℚ) (hf : 0 ≤ f ∧ f ≤ 1) (hg : 0 ≤ g ∧ g ≤ 1) (c : ℕ) : |f ^ c - g ^ c| ≤ (c : ℚ) * |f - g| := by
  have h := abs_prod_sub_prod_le c (fun _ => f) (fun _ => g) (fun _ _ => hf) (fun _ _ => hg)
  simpa using h

theorem convTerm_sub (P : ℕ) (f g : ℕ → ℚ) (ε : ℚ)
    (hf : ∀ v, 0 ≤ f v ∧ f v ≤ 1) (hg : ∀ v, 0 ≤ g v ∧ g v ≤ 1) (hfg : ∀ v, v ≤ P → |f v - g v| ≤ ε)
    (q : List ℕ) (hb : ∀ v ∈ q, v ≤ P) :
    |convTerm P f q - convTerm P g q|
      ≤ ((Nat.multinomial (range (P+1)) (fun v => q.count v) : ℕ) : ℚ) * ((q.length : ℚ) * ε) := by
  rw [convTerm_eq, convTerm_eq, ← mul_sub, abs_mul, abs_of_nonneg (Nat.cast_nonneg _)]
  refine mul_le_mul_of_nonneg_left ?_ (Nat.cast_nonneg _)
  have h1 := abs_prod_sub_prod_le (P+1) (fun v => f v ^ q.count v) (fun v => g v ^ q.count v)
    (fun v _ => ⟨pow_nonneg (hf v).1 _, pow_le_one₀ (hf v).1 (hf v).2⟩)
    (fun v _ => ⟨pow_nonneg (hg v).1 _, pow_le_one₀ (hg v).1 (hg v).2⟩)
  refine h1.trans ?_
  have h2 : ∀ v ∈ range (P+1), |f v ^ q.count v - g v ^ q.count v| ≤ (q.count v : ℚ) * ε := by
    intro v hv
    refine (abs_pow_sub_pow_le (f v) (g v) (hf v) (hg v) _).trans ?_
    exact mul_le_mul_of_nonneg_left (hfg v (by have := mem_range.mp hv; omega)) (Nat.cast_nonneg _)
  refine (sum_le_sum h2).trans ?_
  rw [← sum_mul, ← Nat.cast_sum, count_sum_eq_length q P hb]

theorem sum_multinomial_allParts (m P : ℕ) :
    ∑ q ∈ allParts m P, ((Nat.multinomial (range (P+1)) (fun v => q.count v) : ℕ) : ℚ) = ((P : ℚ) + 1) ^ m := by
  have h := conv_sum_core (R := ℚ) m P (fun _ => 1)
  simpa using h

/-- perturbation bound for the whole convolution: factors in [0,1] that differ by at most ε -/
theorem conv_sub (m P i : ℕ) (f g : ℕ → ℚ) (ε : ℚ) (hε : 0 ≤ ε)
    (hf : ∀ v, 0 ≤ f v ∧ f v ≤ 1) (hg : ∀ v, 0 ≤ g v ∧ g v ≤ 1) (hfg : ∀ v, v ≤ P → |f v - g v| ≤ ε) :
    |sumL ((part m i 0 P).map (convTerm P f)) - sumL ((part m i 0 P).map (convTerm P g))|
      ≤ ((P : ℚ) + 1) ^ m * ((m : ℚ) * ε) := by
  rw [sumL_part_eq, sumL_part_eq, ← sum_sub_distrib]
  refine (abs_sum_le_sum_abs _ _).trans ?_
  have h1 : ∀ q ∈ (allParts m P).filter (fun q => q.sum = i), |convTerm P f q - convTerm P g q|
      ≤ ((Nat.multinomial (range (P+1)) (fun v => q.count v) : ℕ) : ℚ) * ((m : ℚ) * ε) := by
    intro q hq
    obtain ⟨hl, hb, _⟩ := (mem_allParts m P q).mp (mem_filter.mp hq).1
    have := convTerm_sub P f g ε hf hg hfg q hb
    rwa [hl] at this
  refine (sum_le_sum h1).trans ?_
  rw [← sum_mul, ← sum_multinomial_allParts]
  refine mul_le_mul_of_nonneg_right ?_ (by positivity)
  exact sum_le_sum_of_subset_of_nonneg (filter_subset _ _) fun q _ _ => Nat.cast_nonneg _

/-- explicit constant of the F → 0⁺ bound for `m` individuals of ploidy `P` -/
def inbLimitConst (m P : ℕ) : ℚ := ((P : ℚ) + 1) ^ m * ((m : ℚ) * ((2 : ℚ) ^ P * ((P : ℚ) * P)))

theorem inbLimitConst_nonneg (m P : ℕ) : 0 ≤ inbLimitConst m P := by unfold inbLimitConst; positivity

/-- **F → 0⁺ for `BetaBinomConvolution`**: with α = y·c, β = (1−y)·c the convolved beta-binomial probability of i derived
    alleles among m individuals of ploidy P differs from the binomial(P·m, y) probability by at most `inbLimitConst m P / c` -/
theorem betaBinomConv_sub_bern (m P i : ℕ) (y c : ℚ) (hy0 : 0 ≤ y) (hy1 : y ≤ 1) (hc : 0 < c) :
    |betaBinomConv i m (y * c) ((1 - y) * c) P - bern (P * m) i y| ≤ inbLimitConst m P / c := by
  have hyc : 0 ≤ y * c := mul_nonneg hy0 hc.le
  have hyc' : 0 ≤ (1 - y) * c := mul_nonneg (by linarith) hc.le
  have hab : 0 < y * c + (1 - y) * c := by nlinarith
  rw [← conv_binom m P i y]
  unfold betaBinomConv
  have h := conv_sub m P i (fun v => betaBinom P v (y * c) ((1 - y) * c)) (fun v => bern P v y)
    ((2 : ℚ) ^ P * ((P : ℚ) * P) / c) (by positivity)
    (fun v => ⟨betaBinom_nonneg P v _ _ hyc hyc' hab, betaBinom_le_one P v _ _ hyc hyc' hab⟩)
    (fun v => ⟨bern_nonneg P v y hy0 hy1, bern_le_one P v y hy0 hy1⟩)
    (fun v hv => by
      refine (betaBinom_sub_bern P v hv y c hy0 hy1 hc).trans ?_
      have h2 : (P.choose v : ℚ) ≤ (2 : ℚ) ^ P := by exact_mod_cast Nat.choose_le_two_pow P v
      have hpos : 0 ≤ (P : ℚ) * P / c := by positivity
      calc (P.choose v : ℚ) * ((P : ℚ) * P) / c = (P.choose v : ℚ) * ((P : ℚ) * P / c) := by ring
        _ ≤ (2 : ℚ) ^ P * ((P : ℚ) * P / c) := mul_le_mul_of_nonneg_right h2 hpos
        _ = (2 : ℚ) ^ P * ((P : ℚ) * P) / c := by ring)
  refine h.trans (le_of_eq ?_)
  unfold inbLimitConst
  ring

end DadiVerif.FromPhi
