import DadiVerif.Lemmas.KernelLine
import DadiVerif.Lemmas.KernelIndex
/-!
Kernel programs, part 4 — running the expected program of kernel (d, ax) on a flat row-major array IS the tabulated model step
(`stepAxis`, resp. `preSolve` for the pre-computed-coefficient kernels): loop nest (`nestFold_eq_foldl`) + one line
(`lineExec_expected`) + index arithmetic (`evalIdx_expIdx`, `coordArgs_eval`, `nest_extents`) + in-place sweep
(`sweepLines_eq_ofFn`).
-/
namespace DadiVerif
open Gen
namespace KProg

/-- the hypotheses under which a kernel is called: shapes and grids fit, at least two nodes along the solved axis, one
    migration rate per other population, β only in one dimension -/
structure EnvOk (d ax : ℕ) (env : KEnv) : Prop where
  dpos : 1 ≤ d
  dle : d ≤ 5
  axlt : ax < d
  shape : env.shape.length = d
  grids : env.grids.length = d
  fit : ∀ k, k < d → (env.grids.getD k #[]).size = env.shape.getD k 0
  two : 2 ≤ env.shape.getD ax 0
  ms : env.P.ms.length = d - 1
  beta : if d = 1 then env.P.beta.isSome = true else env.P.beta = none

theorem inBox_length' (shape i : List ℕ) (k : ℕ) (hk : k < shape.length) (hi : InBox (shape.eraseIdx k) i) :
    i.length = shape.length - 1 := by
  rw [inBox_length _ _ hi, List.length_eraseIdx, if_pos hk]

/-- **running the expected on-the-fly kernel program = `stepAxis`** (the tabulated model step the driver runs) -/
theorem run_expected (d ax : ℕ) (env : KEnv) (h : EnvOk d ax env) (hw : WrapperExtentsOk d ax false env.shape)
    (epsND : ND) (heps : env.eps = fun i j => epsND.get (i.insertIdx ax j))
    (phi : Array ℚ) (hsz : phi.size = prodL env.shape) :
    run (expected d ax false) env phi
      = (stepAxis env.grids ax env.P env.use epsND env.dt ⟨env.shape, phi⟩).data := by
  have hk : ax < env.shape.length := by rw [h.shape]; exact h.axlt
  unfold run
  have hn : (expected d ax false).nest = expNest d ax false := rfl
  rw [hn, nest_extents d ax false h.dle h.axlt env h.shape hw, nestFold_eq_foldl]
  set f : List ℕ → (ℕ → ℚ) → ℕ → ℚ := fun i φ j =>
    listGetD ((axisLine (env.grids.getD ax #[]) env.P (otherCoords env.grids ax i) env.use (env.eps i) env.dt).step φ) j with hf
  have hfold : (boxIdx (env.shape.eraseIdx ax)).foldl (fun a i => lineExec (expected d ax false) env i a) phi
      = sweepLines env.shape ax f (boxIdx (env.shape.eraseIdx ax)) phi := by
    unfold sweepLines
    apply List.foldl_ext
    intro a i hi
    have hib : InBox (env.shape.eraseIdx ax) i := (inBox_boxIdx _ _).1 hi
    have hlen : i.length = d - 1 := by rw [inBox_length' _ _ _ hk hib, h.shape]
    have hoc : (otherCoords env.grids ax i).length = d - 1 := by
      unfold otherCoords
      rw [List.length_zipWith, List.length_eraseIdx, if_pos (by rw [h.grids]; exact h.axlt), h.grids, hlen]; simp
    exact lineExec_expected d ax env i a h.beta (h.fit ax h.axlt) h.two (otherCoords env.grids ax i)
      (fun s j => coordArgs_eval d ax h.dle h.axlt env h.grids i hlen s j) hoc h.ms h.dle
      (lineIx env.shape ax i) (fun j => evalIdx_expIdx d ax h.dle h.axlt env h.shape i hlen j)
  rw [hfold, sweepLines_eq_ofFn env.shape ax hk f ?_ _ (inBox_boxIdx _) (nodup_boxIdx _) phi hsz]
  · unfold stepAxis stepAxisFn stepFam
    simp only [hf, heps]
  · intro i φ ψ hφ j _
    simp only [hf]
    rw [Line.step_congr _ φ ψ (fun j hj => hφ j (by
      have : (axisLine (env.grids.getD ax #[]) env.P (otherCoords env.grids ax i) env.use (env.eps i) env.dt).N
          = (env.grids.getD ax #[]).size := rfl
      rw [this, h.fit ax h.axlt] at hj; exact hj))]

/-- **running the expected pre-computed-coefficient kernel program = `preSolve`** -/
theorem run_expected_pre (d ax : ℕ) (env : KEnv) (hd : d ≤ 5) (hax : ax < d) (hs : env.shape.length = d)
    (hw : WrapperExtentsOk d ax true env.shape) (a b c : ND) (ha : a.shape = env.shape) (hb : b.shape = env.shape)
    (hc : c.shape = env.shape) (hco : env.coefs = [a.data, b.data, c.data])
    (phi : Array ℚ) (hsz : phi.size = prodL env.shape) :
    run (expected d ax true) env phi = (preSolve ax env.dt a b c ⟨env.shape, phi⟩).data := by
  have hk : ax < env.shape.length := by rw [hs]; exact hax
  unfold run
  have hn : (expected d ax true).nest = expNest d ax true := rfl
  rw [hn, nest_extents d ax true hd hax env hs hw, nestFold_eq_foldl]
  set N := env.shape.getD ax 0 with hN
  set f : List ℕ → (ℕ → ℚ) → ℕ → ℚ := fun i φ j =>
    listGetD (thomas ((List.range N).map fun j =>
      (⟨a.get (i.insertIdx ax j), b.get (i.insertIdx ax j) + 1 / env.dt, c.get (i.insertIdx ax j), φ j / env.dt⟩ : Row))) j with hf
  have hfold : (boxIdx (env.shape.eraseIdx ax)).foldl (fun a i => lineExec (expected d ax true) env i a) phi
      = sweepLines env.shape ax f (boxIdx (env.shape.eraseIdx ax)) phi := by
    unfold sweepLines
    apply List.foldl_ext
    intro arr i hi
    have hib : InBox (env.shape.eraseIdx ax) i := (inBox_boxIdx _ _).1 hi
    have hlen : i.length = d - 1 := by rw [inBox_length' _ _ _ hk hib, hs]
    rw [lineExec_expected_pre d ax env i arr (lineIx env.shape ax i) (fun j => evalIdx_expIdx d ax hd hax env hs i hlen j)]
    simp only [hf, hco, List.getD_cons_zero, List.getD_cons_succ, ND.get, ha, hb, hc, lineIx, ← hN]
  rw [hfold, sweepLines_eq_ofFn env.shape ax hk f ?_ _ (inBox_boxIdx _) (nodup_boxIdx _) phi hsz]
  · unfold preSolve
    simp only [hf, ← hN]
  · intro i φ ψ hφ j _
    simp only [hf]
    congr 2
    apply List.map_congr_left
    intro k hk'
    rw [hφ k (List.mem_range.mp hk')]

end KProg
end DadiVerif
