import DadiVerif.Lemmas.LowPassCount
import Mathlib.Data.List.Perm.Basic
import Mathlib.Algebra.BigOperators.Group.List.Basic
/-! C18 helper lemmas, part 15: the genotype configurations of an allele count are exactly the sorted vectors
    `0…0 1…1 2…2` indexed by the number `a` of alternative homozygotes, so a sum over `Numerics.part(x, n)` is a sum over
    `a ≤ x/2` (`lsum_part`); the subsample counts of such a vector in closed form (`cntS_rep`). -/
set_option linter.unusedSimpArgs false
namespace DadiVerif.LowPass
open Finset

/-- `r` reference homozygotes, `h` heterozygotes, `a` alternative homozygotes, sorted -/
def rep (r h a : ℕ) : List ℕ := List.replicate r 0 ++ List.replicate h 1 ++ List.replicate a 2

@[simp] theorem rep_count0 (r h a : ℕ) : (rep r h a).count 0 = r := by
  simp [rep, List.count_append, List.count_replicate]
@[simp] theorem rep_count1 (r h a : ℕ) : (rep r h a).count 1 = h := by
  simp [rep, List.count_append, List.count_replicate]
@[simp] theorem rep_count2 (r h a : ℕ) : (rep r h a).count 2 = a := by
  simp [rep, List.count_append, List.count_replicate]
@[simp] theorem rep_length (r h a : ℕ) : (rep r h a).length = r + h + a := by simp [rep]; omega

theorem rep_mem (r h a v : ℕ) (hv : v ∈ rep r h a) : v ≤ 2 := by
  simp only [rep, List.mem_append, List.mem_replicate] at hv
  rcases hv with (⟨_, rfl⟩ | ⟨_, rfl⟩) | ⟨_, rfl⟩ <;> omega

theorem rep_sorted (r h a : ℕ) : (rep r h a).Pairwise (· ≤ ·) := by
  unfold rep
  rw [List.pairwise_append, List.pairwise_append]
  refine ⟨⟨List.pairwise_replicate.mpr (Or.inr (le_refl _)), List.pairwise_replicate.mpr (Or.inr (le_refl _)), ?_⟩,
    List.pairwise_replicate.mpr (Or.inr (le_refl _)), ?_⟩
  · intro a ha b hb
    rw [List.mem_replicate] at ha hb; omega
  · intro a ha b hb
    simp only [List.mem_append, List.mem_replicate] at ha
    rw [List.mem_replicate] at hb
    rcases ha with ⟨_, rfl⟩ | ⟨_, rfl⟩ <;> omega

theorem rep_mem_part (r h a : ℕ) : rep r h a ∈ part (h + 2 * a) (r + h + a) 0 2 := by
  rw [mem_part]
  refine ⟨rep_length r h a, ?_, fun v hv => ⟨Nat.zero_le _, rep_mem r h a v hv⟩, rep_sorted r h a⟩
  rw [sum_eq_counts _ (rep_mem r h a)]; simp

/-- every genotype configuration produced by `Numerics.part` is one of the sorted vectors `rep` -/
theorem part_eq_rep {x n : ℕ} {g : List ℕ} (hg : g ∈ part x n 0 2) :
    g = rep (g.count 0) (g.count 1) (g.count 2) := by
  obtain ⟨_, _, hb, hs⟩ := (mem_part n x 0 2 g).mp hg
  refine List.Perm.eq_of_pairwise (le := (· ≤ ·)) (fun a b _ _ h1 h2 => le_antisymm h1 h2) hs (rep_sorted _ _ _) ?_
  rw [List.perm_iff_count]
  intro v
  by_cases h0 : v = 0
  · subst h0; simp
  by_cases h1 : v = 1
  · subst h1; simp
  by_cases h2 : v = 2
  · subst h2; simp
  rw [List.count_eq_zero_of_not_mem, List.count_eq_zero_of_not_mem]
  · intro hv; have := rep_mem _ _ _ v hv; omega
  · intro hv; have := (hb v hv).2; omega

/-- the list of the configurations of allele count `x` among `n` individuals, indexed by the number of alternative
    homozygotes -/
def repList (x n : ℕ) : List (List ℕ) :=
  ((List.range (x / 2 + 1)).filter (fun a => decide (x - a ≤ n))).map fun a => rep (n - (x - a)) (x - 2 * a) a

theorem part_perm_repList (x n : ℕ) : (part x n 0 2).Perm (repList x n) := by
  rw [List.perm_ext_iff_of_nodup (part_nodup n x 0 2)]
  · intro g
    simp only [repList, List.mem_map, List.mem_filter, List.mem_range, decide_eq_true_eq]
    constructor
    · intro hg
      obtain ⟨_, _, _, hx, hn⟩ := part_facts hg
      refine ⟨g.count 2, ⟨by omega, by omega⟩, ?_⟩
      have e1 : n - (x - g.count 2) = g.count 0 := by omega
      have e2 : x - 2 * g.count 2 = g.count 1 := by omega
      rw [e1, e2]
      exact (part_eq_rep hg).symm
    · rintro ⟨a, ⟨ha, hn⟩, rfl⟩
      have := rep_mem_part (n - (x - a)) (x - 2 * a) a
      have e1 : x - 2 * a + 2 * a = x := by omega
      have e2 : n - (x - a) + (x - 2 * a) + a = n := by omega
      rwa [e1, e2] at this
  · unfold repList
    refine List.Nodup.map_on ?_ (List.Nodup.filter _ List.nodup_range)
    intro a _ b _ hab
    have := congrArg (List.count 2) hab
    simpa using this

theorem lsum_perm {l₁ l₂ : List ℚ} (h : l₁.Perm l₂) : lsum l₁ = lsum l₂ := by
  rw [lsum_eq_sum, lsum_eq_sum]; exact h.sum_eq

theorem lsum_map_range (K : ℕ) (f : ℕ → ℚ) : lsum ((List.range K).map f) = ∑ a ∈ range K, f a := by
  induction K with
  | zero => simp
  | succ K ih => rw [List.range_succ, List.map_append, lsum_append, ih, Finset.sum_range_succ]; simp

theorem lsum_map_filter {α : Type} (l : List α) (p : α → Bool) (f : α → ℚ) :
    lsum ((l.filter p).map f) = lsum (l.map fun a => if p a then f a else 0) := by
  induction l with
  | nil => simp
  | cons a l ih =>
    by_cases h : p a
    · simp [List.filter_cons, h, ih]
    · simp [List.filter_cons, h, ih]

/-- **a sum over the genotype configurations is a sum over the number of alternative homozygotes** -/
theorem lsum_part (x n : ℕ) (f : List ℕ → ℚ) :
    lsum ((part x n 0 2).map f)
      = ∑ a ∈ range (x / 2 + 1), if x - a ≤ n then f (rep (n - (x - a)) (x - 2 * a) a) else 0 := by
  rw [lsum_perm ((part_perm_repList x n).map f)]
  unfold repList
  rw [List.map_map, lsum_map_filter, lsum_map_range]
  refine Finset.sum_congr rfl (fun a _ => ?_)
  simp

/-- subsample counts of a sorted configuration: choose `a'` of the alternative homozygotes, then the heterozygotes and
    reference homozygotes are determined by the size `m` and the allele count `s` of the subsample -/
theorem cntS_rep (r h a m s : ℕ) :
    cntS m (rep r h a) s
      = ∑ a' ∈ range (a + 1), if a' ≤ m ∧ 2 * a' ≤ s ∧ s - 2 * a' ≤ m - a' then
          a.choose a' * (h.choose (s - 2 * a') * r.choose (m - a' - (s - 2 * a'))) else 0 := by
  unfold rep
  rw [cntS_append_replicate]
  refine Finset.sum_congr rfl (fun a' _ => ?_)
  by_cases h1 : a' ≤ m ∧ a' * 2 ≤ s
  · rw [if_pos h1]
    rw [cntS_append_replicate]
    simp only [mul_one, cntS_replicate, mul_zero]
    by_cases h2 : s - a' * 2 ≤ m - a'
    · rw [if_pos ⟨h1.1, by omega, by omega⟩]
      by_cases h3 : s - a' * 2 ≤ h
      · rw [Finset.sum_eq_single (s - a' * 2)]
        · have e : s - 2 * a' = s - a' * 2 := by omega
          simp [h2, e]
        · intro b _ hb
          split_ifs with h4 h5
          · omega
          · simp
          · rfl
        · intro hn; simp at hn; omega
      · rw [Nat.choose_eq_zero_of_lt (by omega : h < s - 2 * a'), Finset.sum_eq_zero]
        · simp
        · intro b hb
          simp only [mem_range] at hb
          split_ifs with h4 h5
          · omega
          · simp
          · rfl
    · rw [if_neg (by omega), Finset.sum_eq_zero]
      · simp
      · intro b _
        split_ifs with h4 h5
        · omega
        · simp
        · rfl
  · rw [if_neg h1, if_neg (by omega)]

end DadiVerif.LowPass
