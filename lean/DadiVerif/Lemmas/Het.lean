import DadiVerif.Lemmas.Mass
/-! Helper lemmas for C01: the discrete heterozygosity law of the neutral one-population scheme
    (two summations by parts; holds on every grid from 0 to 1). -/
namespace DadiVerif
open Gen Finset

theorem abel_closed (g G : ℕ → ℚ) : ∀ N : ℕ, G 0 = 0 →
    ∑ j ∈ range (N+1), g j * (G (j+1) - G j)
      = g N * G (N+1) - ∑ t ∈ range N, G (t+1) * (g (t+1) - g t) := by
  intro N h0
  induction N with
  | zero => simp [h0]
  | succ n ih =>
    rw [Finset.sum_range_succ, ih, Finset.sum_range_succ]
    ring

theorem het_core (N : ℕ) (x φ : ℕ → ℚ) (κ : ℚ)
    (hx0 : x 0 = 0) (hxN : x (N+1) = 1)
    (hdx : ∀ k ≤ N, x (k+1) - x k ≠ 0) :
    let g : ℕ → ℚ := fun j => x j * (1 - x j)
    let V : ℕ → ℚ := fun j => κ * g j
    let G : ℕ → ℚ := fun k => if 1 ≤ k ∧ k ≤ N+1 then (V (k-1) * φ (k-1) - V k * φ k) / (2 * (x k - x (k-1))) else 0
    ∑ j ∈ range (N+2), g j * (G (j+1) - G j)
      = κ * ∑ t ∈ range N, ((x (t+2) - x t) / 2) * g (t+1) * φ (t+1) := by
  intro g V G
  have hG0 : G 0 = 0 := by simp [G]
  have hGend : G (N+2) = 0 := by simp [G]
  rw [abel_closed g G (N+1) hG0, hGend, mul_zero, zero_sub]
  have hface : ∀ t ∈ range (N+1), G (t+1) * (g (t+1) - g t)
      = - ((V (t+1) * φ (t+1) - V t * φ t) * ((1 - x (t+1) - x t) / 2)) := by
    intro t ht
    have htN : t ≤ N := Nat.lt_succ_iff.mp (mem_range.mp ht)
    have hne := hdx t htN
    have hc : (1 ≤ t + 1 ∧ t + 1 ≤ N + 1) := ⟨by omega, by omega⟩
    simp only [G, hc, and_self, if_true, Nat.add_sub_cancel, g]
    field_simp
    ring
  rw [Finset.sum_congr rfl hface, Finset.sum_neg_distrib, neg_neg]
  set u : ℕ → ℚ := fun j => V j * φ j with hu
  set s : ℕ → ℚ := fun t => (1 - x (t+1) - x t) / 2 with hs
  have hu0 : u 0 = 0 := by simp [hu, V, g, hx0]
  have huN : u (N+1) = 0 := by simp [hu, V, g, hxN]
  have abel2 : ∀ M : ℕ, ∑ t ∈ range (M+1), (u (t+1) - u t) * s t
      = u (M+1) * s M - u 0 * s 0 - ∑ t ∈ range M, u (t+1) * (s (t+1) - s t) := by
    intro M
    induction M with
    | zero => simp; ring
    | succ m ih => rw [Finset.sum_range_succ, ih, Finset.sum_range_succ]; ring
  have := abel2 N
  simp only [hu0, huN, zero_mul, sub_zero, zero_sub] at this
  calc ∑ t ∈ range (N+1), (V (t+1) * φ (t+1) - V t * φ t) * ((1 - x (t+1) - x t) / 2)
      = ∑ t ∈ range (N+1), (u (t+1) - u t) * s t := rfl
    _ = - ∑ t ∈ range N, u (t+1) * (s (t+1) - s t) := this
    _ = κ * ∑ t ∈ range N, ((x (t+2) - x t) / 2) * g (t+1) * φ (t+1) := by
        rw [Finset.mul_sum, ← Finset.sum_neg_distrib]
        refine Finset.sum_congr rfl (fun t _ => ?_)
        simp only [hu, hs, V]
        ring

namespace Line

/-- trapezoid-weighted heterozygosity Σ_j w_j x_j(1−x_j) φ_j -/
def het (L : Line) (φ : ℕ → ℚ) : ℚ := ∑ j ∈ range L.N, L.w j * (L.x j * (1 - L.x j)) * φ j

/-- A line is "neutral with drift κ" if its flux coefficients are those of pure drift V = κ·x(1−x), M ≡ 0. -/
def NeutralDrift (L : Line) (κ : ℚ) : Prop :=
  ∀ k, 1 ≤ k → k + 1 ≤ L.N →
    L.At k = κ * (L.x (k-1) * (1 - L.x (k-1))) / (2 * (L.x k - L.x (k-1))) ∧
    L.Ct k = κ * (L.x k * (1 - L.x k)) / (2 * (L.x k - L.x (k-1)))

/-- C01 core: if φ' solves the implicit neutral step then H(φ')·(1/dt + κ) = H(φ)/dt, on every grid from 0 to 1. -/
theorem het_step (L : Line) (N : ℕ) (hN : L.N = N + 2) (κ : ℚ) (hnd : L.NeutralDrift κ)
    (hx0 : L.x 0 = 0) (hx1 : L.x (N+1) = 1) (hinc : ∀ j, j + 1 < L.N → L.x j < L.x (j+1))
    (hbcint : ∀ j, 0 < j → j + 1 < L.N → L.bc j = 0)
    (φ φ' : ℕ → ℚ) (hsolve : ∀ j < L.N, L.apply φ' j = φ j / L.dt) :
    L.het φ' * (1 / L.dt + κ) = L.het φ / L.dt := by
  have hpos := L.weights_pos (by omega) hinc
  set g : ℕ → ℚ := fun j => L.x j * (1 - L.x j) with hg
  -- weighted sum of the equations
  have hsum : ∑ j ∈ range L.N, L.w j * g j * L.apply φ' j = ∑ j ∈ range L.N, L.w j * g j * (φ j / L.dt) := by
    refine Finset.sum_congr rfl (fun j hj => ?_)
    rw [hsolve j (mem_range.mp hj)]
  -- expand the left side with the flux form
  have hexp : ∀ j ∈ range L.N, L.w j * g j * L.apply φ' j
      = (L.w j * g j * φ' j) / L.dt + g j * (L.G φ' (j+1) - L.G φ' j) + g j * (L.w j * L.bc j * φ' j) := by
    intro j hj
    have hjN := mem_range.mp hj
    rw [L.flux_form φ' j hjN]
    have hwd := L.w_mul_df j (ne_of_gt (hpos j hjN))
    calc L.w j * g j * (φ' j / L.dt + L.df j * (L.G φ' (j+1) - L.G φ' j) + L.bc j * φ' j)
        = (L.w j * g j * φ' j) / L.dt + g j * ((L.w j * L.df j) * (L.G φ' (j+1) - L.G φ' j)) + g j * (L.w j * L.bc j * φ' j) := by ring
      _ = _ := by rw [hwd, one_mul]
  rw [Finset.sum_congr rfl hexp, Finset.sum_add_distrib, Finset.sum_add_distrib] at hsum
  -- the flux part via het_core
  have hGeq : ∀ k, L.G φ' k = (if 1 ≤ k ∧ k ≤ N+1 then
      ((κ * g (k-1)) * φ' (k-1) - (κ * g k) * φ' k) / (2 * (L.x k - L.x (k-1))) else 0) := by
    intro k
    unfold Line.G
    by_cases hk : 1 ≤ k ∧ k + 1 ≤ L.N
    · have hk' : 1 ≤ k ∧ k ≤ N + 1 := ⟨hk.1, by omega⟩
      rw [if_pos hk, if_pos hk']
      obtain ⟨hA, hC⟩ := hnd k hk.1 hk.2
      rw [hA, hC]; simp only [hg]; ring
    · have hk' : ¬ (1 ≤ k ∧ k ≤ N + 1) := by
        intro h; apply hk; exact ⟨h.1, by omega⟩
      rw [if_neg hk, if_neg hk']
  have hdx : ∀ k ≤ N, L.x (k+1) - L.x k ≠ 0 := by
    intro k hk
    have := hinc k (by omega)
    exact ne_of_gt (by linarith)
  have hcore := het_core N L.x φ' κ hx0 hx1 hdx
  simp only at hcore
  have hflux : ∑ j ∈ range L.N, g j * (L.G φ' (j+1) - L.G φ' j)
      = κ * ∑ t ∈ range N, ((L.x (t+2) - L.x t) / 2) * g (t+1) * φ' (t+1) := by
    rw [hN]
    rw [← hcore]
    refine Finset.sum_congr rfl (fun j _ => ?_)
    rw [hGeq (j+1), hGeq j]
  -- the absorbing part vanishes because g = 0 at both ends and bc = 0 elsewhere is not needed: g kills the ends,
  -- interior bc is multiplied by whatever it is — so we need bc only through g·bc; handle generally:
  -- rewrite interior heterozygosity
  have hH : ∀ ψ : ℕ → ℚ, L.het ψ = ∑ t ∈ range N, ((L.x (t+2) - L.x t) / 2) * g (t+1) * ψ (t+1) := by
    intro ψ
    unfold Line.het
    rw [hN, Finset.sum_range_succ, Finset.sum_range_succ']
    have e0 : L.w 0 * (L.x 0 * (1 - L.x 0)) * ψ 0 = 0 := by rw [hx0]; ring
    have e1 : L.w (N+1) * (L.x (N+1) * (1 - L.x (N+1))) * ψ (N+1) = 0 := by rw [hx1]; ring
    rw [e0, e1, add_zero, add_zero]
    refine Finset.sum_congr rfl (fun t ht => ?_)
    have htN := mem_range.mp ht
    have hw : L.w (t+1) = (L.x (t+2) - L.x t) / 2 := by
      unfold Line.w Line.dxL Line.dxR
      rw [if_neg (by omega), if_pos (by omega)]
      simp only [Nat.add_sub_cancel]
      ring
    rw [hw]
  rw [hflux, ← hH φ'] at hsum
  have hbc0 : ∑ j ∈ range L.N, g j * (L.w j * L.bc j * φ' j) = 0 := by
    apply Finset.sum_eq_zero
    intro j hj
    have hjN := mem_range.mp hj
    by_cases h0 : j = 0
    · subst h0; simp only [hg, hx0]; ring
    · by_cases h1 : j + 1 < L.N
      · rw [hbcint j (by omega) h1]; ring
      · have : j = N + 1 := by omega
        subst this; simp only [hg, hx1]; ring
  rw [hbc0, add_zero] at hsum
  have hl : ∑ j ∈ range L.N, L.w j * g j * φ' j / L.dt = L.het φ' / L.dt := by
    unfold Line.het; rw [Finset.sum_div]
  have hr : ∑ j ∈ range L.N, L.w j * g j * (φ j / L.dt) = L.het φ / L.dt := by
    unfold Line.het; rw [Finset.sum_div]
    refine Finset.sum_congr rfl (fun j _ => ?_); ring
  rw [hl, hr] at hsum
  rw [← hsum]; ring

end Line
end DadiVerif
