import DadiVerif.Lemmas.FromPhiTrapz
import DadiVerif.Lemmas.FromPhiLimitND
/-! C05, round 5 — direct (trapezoid) path against the semi-analytic path: one line, then d dimensions.

* `direct_vs_analytic_line`: on a strictly increasing grid inside [0,1] with spacing ≤ hmax the two line operators differ by at
  most 2·C(n,d)·n·hmax · trapz(|φ|) — first order in the spacing, for *any* density (no smoothness needed);
* `sampleND_sub_le_abs`: d-dimensional perturbation bound for abstract line operators (one list bounded, the other linear and
  bounded by 1, pairwise close);
* `overshoot_line`: the stage of the 2-D…5-D versions on an over-shooting grid against the computation on the clamped grid. -/
namespace DadiVerif.FromPhi
open Finset Gen.FromPhi

theorem trapz_abs_eq (N : ℕ) (x φ : ℕ → ℚ) :
    trapz N x (fun k => |φ k|) = ∑ k ∈ range (N - 1), (x (k+1) - x k) * (|φ (k+1)| + |φ k|) / 2 := by
  rw [trapz, sumRange_eq]

/-- **one line, direct vs semi-analytic** -/
theorem direct_vs_analytic_line (dim a : ℕ) (h : ValidAxis dim a) (n N d : ℕ) (hd : d ≤ n) (x φ : ℕ → ℚ) (hmax : ℚ)
    (hx : ∀ k, k < N → 0 ≤ x k ∧ x k ≤ 1) (hlt : ∀ k, k + 1 < N → x k < x (k+1))
    (hh : ∀ k, k + 1 < N → x (k+1) - x k ≤ hmax) :
    |(directOp dim a n N false x).app φ d - ∑ k ∈ range (N - 1), entryG n d x x φ k|
      ≤ 2 * ((n.choose d : ℚ) * n * hmax) * trapz N x (fun k => |φ k|) := by
  rw [directOp_app, trapz, sumRange_eq, ← sum_sub_distrib, trapz_abs_eq, mul_sum]
  refine (abs_sum_le_sum_abs _ _).trans (sum_le_sum fun k hk => ?_)
  have hk' : k + 1 < N := by have := mem_range.mp hk; omega
  simp only [directWeight_eq dim a h, hetMult, Bool.false_eq_true, if_false, mul_one]
  have key := direct_vs_analytic_interval n d hd x φ k (hx k (by omega)).1 (hlt k hk') (hx (k+1) hk').2
  rw [abs_sub_comm] at key
  refine key.trans ?_
  have hpos : 0 ≤ x (k+1) - x k := by have := hlt k hk'; linarith
  have hL : (0 : ℚ) ≤ (n.choose d : ℚ) * n := by positivity
  have hA : 0 ≤ (x (k+1) - x k) * (|φ k| + |φ (k+1)|) := mul_nonneg hpos (by positivity)
  calc (n.choose d : ℚ) * n * (x (k+1) - x k) * ((x (k+1) - x k) * (|φ k| + |φ (k+1)|))
      ≤ (n.choose d : ℚ) * n * hmax * ((x (k+1) - x k) * (|φ k| + |φ (k+1)|)) :=
        mul_le_mul_of_nonneg_right (mul_le_mul_of_nonneg_left (hh k hk') hL) hA
    _ = _ := by ring

/-- the direct operator (no ascertainment) is bounded by the trapezoid mass of |φ| -/
theorem directOp_abs_le (dim a : ℕ) (h : ValidAxis dim a) (n N : ℕ) (x φ : ℕ → ℚ) (i : ℕ)
    (hx : ∀ k, k < N → 0 ≤ x k ∧ x k ≤ 1) (hm : ∀ k, k + 1 < N → x k ≤ x (k+1)) :
    |(directOp dim a n N false x).app φ i| ≤ ∑ k ∈ range N, tw N x k * |φ k| := by
  rw [directOp_app, trapz_eq_nodes]
  refine (abs_sum_le_sum_abs _ _).trans (sum_le_sum fun k hk => ?_)
  have hk' := mem_range.mp hk
  rw [abs_mul, abs_of_nonneg (tw_nonneg N x hm k), directWeight_eq dim a h, abs_mul]
  refine mul_le_mul_of_nonneg_left ?_ (tw_nonneg N x hm k)
  have hb : |bern n i (x k) * hetMult false (x k)| ≤ 1 := by
    simp only [hetMult, Bool.false_eq_true, if_false, mul_one]
    rw [abs_of_nonneg (bern_nonneg _ _ _ (hx k hk').1 (hx k hk').2)]
    exact bern_le_one _ _ _ (hx k hk').1 (hx k hk').2
  calc _ ≤ 1 * |φ k| := mul_le_mul_of_nonneg_right hb (abs_nonneg _)
    _ = _ := one_mul _

/-! ### abstract d-dimensional perturbation -/

/-- (op, op', node weights, bound M of op, distance ε) -/
abbrev PertList := List (LineOp × LineOp × (ℕ → ℚ) × ℚ × ℚ)

/-- per axis: `op'` linear; same shapes; weights ≥ 0; for outputs inside the box |op f| ≤ M·Σ w|f|, |op' f| ≤ Σ w|f|,
    |op f − op' f| ≤ ε·Σ w|f| -/
def PertOk (t : LineOp × LineOp × (ℕ → ℚ) × ℚ × ℚ) : Prop :=
  t.2.1.Linear ∧ t.2.1.nIn = t.1.nIn ∧ t.2.1.nOut = t.1.nOut ∧ (∀ k, k < t.1.nIn → 0 ≤ t.2.2.1 k) ∧ 0 ≤ t.2.2.2.1 ∧ 0 ≤ t.2.2.2.2
  ∧ (∀ f i, i < t.1.nOut → |t.1.app f i| ≤ t.2.2.2.1 * ∑ k ∈ range t.1.nIn, t.2.2.1 k * |f k|)
  ∧ (∀ f i, i < t.1.nOut → |t.2.1.app f i| ≤ ∑ k ∈ range t.1.nIn, t.2.2.1 k * |f k|)
  ∧ (∀ f i, i < t.1.nOut → |t.1.app f i - t.2.1.app f i| ≤ t.2.2.2.2 * ∑ k ∈ range t.1.nIn, t.2.2.1 k * |f k|)

def ptOps (L : PertList) : List LineOp := L.map (·.1)
def ptOps' (L : PertList) : List LineOp := L.map (·.2.1)
def ptW (L : PertList) : List (ℕ × (ℕ → ℚ)) := L.map fun t => (t.1.nIn, t.2.2.1)
/-- product of the bounds -/
def ptM : PertList → ℚ
  | [] => 1
  | t :: r => t.2.2.2.1 * ptM r
/-- accumulated distance: ε₁·Π_{b>1} M_b + ε₂·Π_{b>2} M_b + … -/
def ptE : PertList → ℚ
  | [] => 0
  | t :: r => t.2.2.2.2 * ptM r + ptE r

theorem ptM_nonneg : ∀ (L : PertList), (∀ t ∈ L, PertOk t) → 0 ≤ ptM L := by
  intro L
  induction L with
  | nil => intro _; exact zero_le_one
  | cons t r ih =>
    intro h
    exact mul_nonneg (h t (List.mem_cons_self ..)).2.2.2.2.1 (ih fun t' ht' => h t' (List.mem_cons_of_mem _ ht'))

theorem ptW_nonneg : ∀ (L : PertList), (∀ t ∈ L, PertOk t) → ∀ φ : List ℕ → ℚ, (∀ js, 0 ≤ φ js) → 0 ≤ wSum (ptW L) φ := by
  intro L
  induction L with
  | nil => intro _ φ h; exact h []
  | cons t rest ih =>
    intro hL φ h
    simp only [ptW, List.map_cons, wSum]
    refine sum_nonneg fun k hk => mul_nonneg ((hL t (List.mem_cons_self ..)).2.2.2.1 k (mem_range.mp hk)) ?_
    exact ih (fun t' ht' => hL t' (List.mem_cons_of_mem _ ht')) _ fun js => h _

theorem sampleND_abs_le_M : ∀ (L : PertList), (∀ t ∈ L, PertOk t) → ∀ (φ : List ℕ → ℚ) (idx : List ℕ),
    InBox ((ptOps L).map (·.nOut)) idx → |sampleND (ptOps L) φ idx| ≤ ptM L * wSum (ptW L) (fun js => |φ js|) := by
  intro L
  induction L with
  | nil => intro _ φ idx _; simp [ptOps, ptM, ptW, wSum]
  | cons t rest ih =>
    intro hL φ idx hidx
    have hL' : ∀ t' ∈ rest, PertOk t' := fun t' ht' => hL t' (List.mem_cons_of_mem _ ht')
    obtain ⟨_, _, _, hw, hM0, _, hM, _, _⟩ := hL t (List.mem_cons_self ..)
    cases hidx with
    | @cons i _ is _ hi his =>
      simp only [ptOps, ptW, ptM, List.map_cons, wSum, sampleND_cons]
      refine (hM _ i hi).trans ?_
      have hstep : ∑ k ∈ range t.1.nIn, t.2.2.1 k * |sampleND (List.map (fun x => x.1) rest) (fun js => φ (k :: js)) is|
          ≤ ∑ k ∈ range t.1.nIn, t.2.2.1 k * (ptM rest * wSum (ptW rest) fun js => |φ (k :: js)|) := by
        refine sum_le_sum fun k hk => ?_
        exact mul_le_mul_of_nonneg_left (ih hL' (fun js => φ (k :: js)) is his) (hw k (mem_range.mp hk))
      refine (mul_le_mul_of_nonneg_left hstep hM0).trans (le_of_eq ?_)
      simp only [ptW, mul_sum]
      exact sum_congr rfl fun k _ => by ring

/-- **d-dimensional perturbation, abstract operators**: entries inside the box differ by at most `ptE L`·(weighted total of |φ|) -/
theorem sampleND_sub_le_abs : ∀ (L : PertList), (∀ t ∈ L, PertOk t) → ∀ (φ : List ℕ → ℚ) (idx : List ℕ),
    InBox ((ptOps L).map (·.nOut)) idx →
    |sampleND (ptOps L) φ idx - sampleND (ptOps' L) φ idx| ≤ ptE L * wSum (ptW L) (fun js => |φ js|) := by
  intro L
  induction L with
  | nil => intro _ φ idx _; simp [ptOps, ptOps', ptE]
  | cons t rest ih =>
    intro hL φ idx hidx
    have hL' : ∀ t' ∈ rest, PertOk t' := fun t' ht' => hL t' (List.mem_cons_of_mem _ ht')
    obtain ⟨hlin, hnIn, _, hw, hM0, hε0, _, hB', hC⟩ := hL t (List.mem_cons_self ..)
    cases hidx with
    | @cons i _ is _ hi his =>
      simp only [ptOps, ptOps', ptW, ptE, List.map_cons, wSum, sampleND_cons]
      set g : ℕ → ℚ := fun k => sampleND (List.map (fun x => x.1) rest) (fun js => φ (k :: js)) is with hg
      set g' : ℕ → ℚ := fun k => sampleND (List.map (fun x => x.2.1) rest) (fun js => φ (k :: js)) is with hg'
      have hsplit : t.1.app g i - t.2.1.app g' i = (t.1.app g i - t.2.1.app g i) + t.2.1.app (fun k => g k - g' k) i := by
        have := hlin 1 (-1) g g' i
        have e : (fun k => 1 * g k + -1 * g' k) = fun k => g k - g' k := by funext k; ring
        rw [e] at this
        rw [this]; ring
      rw [hsplit]
      refine (abs_add_le _ _).trans ?_
      have h1 := hC g i hi
      have h2 := hB' (fun k => g k - g' k) i hi
      have hg1 : ∀ k ∈ range t.1.nIn, t.2.2.1 k * |g k| ≤ t.2.2.1 k * (ptM rest * wSum (ptW rest) fun js => |φ (k :: js)|) := by
        intro k hk
        exact mul_le_mul_of_nonneg_left (sampleND_abs_le_M rest hL' (fun js => φ (k :: js)) is his) (hw k (mem_range.mp hk))
      have hg2 : ∀ k ∈ range t.1.nIn, t.2.2.1 k * |g k - g' k| ≤ t.2.2.1 k * (ptE rest * wSum (ptW rest) fun js => |φ (k :: js)|) := by
        intro k hk
        exact mul_le_mul_of_nonneg_left (ih hL' (fun js => φ (k :: js)) is his) (hw k (mem_range.mp hk))
      have h1' := h1.trans (mul_le_mul_of_nonneg_left (sum_le_sum hg1) hε0)
      have h2' := h2.trans (sum_le_sum hg2)
      refine (add_le_add h1' h2').trans (le_of_eq ?_)
      simp only [ptW, mul_sum, add_mul, sum_add_distrib]
      congr 1 <;> exact sum_congr rfl fun k _ => by ring

/-! ### the semi-analytic and the direct operator of one axis as a perturbation pair -/

/-- distance between the two line operators, uniform in the entry: 2·2^n·n·hmax -/
def dvaEps (n : ℕ) (hmax : ℚ) : ℚ := 2 * ((2 : ℚ) ^ n * n * hmax)

/-- accumulated distance over the axes: ε₁·Π_{b>1}(1+ε_b) + ε₂·Π_{b>2}(1+ε_b) + … (→ Σ ε_a as the grids are refined) -/
def dvaErr : List ℚ → ℚ
  | [] => 0
  | e :: r => e * (r.map (1 + ·)).prod + dvaErr r

theorem ptM_eq : ∀ (L : PertList), (∀ t ∈ L, t.2.2.2.1 = 1 + t.2.2.2.2) → ptM L = ((L.map (·.2.2.2.2)).map (1 + ·)).prod := by
  intro L
  induction L with
  | nil => intro _; rfl
  | cons t r ih =>
    intro h
    simp only [ptM, List.map_cons, List.prod_cons]
    rw [h t (List.mem_cons_self ..), ih fun t' ht' => h t' (List.mem_cons_of_mem _ ht')]

theorem ptE_eq : ∀ (L : PertList), (∀ t ∈ L, t.2.2.2.1 = 1 + t.2.2.2.2) → ptE L = dvaErr (L.map (·.2.2.2.2)) := by
  intro L
  induction L with
  | nil => intro _; rfl
  | cons t r ih =>
    intro h
    have h' : ∀ t' ∈ r, t'.2.2.2.1 = 1 + t'.2.2.2.2 := fun t' ht' => h t' (List.mem_cons_of_mem _ ht')
    simp only [ptE, List.map_cons, dvaErr]
    rw [ptM_eq r h', ih h']

theorem hetKey_ne_empty (dim a : ℕ) (h : ValidAxis dim a) : (("" : String) == hetKey dim a) = false := by
  obtain ⟨h1, h4, ha⟩ := h
  have hd : dim = 1 ∨ dim = 2 ∨ dim = 3 ∨ dim = 4 := by omega
  rcases hd with rfl | rfl | rfl | rfl
  · have : a = 0 := by omega
    subst this; decide
  · have : a = 0 ∨ a = 1 := by omega
    rcases this with rfl | rfl <;> decide
  · have : a = 0 ∨ a = 1 ∨ a = 2 := by omega
    rcases this with rfl | rfl | rfl <;> decide
  · have : a = 0 ∨ a = 1 ∨ a = 2 ∨ a = 3 := by omega
    rcases this with rfl | rfl | rfl | rfl <;> decide

theorem analytic_direct_pertOk (dim a : ℕ) (h : ValidAxis dim a) (n : ℕ) (g : Array ℚ) (hmax : ℚ)
    (hc : ∀ k, clamp (gridFn g k) = gridFn g k) (hlt : ∀ k, k + 1 < g.size → gridFn g k < gridFn g (k+1))
    (hh : ∀ k, k + 1 < g.size → gridFn g (k+1) - gridFn g k ≤ hmax) (hmax0 : 0 ≤ hmax) :
    PertOk (analyticOp a n g.size (gridFn g), directOp dim a n g.size false (gridFn g), tw g.size (gridFn g),
      1 + dvaEps n hmax, dvaEps n hmax) := by
  have ha : a < 5 := by have := h.2.1; have := h.2.2; omega
  have hε0 : 0 ≤ dvaEps n hmax := by unfold dvaEps; positivity
  have hx : ∀ k, k < g.size → 0 ≤ gridFn g k ∧ gridFn g k ≤ 1 := by
    intro k _
    rw [← hc k]
    unfold clamp ratMin ratMax
    constructor <;> split_ifs <;> linarith
  have hm : ∀ k, k + 1 < g.size → gridFn g k ≤ gridFn g (k+1) := fun k hk => (hlt k hk).le
  have hcl : (fun k => clamp (gridFn g k)) = gridFn g := funext hc
  have hclose : ∀ f i, i < n + 1 → |(analyticOp a n g.size (gridFn g)).app f i - (directOp dim a n g.size false (gridFn g)).app f i|
      ≤ dvaEps n hmax * ∑ k ∈ range g.size, tw g.size (gridFn g) k * |f k| := by
    intro f i hi
    rw [analyticOp_app a n g.size ha, hcl, abs_sub_comm, ← trapz_eq_nodes]
    refine (direct_vs_analytic_line dim a h n g.size i (by omega) (gridFn g) f hmax hx hlt hh).trans ?_
    have h2 : (n.choose i : ℚ) ≤ (2 : ℚ) ^ n := by exact_mod_cast Nat.choose_le_two_pow n i
    have hT : 0 ≤ trapz g.size (gridFn g) (fun k => |f k|) := by
      rw [trapz_eq_nodes]
      exact sum_nonneg fun k _ => mul_nonneg (tw_nonneg _ _ hm k) (abs_nonneg _)
    unfold dvaEps
    refine mul_le_mul_of_nonneg_right ?_ hT
    have : (n.choose i : ℚ) * n * hmax ≤ (2 : ℚ) ^ n * n * hmax :=
      mul_le_mul_of_nonneg_right (mul_le_mul_of_nonneg_right h2 (Nat.cast_nonneg _)) hmax0
    linarith
  have hdir : ∀ f i, i < n + 1 → |(directOp dim a n g.size false (gridFn g)).app f i|
      ≤ ∑ k ∈ range g.size, tw g.size (gridFn g) k * |f k| := fun f i _ => directOp_abs_le dim a h n g.size _ f i hx hm
  refine ⟨directOp_linear _ _ _ _ _ _, rfl, rfl, fun k _ => tw_nonneg _ _ hm k, by linarith, hε0, ?_, hdir, hclose⟩
  intro f i hi
  have e : (analyticOp a n g.size (gridFn g)).app f i
      = ((analyticOp a n g.size (gridFn g)).app f i - (directOp dim a n g.size false (gridFn g)).app f i)
        + (directOp dim a n g.size false (gridFn g)).app f i := by ring
  rw [e]
  refine (abs_add_le _ _).trans ?_
  have := hclose f i hi
  have := hdir f i hi
  show _ ≤ (1 + dvaEps n hmax) * ∑ k ∈ range g.size, tw g.size (gridFn g) k * |f k|
  linarith

/-! ### the stage of the 2-D…5-D versions on an over-shooting grid -/

/-- **one line, over-shooting grid**: slopes from the caller's nodes, incomplete-beta differences from the clamped nodes, against
    everything on the clamped nodes: the difference is at most δ · (total variation of φ along the line), δ = largest over-shoot -/
theorem overshoot_line (a n N d : ℕ) (ha : a < 5) (hd : d ≤ n) (x φ : ℕ → ℚ) (δ : ℚ)
    (hx : ∀ k, k + 1 < N → x k ≤ clamp (x k) ∧ clamp (x k) < clamp (x (k+1)) ∧ clamp (x (k+1)) ≤ x (k+1))
    (hδ : ∀ k, k < N → |clamp (x k) - x k| ≤ δ) :
    |(analyticOp a n N x).app φ d - fromPhi1D n N x φ d| ≤ δ * ∑ k ∈ range (N - 1), |φ (k+1) - φ k| := by
  rw [analyticOp_app a n N ha, fromPhi1D_def, sumRange_eq, ← sum_sub_distrib, mul_sum]
  refine (abs_sum_le_sum_abs _ _).trans (sum_le_sum fun k hk => ?_)
  have hk' : k + 1 < N := by have := mem_range.mp hk; omega
  obtain ⟨h1, h2, h3⟩ := hx k hk'
  have hc0 : ∀ y : ℚ, 0 ≤ clamp y ∧ clamp y ≤ 1 := by
    intro y
    unfold clamp ratMin ratMax
    constructor <;> split_ifs <;> linarith
  rw [entry1D_eq_entryG]
  have key := overshoot_interval n d hd x (fun k => clamp (x k)) φ k δ h1 h3 h2 (hc0 _).1 (hc0 _).2
    (by have := hδ k (by omega); rw [abs_of_nonneg (by linarith)] at this; exact this)
    (by have := hδ (k+1) hk'; rw [abs_of_nonpos (by linarith)] at this; linarith)
  rw [mul_comm]
  exact key

end DadiVerif.FromPhi
