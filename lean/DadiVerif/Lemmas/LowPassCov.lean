import DadiVerif.Lemmas.LowPassMat
/-! C18 helper lemmas, part 4: the no-call probability and the enough-individuals-covered probability. -/
namespace DadiVerif.LowPass
open Finset

/-- Σ_d c_d 2^{-d}: a heterozygote shows no alternative read -/
def covA (c : List ℚ) : ℚ := ∑ d ∈ range c.length, covAt c d * (1 / 2) ^ d
/-- Σ_d d c_d 2^{-d}: a heterozygote shows exactly one alternative read -/
def covB (c : List ℚ) : ℚ := ∑ d ∈ range c.length, (d : ℚ) * covAt c d * (1 / 2) ^ d

theorem covAt_of_le (c : List ℚ) (d : ℕ) (h : c.length ≤ d) : covAt c d = 0 := by
  unfold covAt
  rw [List.getD_eq_getElem?_getD, List.getElem?_eq_none h]; rfl

theorem lsum_eq_covAt (c : List ℚ) : lsum c = ∑ d ∈ range c.length, covAt c d := lsum_eq_range c

theorem covA_nonneg (c : List ℚ) (hc : ∀ v ∈ c, 0 ≤ v) : 0 ≤ covA c := by
  apply Finset.sum_nonneg; intro d _
  have := covAt_nonneg c hc d
  positivity

theorem covB_nonneg (c : List ℚ) (hc : ∀ v ∈ c, 0 ≤ v) : 0 ≤ covB c := by
  apply Finset.sum_nonneg; intro d _
  have := covAt_nonneg c hc d
  positivity

theorem succ_mul_half_pow_le (d : ℕ) : ((d : ℚ) + 1) * (1 / 2) ^ d ≤ 1 := by
  have h : (d + 1 : ℕ) ≤ 2 ^ d := Nat.lt_two_pow_self
  have h2 : ((d : ℚ) + 1) ≤ 2 ^ d := by exact_mod_cast h
  rw [one_div, inv_pow]
  have hp : (0:ℚ) < 2 ^ d := by positivity
  rw [← div_eq_mul_inv, div_le_one hp]
  exact h2

/-- "no alternative read" and "exactly one" are disjoint events of one heterozygote: A + B ≤ Σ c -/
theorem covA_add_covB_le (c : List ℚ) (hc : ∀ v ∈ c, 0 ≤ v) : covA c + covB c ≤ lsum c := by
  rw [lsum_eq_covAt, covA, covB, ← Finset.sum_add_distrib]
  apply Finset.sum_le_sum
  intro d _
  have h0 := covAt_nonneg c hc d
  have := succ_mul_half_pow_le d
  have e : covAt c d * (1 / 2) ^ d + (d : ℚ) * covAt c d * (1 / 2) ^ d
      = covAt c d * (((d : ℚ) + 1) * (1 / 2) ^ d) := by ring
  rw [e]
  nlinarith

/-- P(depth 0) + P(depth 1) ≤ Σ c -/
theorem cov01_le (c : List ℚ) (hc : ∀ v ∈ c, 0 ≤ v) : covAt c 0 + covAt c 1 ≤ lsum c := by
  rw [lsum_eq_covAt]
  have hext : ∑ d ∈ range c.length, covAt c d = ∑ d ∈ range (c.length + 2), covAt c d := by
    apply Finset.sum_subset
    · intro x hx; simp at hx ⊢; omega
    · intro x _ hx; apply covAt_of_le; simp at hx; omega
  rw [hext]
  have : covAt c 0 + covAt c 1 = ∑ d ∈ range 2, covAt c d := by simp [Finset.sum_range_succ]
  rw [this]
  apply Finset.sum_le_sum_of_subset_of_nonneg
  · intro x hx; simp at hx ⊢; omega
  · intro d _ _; exact covAt_nonneg c hc d

/-- the three generated `P_case` expressions in closed form -/
theorem nocallPart_eq (c : List ℚ) (af : ℕ) (g : List ℕ) (pr : ℚ) :
    nocallPart c af g pr = pr *
      (covAt c 0 ^ g.count 2 * covA c ^ g.count 1
        + (g.count 2 : ℚ) * covAt c 1 * covAt c 0 ^ (g.count 2 - 1) * covA c ^ g.count 1
        + covAt c 0 ^ g.count 2 * ((g.count 1 : ℚ) * covB c * covA c ^ (g.count 1 - 1))) := by
  have hA : (sumTo c.length fun d => covAt c d * (1 / 2) ^ d) = covA c := by
    rw [sumTo_eq, covA]
  have hB : (sumTo c.length fun d => (d : ℚ) * covAt c d * (1 / 2) ^ d) = covB c := by
    rw [sumTo_eq, covB]
  unfold nocallPart
  rw [show Gen.LowPass.hetValue = 1 from rfl, show Gen.LowPass.homAltValue = 2 from rfl]
  simp only [Gen.LowPass.nocallTerm, Gen.LowPass.P_case0, Gen.LowPass.P_case1a,
    Gen.LowPass.P_case1aThen, Gen.LowPass.P_case1aElse, Gen.LowPass.P_case1aGuard, Gen.LowPass.P_case1b,
    zpowR_natCast, Int.cast_natCast, hA, hB]
  congr 1
  rcases Nat.eq_zero_or_pos (g.count 2) with h2 | h2 <;> rcases Nat.eq_zero_or_pos (g.count 1) with h1 | h1
  · simp [h2, h1]
  · simp [h2, zpowR_pred _ _ h1]; ring
  · simp [h1, h2, zpowR_pred _ _ h2]
  · simp [h2, zpowR_pred _ _ h1, zpowR_pred _ _ h2]; ring

/-- each partition contributes between 0 and its probability -/
theorem nocallPart_bounds (c : List ℚ) (hc : ∀ v ∈ c, 0 ≤ v) (hs : lsum c ≤ 1) (af : ℕ) (g : List ℕ) (pr : ℚ)
    (hpr : 0 ≤ pr) : 0 ≤ nocallPart c af g pr ∧ nocallPart c af g pr ≤ pr := by
  rw [nocallPart_eq]
  have h0 := covAt_nonneg c hc 0
  have h1 := covAt_nonneg c hc 1
  have hA := covA_nonneg c hc
  have hB := covB_nonneg c hc
  have h01 : covAt c 0 + covAt c 1 ≤ 1 := le_trans (cov01_le c hc) hs
  have hAB : covA c + covB c ≤ 1 := le_trans (covA_add_covB_le c hc) hs
  set a := g.count 2
  set h := g.count 1
  have f1 := two_term_le_one (covAt c 0) (covAt c 1) h0 h1 h01 a
  have f2 := two_term_le_one (covA c) (covB c) hA hB hAB h
  have g1 := two_term_nonneg (covAt c 0) (covAt c 1) h0 h1 a
  have g2 := two_term_nonneg (covA c) (covB c) hA hB h
  have hx : 0 ≤ (a : ℚ) * covAt c 1 * covAt c 0 ^ (a - 1) := by positivity
  have hy : 0 ≤ (h : ℚ) * covB c * covA c ^ (h - 1) := by positivity
  have hz : 0 ≤ covAt c 0 ^ a := by positivity
  have hw : 0 ≤ covA c ^ h := by positivity
  constructor
  · positivity
  · have key : covAt c 0 ^ a * covA c ^ h
          + (a : ℚ) * covAt c 1 * covAt c 0 ^ (a - 1) * covA c ^ h
          + covAt c 0 ^ a * ((h : ℚ) * covB c * covA c ^ (h - 1))
        ≤ (covAt c 0 ^ a + (a : ℚ) * covAt c 1 * covAt c 0 ^ (a - 1))
          * (covA c ^ h + (h : ℚ) * covB c * covA c ^ (h - 1)) := by
      nlinarith [mul_nonneg hx hy]
    have : (covAt c 0 ^ a + (a : ℚ) * covAt c 1 * covAt c 0 ^ (a - 1))
          * (covA c ^ h + (h : ℚ) * covB c * covA c ^ (h - 1)) ≤ 1 := by
      calc _ ≤ 1 * 1 := mul_le_mul f1 f2 g2 (by norm_num)
        _ = 1 := by norm_num
    nlinarith

/-! ### enough individuals covered -/

theorem probEnough_eq (c : List ℚ) (N m : ℕ) (hm1 : 1 ≤ m) (hmN : m ≤ N) :
    probEnough c (2 * N) (2 * m)
      = ∑ k ∈ Ico (m - 1) N, covAt c 0 ^ (N - 1 - k) * covTail c ^ k * ((N - 1).choose k : ℚ) := by
  unfold probEnough sumIco
  have hlo : Gen.LowPass.enoughLo ((2 * N : ℕ) : ℤ) ((2 * m : ℕ) : ℤ) = ((m - 1 : ℕ) : ℤ) := by
    unfold Gen.LowPass.enoughLo; push_cast; omega
  have hhi : Gen.LowPass.enoughHi ((2 * N : ℕ) : ℤ) ((2 * m : ℕ) : ℤ) = ((N : ℕ) : ℤ) := by
    unfold Gen.LowPass.enoughHi; push_cast; omega
  rw [hlo, hhi, sumTo_eq, Finset.sum_Ico_eq_sum_range]
  have hn : (((N : ℕ) : ℤ) - ((m - 1 : ℕ) : ℤ)).toNat = N - (m - 1) := by omega
  rw [hn]
  refine Finset.sum_congr rfl (fun t ht => ?_)
  have ht' : t < N - (m - 1) := by simpa using ht
  unfold Gen.LowPass.enoughSummand
  beta_reduce
  have e1 : (((2 * N : ℕ) : ℤ) / 2 - 1 - (((m - 1 : ℕ) : ℤ) + ((t : ℕ) : ℤ))) = ((N - 1 - (m - 1 + t) : ℕ) : ℤ) := by
    push_cast; omega
  have e2 : (((m - 1 : ℕ) : ℤ) + ((t : ℕ) : ℤ)) = ((m - 1 + t : ℕ) : ℤ) := by push_cast; ring
  have e3 : (((2 * N : ℕ) : ℤ) / 2 - 1) = ((N - 1 : ℕ) : ℤ) := by push_cast; omega
  rw [e1, e2, e3, zpowR_natCast, zpowR_natCast]
  congr 1
  unfold combZ
  rw [if_pos (by constructor <;> omega)]
  have e4 : (((m - 1 : ℕ) : ℤ) + ((t : ℕ) : ℤ)).toNat = m - 1 + t := by omega
  simp [choose_eq, e4]

/-- 0 ≤ P(enough individuals covered) ≤ 1 -/
theorem probEnough_unit (c : List ℚ) (hc : ∀ v ∈ c, 0 ≤ v) (hs : lsum c ≤ 1) (N m : ℕ) (hm1 : 1 ≤ m) (hmN : m ≤ N) :
    0 ≤ probEnough c (2 * N) (2 * m) ∧ probEnough c (2 * N) (2 * m) ≤ 1 := by
  rw [probEnough_eq c N m hm1 hmN]
  have h0 := covAt_nonneg c hc 0
  have ht : 0 ≤ covTail c := by
    rw [covTail_eq]; exact Finset.sum_nonneg (fun k _ => covAt_nonneg c hc (k + 1))
  have hsum : covAt c 0 + covTail c ≤ 1 := by
    have : lsum c = covAt c 0 + covTail c := by
      cases c with
      | nil => simp [covAt, covTail]
      | cons a l => simp [covAt, covTail]
    linarith
  have hterm : ∀ k ∈ range N, 0 ≤ covAt c 0 ^ (N - 1 - k) * covTail c ^ k * ((N - 1).choose k : ℚ) := by
    intro k _; positivity
  constructor
  · exact Finset.sum_nonneg (fun k hk => hterm k (by simp at hk ⊢; omega))
  · have hsub : ∑ k ∈ Ico (m - 1) N, covAt c 0 ^ (N - 1 - k) * covTail c ^ k * ((N - 1).choose k : ℚ)
        ≤ ∑ k ∈ range N, covAt c 0 ^ (N - 1 - k) * covTail c ^ k * ((N - 1).choose k : ℚ) := by
      apply Finset.sum_le_sum_of_subset_of_nonneg
      · intro x hx; simp at hx ⊢; omega
      · intro k hk _; exact hterm k hk
    have hbin : ∑ k ∈ range N, covAt c 0 ^ (N - 1 - k) * covTail c ^ k * ((N - 1).choose k : ℚ)
        = (covTail c + covAt c 0) ^ (N - 1) := by
      rw [add_pow]
      have : N - 1 + 1 = N := by omega
      rw [this]
      refine Finset.sum_congr rfl (fun k _ => ?_)
      ring
    have hle : (covTail c + covAt c 0) ^ (N - 1) ≤ 1 :=
      pow_le_one₀ (by linarith) (by linarith)
    linarith

/-- when depth 0 has probability 0 (and the tail sums to one) enough individuals are always covered -/
theorem probEnough_deep (c : List ℚ) (h0 : covAt c 0 = 0) (ht : covTail c = 1) (N m : ℕ) (hm1 : 1 ≤ m) (hmN : m ≤ N) :
    probEnough c (2 * N) (2 * m) = 1 := by
  rw [probEnough_eq c N m hm1 hmN, h0, ht, Finset.sum_eq_single (N - 1)]
  · simp
  · intro k hk hne
    have : k < N := by simp at hk; omega
    have : N - 1 - k ≠ 0 := by omega
    simp [this]
  · intro h; exfalso; apply h; simp; omega

end DadiVerif.LowPass
