import DadiVerif.Lemmas.PopOpsObs
/-! C10: ONE projection step (`_project_one_axis`) against one bookkeeping step: summing another axis, summing the same
    axis (absorbed: the weights of a row sum to one), projecting another axis, permuting the axes, merging two other
    axes, masking the corners. -/
namespace DadiVerif.PopOps
open Finset

theorem pushL_val_clean {S : FS} (h : Clean S) (f : Idx → Idx) (j : Idx) :
    pushL S.box f S.val j = pushL S.box f S.dat j :=
  pushL_congr _ _ _ _ _ (fun i hi _ => h.val_eq i hi)

/-! ### summing another axis -/

theorem sumAxis_projectAxis_ne (k k' m : Nat) (S : FS) (hc : Clean S) (hne : k ≠ k') (hk : k < S.ndim) (hk' : k' < S.ndim) :
    Obs (sumAxis k' (projectAxis k m S)) (projectAxis (shiftAxis k' k) m (sumAxis k' S)) := by
  have hshape : (S.shape.set k (m + 1)).eraseIdx k' = (S.shape.eraseIdx k').set (shiftAxis k' k) (m + 1) :=
    eraseIdx_set_ne _ k' k _ hne
  have hcl : Clean (sumAxis k' (projectAxis k m S)) :=
    clean_sumAxis k' (by show k' < (S.shape.set k (m + 1)).length; rw [List.length_set]; exact hk') (clean_projectAxis k m hc)
  have hcr : Clean (projectAxis (shiftAxis k' k) m (sumAxis k' S)) := clean_projectAxis _ m (clean_sumAxis k' hk' hc)
  refine ⟨hshape, fun j hj => ?_⟩
  have hj1 : j ∈ boxIdx ((S.shape.set k (m + 1)).eraseIdx k') := hj
  have hml : (sumAxis k' (projectAxis k m S)).msk j = false := hcl.2 j hj
  have hmr : (projectAxis (shiftAxis k' k) m (sumAxis k' S)).msk j = false :=
    hcr.2 j (by show j ∈ boxIdx ((S.shape.eraseIdx k').set (shiftAxis k' k) (m + 1)); rw [← hshape]; exact hj1)
  refine ⟨by rw [hml, hmr], fun _ => ?_⟩
  -- data
  have hlenj : j.length = S.shape.length - 1 := by
    rw [mem_box_length _ _ hj1, List.length_eraseIdx, List.length_set]
    have : k' < S.shape.length := hk'
    simp [this]
  have hk2lt : shiftAxis k' k < j.length := by
    have h1 : k < S.shape.length := hk
    have h2 : k' < S.shape.length := hk'
    rw [hlenj]; unfold shiftAxis; split <;> omega
  have hjk : j.getD (shiftAxis k' k) 0 < m + 1 := by
    have h1 := getD_lt_of_mem_box _ j hj1 (shiftAxis k' k) (by rw [← mem_box_length _ _ hj1]; exact hk2lt)
    rw [getD_eraseIdx_ne _ k' k 0 hne, getD_set_self _ _ _ _ hk] at h1
    exact h1
  have hn : (S.shape.eraseIdx k').getD (shiftAxis k' k) 0 = S.shape.getD k 0 := getD_eraseIdx_ne _ k' k 0 hne
  have e1 : (sumAxis k' (projectAxis k m S)).dat j
      = pushL (boxIdx (S.shape.set k (m + 1))) (fun i => i.eraseIdx k')
          (projDat (projW (S.shape.getD k 0 - 1) m) k (S.shape.getD k 0) S.dat) j := by
    show pushL (projectAxis k m S).box (fun i => i.eraseIdx k') (projectAxis k m S).val j = _
    rw [pushL_val_clean (clean_projectAxis k m hc)]
    rfl
  have e2 : (projectAxis (shiftAxis k' k) m (sumAxis k' S)).dat j
      = projDat (projW (S.shape.getD k 0 - 1) m) (shiftAxis k' k) (S.shape.getD k 0)
          (pushL S.box (fun i => i.eraseIdx k') S.dat) j := by
    rw [projectAxis_dat]
    show projDat (projW ((S.shape.eraseIdx k').getD (shiftAxis k' k) 0 - 1) m) (shiftAxis k' k)
        ((S.shape.eraseIdx k').getD (shiftAxis k' k) 0) (pushL S.box (fun i => i.eraseIdx k') S.val) j = _
    rw [hn]
    unfold projDat
    congr 1
    apply List.map_congr_left
    intro h _
    rw [pushL_val_clean hc]
  rw [e1, e2]
  exact projDat_push_comm _ S.shape (fun i => i.eraseIdx k') k (shiftAxis k' k) (m + 1)
    (fun i _ v => eraseIdx_set_ne i k' k v hne) (fun i _ => getD_eraseIdx_ne i k' k 0 hne) S.dat j hk2lt hjk

/-! ### summing the projected axis itself -/

theorem insertIdx_set_self {α : Type} (j : List α) (k : Nat) (t h : α) (hk : k ≤ j.length) :
    (j.insertIdx k t).set k h = j.insertIdx k h := by
  induction j generalizing k with
  | nil =>
    have : k = 0 := by simpa using hk
    subst this; simp
  | cons c cs ih =>
    cases k with
    | zero => simp
    | succ k => simp only [List.insertIdx_succ_cons, List.set_cons_succ]; rw [ih k (by simpa using hk)]

theorem getD_insertIdx_self (j : List Nat) (k h : Nat) (hk : k ≤ j.length) : (j.insertIdx k h).getD k 0 = h := by
  simp [List.getD_eq_getElem?_getD, List.getElem?_insertIdx_self, hk]

theorem insertIdx_mem_box (sh : List Nat) (k : Nat) (hk : k < sh.length) (j : Idx) (hj : j ∈ boxIdx (sh.eraseIdx k))
    (h : Nat) (hh : h < sh.getD k 0) : j.insertIdx k h ∈ boxIdx sh := by
  rw [mem_boxIdx] at hj ⊢
  have e : sh.getD k 0 = sh[k] := by simp [List.getD_eq_getElem?_getD, List.getElem?_eq_getElem hk]
  have := forall2_insertIdx hj k (show h < sh[k] by rw [← e]; exact hh)
  rwa [List.insertIdx_eraseIdx_getElem hk] at this

/-- the explicit sum over one axis: the contributors of `j` are `j` with a count `h` inserted at position `k` -/
theorem pushL_eraseIdx_eq (sh : List Nat) (k : Nat) (hk : k < sh.length) (x : Idx → ℚ) (j : Idx)
    (hj : j ∈ boxIdx (sh.eraseIdx k)) :
    pushL (boxIdx sh) (fun i => i.eraseIdx k) x j = ∑ h ∈ Finset.range (sh.getD k 0), x (j.insertIdx k h) := by
  have hjl : j.length = sh.length - 1 := by rw [mem_box_length _ _ hj, List.length_eraseIdx]; simp [hk]
  rw [pushL_eq_sum _ (nodup_boxIdx _), ← Finset.sum_filter]
  apply Finset.sum_nbij' (fun i => i.getD k 0) (fun h => j.insertIdx k h)
  · intro i hi
    simp only [Finset.mem_filter, List.mem_toFinset] at hi
    simp only [Finset.mem_range]
    exact getD_lt_of_mem_box sh i hi.1 k hk
  · intro h hh
    simp only [Finset.mem_range] at hh
    simp only [Finset.mem_filter, List.mem_toFinset]
    exact ⟨insertIdx_mem_box sh k hk j hj h hh, List.eraseIdx_insertIdx_self h⟩
  · intro i hi
    simp only [Finset.mem_filter, List.mem_toFinset] at hi
    have hil : k < i.length := by rw [mem_box_length _ _ hi.1]; exact hk
    have e : i.getD k 0 = i[k] := by simp [List.getD_eq_getElem?_getD, List.getElem?_eq_getElem hil]
    show j.insertIdx k (i.getD k 0) = i
    rw [← hi.2, e]; exact List.insertIdx_eraseIdx_getElem hil
  · intro h _
    exact getD_insertIdx_self j k h (by omega)
  · intro i hi
    simp only [Finset.mem_filter, List.mem_toFinset] at hi
    have hil : k < i.length := by rw [mem_box_length _ _ hi.1]; exact hk
    have e : i.getD k 0 = i[k] := by simp [List.getD_eq_getElem?_getD, List.getElem?_eq_getElem hil]
    rw [← hi.2, e, List.insertIdx_eraseIdx_getElem hil]

/-- projecting a population and then summing it away = summing it away (each source count is distributed completely) -/
theorem sumAxis_projectAxis_same (k m : Nat) (S : FS) (hc : Clean S) (hk : k < S.ndim) (hm : m + 1 ≤ S.shape.getD k 0) :
    Obs (sumAxis k (projectAxis k m S)) (sumAxis k S) := by
  have hk0 : k < S.shape.length := hk
  have hshape : (S.shape.set k (m + 1)).eraseIdx k = S.shape.eraseIdx k := List.eraseIdx_set_eq
  have hcl : Clean (sumAxis k (projectAxis k m S)) :=
    clean_sumAxis k (by show k < (S.shape.set k (m + 1)).length; rw [List.length_set]; exact hk) (clean_projectAxis k m hc)
  have hcr : Clean (sumAxis k S) := clean_sumAxis k hk hc
  refine ⟨hshape, fun j hj => ?_⟩
  have hj1 : j ∈ boxIdx ((S.shape.set k (m + 1)).eraseIdx k) := hj
  have hj2 : j ∈ boxIdx (S.shape.eraseIdx k) := by rw [← hshape]; exact hj1
  have hjl : j.length = S.shape.length - 1 := by rw [mem_box_length _ _ hj2, List.length_eraseIdx]; simp [hk0]
  refine ⟨by rw [hcl.2 j hj, hcr.2 j hj2], fun _ => ?_⟩
  have e1 : (sumAxis k (projectAxis k m S)).dat j
      = pushL (boxIdx (S.shape.set k (m + 1))) (fun i => i.eraseIdx k)
          (projDat (projW (S.shape.getD k 0 - 1) m) k (S.shape.getD k 0) S.dat) j := by
    show pushL (projectAxis k m S).box (fun i => i.eraseIdx k) (projectAxis k m S).val j = _
    rw [pushL_val_clean (clean_projectAxis k m hc)]
    rfl
  have e2 : (sumAxis k S).dat j = pushL (boxIdx S.shape) (fun i => i.eraseIdx k) S.dat j := by
    show pushL S.box (fun i => i.eraseIdx k) S.val j = _
    rw [pushL_val_clean hc]; rfl
  rw [e1, e2, pushL_eraseIdx_eq _ k (by rw [List.length_set]; exact hk0) _ j hj1, pushL_eraseIdx_eq _ k hk0 _ j hj2,
    getD_set_self _ _ _ _ hk0]
  unfold projDat
  simp_rw [sum_range_eq, getD_insertIdx_self j k _ (by omega : k ≤ j.length),
    insertIdx_set_self j k _ _ (by omega : k ≤ j.length)]
  rw [Finset.sum_comm]
  apply Finset.sum_congr rfl
  intro h hh
  rw [Finset.mem_range] at hh
  rw [← Finset.sum_mul, ← sum_range_eq, projW_rowsum _ _ _ (by omega) (by omega), one_mul]

/-! ### projecting another axis -/

theorem FS.ext' {S T : FS} (h1 : S.shape = T.shape) (h2 : S.dat = T.dat) (h3 : S.msk = T.msk) (h4 : S.folded = T.folded)
    (h5 : S.labels = T.labels) : S = T := by
  cases S; cases T; simp_all

theorem projectAxis_comm (k m k2 m2 : Nat) (S : FS) (hne : k ≠ k2) :
    projectAxis k m (projectAxis k2 m2 S) = projectAxis k2 m2 (projectAxis k m S) := by
  have hn1 : (S.shape.set k2 (m2 + 1)).getD k 0 = S.shape.getD k 0 := getD_set_ne _ _ _ _ _ (Ne.symm hne)
  have hn2 : (S.shape.set k (m + 1)).getD k2 0 = S.shape.getD k2 0 := getD_set_ne _ _ _ _ _ hne
  apply FS.ext'
  · show (S.shape.set k2 (m2 + 1)).set k (m + 1) = (S.shape.set k (m + 1)).set k2 (m2 + 1)
    exact List.set_comm _ _ (Ne.symm hne)
  · funext j
    rw [projectAxis_dat, projectAxis_dat, projectAxis_dat, projectAxis_dat, projectAxis_shape, projectAxis_shape, hn1, hn2]
    unfold projDat
    simp_rw [sum_range_eq, getD_set_ne j _ _ _ _ hne, getD_set_ne j _ _ _ _ (Ne.symm hne), Finset.mul_sum]
    rw [Finset.sum_comm]
    apply Finset.sum_congr rfl; intro h2 _
    apply Finset.sum_congr rfl; intro h _
    rw [List.set_comm _ _ hne]; ring
  · funext j
    rw [projectAxis_msk, projectAxis_msk, projectAxis_msk, projectAxis_msk, projectAxis_shape, projectAxis_shape, hn1, hn2,
      Bool.eq_iff_iff, projMsk_iff, projMsk_iff]
    constructor
    · rintro ⟨h, hh, hw, hb⟩
      rw [projMsk_iff] at hb
      obtain ⟨h2, hh2, hw2, hb2⟩ := hb
      rw [getD_set_ne j _ _ _ _ hne] at hw2
      refine ⟨h2, hh2, hw2, ?_⟩
      rw [projMsk_iff]
      refine ⟨h, hh, by rw [getD_set_ne j _ _ _ _ (Ne.symm hne)]; exact hw, ?_⟩
      rw [List.set_comm _ _ (Ne.symm hne)]; exact hb2
    · rintro ⟨h2, hh2, hw2, hb⟩
      rw [projMsk_iff] at hb
      obtain ⟨h, hh, hw, hb⟩ := hb
      rw [getD_set_ne j _ _ _ _ (Ne.symm hne)] at hw
      refine ⟨h, hh, hw, ?_⟩
      rw [projMsk_iff]
      refine ⟨h2, hh2, by rw [getD_set_ne j _ _ _ _ hne]; exact hw2, ?_⟩
      rw [List.set_comm _ _ hne]; exact hb
  · rfl
  · rfl

/-! ### permuting the axes -/

theorem permIdx_set (axes : List Nat) (hn : axes.Nodup) (k' : Nat) (hk' : k' < axes.length) (i : Idx)
    (hi : axes.getD k' 0 < i.length) (v : Nat) :
    permIdx 0 axes (i.set (axes.getD k' 0) v) = (permIdx 0 axes i).set k' v := by
  have ek : axes.getD k' 0 = axes[k'] := by simp [List.getD_eq_getElem?_getD, List.getElem?_eq_getElem hk']
  unfold permIdx
  apply List.ext_getElem (by simp)
  intro q h1 h2
  have hq : q < axes.length := by simpa using h1
  simp only [List.getElem_map, List.getElem_set]
  by_cases hqk : k' = q
  · subst hqk
    rw [if_pos rfl, ← ek]
    exact getD_set_self _ _ _ _ hi
  · rw [if_neg hqk]
    apply getD_set_ne
    intro he
    have he' : axes[k'] = axes[q] := ek.symm.trans he
    exact hqk ((List.Nodup.getElem_inj_iff hn).1 he')

theorem permIdx_getD (axes : List Nat) (k' : Nat) (hk' : k' < axes.length) (i : Idx) :
    (permIdx 0 axes i).getD k' 0 = i.getD (axes.getD k' 0) 0 := by
  unfold permIdx
  simp [List.getD_eq_getElem?_getD, List.getElem?_eq_getElem hk']

/-- reordering the populations commutes with projecting one of them (any masks) -/
theorem reorderCore_projectAxis (axes : List Nat) (k' m : Nat) (S : FS) (hp : axes.Perm (List.range S.ndim))
    (hk' : k' < S.ndim) :
    Obs (reorderCore axes (projectAxis (axes.getD k' 0) m S)) (projectAxis k' m (reorderCore axes S)) := by
  have hnod : axes.Nodup := hp.nodup_iff.2 List.nodup_range
  have hlen : axes.length = S.shape.length := by rw [hp.length_eq]; simp [FS.ndim]
  have hk'a : k' < axes.length := by rw [hlen]; exact hk'
  set k := axes.getD k' 0 with hkdef
  have hk : k < S.shape.length := by
    have : k ∈ axes := by
      rw [hkdef]; simp [List.getD_eq_getElem?_getD, List.getElem?_eq_getElem hk'a]
    have := hp.mem_iff.1 this
    simpa [FS.ndim] using this
  have hset : ∀ i : Idx, i.length = S.shape.length → ∀ v, permIdx 0 axes (i.set k v) = (permIdx 0 axes i).set k' v :=
    fun i hi v => permIdx_set axes hnod k' hk'a i (by rw [hi]; exact hk) v
  have hget : ∀ i : Idx, i.length = S.shape.length → (permIdx 0 axes i).getD k' 0 = i.getD k 0 :=
    fun i _ => permIdx_getD axes k' hk'a i
  have hshape : permIdx 0 axes (S.shape.set k (m + 1)) = (permIdx 0 axes S.shape).set k' (m + 1) := hset S.shape rfl _
  have hn : (permIdx 0 axes S.shape).getD k' 0 = S.shape.getD k 0 := hget S.shape rfl
  refine ⟨hshape, fun j hj => ?_⟩
  have hj1 : j ∈ boxIdx (permIdx 0 axes (S.shape.set k (m + 1))) := hj
  have hjl : k' < j.length := by rw [mem_box_length _ _ hj1]; simp [permIdx, hk'a]
  have hjk : j.getD k' 0 < m + 1 := by
    have h1 := getD_lt_of_mem_box _ j hj1 k' (by simp [permIdx, hk'a])
    rw [hshape, getD_set_self _ _ _ _ (by simp [permIdx, hk'a])] at h1
    exact h1
  have hmsk : (reorderCore axes (projectAxis k m S)).msk j = (projectAxis k' m (reorderCore axes S)).msk j := by
    have e1 : (reorderCore axes (projectAxis k m S)).msk j
        = anyL (boxIdx (S.shape.set k (m + 1))) (permIdx 0 axes) (projectAxis k m S).msk j := rfl
    rw [e1, projectAxis_msk, projectAxis_msk]
    show anyL (boxIdx (S.shape.set k (m + 1))) (permIdx 0 axes) (projMsk k (S.shape.getD k 0) m S.msk) j
        = projMsk k' ((permIdx 0 axes S.shape).getD k' 0) m (anyL S.box (permIdx 0 axes) S.msk) j
    rw [hn]
    exact projMsk_any_comm S.shape (permIdx 0 axes) k k' (m + 1) m hset hget S.msk j hjl hjk
  refine ⟨hmsk, fun _ => ?_⟩
  rw [projectAxis_dat]
  show pushL (boxIdx (S.shape.set k (m + 1))) (permIdx 0 axes) (projDat (projW (S.shape.getD k 0 - 1) m) k (S.shape.getD k 0) S.dat) j
      = projDat (projW ((permIdx 0 axes S.shape).getD k' 0 - 1) m) k' ((permIdx 0 axes S.shape).getD k' 0)
          (pushL S.box (permIdx 0 axes) S.dat) j
  rw [hn]
  exact projDat_push_comm _ S.shape (permIdx 0 axes) k k' (m + 1) hset hget S.dat j hjl hjk

/-! ### merging two other axes -/

theorem merge2_set_ne (a b k : Nat) (hka : k ≠ a) (hkb : k ≠ b) (i : Idx) (v : Nat) :
    merge2 a b (i.set k v) = (merge2 a b i).set (shiftAxis b k) v := by
  rw [merge2_eq, merge2_eq, getD_set_ne _ _ _ _ _ hka, getD_set_ne _ _ _ _ _ hkb, List.set_comm _ _ hka,
    eraseIdx_set_ne _ b k v hkb]

theorem merge2_getD_ne (a b k : Nat) (hka : k ≠ a) (hkb : k ≠ b) (i : Idx) :
    (merge2 a b i).getD (shiftAxis b k) 0 = i.getD k 0 := by
  rw [merge2_eq, getD_eraseIdx_ne _ b k 0 hkb, getD_set_ne _ _ _ _ _ (Ne.symm hka)]

theorem merge2_length (a b : Nat) (i : Idx) (hb : b < i.length) : (merge2 a b i).length = i.length - 1 := by
  rw [merge2_eq, List.length_eraseIdx, List.length_set]; simp [hb]

theorem getD_map_succ (l : List Nat) (k : Nat) (hk : k < l.length) : (l.map (· + 1)).getD k 0 = l.getD k 0 + 1 := by
  simp [List.getD_eq_getElem?_getD, List.getElem?_eq_getElem hk]

theorem mergeShape_set_ne (a b k m : Nat) (hka : k ≠ a) (hkb : k ≠ b) (sh : List Nat) :
    mergeShape a b (sh.set k (m + 1)) = (mergeShape a b sh).set (shiftAxis b k) (m + 1) := by
  show (merge2 a b ((sh.set k (m + 1)).map (· - 1))).map (· + 1) = ((merge2 a b (sh.map (· - 1))).map (· + 1)).set _ _
  rw [map_pred_set, merge2_set_ne a b k hka hkb, List.map_set]

theorem mergeShape_length (a b : Nat) (sh : List Nat) (hb : b < sh.length) : (mergeShape a b sh).length = sh.length - 1 := by
  show ((merge2 a b (sh.map (· - 1))).map (· + 1)).length = _
  rw [List.length_map, merge2_length _ _ _ (by simpa using hb)]; simp

theorem shiftAxis_lt (b k n : Nat) (hb : b < n) (hk : k < n) (hkb : k ≠ b) : shiftAxis b k < n - 1 := by
  unfold shiftAxis; split <;> omega

theorem mergeShape_getD_ne (a b k : Nat) (hka : k ≠ a) (hkb : k ≠ b) (sh : List Nat) (hb : b < sh.length) (hk : k < sh.length)
    (hpos : 1 ≤ sh.getD k 0) : (mergeShape a b sh).getD (shiftAxis b k) 0 = sh.getD k 0 := by
  show ((merge2 a b (sh.map (· - 1))).map (· + 1)).getD _ 0 = _
  rw [getD_map_succ _ _ (by rw [merge2_length _ _ _ (by simpa using hb)]; simpa using shiftAxis_lt b k sh.length hb hk hkb),
    merge2_getD_ne a b k hka hkb, getD_map_pred]
  omega

/-- merging two populations commutes with projecting a third one (any masks; the corners the merge masks are the corners the
    projection reaches from the masked corners) -/
theorem combineTwoCore_projectAxis (a b k m : Nat) (S : FS) (hb : b < S.ndim) (hk : k < S.ndim)
    (hka : k ≠ a) (hkb : k ≠ b) (hm : m + 1 ≤ S.shape.getD k 0) :
    Obs (combineTwoCore a b (projectAxis k m S)) (projectAxis (shiftAxis b k) m (combineTwoCore a b S)) := by
  have hb0 : b < S.shape.length := hb
  have hk0 : k < S.shape.length := hk
  set k2 := shiftAxis b k with hk2def
  have hset : ∀ i : Idx, i.length = S.shape.length → ∀ v, merge2 a b (i.set k v) = (merge2 a b i).set k2 v :=
    fun i _ v => merge2_set_ne a b k hka hkb i v
  have hget : ∀ i : Idx, i.length = S.shape.length → (merge2 a b i).getD k2 0 = i.getD k 0 :=
    fun i _ => merge2_getD_ne a b k hka hkb i
  have hshape : mergeShape a b (S.shape.set k (m + 1)) = (mergeShape a b S.shape).set k2 (m + 1) :=
    mergeShape_set_ne a b k m hka hkb S.shape
  have hn : (mergeShape a b S.shape).getD k2 0 = S.shape.getD k 0 :=
    mergeShape_getD_ne a b k hka hkb S.shape hb0 hk0 (by omega)
  have hk2len : k2 < (mergeShape a b S.shape).length := by
    rw [mergeShape_length _ _ _ hb0]; exact shiftAxis_lt b k _ hb0 hk0 hkb
  refine ⟨hshape, fun j hj => ?_⟩
  have hj1 : j ∈ boxIdx (mergeShape a b (S.shape.set k (m + 1))) := hj
  have hj2 : j ∈ boxIdx ((mergeShape a b S.shape).set k2 (m + 1)) := by rw [← hshape]; exact hj1
  have hjl : k2 < j.length := by rw [mem_box_length _ _ hj2, List.length_set]; exact hk2len
  have hjk : j.getD k2 0 < m + 1 := by
    have h1 := getD_lt_of_mem_box _ j hj2 k2 (by rw [List.length_set]; exact hk2len)
    rw [getD_set_self _ _ _ _ hk2len] at h1
    exact h1
  have hmsk : (combineTwoCore a b (projectAxis k m S)).msk j = (projectAxis k2 m (combineTwoCore a b S)).msk j := by
    rw [combineTwoCore_msk, projectAxis_msk, projectAxis_msk]
    show (anyL (boxIdx (S.shape.set k (m + 1))) (merge2 a b) (projMsk k (S.shape.getD k 0) m S.msk) j
          || isCorner (mergeShape a b (S.shape.set k (m + 1))) j)
        = projMsk k2 ((mergeShape a b S.shape).getD k2 0) m (combineTwoCore a b S).msk j
    have : (combineTwoCore a b S).msk
        = fun i => anyL S.box (merge2 a b) S.msk i || isCorner (mergeShape a b S.shape) i := by
      funext i; exact combineTwoCore_msk a b S i
    rw [this, projMsk_or, hn, hshape]
    congr 1
    · exact projMsk_any_comm S.shape (merge2 a b) k k2 (m + 1) m hset hget S.msk j hjl hjk
    · rw [← hn]
      exact (projMsk_isCorner (mergeShape a b S.shape) k2 m hk2len (by rw [hn]; exact hm) j hj2).symm
  refine ⟨hmsk, fun hmf => ?_⟩
  -- data: an unmasked result cell has only contributors whose in-window sources are unmasked
  rw [projectAxis_dat]
  show pushL (boxIdx (S.shape.set k (m + 1))) (merge2 a b) (projectAxis k m S).val j
      = projDat (projW ((mergeShape a b S.shape).getD k2 0 - 1) m) k2 ((mergeShape a b S.shape).getD k2 0)
          (pushL (boxIdx S.shape) (merge2 a b) S.val) j
  rw [hn, ← projDat_push_comm _ S.shape (merge2 a b) k k2 (m + 1) hset hget S.val j hjl hjk]
  apply pushL_congr
  intro i' hi' hij
  have hmi' : (projectAxis k m S).msk i' = false := by
    rw [combineTwoCore_msk, Bool.or_eq_false_iff] at hmf
    exact (anyL_false_iff _ _ _ _).1 hmf.1 i' hi' hij
  unfold FS.val
  rw [hmi']
  simp only [Bool.false_eq_true, if_false]
  rw [projectAxis_dat]
  unfold projDat
  congr 1
  apply List.map_congr_left
  intro h hh
  rw [List.mem_range] at hh
  by_cases hw : m - (S.shape.getD k 0 - 1 - h) ≤ i'.getD k 0 ∧ i'.getD k 0 ≤ min h m
  · have : S.msk (i'.set k h) = false := by
      rw [projectAxis_msk] at hmi'
      by_contra hc
      have : projMsk k (S.shape.getD k 0) m S.msk i' = true :=
        (projMsk_iff _ _ _ _ _).2 ⟨h, hh, hw, by simpa using hc⟩
      rw [this] at hmi'; exact absurd hmi' (by simp)
    simp [this]
  · rw [projW_zero_of_not_win _ _ _ _ (by omega) hw]; simp

/-! ### masking the corners -/

theorem projectAxis_maskCorners (k m : Nat) (S : FS) (hk : k < S.ndim) (hm : m + 1 ≤ S.shape.getD k 0) :
    Obs (projectAxis k m (maskCorners S)) (maskCorners (projectAxis k m S)) := by
  refine ⟨rfl, fun j hj => ⟨?_, fun _ => rfl⟩⟩
  have hj1 : j ∈ boxIdx (S.shape.set k (m + 1)) := hj
  have e1 : (maskCorners (projectAxis k m S)).msk j = ((projectAxis k m S).msk j || isCorner (S.shape.set k (m + 1)) j) := rfl
  rw [e1, projectAxis_msk, projectAxis_msk]
  show projMsk k (S.shape.getD k 0) m (fun i => S.msk i || isCorner S.shape i) j
      = (projMsk k (S.shape.getD k 0) m S.msk j || isCorner (S.shape.set k (m + 1)) j)
  rw [projMsk_or, projMsk_isCorner S.shape k m hk hm j hj1]

end DadiVerif.PopOps
