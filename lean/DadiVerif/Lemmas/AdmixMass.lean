import DadiVerif.Lemmas.Admix
import Mathlib.Algebra.BigOperators.Group.List.Basic
/-!
C06, round 4: total mass (`massFrom` / `totalMass` of Model/Admix.lean: the full d-dimensional trapezoid sum, iterated
`Numerics.trapz`).  Fubini for `massFrom` (any axis can be integrated first, `massFrom_removeAxis`), the last axis
(`massFrom_append`), dependence on the box only (`massFrom_congr`), the explicit weighted sum over the box
(`massFrom_eq_sum`) and invariance under a permutation of the axes (`massFrom_reorder`).
-/
namespace DadiVerif.Admix
open Finset

/-- multi-index inside the box spanned by the grids -/
def InBox (gs : List (Array ℚ)) (idx : Idx) : Prop :=
  idx.length = gs.length ∧ ∀ m, m < gs.length → idx.getD m 0 < (gs.getD m #[]).size

theorem massFrom_cons (g : Array ℚ) (gs : List (Array ℚ)) (F : Idx → ℚ) :
    massFrom (g :: gs) F = ∑ k ∈ range g.size, trapzW g k * massFrom gs (fun idx => F (k :: idx)) := by
  show trapzLine g _ = _
  rw [trapzLine_eq_weights]

theorem InBox.cons {g : Array ℚ} {gs : List (Array ℚ)} {k : ℕ} {idx : Idx} (hk : k < g.size) (h : InBox gs idx) :
    InBox (g :: gs) (k :: idx) := by
  refine ⟨by simp [h.1], ?_⟩
  intro m hm
  cases m with
  | zero => simpa using hk
  | succ m => simpa using h.2 m (by simpa using hm)

/-- the mass only sees the entries inside the box -/
theorem massFrom_congr : ∀ (gs : List (Array ℚ)) (F G : Idx → ℚ), (∀ idx, InBox gs idx → F idx = G idx) →
    massFrom gs F = massFrom gs G := by
  intro gs
  induction gs with
  | nil => intro F G h; exact h [] ⟨rfl, fun m hm => by simp at hm⟩
  | cons g gs ih =>
    intro F G h
    rw [massFrom_cons, massFrom_cons]
    apply Finset.sum_congr rfl
    intro k hk
    rw [ih _ _ (fun idx hb => h (k :: idx) (hb.cons (Finset.mem_range.1 hk)))]

theorem massFrom_linear {ι : Type} (s : Finset ι) (c : ι → ℚ) : ∀ (gs : List (Array ℚ)) (F : ι → Idx → ℚ),
    massFrom gs (fun j => ∑ k ∈ s, c k * F k j) = ∑ k ∈ s, c k * massFrom gs (F k) := by
  intro gs
  induction gs with
  | nil => intro F; rfl
  | cons g gs ih =>
    intro F
    rw [massFrom_cons]
    simp only [massFrom_cons, ih (fun k idx => F k (_ :: idx)), Finset.mul_sum]
    rw [Finset.sum_comm]
    apply Finset.sum_congr rfl
    intro k _
    apply Finset.sum_congr rfl
    intro x _
    ring

/-- the last axis can be integrated first -/
theorem massFrom_append : ∀ (gs : List (Array ℚ)) (zz : Array ℚ) (F : Idx → ℚ),
    massFrom (gs ++ [zz]) F = massFrom gs (fun idx => ∑ k ∈ range zz.size, trapzW zz k * F (idx ++ [k])) := by
  intro gs
  induction gs with
  | nil =>
    intro zz F
    show massFrom [zz] F = _
    rw [massFrom_cons]
    rfl
  | cons g gs ih =>
    intro zz F
    rw [List.cons_append, massFrom_cons, massFrom_cons]
    apply Finset.sum_congr rfl
    intro k _
    rw [ih zz (fun idx => F (k :: idx))]
    rfl

/-- Fubini: any axis `a` can be integrated first -/
theorem massFrom_removeAxis : ∀ (a : ℕ) (gs : List (Array ℚ)) (F : Idx → ℚ), a < gs.length →
    massFrom gs F = massFrom (gs.eraseIdx a)
      (fun j => ∑ k ∈ range (gs.getD a #[]).size, trapzW (gs.getD a #[]) k * F (j.insertIdx a k)) := by
  intro a
  induction a with
  | zero =>
    intro gs F h
    cases gs with
    | nil => simp at h
    | cons g gs =>
      rw [massFrom_cons]
      simp only [List.eraseIdx_zero, List.tail_cons, List.getD_cons_zero, List.insertIdx_zero]
      rw [massFrom_linear (range g.size) (trapzW g) gs (fun k idx => F (k :: idx))]
  | succ a ih =>
    intro gs F h
    cases gs with
    | nil => simp at h
    | cons g gs =>
      rw [massFrom_cons, List.eraseIdx_cons_succ, massFrom_cons]
      apply Finset.sum_congr rfl
      intro k _
      rw [ih gs (fun idx => F (k :: idx)) (by simpa using h)]
      simp only [List.getD_cons_succ, List.insertIdx_succ_cons]

/-! ### explicit sum over the box -/

/-- all multi-indices of a box with the given extents -/
def boxF : List ℕ → Finset Idx
  | [] => {[]}
  | n :: ns => ((range n) ×ˢ (boxF ns)).image (fun p => p.1 :: p.2)

/-- product of the trapezoid node weights of a multi-index -/
def wprod : List (Array ℚ) → Idx → ℚ
  | g :: gs, i :: is => trapzW g i * wprod gs is
  | [], [] => 1
  | _, _ => 0

theorem mem_boxF : ∀ (ns : List ℕ) (idx : Idx),
    idx ∈ boxF ns ↔ idx.length = ns.length ∧ ∀ m, m < ns.length → idx.getD m 0 < ns.getD m 0 := by
  intro ns
  induction ns with
  | nil =>
    intro idx
    simp [boxF]
  | cons n ns ih =>
    intro idx
    simp only [boxF, Finset.mem_image, Finset.mem_product, Finset.mem_range, Prod.exists]
    constructor
    · rintro ⟨k, is, ⟨hk, his⟩, rfl⟩
      obtain ⟨h1, h2⟩ := (ih is).1 his
      refine ⟨by simp [h1], ?_⟩
      intro m hm
      cases m with
      | zero => simpa using hk
      | succ m => simpa using h2 m (by simpa using hm)
    · rintro ⟨h1, h2⟩
      cases idx with
      | nil => simp at h1
      | cons k is =>
        refine ⟨k, is, ⟨by simpa using h2 0 (by simp), (ih is).2 ⟨by simpa using h1, ?_⟩⟩, rfl⟩
        intro m hm
        simpa using h2 (m + 1) (by simpa using hm)

theorem getD_map_size (gs : List (Array ℚ)) (m : ℕ) : (gs.map Array.size).getD m 0 = (gs.getD m #[]).size := by
  rw [List.getD_eq_getElem?_getD, List.getD_eq_getElem?_getD, List.getElem?_map]
  cases gs[m]? <;> simp

theorem mem_boxF_iff_InBox (gs : List (Array ℚ)) (idx : Idx) : idx ∈ boxF (gs.map Array.size) ↔ InBox gs idx := by
  rw [mem_boxF]
  unfold InBox
  simp only [List.length_map, getD_map_size]

/-- the iterated trapezoid rule is the weighted sum over the box -/
theorem massFrom_eq_sum : ∀ (gs : List (Array ℚ)) (F : Idx → ℚ),
    massFrom gs F = ∑ idx ∈ boxF (gs.map Array.size), wprod gs idx * F idx := by
  intro gs
  induction gs with
  | nil => intro F; simp [massFrom, boxF, wprod]
  | cons g gs ih =>
    intro F
    rw [massFrom_cons]
    simp only [List.map_cons, boxF]
    rw [Finset.sum_image]
    · rw [Finset.sum_product]
      apply Finset.sum_congr rfl
      intro k _
      rw [ih, Finset.mul_sum]
      apply Finset.sum_congr rfl
      intro is _
      simp only [wprod]
      ring
    · rintro ⟨a, b⟩ _ ⟨c, d⟩ _ h
      simp only [List.cons.injEq] at h
      exact Prod.ext h.1 h.2

theorem wprod_map (G : ℕ → Array ℚ) (I : ℕ → ℕ) : ∀ (axes : List ℕ),
    wprod (axes.map G) (axes.map I) = (axes.map fun a => trapzW (G a) (I a)).prod := by
  intro axes
  induction axes with
  | nil => simp [wprod]
  | cons a as ih => simp only [List.map_cons, wprod, List.prod_cons, ih]

theorem wprod_range : ∀ (gs : List (Array ℚ)) (idx : Idx), idx.length = gs.length →
    wprod gs idx = ((List.range gs.length).map fun a => trapzW (gs.getD a #[]) (idx.getD a 0)).prod := by
  intro gs
  induction gs with
  | nil => intro idx h; have : idx = [] := by simpa using h
           subst this; simp [wprod]
  | cons g gs ih =>
    intro idx h
    cases idx with
    | nil => simp at h
    | cons i is =>
      simp only [wprod, List.length_cons, List.range_succ_eq_map, List.map_cons, List.map_map, List.prod_cons,
        List.getD_cons_zero]
      rw [ih is (by simpa using h)]
      congr 1

/-- the index map of `numpy.transpose` and its inverse -/
def permIdx (axes : List ℕ) (i : Idx) : Idx := axes.map fun a => i.getD a 0
def unpermIdx (axes : List ℕ) (d : ℕ) (j : Idx) : Idx := (List.range d).map fun a => j.getD (axes.idxOf a) 0

theorem unperm_perm (axes : List ℕ) (d : ℕ) (i : Idx) (hi : i.length = d) (hcov : ∀ a, a < d → a ∈ axes) :
    unpermIdx axes d (permIdx axes i) = i := by
  unfold unpermIdx permIdx
  apply List.ext_getElem
  · simp [hi]
  · intro n h1 h2
    simp only [List.length_map, List.length_range] at h1
    simp only [List.getElem_map, List.getElem_range]
    have hmem := hcov n h1
    have hlt := List.idxOf_lt_length_of_mem hmem
    rw [List.getD_eq_getElem?_getD, List.getElem?_map, List.getElem?_eq_getElem hlt]
    simp only [Option.map_some, Option.getD_some, List.getElem_idxOf hlt]
    rw [List.getD_eq_getElem?_getD, List.getElem?_eq_getElem h2]; rfl

theorem perm_unperm (axes : List ℕ) (d : ℕ) (j : Idx) (hj : j.length = axes.length) (hnd : axes.Nodup)
    (hval : ∀ a ∈ axes, a < d) : permIdx axes (unpermIdx axes d j) = j := by
  unfold unpermIdx permIdx
  apply List.ext_getElem
  · simp [hj]
  · intro n h1 h2
    simp only [List.length_map] at h1
    simp only [List.getElem_map]
    have ha : axes[n] < d := hval _ (List.getElem_mem h1)
    rw [List.getD_eq_getElem?_getD, List.getElem?_map, List.getElem?_range ha]
    simp only [Option.map_some, Option.getD_some]
    rw [hnd.idxOf_getElem n h1, List.getD_eq_getElem?_getD, List.getElem?_eq_getElem h2]; rfl

theorem axes_perm_range (axes : List ℕ) (d : ℕ) (hlen : axes.length = d) (hnd : axes.Nodup) (hval : ∀ a ∈ axes, a < d) :
    axes.Perm (List.range d) := by
  apply (List.subperm_of_subset hnd (fun a ha => List.mem_range.2 (hval a ha))).perm_of_length_le
  simp [hlen]

/-- the full trapezoid sum is invariant under a permutation of the axes (grids permuted alike) -/
theorem massFrom_reorder (axes : List ℕ) (grids : List (Array ℚ)) (F : Idx → ℚ)
    (hlen : axes.length = grids.length) (hnd : axes.Nodup) (hcov : ∀ a, a < grids.length → a ∈ axes)
    (hval : ∀ a ∈ axes, a < grids.length) :
    massFrom (axes.map fun a => grids.getD a #[]) (fun j => F (unpermIdx axes grids.length j)) = massFrom grids F := by
  rw [massFrom_eq_sum, massFrom_eq_sum]
  symm
  apply Finset.sum_nbij' (permIdx axes) (unpermIdx axes grids.length)
  · intro i hi
    rw [mem_boxF_iff_InBox] at hi ⊢
    refine ⟨by simp [permIdx], ?_⟩
    intro m hm
    simp only [List.length_map] at hm
    have ha : axes[m] < grids.length := hval _ (List.getElem_mem hm)
    unfold permIdx
    rw [List.getD_eq_getElem?_getD, List.getElem?_map, List.getElem?_eq_getElem hm,
      List.getD_eq_getElem?_getD (l := axes.map _), List.getElem?_map, List.getElem?_eq_getElem hm]
    simpa using hi.2 _ ha
  · intro j hj
    rw [mem_boxF_iff_InBox] at hj ⊢
    refine ⟨by simp [unpermIdx], ?_⟩
    intro a ha
    have hmem := hcov a ha
    have hlt := List.idxOf_lt_length_of_mem hmem
    have := hj.2 (axes.idxOf a) (by simpa using hlt)
    unfold unpermIdx
    rw [List.getD_eq_getElem?_getD, List.getElem?_map, List.getElem?_range ha]
    rw [List.getD_eq_getElem?_getD (l := axes.map _), List.getElem?_map, List.getElem?_eq_getElem hlt] at this
    simpa [List.getElem_idxOf hlt] using this
  · intro i hi
    rw [mem_boxF_iff_InBox] at hi
    exact unperm_perm axes grids.length i hi.1 hcov
  · intro j hj
    rw [mem_boxF_iff_InBox] at hj
    exact perm_unperm axes grids.length j (by simpa using hj.1) hnd hval
  · intro i hi
    rw [mem_boxF_iff_InBox] at hi
    rw [unperm_perm axes grids.length i hi.1 hcov]
    congr 1
    unfold permIdx
    rw [wprod_map (fun a => grids.getD a #[]) (fun a => i.getD a 0) axes, wprod_range grids i hi.1]
    exact ((axes_perm_range axes grids.length hlen hnd hval).map _).prod_eq.symm

/-! ### densities: total mass under remove / reorder / constructors / pulses -/

theorem InBox.of_cons {g : Array ℚ} {gs : List (Array ℚ)} {k : ℕ} {idx : Idx} (h : InBox (g :: gs) (k :: idx)) :
    k < g.size ∧ InBox gs idx := by
  refine ⟨by simpa using h.2 0 (by simp), by simpa using h.1, ?_⟩
  intro m hm
  simpa using h.2 (m + 1) (by simpa using hm)

theorem InBox.insertIdx : ∀ (a : ℕ) (gs : List (Array ℚ)) (j : Idx) (k : ℕ), a < gs.length →
    InBox (gs.eraseIdx a) j → k < (gs.getD a #[]).size → InBox gs (j.insertIdx a k) := by
  intro a
  induction a with
  | zero =>
    intro gs j k ha hj hk
    cases gs with
    | nil => simp at ha
    | cons g gs => simpa using InBox.cons (by simpa using hk) (by simpa using hj)
  | succ a ih =>
    intro gs j k ha hj hk
    cases gs with
    | nil => simp at ha
    | cons g gs =>
      rw [List.eraseIdx_cons_succ] at hj
      cases j with
      | nil => have := hj.1; simp at this
      | cons i j =>
        obtain ⟨hi, hj'⟩ := hj.of_cons
        rw [List.insertIdx_succ_cons]
        exact InBox.cons hi (ih gs j k (by simpa using ha) hj' (by simpa using hk))

/-- removing a population (integrating its axis with its own grid) preserves the total mass -/
theorem removeAxis_mass (grids : List (Array ℚ)) (a : ℕ) (P : Dens) (ha : a < grids.length) :
    totalMass (grids.eraseIdx a) (removeAxis (grids.getD a #[]) a P) = totalMass grids P := by
  unfold totalMass
  rw [massFrom_removeAxis a grids P.f ha]
  apply massFrom_congr
  intro j _
  rw [removeAxis_f]

/-- `reorder_pops` preserves the total mass (grids permuted alike) -/
theorem reorderAxes_mass (axes : List ℕ) (grids : List (Array ℚ)) (P : Dens) (hd : P.shape.length = grids.length)
    (hlen : axes.length = grids.length) (hnd : axes.Nodup) (hcov : ∀ a, a < grids.length → a ∈ axes)
    (hval : ∀ a ∈ axes, a < grids.length) :
    totalMass (axes.map fun a => grids.getD a #[]) (reorderAxes axes P) = totalMass grids P := by
  unfold totalMass
  rw [← massFrom_reorder axes grids P.f hlen hnd hcov hval, ← hd]
  rfl

/-- a constructor preserves the total mass as soon as every cell of the box is deposited well -/
theorem newPopRaw_mass (grids : List (Array ℚ)) (zz : Array ℚ) (coefs : List ℚ) (P : Dens) (h2 : 2 ≤ zz.size)
    (hok : ∀ idx, InBox grids idx → DepositOk zz (P.f idx) (adZ grids coefs idx)) :
    totalMass (grids ++ [zz]) (newPopRaw grids zz coefs P) = totalMass grids P := by
  unfold totalMass
  rw [massFrom_append]
  apply massFrom_congr
  intro idx hb
  have := newPop_marginal grids zz coefs P idx h2 (hok idx hb)
  rw [removeAxis_f] at this
  simpa only [List.insertIdx_length_self] using this

/-- a pulse preserves the total mass as soon as every cell of the box is deposited well -/
theorem pulseRaw_mass (grids gridsC : List (Array ℚ)) (coefs : List ℚ) (dest : ℕ) (P : Dens) (hd : dest < grids.length)
    (h2 : 2 ≤ (grids.getD dest #[]).size)
    (hok : ∀ idx, InBox grids idx → DepositOk (grids.getD dest #[]) (P.f idx) (adZ gridsC coefs idx)) :
    totalMass grids (pulseRaw gridsC (grids.getD dest #[]) (grids.getD dest #[]) coefs dest P) = totalMass grids P := by
  unfold totalMass
  rw [massFrom_removeAxis dest grids _ hd, massFrom_removeAxis dest grids P.f hd]
  apply massFrom_congr
  intro j hj
  have hjl : dest ≤ j.length := by
    have := hj.1; rw [List.length_eraseIdx_of_lt hd] at this; omega
  have := pulse_marginal gridsC (grids.getD dest #[]) coefs dest P j hjl h2
    (fun k hk => hok _ (InBox.insertIdx dest grids j k hd hj hk))
  rwa [removeAxis_f, removeAxis_f] at this

/-! ### the public wrappers `reorder_pops`, `remove_pop`, `filter_pops` -/

theorem insertAsc_perm (a : ℕ) : ∀ l : List ℕ, (insertAsc a l).Perm (a :: l) := by
  intro l
  induction l with
  | nil => exact List.Perm.refl _
  | cons b l ih =>
    unfold insertAsc
    split
    · exact List.Perm.refl _
    · exact (ih.cons b).trans (List.Perm.swap a b l)

theorem sortAsc_perm : ∀ l : List ℕ, (sortAsc l).Perm l := by
  intro l
  induction l with
  | nil => exact List.Perm.refl _
  | cons a l ih =>
    show (insertAsc a (sortAsc l)).Perm (a :: l)
    exact (insertAsc_perm a _).trans (ih.cons a)

/-- what the guard of `reorder_pops` (`sorted(neworder) == [1..ndim]`) gives: the 0-based axes are a permutation of `range d` -/
theorem reorderPops_axes (neworder : List ℕ) (P Q : Dens) (h : reorderPops neworder P = some Q) :
    Q = reorderAxes (neworder.map (· - 1)) P ∧ (neworder.map (· - 1)).Perm (List.range P.shape.length) := by
  unfold reorderPops at h
  split at h
  · rename_i hs
    refine ⟨(Option.some.inj h).symm, ?_⟩
    have h1 : neworder.Perm ((List.range P.shape.length).map (· + 1)) := by
      rw [← hs]; exact (sortAsc_perm neworder).symm
    have h2 := h1.map (· - 1)
    simpa [List.map_map, Function.comp_def] using h2
  · exact absurd h (by simp)

theorem reorderPops_mass (neworder : List ℕ) (grids : List (Array ℚ)) (P Q : Dens) (hd : P.shape.length = grids.length)
    (h : reorderPops neworder P = some Q) :
    totalMass (neworder.map fun n => grids.getD (n - 1) #[]) Q = totalMass grids P := by
  obtain ⟨rfl, hp⟩ := reorderPops_axes neworder P Q h
  rw [hd] at hp
  have := reorderAxes_mass (neworder.map (· - 1)) grids P hd (by simpa using hp.length_eq)
    (hp.nodup_iff.2 List.nodup_range) (fun a ha => hp.mem_iff.2 (List.mem_range.2 ha))
    (fun a ha => List.mem_range.1 (hp.mem_iff.1 ha))
  simpa [List.map_map, Function.comp_def] using this

theorem removePop_mass (xx : Array ℚ) (p : ℕ) (P Q : Dens) (h : removePop xx p P = some Q) :
    Q.shape.length + 1 = P.shape.length ∧
    totalMass (List.replicate Q.shape.length xx) Q = totalMass (List.replicate P.shape.length xx) P := by
  unfold removePop at h
  split at h
  · exact absurd h (by simp)
  · rename_i hc
    have hc' : 1 ≤ p ∧ p ≤ P.shape.length := by omega
    have hQ : Q = removeAxis xx (p - 1) P := (Option.some.inj h).symm
    subst hQ
    have hl : (removeAxis xx (p - 1) P).shape.length + 1 = P.shape.length := by
      show (P.shape.eraseIdx (p - 1)).length + 1 = _
      rw [List.length_eraseIdx_of_lt (by omega)]; omega
    refine ⟨hl, ?_⟩
    have := removeAxis_mass (List.replicate P.shape.length xx) (p - 1) P (by simp; omega)
    rw [List.eraseIdx_replicate, if_pos (by omega)] at this
    have e : (List.replicate P.shape.length xx).getD (p - 1) #[] = xx := by
      rw [List.getD_eq_getElem?_getD, List.getElem?_replicate, if_pos (by omega)]; rfl
    rw [e] at this
    have e2 : (removeAxis xx (p - 1) P).shape.length = P.shape.length - 1 := by omega
    rw [e2]; exact this

/-- `filter_pops` (every population on the one grid `xx`, as the function requires) preserves the total mass -/
theorem filterPops_mass (xx : Array ℚ) (keep : List ℕ) (P Q : Dens) (h : filterPops xx keep P = some Q) :
    totalMass (List.replicate Q.shape.length xx) Q = totalMass (List.replicate P.shape.length xx) P := by
  unfold filterPops at h
  split at h
  · exact absurd h (by simp)
  · rename_i rm _
    have key : ∀ (l : List ℕ) (A B : Dens), l.foldlM (fun acc p => removePop xx p acc) A = some B →
        totalMass (List.replicate B.shape.length xx) B = totalMass (List.replicate A.shape.length xx) A := by
      intro l
      induction l with
      | nil => intro A B hAB; simp at hAB; subst hAB; rfl
      | cons p l ih =>
        intro A B hAB
        rw [List.foldlM_cons] at hAB
        cases hr : removePop xx p A with
        | none => rw [hr] at hAB; simp at hAB
        | some A' =>
          rw [hr] at hAB
          exact (ih A' B (by simpa using hAB)).trans (removePop_mass xx p A A' hr).2
    exact key _ P Q h

end DadiVerif.Admix
