import DadiVerif.Lemmas.Admix
import Mathlib.Algebra.BigOperators.Group.List.Basic
/-!
C06, round 4: total mass (`massFrom` / `totalMass` of Model/Admix.lean: the full d-dimensional trapezoid sum, iterated
`Numerics.trapz`).  Fubini for `massFrom` (any axis can be integrated first, `massFrom_removeAxis`), the last axis
(`massFrom_append`), dependence on the box only (`massFrom_congr`), the explicit weighted sum over the box
(`massFrom_eq_sum`) and invariance under a permutation of the axes (`massFrom_reorder`).
-/
namespace DadiVerif.Admix
open Finset

/-- multi-index inside the box spanned by the grids -/
def InBox (gs : List (Array ℚ)) (idx : Idx) : Prop :=
  idx.length = gs.length ∧ ∀ m, m < gs.length → idx.getD m 0 < (gs.getD m #[]).size

theorem massFrom_cons (g : Array ℚ) (gs : List (Array ℚ)) (F : Idx → ℚ) :
    massFrom (g :: gs) F = ∑ k ∈ range g.size, trapzW g k * massFrom gs (fun idx => F (k :: idx)) := by
  show trapzLine g _ = _
  rw [trapzLine_eq_weights]

theorem InBox.cons {g : Array ℚ} {gs : List (Array ℚ)} {k : ℕ} {idx : Idx} (hk : k < g.size) (h : InBox gs idx) :
    InBox (g :: gs) (k :: idx) := by
  refine ⟨by simp [h.1], ?_⟩
  intro m hm
  cases m with
  | zero => simpa using hk
  | succ m => simpa using h.2 m (by simpa using hm)

/-- the mass only sees the entries inside the box -/
theorem massFrom_congr : ∀ (gs : List (Array ℚ)) (F G : Idx → ℚ), (∀ idx, InBox gs idx → F idx = G idx) →
    massFrom gs F = massFrom gs G := by
  intro gs
  induction gs with
  | nil => intro F G h; exact h [] ⟨rfl, fun m hm => by simp at hm⟩
  | cons g gs ih =>
    intro F G h
    rw [massFrom_cons, massFrom_cons]
    apply Finset.sum_congr rfl
    intro k hk
    rw [ih _ _ (fun idx hb => h (k :: idx) (hb.cons (Finset.mem_range.1 hk)))]

theorem massFrom_linear {ι : Type} (s : Finset ι) (c : ι → ℚ) : ∀ (gs : List (Array ℚ)) (F : ι → Idx → ℚ),
    massFrom gs (fun j => ∑ k ∈ s, c k * F k j) = ∑ k ∈ s, c k * massFrom gs (F k) := by
  intro gs
  induction gs with
  | nil => intro F; rfl
  | cons g gs ih =>
    intro F
    rw [massFrom_cons]
    simp only [massFrom_cons, ih (fun k idx => F k (_ :: idx)), Finset.mul_sum]
    rw [Finset.sum_comm]
    apply Finset.sum_congr rfl
    intro k _
    apply Finset.sum_congr rfl
    intro x _
    ring

/-- the last axis can be integrated first -/
theorem massFrom_append : ∀ (gs : List (Array ℚ)) (zz : Array ℚ) (F : Idx → ℚ),
    massFrom (gs ++ [zz]) F = massFrom gs (fun idx => ∑ k ∈ range zz.size, trapzW zz k * F (idx ++ [k])) := by
  intro gs
  induction gs with
  | nil =>
    intro zz F
    show massFrom [zz] F = _
    rw [massFrom_cons]
    rfl
  | cons g gs ih =>
    intro zz F
    rw [List.cons_append, massFrom_cons, massFrom_cons]
    apply Finset.sum_congr rfl
    intro k _
    rw [ih zz (fun idx => F (k :: idx))]
    rfl

/-- Fubini: any axis `a` can be integrated first -/
theorem massFrom_removeAxis : ∀ (a : ℕ) (gs : List (Array ℚ)) (F : Idx → ℚ), a < gs.length →
    massFrom gs F = massFrom (gs.eraseIdx a)
      (fun j => ∑ k ∈ range (gs.getD a #[]).size, trapzW (gs.getD a #[]) k * F (j.insertIdx a k)) := by
  intro a
  induction a with
  | zero =>
    intro gs F h
    cases gs with
    | nil => simp at h
    | cons g gs =>
      rw [massFrom_cons]
      simp only [List.eraseIdx_zero, List.tail_cons, List.getD_cons_zero, List.insertIdx_zero]
      rw [massFrom_linear (range g.size) (trapzW g) gs (fun k idx => F (k :: idx))]
  | succ a ih =>
    intro gs F h
    cases gs with
    | nil => simp at h
    | cons g gs =>
      rw [massFrom_cons, List.eraseIdx_cons_succ, massFrom_cons]
      apply Finset.sum_congr rfl
      intro k _
      rw [ih gs (fun idx => F (k :: idx)) (by simpa using h)]
      simp only [List.getD_cons_succ, List.insertIdx_succ_cons]

/-! ### explicit sum over the box -/

/-- all multi-indices of a box with the given extents -/
def boxF : List ℕ → Finset Idx
  | [] => {[]}
  | n :: ns => ((range n) ×ˢ (boxF ns)).image (fun p => p.1 :: p.2)

/-- product of the trapezoid node weights of a multi-index -/
def wprod : List (Array ℚ) → Idx → ℚ
  | g :: gs, i :: is => trapzW g i * wprod gs is
  | [], [] => 1
  | _, _ => 0

theorem mem_boxF : ∀ (ns : List ℕ) (idx : Idx),
    idx ∈ boxF ns ↔ idx.length = ns.length ∧ ∀ m, m < ns.length → idx.getD m 0 < ns.getD m 0 := by
  intro ns
  induction ns with
  | nil =>
    intro idx
    simp [boxF]
  | cons n ns ih =>
    intro idx
    simp only [boxF, Finset.mem_image, Finset.mem_product, Finset.mem_range, Prod.exists]
    constructor
    · rintro ⟨k, is, ⟨hk, his⟩, rfl⟩
      obtain ⟨h1, h2⟩ := (ih is).1 his
      refine ⟨by simp [h1], ?_⟩
      intro m hm
      cases m with
      | zero => simpa using hk
      | succ m => simpa using h2 m (by simpa using hm)
    · rintro ⟨h1, h2⟩
      cases idx with
      | nil => simp at h1
      | cons k is =>
        refine ⟨k, is, ⟨by simpa using h2 0 (by simp), (ih is).2 ⟨by simpa using h1, ?_⟩⟩, rfl⟩
        intro m hm
        simpa using h2 (m + 1) (by simpa using hm)

theorem getD_map_size (gs : List (Array ℚ)) (m : ℕ) : (gs.map Array.size).getD m 0 = (gs.getD m #[]).size := by
  rw [List.getD_eq_getElem?_getD, List.getD_eq_getElem?_getD, List.getElem?_map]
  cases gs[m]? <;> simp

theorem mem_boxF_iff_InBox (gs : List (Array ℚ)) (idx : Idx) : idx ∈ boxF (gs.map Array.size) ↔ InBox gs idx := by
  rw [mem_boxF]
  unfold InBox
  simp only [List.length_map, getD_map_size]

/-- the iterated trapezoid rule is the weighted sum over the box -/
theorem massFrom_eq_sum : ∀ (gs : List (Array ℚ)) (F : Idx → ℚ),
    massFrom gs F = ∑ idx ∈ boxF (gs.map Array.size), wprod gs idx * F idx := by
  intro gs
  induction gs with
  | nil => intro F; simp [massFrom, boxF, wprod]
  | cons g gs ih =>
    intro F
    rw [massFrom_cons]
    simp only [List.map_cons, boxF]
    rw [Finset.sum_image]
    · rw [Finset.sum_product]
      apply Finset.sum_congr rfl
      intro k _
      rw [ih, Finset.mul_sum]
      apply Finset.sum_congr rfl
      intro is _
      simp only [wprod]
      ring
    · rintro ⟨a, b⟩ _ ⟨c, d⟩ _ h
      simp only [List.cons.injEq] at h
      exact Prod.ext h.1 h.2

theorem wprod_map (G : ℕ → Array ℚ) (I : ℕ → ℕ) : ∀ (axes : List ℕ),
    wprod (axes.map G) (axes.map I) = (axes.map fun a => trapzW (G a) (I a)).prod := by
  intro axes
  induction axes with
  | nil => simp [wprod]
  | cons a as ih => simp only [List.map_cons, wprod, List.prod_cons, ih]

theorem wprod_range : ∀ (gs : List (Array ℚ)) (idx : Idx), idx.length = gs.length →
    wprod gs idx = ((List.range gs.length).map fun a => trapzW (gs.getD a #[]) (idx.getD a 0)).prod := by
  intro gs
  induction gs with
  | nil => intro idx h; have : idx = [] := by simpa using h
           subst this; simp [wprod]
  | cons g gs ih =>
    intro idx h
    cases idx with
    | nil => simp at h
    | cons i is =>
      simp only [wprod, List.length_cons, List.range_succ_eq_map, List.map_cons, List.map_map, List.prod_cons,
        List.getD_cons_zero]
      rw [ih is (by simpa using h)]
      congr 1

/-- the index map of `numpy.transpose` and its inverse -/
def permIdx (axes : List ℕ) (i : Idx) : Idx := axes.map fun a => i.getD a 0
def unpermIdx (axes : List ℕ) (d : ℕ) (j : Idx) : Idx := (List.range d).map fun a => j.getD (axes.idxOf a) 0

theorem unperm_perm (axes : List ℕ) (d : ℕ) (i : Idx) (hi : i.length = d) (hcov : ∀ a, a < d → a ∈ axes) :
    unpermIdx axes d (permIdx axes i) = i := by
  unfold unpermIdx permIdx
  apply List.ext_getElem
  · simp [hi]
  · intro n h1 h2
    simp only [List.length_map, List.length_range] at h1
    simp only [List.getElem_map, List.getElem_range]
    have hmem := hcov n h1
    have hlt := List.idxOf_lt_length_of_mem hmem
    rw [List.getD_eq_getElem?_getD, List.getElem?_map, List.getElem?_eq_getElem hlt]
    simp only [Option.map_some, Option.getD_some, List.getElem_idxOf hlt]
    rw [List.getD_eq_getElem?_getD, List.getElem?_eq_getElem h2]; rfl

theorem perm_unperm (axes : List ℕ) (d : ℕ) (j : Idx) (hj : j.length = axes.length) (hnd : axes.Nodup)
    (hval : ∀ a ∈ axes, a < d) : permIdx axes (unpermIdx axes d j) = j := by
  unfold unpermIdx permIdx
  apply List.ext_getElem
  · simp [hj]
  · intro n h1 h2
    simp only [List.length_map] at h1
    simp only [List.getElem_map]
    have ha : axes[n] < d := hval _ (List.getElem_mem h1)
    rw [List.getD_eq_getElem?_getD, List.getElem?_map, List.getElem?_range ha]
    simp only [Option.map_some, Option.getD_some]
    rw [hnd.idxOf_getElem n h1, List.getD_eq_getElem?_getD, List.getElem?_eq_getElem h2]; rfl

theorem axes_perm_range (axes : List ℕ) (d : ℕ) (hlen : axes.length = d) (hnd : axes.Nodup) (hval : ∀ a ∈ axes, a < d) :
    axes.Perm (List.range d) := by
  apply (List.subperm_of_subset hnd (fun a ha => List.mem_range.2 (hval a ha))).perm_of_length_le
  simp [hlen]

/-- the full trapezoid sum is invariant under a permutation of the axes (grids permuted alike) -/
theorem massFrom_reorder (axes : List ℕ) (grids : List (Array ℚ)) (F : Idx → ℚ)
    (hlen : axes.length = grids.length) (hnd : axes.Nodup) (hcov : ∀ a, a < grids.length → a ∈ axes)
    (hval : ∀ a ∈ axes, a < grids.length) :
    massFrom (axes.map fun a => grids.getD a #[]) (fun j => F (unpermIdx axes grids.length j)) = massFrom grids F := by
  rw [massFrom_eq_sum, massFrom_eq_sum]
  symm
  apply Finset.sum_nbij' (permIdx axes) (unpermIdx axes grids.length)
  · intro i hi
    rw [mem_boxF_iff_InBox] at hi ⊢
    refine ⟨by simp [permIdx], ?_⟩
    intro m hm
    simp only [List.length_map] at hm
    have ha : axes[m] < grids.length := hval _ (List.getElem_mem hm)
    unfold permIdx
    rw [List.getD_eq_getElem?_getD, List.getElem?_map, List.getElem?_eq_getElem hm,
      List.getD_eq_getElem?_getD (l := axes.map _), List.getElem?_map, List.getElem?_eq_getElem hm]
    simpa using hi.2 _ ha
  · intro j hj
    rw [mem_boxF_iff_InBox] at hj ⊢
    refine ⟨by simp [unpermIdx], ?_⟩
    intro a ha
    have hmem := hcov a ha
    have hlt := List.idxOf_lt_length_of_mem hmem
    have := hj.2 (axes.idxOf a) (by simpa using hlt)
    unfold unpermIdx
    rw [List.getD_eq_getElem?_getD, List.getElem?_map, List.getElem?_range ha]
    rw [List.getD_eq_getElem?_getD (l := axes.map _), List.getElem?_map, List.getElem?_eq_getElem hlt] at this
    simpa [List.getElem_idxOf hlt] using this
  · intro i hi
    rw [mem_boxF_iff_InBox] at hi
    exact unperm_perm axes grids.length i hi.1 hcov
  · intro j hj
    rw [mem_boxF_iff_InBox] at hj
    exact perm_unperm axes grids.length j (by simpa using hj.1) hnd hval
  · intro i hi
    rw [mem_boxF_iff_InBox] at hi
    rw [unperm_perm axes grids.length i hi.1 hcov]
    congr 1
    unfold permIdx
    rw [wprod_map (fun a => grids.getD a #[]) (fun a => i.getD a 0) axes, wprod_range grids i hi.1]
    exact ((axes_perm_range axes grids.length hlen hnd hval).map _).prod_eq.symm

end DadiVerif.Admix
