import Mathlib.Algebra.BigOperators.Ring.Finset
import Mathlib.Algebra.BigOperators.Group.Finset.Sigma
import Mathlib.Algebra.Order.Field.Rat
import Mathlib.Tactic.Ring
/-! C10 (round 5): pure rearrangement of finite sums used by the n-D mixture theorem (no model definitions) -/
namespace DadiVerif.PopOps
open Finset

/-- move a sum with a fixed index set out of three nested sums whose index sets depend on the outer variables -/
theorem sum_comm3 (s : Finset ℕ) (A : Finset ℕ) (B C : ℕ → Finset ℕ) (f : ℕ → ℕ → ℕ → ℕ → ℚ) :
    ∑ m ∈ A, ∑ u ∈ B m, ∑ v ∈ C m, ∑ p ∈ s, f m u v p = ∑ p ∈ s, ∑ m ∈ A, ∑ u ∈ B m, ∑ v ∈ C m, f m u v p := by
  calc ∑ m ∈ A, ∑ u ∈ B m, ∑ v ∈ C m, ∑ p ∈ s, f m u v p
      = ∑ m ∈ A, ∑ u ∈ B m, ∑ p ∈ s, ∑ v ∈ C m, f m u v p :=
        Finset.sum_congr rfl (fun m _ => Finset.sum_congr rfl (fun u _ => Finset.sum_comm))
    _ = ∑ m ∈ A, ∑ p ∈ s, ∑ u ∈ B m, ∑ v ∈ C m, f m u v p := Finset.sum_congr rfl (fun m _ => Finset.sum_comm)
    _ = ∑ p ∈ s, ∑ m ∈ A, ∑ u ∈ B m, ∑ v ∈ C m, f m u v p := Finset.sum_comm

/-- the bilinear rearrangement: a mixture (weights `c m`) of "resample both axes (kernels `wa m`, `wb m`), then collect the
    antidiagonal `δ`" is the resampling of the pair with the mixed kernel -/
theorem mix_rearrange (A : Finset ℕ) (B C : ℕ → Finset ℕ) (P Q : Finset ℕ) (c : ℕ → ℚ) (δ : ℕ → ℕ → Prop) [DecidableRel δ]
    (wa wb : ℕ → ℕ → ℕ → ℚ) (X : ℕ → ℕ → ℚ) :
    ∑ m ∈ A, c m * (∑ u ∈ B m, ∑ v ∈ C m,
        (if δ u v then ∑ hb ∈ Q, wb m hb v * ∑ ha ∈ P, wa m ha u * X ha hb else 0))
      = ∑ ha ∈ P, ∑ hb ∈ Q, (∑ m ∈ A, c m * ∑ u ∈ B m, ∑ v ∈ C m, (if δ u v then wa m ha u * wb m hb v else 0)) * X ha hb := by
  have L : ∀ m u v, (if δ u v then ∑ hb ∈ Q, wb m hb v * ∑ ha ∈ P, wa m ha u * X ha hb else 0)
      = ∑ hb ∈ Q, ∑ ha ∈ P, (if δ u v then wa m ha u * wb m hb v else 0) * X ha hb := by
    intro m u v
    split_ifs
    · apply Finset.sum_congr rfl; intro hb _
      rw [Finset.mul_sum]
      apply Finset.sum_congr rfl; intro ha _; ring
    · simp
  simp_rw [L]
  have lhs : ∀ m, c m * (∑ u ∈ B m, ∑ v ∈ C m, ∑ hb ∈ Q, ∑ ha ∈ P, (if δ u v then wa m ha u * wb m hb v else 0) * X ha hb)
      = ∑ u ∈ B m, ∑ v ∈ C m, ∑ hb ∈ Q, ∑ ha ∈ P, c m * (if δ u v then wa m ha u * wb m hb v else 0) * X ha hb := by
    intro m
    simp only [Finset.mul_sum, mul_assoc]
  simp_rw [lhs]
  have rhs : ∀ ha hb, (∑ m ∈ A, c m * ∑ u ∈ B m, ∑ v ∈ C m, (if δ u v then wa m ha u * wb m hb v else 0)) * X ha hb
      = ∑ m ∈ A, ∑ u ∈ B m, ∑ v ∈ C m, c m * (if δ u v then wa m ha u * wb m hb v else 0) * X ha hb := by
    intro ha hb
    simp only [Finset.mul_sum, Finset.sum_mul]
  simp_rw [rhs]
  rw [sum_comm3 Q A B C (fun m u v hb => ∑ ha ∈ P, c m * (if δ u v then wa m ha u * wb m hb v else 0) * X ha hb)]
  conv_rhs => rw [Finset.sum_comm]
  apply Finset.sum_congr rfl; intro hb _
  exact sum_comm3 P A B C (fun m u v ha => c m * (if δ u v then wa m ha u * wb m hb v else 0) * X ha hb)

end DadiVerif.PopOps
