import DadiVerif.Lemmas.PopOpsScramble
import DadiVerif.Lemmas.PopOpsFold
/-! C10: `scramble_pop_ids` commutes with folding (data): the re-dealing weights are invariant under the exchange
    derived ↔ ancestral, the pooled spectrum of the symmetrised spectrum is the symmetrised pooled spectrum. -/
namespace DadiVerif.PopOps

/-- the data of `scrambleCore` as a function of shape and entry function: pool by total count, re-deal -/
def scrDat (sh : List Nat) (x : Idx → ℚ) (c : Idx) : ℚ :=
  hypW (sh.map (· - 1)) c * pushL (boxIdx sh) (fun i => [i.sum]) x [c.sum]

theorem scrambleCore_dat (mc : Bool) (S : FS) : (scrambleCore mc S).dat = scrDat S.shape S.val := rfl

theorem prodN_choose_mirror {c ns : List Nat} (h : List.Forall₂ (· ≤ ·) c ns) :
    prodN (List.zipWith Nat.choose ns (mirrorN ns c)) = prodN (List.zipWith Nat.choose ns c) := by
  induction h with
  | nil => rfl
  | @cons a n as ns' han _ ih =>
    show prodN (List.zipWith Nat.choose (n :: ns') ((n - a) :: mirrorN ns' as)) = _
    simp only [List.zipWith_cons_cons, prodN, List.foldr_cons]
    have ih' : List.foldr (· * ·) 1 (List.zipWith Nat.choose ns' (mirrorN ns' as))
        = List.foldr (· * ·) 1 (List.zipWith Nat.choose ns' as) := ih
    rw [ih', Nat.choose_symm han]

/-- the multivariate hypergeometric weight does not change when derived and ancestral alleles are exchanged -/
theorem hypW_mirror (sh : List Nat) (c : Idx) (hc : c ∈ boxIdx sh) :
    hypW (sh.map (· - 1)) (mirror sh c) = hypW (sh.map (· - 1)) c := by
  have hle := forall2_lt_le ((mem_boxIdx _ _).1 hc)
  obtain ⟨h1, h2⟩ := mirror_sum sh c hc
  rw [hypW_eq, hypW_eq, mirror_eq_mirrorN, prodN_choose_mirror hle, ← mirror_eq_mirrorN, h2]
  have : (sh.map (· - 1)).sum = nTotal sh := rfl
  rw [this, Nat.choose_symm h1]

theorem mirror_total (sh : List Nat) (i : Idx) (hi : i ∈ boxIdx sh) :
    [(mirror sh i).sum] = mirror [nTotal sh + 1] [i.sum] := by
  rw [(mirror_sum sh i hi).2]
  simp [mirror]

/-- scrambling the symmetrised spectrum = symmetrising the scrambled spectrum -/
theorem scrDat_sym (sh : List Nat) (x : Idx → ℚ) (c : Idx) (hc : c ∈ boxIdx sh) :
    scrDat sh (symDat sh x) c = symDat sh (scrDat sh x) c := by
  have hp := push_sym sh [nTotal sh + 1] (fun i => [i.sum]) x (fun i hi => total_mem_box sh i hi)
    (fun i hi => mirror_total sh i hi) [c.sum] (total_mem_box sh c hc)
  unfold scrDat
  rw [hp]
  unfold symDat
  simp only []
  rw [hypW_mirror sh c hc, mirror_total sh c hc]
  ring

/-- **scramble_pop_ids commutes with folding** (data): scrambling a folded spectrum — the code unfolds (= symmetrises),
    scrambles and folds — gives the fold of the scrambled spectrum -/
theorem fold_scramble_sym (sh : List Nat) (x : Idx → ℚ) (j : Idx) (hj : j ∈ boxIdx sh) :
    foldDat sh (scrDat sh (symDat sh x)) j = foldDat sh (scrDat sh x) j := by
  have hm := mirror_mem_box sh j hj
  rw [foldDat_closed sh _ j hj, foldDat_closed sh _ j hj, scrDat_sym sh x j hj, scrDat_sym sh x _ hm]
  unfold symDat
  rw [mirror_mirror sh j hj]
  ring

end DadiVerif.PopOps
