import DadiVerif.Lemmas.PopOpsProjAsm
/-! C10: `combine_two_pops` / iterated merges and corner masking against the whole loop of `Spectrum.project`;
    the public (Option-valued) entry points. -/
namespace DadiVerif.PopOps

/-! ### steps at positions that are not projected -/

theorem stepsF_set_skip (p : Nat) (ss ms : List Nat) (a s v : Nat) (hv : v + 1 = s) (ha : ms.getD a 0 + 1 = ss.getD a 0)
    (hal : a < ss.length) (hl : ss.length = ms.length) :
    stepsF p (ss.set a s) (ms.set a v) = stepsF p ss ms := by
  induction ss generalizing p ms a with
  | nil => simp at hal
  | cons s0 ss ih =>
    cases ms with
    | nil => simp at hl
    | cons m0 ms =>
      cases a with
      | zero =>
        simp only [List.getD_cons_zero] at ha
        simp only [List.set_cons_zero]
        rw [stepsF_cons, stepsF_cons, if_pos hv, if_pos ha]
      | succ a =>
        simp only [List.getD_cons_succ] at ha
        simp only [List.set_cons_succ]
        rw [stepsF_cons, stepsF_cons, ih (p + 1) ms a ha (by simpa using hal) (by simpa using hl)]

theorem stepsF_no_axis (p : Nat) (ss ms : List Nat) (a : Nat) (hl : ss.length = ms.length)
    (ha : ms.getD a 0 + 1 = ss.getD a 0) : ∀ x ∈ stepsF p ss ms, x.1 ≠ p + a := by
  intro x hx
  rw [stepsF_eq_filterMap p _ _ hl, List.mem_filterMap] at hx
  obtain ⟨i, _, hx⟩ := hx
  split at hx
  · simp at hx
  · rename_i hne
    simp only [Option.some.injEq] at hx
    subst hx
    simp only
    intro he
    have : i = a := by omega
    subst this
    exact hne ha

theorem AdmSizes.pos {ms sh : List Nat} (h : AdmSizes ms sh) : ∀ s ∈ sh, 1 ≤ s := by
  induction h with
  | nil => simp
  | cons hab _ ih =>
    intro s hs
    rcases List.mem_cons.1 hs with rfl | hs
    · omega
    · exact ih s hs

/-! ### combine_two_pops -/

/-- **(3a) merging two populations vs projecting the others** (any masks): the merged axis keeps its full size
    `n_a + n_b`, the other requested sizes move with their axes — `merge2 a b ms` is exactly that list -/
theorem combineTwoCore_projectCore (a b : Nat) (ms : List Nat) (S : FS) (hab : a < b) (hb : b < S.ndim)
    (hadm : AdmSizes ms S.shape)
    (hma : ms.getD a 0 + 1 = S.shape.getD a 0) (hmb : ms.getD b 0 + 1 = S.shape.getD b 0) :
    Obs (combineTwoCore a b (projectCore ms S)) (projectCore (merge2 a b ms) (combineTwoCore a b S)) := by
  have hb0 : b < S.shape.length := hb
  have hl : S.shape.length = ms.length := hadm.length_eq.symm
  rw [projectCore_eq_steps, projectCore_eq_steps]
  show Obs _ (projSteps (stepsF 0 (mergeShape a b S.shape) (merge2 a b ms)) (combineTwoCore a b S))
  have hnoa : ∀ x ∈ stepsF 0 S.shape ms, x.1 ≠ a := fun x hx => by
    have := stepsF_no_axis 0 S.shape ms a hl hma x hx; simpa using this
  have hnob : ∀ x ∈ stepsF 0 S.shape ms, x.1 ≠ b := fun x hx => by
    have := stepsF_no_axis 0 S.shape ms b hl hmb x hx; simpa using this
  have hidx : (stepsF 0 S.shape ms).filterMap (fun x => some (shiftAxis b x.1, x.2))
      = stepsF 0 (mergeShape a b S.shape) (merge2 a b ms) := by
    rw [mergeShape_explicit a b S.shape hab hb0 hadm.pos, merge2_eq]
    have h1 := stepsF_eraseIdx 0 (S.shape.set a (S.shape.getD a 0 + S.shape.getD b 0 - 1))
      (ms.set a (ms.getD a 0 + ms.getD b 0)) b (by simp [hl])
    rw [Nat.zero_add] at h1
    rw [← h1, stepsF_set_skip 0 S.shape ms a _ _ (by omega) hma (by omega) hl]
    apply List.filterMap_congr
    intro x hx
    unfold stepErase
    rw [if_neg (hnob x hx)]
  rw [← hidx]
  refine op_projSteps (combineTwoCore a b) (fun x => some (shiftAxis b x.1, x.2)) (fun T => b < T.ndim)
    (fun x => x.1 ≠ a ∧ x.1 ≠ b)
    (fun T k m hT => by show b < (T.shape.set k (m + 1)).length; rw [List.length_set]; exact hT)
    ?_ ?_ _ S hb (fun x hx => ⟨hnoa x hx, hnob x hx⟩) (adm_stepsF S ms hadm)
  · intro T p q hT hQ h3 h4 hφ
    simp only [Option.some.injEq] at hφ
    subst hφ
    exact combineTwoCore_projectAxis a b p.1 p.2 T hT h3 hQ.1 hQ.2 h4
  · intro T p _ _ _ _ hφ
    simp at hφ

theorem combineTwoCore_ndim (a b : Nat) (S : FS) (hb : b < S.ndim) : (combineTwoCore a b S).ndim = S.ndim - 1 :=
  mergeShape_length a b S.shape hb

theorem AdmSizes.merge {ms sh : List Nat} (h : AdmSizes ms sh) (a b : Nat) (hab : a < b) (hb : b < sh.length)
    (hma : ms.getD a 0 + 1 = sh.getD a 0) (hmb : ms.getD b 0 + 1 = sh.getD b 0) :
    AdmSizes (merge2 a b ms) (mergeShape a b sh) := by
  rw [mergeShape_explicit a b sh hab hb h.pos, merge2_eq]
  exact forall2_eraseIdx (forall2_set h a (by omega)) b

/-- **iterated merges (`combine_pops`) vs projecting the untouched populations** (any masks) -/
theorem combineIter_projectCore (a : Nat) (rs ms : List Nat) (S : FS) (hd : rs.Pairwise (· > ·))
    (har : ∀ r ∈ rs, a < r ∧ r < S.ndim) (hadm : AdmSizes ms S.shape)
    (hma : ms.getD a 0 + 1 = S.shape.getD a 0) (hmr : ∀ r ∈ rs, ms.getD r 0 + 1 = S.shape.getD r 0) :
    Obs (combineIter a rs (projectCore ms S)) (projectCore (mergeAll a rs ms) (combineIter a rs S)) := by
  induction rs generalizing ms S with
  | nil => exact Obs.refl _
  | cons r rs ih =>
    rw [List.pairwise_cons] at hd
    obtain ⟨har1, hrd⟩ := har r (by simp)
    have hr0 : r < S.shape.length := hrd
    have hmr1 := hmr r (by simp)
    rw [combineIter_cons, combineIter_cons, mergeAll_cons]
    have h1 := obs_combineIter a rs (combineTwoCore_projectCore a r ms S har1 hrd hadm hma hmr1)
    have hsh : (combineTwoCore a r S).shape = (S.shape.set a (S.shape.getD a 0 + S.shape.getD r 0 - 1)).eraseIdx r :=
      mergeShape_explicit a r S.shape har1 hr0 hadm.pos
    have hal : a < S.shape.length := by omega
    have h2 := ih (merge2 a r ms) (combineTwoCore a r S) hd.2
      (fun r' hr' => by
        rw [combineTwoCore_ndim a r S hrd]
        have := (har r' (by simp [hr'])).1
        have := hd.1 r' hr'
        have : r < S.ndim := hrd
        omega)
      (hadm.merge a r har1 hr0 hma hmr1)
      (by
        rw [hsh, merge2_eq, getD_eraseIdx_lt _ _ _ _ har1, getD_eraseIdx_lt _ _ _ _ har1,
          getD_set_self _ _ _ _ (by rw [hadm.length_eq]; exact hal), getD_set_self _ _ _ _ hal]
        omega)
      (fun r' hr' => by
        have h3 := (har r' (by simp [hr'])).1
        have h4 := hd.1 r' hr'
        rw [hsh, merge2_eq, getD_eraseIdx_lt _ _ _ _ h4, getD_eraseIdx_lt _ _ _ _ h4,
          getD_set_ne _ _ _ _ _ (by omega), getD_set_ne _ _ _ _ _ (by omega)]
        exact hmr r' (by simp [hr']))
    exact h1.trans h2

/-! ### corner masking -/

theorem projectCore_maskCorners (ms : List Nat) (S : FS) (hadm : AdmSizes ms S.shape) :
    Obs (projectCore ms (maskCorners S)) (maskCorners (projectCore ms S)) := by
  rw [projectCore_eq_steps, projectCore_eq_steps]
  show Obs (projSteps (stepsF 0 S.shape ms) (maskCorners S)) _
  have := op_projSteps maskCorners (fun x => some x) (fun _ => True) (fun _ => True) (fun _ _ _ _ => trivial)
    (fun T p q _ _ h3 h4 hφ => by
      simp only [Option.some.injEq] at hφ
      subst hφ
      exact (projectAxis_maskCorners p.1 p.2 T h3 h4).symm)
    (fun T p _ _ _ _ hφ => by simp at hφ)
    (stepsF 0 S.shape ms) S trivial (fun _ _ => trivial) (adm_stepsF S ms hadm)
  rw [List.filterMap_some] at this
  exact this.symm

/-! ### the public entry points -/

theorem obs_update (X : FS) (f : Bool) (l : Option (List String)) : Obs { X with folded := f, labels := l } X :=
  ⟨rfl, fun _ _ => ⟨rfl, fun _ => rfl⟩⟩

theorem zipWith_adm_false {ms sh : List Nat} (h : AdmSizes ms sh) :
    (List.zipWith (fun m s => decide (s < m + 1)) ms sh).any id = false := by
  induction h with
  | nil => rfl
  | cons hab _ ih =>
    simp only [List.zipWith_cons_cons, List.any_cons, ih, Bool.or_false, id]
    simpa using hab

theorem project_unfolded (ms : List Nat) (S : FS) (hf : S.folded = false) (hadm : AdmSizes ms S.shape) :
    project ms S = some { projectCore ms S with folded := false, labels := S.labels } := by
  have h1 : ms.length = S.ndim := hadm.length_eq
  have h2 := zipWith_adm_false hadm
  unfold project
  rw [h2, if_neg (by simp [h1])]
  simp [hf]

theorem projectCore_ndim (ms : List Nat) (S : FS) : (projectCore ms S).ndim = S.ndim := by
  rw [projectCore_eq_steps]; exact projSteps_shape_length _ _

theorem marginalize_unfolded (over : List Nat) (mc : Bool) (S : FS) (hf : S.folded = false)
    (hn : over.Nodup) (hv : ∀ k ∈ over, k < S.ndim) (hl : over.length < S.ndim) :
    marginalize over mc S = some
      (if mc then maskCorners { marginalizeCore (sortDesc over) S with folded := false, labels := S.labels.map (dropAxes (sortDesc over)) }
       else { marginalizeCore (sortDesc over) S with folded := false, labels := S.labels.map (dropAxes (sortDesc over)) }) := by
  have hperm := sortDesc_perm over
  have hcond : ((sortDesc over).any (fun k => decide (S.ndim ≤ k)) || !(decide (sortDesc over).Nodup)
      || decide (S.ndim ≤ (sortDesc over).length)) = false := by
    have h1 : (sortDesc over).any (fun k => decide (S.ndim ≤ k)) = false := by
      rw [List.any_eq_false]; intro k hk
      have := hv k (hperm.mem_iff.1 hk); simp; omega
    have h2 : (sortDesc over).Nodup := hperm.nodup_iff.2 hn
    have h3 : ¬ S.ndim ≤ (sortDesc over).length := by rw [hperm.length_eq]; omega
    simp [h1, h2, h3]
  simp only [marginalize, hcond, hf]
  rfl

theorem AdmSizes.dropAxes {ms sh : List Nat} (h : AdmSizes ms sh) (ks : List Nat) :
    AdmSizes (PopOps.dropAxes ks ms) (PopOps.dropAxes ks sh) := by
  induction ks generalizing ms sh with
  | nil => exact h
  | cons k ks ih => rw [dropAxes_cons, dropAxes_cons]; exact ih (h.eraseIdx k)

/-- **(1), public functions**: `fs.project(ns).marginalize(over, mc)` and `fs.marginalize(over, mc).project(ns without over)`
    both succeed and are observationally equal (shape, mask, data at unmasked entries), with the same labels and folding flag,
    for every unfolded spectrum without masked entries, every duplicate-free set of axes that leaves one, all admissible sizes,
    both settings of `mask_corners` -/
theorem marginalize_project_public (over ms : List Nat) (mc : Bool) (S : FS) (hf : S.folded = false) (hc : Clean S)
    (hn : over.Nodup) (hv : ∀ k ∈ over, k < S.ndim) (hl : over.length < S.ndim) (hadm : AdmSizes ms S.shape) :
    ∃ A B, (project ms S).bind (marginalize over mc) = some A ∧
      (marginalize over mc S).bind (project (dropSet over 0 ms)) = some B ∧
      Obs A B ∧ A.labels = B.labels ∧ A.folded = B.folded := by
  set ks := sortDesc over with hks
  have hms' : dropSet over 0 ms = PopOps.dropAxes ks ms := (dropAxes_sortDesc over hn ms).symm
  have hvalid : ValidDrops ks S.ndim :=
    validDrops_desc ks S.ndim (sortDesc_desc over hn) (fun k hk => hv k ((sortDesc_perm over).mem_iff.1 hk))
  set P : FS := { projectCore ms S with folded := false, labels := S.labels } with hP
  have hPnd : P.ndim = S.ndim := projectCore_ndim ms S
  have hA := marginalize_unfolded over mc P rfl hn (by rw [hPnd]; exact hv) (by rw [hPnd]; exact hl)
  have hM := marginalize_unfolded over mc S hf hn hv hl
  rw [← hks] at hA hM
  set M0 : FS := { marginalizeCore ks S with folded := false, labels := S.labels.map (PopOps.dropAxes ks) } with hM0
  set M : FS := if mc then maskCorners M0 else M0 with hMdef
  have hMsh : M.shape = PopOps.dropAxes ks S.shape := by
    rw [hMdef]; cases mc
    · exact marginalizeCore_shape ks S
    · exact marginalizeCore_shape ks S
  have hMf : M.folded = false := by rw [hMdef]; cases mc <;> rfl
  have hMl : M.labels = S.labels.map (PopOps.dropAxes ks) := by rw [hMdef]; cases mc <;> rfl
  have hadm' : AdmSizes (PopOps.dropAxes ks ms) M.shape := by rw [hMsh]; exact hadm.dropAxes ks
  have hB := project_unfolded (PopOps.dropAxes ks ms) M hMf hadm'
  refine ⟨_, _, by rw [project_unfolded ms S hf hadm]; exact hA, by rw [hM, hms']; exact hB, ?_, ?_, ?_⟩
  · -- observational equality
    have hcore : Obs (marginalizeCore ks P) (projectCore (PopOps.dropAxes ks ms) (marginalizeCore ks S)) :=
      (obs_marginalizeCore ks (obs_update (projectCore ms S) false S.labels)).trans
        (marginalizeCore_projectCore ks ms S hc hvalid hadm)
    have hadm0 : AdmSizes (PopOps.dropAxes ks ms) (marginalizeCore ks S).shape := by
      rw [marginalizeCore_shape]; exact hadm.dropAxes ks
    cases mc with
    | false =>
      simp only [Bool.false_eq_true, if_false]
      refine (obs_update _ _ _).trans (hcore.trans ?_)
      refine Obs.trans ?_ (obs_update _ _ _).symm
      exact obs_projectCore _ (obs_update _ _ _).symm
    | true =>
      simp only [if_true]
      refine (obs_maskCorners ((obs_update _ _ _).trans hcore)).trans ?_
      refine Obs.trans ?_ (obs_update _ _ _).symm
      refine (projectCore_maskCorners _ _ hadm0).symm.trans ?_
      exact obs_projectCore _ (obs_maskCorners (obs_update _ _ _).symm)
  · cases mc <;> rfl
  · cases mc <;> rfl

theorem permIdx_adm {ms sh : List Nat} (h : AdmSizes ms sh) (axes : List Nat) (hax : ∀ a ∈ axes, a < sh.length) :
    AdmSizes (permIdx 0 axes ms) (permIdx 0 axes sh) := by
  unfold permIdx AdmSizes
  induction axes with
  | nil => simp
  | cons a as ih =>
    simp only [List.map_cons]
    exact List.Forall₂.cons (forall2_getD_rel h a (hax a (by simp))) (ih (fun x hx => hax x (by simp [hx])))

/-- **(2), public functions**: `fs.project(ns).reorder_pops(neworder)` = `fs.reorder_pops(neworder).project([ns[p-1] for p in neworder])`
    observationally, labels and flag included, for every unfolded spectrum (ANY mask) -/
theorem reorder_project_public (neworder ms : List Nat) (S : FS) (hf : S.folded = false)
    (hno : sortAsc neworder = (List.range S.ndim).map (· + 1)) (hadm : AdmSizes ms S.shape) :
    ∃ A B, (project ms S).bind (reorderPops neworder) = some A ∧
      (reorderPops neworder S).bind (project (permIdx 0 (neworder.map (· - 1)) ms)) = some B ∧
      Obs A B ∧ A.labels = B.labels ∧ A.folded = B.folded := by
  set axes := neworder.map (· - 1) with haxes
  have hp : axes.Perm (List.range S.ndim) := by
    have h1 : neworder.Perm ((List.range S.ndim).map (· + 1)) := hno ▸ (sortAsc_perm neworder).symm
    have h2 := h1.map (· - 1)
    rw [List.map_map] at h2
    have h3 : (List.range S.ndim).map ((· - 1) ∘ (· + 1)) = List.range S.ndim := by
      conv_rhs => rw [← List.map_id (List.range S.ndim)]
      apply List.map_congr_left; intro a _; simp
    rw [h3] at h2; exact h2
  have hax : ∀ a ∈ axes, a < S.shape.length := fun a ha => by simpa [FS.ndim] using hp.mem_iff.1 ha
  set P : FS := { projectCore ms S with folded := false, labels := S.labels } with hP
  have hPnd : P.ndim = S.ndim := projectCore_ndim ms S
  have hA : reorderPops neworder P = some (reorderCore axes P) := by simp [reorderPops, hPnd, hno, haxes]
  have hR : reorderPops neworder S = some (reorderCore axes S) := by simp [reorderPops, hno, haxes]
  have hadm' : AdmSizes (permIdx 0 axes ms) (reorderCore axes S).shape := permIdx_adm hadm axes hax
  have hB := project_unfolded (permIdx 0 axes ms) (reorderCore axes S) hf hadm'
  refine ⟨_, _, by rw [project_unfolded ms S hf hadm]; exact hA, by rw [hR]; exact hB, ?_, ?_, ?_⟩
  rotate_left
  · rfl
  · rfl
  refine (obs_reorderCore axes (obs_update _ _ _)).trans ?_
  exact (reorderCore_projectCore axes ms S hp hadm).trans (obs_update _ _ _).symm

/-- **(3a), public functions**: `fs.project(ns).combine_two_pops([p,q])` = `fs.combine_two_pops([p,q]).project(merged ns)` when the
    two merged populations keep their sizes (ANY mask); labels and flag included -/
theorem combineTwo_project_public (p q : Nat) (ms : List Nat) (S : FS) (hf : S.folded = false)
    (hp : 1 ≤ p ∧ p ≤ S.ndim) (hq : 1 ≤ q ∧ q ≤ S.ndim) (hpq : p ≠ q) (hadm : AdmSizes ms S.shape)
    (hmp : ms.getD (p - 1) 0 + 1 = S.shape.getD (p - 1) 0) (hmq : ms.getD (q - 1) 0 + 1 = S.shape.getD (q - 1) 0) :
    ∃ A B, (project ms S).bind (combineTwo p q) = some A ∧
      (combineTwo p q S).bind (project (merge2 (min p q - 1) (max p q - 1) ms)) = some B ∧
      Obs A B ∧ A.labels = B.labels ∧ A.folded = B.folded := by
  set a := min p q - 1 with ha
  set b := max p q - 1 with hb
  have hab : a < b := by omega
  have hbd : b < S.ndim := by omega
  have hma : ms.getD a 0 + 1 = S.shape.getD a 0 := by
    rcases Nat.le_total p q with h | h
    · rw [ha, Nat.min_eq_left h]; exact hmp
    · rw [ha, Nat.min_eq_right h]; exact hmq
  have hmb : ms.getD b 0 + 1 = S.shape.getD b 0 := by
    rcases Nat.le_total p q with h | h
    · rw [hb, Nat.max_eq_right h]; exact hmq
    · rw [hb, Nat.max_eq_left h]; exact hmp
  set P : FS := { projectCore ms S with folded := false, labels := S.labels } with hP
  have hPnd : P.ndim = S.ndim := projectCore_ndim ms S
  have hcondP : ¬ (p = 0 ∨ q = 0 ∨ p = q ∨ P.ndim < p ∨ P.ndim < q) := by rw [hPnd]; omega
  have hcondS : ¬ (p = 0 ∨ q = 0 ∨ p = q ∨ S.ndim < p ∨ S.ndim < q) := by omega
  have hA : combineTwo p q P = some (combineTwoCore a b P) := by rw [combineTwo, if_neg hcondP, c2Pair_eq]
  have hC : combineTwo p q S = some (combineTwoCore a b S) := by rw [combineTwo, if_neg hcondS, c2Pair_eq]
  have hadm' : AdmSizes (merge2 a b ms) (combineTwoCore a b S).shape := hadm.merge a b hab hbd hma hmb
  have hCf : (combineTwoCore a b S).folded = false := by
    show (Gen.c2PropagatesFolded && S.folded) = false
    rw [hf]; simp
  have hB := project_unfolded (merge2 a b ms) (combineTwoCore a b S) hCf hadm'
  refine ⟨_, _, by rw [project_unfolded ms S hf hadm]; exact hA, by rw [hC]; exact hB, ?_, ?_, ?_⟩
  rotate_left
  · rfl
  · show (Gen.c2PropagatesFolded && false) = false
    simp
  · refine (obs_combineTwoCore a b (obs_update _ _ _)).trans ?_
    exact (combineTwoCore_projectCore a b ms S hab hbd hadm hma hmb).trans (obs_update _ _ _).symm

end DadiVerif.PopOps
