import DadiVerif.Lemmas.DataDict
import Mathlib.Tactic.Push
/-! Infrastructure for C13, part 2: sums of products over a box, the count dictionary as a grouping,
    folding (total and linearity), partitions by a key (chunks). -/
namespace DadiVerif.DataDict
open Finset DadiVerif.Gen.DD

/-! ### products of projection rows -/

/-- Π_k Σ_{j ≤ p_k} w(p_k, n_k, i_k, j) -/
def prodRows : List ℕ → List ℕ → List ℕ → ℚ
  | p :: ps, n :: ns, i :: is => sumRange (p + 1) (projWeight p n i) * prodRows ps ns is
  | _, _, _ => 1

theorem boxSum_prodW (proj ns is : List ℕ) (h1 : ns.length = proj.length) (h2 : is.length = proj.length) :
    boxSum (shapeOf proj) (prodW proj ns is) = prodRows proj ns is := by
  induction proj generalizing ns is with
  | nil =>
    have : ns = [] := List.length_eq_zero_iff.mp h1
    subst this
    simp [shapeOf, boxSum, prodW, prodRows]
  | cons p ps ih =>
    match ns, is, h1, h2 with
    | n :: ns, i :: is, h1, h2 =>
      simp only [shapeOf, List.map_cons, boxSum, prodW, prodRows, weightArgs]
      simp only [boxSum_mul_left]
      rw [sumRange_mul_right]
      congr 1
      exact ih ns is (by simpa using h1) (by simpa using h2)

/-- every population has enough calls and no more derived than successful calls: all rows sum to one -/
theorem prodRows_one (proj ns is : List ℕ) (h1 : ns.length = proj.length) (h2 : is.length = proj.length)
    (hen : enoughCalls proj ns = true) (hle : List.Forall₂ (· ≤ ·) is ns) : prodRows proj ns is = 1 := by
  induction proj generalizing ns is with
  | nil => simp [prodRows]
  | cons p ps ih =>
    match ns, is, h1, h2, hle with
    | n :: ns, i :: is, h1, h2, hle =>
      simp only [enoughCalls, Bool.and_eq_true, decide_eq_true_eq] at hen
      rw [List.forall₂_cons] at hle
      simp only [prodRows]
      rw [projWeight_rowsum p n i hen.1 hle.1, one_mul]
      exact ih ns is (by simpa using h1) (by simpa using h2) hen.2 hle.2

/-- some population has fewer calls than the projection: the product vanishes at every index of the box -/
theorem prodW_zero (proj ns is idx : List ℕ) (h1 : ns.length = proj.length) (h2 : is.length = proj.length)
    (h3 : idx.length = proj.length) (hen : enoughCalls proj ns = false) : prodW proj ns is idx = 0 := by
  induction proj generalizing ns is idx with
  | nil => simp [enoughCalls] at hen
  | cons p ps ih =>
    match ns, is, idx, h1, h2, h3 with
    | n :: ns, i :: is, j :: js, h1, h2, h3 =>
      simp only [prodW, weightArgs]
      simp only [enoughCalls, Bool.and_eq_false_iff, decide_eq_false_iff_not, not_le] at hen
      rcases hen with hen | hen
      · rw [projWeight_short hen, zero_mul]
      · rw [ih ns is js (by simpa using h1) (by simpa using h2) (by simpa using h3) hen, mul_zero]

theorem inBox_length {idx shape : List ℕ} (h : InBox idx shape) : idx.length = shape.length := by
  induction shape generalizing idx with
  | nil => cases idx with
    | nil => rfl
    | cons _ _ => exact absurd h (by simp [InBox])
  | cons s ss ih => cases idx with
    | nil => exact absurd h (by simp [InBox])
    | cons i is => simp [ih h.2]

/-! ### the count dictionary groups equal SNPs: the spectrum is a sum over SNPs -/

theorem entryAt_succ (pol : Bool) (proj : List ℕ) (k : Key) (c : ℕ) (idx : List ℕ) :
    entryAt pol proj (k, c + 1) idx = entryAt pol proj (k, c) idx + entryAt pol proj (k, 1) idx := by
  unfold entryAt
  split_ifs
  · simp
  · push_cast; ring

theorem rawAt_bump (pol : Bool) (proj : List ℕ) (k : Key) (d : CountDict) (idx : List ℕ) :
    rawAt pol proj (bump k d) idx = rawAt pol proj d idx + entryAt pol proj (k, 1) idx := by
  induction d with
  | nil => simp [bump, rawAt]
  | cons e rest ih =>
    obtain ⟨k', c⟩ := e
    unfold rawAt at ih ⊢
    by_cases h : k' = k
    · subst h
      simp only [bump, if_true, sumMap_cons]
      rw [entryAt_succ]
      ring
    · simp only [bump, h, if_false, sumMap_cons, ih]
      ring

theorem entryAt_keyOf (pol : Bool) (proj : List ℕ) (s : Snp) (idx : List ℕ) (h : s.nseg = biallelicLen) :
    entryAt pol proj (keyOf s, 1) idx = contribAt pol proj s idx := by
  simp [entryAt, contribAt, keyOf, h]

theorem rawAt_foldl (pol : Bool) (proj : List ℕ) (snps : List Snp) (d : CountDict) (idx : List ℕ) :
    rawAt pol proj (snps.foldl countStep d) idx
      = rawAt pol proj d idx + sumMap snps (fun s => contribAt pol proj s idx) := by
  induction snps generalizing d with
  | nil => simp
  | cons s t ih =>
    rw [List.foldl_cons, ih, sumMap_cons]
    by_cases h : s.nseg = biallelicLen
    · have : countStep d s = bump (keyOf s) d := by simp [countStep, h]
      rw [this, rawAt_bump, entryAt_keyOf pol proj s idx h]
      ring
    · have h1 : countStep d s = d := by simp [countStep, h]
      have h2 : contribAt pol proj s idx = 0 := by simp [contribAt, h]
      rw [h1, h2]; ring

/-- **grouping**: the accumulated `fs_total` is the sum of the SNPs' own contributions -/
theorem rawAt_countDict (pol : Bool) (proj : List ℕ) (snps : List Snp) (idx : List ℕ) :
    rawAt pol proj (countDict snps) idx = sumMap snps (fun s => contribAt pol proj s idx) := by
  unfold countDict
  rw [rawAt_foldl]
  simp [rawAt]

/-! ### folding -/

theorem natSum_mirror {proj idx : List ℕ} (h : InBox idx (shapeOf proj)) :
    natSum (mirror proj idx) + natSum idx = natSum proj := by
  induction proj generalizing idx with
  | nil => cases idx with
    | nil => rfl
    | cons _ _ => exact absurd h (by simp [InBox, shapeOf])
  | cons p ps ih => cases idx with
    | nil => exact absurd h (by simp [InBox, shapeOf])
    | cons i is =>
      have hi : i < p + 1 := h.1
      have := ih (idx := is) h.2
      simp only [mirror, natSum]
      omega

theorem mirror_inBox {proj idx : List ℕ} (h : InBox idx (shapeOf proj)) : InBox (mirror proj idx) (shapeOf proj) := by
  induction proj generalizing idx with
  | nil => cases idx with
    | nil => trivial
    | cons _ _ => exact absurd h (by simp [InBox, shapeOf])
  | cons p ps ih => cases idx with
    | nil => exact absurd h (by simp [InBox, shapeOf])
    | cons i is =>
      refine ⟨?_, ih (idx := is) h.2⟩
      show p - i < p + 1
      omega

theorem mirror_mirror {proj idx : List ℕ} (h : InBox idx (shapeOf proj)) : mirror proj (mirror proj idx) = idx := by
  induction proj generalizing idx with
  | nil => cases idx with
    | nil => rfl
    | cons _ _ => exact absurd h (by simp [InBox, shapeOf])
  | cons p ps ih => cases idx with
    | nil => exact absurd h (by simp [InBox, shapeOf])
    | cons i is =>
      have hi : i < p + 1 := h.1
      simp only [mirror, ih (idx := is) h.2]
      congr 1
      omega

/-- reversing every axis permutes the box -/
theorem boxSum_mirror (proj : List ℕ) (f : List ℕ → ℚ) :
    boxSum (shapeOf proj) (fun idx => f (mirror proj idx)) = boxSum (shapeOf proj) f := by
  induction proj generalizing f with
  | nil => simp [shapeOf, boxSum, mirror]
  | cons p ps ih =>
    simp only [shapeOf, List.map_cons, boxSum, mirror]
    have := fun i => ih (fun is => f ((p - i) :: is))
    simp only [shapeOf] at this
    simp only [this]
    exact sumRange_reflect p (fun i => boxSum (ps.map (· + 1)) fun is => f (i :: is))

/-- folding conserves the total (odd and even totals, ambiguous entries included) -/
theorem foldAt_total (proj : List ℕ) (u : List ℕ → ℚ) :
    boxSum (shapeOf proj) (foldAt proj u) = boxSum (shapeOf proj) u := by
  let T := natSum proj
  let g : List ℕ → ℚ := fun idx =>
    if 2 * natSum idx = T then u idx / 2 else if natSum idx ≤ T / 2 then u idx else 0
  let g' : List ℕ → ℚ := fun idx =>
    if 2 * natSum idx = T then u idx / 2 else if T / 2 < natSum idx then u idx else 0
  have h1 : boxSum (shapeOf proj) (foldAt proj u)
      = boxSum (shapeOf proj) (fun idx => g idx + g' (mirror proj idx)) := by
    apply boxSum_congr
    intro idx hidx
    have hm := natSum_mirror hidx
    simp only [foldAt, g, g']
    have hT : natSum proj = T := rfl
    rw [hT] at hm ⊢
    by_cases c1 : T / 2 < natSum idx
    · have a1 : ¬ 2 * natSum idx = T := by omega
      have a2 : ¬ natSum idx ≤ T / 2 := by omega
      have a3 : ¬ 2 * natSum (mirror proj idx) = T := by omega
      have a4 : ¬ T / 2 < natSum (mirror proj idx) := by omega
      simp [c1, a1, a2, a3, a4]
    · by_cases c2 : 2 * natSum idx = T
      · have a3 : 2 * natSum (mirror proj idx) = T := by omega
        simp [c1, c2, a3]
        ring
      · have a2 : natSum idx ≤ T / 2 := by omega
        have a3 : ¬ 2 * natSum (mirror proj idx) = T := by omega
        have a4 : T / 2 < natSum (mirror proj idx) := by omega
        simp [c1, c2, a2, a3, a4]
  rw [h1, boxSum_add, boxSum_mirror proj g', ← boxSum_add]
  apply boxSum_congr
  intro idx _
  simp only [g, g']
  by_cases c2 : 2 * natSum idx = T
  · simp [c2]
  · by_cases c1 : T / 2 < natSum idx
    · have a2 : ¬ natSum idx ≤ T / 2 := by omega
      simp [c1, c2, a2]
    · have a2 : natSum idx ≤ T / 2 := by omega
      simp [c1, c2, a2]

theorem foldAt_add (proj : List ℕ) (u v : List ℕ → ℚ) (idx : List ℕ) :
    foldAt proj (fun i => u i + v i) idx = foldAt proj u idx + foldAt proj v idx := by
  simp only [foldAt]
  split_ifs <;> ring

theorem foldAt_zero (proj idx : List ℕ) : foldAt proj (fun _ => 0) idx = 0 := by
  simp only [foldAt]
  split_ifs <;> simp

theorem foldAt_sumMap {α : Type} (proj : List ℕ) (l : List α) (F : α → List ℕ → ℚ) (idx : List ℕ) :
    foldAt proj (fun i => sumMap l (fun a => F a i)) idx = sumMap l (fun a => foldAt proj (F a) idx) := by
  induction l with
  | nil => simp [foldAt_zero]
  | cons a t ih => simp only [sumMap_cons, foldAt_add, ih]

/-! ### partitions by a key -/

theorem sumMap_indicator (ks : List ℕ) (hnd : ks.Nodup) (x : ℕ) (hx : x ∈ ks) (c : ℚ) :
    sumMap ks (fun k => if x = k then c else 0) = c := by
  induction ks with
  | nil => cases hx
  | cons k t ih =>
    rw [List.nodup_cons] at hnd
    simp only [sumMap_cons]
    by_cases h : x = k
    · subst h
      have : sumMap t (fun k => if x = k then c else 0) = 0 := by
        refine (sumMap_congr ?_).trans (sumMap_zero t)
        intro b hb
        have : x ≠ b := fun e => hnd.1 (e ▸ hb)
        simp [this]
      rw [this]; simp
    · have hx' : x ∈ t := by
        rcases List.mem_cons.mp hx with e | e
        · exact absurd e h
        · exact e
      rw [ih hnd.2 hx']; simp [h]

/-- splitting a list by a key whose values all lie in the duplicate-free list `ks` loses and repeats nothing -/
theorem sumMap_partition {α : Type} (ks : List ℕ) (hnd : ks.Nodup) (key : α → ℕ) (l : List α)
    (hall : ∀ a ∈ l, key a ∈ ks) (f : α → ℚ) :
    sumMap ks (fun k => sumMap (l.filter fun a => key a == k) f) = sumMap l f := by
  induction l with
  | nil => simp [sumMap_zero]
  | cons a t ih =>
    have e : ∀ k, sumMap ((a :: t).filter fun a => key a == k) f
        = (if key a = k then f a else 0) + sumMap (t.filter fun a => key a == k) f := by
      intro k
      by_cases h : key a = k
      · simp [h]
      · simp [h]
    simp only [e, sumMap_add, sumMap_cons]
    rw [sumMap_indicator ks hnd (key a) (hall a (by simp)) (f a), ih fun b hb => hall b (by simp [hb])]

theorem dedupNat_mem (l : List ℕ) (x : ℕ) : x ∈ dedupNat l ↔ x ∈ l := by
  induction l with
  | nil => simp [dedupNat]
  | cons a t ih =>
    simp only [dedupNat, List.mem_cons, List.mem_filter, ih]
    constructor
    · rintro (h | ⟨h, _⟩)
      · exact Or.inl h
      · exact Or.inr h
    · rintro (h | h)
      · exact Or.inl h
      · by_cases e : x = a
        · exact Or.inl e
        · exact Or.inr ⟨h, by simpa using e⟩

theorem dedupNat_nodup (l : List ℕ) : (dedupNat l).Nodup := by
  induction l with
  | nil => simp [dedupNat]
  | cons a t ih =>
    simp only [dedupNat, List.nodup_cons, List.mem_filter]
    refine ⟨fun h => by simpa using h.2, ih.filter _⟩

theorem le_maxL (l : List ℕ) (x : ℕ) (h : x ∈ l) : x ≤ maxL l := by
  induction l with
  | nil => cases h
  | cons a t ih =>
    simp only [maxL]
    rcases List.mem_cons.mp h with e | e
    · subst e; exact Nat.le_max_left _ _
    · exact le_trans (ih e) (Nat.le_max_right _ _)

/-- the chunks of one chromosome partition its SNPs -/
theorem sumMap_chunksOfChrom (size : ℕ) (l : List Snp) (f : Snp → ℚ) :
    sumMap (chunksOfChrom size l) (fun c => sumMap c f) = sumMap l f := by
  unfold chunksOfChrom
  rw [sumMap_map]
  apply sumMap_partition _ List.nodup_range (fun s => chunkIdx size s.pos) l
  intro a ha
  rw [List.mem_range]
  have := le_maxL (l.map fun s => chunkIdx size s.pos) (chunkIdx size a.pos) (List.mem_map.mpr ⟨a, ha, rfl⟩)
  omega

/-- **partition**: every SNP lies in exactly one chunk (for any additive `f`, chunk sums add up to the whole) -/
theorem sumMap_fragment (size : ℕ) (snps : List Snp) (f : Snp → ℚ) :
    sumMap (fragment size snps) (fun c => sumMap c f) = sumMap snps f := by
  unfold fragment
  rw [sumMap_flatMap]
  simp only [sumMap_chunksOfChrom]
  apply sumMap_partition _ (dedupNat_nodup _) (fun s => s.chrom) snps
  intro a ha
  rw [dedupNat_mem]
  exact List.mem_map.mpr ⟨a, ha, rfl⟩

/-! ### the chunk loop -/

theorem chunkLoop_spec (size p : ℕ) (hs : 0 < size) (fuel end_ idx : ℕ)
    (hend : end_ = (idx + 1) * size) (hfuel : p ≤ fuel + idx * size) (hlo : idx = 0 ∨ idx * size < p) :
    let k := chunkLoop size p fuel end_ idx
    p ≤ (k + 1) * size ∧ (k = 0 ∨ k * size < p) := by
  induction fuel generalizing end_ idx with
  | zero =>
    simp only [chunkLoop]
    refine ⟨?_, hlo⟩
    have : (idx + 1) * size = idx * size + size := by ring
    omega
  | succ fuel ih =>
    simp only [chunkLoop, chunkAdvance, gt_iff_lt, decide_eq_true_eq]
    split_ifs with h
    · have e1 : (idx + 1 + 1) * size = (idx + 1) * size + size := by ring
      have e2 : (idx + 1) * size = idx * size + size := by ring
      apply ih (end_ + size) (idx + 1)
      · rw [hend, e1]
      · omega
      · right; omega
    · exact ⟨by omega, hlo⟩

/-- chunk `k` holds the positions in `(k·size, (k+1)·size]` (position 0 falls into chunk 0) -/
theorem chunkIdx_spec (size p : ℕ) (hs : 0 < size) :
    p ≤ (chunkIdx size p + 1) * size ∧ (chunkIdx size p = 0 ∨ chunkIdx size p * size < p) := by
  have := chunkLoop_spec size p hs p size 0 (by simp) (by simp) (Or.inl rfl)
  exact this

end DadiVerif.DataDict
