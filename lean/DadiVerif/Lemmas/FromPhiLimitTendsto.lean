import DadiVerif.Lemmas.FromPhiLimitND
import Mathlib.Topology.Instances.Rat
import Mathlib.Analysis.Normed.Field.Lemmas
import Mathlib.Topology.Order.OrderClosed
import Mathlib.Tactic.FunProp
/-! C05, round 5 — the F → 0⁺ limit of the sampling factor of the inbreeding path as a `Filter.Tendsto` statement (in ℚ with its
    order topology; squeeze between L ± K·F/(1−F), the explicit bound of `inbWeight_sub_limit`). -/
namespace DadiVerif.FromPhi
open Filter Topology Set

theorem inbWeight_tendsto (dim a : ℕ) (h : ValidInbAxis dim a) (m P N : ℕ) (het : Bool)
    (x : ℕ → ℚ) (k i : ℕ) (hP : 0 < P) (hx : 0 ≤ x k ∧ x k ≤ 1) :
    Tendsto (fun F : ℚ => inbWeight dim a (P * m) P N F het x k i) (𝓝[>] 0)
      (𝓝 (bern (P * m) i (inbXeff N x k) * hetMult het (x k))) := by
  set L := bern (P * m) i (inbXeff N x k) * hetMult het (x k) with hL
  set K := inbLimitConst m P with hK
  have hup : Tendsto (fun F : ℚ => L + K * (F / (1 - F))) (𝓝[>] 0) (𝓝 L) := by
    have hc : ContinuousAt (fun F : ℚ => L + K * (F / (1 - F))) 0 := by
      fun_prop (disch := norm_num)
    have := hc.tendsto
    simp only [zero_div, mul_zero, add_zero] at this
    exact this.mono_left nhdsWithin_le_nhds
  have hlo : Tendsto (fun F : ℚ => L - K * (F / (1 - F))) (𝓝[>] 0) (𝓝 L) := by
    have hc : ContinuousAt (fun F : ℚ => L - K * (F / (1 - F))) 0 := by
      fun_prop (disch := norm_num)
    have := hc.tendsto
    simp only [zero_div, mul_zero, sub_zero] at this
    exact this.mono_left nhdsWithin_le_nhds
  have hmem : Ioo (0 : ℚ) 1 ∈ 𝓝[>] (0 : ℚ) := Ioo_mem_nhdsGT zero_lt_one
  refine tendsto_of_tendsto_of_tendsto_of_le_of_le' hlo hup ?_ ?_
  · filter_upwards [hmem] with F hF
    have := inbWeight_sub_limit dim a h m P N F hF.1 hF.2 het x k i hP hx
    rw [abs_le] at this
    linarith [this.1]
  · filter_upwards [hmem] with F hF
    have := inbWeight_sub_limit dim a h m P N F hF.1 hF.2 het x k i hP hx
    rw [abs_le] at this
    linarith [this.2]

end DadiVerif.FromPhi
