import DadiVerif.Model.DataDict
import Mathlib.Data.Nat.Choose.Vandermonde
import Mathlib.Data.Nat.Choose.Sum
import Mathlib.Algebra.Order.Field.Rat
import Mathlib.Algebra.BigOperators.Ring.Finset
import Mathlib.Algebra.BigOperators.Field
import Mathlib.Algebra.BigOperators.Intervals
import Mathlib.Tactic.FieldSimp
import Mathlib.Tactic.Ring
import Mathlib.Tactic.Linarith
/-! Infrastructure for C13, part 1: the model's structural sums (`sumRange`, `sumMap`, `boxSum`) and their
    algebra, the local hypergeometric weight (`projWeight`: row sums by Vandermonde, identity when nothing is
    projected), sums of products over a box, axis reversal.  Everything is about the definitions of
    Model/DataDict.lean that the driver executes. -/
namespace DadiVerif.DataDict
open Finset

/-! ### sums -/

theorem sumRange_eq (n : ℕ) (f : ℕ → ℚ) : sumRange n f = ∑ i ∈ range n, f i := by
  induction n with
  | zero => simp [sumRange]
  | succ n ih => rw [sumRange, ih, Finset.sum_range_succ]

theorem sumRange_congr {n : ℕ} {f g : ℕ → ℚ} (h : ∀ i < n, f i = g i) : sumRange n f = sumRange n g := by
  rw [sumRange_eq, sumRange_eq]
  exact Finset.sum_congr rfl fun i hi => h i (mem_range.mp hi)

theorem sumRange_add (n : ℕ) (f g : ℕ → ℚ) : sumRange n (fun i => f i + g i) = sumRange n f + sumRange n g := by
  simp only [sumRange_eq, Finset.sum_add_distrib]

theorem sumRange_zero (n : ℕ) : sumRange n (fun _ => 0) = 0 := by
  simp [sumRange_eq]

theorem sumRange_mul_left (n : ℕ) (c : ℚ) (f : ℕ → ℚ) : sumRange n (fun i => c * f i) = c * sumRange n f := by
  simp only [sumRange_eq, Finset.mul_sum]

theorem sumRange_mul_right (n : ℕ) (c : ℚ) (f : ℕ → ℚ) : sumRange n (fun i => f i * c) = sumRange n f * c := by
  simp only [sumRange_eq, Finset.sum_mul]

theorem sumRange_div (n : ℕ) (c : ℚ) (f : ℕ → ℚ) : sumRange n (fun i => f i / c) = sumRange n f / c := by
  simp only [sumRange_eq, Finset.sum_div]

/-- Σ_{i<n} w i · [i = k] = w k for k < n -/
theorem sumRange_delta (n k : ℕ) (hk : k < n) (w : ℕ → ℚ) :
    sumRange n (fun i => if i = k then w i else 0) = w k := by
  rw [sumRange_eq, Finset.sum_ite_eq' (range n) k w]
  simp [hk]

theorem sumRange_reflect (p : ℕ) (g : ℕ → ℚ) : sumRange (p + 1) (fun i => g (p - i)) = sumRange (p + 1) g := by
  rw [sumRange_eq, sumRange_eq]
  have := Finset.sum_range_reflect g (p + 1)
  rw [← this]
  refine Finset.sum_congr rfl fun i hi => ?_
  have : i < p + 1 := mem_range.mp hi
  congr 1

@[simp] theorem sumMap_nil {α : Type} (f : α → ℚ) : sumMap [] f = 0 := rfl
@[simp] theorem sumMap_cons {α : Type} (a : α) (t : List α) (f : α → ℚ) : sumMap (a :: t) f = f a + sumMap t f := rfl

theorem sumMap_append {α : Type} (l₁ l₂ : List α) (f : α → ℚ) :
    sumMap (l₁ ++ l₂) f = sumMap l₁ f + sumMap l₂ f := by
  induction l₁ with
  | nil => simp
  | cons a t ih => simp [ih, add_assoc]

theorem sumMap_congr {α : Type} {l : List α} {f g : α → ℚ} (h : ∀ a ∈ l, f a = g a) : sumMap l f = sumMap l g := by
  induction l with
  | nil => rfl
  | cons a t ih =>
    simp only [sumMap_cons]
    rw [h a (by simp), ih fun b hb => h b (by simp [hb])]

theorem sumMap_add {α : Type} (l : List α) (f g : α → ℚ) :
    sumMap l (fun a => f a + g a) = sumMap l f + sumMap l g := by
  induction l with
  | nil => simp
  | cons a t ih => simp only [sumMap_cons, ih]; ring

theorem sumMap_zero {α : Type} (l : List α) : sumMap l (fun _ => (0 : ℚ)) = 0 := by
  induction l with
  | nil => rfl
  | cons a t ih => simp [ih]

theorem sumMap_mul_left {α : Type} (l : List α) (c : ℚ) (f : α → ℚ) :
    sumMap l (fun a => c * f a) = c * sumMap l f := by
  induction l with
  | nil => simp
  | cons a t ih => simp only [sumMap_cons, ih]; ring

theorem sumMap_mul_right {α : Type} (l : List α) (c : ℚ) (f : α → ℚ) :
    sumMap l (fun a => f a * c) = sumMap l f * c := by
  induction l with
  | nil => simp
  | cons a t ih => simp only [sumMap_cons, ih]; ring

theorem sumMap_div {α : Type} (l : List α) (c : ℚ) (f : α → ℚ) :
    sumMap l (fun a => f a / c) = sumMap l f / c := by
  simp only [div_eq_mul_inv, sumMap_mul_right]

theorem sumMap_map {α β : Type} (l : List α) (g : α → β) (f : β → ℚ) :
    sumMap (l.map g) f = sumMap l (fun a => f (g a)) := by
  induction l with
  | nil => rfl
  | cons a t ih => simp [ih]

theorem sumMap_perm {α : Type} {l₁ l₂ : List α} (h : l₁.Perm l₂) (f : α → ℚ) : sumMap l₁ f = sumMap l₂ f := by
  induction h with
  | nil => rfl
  | cons a _ ih => simp [ih]
  | swap a b l => simp only [sumMap_cons]; ring
  | trans _ _ ih₁ ih₂ => rw [ih₁, ih₂]

theorem sumMap_flatMap {α β : Type} (l : List α) (g : α → List β) (f : β → ℚ) :
    sumMap (l.flatMap g) f = sumMap l (fun a => sumMap (g a) f) := by
  induction l with
  | nil => rfl
  | cons a t ih => simp [List.flatMap_cons, sumMap_append, ih]

theorem sumMap_filter {α : Type} (l : List α) (p : α → Bool) (f : α → ℚ) :
    sumMap (l.filter p) f = sumMap l (fun a => if p a then f a else 0) := by
  induction l with
  | nil => rfl
  | cons a t ih =>
    by_cases h : p a = true
    · simp [h, ih]
    · simp [h, ih]

/-- the number of elements satisfying `p`, as a sum of indicators -/
theorem length_filter_eq_sumMap {α : Type} (l : List α) (p : α → Bool) :
    ((l.filter p).length : ℚ) = sumMap l (fun a => if p a then 1 else 0) := by
  induction l with
  | nil => simp
  | cons a t ih =>
    by_cases h : p a = true
    · simp [h, ← ih]; ring
    · simp [h, ← ih]

theorem sumRange_sumMap {α : Type} (n : ℕ) (l : List α) (F : ℕ → α → ℚ) :
    sumRange n (fun i => sumMap l (fun a => F i a)) = sumMap l (fun a => sumRange n (fun i => F i a)) := by
  induction l with
  | nil => simp [sumRange_zero]
  | cons a t ih => simp only [sumMap_cons, sumRange_add, ih]

/-! ### boxes -/

/-- `idx` is a multi-index of the array of shape `shape` -/
def InBox : List ℕ → List ℕ → Prop
  | [], [] => True
  | i :: is, s :: ss => i < s ∧ InBox is ss
  | _, _ => False

theorem boxSum_congr {shape : List ℕ} {f g : List ℕ → ℚ} (h : ∀ idx, InBox idx shape → f idx = g idx) :
    boxSum shape f = boxSum shape g := by
  induction shape generalizing f g with
  | nil => exact h [] trivial
  | cons s ss ih =>
    simp only [boxSum]
    refine sumRange_congr fun i hi => ih fun is his => h (i :: is) ⟨hi, his⟩

theorem boxSum_add (shape : List ℕ) (f g : List ℕ → ℚ) :
    boxSum shape (fun idx => f idx + g idx) = boxSum shape f + boxSum shape g := by
  induction shape generalizing f g with
  | nil => rfl
  | cons s ss ih => simp only [boxSum, ih, sumRange_add]

theorem boxSum_zero (shape : List ℕ) : boxSum shape (fun _ => 0) = 0 := by
  induction shape with
  | nil => rfl
  | cons s ss ih => simp only [boxSum, ih, sumRange_zero]

theorem boxSum_mul_left (shape : List ℕ) (c : ℚ) (f : List ℕ → ℚ) :
    boxSum shape (fun idx => c * f idx) = c * boxSum shape f := by
  induction shape generalizing f with
  | nil => rfl
  | cons s ss ih => simp only [boxSum, ih, sumRange_mul_left]

theorem boxSum_div (shape : List ℕ) (c : ℚ) (f : List ℕ → ℚ) :
    boxSum shape (fun idx => f idx / c) = boxSum shape f / c := by
  induction shape generalizing f with
  | nil => rfl
  | cons s ss ih => simp only [boxSum, ih, sumRange_div]

theorem boxSum_sumMap {α : Type} (shape : List ℕ) (l : List α) (F : α → List ℕ → ℚ) :
    boxSum shape (fun idx => sumMap l (fun a => F a idx)) = sumMap l (fun a => boxSum shape (F a)) := by
  induction l with
  | nil => simp [boxSum_zero]
  | cons a t ih => simp only [sumMap_cons, boxSum_add, ih]

/-- Σ_idx [idx = k] · g idx = g k for k in the box -/
theorem boxSum_delta (shape k : List ℕ) (hk : InBox k shape) (g : List ℕ → ℚ) :
    boxSum shape (fun idx => if idx = k then g idx else 0) = g k := by
  induction shape generalizing k g with
  | nil =>
    cases k with
    | nil => simp [boxSum]
    | cons _ _ => exact absurd hk (by simp [InBox])
  | cons s ss ih =>
    cases k with
    | nil => exact absurd hk (by simp [InBox])
    | cons k0 ks =>
      obtain ⟨h0, hks⟩ := hk
      simp only [boxSum]
      have : ∀ i, boxSum ss (fun is => if i :: is = k0 :: ks then g (i :: is) else 0)
          = if i = k0 then g (i :: ks) else 0 := by
        intro i
        by_cases hi : i = k0
        · subst hi
          simp only [List.cons.injEq, true_and, if_true]
          exact ih ks hks (fun is => g (i :: is))
        · simp [hi, boxSum_zero]
      simp only [this]
      exact sumRange_delta s k0 h0 (fun i => g (i :: ks))

/-! ### factorials, binomials -/

theorem fact_eq (n : ℕ) : fact n = n.factorial := by
  induction n with
  | zero => rfl
  | succ n ih => simp [fact, ih, Nat.factorial_succ]

theorem choose_eq (n k : ℕ) : choose n k = n.choose k := by
  unfold choose
  split_ifs with h
  · rw [fact_eq, fact_eq, fact_eq, Nat.choose_eq_factorial_div_factorial h]
  · exact (Nat.choose_eq_zero_of_lt (Nat.lt_of_not_le h)).symm

theorem choose_pos_q {n i : ℕ} (hi : i ≤ n) : ((n.choose i : ℕ) : ℚ) ≠ 0 := by
  have := Nat.choose_pos hi
  exact_mod_cast this.ne'

theorem vandermonde_range (m r i : ℕ) :
    ∑ j ∈ range (i+1), m.choose j * r.choose (i - j) = (m + r).choose i := by
  rw [Nat.add_choose_eq, Finset.Nat.sum_antidiagonal_eq_sum_range_succ_mk]

/-! ### the projection weight -/

theorem projWeight_short {m n : ℕ} (h : n < m) (i j : ℕ) : projWeight m n i j = 0 := by
  simp [projWeight, h]

theorem projWeight_of_le {m n i j : ℕ} (hm : m ≤ n) (hj : j ≤ i) :
    projWeight m n i j = ((m.choose j * (n - m).choose (i - j) : ℕ) : ℚ) / ((n.choose i : ℕ) : ℚ) := by
  simp [projWeight, Nat.not_lt.mpr hm, hj, choose_eq]

theorem projWeight_of_gt {m n i j : ℕ} (hj : i < j) : projWeight m n i j = 0 := by
  unfold projWeight
  split_ifs <;> first | rfl | omega

theorem projWeight_of_gt_m {m n i j : ℕ} (hj : m < j) : projWeight m n i j = 0 := by
  unfold projWeight
  split_ifs
  · rfl
  · rw [choose_eq, Nat.choose_eq_zero_of_lt hj]; simp
  · rfl

/-- every row of the projection sums to one: Σ_{j=0}^{m} C(m,j)·C(n−m,i−j)/C(n,i) = 1 (Vandermonde) -/
theorem projWeight_rowsum (m n i : ℕ) (hm : m ≤ n) (hi : i ≤ n) :
    sumRange (m + 1) (projWeight m n i) = 1 := by
  rw [sumRange_eq]
  -- both ranges can be replaced by a common larger one
  have big : ∑ j ∈ range (m + 1), projWeight m n i j = ∑ j ∈ range (max m i + 1), projWeight m n i j := by
    apply Finset.sum_subset
    · intro x hx; simp only [mem_range] at hx ⊢; omega
    · intro x _ hx2
      have : m < x := by simp only [mem_range] at hx2; omega
      exact projWeight_of_gt_m this
  have small : ∑ j ∈ range (i + 1), projWeight m n i j = ∑ j ∈ range (max m i + 1), projWeight m n i j := by
    apply Finset.sum_subset
    · intro x hx; simp only [mem_range] at hx ⊢; omega
    · intro x _ hx2
      have : i < x := by simp only [mem_range] at hx2; omega
      exact projWeight_of_gt this
  rw [big, ← small]
  have h1 : ∀ j ∈ range (i+1), projWeight m n i j
      = ((m.choose j * (n - m).choose (i - j) : ℕ) : ℚ) / ((n.choose i : ℕ) : ℚ) := by
    intro j hj
    exact projWeight_of_le hm (by simp only [mem_range] at hj; omega)
  rw [Finset.sum_congr rfl h1, ← Finset.sum_div, div_eq_one_iff_eq (choose_pos_q hi)]
  have h := vandermonde_range m (n - m) i
  rw [Nat.add_sub_cancel' hm] at h
  exact_mod_cast h

/-- nothing is projected (all `n` chromosomes used): the row is the indicator of `i` -/
theorem projWeight_full (n i j : ℕ) (hi : i ≤ n) : projWeight n n i j = if j = i then 1 else 0 := by
  by_cases hji : j ≤ i
  · rw [projWeight_of_le le_rfl hji, Nat.sub_self]
    by_cases h : j = i
    · subst h
      simp only [Nat.sub_self, Nat.choose_zero_right, mul_one, if_true]
      exact div_self (choose_pos_q hi)
    · have : i - j ≠ 0 := by omega
      obtain ⟨k, hk⟩ := Nat.exists_eq_succ_of_ne_zero this
      rw [hk, Nat.choose_zero_succ]
      simp [h]
  · have h : j ≠ i := by omega
    rw [projWeight_of_gt (by omega)]
    simp [h]

end DadiVerif.DataDict
