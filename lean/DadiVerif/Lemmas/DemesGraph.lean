import DadiVerif.Lemmas.DemesConv
/-! C16 (round 4) — graph level: how the pieces of the importer (`migRate`, `epochSearch`, break points, demes present, plan rows)
    behave when the graph is written in other units (`Graph.rescale a b`: times × a, sizes × b, rates / b). -/
namespace DadiVerif.DemesConv
open Gen.Demes

theorem tle_tscale {c : ℚ} (hc : 0 < c) (a b : ETime) : tle (tscale c a) (tscale c b) = tle a b := tge_tscale hc b a

@[simp] theorem tscale_some (c x : ℚ) : tscale c (some x) = some (c * x) := rfl
@[simp] theorem tscale_none (c : ℚ) : tscale c none = none := rfl

/-! ### generic loops -/

theorem forBreak_map {α β : Type} (f : α → β) (p : β → Bool) (l : List α) :
    forBreak p (l.map f) = (forBreak (fun x => p (f x)) l).map f := by
  unfold forBreak
  rw [List.find?_map]
  cases h : List.find? (p ∘ f) l with
  | some x =>
    have : List.find? (fun x => p (f x)) l = some x := h
    simp [this]
  | none =>
    have : List.find? (fun x => p (f x)) l = none := h
    simp [this, List.getLast?_map]

/-! ### `_migration_rate_in_interval` -/

theorem migRateStep_rescale {a b : ℚ} (ha : 0 < a) (r : ℚ) (m : GMig) (s d : DName) (i0 i1 : ETime) :
    migRateStep (r / b) (m.rescale a b) s d (tscale a i0) (tscale a i1) = migRateStep r m s d i0 i1 / b := by
  have h1 : ∀ x : ℚ, tle (some (a * x)) (tscale a i1) = tle (some x) i1 := fun x => tle_tscale ha (some x) i1
  unfold migRateStep
  have h2 : ∀ x : ℚ, tge (some (a * x)) (tscale a i0) = tge (some x) i0 := fun x => tge_tscale ha (some x) i0
  have h3 : ∀ x : ℚ, teq (some (a * x)) (tscale a i1) = teq (some x) i1 := fun x => teq_tscale (ne_of_gt ha) (some x) i1
  cases hs : m.sym <;> simp only [GMig.rescale, hs, tge_tscale ha, tle_tscale ha, teq_tscale (ne_of_gt ha), h1, h2, h3] <;> split_ifs <;> rfl

theorem migRate_rescale {a b : ℚ} (ha : 0 < a) (migs : List GMig) (s d : DName) (i0 i1 : ETime) :
    migRate (migs.map (GMig.rescale a b)) s d (tscale a i0) (tscale a i1) = migRate migs s d i0 i1 / b := by
  unfold migRate
  have h : ∀ (l : List GMig) (r : ℚ),
      (l.map (GMig.rescale a b)).foldl (fun r m => migRateStep r m s d (tscale a i0) (tscale a i1)) (r / b)
        = l.foldl (fun r m => migRateStep r m s d i0 i1) r / b := by
    intro l
    induction l with
    | nil => intro r; rfl
    | cons m ms ih =>
      intro r
      simp only [List.map_cons, List.foldl_cons]
      rw [migRateStep_rescale ha, ih]
  have h0 : migRateInit = migRateInit / b := by simp [migRateInit]
  have := h migs migRateInit
  rwa [← h0] at this

/-! ### epochs of a deme, epoch search, `_sizes_at_time` -/

theorem epochsOf_rescale (c : ℚ) (st : ETime) (eps : List InEpoch) :
    epochsOf (tscale c st) (eps.map (InEpoch.rescale c c)) = (epochsOf st eps).map (Epoch.scale c) := by
  induction eps generalizing st with
  | nil => rfl
  | cons e rest ih =>
    simp only [List.map_cons, epochsOf]
    rw [show (some ((InEpoch.rescale c c e).et) : ETime) = tscale c (some e.et) from rfl, ih]
    rfl

theorem epochSearch_scale {c : ℚ} (hc : 0 < c) (eps : List Epoch) (i0 i1 : ETime) :
    epochSearch (eps.map (Epoch.scale c)) (tscale c i0) (tscale c i1) = (epochSearch eps i0 i1).map (Epoch.scale c) := by
  unfold epochSearch
  rw [forBreak_map]
  simp only [Epoch.scale, tge_tscale hc, tle_tscale hc, teq_tscale (ne_of_gt hc)]

/-- value of the answer of `_sizes_at_time` -/
def evalSizes (ex lg : ℚ → ℚ) (pw : ℚ → ℚ → ℚ) (p : SizeFn × Sym × Sym) : SizeFn × ℚ × ℚ :=
  (p.1, p.2.1.eval ex lg pw, p.2.2.eval ex lg pw)

theorem epochSizes_scale (ex lg : ℚ → ℚ) (pw : ℚ → ℚ → ℚ) {c : ℚ} (hc : c ≠ 0) (e : Epoch) (i0 i1 : ETime) :
    (epochSizes (e.scale c) (tscale c i0) (tscale c i1)).map (evalPair ex lg pw)
      = (epochSizes e i0 i1).map (fun p => (c * (evalPair ex lg pw p).1, c * (evalPair ex lg pw p).2)) := by
  have hs : (e.scale c).span = c * e.span := by
    simp [Epoch.span, Epoch.scale, tval_tscale, mul_sub]
  unfold epochSizes
  rw [hs]
  exact sizesAt_scale ex lg pw hc e.fn e.ss e.es e.st e.et e.span i0 i1

theorem demeSizes_rescale (ex lg : ℚ → ℚ) (pw : ℚ → ℚ → ℚ) {c : ℚ} (hc : 0 < c) (d : GDeme InEpoch) (i0 i1 : ETime) :
    (demeSizes (d.rescale c c) (tscale c i0) (tscale c i1)).map (evalSizes ex lg pw)
      = (demeSizes d i0 i1).map (fun p => ((evalSizes ex lg pw p).1, c * (evalSizes ex lg pw p).2.1, c * (evalSizes ex lg pw p).2.2)) := by
  unfold demeSizes
  simp only [GDeme.rescale]
  rw [epochsOf_rescale, epochSearch_scale hc]
  cases h : epochSearch (epochsOf d.start d.epochs) i0 i1 with
  | none => rfl
  | some e =>
    simp only [Option.map_some]
    have := epochSizes_scale ex lg pw (ne_of_gt hc) e i0 i1
    cases h1 : epochSizes e i0 i1 with
    | none =>
      rw [h1] at this
      cases h2 : epochSizes (e.scale c) (tscale c i0) (tscale c i1) with
      | none => rfl
      | some p => rw [h2] at this; simp at this
    | some p =>
      rw [h1] at this
      cases h2 : epochSizes (e.scale c) (tscale c i0) (tscale c i1) with
      | none => rw [h2] at this; simp at this
      | some q =>
        rw [h2] at this
        simp only [Option.map_some, Option.some.injEq, evalPair, Prod.mk.injEq] at this
        simp [evalSizes, Epoch.scale, this.1, this.2]

/-- whether the epoch `_sizes_at_time` picks is constant does not depend on the units -/
theorem demeSizes_fn_rescale {c : ℚ} (hc : 0 < c) (d : GDeme InEpoch) (i0 i1 : ETime) :
    (demeSizes (d.rescale c c) (tscale c i0) (tscale c i1)).map (·.1) = (demeSizes d i0 i1).map (·.1) := by
  have := demeSizes_rescale (fun x => x) (fun x => x) (fun x _ => x) hc d i0 i1
  have h2 := congrArg (Option.map (fun (p : SizeFn × ℚ × ℚ) => p.1)) this
  simpa [Option.map_map, Function.comp_def, evalSizes] using h2

/-! ### break points, intervals, demes present -/

theorem insDesc_tscale {c : ℚ} (hc : 0 < c) (x : ETime) (l : List ETime) :
    insDesc (tscale c x) (l.map (tscale c)) = (insDesc x l).map (tscale c) := by
  induction l with
  | nil => rfl
  | cons y ys ih =>
    simp only [List.map_cons, insDesc, teq_tscale (ne_of_gt hc), tge_tscale hc]
    split_ifs <;> simp [ih]

theorem sortDesc_tscale {c : ℚ} (hc : 0 < c) (l : List ETime) :
    sortDesc (l.map (tscale c)) = (sortDesc l).map (tscale c) := by
  unfold sortDesc
  induction l with
  | nil => rfl
  | cons x xs ih => simp only [List.map_cons, List.foldr_cons, ih, insDesc_tscale hc]

theorem breakPoints_rescale (a b : ℚ) (g : Graph InEpoch) :
    breakPoints (g.rescale a b) = (breakPoints g).map (tscale a) := by
  have h1 : ∀ (st : ETime) (eps : List InEpoch),
      (epochsOf (tscale a st) (eps.map (InEpoch.rescale a b))).flatMap (fun e => [e.st, e.et])
        = ((epochsOf st eps).flatMap fun e => [e.st, e.et]).map (tscale a) := by
    intro st eps
    induction eps generalizing st with
    | nil => rfl
    | cons e rest ih =>
      simp only [List.map_cons, epochsOf, List.flatMap_cons, List.map_append]
      rw [show (some ((InEpoch.rescale a b e).et) : ETime) = tscale a (some e.et) from rfl, ih]
      rfl
  unfold breakPoints
  simp only [Graph.rescale, List.map_append]
  congr 1
  · congr 1
    · rw [List.flatMap_map, List.map_flatMap]
      apply List.flatMap_congr
      intro d _
      exact h1 d.start d.epochs
    · rw [List.map_map, List.map_map]
      apply List.map_congr_left
      intro p _
      rfl
  · rw [List.flatMap_map, List.map_flatMap]
    apply List.flatMap_congr
    intro m _
    rfl

theorem intervals_rescale {a : ℚ} (ha : 0 < a) (b : ℚ) (g : Graph InEpoch) :
    intervals (g.rescale a b) = (intervals g).map (fun iv => (tscale a iv.1, tscale a iv.2)) := by
  unfold intervals
  simp only [breakPoints_rescale, sortDesc_tscale ha]
  rw [← List.map_tail]
  generalize sortDesc (breakPoints g) = s
  generalize s.tail = t
  induction s generalizing t with
  | nil => rfl
  | cons x xs ih =>
    cases t with
    | nil => rfl
    | cons y ys => simp [List.zip_cons_cons, ih]

theorem insByStart_rescale {a : ℚ} (ha : 0 < a) (b : ℚ) (d : GDeme InEpoch) (l : List (GDeme InEpoch)) :
    insByStart (d.rescale a b) (l.map (GDeme.rescale a b)) = (insByStart d l).map (GDeme.rescale a b) := by
  induction l with
  | nil => rfl
  | cons x xs ih =>
    simp only [List.map_cons, insByStart]
    rw [show (GDeme.rescale a b x).start = tscale a x.start from rfl, show (GDeme.rescale a b d).start = tscale a d.start from rfl,
      tge_tscale ha]
    split_ifs <;> simp [ih]

theorem orderDemes_rescale {a : ℚ} (ha : 0 < a) (b : ℚ) (ds : List (GDeme InEpoch)) :
    orderDemes (ds.map (GDeme.rescale a b)) = (orderDemes ds).map (GDeme.rescale a b) := by
  unfold orderDemes
  have h : ∀ (l acc : List (GDeme InEpoch)),
      (l.map (GDeme.rescale a b)).foldl (fun acc d => insByStart d acc) (acc.map (GDeme.rescale a b))
        = (l.foldl (fun acc d => insByStart d acc) acc).map (GDeme.rescale a b) := by
    intro l
    induction l with
    | nil => intro acc; rfl
    | cons d ds ih =>
      intro acc
      simp only [List.map_cons, List.foldl_cons]
      rw [insByStart_rescale ha, ih]
  exact h ds []

theorem endTime_rescale (a b : ℚ) (d : GDeme InEpoch) : (d.rescale a b).endTime = tscale a d.endTime := by
  unfold GDeme.endTime
  simp only [GDeme.rescale, List.getLast?_map]
  cases d.epochs.getLast? <;> rfl

theorem liveIn_rescale {a : ℚ} (ha : 0 < a) (b : ℚ) (g : Graph InEpoch) (i0 i1 : ETime) :
    liveIn (g.rescale a b) (tscale a i0) (tscale a i1) = (liveIn g i0 i1).map (GDeme.rescale a b) := by
  unfold liveIn
  rw [show (g.rescale a b).demes = g.demes.map (GDeme.rescale a b) from rfl, orderDemes_rescale ha, List.filter_map]
  congr 1
  apply List.filter_congr
  intro d _
  simp only [Function.comp_def, endTime_rescale]
  rw [show (GDeme.rescale a b d).start = tscale a d.start from rfl]
  unfold demePresent
  simp only [tge_tscale ha, tle_tscale ha, teq_tscale (ne_of_gt ha)]

theorem demesPresent_rescale {a : ℚ} (ha : 0 < a) (b : ℚ) (g : Graph InEpoch) :
    demesPresent (g.rescale a b)
      = (demesPresent g).map (fun p => ((tscale a p.1.1, tscale a p.1.2), p.2.map (GDeme.rescale a b))) := by
  unfold demesPresent
  rw [intervals_rescale ha, List.filterMap_map, List.map_filterMap]
  apply List.filterMap_congr
  intro iv _
  simp only [Function.comp_def, liveIn_rescale ha]
  cases h : liveIn g iv.1 iv.2 <;> simp

/-! ### one row of the plan -/

theorem intTime_scale {c : ℚ} (hc : c ≠ 0) (i0 i1 : ETime) (Ne : ℚ) :
    intTime (tscale c i0) (tscale c i1) (c * Ne) = intTime i0 i1 Ne := by
  unfold intTime
  rw [isInf_tscale, tval_tscale, tval_tscale]
  split_ifs
  · rfl
  · rw [← mul_sub, div_div, div_div, mul_comm (2 : ℚ) (c * Ne), mul_assoc, mul_div_mul_left _ _ hc, mul_comm Ne 2]

theorem migEntry_scale {c : ℚ} (hc : c ≠ 0) (Ne m : ℚ) : migEntry (c * Ne) (m / c) = migEntry Ne m := by
  unfold migEntry
  field_simp

theorem nuFn_scale (ex lg : ℚ → ℚ) (pw : ℚ → ℚ → ℚ) {c : ℚ} (hc : c ≠ 0) (fn : SizeFn) (allc : Bool) (a b a' b' : Sym) (Ne T t : ℚ)
    (ha : a'.eval ex lg pw = c * a.eval ex lg pw) (hb : b'.eval ex lg pw = c * b.eval ex lg pw) :
    (nuFn fn allc a' b' (c * Ne) T t).map (Sym.eval ex lg pw) = (nuFn fn allc a b Ne T t).map (Sym.eval ex lg pw) := by
  have hdiv : ∀ x : ℚ, c * x / (c * Ne) = x / Ne := fun x => mul_div_mul_left _ _ hc
  cases allc <;> cases fn <;>
    simp [nuFn, nuConstList, nuConstFn, nuLinear, nuExp, Sym.eval, ha, hb, hdiv, mul_div_mul_left _ _ hc, ← mul_sub] <;>
    first | ring1 | (field_simp; try ring1)

theorem migMatrix_rescale {c : ℚ} (hc : 0 < c) (migs : List GMig) (live : List DName) (i0 i1 : ETime) (Ne : ℚ) :
    migMatrix (migs.map (GMig.rescale c c)) live (tscale c i0) (tscale c i1) (c * Ne) = migMatrix migs live i0 i1 Ne := by
  unfold migMatrix
  simp only [migRate_rescale hc, migEntry_scale (ne_of_gt hc)]

theorem map_name_rescale (a b : ℚ) (l : List (GDeme InEpoch)) : (l.map (GDeme.rescale a b)).map (·.name) = l.map (·.name) := by
  rw [List.map_map]; rfl

theorem planRow_rescale {c : ℚ} (hc : 0 < c) (g : Graph InEpoch) (frozenList : List DName) (Ne : ℚ) (iv : ETime × ETime)
    (live : List (GDeme InEpoch)) :
    planRow (g.rescale c c) frozenList (c * Ne) (tscale c iv.1, tscale c iv.2) (live.map (GDeme.rescale c c))
      = planRow g frozenList Ne iv live := by
  unfold planRow
  simp only [map_name_rescale, intTime_scale (ne_of_gt hc)]
  rw [show (g.rescale c c).migs = g.migs.map (GMig.rescale c c) from rfl, migMatrix_rescale hc]
  congr 1
  rw [List.all_map]
  apply List.all_congr rfl
  intro d
  have := demeSizes_fn_rescale hc d iv.1 iv.2
  simp only [Function.comp_def]
  cases h1 : demeSizes d iv.1 iv.2 with
  | none =>
    rw [h1] at this
    cases h2 : demeSizes (GDeme.rescale c c d) (tscale c iv.1) (tscale c iv.2) with
    | none => rfl
    | some q => rw [h2] at this; simp at this
  | some p =>
    rw [h1] at this
    cases h2 : demeSizes (GDeme.rescale c c d) (tscale c iv.1) (tscale c iv.2) with
    | none => rw [h2] at this; simp at this
    | some q =>
      rw [h2] at this
      simp only [Option.map_some, Option.some.injEq] at this
      obtain ⟨f1, x1, y1⟩ := p
      obtain ⟨f2, x2, y2⟩ := q
      simp only at this
      simp [this]

theorem plan_rescale {c : ℚ} (hc : 0 < c) (g : Graph InEpoch) (frozenList : List DName) (Ne : ℚ) :
    plan (g.rescale c c) frozenList (c * Ne) = plan g frozenList Ne := by
  unfold plan
  rw [demesPresent_rescale hc, List.map_map]
  apply List.map_congr_left
  intro p _
  exact planRow_rescale hc g frozenList Ne p.1 p.2

/-- evaluation of the table of `nu` terms -/
def evalNu (ex lg : ℚ → ℚ) (pw : ℚ → ℚ → ℚ) (tab : List (List (Option Sym))) : List (List (Option ℚ)) :=
  tab.map fun row => row.map fun o => o.map (Sym.eval ex lg pw)

theorem planNu_rescale (ex lg : ℚ → ℚ) (pw : ℚ → ℚ → ℚ) {c : ℚ} (hc : 0 < c) (g : Graph InEpoch) (Ne frac : ℚ) :
    evalNu ex lg pw (planNu (g.rescale c c) (c * Ne) frac) = evalNu ex lg pw (planNu g Ne frac) := by
  unfold evalNu planNu
  rw [demesPresent_rescale hc, List.map_map, List.map_map, List.map_map]
  apply List.map_congr_left
  intro p _
  simp only [Function.comp_def, List.map_map]
  have hrow := planRow_rescale hc g [] Ne p.1 p.2
  rw [hrow, intTime_scale (ne_of_gt hc)]
  apply List.map_congr_left
  intro d _
  have := demeSizes_rescale ex lg pw hc d p.1.1 p.1.2
  cases h1 : demeSizes d p.1.1 p.1.2 with
  | none =>
    rw [h1] at this
    cases h2 : demeSizes (GDeme.rescale c c d) (tscale c p.1.1) (tscale c p.1.2) with
    | none => rfl
    | some q => rw [h2] at this; simp at this
  | some q0 =>
    rw [h1] at this
    cases h2 : demeSizes (GDeme.rescale c c d) (tscale c p.1.1) (tscale c p.1.2) with
    | none => rw [h2] at this; simp at this
    | some q =>
      rw [h2] at this
      obtain ⟨f1, x1, y1⟩ := q0
      obtain ⟨f2, x2, y2⟩ := q
      simp only [Option.map_some, Option.some.injEq, evalSizes, Prod.mk.injEq] at this
      obtain ⟨hf, hx, hy⟩ := this
      subst hf
      exact nuFn_scale ex lg pw (ne_of_gt hc) f2 _ x1 y1 x2 y2 Ne _ _ hx hy

/-! ### events and the loop of `_compute_sfs` -/

/-- the library's events with their times in the new unit -/
def libScale (a : ℚ) (lib : List (ℚ × DEvt)) : List (ℚ × DEvt) := lib.map fun p => (a * p.1, p.2)

def evsScale (a : ℚ) (evs : List (ETime × DEvt)) : List (ETime × DEvt) := evs.map fun p => (tscale a p.1, p.2)

theorem marginalizeCond_tscale {a : ℚ} (ha : 0 < a) (sampled : List DName) (d : DName) (e : ETime) (l : List ETime) :
    marginalizeCond sampled d (tscale a e) (l.map (tscale a)) = marginalizeCond sampled d e l := by
  unfold marginalizeCond
  simp only [List.length_map, List.all_map, List.any_map, Function.comp_def, tle_tscale ha, tge_tscale ha, teq_tscale (ne_of_gt ha)]

theorem demoEvents_rescale {a : ℚ} (ha : 0 < a) (b : ℚ) (g : Graph InEpoch) (lib : List (ℚ × DEvt)) (sampled : List DName) :
    demoEvents (g.rescale a b) (libScale a lib) sampled = evsScale a (demoEvents g lib sampled) := by
  unfold demoEvents evsScale libScale
  rw [List.map_append, List.map_map, List.map_map]
  congr 1
  rw [show (g.rescale a b).demes = g.demes.map (GDeme.rescale a b) from rfl, List.filterMap_map, List.map_filterMap]
  apply List.filterMap_congr
  intro d _
  simp only [Function.comp_def, endTime_rescale]
  rw [show (GDeme.rescale a b d).name = d.name from rfl, List.filter_map, List.map_map]
  have h : (List.map ((fun x => x.start) ∘ GDeme.rescale a b)
        (List.filter ((fun x => x.ancestors.contains d.name) ∘ GDeme.rescale a b) g.demes))
      = ((g.demes.filter fun x => x.ancestors.contains d.name).map (·.start)).map (tscale a) := by
    rw [List.map_map]; rfl
  rw [h, marginalizeCond_tscale ha]
  split_ifs <;> rfl

theorem eventsAt_scale {a : ℚ} (ha : a ≠ 0) (evs : List (ETime × DEvt)) (t : ETime) :
    eventsAt (evsScale a evs) (tscale a t) = eventsAt evs t := by
  unfold eventsAt evsScale
  rw [List.filter_map, List.map_map]
  simp only [Function.comp_def, teq_tscale ha]

/-- the rows with the interval ends in the new unit -/
def rowsScale (a : ℚ) (rows : List (PlanRow × ETime × List DName)) : List (PlanRow × ETime × List DName) :=
  rows.map fun r => (r.1, tscale a r.2.1, r.2.2)

theorem importLoop_scale {a : ℚ} (ha : 0 < a) (evs : List (ETime × DEvt)) (ids : List DName) (rows : List (PlanRow × ETime × List DName)) :
    importLoop (evsScale a evs) ids (rowsScale a rows) = importLoop evs ids rows := by
  induction rows generalizing ids with
  | nil => rfl
  | cons r rest ih =>
    obtain ⟨row, i1, next⟩ := r
    have h0 : tle (tscale a i1) (some 0) = tle i1 (some 0) := by
      have := tle_tscale ha i1 (some 0)
      simpa using this
    simp only [rowsScale, List.map_cons, importLoop, eventsAt_scale (ne_of_gt ha), h0]
    have ih' := fun ids => ih ids
    simp only [rowsScale] at ih'
    simp only [ih']

@[simp] theorem rescale_name (a b : ℚ) (d : GDeme InEpoch) : (GDeme.rescale a b d).name = d.name := rfl

theorem zip3_map {α β γ : Type} (f : β → β) (P : List α) (E : List β) (N : List γ) :
    P.zip ((E.map f).zip N) = (P.zip (E.zip N)).map (fun r => (r.1, f r.2.1, r.2.2)) := by
  induction P generalizing E N with
  | nil => simp
  | cons p ps ih =>
    cases E with
    | nil => simp
    | cons e es =>
      cases N with
      | nil => simp
      | cons n ns => simp [ih]

theorem loopRows_rescale {c : ℚ} (hc : 0 < c) (g : Graph InEpoch) (frozenList : List DName) (Ne : ℚ) :
    loopRows (g.rescale c c) frozenList (c * Ne) = rowsScale c (loopRows g frozenList Ne) := by
  unfold loopRows rowsScale
  rw [plan_rescale hc, demesPresent_rescale hc]
  simp only [List.map_map, Function.comp_def, rescale_name]
  have h1 : (List.map (fun x : (ETime × ETime) × List (GDeme InEpoch) => tscale c x.1.2) (demesPresent g))
      = ((demesPresent g).map fun p => p.1.2).map (tscale c) := by
    rw [List.map_map]; rfl
  rw [h1]
  exact zip3_map (tscale c) _ _ _

theorem firstIds_rescale {a : ℚ} (ha : 0 < a) (b : ℚ) (g : Graph InEpoch) : firstIds (g.rescale a b) = firstIds g := by
  unfold firstIds
  rw [demesPresent_rescale ha]
  cases demesPresent g with
  | nil => rfl
  | cons p ps => simp [List.map_map, Function.comp_def]

theorem importSteps_rescale {c : ℚ} (hc : 0 < c) (g : Graph InEpoch) (lib : List (ℚ × DEvt)) (sampled frozenList : List DName) (Ne : ℚ) :
    importSteps (g.rescale c c) (libScale c lib) sampled frozenList (c * Ne) = importSteps g lib sampled frozenList Ne := by
  unfold importSteps
  rw [demoEvents_rescale hc, firstIds_rescale hc, loopRows_rescale hc, importLoop_scale hc]

theorem rootNe_rescale (a b : ℚ) (g : Graph InEpoch) : rootNe (g.rescale a b) = (rootNe g).map (b * ·) := by
  unfold rootNe
  rw [show (g.rescale a b).demes = g.demes.map (GDeme.rescale a b) from rfl, List.find?_map]
  have : ((fun d : GDeme InEpoch => d.ancestors.isEmpty) ∘ GDeme.rescale a b) = fun d => d.ancestors.isEmpty := rfl
  rw [this]
  cases g.demes.find? (fun d => d.ancestors.isEmpty) with
  | none => rfl
  | some d =>
    simp only [Option.map_some, GDeme.rescale]
    cases d.epochs with
    | nil => rfl
    | cons e es => rfl

/-! ### another time unit -/

theorem tmapT_inv {gt : ℚ} (hgt : gt ≠ 0) (x : ETime) : tmapT (fun y => y / gt) (tmapT (fun y => gt * y) x) = x := by
  cases x with
  | none => rfl
  | some v => simp [tmapT, mul_div_cancel_left₀ _ hgt]

/-- the graph written in years (every time multiplied by the generation time), converted by `in_generations()`, is the graph -/
theorem inGenerations_years {gt : ℚ} (hgt : gt ≠ 0) (g : Graph InEpoch) : (g.tmap (fun y => gt * y)).inGenerations gt = g := by
  obtain ⟨ds, ms, ps⟩ := g
  simp only [Graph.inGenerations, Graph.tmap, List.map_map, Graph.mk.injEq]
  refine ⟨?_, ?_, ?_⟩
  · conv_rhs => rw [← List.map_id ds]
    apply List.map_congr_left
    intro d _
    obtain ⟨n, st, an, pr, ep⟩ := d
    simp only [Function.comp_def, GDeme.tmap, tmapT_inv hgt, List.map_map, id, GDeme.mk.injEq, true_and]
    conv_rhs => rw [← List.map_id ep]
    apply List.map_congr_left
    intro e _
    obtain ⟨f, a, b, c⟩ := e
    simp [TimeScalable.tmap, mul_div_cancel_left₀ _ hgt]
  · conv_rhs => rw [← List.map_id ms]
    apply List.map_congr_left
    intro m _
    obtain ⟨a, b, sy, r, st, et⟩ := m
    simp [GMig.tmap, tmapT_inv hgt, mul_div_cancel_left₀ _ hgt]
  · conv_rhs => rw [← List.map_id ps]
    apply List.map_congr_left
    intro p _
    obtain ⟨so, d, pr, tm⟩ := p
    simp [GPulse.tmap, mul_div_cancel_left₀ _ hgt]

/-! ### the order of the sampled demes -/

theorem demoEvents_congr (g : Graph InEpoch) (lib : List (ℚ × DEvt)) (s s' : List DName) (h : ∀ x, s'.contains x = s.contains x) :
    demoEvents g lib s' = demoEvents g lib s := by
  unfold demoEvents
  congr 1
  apply List.filterMap_congr
  intro d _
  unfold marginalizeCond
  simp only [h]

theorem applyOrderN_newOrderN (ids wanted : List DName) (h : ∀ p ∈ wanted, p ∈ ids) :
    applyOrderN ids (newOrderN ids wanted) = wanted := by
  unfold applyOrderN newOrderN
  rw [List.filterMap_map]
  induction wanted with
  | nil => rfl
  | cons p ps ih =>
    have hp := h p List.mem_cons_self
    have hlt := List.idxOf_lt_length_iff.2 hp
    have ih' := ih (fun q hq => h q (List.mem_cons_of_mem _ hq))
    simp only [Function.comp_def, Nat.add_sub_cancel] at ih'
    simp only [List.filterMap_cons, Function.comp_def, Nat.add_sub_cancel, List.getElem?_eq_getElem hlt, List.getElem_idxOf, ih']

theorem newOrderN_select (ids sampled : List DName) (is : List ℕ) :
    newOrderN ids (is.filterMap fun i => sampled[i]?) = is.filterMap fun i => (newOrderN ids sampled)[i]? := by
  unfold newOrderN
  rw [List.map_filterMap]
  apply List.filterMap_congr
  intro i _
  simp [List.getElem?_map]

/-! ### what the two search loops return -/

theorem foldl_last_match {α : Type} (p : α → Bool) (f : α → ℚ) (l : List α) : ∀ init : ℚ,
    l.foldl (fun r m => if p m then f m else r) init = match (l.filter p).getLast? with
      | some m => f m
      | none => init := by
  induction l with
  | nil => intro init; rfl
  | cons m ms ih =>
    intro init
    simp only [List.foldl_cons, ih, List.filter_cons]
    cases hp : p m
    · simp
    · simp only [if_true]
      cases hL : ms.filter p with
      | nil => simp
      | cons x xs =>
        have hne : (x :: xs).getLast? = some ((x :: xs).getLast (by simp)) := List.getLast?_eq_some_getLast (by simp)
        rw [List.getLast?_cons_cons, hne]


end DadiVerif.DemesConv
