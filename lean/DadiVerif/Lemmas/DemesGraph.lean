import DadiVerif.Lemmas.DemesConv
/-! C16 (round 4) — graph level: how the pieces of the importer (`migRate`, `epochSearch`, break points, demes present, plan rows)
    behave when the graph is written in other units (`Graph.rescale a b`: times × a, sizes × b, rates / b). -/
namespace DadiVerif.DemesConv
open Gen.Demes

theorem tle_tscale {c : ℚ} (hc : 0 < c) (a b : ETime) : tle (tscale c a) (tscale c b) = tle a b := tge_tscale hc b a

@[simp] theorem tscale_some (c x : ℚ) : tscale c (some x) = some (c * x) := rfl
@[simp] theorem tscale_none (c : ℚ) : tscale c none = none := rfl

/-! ### generic loops -/

theorem forBreak_map {α β : Type} (f : α → β) (p : β → Bool) (l : List α) :
    forBreak p (l.map f) = (forBreak (fun x => p (f x)) l).map f := by
  unfold forBreak
  rw [List.find?_map]
  cases h : List.find? (p ∘ f) l with
  | some x =>
    have : List.find? (fun x => p (f x)) l = some x := h
    simp [this]
  | none =>
    have : List.find? (fun x => p (f x)) l = none := h
    simp [this, List.getLast?_map]

/-! ### `_migration_rate_in_interval` -/

theorem migRateStep_rescale {a b : ℚ} (ha : 0 < a) (r : ℚ) (m : GMig) (s d : DName) (i0 i1 : ETime) :
    migRateStep (r / b) (m.rescale a b) s d (tscale a i0) (tscale a i1) = migRateStep r m s d i0 i1 / b := by
  have h1 : ∀ x : ℚ, tle (some (a * x)) (tscale a i1) = tle (some x) i1 := fun x => tle_tscale ha (some x) i1
  unfold migRateStep
  cases hs : m.sym <;> simp only [GMig.rescale, hs, tge_tscale ha, h1] <;> split_ifs <;> rfl

theorem migRate_rescale {a b : ℚ} (ha : 0 < a) (migs : List GMig) (s d : DName) (i0 i1 : ETime) :
    migRate (migs.map (GMig.rescale a b)) s d (tscale a i0) (tscale a i1) = migRate migs s d i0 i1 / b := by
  unfold migRate
  have h : ∀ (l : List GMig) (r : ℚ),
      (l.map (GMig.rescale a b)).foldl (fun r m => migRateStep r m s d (tscale a i0) (tscale a i1)) (r / b)
        = l.foldl (fun r m => migRateStep r m s d i0 i1) r / b := by
    intro l
    induction l with
    | nil => intro r; rfl
    | cons m ms ih =>
      intro r
      simp only [List.map_cons, List.foldl_cons]
      rw [migRateStep_rescale ha, ih]
  have h0 : migRateInit = migRateInit / b := by simp [migRateInit]
  have := h migs migRateInit
  rwa [← h0] at this

/-! ### epochs of a deme, epoch search, `_sizes_at_time` -/

theorem epochsOf_rescale (c : ℚ) (st : ETime) (eps : List InEpoch) :
    epochsOf (tscale c st) (eps.map (InEpoch.rescale c c)) = (epochsOf st eps).map (Epoch.scale c) := by
  induction eps generalizing st with
  | nil => rfl
  | cons e rest ih =>
    simp only [List.map_cons, epochsOf]
    rw [show (some ((InEpoch.rescale c c e).et) : ETime) = tscale c (some e.et) from rfl, ih]
    rfl

theorem epochSearch_scale {c : ℚ} (hc : 0 < c) (eps : List Epoch) (i0 i1 : ETime) :
    epochSearch (eps.map (Epoch.scale c)) (tscale c i0) (tscale c i1) = (epochSearch eps i0 i1).map (Epoch.scale c) := by
  unfold epochSearch
  rw [forBreak_map]
  simp only [Epoch.scale, tge_tscale hc, tle_tscale hc]

/-- value of the answer of `_sizes_at_time` -/
def evalSizes (ex lg : ℚ → ℚ) (pw : ℚ → ℚ → ℚ) (p : SizeFn × Sym × Sym) : SizeFn × ℚ × ℚ :=
  (p.1, p.2.1.eval ex lg pw, p.2.2.eval ex lg pw)

theorem epochSizes_scale (ex lg : ℚ → ℚ) (pw : ℚ → ℚ → ℚ) {c : ℚ} (hc : c ≠ 0) (e : Epoch) (i0 i1 : ETime) :
    (epochSizes (e.scale c) (tscale c i0) (tscale c i1)).map (evalPair ex lg pw)
      = (epochSizes e i0 i1).map (fun p => (c * (evalPair ex lg pw p).1, c * (evalPair ex lg pw p).2)) := by
  have hs : (e.scale c).span = c * e.span := by
    simp [Epoch.span, Epoch.scale, tval_tscale, mul_sub]
  unfold epochSizes
  rw [hs]
  exact sizesAt_scale ex lg pw hc e.fn e.ss e.es e.st e.et e.span i0 i1

theorem demeSizes_rescale (ex lg : ℚ → ℚ) (pw : ℚ → ℚ → ℚ) {c : ℚ} (hc : 0 < c) (d : GDeme InEpoch) (i0 i1 : ETime) :
    (demeSizes (d.rescale c c) (tscale c i0) (tscale c i1)).map (evalSizes ex lg pw)
      = (demeSizes d i0 i1).map (fun p => ((evalSizes ex lg pw p).1, c * (evalSizes ex lg pw p).2.1, c * (evalSizes ex lg pw p).2.2)) := by
  unfold demeSizes
  simp only [GDeme.rescale]
  rw [epochsOf_rescale, epochSearch_scale hc]
  cases h : epochSearch (epochsOf d.start d.epochs) i0 i1 with
  | none => rfl
  | some e =>
    simp only [Option.map_some]
    have := epochSizes_scale ex lg pw (ne_of_gt hc) e i0 i1
    cases h1 : epochSizes e i0 i1 with
    | none =>
      rw [h1] at this
      cases h2 : epochSizes (e.scale c) (tscale c i0) (tscale c i1) with
      | none => rfl
      | some p => rw [h2] at this; simp at this
    | some p =>
      rw [h1] at this
      cases h2 : epochSizes (e.scale c) (tscale c i0) (tscale c i1) with
      | none => rw [h2] at this; simp at this
      | some q =>
        rw [h2] at this
        simp only [Option.map_some, Option.some.injEq, evalPair, Prod.mk.injEq] at this
        simp [evalSizes, Epoch.scale, this.1, this.2]

/-- whether the epoch `_sizes_at_time` picks is constant does not depend on the units -/
theorem demeSizes_fn_rescale {c : ℚ} (hc : 0 < c) (d : GDeme InEpoch) (i0 i1 : ETime) :
    (demeSizes (d.rescale c c) (tscale c i0) (tscale c i1)).map (·.1) = (demeSizes d i0 i1).map (·.1) := by
  have := demeSizes_rescale (fun x => x) (fun x => x) (fun x _ => x) hc d i0 i1
  have h2 := congrArg (Option.map (fun (p : SizeFn × ℚ × ℚ) => p.1)) this
  simpa [Option.map_map, Function.comp_def, evalSizes] using h2

/-! ### break points, intervals, demes present -/

theorem insDesc_tscale {c : ℚ} (hc : 0 < c) (x : ETime) (l : List ETime) :
    insDesc (tscale c x) (l.map (tscale c)) = (insDesc x l).map (tscale c) := by
  induction l with
  | nil => rfl
  | cons y ys ih =>
    simp only [List.map_cons, insDesc, teq_tscale (ne_of_gt hc), tge_tscale hc]
    split_ifs <;> simp [ih]

theorem sortDesc_tscale {c : ℚ} (hc : 0 < c) (l : List ETime) :
    sortDesc (l.map (tscale c)) = (sortDesc l).map (tscale c) := by
  unfold sortDesc
  induction l with
  | nil => rfl
  | cons x xs ih => simp only [List.map_cons, List.foldr_cons, ih, insDesc_tscale hc]

theorem breakPoints_rescale (a b : ℚ) (g : Graph InEpoch) :
    breakPoints (g.rescale a b) = (breakPoints g).map (tscale a) := by
  have h1 : ∀ (st : ETime) (eps : List InEpoch),
      (epochsOf (tscale a st) (eps.map (InEpoch.rescale a b))).flatMap (fun e => [e.st, e.et])
        = ((epochsOf st eps).flatMap fun e => [e.st, e.et]).map (tscale a) := by
    intro st eps
    induction eps generalizing st with
    | nil => rfl
    | cons e rest ih =>
      simp only [List.map_cons, epochsOf, List.flatMap_cons, List.map_append]
      rw [show (some ((InEpoch.rescale a b e).et) : ETime) = tscale a (some e.et) from rfl, ih]
      rfl
  unfold breakPoints
  simp only [Graph.rescale, List.map_append]
  congr 1
  · congr 1
    · rw [List.flatMap_map, List.map_flatMap]
      apply List.flatMap_congr
      intro d _
      exact h1 d.start d.epochs
    · rw [List.map_map, List.map_map]
      apply List.map_congr_left
      intro p _
      rfl
  · rw [List.flatMap_map, List.map_flatMap]
    apply List.flatMap_congr
    intro m _
    rfl

theorem intervals_rescale {a : ℚ} (ha : 0 < a) (b : ℚ) (g : Graph InEpoch) :
    intervals (g.rescale a b) = (intervals g).map (fun iv => (tscale a iv.1, tscale a iv.2)) := by
  unfold intervals
  simp only [breakPoints_rescale, sortDesc_tscale ha]
  rw [← List.map_tail]
  generalize sortDesc (breakPoints g) = s
  generalize s.tail = t
  induction s generalizing t with
  | nil => rfl
  | cons x xs ih =>
    cases t with
    | nil => rfl
    | cons y ys => simp [List.zip_cons_cons, ih]

theorem insByStart_rescale {a : ℚ} (ha : 0 < a) (b : ℚ) (d : GDeme InEpoch) (l : List (GDeme InEpoch)) :
    insByStart (d.rescale a b) (l.map (GDeme.rescale a b)) = (insByStart d l).map (GDeme.rescale a b) := by
  induction l with
  | nil => rfl
  | cons x xs ih =>
    simp only [List.map_cons, insByStart]
    rw [show (GDeme.rescale a b x).start = tscale a x.start from rfl, show (GDeme.rescale a b d).start = tscale a d.start from rfl,
      tge_tscale ha]
    split_ifs <;> simp [ih]

theorem orderDemes_rescale {a : ℚ} (ha : 0 < a) (b : ℚ) (ds : List (GDeme InEpoch)) :
    orderDemes (ds.map (GDeme.rescale a b)) = (orderDemes ds).map (GDeme.rescale a b) := by
  unfold orderDemes
  have h : ∀ (l acc : List (GDeme InEpoch)),
      (l.map (GDeme.rescale a b)).foldl (fun acc d => insByStart d acc) (acc.map (GDeme.rescale a b))
        = (l.foldl (fun acc d => insByStart d acc) acc).map (GDeme.rescale a b) := by
    intro l
    induction l with
    | nil => intro acc; rfl
    | cons d ds ih =>
      intro acc
      simp only [List.map_cons, List.foldl_cons]
      rw [insByStart_rescale ha, ih]
  exact h ds []

theorem endTime_rescale (a b : ℚ) (d : GDeme InEpoch) : (d.rescale a b).endTime = tscale a d.endTime := by
  unfold GDeme.endTime
  simp only [GDeme.rescale, List.getLast?_map]
  cases d.epochs.getLast? <;> rfl

theorem liveIn_rescale {a : ℚ} (ha : 0 < a) (b : ℚ) (g : Graph InEpoch) (i0 i1 : ETime) :
    liveIn (g.rescale a b) (tscale a i0) (tscale a i1) = (liveIn g i0 i1).map (GDeme.rescale a b) := by
  unfold liveIn
  rw [show (g.rescale a b).demes = g.demes.map (GDeme.rescale a b) from rfl, orderDemes_rescale ha, List.filter_map]
  congr 1
  apply List.filter_congr
  intro d _
  simp only [Function.comp_def, endTime_rescale]
  rw [show (GDeme.rescale a b d).start = tscale a d.start from rfl]
  unfold demePresent
  simp only [tge_tscale ha, tle_tscale ha]

theorem demesPresent_rescale {a : ℚ} (ha : 0 < a) (b : ℚ) (g : Graph InEpoch) :
    demesPresent (g.rescale a b)
      = (demesPresent g).map (fun p => ((tscale a p.1.1, tscale a p.1.2), p.2.map (GDeme.rescale a b))) := by
  unfold demesPresent
  rw [intervals_rescale ha, List.filterMap_map, List.map_filterMap]
  apply List.filterMap_congr
  intro iv _
  simp only [Function.comp_def, liveIn_rescale ha]
  cases h : liveIn g iv.1 iv.2 <;> simp

end DadiVerif.DemesConv
