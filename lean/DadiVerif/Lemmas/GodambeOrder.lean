import DadiVerif.Lemmas.Godambe
import Mathlib.Analysis.SpecialFunctions.Log.Deriv
set_option autoImplicit false
namespace DadiVerif
namespace Godambe
namespace Order
open Real

theorem log_one_add_sub (u : ℝ) (hu : |u| < 1) : |Real.log (1 + u) - u| ≤ u ^ 2 / (1 - |u|) := by
  have h := Real.abs_log_sub_add_sum_range_le (x := -u) (by simpa using hu) 1
  simp only [Finset.sum_range_one, abs_neg] at h
  have e : (-u) ^ (0 + 1) / ((0 : ℕ) + 1 : ℝ) + Real.log (1 - -u) = Real.log (1 + u) - u := by
    simp; ring
  rw [e] at h
  simpa [sq_abs] using h

theorem log_one_add_sub2 (u : ℝ) (hu : |u| < 1) : |Real.log (1 + u) - u + u ^ 2 / 2| ≤ |u| ^ 3 / (1 - |u|) := by
  have h := Real.abs_log_sub_add_sum_range_le (x := -u) (by simpa using hu) 2
  simp only [Finset.sum_range_succ, Finset.sum_range_zero, abs_neg] at h
  have e : (0 + (-u) ^ (0 + 1) / ((0 : ℕ) + 1 : ℝ) + (-u) ^ (1 + 1) / ((1 : ℕ) + 1 : ℝ)) + Real.log (1 - -u) = Real.log (1 + u) - u + u ^ 2 / 2 := by
    simp; ring
  rw [e] at h
  simpa using h

theorem log_sym (u : ℝ) (hu : |u| < 1) : |Real.log (1 + u) + Real.log (1 - u) + u ^ 2| ≤ u ^ 4 / (1 - u ^ 2) := by
  have hu2 : |u ^ 2| < 1 := by
    rw [abs_pow]; exact pow_lt_one₀ (abs_nonneg u) hu (by norm_num)
  have h := Real.abs_log_sub_add_sum_range_le (x := u ^ 2) hu2 1
  have hp : 0 < 1 + u := by have := (abs_lt.mp hu).1; linarith
  have hm : 0 < 1 - u := by have := (abs_lt.mp hu).2; linarith
  have e : Real.log (1 - u ^ 2) = Real.log (1 + u) + Real.log (1 - u) := by
    rw [← Real.log_mul hp.ne' hm.ne']; congr 1; ring
  simp only [Finset.sum_range_one] at h
  rw [e] at h
  have e2 : (u ^ 2) ^ (0 + 1) / ((0 : ℕ) + 1 : ℝ) + (Real.log (1 + u) + Real.log (1 - u)) = Real.log (1 + u) + Real.log (1 - u) + u ^ 2 := by
    simp; ring
  rw [e2] at h
  have e3 : |u ^ 2| ^ (1 + 1) / (1 - |u ^ 2|) = u ^ 4 / (1 - u ^ 2) := by
    rw [abs_pow, sq_abs]; ring
  rwa [e3] at h

/-- `log (m + t) = log m + log (1 + t/m)` -/
theorem log_shift (m t : ℝ) (hm : 0 < m) (ht : |t| < m) : Real.log (m + t) = Real.log m + Real.log (1 + t / m) := by
  have h1 : 0 < 1 + t / m := by
    have : -m < t := (abs_lt.mp ht).1
    have : -1 < t / m := by rw [lt_div_iff₀ hm]; linarith
    linarith
  rw [← Real.log_mul hm.ne' h1.ne']; congr 1; field_simp

section
variable (m t μ : ℝ)

/-- first-order Taylor remainder of the logarithm on an interval where the argument stays ≥ μ -/
theorem log_taylor1 (hμ : 0 < μ) (hb : μ ≤ m - |t|) : |Real.log (m + t) - Real.log m - t / m| ≤ t ^ 2 / μ ^ 2 := by
  have ht0 := abs_nonneg t
  have hm : 0 < m := by linarith
  have htm : |t| < m := by linarith
  have hu : |t / m| < 1 := by rw [abs_div, abs_of_pos hm, div_lt_one hm]; exact htm
  have h := log_one_add_sub (t / m) hu
  rw [log_shift m t hm htm]
  have e : Real.log m + Real.log (1 + t / m) - Real.log m - t / m = Real.log (1 + t / m) - t / m := by ring
  rw [e]
  refine h.trans ?_
  rw [abs_div, abs_of_pos hm]
  have e2 : (t / m) ^ 2 / (1 - |t| / m) = t ^ 2 / (m * (m - |t|)) := by field_simp
  rw [e2]
  apply div_le_div_of_nonneg_left (sq_nonneg t) (by positivity)
  calc μ ^ 2 = μ * μ := by ring
    _ ≤ m * (m - |t|) := mul_le_mul (by linarith) hb hμ.le hm.le

/-- second-order Taylor remainder -/
theorem log_taylor2 (hμ : 0 < μ) (hb : μ ≤ m - |t|) :
    |Real.log (m + t) - Real.log m - t / m + t ^ 2 / (2 * m ^ 2)| ≤ |t| ^ 3 / μ ^ 3 := by
  have ht0 := abs_nonneg t
  have hm : 0 < m := by linarith
  have htm : |t| < m := by linarith
  have hu : |t / m| < 1 := by rw [abs_div, abs_of_pos hm, div_lt_one hm]; exact htm
  have h := log_one_add_sub2 (t / m) hu
  rw [log_shift m t hm htm]
  have e : Real.log m + Real.log (1 + t / m) - Real.log m - t / m + t ^ 2 / (2 * m ^ 2) = Real.log (1 + t / m) - t / m + (t / m) ^ 2 / 2 := by
    field_simp; ring
  rw [e]
  refine h.trans ?_
  rw [abs_div, abs_of_pos hm]
  have e2 : (|t| / m) ^ 3 / (1 - |t| / m) = |t| ^ 3 / (m ^ 2 * (m - |t|)) := by field_simp
  rw [e2]
  apply div_le_div_of_nonneg_left (by positivity) (by positivity)
  calc μ ^ 3 = μ ^ 2 * μ := by ring
    _ ≤ m ^ 2 * (m - |t|) := mul_le_mul (pow_le_pow_left₀ hμ.le (by linarith) 2) hb hμ.le (by positivity)

/-- symmetric second difference of the logarithm -/
theorem log_sym2 (hμ : 0 < μ) (hb : μ ≤ m - |t|) :
    |Real.log (m + t) + Real.log (m - t) - 2 * Real.log m + t ^ 2 / m ^ 2| ≤ t ^ 4 / μ ^ 4 := by
  have ht0 := abs_nonneg t
  have hm : 0 < m := by linarith
  have htm : |t| < m := by linarith
  have hu : |t / m| < 1 := by rw [abs_div, abs_of_pos hm, div_lt_one hm]; exact htm
  have h := log_sym (t / m) hu
  have s1 := log_shift m t hm htm
  have s2 := log_shift m (-t) hm (by simpa using htm)
  have e : Real.log (m + t) + Real.log (m - t) - 2 * Real.log m + t ^ 2 / m ^ 2
      = Real.log (1 + t / m) + Real.log (1 - t / m) + (t / m) ^ 2 := by
    rw [s1, sub_eq_add_neg m t, s2]; ring_nf
  rw [e]
  refine h.trans ?_
  have hpos : 0 < m ^ 2 - t ^ 2 := by
    have : t ^ 2 < m ^ 2 := by
      rw [← sq_abs t]; exact pow_lt_pow_left₀ htm ht0 (by norm_num)
    linarith
  have e2 : (t / m) ^ 4 / (1 - (t / m) ^ 2) = t ^ 4 / (m ^ 2 * (m ^ 2 - t ^ 2)) := by
    have : m ^ 2 - t ^ 2 ≠ 0 := hpos.ne'
    field_simp
  rw [e2]
  apply div_le_div_of_nonneg_left (by positivity) (by positivity)
  have h3 : μ ^ 2 ≤ m ^ 2 - t ^ 2 := by
    have : m ^ 2 - t ^ 2 = (m - |t|) * (m + |t|) := by rw [← sq_abs t]; ring
    rw [this]
    calc μ ^ 2 = μ * μ := by ring
      _ ≤ (m - |t|) * (m + |t|) := mul_le_mul hb (by linarith) hμ.le (by linarith)
  calc μ ^ 4 = μ ^ 2 * μ ^ 2 := by ring
    _ ≤ m ^ 2 * (m ^ 2 - t ^ 2) := mul_le_mul (pow_le_pow_left₀ hμ.le (by linarith) 2) h3 (by positivity) (by positivity)
end

section Combos
variable (m μ : ℝ)

/-- central first difference -/
theorem log_central1 (t : ℝ) (hμ : 0 < μ) (hb : μ ≤ m - |t|) :
    |Real.log (m + t) - Real.log (m - t) - 2 * t / m| ≤ 2 * |t| ^ 3 / μ ^ 3 := by
  have h1 := log_taylor2 m t μ hμ hb
  have h2 := log_taylor2 m (-t) μ hμ (by simpa using hb)
  have e : Real.log (m + t) - Real.log (m - t) - 2 * t / m
      = (Real.log (m + t) - Real.log m - t / m + t ^ 2 / (2 * m ^ 2))
        - (Real.log (m + -t) - Real.log m - -t / m + (-t) ^ 2 / (2 * m ^ 2)) := by
    rw [← sub_eq_add_neg]; ring
  rw [e]
  refine (abs_sub _ _).trans ?_
  rw [abs_neg] at h2
  calc _ ≤ |t| ^ 3 / μ ^ 3 + |t| ^ 3 / μ ^ 3 := add_le_add h1 h2
    _ = 2 * |t| ^ 3 / μ ^ 3 := by ring

/-- one-sided second difference (points m, m+t, m+2t) -/
theorem log_forward2 (t : ℝ) (hμ : 0 < μ) (hb : μ ≤ m - 2 * |t|) :
    |Real.log (m + 2 * t) - 2 * Real.log (m + t) + Real.log m + t ^ 2 / m ^ 2| ≤ 10 * |t| ^ 3 / μ ^ 3 := by
  have ht0 := abs_nonneg t
  have h1 := log_taylor2 m (2 * t) μ hμ (by rw [abs_mul]; simpa using hb)
  have h2 := log_taylor2 m t μ hμ (by linarith)
  have hm : m ≠ 0 := by have : 0 < m := by linarith
                        exact this.ne'
  have e : Real.log (m + 2 * t) - 2 * Real.log (m + t) + Real.log m + t ^ 2 / m ^ 2
      = (Real.log (m + 2 * t) - Real.log m - 2 * t / m + (2 * t) ^ 2 / (2 * m ^ 2))
        - 2 * (Real.log (m + t) - Real.log m - t / m + t ^ 2 / (2 * m ^ 2)) := by
    field_simp; ring
  rw [e]
  refine (abs_sub _ _).trans ?_
  rw [abs_mul, abs_two]
  have e3 : |2 * t| ^ 3 = 8 * |t| ^ 3 := by rw [abs_mul, abs_two]; ring
  rw [e3] at h1
  calc _ ≤ 8 * |t| ^ 3 / μ ^ 3 + 2 * (|t| ^ 3 / μ ^ 3) := add_le_add h1 (by linarith)
    _ = 10 * |t| ^ 3 / μ ^ 3 := by ring

/-- three-point one-sided first difference (`two_pt_deriv_test`) -/
theorem log_forward1_3pt (t : ℝ) (hμ : 0 < μ) (hb : μ ≤ m - 2 * |t|) :
    |4 * Real.log (m + t) - Real.log (m + 2 * t) - 3 * Real.log m - 2 * t / m| ≤ 12 * |t| ^ 3 / μ ^ 3 := by
  have ht0 := abs_nonneg t
  have h1 := log_taylor2 m (2 * t) μ hμ (by rw [abs_mul]; simpa using hb)
  have h2 := log_taylor2 m t μ hμ (by linarith)
  have hm : m ≠ 0 := by have : 0 < m := by linarith
                        exact this.ne'
  have e : 4 * Real.log (m + t) - Real.log (m + 2 * t) - 3 * Real.log m - 2 * t / m
      = 4 * (Real.log (m + t) - Real.log m - t / m + t ^ 2 / (2 * m ^ 2))
        - (Real.log (m + 2 * t) - Real.log m - 2 * t / m + (2 * t) ^ 2 / (2 * m ^ 2)) := by
    field_simp; ring
  rw [e]
  refine (abs_sub _ _).trans ?_
  rw [abs_mul, show |(4 : ℝ)| = 4 by norm_num]
  have e3 : |2 * t| ^ 3 = 8 * |t| ^ 3 := by rw [abs_mul, abs_two]; ring
  rw [e3] at h1
  calc _ ≤ 4 * (|t| ^ 3 / μ ^ 3) + 8 * |t| ^ 3 / μ ^ 3 := add_le_add (by linarith) h1
    _ = 12 * |t| ^ 3 / μ ^ 3 := by ring

theorem pow_abs_le (a s : ℝ) (h : |a| ≤ s) (n : ℕ) : |a| ^ n ≤ s ^ n := pow_le_pow_left₀ (abs_nonneg a) h n

/-- central mixed difference (four corners of a box) -/
theorem log_mixed_central (t₁ t₂ s : ℝ) (hs : |t₁| + |t₂| ≤ s) (hμ : 0 < μ) (hb : μ ≤ m - s) :
    |Real.log (m + t₁ + t₂) - Real.log (m + t₁ - t₂) - Real.log (m - t₁ + t₂) + Real.log (m - t₁ - t₂) + 4 * t₁ * t₂ / m ^ 2|
      ≤ 2 * s ^ 4 / μ ^ 4 := by
  have ha : |t₁ + t₂| ≤ s := (abs_add_le _ _).trans hs
  have hb' : |t₁ - t₂| ≤ s := (abs_sub _ _).trans hs
  have h1 := log_sym2 m (t₁ + t₂) μ hμ (by linarith)
  have h2 := log_sym2 m (t₁ - t₂) μ hμ (by linarith)
  have hm : m ≠ 0 := by have : 0 < m := by linarith [abs_nonneg (t₁ + t₂)]
                        exact this.ne'
  have e : Real.log (m + t₁ + t₂) - Real.log (m + t₁ - t₂) - Real.log (m - t₁ + t₂) + Real.log (m - t₁ - t₂) + 4 * t₁ * t₂ / m ^ 2
      = (Real.log (m + (t₁ + t₂)) + Real.log (m - (t₁ + t₂)) - 2 * Real.log m + (t₁ + t₂) ^ 2 / m ^ 2)
        - (Real.log (m + (t₁ - t₂)) + Real.log (m - (t₁ - t₂)) - 2 * Real.log m + (t₁ - t₂) ^ 2 / m ^ 2) := by
    rw [show m + (t₁ + t₂) = m + t₁ + t₂ by ring, show m - (t₁ + t₂) = m - t₁ - t₂ by ring,
        show m + (t₁ - t₂) = m + t₁ - t₂ by ring, show m - (t₁ - t₂) = m - t₁ + t₂ by ring]
    field_simp; ring
  rw [e]
  refine (abs_sub _ _).trans ?_
  have p1 : (t₁ + t₂) ^ 4 ≤ s ^ 4 := by
    have := pow_abs_le _ _ ha 4; rwa [show |t₁ + t₂| ^ 4 = (t₁ + t₂) ^ 4 by rw [← abs_pow]; exact abs_of_nonneg (by positivity)] at this
  have p2 : (t₁ - t₂) ^ 4 ≤ s ^ 4 := by
    have := pow_abs_le _ _ hb' 4; rwa [show |t₁ - t₂| ^ 4 = (t₁ - t₂) ^ 4 by rw [← abs_pow]; exact abs_of_nonneg (by positivity)] at this
  have hμ4 : 0 < μ ^ 4 := by positivity
  calc _ ≤ (t₁ + t₂) ^ 4 / μ ^ 4 + (t₁ - t₂) ^ 4 / μ ^ 4 := add_le_add h1 h2
    _ ≤ s ^ 4 / μ ^ 4 + s ^ 4 / μ ^ 4 := add_le_add (div_le_div_of_nonneg_right p1 hμ4.le) (div_le_div_of_nonneg_right p2 hμ4.le)
    _ = 2 * s ^ 4 / μ ^ 4 := by ring

/-- forward mixed difference -/
theorem log_mixed_forward (t₁ t₂ s : ℝ) (hs : |t₁| + |t₂| ≤ s) (hμ : 0 < μ) (hb : μ ≤ m - s) :
    |Real.log (m + t₁ + t₂) - Real.log (m + t₁) - Real.log (m + t₂) + Real.log m + t₁ * t₂ / m ^ 2| ≤ 3 * s ^ 3 / μ ^ 3 := by
  have ha : |t₁ + t₂| ≤ s := (abs_add_le _ _).trans hs
  have h1' : |t₁| ≤ s := by linarith [abs_nonneg t₂]
  have h2' : |t₂| ≤ s := by linarith [abs_nonneg t₁]
  have h0 := log_taylor2 m (t₁ + t₂) μ hμ (by linarith)
  have h1 := log_taylor2 m t₁ μ hμ (by linarith)
  have h2 := log_taylor2 m t₂ μ hμ (by linarith)
  have hm : m ≠ 0 := by have : 0 < m := by linarith [abs_nonneg t₁]
                        exact this.ne'
  have e : Real.log (m + t₁ + t₂) - Real.log (m + t₁) - Real.log (m + t₂) + Real.log m + t₁ * t₂ / m ^ 2
      = (Real.log (m + (t₁ + t₂)) - Real.log m - (t₁ + t₂) / m + (t₁ + t₂) ^ 2 / (2 * m ^ 2))
        - (Real.log (m + t₁) - Real.log m - t₁ / m + t₁ ^ 2 / (2 * m ^ 2))
        - (Real.log (m + t₂) - Real.log m - t₂ / m + t₂ ^ 2 / (2 * m ^ 2)) := by
    rw [show m + (t₁ + t₂) = m + t₁ + t₂ by ring]
    field_simp; ring
  rw [e]
  have hμ3 : 0 < μ ^ 3 := by positivity
  have q0 := div_le_div_of_nonneg_right (pow_abs_le _ _ ha 3) hμ3.le
  have q1 := div_le_div_of_nonneg_right (pow_abs_le _ _ h1' 3) hμ3.le
  have q2 := div_le_div_of_nonneg_right (pow_abs_le _ _ h2' 3) hμ3.le
  refine (abs_sub _ _).trans ?_
  have := abs_sub (Real.log (m + (t₁ + t₂)) - Real.log m - (t₁ + t₂) / m + (t₁ + t₂) ^ 2 / (2 * m ^ 2))
    (Real.log (m + t₁) - Real.log m - t₁ / m + t₁ ^ 2 / (2 * m ^ 2))
  calc _ ≤ (s ^ 3 / μ ^ 3 + s ^ 3 / μ ^ 3) + s ^ 3 / μ ^ 3 := by linarith
    _ = 3 * s ^ 3 / μ ^ 3 := by ring
end Combos
end Order
end Godambe
end DadiVerif
