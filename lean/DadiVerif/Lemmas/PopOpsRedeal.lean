import DadiVerif.Lemmas.PopOpsRedealS
import DadiVerif.Lemmas.PopOpsProjComb
/-! C10 (round 5): `scramble_pop_ids` vs projection.  Literal commutation is false; what holds is
    `project(scramble U) = re-deal(project(pool U))`: projecting the scrambled spectrum to sizes `ms` gives the multivariate
    hypergeometric re-deal (sizes `ms`) of the POOLED 1-D spectrum projected to `Σ ms`.  Proof: one axis at a time (the loop of
    `Spectrum.project`), each step by a shifted Vandermonde identity (`redeal_scalar`), the pooled side by composition of 1-D
    projections (`hyp_compose`). -/
namespace DadiVerif.PopOps
open Finset

theorem prodN_cons (a : Nat) (l : List Nat) : prodN (a :: l) = a * prodN l := rfl

/-- split one factor off the product of binomials -/
theorem prodN_choose_eraseIdx (ns c : List Nat) (k : Nat) (hk : k < ns.length) (hc : k < c.length) :
    prodN (List.zipWith Nat.choose ns c)
      = Nat.choose (ns.getD k 0) (c.getD k 0) * prodN (List.zipWith Nat.choose (ns.eraseIdx k) (c.eraseIdx k)) := by
  induction ns generalizing c k with
  | nil => simp at hk
  | cons n ns ih =>
    cases c with
    | nil => simp at hc
    | cons c0 cs =>
      cases k with
      | zero => simp [prodN_cons]
      | succ k =>
        simp only [List.zipWith_cons_cons, prodN_cons, List.eraseIdx_cons_succ, List.getD_cons_succ]
        rw [ih cs k (by simpa using hk) (by simpa using hc)]
        ring

/-- **one step of the loop of `project` on a re-dealt spectrum** -/
theorem redeal_step (ns : List Nat) (k m : Nat) (hk : k < ns.length) (hm : m ≤ ns.getD k 0) (φ : ℕ → ℚ)
    (j : Idx) (hj : j ∈ boxIdx ((ns.set k m).map (· + 1))) :
    projDat (projW (ns.getD k 0) m) k (ns.getD k 0 + 1) (fun c => hypW ns c * φ c.sum) j
      = hypW (ns.set k m) j * ∑ t ∈ range (ns.sum + 1), hyp (ns.set k m).sum ns.sum t j.sum * φ t := by
  have hjl : j.length = ns.length := by rw [mem_box_length _ _ hj]; simp
  have hkj : k < j.length := by omega
  have hle := forall2_lt_le ((mem_boxIdx _ _).1 hj)
  rw [List.map_map] at hle
  have hle' : List.Forall₂ (· ≤ ·) j (ns.set k m) := by
    have e : (ns.set k m).map ((fun x => x - 1) ∘ fun x => x + 1) = ns.set k m := by
      conv_rhs => rw [← List.map_id (ns.set k m)]
      apply List.map_congr_left; intro x _; simp
    rwa [e] at hle
  have hjk : j.getD k 0 ≤ m := by
    have := forall2_getD_le hle' k
    rwa [getD_set_self _ _ _ _ hk] at this
  set r := (j.eraseIdx k).sum with hr
  set E := (ns.eraseIdx k).sum with hE
  have hrE : r ≤ E := by
    have := forall2_sum_le (forall2_eraseIdx hle' k)
    rwa [List.eraseIdx_set_eq] at this
  have hN : ns.sum = ns.getD k 0 + E := (getD_add_sum_eraseIdx ns k).symm
  have hN' : (ns.set k m).sum = m + E := by
    rw [← getD_add_sum_eraseIdx (ns.set k m) k, getD_set_self _ _ _ _ hk, List.eraseIdx_set_eq]
  have hjs : j.sum = j.getD k 0 + r := (getD_add_sum_eraseIdx j k).symm
  set R := prodN (List.zipWith Nat.choose (ns.eraseIdx k) (j.eraseIdx k)) with hR
  unfold projDat
  rw [sum_range_eq]
  have hterm : ∀ h ∈ range (ns.getD k 0 + 1),
      projW (ns.getD k 0) m h (j.getD k 0) * (hypW ns (j.set k h) * φ (j.set k h).sum)
        = (R : ℚ) * (hyp m (ns.getD k 0) h (j.getD k 0) *
            (((ns.getD k 0).choose h : ℕ) : ℚ) / ((ns.sum.choose (h + r) : ℕ) : ℚ) * φ (h + r)) := by
    intro h hh
    rw [mem_range] at hh
    have hs : (j.set k h).sum = h + r := by
      rw [← getD_add_sum_eraseIdx (j.set k h) k, getD_set_self _ _ _ _ hkj, List.eraseIdx_set_eq]
    rw [projW_eq_hyp _ _ _ _ hm (by omega), hypW_eq, hs,
      prodN_choose_eraseIdx ns (j.set k h) k hk (by simpa using hkj), getD_set_self _ _ _ _ hkj, List.eraseIdx_set_eq]
    push_cast
    ring
  rw [Finset.sum_congr rfl hterm, ← Finset.mul_sum]
  have hsc := redeal_scalar (ns.getD k 0) m ns.sum r (j.getD k 0) hm hjk (by omega) φ
  have hform : ∀ h, hyp m (ns.getD k 0) h (j.getD k 0) * (((ns.getD k 0).choose h : ℕ) : ℚ) / ((ns.sum.choose (h + r) : ℕ) : ℚ) * φ (h + r)
      = hyp m (ns.getD k 0) h (j.getD k 0) * ((((ns.getD k 0).choose h : ℕ) : ℚ) / ((ns.sum.choose (h + r) : ℕ) : ℚ) * φ (h + r)) := by
    intro h; ring
  simp_rw [hform]
  rw [hsc, hypW_eq, prodN_choose_eraseIdx (ns.set k m) j k (by simpa using hk) hkj, getD_set_self _ _ _ _ hk, List.eraseIdx_set_eq,
    hN', hjs, show ns.sum - ns.getD k 0 + m = m + E by omega]
  push_cast
  ring

theorem projDat_congr (w : ℕ → ℕ → ℚ) (k nk : Nat) (x y : Idx → ℚ) (j : Idx) (h : ∀ v, v < nk → x (j.set k v) = y (j.set k v)) :
    projDat w k nk x j = projDat w k nk y j := by
  unfold projDat
  congr 1
  apply List.map_congr_left
  intro v hv
  rw [List.mem_range] at hv
  rw [h v hv]

/-- what the loop of `project` preserves: the spectrum is the re-deal (sizes `ns`) of the ORIGINAL pooled spectrum `φ0` (on
    `0..N0`) projected to `Σ ns` -/
def RedealInv (N0 : ℕ) (φ0 : ℕ → ℚ) (T : FS) (ns : List ℕ) : Prop :=
  T.shape = ns.map (· + 1) ∧ ns.sum ≤ N0 ∧
    ∀ c ∈ boxIdx T.shape, T.dat c = hypW ns c * ∑ t ∈ range (N0 + 1), hyp ns.sum N0 t c.sum * φ0 t

theorem redealInv_step (N0 : ℕ) (φ0 : ℕ → ℚ) (T : FS) (ns : List ℕ) (k m : Nat) (h : RedealInv N0 φ0 T ns)
    (hk : k < ns.length) (hm : m ≤ ns.getD k 0) : RedealInv N0 φ0 (projectAxis k m T) (ns.set k m) := by
  obtain ⟨hsh, hsum, hdat⟩ := h
  have hshape : (projectAxis k m T).shape = (ns.set k m).map (· + 1) := by
    rw [projectAxis_shape, hsh, List.map_set]
  have hE : (ns.set k m).sum ≤ ns.sum := by
    rw [← getD_add_sum_eraseIdx (ns.set k m) k, getD_set_self _ _ _ _ hk, List.eraseIdx_set_eq, ← getD_add_sum_eraseIdx ns k]
    omega
  refine ⟨hshape, by omega, fun c hc => ?_⟩
  have hnk : T.shape.getD k 0 = ns.getD k 0 + 1 := by rw [hsh]; exact getD_map_succ ns k hk
  have hc' : c ∈ boxIdx (T.shape.set k (m + 1)) := hc
  rw [projectAxis_dat, hnk, Nat.add_sub_cancel]
  rw [projDat_congr _ k _ T.dat (fun c' => hypW ns c' * (fun s => ∑ t ∈ range (N0 + 1), hyp ns.sum N0 t s * φ0 t) c'.sum) c
    (fun v hv => hdat _ (set_mem_box' T.shape k (m + 1) v c hc' (by rw [hnk]; exact hv)))]
  have hcb : c ∈ boxIdx ((ns.set k m).map (· + 1)) := by rw [← hshape]; exact hc
  rw [redeal_step ns k m hk hm (fun s => ∑ t ∈ range (N0 + 1), hyp ns.sum N0 t s * φ0 t) c hcb]
  congr 1
  have hcs : c.sum ≤ (ns.set k m).sum := by
    have := forall2_sum_le (forall2_lt_le ((mem_boxIdx _ _).1 hcb))
    rw [List.map_map] at this
    have e : (ns.set k m).map ((fun x => x - 1) ∘ fun x => x + 1) = ns.set k m := by
      conv_rhs => rw [← List.map_id (ns.set k m)]
      apply List.map_congr_left; intro x _; simp
    rwa [e] at this
  exact sum_hyp_compose (ns.set k m).sum ns.sum N0 c.sum hE hsum hcs φ0

/-- the sizes after the rest of the loop: position `p + i` set to `msr[i]` -/
def setFrom : Nat → List Nat → List Nat → List Nat
  | _, [], ns => ns
  | p, m :: r, ns => setFrom (p + 1) r (ns.set p m)

theorem setFrom_eq (p : Nat) (msr ns : List Nat) (h : p + msr.length = ns.length) : setFrom p msr ns = ns.take p ++ msr := by
  induction msr generalizing p ns with
  | nil =>
    simp only [setFrom, List.append_nil]
    rw [List.take_of_length_le (by simp at h; omega)]
  | cons m r ih =>
    simp only [setFrom]
    rw [ih (p + 1) (ns.set p m) (by simp at h ⊢; omega)]
    have hp : p < ns.length := by simp at h; omega
    rw [List.take_add_one, List.take_set_of_le (Nat.le_refl p)]
    simp [List.getElem?_set_self hp]

theorem projFrom_redeal (N0 : ℕ) (φ0 : ℕ → ℚ) (msr : List Nat) :
    ∀ (ss : List Nat) (p : Nat) (T : FS) (ns : List ℕ), RedealInv N0 φ0 T ns → ss = (ns.drop p).map (· + 1) → AdmSizes msr ss →
      RedealInv N0 φ0 (projFrom p ss msr T) (setFrom p msr ns) := by
  induction msr with
  | nil =>
    intro ss p T ns h _ _
    cases ss <;> simpa [projFrom, setFrom] using h
  | cons m r ih =>
    intro ss p T ns h hss hadm
    cases hadm with
    | @cons _ s _ ss' hms hrest =>
      have hdrop : (ns.drop p).map (· + 1) = s :: ss' := hss.symm
      have hp : p < ns.length := by
        by_contra hc
        rw [List.drop_of_length_le (by omega)] at hdrop
        simp at hdrop
      have hd : ns.drop p = ns[p] :: ns.drop (p + 1) := List.drop_eq_getElem_cons hp
      rw [hd, List.map_cons] at hdrop
      injection hdrop with h1 h2
      have hnp : ns.getD p 0 = ns[p] := by simp [List.getD_eq_getElem?_getD, List.getElem?_eq_getElem hp]
      have hss' : ss' = ((ns.set p m).drop (p + 1)).map (· + 1) := by
        rw [List.drop_set_of_lt (by omega : p < p + 1), h2]
      simp only [projFrom, setFrom]
      split
      · rename_i heq
        have : ns.set p m = ns := by
          have : m = ns.getD p 0 := by omega
          rw [this]; exact set_getD_self ns p 0
        exact ih ss' (p + 1) T (ns.set p m) (by rw [this]; exact h) hss' hrest
      · exact ih ss' (p + 1) _ (ns.set p m) (redealInv_step N0 φ0 T ns p m h hp (by omega)) hss' hrest

theorem poolFS_project (S : FS) (Mt s : Nat) :
    (projectAxis 0 Mt (poolFS S)).dat [s] = ∑ t ∈ range (nTotal S.shape + 1), projW (nTotal S.shape) Mt t s * pool S t := by
  rw [projectAxis_dat]
  unfold projDat
  rw [sum_range_eq]
  simp [poolFS]

/-- **project ∘ scramble = re-deal ∘ project ∘ pool** on the loops of the model: for every admissible list of sizes `ms`, the
    scrambled spectrum projected to `ms` has shape `ms+1` and at every cell `c` of its box holds
    `Π C(m_l, c_l)/C(Σ ms, Σ c)` times the POOLED spectrum projected (one axis, `_project_one_axis`) to `Σ ms`, at `Σ c`. -/
theorem projectCore_scramble (mc : Bool) (S : FS) (hpos : ∀ s ∈ S.shape, 1 ≤ s) (ms : List Nat) (hadm : AdmSizes ms S.shape) :
    (projectCore ms (scrambleCore mc S)).shape = ms.map (· + 1) ∧
    ∀ c ∈ boxIdx (ms.map (· + 1)),
      (projectCore ms (scrambleCore mc S)).dat c = hypW ms c * (projectAxis 0 ms.sum (poolFS S)).dat [c.sum] := by
  set ns := S.shape.map (· - 1) with hns
  have hshape : S.shape = ns.map (· + 1) := (shape_of_ns S.shape hpos).symm
  have hN0 : ns.sum = nTotal S.shape := rfl
  have h0 : RedealInv (nTotal S.shape) (pool S) (scrambleCore mc S) ns := by
    refine ⟨hshape, by omega, fun c hc => ?_⟩
    have hcs : c.sum ≤ nTotal S.shape := by
      have := total_mem_box S.shape c hc
      rw [mem_boxIdx] at this
      simp only [List.forall₂_cons, List.Forall₂.nil, and_true] at this
      omega
    show hypW ns c * pool S c.sum = _
    rw [hN0, sum_hyp_full _ _ hcs]
  have hfin := projFrom_redeal (nTotal S.shape) (pool S) ms S.shape 0 (scrambleCore mc S) ns h0 (by simpa using hshape) hadm
  rw [setFrom_eq 0 ms ns (by rw [hadm.length_eq, hns]; simp)] at hfin
  simp only [List.take_zero, List.nil_append] at hfin
  obtain ⟨h1, h2, h3⟩ := hfin
  refine ⟨h1, fun c hc => ?_⟩
  have := h3 c (by rw [show (projFrom 0 S.shape ms (scrambleCore mc S)).shape = ms.map (· + 1) from h1]; exact hc)
  show (projFrom 0 S.shape ms (scrambleCore mc S)).dat c = _
  rw [this, poolFS_project]
  congr 1
  apply Finset.sum_congr rfl
  intro t ht
  rw [mem_range] at ht
  rw [projW_eq_hyp _ _ _ _ h2 (by omega)]

theorem clean_scrambleCore_false (S : FS) (hpos : ∀ s ∈ S.shape, 1 ≤ s) : Clean (scrambleCore false S) :=
  ⟨hpos, fun _ _ => rfl⟩

/-- the mask of the projected scrambled spectrum: the two corners iff `mask_corners` -/
theorem projectCore_scramble_msk (mc : Bool) (S : FS) (hpos : ∀ s ∈ S.shape, 1 ≤ s) (ms : List Nat) (hadm : AdmSizes ms S.shape)
    (c : Idx) (hc : c ∈ boxIdx (projectCore ms (scrambleCore mc S)).shape) :
    (projectCore ms (scrambleCore mc S)).msk c = (mc && isCorner (projectCore ms (scrambleCore mc S)).shape c) := by
  have hcl : Clean (projectCore ms (scrambleCore false S)) := by
    rw [projectCore_eq_steps]; exact clean_projSteps _ (clean_scrambleCore_false S hpos)
  have hshape : ∀ b, (projectCore ms (scrambleCore b S)).shape = ms.map (· + 1) := fun b => (projectCore_scramble b S hpos ms hadm).1
  cases mc with
  | false =>
    rw [Bool.false_and]
    exact hcl.2 c hc
  | true =>
    have ho : Obs (scrambleCore true S) (maskCorners (scrambleCore false S)) :=
      ⟨rfl, fun j _ => ⟨by simp [scrambleCore, maskCorners], fun _ => rfl⟩⟩
    have h1 := (obs_projectCore ms ho).trans (projectCore_maskCorners ms (scrambleCore false S) hadm)
    have h2 := (h1.2 c hc).1
    rw [h2, Bool.true_and]
    show ((projectCore ms (scrambleCore false S)).msk c || isCorner (projectCore ms (scrambleCore false S)).shape c) = _
    rw [hcl.2 c (by show c ∈ boxIdx _; rw [hshape false, ← hshape true]; exact hc), Bool.false_or, hshape false, hshape true]

/-- **the public functions**: `fs.scramble_pop_ids(mask_corners).project(ns)` on an unfolded spectrum -/
theorem project_scramble_public (mc : Bool) (S : FS) (hf : S.folded = false) (hpos : ∀ s ∈ S.shape, 1 ≤ s) (ms : List Nat)
    (hadm : AdmSizes ms S.shape) :
    ∃ A, project ms (scramble mc S) = some A ∧ A.shape = ms.map (· + 1) ∧ A.folded = false ∧ A.labels = none ∧
      ∀ c ∈ boxIdx (ms.map (· + 1)),
        A.msk c = (mc && isCorner (ms.map (· + 1)) c) ∧
        A.dat c = hypW ms c * (projectAxis 0 ms.sum (poolFS S)).dat [c.sum] := by
  have hs : scramble mc S = scrambleCore mc S := by simp [scramble, hf]
  obtain ⟨h1, h2⟩ := projectCore_scramble mc S hpos ms hadm
  refine ⟨{ projectCore ms (scrambleCore mc S) with folded := false, labels := none },
    by rw [hs]; exact project_unfolded ms (scrambleCore mc S) rfl hadm, h1, rfl, rfl, fun c hc => ⟨?_, h2 c hc⟩⟩
  have := projectCore_scramble_msk mc S hpos ms hadm c (by rw [h1]; exact hc)
  rw [h1] at this
  exact this

/-- …in the form the driver evaluates: the projected scrambled spectrum IS (shape, mask, data at every entry) the model's
    `redealProj` -/
theorem redealProj_obs (mc : Bool) (S : FS) (hpos : ∀ s ∈ S.shape, 1 ≤ s) (ms : List Nat) (hadm : AdmSizes ms S.shape) :
    Obs (projectCore ms (scrambleCore mc S)) (redealProj mc ms S) := by
  obtain ⟨h1, h2⟩ := projectCore_scramble mc S hpos ms hadm
  refine ⟨h1, fun c hc => ⟨?_, fun _ => h2 c (by rw [← h1]; exact hc)⟩⟩
  have := projectCore_scramble_msk mc S hpos ms hadm c hc
  rw [h1] at this
  exact this

end DadiVerif.PopOps
