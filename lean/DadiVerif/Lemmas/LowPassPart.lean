import DadiVerif.Lemmas.LowPassGeno
import Mathlib.Data.List.Basic
import Mathlib.Data.List.Sort
import Mathlib.Data.List.Count
import Mathlib.Tactic.NormNum
import Mathlib.Tactic.IntervalCases
/-! C18 helper lemmas, part 2: genotype partitions (all and only, each once), genotype counts, positivity of the
    partition weights, the normalised partition distribution, mixtures over it. -/
set_option linter.unusedSimpArgs false
namespace DadiVerif.LowPass
open Finset

/-! ### `part` lists all and only the sorted bounded vectors -/

theorem mem_part (n : ℕ) : ∀ (x minv maxv : ℕ) (l : List ℕ),
    l ∈ part x n minv maxv ↔
      l.length = n ∧ l.sum = x ∧ (∀ v ∈ l, minv ≤ v ∧ v ≤ maxv) ∧ l.Pairwise (· ≤ ·) := by
  induction n with
  | zero =>
    intro x minv maxv l
    unfold part
    constructor
    · intro h
      split_ifs at h with hx
      · simp at h; subst h; simp [hx]
      · simp at h
    · rintro ⟨hl, hs, _, _⟩
      have : l = [] := List.length_eq_zero_iff.mp hl
      subst this
      simp at hs
      simp [hs.symm]
  | succ n ih =>
    intro x minv maxv l
    unfold part
    constructor
    · intro h
      split_ifs at h with hb
      · simp only [List.mem_flatMap, List.mem_range'_1] at h
        obtain ⟨v, ⟨hv1, hv2⟩, hmem⟩ := h
        split_ifs at hmem with hvx
        · simp only [List.mem_map] at hmem
          obtain ⟨t, ht, rfl⟩ := hmem
          obtain ⟨h1, h2, h3, h4⟩ := (ih (x - v) v maxv t).mp ht
          refine ⟨by simp [h1], by simp [h2]; omega, ?_, ?_⟩
          · intro w hw
            rcases List.mem_cons.mp hw with rfl | hw'
            · omega
            · have := h3 w hw'; omega
          · exact List.pairwise_cons.mpr ⟨fun w hw => (h3 w hw).1, h4⟩
        · simp at hmem
      · simp at h
    · rintro ⟨hl, hs, hb, hp⟩
      cases l with
      | nil => simp at hl
      | cons v t =>
        have hlt : t.length = n := by simpa using hl
        have hvb := hb v (List.mem_cons_self)
        have hpc := List.pairwise_cons.mp hp
        have hsum : v + t.sum = x := by simpa using hs
        have htb : ∀ w ∈ t, v ≤ w ∧ w ≤ maxv := fun w hw => ⟨hpc.1 w hw, (hb w (List.mem_cons_of_mem _ hw)).2⟩
        have hlow : t.length * v ≤ t.sum := by
          clear hlt hsum hp hpc hb hs hl
          induction t with
          | nil => simp
          | cons w ws ihw =>
            have := (htb w (List.mem_cons_self)).1
            have := ihw (fun u hu => htb u (List.mem_cons_of_mem _ hu))
            simp [Nat.succ_mul]; omega
        have hhigh : t.sum ≤ t.length * maxv := by
          clear hlt hsum hp hpc hb hs hl hlow
          induction t with
          | nil => simp
          | cons w ws ihw =>
            have := (htb w (List.mem_cons_self)).2
            have := ihw (fun u hu => htb u (List.mem_cons_of_mem _ hu))
            simp [Nat.succ_mul]; omega
        have hguard : (n+1) * minv ≤ x ∧ x ≤ (n+1) * maxv := by
          rw [hlt] at hlow hhigh
          have h1 : n * minv ≤ n * v := Nat.mul_le_mul_left _ hvb.1
          constructor
          · rw [Nat.succ_mul]; omega
          · rw [Nat.succ_mul]; omega
        rw [if_pos hguard]
        simp only [List.mem_flatMap, List.mem_range'_1]
        refine ⟨v, ⟨hvb.1, by omega⟩, ?_⟩
        have hvx : v ≤ x := by omega
        rw [if_pos hvx]
        simp only [List.mem_map]
        exact ⟨t, (ih (x - v) v maxv t).mpr ⟨hlt, by omega, htb, hpc.2⟩, rfl⟩

/-- no partition is listed twice -/
theorem part_nodup (n : ℕ) : ∀ (x minv maxv : ℕ), (part x n minv maxv).Nodup := by
  induction n with
  | zero =>
    intro x minv maxv
    unfold part
    split_ifs <;> simp
  | succ n ih =>
    intro x minv maxv
    unfold part
    split_ifs with hb
    · rw [List.nodup_flatMap]
      constructor
      · intro v _
        split_ifs
        · exact (ih (x - v) v maxv).map (fun a b h => by simpa using h)
        · exact List.nodup_nil
      · refine List.Nodup.pairwise_of_forall_ne (List.nodup_range' (step := 1) (by omega)) ?_
        -- different first entries: the two blocks are disjoint
        intro a _ b _ hab l hla hlb
        dsimp only at hla hlb
        split_ifs at hla with h1
        · split_ifs at hlb with h2
          · simp only [List.mem_map] at hla hlb
            obtain ⟨_, _, rfl⟩ := hla
            obtain ⟨_, _, h⟩ := hlb
            simp at h
            exact hab h.1.symm
          · simp at hlb
        · simp at hla
    · exact List.nodup_nil

theorem part_ne_nil (x n : ℕ) (hx : x ≤ 2 * n) : part x n 0 2 ≠ [] := by
  -- the vector with (x/2) twos … exists; exhibit by membership:  x = 2q + r
  intro h
  have hmem : (List.replicate (n - (x / 2 + x % 2)) 0 ++ List.replicate (x % 2) 1 ++ List.replicate (x / 2) 2)
      ∈ part x n 0 2 := by
    rw [mem_part]
    have hr : x % 2 < 2 := Nat.mod_lt _ (by norm_num)
    refine ⟨?_, ?_, ?_, ?_⟩
    · simp; omega
    · simp; omega
    · intro v hv
      simp only [List.mem_append, List.mem_replicate] at hv
      rcases hv with (⟨_, rfl⟩ | ⟨_, rfl⟩) | ⟨_, rfl⟩ <;> omega
    · rw [List.pairwise_append, List.pairwise_append]
      refine ⟨⟨List.pairwise_replicate.mpr (Or.inr (le_refl _)), List.pairwise_replicate.mpr (Or.inr (le_refl _)), ?_⟩,
        List.pairwise_replicate.mpr (Or.inr (le_refl _)), ?_⟩
      · intro a ha b hb
        rw [List.mem_replicate] at ha hb; omega
      · intro a ha b hb
        simp only [List.mem_append, List.mem_replicate] at ha
        rw [List.mem_replicate] at hb
        rcases ha with ⟨_, rfl⟩ | ⟨_, rfl⟩ <;> omega
  rw [h] at hmem
  simp at hmem

/-! ### genotype counts of a vector over {0,1,2} -/

theorem sum_eq_counts (g : List ℕ) (h : ∀ v ∈ g, v ≤ 2) : g.sum = g.count 1 + 2 * g.count 2 := by
  induction g with
  | nil => simp
  | cons a g ih =>
    have ha : a ≤ 2 := h a (List.mem_cons_self)
    have := ih (fun v hv => h v (List.mem_cons_of_mem _ hv))
    interval_cases a <;> simp [List.count_cons] <;> omega

theorem length_eq_counts (g : List ℕ) (h : ∀ v ∈ g, v ≤ 2) : g.length = g.count 0 + g.count 1 + g.count 2 := by
  induction g with
  | nil => simp
  | cons a g ih =>
    have ha : a ≤ 2 := h a (List.mem_cons_self)
    have := ih (fun v hv => h v (List.mem_cons_of_mem _ hv))
    interval_cases a <;> simp [List.count_cons] <;> omega

/-- facts about a partition of allele count `x` among `n` diploid individuals -/
theorem part_facts {x n : ℕ} {g : List ℕ} (hg : g ∈ part x n 0 2) :
    g.length = n ∧ g.sum = x ∧ (∀ v ∈ g, v ≤ 2) ∧
      x = g.count 1 + 2 * g.count 2 ∧ n = g.count 0 + g.count 1 + g.count 2 := by
  obtain ⟨h1, h2, h3, _⟩ := (mem_part n x 0 2 g).mp hg
  have hb : ∀ v ∈ g, v ≤ 2 := fun v hv => (h3 v hv).2
  exact ⟨h1, h2, hb, by rw [← h2]; exact sum_eq_counts g hb, by rw [← h1]; exact length_eq_counts g hb⟩

/-! ### partition weights are positive -/

theorem multinom3_pos (a b c : ℕ) : 0 < multinom3 a b c := by
  unfold multinom3
  have := fact_pos (a + b + c); have := fact_pos a; have := fact_pos b; have := fact_pos c
  positivity

theorem waysOf_eq (g : List ℕ) :
    waysOf g = multinom3 (g.count 0) (g.count 1) (g.count 2) * 2 ^ (g.count 1) := by
  simp [waysOf, Gen.LowPass.waysF0, cntZ, zpowR_natCast]

theorem waysOf_pos (g : List ℕ) : 0 < waysOf g := by
  rw [waysOf_eq]
  have := multinom3_pos (g.count 0) (g.count 1) (g.count 2)
  positivity

/-- the un-normalised inbreeding weight in closed form, when the guard fires -/
theorem inbWeightOf_eq (g : List ℕ) (F : ℚ)
    (hguard : g.sum ≠ 0 ∧ g.sum ≠ 2 * g.length) :
    inbWeightOf g F =
      (fact g.length : ℚ) / ((fact (g.count 0) : ℚ) * (fact (g.count 1) : ℚ) * (fact (g.count 2) : ℚ))
        * Gen.LowPass.inbP00 (pOf g) F ^ (g.count 0)
        * Gen.LowPass.inbP01 (pOf g) F ^ (g.count 1)
        * Gen.LowPass.inbP11 (pOf g) F ^ (g.count 2) := by
  have hG : Gen.LowPass.inbGuard ((g.sum : ℕ) : ℤ) ((g.length : ℕ) : ℤ) = true := by
    simp only [Gen.LowPass.inbGuard, Bool.and_eq_true, bne_iff_ne, ne_eq]
    constructor
    · exact_mod_cast hguard.1
    · exact_mod_cast hguard.2
  simp only [inbWeightOf, hG, if_true, Gen.LowPass.inbWeight, factZ, cntZ, zpowR_natCast, Int.toNat_natCast]

theorem inbWeightOf_else (g : List ℕ) (F : ℚ) (h : ¬ (g.sum ≠ 0 ∧ g.sum ≠ 2 * g.length)) :
    inbWeightOf g F = 1 := by
  have hG : Gen.LowPass.inbGuard ((g.sum : ℕ) : ℤ) ((g.length : ℕ) : ℤ) = false := by
    rw [Bool.eq_false_iff]
    intro hc
    apply h
    simp only [Gen.LowPass.inbGuard, Bool.and_eq_true, bne_iff_ne, ne_eq] at hc
    constructor
    · intro h0; apply hc.1; exact_mod_cast h0
    · intro h0; apply hc.2; exact_mod_cast h0
  unfold inbWeightOf
  rw [hG]
  simp only [Bool.false_eq_true, if_false, Gen.LowPass.inbElse]

theorem pOf_eq (g : List ℕ) : pOf g = ((2 * g.count 2 + g.count 1 : ℕ) : ℚ) / ((2 * g.length : ℕ) : ℚ) := by
  simp [pOf, Gen.LowPass.inbP, cntZ]

/-- 0 < p < 1 for a polymorphic configuration -/
theorem pOf_unit (g : List ℕ) (hb : ∀ v ∈ g, v ≤ 2) (h0 : g.sum ≠ 0) (h1 : g.sum ≠ 2 * g.length) :
    0 < pOf g ∧ pOf g < 1 := by
  have hs := sum_eq_counts g hb
  have hl := length_eq_counts g hb
  rw [pOf_eq]
  have hlen : 0 < g.length := by
    rcases Nat.eq_zero_or_pos g.length with h | h
    · rw [List.length_eq_zero_iff] at h; subst h; simp at h0
    · exact h
  have hden : (0:ℚ) < ((2 * g.length : ℕ) : ℚ) := by exact_mod_cast (by omega : 0 < 2 * g.length)
  constructor
  · apply div_pos _ hden
    exact_mod_cast (by omega : 0 < 2 * g.count 2 + g.count 1)
  · rw [div_lt_one hden]
    exact_mod_cast (by omega : 2 * g.count 2 + g.count 1 < 2 * g.length)

theorem inbWeightOf_pos (g : List ℕ) (hb : ∀ v ∈ g, v ≤ 2) (F : ℚ) (hF0 : 0 < F) (hF1 : F < 1) :
    0 < inbWeightOf g F := by
  by_cases hguard : g.sum ≠ 0 ∧ g.sum ≠ 2 * g.length
  · rw [inbWeightOf_eq g F hguard]
    obtain ⟨hp0, hp1⟩ := pOf_unit g hb hguard.1 hguard.2
    obtain ⟨e0, e1, e2⟩ := inbP_closed (pOf g) F hF0.ne' hF1.ne
    obtain ⟨b0, b1, b2⟩ := g_pos (pOf g) F hp0 hp1 hF0.le hF1
    rw [e0, e1, e2]
    have := fact_pos g.length; have := fact_pos (g.count 0); have := fact_pos (g.count 1); have := fact_pos (g.count 2)
    positivity
  · rw [inbWeightOf_else g F hguard]; norm_num

theorem partWeight_pos (g : List ℕ) (hb : ∀ v ∈ g, v ≤ 2) (F : ℚ) (hF0 : 0 ≤ F) (hF1 : F < 1) :
    0 < partWeight F g := by
  unfold partWeight
  split_ifs with h
  · exact waysOf_pos g
  · exact inbWeightOf_pos g hb F (lt_of_le_of_ne hF0 (Ne.symm h)) hF1

/-! ### the normalised distribution `pw` and mixtures over it -/

theorem pw_total_pos (x n : ℕ) (hx : x ≤ 2 * n) (F : ℚ) (hF0 : 0 ≤ F) (hF1 : F < 1) :
    0 < lsum ((part x n 0 2).map (partWeight F)) :=
  lsum_map_pos _ _ (part_ne_nil x n hx) (fun g hg => partWeight_pos g (part_facts hg).2.2.1 F hF0 hF1)

theorem pw_mem {x n : ℕ} {F : ℚ} {gp : List ℕ × ℚ} (h : gp ∈ pw x n F) :
    gp.1 ∈ part x n 0 2 ∧ gp.2 = partWeight F gp.1 / lsum ((part x n 0 2).map (partWeight F)) := by
  simp only [pw, List.mem_map] at h
  obtain ⟨g, hg, rfl⟩ := h
  exact ⟨hg, rfl⟩

theorem pw_prob_pos (x n : ℕ) (hx : x ≤ 2 * n) (F : ℚ) (hF0 : 0 ≤ F) (hF1 : F < 1)
    {gp : List ℕ × ℚ} (h : gp ∈ pw x n F) : 0 < gp.2 := by
  obtain ⟨hg, he⟩ := pw_mem h
  rw [he]
  exact div_pos (partWeight_pos gp.1 (part_facts hg).2.2.1 F hF0 hF1) (pw_total_pos x n hx F hF0 hF1)

/-- the partition probabilities sum to one -/
theorem pw_sum (x n : ℕ) (hx : x ≤ 2 * n) (F : ℚ) (hF0 : 0 ≤ F) (hF1 : F < 1) :
    lsum ((pw x n F).map (·.2)) = 1 := by
  have hpos := pw_total_pos x n hx F hF0 hF1
  simp only [pw, List.map_map, Function.comp_def]
  rw [lsum_map_div]
  exact div_self hpos.ne'

/-- a mixture of rows that each sum to one sums to one -/
theorem pw_mixture_sum (x n : ℕ) (hx : x ≤ 2 * n) (F : ℚ) (hF0 : 0 ≤ F) (hF1 : F < 1) (m : ℕ)
    (f : List ℕ → ℚ → ℕ → ℚ)
    (hrow : ∀ g ∈ part x n 0 2, ∀ pr : ℚ, ∑ j ∈ range m, f g pr j = pr) :
    ∑ j ∈ range m, lsum ((pw x n F).map fun gp => f gp.1 gp.2 j) = 1 := by
  rw [sum_lsum_swap]
  rw [← pw_sum x n hx F hF0 hF1]
  apply lsum_map_congr
  intro gp hgp
  exact hrow gp.1 (pw_mem hgp).1 gp.2

/-- a mixture of numbers in [0, pr]·… : bounds -/
theorem pw_mixture_bounds (x n : ℕ) (hx : x ≤ 2 * n) (F : ℚ) (hF0 : 0 ≤ F) (hF1 : F < 1)
    (f : List ℕ → ℚ → ℚ)
    (hb : ∀ g ∈ part x n 0 2, ∀ pr : ℚ, 0 ≤ pr → 0 ≤ f g pr ∧ f g pr ≤ pr) :
    0 ≤ lsum ((pw x n F).map fun gp => f gp.1 gp.2) ∧ lsum ((pw x n F).map fun gp => f gp.1 gp.2) ≤ 1 := by
  constructor
  · apply lsum_map_nonneg
    intro gp hgp
    exact (hb gp.1 (pw_mem hgp).1 gp.2 (pw_prob_pos x n hx F hF0 hF1 hgp).le).1
  · rw [← pw_sum x n hx F hF0 hF1]
    apply lsum_map_le
    intro gp hgp
    exact (hb gp.1 (pw_mem hgp).1 gp.2 (pw_prob_pos x n hx F hF0 hF1 hgp).le).2

end DadiVerif.LowPass
