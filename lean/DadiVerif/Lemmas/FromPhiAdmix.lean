import DadiVerif.Lemmas.FromPhiND
/-! C05 — the admixture-proportion path: nested trapezoid rule of a product of binomial probabilities at the admixed
    frequencies; with identity proportions it is the direct path; its total is the trapezoid mass whatever the proportions. -/
namespace DadiVerif.FromPhi
open Finset Gen.FromPhi

/-! ### the trapezoid rule is a linear functional -/

theorem trapz_const_mul (N : ℕ) (x f : ℕ → ℚ) (c : ℚ) : trapz N x (fun k => c * f k) = c * trapz N x f := by
  simp only [trapz_eq_nodes, Finset.mul_sum]
  exact Finset.sum_congr rfl fun k _ => by ring

theorem trapz_sum (N : ℕ) (x : ℕ → ℚ) (m : ℕ) (F : ℕ → ℕ → ℚ) :
    trapz N x (fun k => ∑ t ∈ range m, F t k) = ∑ t ∈ range m, trapz N x (F t) := by
  simp only [trapz_eq_nodes, Finset.mul_sum]
  rw [Finset.sum_comm]

theorem trapzND_congr : ∀ (grids : List (ℕ × (ℕ → ℚ))) (f g : List ℕ → ℚ),
    (∀ ks, ks.length = grids.length → f ks = g ks) → trapzND grids f = trapzND grids g := by
  intro grids
  induction grids with
  | nil => intro f g h; exact h [] rfl
  | cons p rest ih =>
    intro f g h
    obtain ⟨N, x⟩ := p
    simp only [trapzND]
    congr 1
    funext k
    exact ih _ _ fun ks hks => h (k :: ks) (by simp [hks])

theorem trapzND_const_mul : ∀ (grids : List (ℕ × (ℕ → ℚ))) (f : List ℕ → ℚ) (c : ℚ),
    trapzND grids (fun ks => c * f ks) = c * trapzND grids f := by
  intro grids
  induction grids with
  | nil => intro f c; rfl
  | cons p rest ih =>
    intro f c
    obtain ⟨N, x⟩ := p
    simp only [trapzND]
    rw [← trapz_const_mul]
    congr 1
    funext k
    exact ih _ c

theorem trapzND_sum : ∀ (grids : List (ℕ × (ℕ → ℚ))) (m : ℕ) (F : ℕ → List ℕ → ℚ),
    trapzND grids (fun ks => ∑ t ∈ range m, F t ks) = ∑ t ∈ range m, trapzND grids (F t) := by
  intro grids
  induction grids with
  | nil => intro m F; rfl
  | cons p rest ih =>
    intro m F
    obtain ⟨N, x⟩ := p
    simp only [trapzND]
    rw [← trapz_sum]
    congr 1
    funext k
    exact ih m fun t ks => F t (k :: ks)

theorem trapzND_boxSum : ∀ (sh : List ℕ) (grids : List (ℕ × (ℕ → ℚ))) (F : List ℕ → List ℕ → ℚ),
    boxSum sh (fun idx => trapzND grids (F idx)) = trapzND grids (fun ks => boxSum sh (fun idx => F idx ks)) := by
  intro sh
  induction sh with
  | nil => intro grids F; rfl
  | cons s ss ih =>
    intro grids F
    simp only [boxSum]
    rw [trapzND_sum]
    exact Finset.sum_congr rfl fun i _ => ih grids fun is => F (i :: is)

/-! ### products -/

theorem listProd_eq (l : List ℚ) : listProd l = l.prod := by
  have gen : ∀ (l : List ℚ) (a : ℚ), l.foldl (· * ·) a = a * l.prod := by
    intro l
    induction l with
    | nil => intro a; simp
    | cons x xs ih => intro a; simp only [List.foldl_cons, List.prod_cons, ih]; ring
  unfold listProd
  rw [gen, one_mul]

/-- Π_r h r (idx_r), r < number of axes -/
def prodAlong : List (ℕ → ℚ) → List ℕ → ℚ
  | [], _ => 1
  | h :: hs, idx => h (idx.headD 0) * prodAlong hs idx.tail

/-- Σ over all multi-indices of a product of per-axis factors is the product of the per-axis sums -/
theorem boxSum_prodAlong : ∀ (hs : List (ℕ → ℚ)) (sh : List ℕ), hs.length = sh.length →
    boxSum sh (prodAlong hs) = ((List.zipWith (fun h s => ∑ i ∈ range s, h i) hs sh)).prod := by
  intro hs
  induction hs with
  | nil =>
    intro sh h
    cases sh with
    | nil => simp [boxSum, prodAlong]
    | cons _ _ => simp at h
  | cons h hs ih =>
    intro sh hl
    cases sh with
    | nil => simp at hl
    | cons s ss =>
      simp only [boxSum, prodAlong, List.headD_cons, List.tail_cons, List.zipWith_cons_cons, List.prod_cons]
      have key : ∀ (sh' : List ℕ) (c : ℚ) (G : List ℕ → ℚ), boxSum sh' (fun is => c * G is) = c * boxSum sh' G := by
        intro sh'
        induction sh' with
        | nil => intro c G; rfl
        | cons s' ss' ih' =>
          intro c G
          simp only [boxSum]
          rw [Finset.mul_sum]
          exact Finset.sum_congr rfl fun j _ => ih' c fun is => G (j :: is)
      rw [Finset.sum_congr rfl fun i _ => key ss (h i) (prodAlong hs)]
      rw [← Finset.sum_mul, ih ss (by simpa using hl)]

/-! ### a d-dimensional trapezoid rule with per-axis weights is the nested trapezoid rule of the product -/

/-- per-axis weight operators: `app φ i = trapz N x (k ↦ B i k · φ k)` -/
def wOp (n N : ℕ) (x : ℕ → ℚ) (B : ℕ → ℕ → ℚ) : LineOp :=
  { nOut := n + 1, nIn := N, app := fun φ i => trapz N x (fun k => B i k * φ k) }

theorem wOp_app (n N : ℕ) (x : ℕ → ℚ) (B : ℕ → ℕ → ℚ) (φ : ℕ → ℚ) (i : ℕ) :
    (wOp n N x B).app φ i = trapz N x (fun k => B i k * φ k) := rfl

/-- Π_r B_r(idx_r, ks_r) -/
def prodW : List (ℕ → ℕ → ℚ) → List ℕ → List ℕ → ℚ
  | [], _, _ => 1
  | B :: Bs, idx, ks => B (idx.headD 0) (ks.headD 0) * prodW Bs idx.tail ks.tail

theorem sampleND_wOp : ∀ (axes : List (ℕ × ℕ × (ℕ → ℚ) × (ℕ → ℕ → ℚ))) (φ : List ℕ → ℚ) (idx : List ℕ),
    sampleND (axes.map fun a => wOp a.1 a.2.1 a.2.2.1 a.2.2.2) φ idx
      = trapzND (axes.map fun a => (a.2.1, a.2.2.1)) (fun ks => prodW (axes.map fun a => a.2.2.2) idx ks * φ ks) := by
  intro axes
  induction axes with
  | nil => intro φ idx; simp [trapzND, prodW]
  | cons a rest ih =>
    intro φ idx
    obtain ⟨n, N, x, B⟩ := a
    simp only [List.map_cons, sampleND, trapzND]
    rw [wOp_app]
    congr 1
    funext k
    rw [ih, ← trapzND_const_mul]
    apply trapzND_congr
    intro ks _
    simp only [prodW, List.headD_cons, List.tail_cons]
    ring

/-- the direct operators are weight operators with the binomial probabilities -/
theorem directOp_eq_wOp (dim a n N : ℕ) (h : ValidAxis dim a) (x : ℕ → ℚ) :
    directOp dim a n N false x = wOp n N x (fun i k => bern n i (x k)) := by
  unfold directOp wOp
  congr 1
  funext φ i
  simp only [directLine, trapzAt_eq, directWeight_eq dim a h, hetMult]
  simp

theorem admixFactor_eq (dim r : ℕ) (h : 2 ≤ dim ∧ dim ≤ 4 ∧ r < dim) (n i : ℕ) (y : ℚ) : admixFactor dim r n i y = bern n i y := by
  obtain ⟨h2, h4, hr⟩ := h
  have hd : dim = 2 ∨ dim = 3 ∨ dim = 4 := by omega
  rcases hd with rfl | rfl | rfl
  · have : r = 0 ∨ r = 1 := by omega
    rcases this with rfl | rfl <;> simp only [admixFactor, bern]
  · have : r = 0 ∨ r = 1 ∨ r = 2 := by omega
    rcases this with rfl | rfl | rfl <;> simp only [admixFactor, bern]
  · have : r = 0 ∨ r = 1 ∨ r = 2 ∨ r = 3 := by omega
    rcases this with rfl | rfl | rfl | rfl <;> simp only [admixFactor, bern]

theorem boxSum_congr_len : ∀ (sh : List ℕ) (f g : List ℕ → ℚ), (∀ is, is.length = sh.length → f is = g is) →
    boxSum sh f = boxSum sh g := by
  intro sh
  induction sh with
  | nil => intro f g h; exact h [] rfl
  | cons s ss ih =>
    intro f g h
    simp only [boxSum]
    exact Finset.sum_congr rfl fun i _ => ih _ _ fun is his => h (i :: is) (by simp [his])

/-- identity proportions -/
def identP : ℕ → ℕ → ℚ := fun i j => if i = j then 1 else 0

theorem getD_zero_eq_headD (l : List ℕ) : l.getD 0 0 = l.headD 0 := by cases l <;> rfl
theorem getD_succ_eq_tail (l : List ℕ) (r : ℕ) : l.getD (r+1) 0 = l.tail.getD r 0 := by cases l <;> simp

/-! ### two dimensions -/

theorem admixWeight_two (ns : List ℕ) (N0 N1 : ℕ) (x0 x1 : ℕ → ℚ) (p : ℕ → ℕ → ℚ) (idx : List ℕ) (k0 k1 : ℕ) :
    admixWeight 2 ns [(N0, x0), (N1, x1)] p idx [k0, k1]
      = bern (ns.getD 0 0) (idx.getD 0 0) (p 0 0 * x0 k0 + p 0 1 * x1 k1)
        * bern (ns.getD 1 0) (idx.getD 1 0) (p 1 0 * x0 k0 + p 1 1 * x1 k1) := by
  simp only [admixWeight, listProd_eq, List.range_succ, List.range_zero, List.nil_append, List.cons_append, List.map_cons,
    List.map_nil, List.prod_cons, List.prod_nil, mul_one, admixFactor_eq 2 0 (by omega), admixFactor_eq 2 1 (by omega), admixX]
  simp

theorem admix_identity_two (ns : List ℕ) (g0 g1 : Array ℚ) (φ : List ℕ → ℚ) (idx : List ℕ) :
    admixND 2 ns [(g0.size, gridFn g0), (g1.size, gridFn g1)] identP φ idx = sampleND (directOps "" ns [g0, g1]) φ idx := by
  have hops : directOps "" ns [g0, g1]
      = [(ns.getD 0 0, g0.size, gridFn g0, fun i k => bern (ns.getD 0 0) i (gridFn g0 k)),
         (ns.getD 1 0, g1.size, gridFn g1, fun i k => bern (ns.getD 1 0) i (gridFn g1 k))].map
          fun a => wOp a.1 a.2.1 a.2.2.1 a.2.2.2 := by
    simp only [directOps, List.length_cons, List.length_nil, List.range_succ, List.range_zero, List.nil_append, List.cons_append,
      List.map_cons, List.map_nil]
    have h0 : ("" == hetKey 2 0) = false := by decide
    have h1 : ("" == hetKey 2 1) = false := by decide
    simp only [Nat.zero_add, h0, h1]
    rw [directOp_eq_wOp 2 0 _ _ ⟨by omega, by omega, by omega⟩, directOp_eq_wOp 2 1 _ _ ⟨by omega, by omega, by omega⟩]
    rfl
  rw [hops, sampleND_wOp]
  unfold admixND
  apply trapzND_congr
  intro ks hks
  match ks, hks with
  | [k0, k1], _ =>
    rw [admixWeight_two]
    simp only [List.map_cons, List.map_nil, prodW, List.headD_cons, List.tail_cons, mul_one, identP]
    rw [getD_zero_eq_headD, getD_succ_eq_tail, getD_zero_eq_headD]
    simp

/-- **admixed sampling probabilities sum to one**: total of the 2-D admix path = trapezoid mass, any proportions -/
theorem admix_mass_two (n0 n1 N0 N1 : ℕ) (x0 x1 : ℕ → ℚ) (p : ℕ → ℕ → ℚ) (φ : List ℕ → ℚ) :
    boxSum [n0 + 1, n1 + 1] (admixND 2 [n0, n1] [(N0, x0), (N1, x1)] p φ) = trapzND [(N0, x0), (N1, x1)] φ := by
  unfold admixND
  rw [trapzND_boxSum]
  apply trapzND_congr
  intro ks hks
  match ks, hks with
  | [k0, k1], _ =>
    have h : ∀ idx : List ℕ, idx.length = [n0 + 1, n1 + 1].length →
        admixWeight 2 [n0, n1] [(N0, x0), (N1, x1)] p idx [k0, k1] * φ [k0, k1]
          = φ [k0, k1] * prodAlong [fun i => bern n0 i (p 0 0 * x0 k0 + p 0 1 * x1 k1),
                                     fun i => bern n1 i (p 1 0 * x0 k0 + p 1 1 * x1 k1)] idx := by
      intro idx _
      rw [admixWeight_two]
      simp only [prodAlong, mul_one, List.getD_cons_zero, List.getD_cons_succ]
      rw [getD_zero_eq_headD, getD_succ_eq_tail, getD_zero_eq_headD]
      ring
    rw [boxSum_congr_len _ _ _ h]
    have key : ∀ (sh' : List ℕ) (c : ℚ) (G : List ℕ → ℚ), boxSum sh' (fun is => c * G is) = c * boxSum sh' G := by
      intro sh'
      induction sh' with
      | nil => intro c G; rfl
      | cons s' ss' ih' =>
        intro c G
        simp only [boxSum]
        rw [Finset.mul_sum]
        exact Finset.sum_congr rfl fun j _ => ih' c fun is => G (j :: is)
    rw [key, boxSum_prodAlong _ _ rfl]
    simp [bern_sum]


/-! ### three dimensions -/

theorem admixWeight_three (ns : List ℕ) (N0 N1 N2 : ℕ) (x0 x1 x2 : ℕ → ℚ) (p : ℕ → ℕ → ℚ) (idx : List ℕ) (k0 k1 k2 : ℕ) :
    admixWeight 3 ns [(N0, x0), (N1, x1), (N2, x2)] p idx [k0, k1, k2]
      = bern (ns.getD 0 0) (idx.getD 0 0) (p 0 0 * x0 k0 + p 0 1 * x1 k1 + p 0 2 * x2 k2)
        * bern (ns.getD 1 0) (idx.getD 1 0) (p 1 0 * x0 k0 + p 1 1 * x1 k1 + p 1 2 * x2 k2)
        * bern (ns.getD 2 0) (idx.getD 2 0) (p 2 0 * x0 k0 + p 2 1 * x1 k1 + p 2 2 * x2 k2) := by
  simp only [admixWeight, listProd_eq, List.range_succ, List.range_zero, List.nil_append, List.cons_append, List.map_cons,
    List.map_nil, List.prod_cons, List.prod_nil, mul_one, admixFactor_eq 3 0 (by omega), admixFactor_eq 3 1 (by omega), admixFactor_eq 3 2 (by omega), admixX]
  simp [mul_assoc]

theorem admix_identity_three (ns : List ℕ) (g0 g1 g2 : Array ℚ) (φ : List ℕ → ℚ) (idx : List ℕ) :
    admixND 3 ns [(g0.size, gridFn g0), (g1.size, gridFn g1), (g2.size, gridFn g2)] identP φ idx = sampleND (directOps "" ns [g0, g1, g2]) φ idx := by
  have hops : directOps "" ns [g0, g1, g2]
      = [(ns.getD 0 0, g0.size, gridFn g0, fun i k => bern (ns.getD 0 0) i (gridFn g0 k)),
         (ns.getD 1 0, g1.size, gridFn g1, fun i k => bern (ns.getD 1 0) i (gridFn g1 k)),
         (ns.getD 2 0, g2.size, gridFn g2, fun i k => bern (ns.getD 2 0) i (gridFn g2 k))].map
          fun a => wOp a.1 a.2.1 a.2.2.1 a.2.2.2 := by
    simp only [directOps, List.length_cons, List.length_nil, List.range_succ, List.range_zero, List.nil_append, List.cons_append,
      List.map_cons, List.map_nil]
    have h0 : ("" == hetKey 3 0) = false := by decide
    have h1 : ("" == hetKey 3 1) = false := by decide
    have h2 : ("" == hetKey 3 2) = false := by decide
    simp only [Nat.zero_add, Nat.reduceAdd, h0, h1, h2]
    rw [directOp_eq_wOp 3 0 _ _ ⟨by omega, by omega, by omega⟩, directOp_eq_wOp 3 1 _ _ ⟨by omega, by omega, by omega⟩, directOp_eq_wOp 3 2 _ _ ⟨by omega, by omega, by omega⟩]
    rfl
  rw [hops, sampleND_wOp]
  unfold admixND
  apply trapzND_congr
  intro ks hks
  match ks, hks with
  | [k0, k1, k2], _ =>
    rw [admixWeight_three]
    simp only [List.map_cons, List.map_nil, prodW, List.headD_cons, List.tail_cons, mul_one, identP]
    simp only [getD_zero_eq_headD, getD_succ_eq_tail]
    simp [mul_assoc]

theorem admix_mass_three (n0 n1 n2 N0 N1 N2 : ℕ) (x0 x1 x2 : ℕ → ℚ) (p : ℕ → ℕ → ℚ) (φ : List ℕ → ℚ) :
    boxSum [n0 + 1, n1 + 1, n2 + 1] (admixND 3 [n0, n1, n2] [(N0, x0), (N1, x1), (N2, x2)] p φ) = trapzND [(N0, x0), (N1, x1), (N2, x2)] φ := by
  unfold admixND
  rw [trapzND_boxSum]
  apply trapzND_congr
  intro ks hks
  match ks, hks with
  | [k0, k1, k2], _ =>
    have h : ∀ idx : List ℕ, idx.length = [n0 + 1, n1 + 1, n2 + 1].length →
        admixWeight 3 [n0, n1, n2] [(N0, x0), (N1, x1), (N2, x2)] p idx [k0, k1, k2] * φ [k0, k1, k2]
          = φ [k0, k1, k2] * prodAlong [fun i => bern n0 i (p 0 0 * x0 k0 + p 0 1 * x1 k1 + p 0 2 * x2 k2),
                                     fun i => bern n1 i (p 1 0 * x0 k0 + p 1 1 * x1 k1 + p 1 2 * x2 k2),
                                     fun i => bern n2 i (p 2 0 * x0 k0 + p 2 1 * x1 k1 + p 2 2 * x2 k2)] idx := by
      intro idx _
      rw [admixWeight_three]
      simp only [prodAlong, mul_one, List.getD_cons_zero, List.getD_cons_succ]
      simp only [getD_zero_eq_headD, getD_succ_eq_tail]
      ring
    rw [boxSum_congr_len _ _ _ h]
    have key : ∀ (sh' : List ℕ) (c : ℚ) (G : List ℕ → ℚ), boxSum sh' (fun is => c * G is) = c * boxSum sh' G := by
      intro sh'
      induction sh' with
      | nil => intro c G; rfl
      | cons s' ss' ih' =>
        intro c G
        simp only [boxSum]
        rw [Finset.mul_sum]
        exact Finset.sum_congr rfl fun j _ => ih' c fun is => G (j :: is)
    rw [key, boxSum_prodAlong _ _ rfl]
    simp [bern_sum]

/-! ### four dimensions -/

theorem admixWeight_four (ns : List ℕ) (N0 N1 N2 N3 : ℕ) (x0 x1 x2 x3 : ℕ → ℚ) (p : ℕ → ℕ → ℚ) (idx : List ℕ) (k0 k1 k2 k3 : ℕ) :
    admixWeight 4 ns [(N0, x0), (N1, x1), (N2, x2), (N3, x3)] p idx [k0, k1, k2, k3]
      = bern (ns.getD 0 0) (idx.getD 0 0) (p 0 0 * x0 k0 + p 0 1 * x1 k1 + p 0 2 * x2 k2 + p 0 3 * x3 k3)
        * bern (ns.getD 1 0) (idx.getD 1 0) (p 1 0 * x0 k0 + p 1 1 * x1 k1 + p 1 2 * x2 k2 + p 1 3 * x3 k3)
        * bern (ns.getD 2 0) (idx.getD 2 0) (p 2 0 * x0 k0 + p 2 1 * x1 k1 + p 2 2 * x2 k2 + p 2 3 * x3 k3)
        * bern (ns.getD 3 0) (idx.getD 3 0) (p 3 0 * x0 k0 + p 3 1 * x1 k1 + p 3 2 * x2 k2 + p 3 3 * x3 k3) := by
  simp only [admixWeight, listProd_eq, List.range_succ, List.range_zero, List.nil_append, List.cons_append, List.map_cons,
    List.map_nil, List.prod_cons, List.prod_nil, mul_one, admixFactor_eq 4 0 (by omega), admixFactor_eq 4 1 (by omega), admixFactor_eq 4 2 (by omega), admixFactor_eq 4 3 (by omega), admixX]
  simp [mul_assoc]

theorem admix_identity_four (ns : List ℕ) (g0 g1 g2 g3 : Array ℚ) (φ : List ℕ → ℚ) (idx : List ℕ) :
    admixND 4 ns [(g0.size, gridFn g0), (g1.size, gridFn g1), (g2.size, gridFn g2), (g3.size, gridFn g3)] identP φ idx = sampleND (directOps "" ns [g0, g1, g2, g3]) φ idx := by
  have hops : directOps "" ns [g0, g1, g2, g3]
      = [(ns.getD 0 0, g0.size, gridFn g0, fun i k => bern (ns.getD 0 0) i (gridFn g0 k)),
         (ns.getD 1 0, g1.size, gridFn g1, fun i k => bern (ns.getD 1 0) i (gridFn g1 k)),
         (ns.getD 2 0, g2.size, gridFn g2, fun i k => bern (ns.getD 2 0) i (gridFn g2 k)),
         (ns.getD 3 0, g3.size, gridFn g3, fun i k => bern (ns.getD 3 0) i (gridFn g3 k))].map
          fun a => wOp a.1 a.2.1 a.2.2.1 a.2.2.2 := by
    simp only [directOps, List.length_cons, List.length_nil, List.range_succ, List.range_zero, List.nil_append, List.cons_append,
      List.map_cons, List.map_nil]
    have h0 : ("" == hetKey 4 0) = false := by decide
    have h1 : ("" == hetKey 4 1) = false := by decide
    have h2 : ("" == hetKey 4 2) = false := by decide
    have h3 : ("" == hetKey 4 3) = false := by decide
    simp only [Nat.zero_add, Nat.reduceAdd, h0, h1, h2, h3]
    rw [directOp_eq_wOp 4 0 _ _ ⟨by omega, by omega, by omega⟩, directOp_eq_wOp 4 1 _ _ ⟨by omega, by omega, by omega⟩, directOp_eq_wOp 4 2 _ _ ⟨by omega, by omega, by omega⟩, directOp_eq_wOp 4 3 _ _ ⟨by omega, by omega, by omega⟩]
    rfl
  rw [hops, sampleND_wOp]
  unfold admixND
  apply trapzND_congr
  intro ks hks
  match ks, hks with
  | [k0, k1, k2, k3], _ =>
    rw [admixWeight_four]
    simp only [List.map_cons, List.map_nil, prodW, List.headD_cons, List.tail_cons, mul_one, identP]
    simp only [getD_zero_eq_headD, getD_succ_eq_tail]
    simp [mul_assoc]

theorem admix_mass_four (n0 n1 n2 n3 N0 N1 N2 N3 : ℕ) (x0 x1 x2 x3 : ℕ → ℚ) (p : ℕ → ℕ → ℚ) (φ : List ℕ → ℚ) :
    boxSum [n0 + 1, n1 + 1, n2 + 1, n3 + 1] (admixND 4 [n0, n1, n2, n3] [(N0, x0), (N1, x1), (N2, x2), (N3, x3)] p φ) = trapzND [(N0, x0), (N1, x1), (N2, x2), (N3, x3)] φ := by
  unfold admixND
  rw [trapzND_boxSum]
  apply trapzND_congr
  intro ks hks
  match ks, hks with
  | [k0, k1, k2, k3], _ =>
    have h : ∀ idx : List ℕ, idx.length = [n0 + 1, n1 + 1, n2 + 1, n3 + 1].length →
        admixWeight 4 [n0, n1, n2, n3] [(N0, x0), (N1, x1), (N2, x2), (N3, x3)] p idx [k0, k1, k2, k3] * φ [k0, k1, k2, k3]
          = φ [k0, k1, k2, k3] * prodAlong [fun i => bern n0 i (p 0 0 * x0 k0 + p 0 1 * x1 k1 + p 0 2 * x2 k2 + p 0 3 * x3 k3),
                                     fun i => bern n1 i (p 1 0 * x0 k0 + p 1 1 * x1 k1 + p 1 2 * x2 k2 + p 1 3 * x3 k3),
                                     fun i => bern n2 i (p 2 0 * x0 k0 + p 2 1 * x1 k1 + p 2 2 * x2 k2 + p 2 3 * x3 k3),
                                     fun i => bern n3 i (p 3 0 * x0 k0 + p 3 1 * x1 k1 + p 3 2 * x2 k2 + p 3 3 * x3 k3)] idx := by
      intro idx _
      rw [admixWeight_four]
      simp only [prodAlong, mul_one, List.getD_cons_zero, List.getD_cons_succ]
      simp only [getD_zero_eq_headD, getD_succ_eq_tail]
      ring
    rw [boxSum_congr_len _ _ _ h]
    have key : ∀ (sh' : List ℕ) (c : ℚ) (G : List ℕ → ℚ), boxSum sh' (fun is => c * G is) = c * boxSum sh' G := by
      intro sh'
      induction sh' with
      | nil => intro c G; rfl
      | cons s' ss' ih' =>
        intro c G
        simp only [boxSum]
        rw [Finset.mul_sum]
        exact Finset.sum_congr rfl fun j _ => ih' c fun is => G (j :: is)
    rw [key, boxSum_prodAlong _ _ rfl]
    simp [bern_sum]

end DadiVerif.FromPhi
