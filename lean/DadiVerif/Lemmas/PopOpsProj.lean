import DadiVerif.Lemmas.PopOps
/-! C10: a per-axis linear resampling (projection) commutes with summing another axis -/
namespace DadiVerif.PopOps
open Finset

/-- per-axis linear resampling with an arbitrary kernel `w hits j` (projection uses the hypergeometric one):
    `new[j] = Σ_{h < nk} w h j[k] · old[j with entry k := h]` -/
def projDat (w : Nat → Nat → ℚ) (k nk : Nat) (x : Idx → ℚ) (j : Idx) : ℚ :=
  ((List.range nk).map fun h => w h (j.getD k 0) * x (j.set k h)).sum

/-- position of axis `k` after axis `k'` has been deleted -/
def shiftAxis (k' k : Nat) : Nat := if k' < k then k - 1 else k

theorem getD_eraseIdx_ne {α : Type} (l : List α) (k' k : Nat) (d : α) (h : k ≠ k') :
    (l.eraseIdx k').getD (shiftAxis k' k) d = l.getD k d := by
  unfold shiftAxis
  split
  · rename_i hlt
    simp only [List.getD_eq_getElem?_getD]
    rw [List.getElem?_eraseIdx_of_ge (by omega)]
    congr 2; omega
  · exact getD_eraseIdx_lt l k' k d (by omega)

theorem eraseIdx_set_ne {α : Type} (l : List α) (k' k : Nat) (v : α) (h : k ≠ k') :
    (l.set k v).eraseIdx k' = (l.eraseIdx k').set (shiftAxis k' k) v := by
  unfold shiftAxis
  split
  · rename_i hlt; exact List.eraseIdx_set_lt hlt
  · exact List.eraseIdx_set_gt (by omega)

theorem sum_range_eq (n : Nat) (f : Nat → ℚ) : ((List.range n).map f).sum = ∑ h ∈ Finset.range n, f h := by
  rw [← List.sum_toFinset _ (List.nodup_range)]
  congr 1
  ext a; simp

theorem set_mem_box (sh : List Nat) (k v : Nat) (i : Idx) (hi : i ∈ boxIdx sh) (s : Nat) (hv : v < s) :
    i.set k v ∈ boxIdx (sh.set k s) :=
  (mem_boxIdx _ _).2 (forall2_set ((mem_boxIdx _ _).1 hi) k hv)

theorem getD_lt_of_mem_box (sh : List Nat) (i : Idx) (hi : i ∈ boxIdx sh) (k : Nat) (hk : k < sh.length) :
    i.getD k 0 < sh.getD k 0 := forall2_getD_lt ((mem_boxIdx _ _).1 hi) k hk

/-- summing an axis `k'` and resampling another axis `k` commute (the resampled axis sits at `shiftAxis k' k` afterwards) -/
theorem proj_sum_comm (w : Nat → Nat → ℚ) (sh : List Nat) (k k' m1 : Nat) (hne : k ≠ k') (hk : k < sh.length) (hk' : k' < sh.length)
    (x : Idx → ℚ) (j : Idx) (hj : j ∈ boxIdx ((sh.set k m1).eraseIdx k')) :
    pushL (boxIdx (sh.set k m1)) (fun i => i.eraseIdx k') (projDat w k (sh.getD k 0) x) j
      = projDat w (shiftAxis k' k) (sh.getD k 0) (pushL (boxIdx sh) (fun i => i.eraseIdx k') x) j := by
  set k2 := shiftAxis k' k with hk2
  have hlenj : j.length = sh.length - 1 := by
    rw [mem_box_length _ _ hj, List.length_eraseIdx, List.length_set]; simp [hk']
  have hk2lt : k2 < j.length := by
    rw [hlenj, hk2]; unfold shiftAxis; split <;> omega
  have hjk : j.getD k2 0 < m1 := by
    have h1 := getD_lt_of_mem_box _ j hj k2 (by rw [← mem_box_length _ _ hj]; exact hk2lt)
    rw [hk2, getD_eraseIdx_ne _ k' k 0 hne, getD_set_self _ _ _ _ hk] at h1
    exact h1
  rw [pushL_eq_sum _ (nodup_boxIdx _)]
  unfold projDat
  simp_rw [sum_range_eq, pushL_eq_sum _ (nodup_boxIdx _)]
  have e : ∀ i : Idx, (if i.eraseIdx k' = j then ∑ h ∈ Finset.range (sh.getD k 0), w h (i.getD k 0) * x (i.set k h) else 0)
      = ∑ h ∈ Finset.range (sh.getD k 0), (if i.eraseIdx k' = j then w h (i.getD k 0) * x (i.set k h) else 0) := by
    intro i; split_ifs <;> simp
  simp_rw [e]
  rw [Finset.sum_comm]
  apply Finset.sum_congr rfl
  intro h hh
  rw [Finset.mem_range] at hh
  rw [Finset.mul_sum]
  have hmul : ∀ i' : Idx, w h (j.getD k2 0) * (if i'.eraseIdx k' = j.set k2 h then x i' else 0)
      = if i'.eraseIdx k' = j.set k2 h then w h (j.getD k2 0) * x i' else 0 := by
    intro i'; split_ifs <;> simp
  simp_rw [hmul]
  rw [← Finset.sum_filter, ← Finset.sum_filter]
  apply Finset.sum_nbij' (fun i => i.set k h) (fun i' => i'.set k (j.getD k2 0))
  · intro i hi
    simp only [Finset.mem_filter, List.mem_toFinset] at hi ⊢
    refine ⟨?_, ?_⟩
    · have := set_mem_box (sh.set k m1) k h i hi.1 (sh.getD k 0) hh
      rwa [List.set_set, set_getD_self] at this
    · rw [eraseIdx_set_ne _ k' k h hne, hi.2]
  · intro i' hi'
    simp only [Finset.mem_filter, List.mem_toFinset] at hi' ⊢
    refine ⟨set_mem_box sh k _ i' hi'.1 m1 hjk, ?_⟩
    rw [eraseIdx_set_ne _ k' k _ hne, hi'.2, List.set_set, set_getD_self]
  · intro i hi
    simp only [Finset.mem_filter, List.mem_toFinset] at hi
    have : i.getD k 0 = j.getD k2 0 := by rw [← hi.2, hk2, getD_eraseIdx_ne _ k' k 0 hne]
    show (i.set k h).set k (j.getD k2 0) = i
    rw [List.set_set, ← this, set_getD_self]
  · intro i' hi'
    simp only [Finset.mem_filter, List.mem_toFinset] at hi'
    have : i'.getD k 0 = h := by
      rw [← getD_eraseIdx_ne i' k' k 0 hne, hi'.2, ← hk2, getD_set_self _ _ _ _ hk2lt]
    show (i'.set k (j.getD k2 0)).set k h = i'
    rw [List.set_set, ← this, set_getD_self]
  · intro i hi
    simp only [Finset.mem_filter, List.mem_toFinset] at hi
    have : i.getD k 0 = j.getD k2 0 := by rw [← hi.2, hk2, getD_eraseIdx_ne _ k' k 0 hne]
    rw [this]

end DadiVerif.PopOps
