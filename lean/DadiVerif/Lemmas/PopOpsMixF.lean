import DadiVerif.Lemmas.PopOpsProjComb
/-! C10 (round 5): the fibre of `merge2 a b` over a cell `j` of the merged box, enumerated explicitly: the contributors are
    `unmerge a b j sa sb` (count `sa` on axis `a`, count `sb` re-inserted at position `b`) with `sa + sb = j[a]`. -/
namespace DadiVerif.PopOps
open Finset

/-- the source entry that has counts `sa`, `sb` on the two merged axes and agrees with `j` elsewhere -/
def unmerge (a b : Nat) (j : Idx) (sa sb : Nat) : Idx := (j.set a sa).insertIdx b sb

theorem set_insertIdx_lt {α : Type} (l : List α) (a b : Nat) (hab : a < b) (v w : α) :
    (l.insertIdx b v).set a w = (l.set a w).insertIdx b v := by
  induction l generalizing a b with
  | nil =>
    cases b with
    | zero => omega
    | succ b => simp
  | cons c cs ih =>
    obtain ⟨b', rfl⟩ : ∃ b', b = b' + 1 := ⟨b - 1, by omega⟩
    cases a with
    | zero => simp
    | succ a => simp only [List.insertIdx_succ_cons, List.set_cons_succ]; rw [ih a b' (by omega)]

theorem getD_insertIdx_lt (l : List Nat) (a b v : Nat) (hab : a < b) (_hb : b ≤ l.length) : (l.insertIdx b v).getD a 0 = l.getD a 0 := by
  simp only [List.getD_eq_getElem?_getD]
  rw [List.getElem?_insertIdx_of_lt hab]

theorem unmerge_getD_a (a b : Nat) (j : Idx) (sa sb : Nat) (hab : a < b) (hb : b ≤ j.length) : (unmerge a b j sa sb).getD a 0 = sa := by
  unfold unmerge
  rw [getD_insertIdx_lt _ _ _ _ hab (by simpa using hb), getD_set_self _ _ _ _ (by omega)]

theorem unmerge_getD_b (a b : Nat) (j : Idx) (sa sb : Nat) (hb : b ≤ j.length) : (unmerge a b j sa sb).getD b 0 = sb := by
  unfold unmerge
  exact getD_insertIdx_self _ _ _ (by simpa using hb)

theorem unmerge_set_a (a b : Nat) (j : Idx) (sa sb v : Nat) (hab : a < b) : (unmerge a b j sa sb).set a v = unmerge a b j v sb := by
  unfold unmerge
  rw [set_insertIdx_lt _ _ _ hab, List.set_set]

theorem unmerge_set_b (a b : Nat) (j : Idx) (sa sb v : Nat) (hb : b ≤ j.length) : (unmerge a b j sa sb).set b v = unmerge a b j sa v := by
  unfold unmerge
  exact insertIdx_set_self _ _ _ _ (by simpa using hb)

theorem unmerge_of_set (a b : Nat) (j : Idx) (h sa sb : Nat) : unmerge a b (j.set a h) sa sb = unmerge a b j sa sb := by
  unfold unmerge; rw [List.set_set]

theorem merge2_unmerge (a b : Nat) (j : Idx) (sa sb : Nat) (hab : a < b) (hb : b ≤ j.length) (hs : sa + sb = j.getD a 0) :
    merge2 a b (unmerge a b j sa sb) = j := by
  rw [merge2_eq, unmerge_getD_a a b j sa sb hab hb, unmerge_getD_b a b j sa sb hb, unmerge_set_a a b j sa sb _ hab]
  unfold unmerge
  rw [List.eraseIdx_insertIdx_self, hs, set_getD_self]

theorem merge2_getD_a (a b : Nat) (i : Idx) (hab : a < b) (hb : b < i.length) : (merge2 a b i).getD a 0 = i.getD a 0 + i.getD b 0 := by
  rw [merge2_eq, getD_eraseIdx_lt _ _ _ _ hab, getD_set_self _ _ _ _ (by omega)]

theorem unmerge_merge2 (a b : Nat) (i : Idx) (hab : a < b) (hb : b < i.length) :
    unmerge a b (merge2 a b i) (i.getD a 0) (i.getD b 0) = i := by
  unfold unmerge
  rw [merge2_eq, ← List.eraseIdx_set_gt hab, List.set_set, set_getD_self]
  have e : i.getD b 0 = i[b] := by simp [List.getD_eq_getElem?_getD, List.getElem?_eq_getElem hb]
  rw [e]; exact List.insertIdx_eraseIdx_getElem hb

theorem unmerge_mem_box (a b : Nat) (sh : List Nat) (hab : a < b) (hb : b < sh.length) (hpos : ∀ s ∈ sh, 1 ≤ s)
    (j : Idx) (hj : j ∈ boxIdx (mergeShape a b sh)) (sa sb : Nat) (hsa : sa < sh.getD a 0) (hsb : sb < sh.getD b 0) :
    unmerge a b j sa sb ∈ boxIdx sh := by
  unfold unmerge
  apply insertIdx_mem_box sh b hb _ _ sb hsb
  rw [mergeShape_explicit a b sh hab hb hpos] at hj
  have := set_mem_box _ a sa j hj (sh.getD a 0) hsa
  rwa [← List.eraseIdx_set_gt hab, List.set_set, set_getD_self] at this

/-- **the fibre of the merge, enumerated**: the explicit sum over the contributors of cell `j` -/
theorem pushL_merge2_eq (a b : Nat) (sh : List Nat) (hab : a < b) (hb : b < sh.length) (hpos : ∀ s ∈ sh, 1 ≤ s)
    (F : Idx → ℚ) (j : Idx) (hj : j ∈ boxIdx (mergeShape a b sh)) :
    pushL (boxIdx sh) (merge2 a b) F j
      = ∑ sa ∈ range (sh.getD a 0), ∑ sb ∈ range (sh.getD b 0), (if sa + sb = j.getD a 0 then F (unmerge a b j sa sb) else 0) := by
  have hjl : j.length = sh.length - 1 := by rw [mem_box_length _ _ hj, mergeShape_length a b sh hb]
  have hbj : b ≤ j.length := by omega
  rw [pushL_eq_sum _ (nodup_boxIdx _), ← Finset.sum_filter, ← Finset.sum_product', ← Finset.sum_filter]
  apply Finset.sum_nbij' (fun i => (i.getD a 0, i.getD b 0)) (fun p => unmerge a b j p.1 p.2)
  · intro i hi
    simp only [Finset.mem_filter, List.mem_toFinset] at hi
    have hil : b < i.length := by rw [mem_box_length _ _ hi.1]; exact hb
    simp only [Finset.mem_filter, Finset.mem_product, Finset.mem_range]
    refine ⟨⟨getD_lt_of_mem_box sh i hi.1 a (by omega), getD_lt_of_mem_box sh i hi.1 b hb⟩, ?_⟩
    rw [← hi.2, merge2_getD_a a b i hab hil]
  · intro p hp
    simp only [Finset.mem_filter, Finset.mem_product, Finset.mem_range] at hp
    simp only [Finset.mem_filter, List.mem_toFinset]
    exact ⟨unmerge_mem_box a b sh hab hb hpos j hj p.1 p.2 hp.1.1 hp.1.2, merge2_unmerge a b j p.1 p.2 hab hbj hp.2⟩
  · intro i hi
    simp only [Finset.mem_filter, List.mem_toFinset] at hi
    have hil : b < i.length := by rw [mem_box_length _ _ hi.1]; exact hb
    show unmerge a b j (i.getD a 0) (i.getD b 0) = i
    rw [← hi.2]; exact unmerge_merge2 a b i hab hil
  · intro p _
    show ((unmerge a b j p.1 p.2).getD a 0, (unmerge a b j p.1 p.2).getD b 0) = p
    rw [unmerge_getD_a a b j p.1 p.2 hab hbj, unmerge_getD_b a b j p.1 p.2 hbj]
  · intro i hi
    simp only [Finset.mem_filter, List.mem_toFinset] at hi
    have hil : b < i.length := by rw [mem_box_length _ _ hi.1]; exact hb
    show F i = F (unmerge a b j (i.getD a 0) (i.getD b 0))
    rw [← hi.2, unmerge_merge2 a b i hab hil]

end DadiVerif.PopOps
