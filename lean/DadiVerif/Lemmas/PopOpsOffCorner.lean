import DadiVerif.Lemmas.PopOpsFoldPath
/-! C10: spectra whose only masked entries are the two corners (what `Spectrum(...)` produces).  Summing and projecting
    keep everything that happens at the corners inside the corners, so after `mask_corners` the commutation of
    `marginalize` with `project` holds for such spectra as well (reduction to the spectrum without masked entries). -/
namespace DadiVerif.PopOps

/-- the two spectra agree away from the two corners: same shape, and at every non-corner entry of the box the same mask
    and the same value as numpy's reductions see it (masked = 0) -/
def OffC (S T : FS) : Prop :=
  S.shape = T.shape ∧ ∀ i ∈ boxIdx S.shape, isCorner S.shape i = false → S.msk i = T.msk i ∧ S.val i = T.val i

/-- at most the two corners are masked, no empty axis -/
def StdMask (S : FS) : Prop := (∀ s ∈ S.shape, 1 ≤ s) ∧ ∀ i ∈ S.box, S.msk i = true → isCorner S.shape i = true

theorem val_eq_of (S T : FS) (i : Idx) (hm : S.msk i = T.msk i) (hd : S.msk i = false → S.dat i = T.dat i) : S.val i = T.val i := by
  unfold FS.val
  rw [← hm]
  cases h : S.msk i
  · simp [hd h]
  · simp

theorem offC_sumAxis {S T : FS} (k : Nat) (h : OffC S T) : OffC (sumAxis k S) (sumAxis k T) := by
  obtain ⟨hs, hb⟩ := h
  have hbox : T.box = S.box := by unfold FS.box; rw [hs]
  refine ⟨by show S.shape.eraseIdx k = T.shape.eraseIdx k; rw [hs], fun j _ hnc => ?_⟩
  have hfib : ∀ i ∈ S.box, i.eraseIdx k = j → isCorner S.shape i = false := by
    intro i _ hij
    by_contra hc
    have := isCorner_eraseIdx k S.shape i (by simpa using hc)
    rw [hij] at this
    have hnc' : isCorner (S.shape.eraseIdx k) j = false := hnc
    rw [hnc'] at this; exact absurd this (by simp)
  have hm : (sumAxis k S).msk j = (sumAxis k T).msk j := by
    show allL S.box _ S.msk j = allL T.box _ T.msk j
    rw [hbox]
    exact allL_congr _ _ _ _ _ (fun i hi hij => (hb i hi (hfib i hi hij)).1)
  have hd : (sumAxis k S).dat j = (sumAxis k T).dat j := by
    show pushL S.box _ S.val j = pushL T.box _ T.val j
    rw [hbox]
    exact pushL_congr _ _ _ _ _ (fun i hi hij => (hb i hi (hfib i hi hij)).2)
  exact ⟨hm, val_eq_of _ _ j hm (fun _ => hd)⟩

theorem offC_projectAxis {S T : FS} (k m : Nat) (hk : k < S.ndim) (hm : m + 1 ≤ S.shape.getD k 0) (h : OffC S T) :
    OffC (projectAxis k m S) (projectAxis k m T) := by
  obtain ⟨hs, hb⟩ := h
  refine ⟨by show S.shape.set k (m + 1) = T.shape.set k (m + 1); rw [hs], fun j hj hnc => ?_⟩
  have hj' : j ∈ boxIdx (S.shape.set k (m + 1)) := hj
  have hnc' : isCorner (S.shape.set k (m + 1)) j = false := hnc
  -- in-window sources of a non-corner cell are non-corner cells
  have hsrc : ∀ hh, hh < S.shape.getD k 0 → (m - (S.shape.getD k 0 - 1 - hh) ≤ j.getD k 0 ∧ j.getD k 0 ≤ min hh m) →
      isCorner S.shape (j.set k hh) = false := by
    intro hh hhm hw
    by_contra hc
    have : projMsk k (S.shape.getD k 0) m (isCorner S.shape) j = true :=
      (projMsk_iff _ _ _ _ _).2 ⟨hh, hhm, hw, by simpa using hc⟩
    rw [projMsk_isCorner S.shape k m hk hm j hj', hnc'] at this
    exact absurd this (by simp)
  have hin : ∀ hh, hh < S.shape.getD k 0 → j.set k hh ∈ boxIdx S.shape := fun hh hhm => set_mem_box' S.shape k (m + 1) hh j hj' hhm
  have hmsk : (projectAxis k m S).msk j = (projectAxis k m T).msk j := by
    rw [projectAxis_msk, projectAxis_msk, ← hs, Bool.eq_iff_iff, projMsk_iff, projMsk_iff]
    constructor
    · rintro ⟨hh, hhm, hw, hb'⟩
      exact ⟨hh, hhm, hw, by rw [← (hb _ (hin hh hhm) (hsrc hh hhm hw)).1]; exact hb'⟩
    · rintro ⟨hh, hhm, hw, hb'⟩
      exact ⟨hh, hhm, hw, by rw [(hb _ (hin hh hhm) (hsrc hh hhm hw)).1]; exact hb'⟩
  refine ⟨hmsk, val_eq_of _ _ j hmsk (fun hmf => ?_)⟩
  rw [projectAxis_dat, projectAxis_dat, ← hs]
  unfold projDat
  congr 1
  apply List.map_congr_left
  intro hh hhm
  rw [List.mem_range] at hhm
  by_cases hw : m - (S.shape.getD k 0 - 1 - hh) ≤ j.getD k 0 ∧ j.getD k 0 ≤ min hh m
  · have hmS : S.msk (j.set k hh) = false := by
      rw [projectAxis_msk] at hmf
      by_contra hc
      have : projMsk k (S.shape.getD k 0) m S.msk j = true :=
        (projMsk_iff _ _ _ _ _).2 ⟨hh, hhm, hw, by simpa using hc⟩
      rw [this] at hmf; exact absurd hmf (by simp)
    obtain ⟨e1, e2⟩ := hb _ (hin hh hhm) (hsrc hh hhm hw)
    have hmT : T.msk (j.set k hh) = false := by rw [← e1]; exact hmS
    have : S.dat (j.set k hh) = T.dat (j.set k hh) := by
      unfold FS.val at e2
      rw [hmS, hmT] at e2
      simpa using e2
    rw [this]
  · rw [projW_zero_of_not_win _ _ _ _ (by omega) hw]; simp

theorem offC_maskCorners {S T : FS} (h : OffC S T) : OffC (maskCorners S) (maskCorners T) := by
  obtain ⟨hs, hb⟩ := h
  refine ⟨hs, fun i hi hnc => ?_⟩
  obtain ⟨h1, h2⟩ := hb i hi hnc
  have hncS : isCorner S.shape i = false := hnc
  have hm : (maskCorners S).msk i = (maskCorners T).msk i := by
    show (S.msk i || isCorner S.shape i) = (T.msk i || isCorner T.shape i)
    rw [h1, hs]
  refine ⟨hm, ?_⟩
  show (if (S.msk i || isCorner S.shape i) then 0 else S.dat i) = (if (T.msk i || isCorner T.shape i) then 0 else T.dat i)
  rw [← hs, hncS, Bool.or_false, Bool.or_false]
  exact h2

/-- once the corners are masked on both sides, agreement away from the corners is observational equality -/
theorem offC_obs_maskCorners {S T : FS} (h : OffC S T) : Obs (maskCorners S) (maskCorners T) := by
  obtain ⟨hs, hb⟩ := h
  refine ⟨hs, fun j hj => ?_⟩
  have hj' : j ∈ boxIdx S.shape := hj
  cases hc : isCorner S.shape j
  · obtain ⟨h1, h2⟩ := hb j hj' hc
    refine ⟨by show (S.msk j || isCorner S.shape j) = (T.msk j || isCorner T.shape j); rw [h1, hs], fun hm => ?_⟩
    have hm' : (S.msk j || isCorner S.shape j) = false := hm
    rw [Bool.or_eq_false_iff] at hm'
    have hmT : T.msk j = false := by rw [← h1]; exact hm'.1
    unfold FS.val at h2
    rw [hm'.1, hmT] at h2
    show S.dat j = T.dat j
    simpa using h2
  · refine ⟨by show (S.msk j || isCorner S.shape j) = (T.msk j || isCorner T.shape j); rw [← hs, hc]; simp, fun hm => ?_⟩
    have hm' : (S.msk j || isCorner S.shape j) = false := hm
    rw [hc] at hm'; simp at hm'

theorem offC_marginalizeCore {S T : FS} (ks : List Nat) (h : OffC S T) : OffC (marginalizeCore ks S) (marginalizeCore ks T) := by
  induction ks generalizing S T with
  | nil => exact h
  | cons k ks ih => rw [marginalizeCore_cons, marginalizeCore_cons]; exact ih (offC_sumAxis k h)

theorem offC_projSteps {S T : FS} (ps : List (Nat × Nat)) (ha : Adm S ps) (h : OffC S T) :
    OffC (projSteps ps S) (projSteps ps T) := by
  induction ps generalizing S T with
  | nil => exact h
  | cons p ps ih =>
    obtain ⟨h3, h4⟩ := ha.2 p (by simp)
    rw [projSteps_cons, projSteps_cons]
    exact ih ha.tail (offC_projectAxis p.1 p.2 h3 h4 h)

theorem offC_projectCore {S T : FS} (ms : List Nat) (hadm : AdmSizes ms S.shape) (h : OffC S T) :
    OffC (projectCore ms S) (projectCore ms T) := by
  rw [projectCore_eq_steps, projectCore_eq_steps, ← h.1]
  exact offC_projSteps _ (adm_stepsF S ms hadm) h

/-- the same spectrum with the mask cleared and the masked entries set to the value numpy's sums use for them (0) -/
def unmasked (S : FS) : FS := { S with dat := S.val, msk := fun _ => false }

theorem clean_unmasked (S : FS) (hpos : ∀ s ∈ S.shape, 1 ≤ s) : Clean (unmasked S) := ⟨hpos, fun _ _ => rfl⟩

theorem offC_unmasked (S : FS) (h : StdMask S) : OffC S (unmasked S) := by
  refine ⟨rfl, fun i hi hnc => ?_⟩
  have hm : S.msk i = false := by
    by_contra hc
    have := h.2 i hi (by simpa using hc)
    rw [hnc] at this; exact absurd this (by simp)
  refine ⟨hm, ?_⟩
  show S.val i = (if false then 0 else S.val i)
  simp

/-- **(1) for spectra whose only masked entries are the two corners** (what the constructor produces), with `mask_corners`:
    marginalize ∘ project and project ∘ marginalize agree observationally once the corners of the result are masked -/
theorem marginalizeCore_projectCore_std (ks ms : List Nat) (S : FS) (hstd : StdMask S) (hks : ValidDrops ks S.ndim)
    (hadm : AdmSizes ms S.shape) :
    Obs (maskCorners (marginalizeCore ks (projectCore ms S)))
        (projectCore (dropAxes ks ms) (maskCorners (marginalizeCore ks S))) := by
  set S0 := unmasked S with hS0
  have hoff : OffC S S0 := offC_unmasked S hstd
  have hc0 : Clean S0 := clean_unmasked S hstd.1
  have hadm' : AdmSizes (dropAxes ks ms) (marginalizeCore ks S).shape := by
    rw [marginalizeCore_shape]; exact hadm.dropAxes ks
  have hadm0' : AdmSizes (dropAxes ks ms) (marginalizeCore ks S0).shape := by
    rw [marginalizeCore_shape]; exact hadm.dropAxes ks
  -- left: pass to the unmasked spectrum
  have hl : Obs (maskCorners (marginalizeCore ks (projectCore ms S))) (maskCorners (marginalizeCore ks (projectCore ms S0))) :=
    offC_obs_maskCorners (offC_marginalizeCore ks (offC_projectCore ms hadm hoff))
  -- middle: the theorem for spectra without masked entries
  have hmid : Obs (maskCorners (marginalizeCore ks (projectCore ms S0)))
      (maskCorners (projectCore (dropAxes ks ms) (marginalizeCore ks S0))) :=
    obs_maskCorners (marginalizeCore_projectCore ks ms S0 hc0 hks hadm)
  -- right: back to the masked spectrum, and the corner mask moved inside the projection
  have hr : Obs (maskCorners (projectCore (dropAxes ks ms) (marginalizeCore ks S0)))
      (maskCorners (projectCore (dropAxes ks ms) (marginalizeCore ks S))) :=
    (offC_obs_maskCorners (offC_projectCore _ hadm' (offC_marginalizeCore ks hoff))).symm
  exact hl.trans (hmid.trans (hr.trans (projectCore_maskCorners _ _ hadm').symm))

/-- …for the public functions with `mask_corners=True` -/
theorem marginalize_project_public_std (over ms : List Nat) (S : FS) (hf : S.folded = false) (hstd : StdMask S)
    (hn : over.Nodup) (hv : ∀ k ∈ over, k < S.ndim) (hl : over.length < S.ndim) (hadm : AdmSizes ms S.shape) :
    ∃ A B, (project ms S).bind (marginalize over true) = some A ∧
      (marginalize over true S).bind (project (dropSet over 0 ms)) = some B ∧
      Obs A B ∧ A.labels = B.labels ∧ A.folded = B.folded := by
  set ks := sortDesc over with hks
  have hms' : dropSet over 0 ms = dropAxes ks ms := (dropAxes_sortDesc over hn ms).symm
  have hvalid : ValidDrops ks S.ndim :=
    validDrops_desc ks S.ndim (sortDesc_desc over hn) (fun k hk => hv k ((sortDesc_perm over).mem_iff.1 hk))
  set P : FS := { projectCore ms S with folded := false, labels := S.labels } with hP
  have hPnd : P.ndim = S.ndim := projectCore_ndim ms S
  have hA := marginalize_unfolded over true P rfl hn (by rw [hPnd]; exact hv) (by rw [hPnd]; exact hl)
  have hM := marginalize_unfolded over true S hf hn hv hl
  rw [← hks] at hA hM
  simp only [if_true] at hA hM
  set M : FS := maskCorners { marginalizeCore ks S with folded := false, labels := S.labels.map (dropAxes ks) } with hMdef
  have hMsh : M.shape = dropAxes ks S.shape := marginalizeCore_shape ks S
  have hadm' : AdmSizes (dropAxes ks ms) M.shape := by rw [hMsh]; exact hadm.dropAxes ks
  have hB := project_unfolded (dropAxes ks ms) M rfl hadm'
  refine ⟨_, _, by rw [project_unfolded ms S hf hadm]; exact hA, by rw [hM, hms']; exact hB, ?_, ?_, ?_⟩
  rotate_left
  · rfl
  · rfl
  have hcore := marginalizeCore_projectCore_std ks ms S hstd hvalid hadm
  refine (obs_maskCorners ((obs_update _ _ _).trans (obs_marginalizeCore ks (obs_update (projectCore ms S) false S.labels)))).trans ?_
  refine hcore.trans ?_
  refine Obs.trans ?_ (obs_update _ _ _).symm
  exact obs_projectCore _ (obs_maskCorners (obs_update _ _ _).symm)

end DadiVerif.PopOps
