import DadiVerif.Lemmas.FromPhi
import Mathlib.MeasureTheory.Integral.IntervalIntegral.FundThmCalculus
import Mathlib.Analysis.Calculus.Deriv.Polynomial
import Mathlib.Topology.Algebra.Polynomial
/-! C05 — the polynomial-antiderivative statement of exactness, read as a Riemann integral over ℝ
    (fundamental theorem of calculus for polynomials). -/
namespace DadiVerif.FromPhi
open Polynomial

/-- ∫_a^b P'(t) dt = P(b) − P(a) for a real polynomial -/
theorem integral_derivative_poly (P : ℝ[X]) (a b : ℝ) :
    ∫ t in a..b, (derivative P).eval t = P.eval b - P.eval a := by
  apply intervalIntegral.integral_eq_sub_of_hasDerivAt
  · intro x _; exact P.hasDerivAt x
  · exact ((derivative P).continuous.intervalIntegrable a b)

/-- a rational polynomial evaluated at a rational point, seen in ℝ -/
theorem eval_map_cast (P : ℚ[X]) (x : ℚ) : (P.map (algebraMap ℚ ℝ)).eval (x : ℝ) = ((P.eval x : ℚ) : ℝ) := by
  rw [eval_map]
  exact eval₂_at_apply (algebraMap ℚ ℝ) x

/-- one interval term of the semi-analytic path is the Riemann integral of (binomial sampling probability) × (linear piece) -/
theorem entryG_integral (n d : ℕ) (hd : d ≤ n) (xs xb φ : ℕ → ℚ) (k : ℕ) :
    ((entryG n d xs xb φ k : ℚ) : ℝ)
      = ∫ t in (xb k : ℝ)..(xb (k+1) : ℝ),
          (bernsteinPolynomial ℝ n d).eval t
            * (((φ k - Gen.FromPhi.s (φ k) (φ (k+1)) (xs k) (xs (k+1)) * xs k : ℚ) : ℝ)
               + ((Gen.FromPhi.s (φ k) (φ (k+1)) (xs k) (xs (k+1)) : ℚ) : ℝ) * t) := by
  rw [entryG_eq]
  set a := φ k - Gen.FromPhi.s (φ k) (φ (k+1)) (xs k) (xs (k+1)) * xs k with ha
  set sl := Gen.FromPhi.s (φ k) (φ (k+1)) (xs k) (xs (k+1)) with hs
  have hF := integral_derivative_poly ((Fpoly n d a sl).map (algebraMap ℚ ℝ)) (xb k) (xb (k+1))
  rw [eval_map_cast, eval_map_cast] at hF
  push_cast
  rw [← hF]
  congr 1
  funext t
  rw [derivative_map, Fpoly_derivative n d hd, Polynomial.map_mul, bernsteinPolynomial.map]
  simp [eval_mul, eval_add, eval_C, eval_X]

end DadiVerif.FromPhi
