import DadiVerif.Generated.ProjFold
import DadiVerif.Model.ND
import Mathlib.Algebra.BigOperators.Ring.Finset
import Mathlib.Algebra.Order.Field.Rat
import Mathlib.Tactic.FieldSimp
import Mathlib.Tactic.Ring
import Mathlib.Tactic.Linarith
import Mathlib.Tactic.Push
/-!
Fold algebra for C08 — part A of C09's Lemmas/Fold.lean (closed forms `sfold`, `fo`, `coef` of the pointwise programs of
`Spectrum.fold` / `Spectrum.unfold`, over an abstract index type with the local hypotheses `Loc`), restated word for word
for the copy of those programs that tools/gen_ProjFold.py regenerates into Generated/ProjFold.lean.  C08 keeps its own copy
so that its build depends only on the translation of `fold`, `unfold`, `reverse_array`, `_total_per_entry` and the
constructor defaults — not on the arithmetic-operator templates, misidentification and auto-folding parts of Generated/Fold.lean,
which belong to C09 alone.
-/
namespace DadiVerif
namespace PBox
namespace Fold
open Gen.ProjFold Finset

section pointwise
variable {ι : Type} (mirror : ι → ι) (total : ι → ℕ) (T : ℕ) (x : ι → ℚ) (m : ι → Bool)

/-- closed form of the folded data -/
def sfold (i : ι) : ℚ :=
  if 2 * total i > T then 0
  else if 2 * total i = T then (x i + x (mirror i)) / 2
  else x i + x (mirror i)

/-- entry is "folded out" (its minor-allele mirror is kept instead) -/
def fo (i : ι) : Bool := decide (2 * total i > T)

theorem whereFoldedOut_eq (i : ι) : fold_where_folded_out_1 mirror total T x m i = fo total T i := by
  unfold fold_where_folded_out_1 fo
  congr 1
  apply propext
  constructor <;> intro h <;> omega

theorem unfold_whereFoldedOut_eq (i : ι) : unfold_where_folded_out_1 mirror total T x m i = fo total T i := by
  unfold unfold_where_folded_out_1 fo
  congr 1
  apply propext
  constructor <;> intro h <;> omega

theorem whereAmbiguous_eq (i : ι) :
    fold_where_ambiguous_1 mirror total T x m i = decide (2 * total i = T) := by
  unfold fold_where_ambiguous_1
  rw [Bool.eq_iff_iff]
  simp only [beq_iff_eq, decide_eq_true_eq]
  constructor
  · intro h
    have h2 : (2 : ℚ) * (total i : ℚ) = (T : ℚ) := by rw [h]; ring
    exact_mod_cast h2
  · intro h
    have h2 : (2 : ℚ) * (total i : ℚ) = (T : ℚ) := by exact_mod_cast h
    rw [← h2]; ring

variable {mirror total T}

/-- local hypotheses at index `i` -/
structure Loc (mirror : ι → ι) (total : ι → ℕ) (T : ℕ) (i : ι) : Prop where
  invol : mirror (mirror i) = i
  tot   : total (mirror i) = T - total i
  le    : total i ≤ T

theorem Loc.mir {i : ι} (h : Loc mirror total T i) : Loc mirror total T (mirror i) where
  invol := by rw [h.invol]
  tot := by rw [h.invol, h.tot]; have := h.le; omega
  le := by rw [h.tot]; omega

/-- the generated program of `Spectrum.fold` computes the closed form -/
theorem fold_outData_eq {i : ι} (h : Loc mirror total T i) :
    fold_outData mirror total T x m i = sfold mirror total T x i := by
  have h1 := h.tot; have h2 := h.le
  unfold fold_outData fold_folded_3 fold_folded_2 fold_folded_1 fold_reversed_1 fold_ambiguous_1 sfold
  simp only [whereFoldedOut_eq, whereAmbiguous_eq, fo, decide_eq_true_eq]
  split_ifs <;> first | (exfalso; omega) | ring

/-- the generated mask program of `Spectrum.fold` (before corner masking) -/
theorem fold_outMask_eq (i : ι) :
    fold_outMask mirror total T x m i = (m i || m (mirror i) || fo total T i) := by
  unfold fold_outMask fold_final_mask_2 fold_final_mask_1
  rw [whereFoldedOut_eq]

theorem unfold_outData_eq (i : ι) :
    unfold_outData mirror total T x m i = (x i + x (mirror i)) / 2 := by
  unfold unfold_outData unfold_newdata_1 unfold_reversed_data_1; rfl

theorem unfold_outMask_eq (i : ι) :
    unfold_outMask mirror total T x m i
      = ((m i ^^ fo total T i) || (m (mirror i) ^^ fo total T (mirror i))) := by
  unfold unfold_outMask unfold_newmask_2 unfold_newmask_1
  simp only [unfold_whereFoldedOut_eq]

/-- an entry and its mirror are never both folded out -/
theorem fo_not_both {i : ι} (h : Loc mirror total T i) : ¬ (fo total T i = true ∧ fo total T (mirror i) = true) := by
  have h1 := h.tot; have h2 := h.le
  unfold fo; simp only [decide_eq_true_eq]; omega

theorem sfold_mirror_arg {i : ι} (h : Loc mirror total T i) :
    sfold mirror total T (fun j => x (mirror j)) i = sfold mirror total T x i := by
  unfold sfold; simp only [h.invol]; split_ifs <;> ring

/-- fold ∘ unfold ∘ fold = fold on the data (closed forms) -/
theorem sfold_unfold_sfold {i : ι} (h : Loc mirror total T i) :
    sfold mirror total T (fun j => (sfold mirror total T x j + sfold mirror total T x (mirror j)) / 2) i
      = sfold mirror total T x i := by
  have hm := h.invol; have h1 := h.tot; have h2 := h.le
  have h3 := h.mir.tot; have h4 := h.mir.le
  unfold sfold
  simp only [hm]
  split_ifs <;> first | (exfalso; omega) | ring

/-- mask algebra of fold ∘ unfold ∘ fold, corner masking included (`c` = corner indicator, mirror-symmetric) -/
theorem mask_fuf {i : ι} (h : Loc mirror total T i) (c : ι → Bool) (hc : c (mirror i) = c i) :
    let M : ι → Bool := fun j => m j || m (mirror j) || fo total T j || c j
    let U : ι → Bool := fun j => (M j ^^ fo total T j) || (M (mirror j) ^^ fo total T (mirror j)) || c j
    (U i || U (mirror i) || fo total T i || c i) = M i := by
  intro M U
  have hnb := fo_not_both h
  simp only [M, U, h.invol, hc]
  cases m i <;> cases m (mirror i) <;> cases c i <;> cases hf : fo total T i <;>
    cases hg : fo total T (mirror i) <;> simp_all

/-- coefficient form used for the total -/
def coef (total : ι → ℕ) (T : ℕ) (i : ι) : ℚ :=
  if 2 * total i > T then 0 else if 2 * total i = T then 1/2 else 1

theorem sfold_coef (i : ι) :
    sfold mirror total T x i = coef total T i * x i + coef total T i * x (mirror i) := by
  unfold sfold coef; split_ifs <;> ring

theorem coef_add {i : ι} (h : Loc mirror total T i) : coef total T i + coef total T (mirror i) = 1 := by
  have h1 := h.tot; have h2 := h.le
  unfold coef
  split_ifs <;> first | (exfalso; omega) | norm_num

end pointwise

theorem sfold_congr {ι : Type} {mirror : ι → ι} {total : ι → ℕ} {T : ℕ} {x y : ι → ℚ} {i : ι}
    (h1 : x i = y i) (h2 : x (mirror i) = y (mirror i)) :
    sfold mirror total T x i = sfold mirror total T y i := by
  unfold sfold; rw [h1, h2]

/-- every component of `unflat shape k` is in range -/
theorem unflat_lt : ∀ (shape : List ℕ) (k : ℕ), k < prodL shape →
    List.Forall₂ (fun i s => i < s) (unflat shape k) shape
  | [], _, _ => List.Forall₂.nil
  | s :: ss, k, h => by
      have hP : 0 < prodL ss := by
        rcases Nat.eq_zero_or_pos (prodL ss) with h0 | h0
        · simp [prodL, h0] at h
        · exact h0
      have hk : k < s * prodL ss := h
      simp only [unflat]
      exact List.Forall₂.cons ((Nat.div_lt_iff_lt_mul hP).mpr hk) (unflat_lt ss _ (Nat.mod_lt _ hP))

end Fold
end PBox
end DadiVerif
