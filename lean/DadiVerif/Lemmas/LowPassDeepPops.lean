import DadiVerif.Lemmas.LowPassDeepAxis
/-! C18 helper lemmas, part 11: the matrices `low_cov_precalc_…` prepares (`axesOf pops`) against the plain projection
    matrices (`refAxesOf pops`) when no individual can have a depth below `D`. -/
namespace DadiVerif.LowPass
open Finset

/-! ### small list facts -/

theorem foldl_max_ge (l : List ℕ) : ∀ acc, acc ≤ l.foldl Nat.max acc ∧ ∀ a ∈ l, a ≤ l.foldl Nat.max acc := by
  induction l with
  | nil => intro acc; simp
  | cons b l ih =>
    intro acc
    obtain ⟨h1, h2⟩ := ih (Nat.max acc b)
    simp only [List.foldl_cons]
    refine ⟨le_trans (Nat.le_max_left _ _) h1, ?_⟩
    intro a ha
    rcases List.mem_cons.mp ha with rfl | ha'
    · exact le_trans (Nat.le_max_right _ _) h1
    · exact h2 a ha'

theorem le_maxOf (l : List ℕ) (a : ℕ) (ha : a ∈ l) : a ≤ maxOf l := (foldl_max_ge l 0).2 a ha

theorem foldl_min_le (l : List ℕ) : ∀ acc, l.foldl Nat.min acc ≤ acc ∧ ∀ a ∈ l, l.foldl Nat.min acc ≤ a := by
  induction l with
  | nil => intro acc; simp
  | cons b l ih =>
    intro acc
    obtain ⟨h1, h2⟩ := ih (Nat.min acc b)
    simp only [List.foldl_cons]
    refine ⟨le_trans h1 (Nat.min_le_left _ _), ?_⟩
    intro a ha
    rcases List.mem_cons.mp ha with rfl | ha'
    · exact le_trans h1 (Nat.min_le_right _ _)
    · exact h2 a ha'

theorem minOf_le (l : List ℕ) (a : ℕ) (ha : a ∈ l) : minOf l ≤ a := by
  cases l with
  | nil => simp at ha
  | cons b l =>
    simp only [minOf]
    rcases List.mem_cons.mp ha with rfl | ha'
    · exact (foldl_min_le l a).1
    · exact (foldl_min_le l b).2 a ha'

theorem minDepth_spec (c : List ℚ) : ∀ d, d < minDepth c → covAt c d = 0 := by
  induction c with
  | nil => intro d hd; simp [minDepth] at hd
  | cons v c ih =>
    intro d hd
    unfold minDepth at hd
    split_ifs at hd with hv
    · cases d with
      | zero => simp [covAt, hv]
      | succ d =>
        have := ih d (by omega)
        simpa [covAt] using this
    · omega

theorem deepCov_of_deepDepth (pops : List Pop) (p : Pop) (hp : p ∈ pops) : DeepCov (deepDepth pops) p.c := by
  intro d hd
  apply minDepth_spec
  have : deepDepth pops ≤ minDepth p.c := by
    apply minOf_le
    exact List.mem_map.mpr ⟨p, hp, rfl⟩
  omega

theorem lsum_eq_head_tail (c : List ℚ) : lsum c = covAt c 0 + covTail c := by
  cases c with
  | nil => simp [covAt, covTail]
  | cons a l => simp [covAt, covTail]

/-! ### the reference axis -/

theorem refAxis_K_eq (p : Pop) (i j : ℕ) (hi : i < p.nseq + 1) (hj : j < p.nsub + 1) :
    (refAxis p).K i j = projEntry p.nseq p.nsub p.F i j := by
  have hrow : projRow p.nseq p.nsub p.F = fun i => (List.range (p.nsub + 1)).map (projEntry p.nseq p.nsub p.F i) :=
    funext (projRow_eq p.nseq p.nsub p.F)
  simp only [refAxis]
  rw [hrow, tableAt_tabOfRows _ _ _ _ _ hi hj]

theorem refAxis_ok (p : Pop) (hp : PopOk p) : AxisOk (refAxis p) := by
  obtain ⟨_, _, _, hF0, hF1, N, m, e1, e2, _, hmN⟩ := hp
  have hIn : (refAxis p).nIn = p.nseq + 1 := rfl
  have hOut : (refAxis p).nOut = p.nsub + 1 := rfl
  constructor
  · intro i hi j hj
    rw [hIn] at hi; rw [hOut] at hj
    rw [refAxis_K_eq p i j hi hj, e1, e2]
    exact projEntry_nonneg N m p.F hF0 hF1 i j (by omega)
  · intro i hi
    rw [hIn] at hi
    rw [hOut]
    have : ∑ j ∈ range (p.nsub + 1), (refAxis p).K i j = ∑ j ∈ range (p.nsub + 1), projEntry p.nseq p.nsub p.F i j :=
      Finset.sum_congr rfl (fun j hj => refAxis_K_eq p i j hi (by simpa using hj))
    rw [this, e1, e2, projEntry_rowsum N m hmN p.F hF0 hF1 i (by omega)]
  · intro i _; exact le_refl _
  · intro i _; exact zero_le_one

/-! ### one population -/

/-- enough individuals are always covered when depth 0 has no mass (product over populations) -/
theorem peAll_deep (pops : List Pop) (h : ∀ p ∈ pops, PopOk p ∧ lsum p.c = 1 ∧ covAt p.c 0 = 0) : peAll pops = 1 := by
  unfold peAll
  have key : ∀ (l : List Pop), (∀ p ∈ l, PopOk p ∧ lsum p.c = 1 ∧ covAt p.c 0 = 0) →
      ∀ acc : ℚ, l.foldl (fun acc p => acc * probEnough p.c p.nseq p.nsub) acc = acc := by
    intro l
    induction l with
    | nil => intro _ acc; rfl
    | cons p ps ih =>
      intro hl acc
      obtain ⟨⟨_, _, _, _, _, N, m, e1, e2, hm1, hmN⟩, hs, h0⟩ := hl p List.mem_cons_self
      have ht : covTail p.c = 1 := by
        have := lsum_eq_head_tail p.c; rw [h0, hs] at this; linarith
      simp only [List.foldl_cons]
      rw [e1, e2, probEnough_deep p.c h0 ht N m hm1 hmN, mul_one]
      exact ih (fun q hq => hl q (List.mem_cons_of_mem _ hq)) acc
  exact key pops h 1

/-- **any coverage**: the ℓ¹ distance of a row of one population's kernel `(pe·projection)·calling-error` from the row of
    its projection matrix is at most (1 − pe) + 2·nsub·prob_het_err -/
theorem mkAxis_dev_gen (p : Pop) (hp : PopOk p) (pe : ℚ) (hpe0 : 0 ≤ pe) (hpe1 : pe ≤ 1) (i : ℕ) (hi : i < p.nseq + 1) :
    ∑ j ∈ range (p.nsub + 1), |(mkAxis p.c p.nseq p.nsub p.F pe).K i j - (refAxis p).K i j|
      ≤ (1 - pe) + 2 * (((p.nsub : ℕ) : ℚ) * hetErr p.c) := by
  obtain ⟨hc, hs, ht, hF0, hF1, N, m, e1, e2, _, hmN⟩ := hp
  obtain ⟨he0, he1⟩ := hetErr_unit p.c hc ht
  have hrew : ∑ j ∈ range (p.nsub + 1), |(mkAxis p.c p.nseq p.nsub p.F pe).K i j - (refAxis p).K i j|
      = ∑ j ∈ range (p.nsub + 1),
          |kernel pe (projEntry p.nseq p.nsub p.F) (callEntryE (hetErr p.c) p.nsub p.F) p.nsub i j
            - projEntry p.nseq p.nsub p.F i j| := by
    refine Finset.sum_congr rfl (fun j hj => ?_)
    have hj' : j < p.nsub + 1 := by simpa using hj
    rw [mkAxis_K_eq p.c _ _ p.F pe i j hi hj', refAxis_K_eq p i j hi hj']
  rw [hrew]
  have hη : 0 ≤ ((p.nsub : ℕ) : ℚ) * hetErr p.c := by positivity
  exact kernel_dev pe hpe0 hpe1 (projEntry p.nseq p.nsub p.F) (callEntryE (hetErr p.c) p.nsub p.F)
    p.nsub i (((p.nsub : ℕ) : ℚ) * hetErr p.c) hη
    (by intro k _; rw [e1, e2]; exact projEntry_nonneg N m p.F hF0 hF1 i k (by omega))
    (by rw [e1, e2]; exact projEntry_rowsum N m hmN p.F hF0 hF1 i (by omega))
    (by intro k hk j _; rw [e2]; exact callEntryE_nonneg _ he0 he1 m p.F hF0 hF1 k j (by omega))
    (by intro k hk; rw [e2]; exact callEntryE_rowsum _ m p.F hF0 hF1 k (by omega))
    (by
      intro k hk
      have hkk : k ≤ 2 * m := by omega
      have h1 := callEntryE_diag_ge (hetErr p.c) he0 he1 m p.F hF0 hF1 k hkk
      rw [e2]
      have h2 : (k : ℚ) ≤ ((2 * m : ℕ) : ℚ) := by exact_mod_cast hkk
      have : (k : ℚ) * hetErr p.c ≤ ((2 * m : ℕ) : ℚ) * hetErr p.c := mul_le_mul_of_nonneg_right h2 he0
      linarith)

/-- the ℓ¹ row deviation of the kernel of one deeply covered population from its projection matrix -/
theorem mkAxis_dev (p : Pop) (hp : PopOk p) (D M : ℕ) (hdeep : DeepCov D p.c) (hM : p.nsub ≤ M) (i : ℕ)
    (hi : i < p.nseq + 1) :
    ∑ j ∈ range (p.nsub + 1), |(mkAxis p.c p.nseq p.nsub p.F 1).K i j - (refAxis p).K i j| ≤ deepDelta D M := by
  have hk := mkAxis_dev_gen p hp 1 (by norm_num) (le_refl _) i hi
  obtain ⟨hc, hs, ht, hF0, hF1, N, m, e1, e2, _, hmN⟩ := hp
  obtain ⟨he0, he1⟩ := hetErr_unit p.c hc ht
  have heD := hetErr_le_deep p.c hc ht D hdeep
  have hMq : ((p.nsub : ℕ) : ℚ) ≤ (M : ℚ) := by exact_mod_cast hM
  have hpw : (0 : ℚ) ≤ (1 / 2) ^ D := by positivity
  have h3 : ((p.nsub : ℕ) : ℚ) * hetErr p.c ≤ (M : ℚ) * (2 * (1 / 2) ^ D) := by
    calc ((p.nsub : ℕ) : ℚ) * hetErr p.c ≤ (M : ℚ) * hetErr p.c := mul_le_mul_of_nonneg_right hMq he0
      _ ≤ (M : ℚ) * (2 * (1 / 2) ^ D) := mul_le_mul_of_nonneg_left heD (Nat.cast_nonneg _)
  unfold deepDelta
  linarith

/-- the no-call probability of every polymorphic allele count of a deeply covered population -/
theorem mkAxis_pnc_deep (p : Pop) (hp : PopOk p) (D Mq : ℕ) (hD : 2 ≤ D) (hdeep : DeepCov D p.c) (hMq : p.nseq ≤ Mq)
    (pe : ℚ) (i : ℕ) (hi1 : 1 ≤ i) (hi : i < p.nseq + 1) :
    (mkAxis p.c p.nseq p.nsub p.F pe).pnc i ≤ deepEps D Mq := by
  obtain ⟨hc, hs, _, hF0, hF1, N, m, e1, e2, _, _⟩ := hp
  rw [mkAxis_pnc_eq p.c _ _ p.F pe i hi, e1]
  have h := nocall_le_deep p.c hc hs D hD hdeep N p.F hF0 hF1 i hi1 (by omega)
  have h1 : (i : ℚ) ≤ (Mq : ℚ) := by exact_mod_cast (by omega : i ≤ Mq)
  have hpw : (0 : ℚ) ≤ (1 / 2) ^ D := by positivity
  have hDq : (0 : ℚ) ≤ (D : ℚ) := Nat.cast_nonneg _
  unfold deepEps
  have : (i : ℚ) * (D : ℚ) ≤ (Mq : ℚ) * (D : ℚ) := mul_le_mul_of_nonneg_right h1 hDq
  nlinarith

/-! ### the product of the no-call probabilities -/

/-- if every axis has no-call probabilities in [0,1], at most ε at every index ≥ 1, then the product is ≤ ε at every
    multi-index that is not the all-zero corner -/
theorem pncND_le (ε : ℚ) (hε : 0 ≤ ε) (A : List Axis) (hA : ∀ a ∈ A, AxisOk a)
    (hpe : ∀ a ∈ A, ∀ i, 1 ≤ i → i < a.nIn → a.pnc i ≤ ε) :
    ∀ i, inBox (A.map (·.nIn)) i → (¬ ∀ k ∈ i, k = 0) → pncND A i ≤ ε := by
  induction A with
  | nil =>
    intro i hi hne
    cases i with
    | nil => exact absurd (by simp) hne
    | cons _ _ => simp [inBox] at hi
  | cons a A ih =>
    intro i hi hne
    cases i with
    | nil => simp [inBox] at hi
    | cons i0 is =>
      simp only [List.map_cons, inBox] at hi
      have ha := hA a List.mem_cons_self
      have hrest : ∀ b ∈ A, AxisOk b := fun b hb => hA b (List.mem_cons_of_mem _ hb)
      obtain ⟨hr0, hr1⟩ := pncND_unit A hrest is hi.2
      have hp0 := ha.pnc_nonneg i0 hi.1
      have hp1 := ha.pnc_le i0 hi.1
      simp only [pncND]
      rcases Nat.eq_zero_or_pos i0 with h0 | hpos
      · have hne' : ¬ ∀ k ∈ is, k = 0 := by
          intro hall; apply hne
          intro k hk
          rcases List.mem_cons.mp hk with rfl | hk'
          · exact h0
          · exact hall k hk'
        have := ih hrest (fun b hb => hpe b (List.mem_cons_of_mem _ hb)) is hi.2 hne'
        nlinarith
      · have := hpe a List.mem_cons_self i0 hpos hi.1
        nlinarith

/-! ### all populations -/

/-- a deeply covered data set: every population is well-formed, its coverage distribution sums to one and has no mass
    below depth `D` -/
def PopsDeep (D : ℕ) (pops : List Pop) : Prop := ∀ p ∈ pops, PopOk p ∧ lsum p.c = 1 ∧ DeepCov D p.c

/-- the pairs (axis prepared by `low_cov_precalc_…`, plain projection axis) -/
def deepPairs (pops : List Pop) : List (Axis × Axis) :=
  pops.map fun p => (mkAxis p.c p.nseq p.nsub p.F (peAll pops), refAxis p)

theorem deepPairs_fst (pops : List Pop) : (deepPairs pops).map (·.1) = axesOf pops := by
  simp [deepPairs, axesOf, List.map_map, Function.comp_def]

theorem deepPairs_snd (pops : List Pop) : (deepPairs pops).map (·.2) = refAxesOf pops := by
  simp [deepPairs, refAxesOf, List.map_map, Function.comp_def]

theorem deepPairs_ok (D M : ℕ) (hD : 1 ≤ D) (pops : List Pop) (h : PopsDeep D pops) (hM : ∀ p ∈ pops, p.nsub ≤ M) :
    ∀ ab ∈ deepPairs pops, PairOk (deepDelta D M) ab := by
  have hpe : peAll pops = 1 := peAll_deep pops (fun p hp => ⟨(h p hp).1, (h p hp).2.1, (h p hp).2.2 0 (by omega)⟩)
  intro ab hab
  simp only [deepPairs, List.mem_map] at hab
  obtain ⟨p, hp, rfl⟩ := hab
  obtain ⟨hok, hs, hdeep⟩ := h p hp
  have hok' := hok
  obtain ⟨hc, hsl, ht, hF0, hF1, N, m, e1, e2, _, hmN⟩ := hok
  rw [hpe]
  refine ⟨rfl, rfl, ?_, refAxis_ok p hok', ?_⟩
  · show AxisOk (mkAxis p.c p.nseq p.nsub p.F 1)
    rw [e1, e2]
    exact mkAxis_ok p.c hc hsl ht N m hmN p.F hF0 hF1 1 (by norm_num) (le_refl _)
  · intro i hi
    exact mkAxis_dev p hok' D M hdeep (hM p hp) i hi

theorem pops_pnc_le (D Mq : ℕ) (hD : 2 ≤ D) (pops : List Pop) (h : PopsDeep D pops) (hMq : ∀ p ∈ pops, p.nseq ≤ Mq) :
    ∀ a ∈ axesOf pops, ∀ i, 1 ≤ i → i < a.nIn → a.pnc i ≤ deepEps D Mq := by
  intro a ha i hi1 hi
  simp only [axesOf, List.mem_map] at ha
  obtain ⟨p, hp, rfl⟩ := ha
  exact mkAxis_pnc_deep p (h p hp).1 D Mq hD (h p hp).2.2 (hMq p hp) _ i hi1 hi

theorem deepEps_nonneg (D Mq : ℕ) : 0 ≤ deepEps D Mq := by unfold deepEps; positivity
theorem deepDelta_nonneg (D M : ℕ) : 0 ≤ deepDelta D M := by unfold deepDelta; positivity

end DadiVerif.LowPass
