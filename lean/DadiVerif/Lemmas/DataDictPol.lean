import DadiVerif.Lemmas.DataDict
/-! Infrastructure for C13, part 0: the generated decision table `polTable` of `Misc.count_data_dict` (is the SNP polarised, which
    allele's calls are the derived ones) and the statement's three-way test it is compared with.

    The table is produced by running the polarisation statements of the source on one representative per equality pattern among
    ('-', allele1, allele2, outgroup allele / no outgroup key); the model looks a SNP up under `canonKey`, the small codes with the
    same equality pattern.  Here: every canonical key is a key of the table, the statement's test `polSpec` only depends on the
    equality pattern, hence — GIVEN that the table agrees with `polSpec` row by row (that is theorem `C13_polarised_table`, by
    evaluation of the 80 rows) — the model's `polRow` is `polSpec` for every SNP.  The lemmas the rest of the development needs for
    ALL tables (a derived allele is always selected) are proved from the table itself. -/
namespace DadiVerif.DataDict
open DadiVerif.Gen.DD DadiVerif.DataDict.Snp

/-- the keys of the decision table: outgroup allele absent or one of the codes 0..3, allele1 and allele2 codes 0..3 ('-' = 0) -/
def polKeys : List (Option ℕ × ℕ × ℕ) :=
  ([none, some 0, some 1, some 2, some 3] : List (Option ℕ)).flatMap fun og =>
    ([0, 1, 2, 3] : List ℕ).flatMap fun a1 => ([0, 1, 2, 3] : List ℕ).map fun a2 => (og, a1, a2)

/-- **the statement's test for a usable ancestral allele**: a SNP is polarised iff an outgroup allele is recorded, is not '-', and
    is one of the two segregating alleles; then the derived allele is the other one (allele 2 if the outgroup allele is allele 1,
    else allele 1); otherwise ('-', no record, a third allele) the SNP is unpolarised and its second allele is the one counted -/
def polSpec (k : Option ℕ × ℕ × ℕ) : Bool × Option ℕ :=
  match k.1 with
  | some o => if o ≠ dash ∧ (o = k.2.1 ∨ o = k.2.2) then (true, some (if k.2.1 = o then 2 else 1)) else (false, some 2)
  | none => (false, some 2)

theorem canonKey_mem (out : Option ℕ) (a1 a2 : ℕ) : canonKey out a1 a2 ∈ polKeys := by
  cases out with
  | none =>
    simp only [canonKey, Option.map_none, canonA1, canonA2]
    split_ifs <;> decide
  | some o =>
    simp only [canonKey, Option.map_some, canonA1, canonA2, canonOg]
    split_ifs <;> decide

/-- the test only looks at which of '-', allele1, allele2, outgroup allele are equal -/
theorem polSpec_canon (out : Option ℕ) (a1 a2 : ℕ) : polSpec (canonKey out a1 a2) = polSpec (out, a1, a2) := by
  cases out with
  | none => rfl
  | some o =>
    simp only [polSpec, canonKey, Option.map_some, canonA1, canonA2, canonOg, dash]
    by_cases h0 : o = 0 <;> by_cases h1 : o = a1 <;> by_cases h2 : o = a2 <;> by_cases h3 : a1 = 0 <;>
      by_cases h4 : a2 = 0 <;> by_cases h5 : a2 = a1 <;> simp_all <;> omega

/-- whatever the table says about polarisation, it always selects one of the two alleles as the derived one
    (`derived_calls` is assigned in every case) -/
theorem polTable_derived_isSome : ∀ k ∈ polKeys, (polLookup k).2.isSome = true := by decide +kernel

theorem Snp.derivedSel_isSome' (s : Snp) : s.derivedSel.isSome = true :=
  polTable_derived_isSome _ (canonKey_mem s.out s.a1 s.a2)

/-- given the row-by-row agreement of the table with the statement's test, the model's decision for ANY SNP (any allele strings)
    is the statement's test -/
theorem Snp.polRow_of_table (h : ∀ k ∈ polKeys, polLookup k = polSpec k) (s : Snp) :
    s.polRow = polSpec (s.out, s.a1, s.a2) := by
  unfold Snp.polRow
  rw [h _ (canonKey_mem s.out s.a1 s.a2), polSpec_canon]

end DadiVerif.DataDict
