import DadiVerif.Model.Integrate
import DadiVerif.Lemmas.Step
import Mathlib.Tactic.Ring
/-! Semantics of the driver programs (Model/Integrate.lean, `Prog`): the expected program of every driver, run by `Prog.exec`,
    IS `integrateFn` / `integrateConst` over `sweepOf` — for every number of populations, every number of steps. -/
namespace DadiVerif
namespace Prog
open Gen Gen.Py

variable {σ : Type}

/-! ### time expressions and arguments do not read what they do not mention -/
theorem evalT_congr (E : PEnv) (s s' : PSt σ) (h1 : s.cur = s'.cur) (h2 : s.next = s'.next) (h3 : s.dt = s'.dt)
    (h4 : s.thisDt = s'.thisDt) (e : TExp) : evalT E s e = evalT E s' e := by
  induction e with
  | tv v => cases v <;> simp [evalT, h1, h2]
  | dtv v => cases v <;> simp [evalT, h3, h4]
  | tEnd => rfl
  | add a b iha ihb => simp [evalT, iha, ihb]
  | sub a b iha ihb => simp [evalT, iha, ihb]
  | other s => rfl

/-! ### single statements on explicit states -/
theorem others_one_zero : others 1 0 = [] := by decide

theorem exec_dtFromSlots (sem : PSem σ) (E : PEnv) (d : ℕ) (c n : ℚ) (dt : Option ℚ) (td : ℚ) (v : Param → ℚ) (φ : σ) :
    exec sem E ⟨c, n, dt, td, v, φ⟩ (dtFromSlots d) = ⟨c, n, stepDt E.tf (toStep d v), td, v, φ⟩ := by
  simp only [exec, dtFromSlots, stepDt, toStep, List.map_map]
  congr 1
  congr 1
  apply List.map_congr_left
  intro k hk
  simp only [Function.comp, popDt, expDtCall, evalArg]
  by_cases hd : d = 1
  · subst hd
    have hk0 : k = 0 := by simpa using hk
    subst hk0
    simp [others_one_zero, evalArg]
  · simp only [hd, if_false, List.map_map]
    have e : (evalArg E (⟨c, n, dt, td, v, φ⟩ : PSt σ) ∘ fun l => Arg.slot (Param.m k l)) = fun l => v (Param.m k l) := rfl
    rw [e]
    split
    · rename_i he
      have : (List.map (fun l => v (Param.m k l)) (others d k)) = [] := by simpa using he
      rw [this]; rfl
    · rfl

theorem exec_capToEnd (sem : PSem σ) (E : PEnv) (c n : ℚ) (dt : Option ℚ) (td : ℚ) (v : Param → ℚ) (φ : σ) :
    exec sem E ⟨c, n, dt, td, v, φ⟩ capToEnd = ⟨c, n, dt, thisDt dt (E.T - c), v, φ⟩ := by
  simp only [exec, capToEnd, List.map_cons, List.map_nil, List.foldl_cons, List.foldl_nil, evalT, optSub]
  cases dt with
  | none => simp [optMin, thisDt]
  | some x => simp [optMin, thisDt]

theorem exec_setNext (sem : PSem σ) (E : PEnv) (c n : ℚ) (dt : Option ℚ) (td : ℚ) (v : Param → ℚ) (φ : σ) :
    exec sem E ⟨c, n, dt, td, v, φ⟩ (.setNext (.add (.tv .cur) (.dtv .thisDt))) = ⟨c, c + td, dt, td, v, φ⟩ := by
  simp [exec, evalT, optAdd]

theorem exec_advance_next (sem : PSem σ) (E : PEnv) (c n : ℚ) (dt : Option ℚ) (td : ℚ) (v : Param → ℚ) (φ : σ) :
    exec sem E ⟨c, n, dt, td, v, φ⟩ (.advance (.tv .next)) = ⟨n, n, dt, td, v, φ⟩ := by
  simp [exec, evalT]

theorem exec_advance_add (sem : PSem σ) (E : PEnv) (c n : ℚ) (dt : Option ℚ) (td : ℚ) (v : Param → ℚ) (φ : σ) :
    exec sem E ⟨c, n, dt, td, v, φ⟩ (.advance (.add (.tv .cur) (.dtv .thisDt))) = ⟨c + td, n, dt, td, v, φ⟩ := by
  simp [exec, evalT, optAdd]

theorem foldl_checks (sem : PSem σ) (E : PEnv) (d : ℕ) (s : PSt σ) : (expChecks d).foldl (exec sem E) s = s := by
  simp [expChecks, exec]

/-- a run of parameter evaluations at one time expression -/
theorem foldl_evals (sem : PSem σ) (E : PEnv) (t : TExp) (ps : List Param) (s : PSt σ) :
    (ps.map (fun p => StmtR.eval p t)).foldl (exec sem E) s
      = ⟨s.cur, s.next, s.dt, s.thisDt, fun q => if q ∈ ps then E.pf q ((evalT E s t).getD 0) else s.vals q, s.phi⟩ := by
  induction ps generalizing s with
  | nil => simp
  | cons p ps ih =>
    simp only [List.map_cons, List.foldl_cons]
    rw [ih]
    have ht : evalT E (exec sem E s (StmtR.eval p t)) t = evalT E s t :=
      evalT_congr E (exec sem E s (StmtR.eval p t)) s rfl rfl rfl rfl t
    simp only [ht]
    simp only [exec]
    congr 1
    funext q
    by_cases hq : q ∈ ps
    · simp [hq]
    · by_cases hp : q = p
      · subst hp; simp [hq]
      · simp [hq, hp]

theorem exec_inject (sem : PSem σ) (E : PEnv) (d : ℕ) (c n : ℚ) (dt : Option ℚ) (td : ℚ) (v : Param → ℚ) (φ : σ) :
    exec sem E ⟨c, n, dt, td, v, φ⟩ (.inject (expInject d))
      = ⟨c, n, dt, td, v, sem.inject td (v .theta0) (frList d E) (nmList d E) φ⟩ := by
  simp only [exec, expInject, evalArg, evalT, Option.getD_some]
  congr 2
  · unfold frList; split
    · rfl
    · simp [List.map_map, Function.comp, evalFlag]
  · unfold nmList; split
    · simp [List.map_map, Function.comp, evalFlag]
    · rfl

theorem toStep_pops_get (d : ℕ) (v : Param → ℚ) (k : ℕ) (hk : k < d) :
    (toStep d v).pops[k]? = some ⟨v (.nu k), v (.gamma k), v (.h k), (others d k).map fun l => v (.m k l)⟩ := by
  simp [toStep, hk]

theorem frList_getD (d : ℕ) (E : PEnv) (k : ℕ) (hk : k < d) :
    (frList d E).getD k false = if d = 1 then false else E.frozen k := by
  unfold frList
  split
  · rfl
  · simp [List.getD, hk]

theorem exec_kernel (sem : PSem σ) (E : PEnv) (d ax : ℕ) (pre : Bool) (hax : ax < d) (c n : ℚ) (dt : Option ℚ) (td : ℚ)
    (v : Param → ℚ) (φ : σ) :
    exec sem E ⟨c, n, dt, td, v, φ⟩ (.kernel (expKernel d ax pre))
      = ⟨c, n, dt, td, v,
          if (frList d E).getD ax false then φ
          else match (toStep d v).pops[ax]? with
            | some p => sem.kernel ax (p.axis (toStep d v).beta) td φ
            | none => φ⟩ := by
  rw [frList_getD d E ax hax, toStep_pops_get d v ax hax]
  simp only [exec, expKernel]
  by_cases hd : d = 1
  · simp only [hd, if_true, Option.map_none, Option.getD_none, Bool.false_eq_true, if_false]
    simp [evalArg, evalT, PopParams.axis, toStep, List.map_map]
    rfl
  · simp only [hd, if_false, Option.map_some, Option.getD_some, evalFlag]
    by_cases hf : E.frozen ax = true
    · simp [hf]
    · simp only [hf, if_false, Bool.false_eq_true]
      simp [evalArg, evalT, PopParams.axis, toStep, hd, List.map_map]
      rfl

/-- every axis in order -/
theorem foldl_kernels (sem : PSem σ) (E : PEnv) (d : ℕ) (pre : Bool) (l : List ℕ) (hl : ∀ k ∈ l, k < d) (c n : ℚ)
    (dt : Option ℚ) (td : ℚ) (v : Param → ℚ) (φ : σ) :
    (l.map (fun ax => StmtR.kernel (expKernel d ax pre))).foldl (exec sem E) ⟨c, n, dt, td, v, φ⟩
      = ⟨c, n, dt, td, v,
          l.foldl (fun acc k =>
            if (frList d E).getD k false then acc
            else match (toStep d v).pops[k]? with
              | some p => sem.kernel k (p.axis (toStep d v).beta) td acc
              | none => acc) φ⟩ := by
  induction l generalizing φ with
  | nil => rfl
  | cons k l ih =>
    simp only [List.map_cons, List.foldl_cons]
    rw [exec_kernel sem E d k pre (hl k (List.mem_cons_self)), ih (fun k' hk' => hl k' (List.mem_cons_of_mem _ hk'))]

/-! ### which slots `toStep` reads -/
theorem mem_paramList_nu (d k : ℕ) (hk : k < d) : Param.nu k ∈ paramList d := by
  simp [paramList, hk]
theorem mem_paramList_gamma (d k : ℕ) (hk : k < d) : Param.gamma k ∈ paramList d := by
  simp [paramList, hk]
theorem mem_paramList_h (d k : ℕ) (hk : k < d) : Param.h k ∈ paramList d := by
  simp [paramList, hk]
theorem mem_paramList_m (d k l : ℕ) (hk : k < d) (hl : l ∈ others d k) : Param.m k l ∈ paramList d := by
  simp only [paramList, List.mem_append, List.mem_flatMap, List.mem_map, List.mem_range]
  left; left; right
  exact ⟨k, hk, l, hl, rfl⟩
theorem mem_paramList_theta0 (d : ℕ) : Param.theta0 ∈ paramList d := by
  simp [paramList]
theorem mem_paramList_beta : Param.beta ∈ paramList 1 := by
  simp [paramList]

theorem mem_dtParamList_nu (d k : ℕ) (hk : k < d) : Param.nu k ∈ dtParamList d := by
  simp [dtParamList, hk]
theorem mem_dtParamList_gamma (d k : ℕ) (hk : k < d) : Param.gamma k ∈ dtParamList d := by
  simp [dtParamList, hk]
theorem mem_dtParamList_h (d k : ℕ) (hk : k < d) : Param.h k ∈ dtParamList d := by
  simp [dtParamList, hk]
theorem mem_dtParamList_m (d k l : ℕ) (hk : k < d) (hl : l ∈ others d k) : Param.m k l ∈ dtParamList d := by
  simp only [dtParamList, List.mem_append, List.mem_flatMap, List.mem_map, List.mem_range]
  left; right
  exact ⟨k, hk, l, hl, rfl⟩

theorem toStep_pops_congr (d : ℕ) (v w : Param → ℚ) (h : ∀ p ∈ dtParamList d, v p = w p) :
    (toStep d v).pops = (toStep d w).pops := by
  simp only [toStep]
  apply List.map_congr_left
  intro k hk
  have hk' : k < d := List.mem_range.mp hk
  rw [h _ (mem_dtParamList_nu d k hk'), h _ (mem_dtParamList_gamma d k hk'), h _ (mem_dtParamList_h d k hk')]
  congr 1
  apply List.map_congr_left
  intro l hl
  exact h _ (mem_dtParamList_m d k l hk' hl)

theorem dtParamList_sub (d : ℕ) (p : Param) (hp : p ∈ dtParamList d) : p ∈ paramList d := by
  simp only [dtParamList, paramList, List.mem_append] at hp ⊢
  rcases hp with ((((h | h) | h) | h) | h)
  · left; left; left; left; left; exact h
  · left; left; left; left; right; exact h
  · left; left; left; right; exact h
  · left; left; right; exact h
  · right; exact h

theorem toStep_congr (d : ℕ) (v w : Param → ℚ) (h : ∀ p ∈ paramList d, v p = w p) : toStep d v = toStep d w := by
  have hp := toStep_pops_congr d v w (fun p hp => h p (dtParamList_sub d p hp))
  have ht : v .theta0 = w .theta0 := h _ (mem_paramList_theta0 d)
  have hb : (toStep d v).beta = (toStep d w).beta := by
    simp only [toStep]
    split
    · rename_i hd; subst hd; rw [h _ mem_paramList_beta]
    · rfl
  show (⟨(toStep d v).pops, v .theta0, (toStep d v).beta⟩ : StepParams) = ⟨(toStep d w).pops, w .theta0, (toStep d w).beta⟩
  rw [hp, ht, hb]

/-! ### one pass through the loop body -/
theorem fnBody_pass (sem : PSem σ) (E : PEnv) (d : ℕ) (c n : ℚ) (dt : Option ℚ) (td : ℚ) (v : Param → ℚ) (φ : σ) :
    (expectedFnBody d).foldl (exec sem E) ⟨c, n, dt, td, v, φ⟩
      = (let dt' := stepDt E.tf (toStep d v)
         let td' := thisDt dt' (E.T - c)
         let nt := c + td'
         let v' : Param → ℚ := fun q => if q ∈ paramList d then E.pf q nt else v q
         ⟨nt, nt, dt', td', v', sweepOf sem d (frList d E) (nmList d E) (toStep d v') td' φ⟩) := by
  simp only [expectedFnBody, List.foldl_append, List.foldl_cons, List.foldl_nil]
  rw [exec_dtFromSlots, exec_capToEnd, exec_setNext, foldl_evals, foldl_checks, exec_inject,
    foldl_kernels sem E d false (List.range d) (fun k hk => List.mem_range.mp hk), exec_advance_next]
  simp only [evalT, Option.getD_some]
  rfl

theorem constBody_pass (sem : PSem σ) (E : PEnv) (d : ℕ) (c n : ℚ) (dt : Option ℚ) (td : ℚ) (v : Param → ℚ) (φ : σ) :
    (expectedConstBody d).foldl (exec sem E) ⟨c, n, dt, td, v, φ⟩
      = (let td' := thisDt dt (E.T - c)
         ⟨c + td', n, dt, td', v, sweepOf sem d (frList d E) (nmList d E) (toStep d v) td' φ⟩) := by
  simp only [expectedConstBody, List.foldl_append, List.foldl_cons, List.foldl_nil]
  rw [exec_capToEnd, exec_inject, foldl_kernels sem E d true (List.range d) (fun k hk => List.mem_range.mp hk),
    exec_advance_add]
  rfl

theorem condHolds_whileBelowT (E : PEnv) (s : PSt σ) : condHolds E s whileBelowT = decide (s.cur < E.T) := by
  simp [condHolds, whileBelowT, evalT]

/-! ### whole loops -/
theorem integrateFn_cur_congr {τ : Type} (step : StepParams → ℚ → τ → τ) (tf : ℚ) (Pf : ℚ → StepParams) (T : ℚ) (fuel : ℕ) (t : ℚ)
    (P P' : StepParams) (h : P.pops = P'.pops) (φ : τ) :
    integrateFn step tf Pf T fuel t P φ = integrateFn step tf Pf T fuel t P' φ := by
  cases fuel with
  | zero => rfl
  | succ n => simp only [integrateFn, stepDt, h]

theorem runLoop_fn (sem : PSem σ) (E : PEnv) (d : ℕ) (fuel : ℕ) (s : PSt σ) :
    (runLoop sem E whileBelowT (expectedFnBody d) fuel s).phi
      = integrateFn (sweepOf sem d (frList d E) (nmList d E)) E.tf (fun τ => toStep d (fun p => E.pf p τ)) E.T fuel s.cur
          (toStep d s.vals) s.phi := by
  induction fuel generalizing s with
  | zero => rfl
  | succ m ih =>
    obtain ⟨c, n, dt, td, v, φ⟩ := s
    simp only [runLoop, integrateFn, condHolds_whileBelowT]
    by_cases hc : c < E.T
    · simp only [hc, decide_true, if_true]
      rw [fnBody_pass, ih]
      simp only
      have e : toStep d (fun q => if q ∈ paramList d then E.pf q (c + thisDt (stepDt E.tf (toStep d v)) (E.T - c)) else v q)
          = toStep d (fun p => E.pf p (c + thisDt (stepDt E.tf (toStep d v)) (E.T - c))) :=
        toStep_congr d _ _ (fun p hp => by simp [hp])
      rw [e]
    · simp [hc]

theorem runLoop_const (sem : PSem σ) (E : PEnv) (d : ℕ) (fuel : ℕ) (s : PSt σ) (hdt : s.dt = stepDt E.tf (toStep d s.vals)) :
    (runLoop sem E whileBelowT (expectedConstBody d) fuel s).phi
      = integrateConst (sweepOf sem d (frList d E) (nmList d E)) E.tf (toStep d s.vals) E.T fuel s.cur s.phi := by
  induction fuel generalizing s with
  | zero => rfl
  | succ m ih =>
    obtain ⟨c, n, dt, td, v, φ⟩ := s
    simp only at hdt
    subst hdt
    simp only [runLoop, integrateConst, condHolds_whileBelowT]
    by_cases hc : c < E.T
    · simp only [hc, decide_true, if_true]
      rw [constBody_pass, ih _ rfl]
    · simp [hc]

/-- **time-dependent drivers**: the expected program of a d-population driver, run from `initial_t` on any density, is `integrateFn`
    of the full sweep with the parameter functions of the environment: dt from the current values, every parameter at `next_t`,
    `while t < T` with the clipped last step — any d, any number of steps -/
theorem run_expected_fn (sem : PSem σ) (E : PEnv) (d fuel : ℕ) (vals0 : Param → ℚ) (φ : σ) :
    run sem E (expected d false) fuel vals0 φ
      = integrateFn (sweepOf sem d (frList d E) (nmList d E)) E.tf (fun τ => toStep d (fun p => E.pf p τ)) E.T fuel E.t0
          (toStep d (fun p => E.pf p E.t0)) φ := by
  simp only [run, expected, Bool.false_eq_true, if_false]
  rw [foldl_evals, runLoop_fn]
  simp only [evalT, Option.getD_some]
  apply integrateFn_cur_congr
  apply toStep_pops_congr
  intro p hp
  simp [hp]

/-- **constant-parameter drivers**: dt once from the constants, then `integrateConst` of the full sweep -/
theorem run_expected_const (sem : PSem σ) (E : PEnv) (d fuel : ℕ) (vals0 : Param → ℚ) (φ : σ) :
    run sem E (expected d true) fuel vals0 φ
      = integrateConst (sweepOf sem d (frList d E) (nmList d E)) E.tf (toStep d vals0) E.T fuel E.t0 φ := by
  simp only [run, expected, if_true, List.foldl_append, List.foldl_cons, List.foldl_nil]
  rw [foldl_checks, exec_dtFromSlots, runLoop_const _ _ _ _ _ rfl]

/-! ### the abstract sweep is the model's sweep -/
theorem sweepOf_semFn (grids : List (Array ℚ)) (use : Bool) (eps : ℕ → List ℕ → ℕ → ℚ) (fr nm : List Bool) :
    sweepOf (semFn grids use eps) grids.length fr nm = sweepFn grids fr nm use eps := rfl

theorem sweepOf_semND (grids : List (Array ℚ)) (use : Bool) (eps : ℕ → ND) (fr nm : List Bool) :
    sweepOf (semND grids use eps) grids.length fr nm = sweep grids fr nm use eps := rfl

end Prog
end DadiVerif
