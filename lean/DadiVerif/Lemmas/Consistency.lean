import DadiVerif.Lemmas.Stability
/-!
# Consistency of the scheme with the diffusion operator  ∂φ/∂t = ½ ∂²(Vφ)/∂x² − ∂(Mφ)/∂x

For the line `mkLine` builds from the generated `atemp`/`ctemp` with δ = ½, at every interior node of an arbitrary (non-uniform)
increasing grid the discrete operator  D_j φ = dfactor_j · (F_{j+1} − F_j)  is

    D_j φ = Adv_j φ − Diff_j φ,
    Diff_j φ = [x_{j−1}, x_j, x_{j+1}](Vφ)            (second divided difference of u = Vφ),
    Adv_j φ  = (M_{j+½}(φ_j + φ_{j+1}) − M_{j−½}(φ_{j−1} + φ_j)) / (x_{j+1} − x_{j−1}).

`Diff` is exactly ½u'' when u is a quadratic polynomial at the three nodes; `Adv` is exactly (Mφ)' when M is constant and φ linear,
or M linear and φ constant.  So the local truncation error vanishes on those classes for every grid: the scheme is a consistent
discretisation of the documented operator (second-order on smooth data).  With ℓ¹-stability (`Lemmas/Stability.lean`) these are the
two halves of the Lax argument; the limit itself is not formalised.
-/
namespace DadiVerif
open Gen Finset

/-- second divided difference of the values u0,u1,u2 at x0 < x1 < x2 -/
def divDiff2 (x0 x1 x2 u0 u1 u2 : ℚ) : ℚ := ((u2 - u1) / (x2 - x1) - (u1 - u0) / (x1 - x0)) / (x2 - x0)

theorem divDiff2_quadratic (x0 x1 x2 a b c : ℚ) (h01 : x0 ≠ x1) (h12 : x1 ≠ x2) (h02 : x0 ≠ x2) :
    divDiff2 x0 x1 x2 (a + b*x0 + c*x0^2) (a + b*x1 + c*x1^2) (a + b*x2 + c*x2^2) = c := by
  unfold divDiff2
  have e1 : x2 - x1 ≠ 0 := sub_ne_zero.mpr (Ne.symm h12)
  have e2 : x1 - x0 ≠ 0 := sub_ne_zero.mpr (Ne.symm h01)
  have e3 : x2 - x0 ≠ 0 := sub_ne_zero.mpr (Ne.symm h02)
  field_simp
  ring

/-- the flux through face k of the line `mkLine` builds (same statement as `C02_flux_documented`, kept here so that this file
    does not depend on the C02 property file) -/
theorem mkLine_G (xs : Array ℚ) (V M : ℚ → ℚ) (delj : ℕ → ℚ) (nu dt : ℚ) (z o : Bool)
    (φ : ℕ → ℚ) (k : ℕ) (hk1 : 1 ≤ k) (hk2 : k + 1 ≤ xs.size) :
    (mkLine xs V M delj nu z o dt).G φ k
      = M ((1/2 : ℚ) * (xs.getD k 0 + xs.getD (k-1) 0)) * (delj (k-1) * φ (k-1) + (1 - delj (k-1)) * φ k)
        - (V (xs.getD k 0) * φ k - V (xs.getD (k-1) 0) * φ (k-1)) / (2 * (xs.getD k 0 - xs.getD (k-1) 0)) := by
  obtain ⟨m, rfl⟩ : ∃ m, k = m + 1 := ⟨k - 1, by omega⟩
  simp only [Line.G, mkLine, C.atemp, C.ctemp, Nat.add_sub_cancel]
  rw [if_pos ⟨by omega, by omega⟩]
  ring

/-- **decomposition of the discrete operator** at an interior node, δ = ½, any grid, any V and M -/
theorem mkLine_operator (xs : Array ℚ) (hg : GridOk xs) (V M : ℚ → ℚ) (nu dt : ℚ) (z o : Bool) (φ : ℕ → ℚ)
    (j : ℕ) (hj1 : 1 ≤ j) (hj2 : j + 2 ≤ xs.size) :
    let x : ℕ → ℚ := fun k => xs.getD k 0
    let L := mkLine xs V M (fun _ => 1/2) nu z o dt
    L.df j * (L.G φ (j+1) - L.G φ j)
      = (M ((1/2 : ℚ) * (x (j+1) + x j)) * (φ j + φ (j+1)) - M ((1/2 : ℚ) * (x j + x (j-1))) * (φ (j-1) + φ j)) / (x (j+1) - x (j-1))
        - divDiff2 (x (j-1)) (x j) (x (j+1)) (V (x (j-1)) * φ (j-1)) (V (x j) * φ j) (V (x (j+1)) * φ (j+1)) := by
  intro x L
  obtain ⟨i, rfl⟩ : ∃ i, j = i + 1 := ⟨j - 1, by omega⟩
  have hG1 := mkLine_G xs V M (fun _ => 1/2) nu dt z o φ (i+1+1) (by omega) (by omega)
  have hG0 := mkLine_G xs V M (fun _ => 1/2) nu dt z o φ (i+1) (by omega) (by omega)
  simp only [Nat.add_sub_cancel] at hG1 hG0
  have hdf : L.df (i+1) = 2 / (x (i+2) - x i) := by
    show (mkLine xs V M (fun _ => 1/2) nu z o dt).df (i+1) = _
    unfold Line.df Line.dxL Line.dxR
    rw [if_neg (by omega), if_pos (by show i + 1 + 1 < xs.size; omega)]
    simp only [mkLine, Nat.add_sub_cancel, x]
    congr 1; ring
  have h1 : x i < x (i+1) := hg.2 i (by omega)
  have h2 : x (i+1) < x (i+2) := hg.2 (i+1) (by omega)
  have e1 : x (i+2) - x (i+1) ≠ 0 := ne_of_gt (by linarith)
  have e2 : x (i+1) - x i ≠ 0 := ne_of_gt (by linarith)
  have e3 : x (i+2) - x i ≠ 0 := ne_of_gt (by linarith)
  show L.df (i+1) * (L.G φ (i+1+1) - L.G φ (i+1)) = _
  rw [hdf, hG1, hG0]
  simp only [Nat.add_sub_cancel, divDiff2, x]
  have e1' : xs.getD (i+1+1) 0 - xs.getD (i+1) 0 ≠ 0 := e1
  have e2' : xs.getD (i+1) 0 - xs.getD i 0 ≠ 0 := e2
  have e3' : xs.getD (i+1+1) 0 - xs.getD i 0 ≠ 0 := e3
  field_simp
  ring

/-- advective part, exact for constant M and linear φ: Adv = m·β = (Mφ)' -/
theorem adv_exact_const_lin (x0 x1 x2 m α β : ℚ) (h02 : x0 ≠ x2) :
    (m * ((α + β*x1) + (α + β*x2)) - m * ((α + β*x0) + (α + β*x1))) / (x2 - x0) = m * β := by
  have e : x2 - x0 ≠ 0 := sub_ne_zero.mpr (Ne.symm h02)
  field_simp
  ring

/-- advective part, exact for linear M and constant φ: Adv = m₁·φ = (Mφ)' -/
theorem adv_exact_lin_const (x0 x1 x2 m0 m1 c : ℚ) (h02 : x0 ≠ x2) :
    ((m0 + m1 * ((1/2 : ℚ) * (x2 + x1))) * (c + c) - (m0 + m1 * ((1/2 : ℚ) * (x1 + x0))) * (c + c)) / (x2 - x0) = m1 * c := by
  have e : x2 - x0 ≠ 0 := sub_ne_zero.mpr (Ne.symm h02)
  field_simp
  ring

end DadiVerif
