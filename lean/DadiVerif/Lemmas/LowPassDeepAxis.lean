import DadiVerif.Lemmas.LowPassDeep
/-! C18 helper lemmas, part 10: how far one population's matrices are from the plain projection, in terms of
    prob_het_err `e`, prob_enough `pe` and the smallest depth `D` with positive probability. -/
namespace DadiVerif.LowPass
open Finset

/-! ### the kernel of one axis against the projection matrix -/

/-- Σ_j |pe·H[k,j] − [k = j]| = 1 + pe − 2·pe·H[k,k] for a probability row H[k,·] and 0 ≤ pe ≤ 1 -/
theorem row_dev (pe : ℚ) (hpe0 : 0 ≤ pe) (hpe1 : pe ≤ 1) (H : ℕ → ℚ) (n k : ℕ) (hk : k < n)
    (hH0 : ∀ j, j < n → 0 ≤ H j) (hH1 : ∑ j ∈ range n, H j = 1) :
    ∑ j ∈ range n, |pe * H j - (if j = k then 1 else 0)| = 1 + pe - 2 * pe * H k := by
  have hHk1 : H k ≤ 1 := by
    rw [← hH1]
    exact Finset.single_le_sum (f := H) (fun j hj => hH0 j (by simpa using hj)) (by simpa using hk)
  have hterm : ∀ j ∈ range n, |pe * H j - (if j = k then 1 else 0)|
      = pe * H j + (if j = k then 1 - 2 * pe * H k else 0) := by
    intro j hj
    have h0 := hH0 j (by simpa using hj)
    by_cases hjk : j = k
    · subst hjk
      simp only [if_true]
      have : pe * H j ≤ 1 := by nlinarith [hH0 j (by simpa using hj)]
      rw [abs_of_nonpos (by linarith)]; ring
    · simp only [hjk, if_false, sub_zero, add_zero]
      exact abs_of_nonneg (mul_nonneg hpe0 h0)
  rw [Finset.sum_congr rfl hterm, Finset.sum_add_distrib, ← Finset.mul_sum, hH1,
    Finset.sum_ite_eq' (range n) k (fun _ => 1 - 2 * pe * H k), if_pos (by simpa using hk)]
  ring

/-- ℓ¹ distance of a row of `(pe·P)·H` from the row of `P`: ≤ (1 − pe) + 2η when every H[k,k] ≥ 1 − η -/
theorem kernel_dev (pe : ℚ) (hpe0 : 0 ≤ pe) (hpe1 : pe ≤ 1) (P H : ℕ → ℕ → ℚ) (nsub i : ℕ) (η : ℚ) (hη : 0 ≤ η)
    (hP0 : ∀ k, k < nsub + 1 → 0 ≤ P i k) (hP1 : ∑ k ∈ range (nsub + 1), P i k = 1)
    (hH0 : ∀ k, k < nsub + 1 → ∀ j, j < nsub + 1 → 0 ≤ H k j)
    (hH1 : ∀ k, k < nsub + 1 → ∑ j ∈ range (nsub + 1), H k j = 1)
    (hHd : ∀ k, k < nsub + 1 → 1 - η ≤ H k k) :
    ∑ j ∈ range (nsub + 1), |kernel pe P H nsub i j - P i j| ≤ (1 - pe) + 2 * η := by
  have hdiff : ∀ j ∈ range (nsub + 1), kernel pe P H nsub i j - P i j
      = ∑ k ∈ range (nsub + 1), P i k * (pe * H k j - (if j = k then 1 else 0)) := by
    intro j hj
    rw [kernel_eq]
    have hsel : P i j = ∑ k ∈ range (nsub + 1), P i k * (if j = k then 1 else 0) := by
      rw [Finset.sum_eq_single j]
      · simp
      · intro k _ hkj; rw [if_neg (fun e => hkj e.symm)]; ring
      · intro hn; exact absurd hj hn
    rw [hsel, ← Finset.sum_sub_distrib]
    exact Finset.sum_congr rfl (fun k _ => by ring)
  calc ∑ j ∈ range (nsub + 1), |kernel pe P H nsub i j - P i j|
      ≤ ∑ j ∈ range (nsub + 1), ∑ k ∈ range (nsub + 1), P i k * |pe * H k j - (if j = k then 1 else 0)| := by
        apply Finset.sum_le_sum
        intro j hj
        rw [hdiff j hj]
        calc _ ≤ ∑ k ∈ range (nsub + 1), |P i k * (pe * H k j - (if j = k then 1 else 0))| :=
              Finset.abs_sum_le_sum_abs _ _
          _ = _ := by
            refine Finset.sum_congr rfl (fun k hk => ?_)
            rw [abs_mul, abs_of_nonneg (hP0 k (by simpa using hk))]
    _ = ∑ k ∈ range (nsub + 1), P i k * ∑ j ∈ range (nsub + 1), |pe * H k j - (if j = k then 1 else 0)| := by
        rw [Finset.sum_comm]
        exact Finset.sum_congr rfl (fun k _ => by rw [Finset.mul_sum])
    _ ≤ ∑ k ∈ range (nsub + 1), P i k * ((1 - pe) + 2 * η) := by
        apply Finset.sum_le_sum
        intro k hk
        have hk' : k < nsub + 1 := by simpa using hk
        apply mul_le_mul_of_nonneg_left _ (hP0 k hk')
        rw [row_dev pe hpe0 hpe1 (H k) (nsub + 1) k hk' (hH0 k hk') (hH1 k hk')]
        have := hHd k hk'
        nlinarith
    _ = (1 - pe) + 2 * η := by rw [← Finset.sum_mul, hP1, one_mul]

/-! ### the diagonal of the calling-error matrix -/

/-- a configuration keeps its allele count at least when no heterozygote is miscalled -/
theorem callPart_diag_ge (e : ℚ) (he0 : 0 ≤ e) (he1 : e ≤ 1) (af : ℕ) (g : List ℕ) (pr : ℚ) (hpr : 0 ≤ pr) :
    pr * (1 - e) ^ g.count 1 ≤ callPart e af af g pr := by
  rw [callPart_eq]
  have hinner : ∀ ne ∈ range (g.count 1 + 1), 0 ≤ ∑ nr ∈ range (ne + 1),
      (if Gen.LowPass.afsAfterError (af : ℕ) (ne : ℕ) (nr : ℕ) = ((af : ℕ) : ℤ)
        then pr * binomPmf ne (g.count 1) e * binomPmf nr ne (1 / 2) else 0) := by
    intro ne _
    apply Finset.sum_nonneg; intro nr _
    split_ifs
    · have := binomPmf_nonneg ne (g.count 1) e he0 he1
      have := binomPmf_nonneg nr ne (1 / 2) (by norm_num) (by norm_num)
      positivity
    · exact le_refl _
  have h0 : (0 : ℕ) ∈ range (g.count 1 + 1) := by simp
  refine le_trans ?_ (Finset.single_le_sum hinner h0)
  have hA : Gen.LowPass.afsAfterError ((af : ℕ) : ℤ) ((0 : ℕ) : ℤ) ((0 : ℕ) : ℤ) = ((af : ℕ) : ℤ) := by
    unfold Gen.LowPass.afsAfterError; simp
  simp only [zero_add, Finset.sum_range_one, hA, if_true]
  have hb : binomPmf 0 (g.count 1) e = (1 - e) ^ g.count 1 := by simp [binomPmf, choose_eq]
  have hb2 : binomPmf 0 0 (1 / 2) = 1 := by simp [binomPmf, choose_eq]
  rw [hb, hb2, mul_one]

theorem one_sub_mul_le_pow (e : ℚ) (he0 : 0 ≤ e) (he1 : e ≤ 1) (h : ℕ) : 1 - (h : ℚ) * e ≤ (1 - e) ^ h := by
  induction h with
  | zero => simp
  | succ h ih =>
    have h1 : 0 ≤ 1 - e := by linarith
    have hp : (1 - e) ^ h ≤ 1 := pow_le_one₀ h1 (by linarith)
    rw [pow_succ]
    push_cast
    nlinarith [mul_le_mul_of_nonneg_right ih h1, mul_nonneg (Nat.cast_nonneg (α := ℚ) h) (mul_nonneg he0 he0)]

/-- a mixture of numbers ≥ κ·pr is ≥ κ -/
theorem pw_mixture_ge (x n : ℕ) (hx : x ≤ 2 * n) (F : ℚ) (hF0 : 0 ≤ F) (hF1 : F < 1) (κ : ℚ)
    (f : List ℕ → ℚ → ℚ) (hb : ∀ g ∈ part x n 0 2, ∀ pr : ℚ, 0 ≤ pr → κ * pr ≤ f g pr) :
    κ ≤ lsum ((pw x n F).map fun gp => f gp.1 gp.2) := by
  have h1 : lsum ((pw x n F).map fun gp => κ * gp.2) ≤ lsum ((pw x n F).map fun gp => f gp.1 gp.2) := by
    apply lsum_map_le
    intro gp hgp
    exact hb gp.1 (pw_mem hgp).1 gp.2 (pw_prob_pos x n hx F hF0 hF1 hgp).le
  rw [lsum_map_mul_left (pw x n F) (fun gp => gp.2) κ, pw_sum x n hx F hF0 hF1, mul_one] at h1
  exact h1

/-- a mixture of numbers ≤ κ·pr is ≤ κ -/
theorem pw_mixture_le (x n : ℕ) (hx : x ≤ 2 * n) (F : ℚ) (hF0 : 0 ≤ F) (hF1 : F < 1) (κ : ℚ)
    (f : List ℕ → ℚ → ℚ) (hb : ∀ g ∈ part x n 0 2, ∀ pr : ℚ, 0 ≤ pr → f g pr ≤ κ * pr) :
    lsum ((pw x n F).map fun gp => f gp.1 gp.2) ≤ κ := by
  have h1 : lsum ((pw x n F).map fun gp => f gp.1 gp.2) ≤ lsum ((pw x n F).map fun gp => κ * gp.2) := by
    apply lsum_map_le
    intro gp hgp
    exact hb gp.1 (pw_mem hgp).1 gp.2 (pw_prob_pos x n hx F hF0 hF1 hgp).le
  rw [lsum_map_mul_left (pw x n F) (fun gp => gp.2) κ, pw_sum x n hx F hF0 hF1, mul_one] at h1
  exact h1

/-- the diagonal of `calling_error_matrix`: H[af, af] ≥ 1 − af·e -/
theorem callEntryE_diag_ge (e : ℚ) (he0 : 0 ≤ e) (he1 : e ≤ 1) (m : ℕ) (F : ℚ) (hF0 : 0 ≤ F) (hF1 : F < 1)
    (af : ℕ) (haf : af ≤ 2 * m) : 1 - (af : ℚ) * e ≤ callEntryE e (2 * m) F af af := by
  simp only [callEntryE, half_two_mul]
  apply pw_mixture_ge af m haf F hF0 hF1 (1 - (af : ℚ) * e) (fun g pr => callPart e af af g pr)
  intro g hg pr hpr
  obtain ⟨_, _, _, hx, _⟩ := part_facts hg
  have h1 := callPart_diag_ge e he0 he1 af g pr hpr
  have h2 := one_sub_mul_le_pow e he0 he1 (g.count 1)
  have h3 : ((g.count 1 : ℕ) : ℚ) ≤ (af : ℚ) := by exact_mod_cast (by omega : g.count 1 ≤ af)
  have h4 : (1 - (af : ℚ) * e) ≤ (1 - e) ^ g.count 1 := by nlinarith
  calc (1 - (af : ℚ) * e) * pr ≤ (1 - e) ^ g.count 1 * pr := mul_le_mul_of_nonneg_right h4 hpr
    _ = pr * (1 - e) ^ g.count 1 := by ring
    _ ≤ _ := h1

/-! ### coverage with no mass below depth D -/

/-- no probability mass below depth `D` -/
def DeepCov (D : ℕ) (c : List ℚ) : Prop := ∀ d, d < D → covAt c d = 0

theorem half_pow_le (D d : ℕ) (h : D ≤ d) : ((1 : ℚ) / 2) ^ d ≤ (1 / 2) ^ D :=
  pow_le_pow_of_le_one (by norm_num) (by norm_num) h

/-- d·2^{-d} is non-increasing for d ≥ 1 -/
theorem mul_half_pow_anti (D : ℕ) (hD : 1 ≤ D) (d : ℕ) (h : D ≤ d) :
    (d : ℚ) * (1 / 2) ^ d ≤ (D : ℚ) * (1 / 2) ^ D := by
  induction d, h using Nat.le_induction with
  | base => exact le_refl _
  | succ d hd ih =>
    have hd1 : (1 : ℚ) ≤ (d : ℚ) := by exact_mod_cast (by omega : 1 ≤ d)
    have hp : (0 : ℚ) ≤ (1 / 2) ^ d := by positivity
    rw [pow_succ]
    push_cast
    nlinarith

theorem covA_le_deep (c : List ℚ) (hc : ∀ v ∈ c, 0 ≤ v) (D : ℕ) (hdeep : DeepCov D c) :
    covA c ≤ (1 / 2) ^ D * lsum c := by
  rw [lsum_eq_covAt, covA, Finset.mul_sum]
  apply Finset.sum_le_sum
  intro d _
  have h0 := covAt_nonneg c hc d
  rcases Nat.lt_or_ge d D with hlt | hge
  · rw [hdeep d hlt]; simp
  · have := half_pow_le D d hge
    nlinarith

theorem covB_le_deep (c : List ℚ) (hc : ∀ v ∈ c, 0 ≤ v) (D : ℕ) (hD : 1 ≤ D) (hdeep : DeepCov D c) :
    covB c ≤ (D : ℚ) * (1 / 2) ^ D * lsum c := by
  rw [lsum_eq_covAt, covB, Finset.mul_sum]
  apply Finset.sum_le_sum
  intro d _
  have h0 := covAt_nonneg c hc d
  rcases Nat.lt_or_ge d D with hlt | hge
  · rw [hdeep d hlt]; simp
  · have := mul_half_pow_anti D hD d hge
    have e : (d : ℚ) * covAt c d * (1 / 2) ^ d = covAt c d * ((d : ℚ) * (1 / 2) ^ d) := by ring
    rw [e]
    nlinarith

/-- prob_het_err ≤ 2·2^{-D} -/
theorem hetErr_le_deep (c : List ℚ) (hc : ∀ v ∈ c, 0 ≤ v) (ht : 0 < covTail c) (D : ℕ) (hdeep : DeepCov D c) :
    hetErr c ≤ 2 * (1 / 2) ^ D := by
  rw [hetErr_eq]
  have hle : ∑ k ∈ range (c.length - 1), covAt c (k + 1) / covTail c * (1 / 2) ^ (k + 1)
      ≤ ∑ k ∈ range (c.length - 1), covAt c (k + 1) / covTail c * (1 / 2) ^ D := by
    apply Finset.sum_le_sum
    intro k _
    have h1 : 0 ≤ covAt c (k + 1) / covTail c := div_nonneg (covAt_nonneg c hc (k + 1)) ht.le
    rcases Nat.lt_or_ge (k + 1) D with hlt | hge
    · rw [hdeep (k + 1) hlt]; simp
    · exact mul_le_mul_of_nonneg_left (half_pow_le D (k + 1) hge) h1
  have hs : ∑ k ∈ range (c.length - 1), covAt c (k + 1) / covTail c * (1 / 2) ^ D = (1 / 2) ^ D := by
    rw [← Finset.sum_mul, ← Finset.sum_div, ← covTail_eq, div_self ht.ne', one_mul]
  linarith

/-- the no-call probability of a polymorphic entry: ≤ (1 + af·D)·2^{-D} when no depth below D ≥ 2 has mass -/
theorem nocall_le_deep (c : List ℚ) (hc : ∀ v ∈ c, 0 ≤ v) (hs : lsum c ≤ 1) (D : ℕ) (hD : 2 ≤ D) (hdeep : DeepCov D c)
    (N : ℕ) (F : ℚ) (hF0 : 0 ≤ F) (hF1 : F < 1) (af : ℕ) (haf1 : 1 ≤ af) (haf : af ≤ 2 * N) :
    nocall c (2 * N) F af ≤ (1 + (af : ℚ) * (D : ℚ)) * (1 / 2) ^ D := by
  simp only [nocall, half_two_mul]
  apply pw_mixture_le af N haf F hF0 hF1 _ (fun g pr => nocallPart c af g pr)
  intro g hg pr hpr
  obtain ⟨_, _, _, hx, _⟩ := part_facts hg
  rw [nocallPart_eq]
  have h0 : covAt c 0 = 0 := hdeep 0 (by omega)
  have h1 : covAt c 1 = 0 := hdeep 1 (by omega)
  have hA0 := covA_nonneg c hc
  have hB0 := covB_nonneg c hc
  have hl0 : 0 ≤ lsum c := by
    rw [lsum_eq_covAt]; exact Finset.sum_nonneg (fun d _ => covAt_nonneg c hc d)
  have hpw : (0 : ℚ) ≤ (1 / 2) ^ D := by positivity
  have hA : covA c ≤ (1 / 2) ^ D := by
    have := covA_le_deep c hc D hdeep; nlinarith
  have hB : covB c ≤ (D : ℚ) * (1 / 2) ^ D := by
    have := covB_le_deep c hc D (by omega) hdeep
    have : (0 : ℚ) ≤ (D : ℚ) * (1 / 2) ^ D := by positivity
    nlinarith
  have hA1 : covA c ≤ 1 := le_trans (le_trans (le_add_of_nonneg_right hB0) (covA_add_covB_le c hc)) hs
  rw [h0, h1]
  rcases Nat.eq_zero_or_pos (g.count 2) with ha | ha
  · -- no homozygous-alt individual: all `af` alternative alleles sit in heterozygotes
    have hh : g.count 1 = af := by omega
    have hpos : 0 < g.count 1 := by omega
    rw [ha, hh]
    have hAp : covA c ^ af ≤ covA c := by
      calc covA c ^ af = covA c * covA c ^ (af - 1) := by
              rw [← pow_succ']; congr 1; omega
        _ ≤ covA c * 1 := mul_le_mul_of_nonneg_left (pow_le_one₀ hA0 hA1) hA0
        _ = covA c := mul_one _
    have hAq : covA c ^ (af - 1) ≤ 1 := pow_le_one₀ hA0 hA1
    have hAq0 : 0 ≤ covA c ^ (af - 1) := pow_nonneg hA0 _
    have haf0 : (0 : ℚ) ≤ (af : ℚ) := Nat.cast_nonneg _
    have hbr : covA c ^ af + (af : ℚ) * covB c * covA c ^ (af - 1)
        ≤ (1 / 2) ^ D + (af : ℚ) * ((D : ℚ) * (1 / 2) ^ D) := by
      have h2 : (af : ℚ) * covB c * covA c ^ (af - 1) ≤ (af : ℚ) * covB c * 1 :=
        mul_le_mul_of_nonneg_left hAq (mul_nonneg haf0 hB0)
      have h3 : (af : ℚ) * covB c ≤ (af : ℚ) * ((D : ℚ) * (1 / 2) ^ D) := mul_le_mul_of_nonneg_left hB haf0
      linarith
    have : pr * ((0 : ℚ) ^ 0 * covA c ^ af + ((0 : ℕ) : ℚ) * 0 * 0 ^ (0 - 1) * covA c ^ af
        + (0 : ℚ) ^ 0 * ((af : ℚ) * covB c * covA c ^ (af - 1)))
        = pr * (covA c ^ af + (af : ℚ) * covB c * covA c ^ (af - 1)) := by simp
    rw [this]
    calc pr * (covA c ^ af + (af : ℚ) * covB c * covA c ^ (af - 1))
        ≤ pr * ((1 / 2) ^ D + (af : ℚ) * ((D : ℚ) * (1 / 2) ^ D)) := mul_le_mul_of_nonneg_left hbr hpr
      _ = (1 + (af : ℚ) * (D : ℚ)) * (1 / 2) ^ D * pr := by ring
  · -- a homozygous-alt individual always shows ≥ 2 alternative reads when depths 0 and 1 have no mass
    have hz : (0 : ℚ) ^ g.count 2 = 0 := zero_pow (by omega)
    rw [hz]
    simp only [zero_mul, mul_zero, add_zero]
    have : (0 : ℚ) ≤ (1 + (af : ℚ) * (D : ℚ)) * (1 / 2) ^ D * pr := by positivity
    simpa using this

end DadiVerif.LowPass
