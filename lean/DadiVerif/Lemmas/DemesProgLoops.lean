import DadiVerif.Model.DemesProg
import Mathlib.Data.List.Basic
import Mathlib.Data.List.Induction
import Mathlib.Tactic.Ring
/-! C16 (round 5) — generic facts about the Python loop shapes the translator emits: a loop that appends one value per pass is a `map` /
    `mapM`, a double loop of element assignments builds the matrix of its last writes.  Nothing here mentions a generated definition. -/
namespace DadiVerif.DemesConv

/-- `acc = init; for x in l: acc.append(f(x))` where `f` may raise -/
theorem foldlM_snoc_mapM {α β : Type} (f : α → Option β) (l : List α) (init : List β) :
    l.foldlM (fun acc x => (f x).bind fun v => some (acc ++ [v])) init = (l.mapM f).map (init ++ ·) := by
  induction l generalizing init with
  | nil => simp
  | cons a t ih =>
    rw [List.foldlM_cons, List.mapM_cons]
    cases h : f a with
    | none => rfl
    | some v =>
      simp only [Option.bind_some, bind, ih]
      cases t.mapM f <;> simp [pure]

/-- a loop whose pass either raises or pushes one value onto each of several lists, written with an abstract `push` -/
theorem foldlM_push {α β σ : Type} (f : α → Option β) (push : σ → β → σ) (l : List α) (init : σ) :
    l.foldlM (fun acc x => (f x).bind fun v => some (push acc v)) init = (l.mapM f).map (fun vs => vs.foldl push init) := by
  induction l generalizing init with
  | nil => simp
  | cons a t ih =>
    rw [List.foldlM_cons, List.mapM_cons]
    cases h : f a with
    | none => rfl
    | some v =>
      simp only [Option.bind_some, bind, ih]
      cases t.mapM f <;> simp [pure]

theorem mapM_option_eq_some' {α β : Type} (f : α → Option β) (g : α → β) (l : List α) (h : ∀ x ∈ l, f x = some (g x)) :
    l.mapM f = some (l.map g) := by
  induction l with
  | nil => rfl
  | cons a t ih =>
    rw [List.mapM_cons, h a List.mem_cons_self, ih (fun x hx => h x (List.mem_cons_of_mem _ hx))]
    rfl

theorem mapM_congr_option {α β : Type} (f g : α → Option β) (l : List α) (h : ∀ x ∈ l, f x = g x) : l.mapM f = l.mapM g := by
  induction l with
  | nil => rfl
  | cons a t ih =>
    rw [List.mapM_cons, List.mapM_cons, h a List.mem_cons_self, ih (fun x hx => h x (List.mem_cons_of_mem _ hx))]

/-! ### matrices -/

def matGet (M : List (List ℚ)) (r c : ℕ) : ℚ := (M.getD r []).getD c 0

def matShape (n m : ℕ) (M : List (List ℚ)) : Prop := M.length = n ∧ ∀ row ∈ M, row.length = m

theorem pyZeros_shape (n m : ℕ) : matShape n m (pyZeros n m) := by
  constructor
  · simp [pyZeros]
  · intro row h
    simp only [pyZeros, List.mem_replicate] at h
    simp [h.2]

theorem matGet_zeros (n m r c : ℕ) : matGet (pyZeros n m) r c = 0 := by
  unfold matGet pyZeros
  by_cases hr : r < n
  · simp only [List.getD_eq_getElem?_getD, List.getElem?_replicate, hr, if_true, Option.getD_some]
    by_cases hc : c < m <;> simp [hc]
  · simp [List.getD_eq_getElem?_getD, List.getElem?_replicate, hr]

theorem matSet_shape {n m : ℕ} {M : List (List ℚ)} (h : matShape n m M) (i j : ℕ) (v : ℚ) : matShape n m (matSet M i j v) := by
  unfold matSet
  cases hi : M[i]? with
  | none => exact h
  | some row =>
    constructor
    · simp [h.1]
    · intro r hr
      rcases List.mem_or_eq_of_mem_set hr with h1 | h1
      · exact h.2 r h1
      · rw [h1, List.length_set]
        exact h.2 row (List.mem_of_getElem? hi)

theorem matGet_matSet {n m : ℕ} {M : List (List ℚ)} (h : matShape n m M) (i j : ℕ) (v : ℚ) (hi : i < n) (hj : j < m) (r c : ℕ) :
    matGet (matSet M i j v) r c = if r = i ∧ c = j then v else matGet M r c := by
  unfold matSet matGet
  have hi' : i < M.length := by rw [h.1]; exact hi
  rw [List.getElem?_eq_getElem hi']
  simp only
  have hrow : (M[i]).length = m := h.2 _ (List.getElem_mem hi')
  by_cases hr : r = i
  · subst hr
    simp only [List.getD_eq_getElem?_getD, List.getElem?_set_self hi', Option.getD_some, true_and]
    by_cases hc : c = j
    · subst hc
      simp [List.getElem?_set_self (by rw [hrow]; exact hj)]
    · simp [hc, List.getElem?_set_ne (Ne.symm hc), List.getElem?_eq_getElem hi']
  · simp [hr, List.getD_eq_getElem?_getD, List.getElem?_set_ne (Ne.symm hr)]

/-- a sequence of element assignments at pairwise different in-range positions: every written position holds its value, the others the
    initial one -/
theorem matGet_foldl_writes {n m : ℕ} (ws : List (ℕ × ℕ × ℚ)) (M : List (List ℚ)) (h : matShape n m M)
    (hin : ∀ w ∈ ws, w.1 < n ∧ w.2.1 < m) (hnd : (ws.map fun w => (w.1, w.2.1)).Nodup) (r c : ℕ) :
    matShape n m (ws.foldl (fun M w => matSet M w.1 w.2.1 w.2.2) M)
    ∧ matGet (ws.foldl (fun M w => matSet M w.1 w.2.1 w.2.2) M) r c
      = match ws.find? (fun w => decide (w.1 = r ∧ w.2.1 = c)) with
        | some w => w.2.2
        | none => matGet M r c := by
  induction ws generalizing M with
  | nil => exact ⟨h, rfl⟩
  | cons w t ih =>
    simp only [List.map_cons, List.nodup_cons] at hnd
    have hw := hin w List.mem_cons_self
    have h' := matSet_shape h w.1 w.2.1 w.2.2
    obtain ⟨s1, s2⟩ := ih (matSet M w.1 w.2.1 w.2.2) h' (fun x hx => hin x (List.mem_cons_of_mem _ hx)) hnd.2
    refine ⟨s1, ?_⟩
    rw [List.foldl_cons, s2, List.find?_cons]
    by_cases hpos : w.1 = r ∧ w.2.1 = c
    · have hnone : t.find? (fun w => decide (w.1 = r ∧ w.2.1 = c)) = none := by
        rw [List.find?_eq_none]
        intro x hx hd
        simp only [decide_eq_true_eq] at hd
        apply hnd.1
        rw [List.mem_map]
        exact ⟨x, hx, by rw [hd.1, hd.2, hpos.1, hpos.2]⟩
      rw [hnone]
      have e := matGet_matSet h w.1 w.2.1 w.2.2 hw.1 hw.2 r c
      simp only [hpos, and_self, decide_true]
      rw [hpos.1, hpos.2] at e
      simpa using e
    · simp only [hpos, decide_false]
      cases hf : t.find? (fun w => decide (w.1 = r ∧ w.2.1 = c)) with
      | some x => rfl
      | none =>
        simp only
        rw [matGet_matSet h _ _ _ hw.1 hw.2]
        have : ¬ (r = w.1 ∧ c = w.2.1) := fun hh => hpos ⟨hh.1.symm, hh.2.symm⟩
        simp [this]

theorem mat_ext {n m : ℕ} {A B : List (List ℚ)} (hA : matShape n m A) (hB : matShape n m B)
    (h : ∀ r < n, ∀ c < m, matGet A r c = matGet B r c) : A = B := by
  apply List.ext_getElem (by rw [hA.1, hB.1])
  intro r h1 h2
  have hr : r < n := by rw [← hA.1]; exact h1
  apply List.ext_getElem (by rw [hA.2 _ (List.getElem_mem h1), hB.2 _ (List.getElem_mem h2)])
  intro c h3 h4
  have hc : c < m := by rw [← hA.2 _ (List.getElem_mem h1)]; exact h3
  have := h r hr c hc
  simpa [matGet, List.getD_eq_getElem?_getD, List.getElem?_eq_getElem h1, List.getElem?_eq_getElem h2, List.getElem?_eq_getElem h3,
    List.getElem?_eq_getElem h4] using this

/-! ### the double loop `for ii, a in enumerate(L): for jj, b in enumerate(L): if a != b: M[jj, ii] = v(a, b)` -/

theorem pyEnumerate_eq {α : Type} (L : List α) : pyEnumerate L = (L.zipIdx 0).map fun p => (p.2, p.1) := rfl

/-- inner loop over the rows `k, k+1, …` (names `Ls`) for the column `ii` of the source `a` -/
theorem innerLoop_spec {α : Type} [DecidableEq α] {n : ℕ} (v : α → α → ℚ) (a : α) (ii : ℕ) (hii : ii < n) (Ls : List α) (k : ℕ)
    (hk : k + Ls.length ≤ n) (M : List (List ℚ)) (hM : matShape n n M) :
    matShape n n (((Ls.zipIdx k).map fun p => (p.2, p.1)).foldl (fun M (p10 : ℕ × α) => if a != p10.2 then matSet M p10.1 ii (v a p10.2) else M) M)
    ∧ ∀ r c, matGet (((Ls.zipIdx k).map fun p => (p.2, p.1)).foldl (fun M (p10 : ℕ × α) => if a != p10.2 then matSet M p10.1 ii (v a p10.2) else M) M) r c
        = if c = ii ∧ k ≤ r ∧ r < k + Ls.length ∧ a ≠ Ls.getD (r - k) a then v a (Ls.getD (r - k) a) else matGet M r c := by
  induction Ls generalizing k M with
  | nil =>
    refine ⟨hM, ?_⟩
    intro r c
    have : ¬ (c = ii ∧ k ≤ r ∧ r < k + ([] : List α).length ∧ a ≠ ([] : List α).getD (r - k) a) := by
      simp only [List.length_nil, Nat.add_zero]; omega
    simp only [this, if_false]
    rfl
  | cons b t ih =>
    simp only [List.length_cons] at hk
    have hkn : k < n := by omega
    simp only [List.zipIdx_cons, List.map_cons, List.foldl_cons]
    have hM1 : matShape n n (if a != b then matSet M k ii (v a b) else M) := by
      split_ifs
      · exact matSet_shape hM _ _ _
      · exact hM
    obtain ⟨s1, s2⟩ := ih (k + 1) (by omega) _ hM1
    refine ⟨s1, ?_⟩
    intro r c
    rw [s2]
    have hget : matGet (if a != b then matSet M k ii (v a b) else M) r c = if a ≠ b ∧ r = k ∧ c = ii then v a b else matGet M r c := by
      by_cases hab : a = b
      · simp [hab]
      · have : (a != b) = true := by simpa using hab
        simp only [this, if_true, matGet_matSet hM k ii (v a b) hkn hii r c, hab, ne_eq, not_false_eq_true, true_and]
    rw [hget]
    by_cases hrk : r = k
    · subst hrk
      have h1 : ¬ (c = ii ∧ r + 1 ≤ r ∧ r < r + 1 + t.length ∧ a ≠ t.getD (r - (r + 1)) a) := by omega
      simp only [h1, if_false, Nat.sub_self, List.getD_cons_zero, List.length_cons]
      by_cases hc : c = ii <;> by_cases hab : a = b <;> simp [hc, hab]
    · by_cases hlt : r < k
      · have h1 : ¬ (c = ii ∧ k + 1 ≤ r ∧ r < k + 1 + t.length ∧ a ≠ t.getD (r - (k + 1)) a) := by omega
        have h2 : ¬ (c = ii ∧ k ≤ r ∧ r < k + (b :: t).length ∧ a ≠ (b :: t).getD (r - k) a) := by omega
        have h3 : ¬ (a ≠ b ∧ r = k ∧ c = ii) := by omega
        simp only [h1, h2, h3, if_false]
      · have hgt : k + 1 ≤ r := by omega
        have e : (b :: t).getD (r - k) a = t.getD (r - (k + 1)) a := by
          have : r - k = (r - (k + 1)) + 1 := by omega
          rw [this, List.getD_cons_succ]
        have h3 : ¬ (a ≠ b ∧ r = k ∧ c = ii) := by omega
        simp only [h3, if_false, e, List.length_cons]
        have : (k + 1 ≤ r ∧ r < k + 1 + t.length) ↔ (k ≤ r ∧ r < k + (t.length + 1)) := by omega
        by_cases hc : c = ii
        · simp only [hc, true_and]
          by_cases hx : k + 1 ≤ r ∧ r < k + 1 + t.length
          · have hy := this.1 hx
            simp only [hx.1, hx.2, hy.1, hy.2, true_and]
          · have hy : ¬ (k ≤ r ∧ r < k + (t.length + 1)) := fun h => hx (this.2 h)
            have hx' : ¬ (k + 1 ≤ r ∧ r < k + 1 + t.length ∧ a ≠ t.getD (r - (k + 1)) a) := fun h => hx ⟨h.1, h.2.1⟩
            have hy' : ¬ (k ≤ r ∧ r < k + (t.length + 1) ∧ a ≠ t.getD (r - (k + 1)) a) := fun h => hy ⟨h.1, h.2.1⟩
            simp only [hx', hy', if_false]
        · simp [hc]

/-- the double loop builds the matrix `M[r][c] = v(L[c], L[r])` for different names, 0 elsewhere -/
theorem matLoop_eq {α : Type} [DecidableEq α] (v : α → α → ℚ) (L : List α) :
    (pyEnumerate L).foldl (fun M (p9 : ℕ × α) => (pyEnumerate L).foldl (fun M (p10 : ℕ × α) =>
        if p9.2 != p10.2 then matSet M p10.1 p9.1 (v p9.2 p10.2) else M) M) (pyZeros L.length L.length)
      = L.map fun rowD => L.map fun colD => if rowD == colD then 0 else v colD rowD := by
  -- the outer loop over the columns `k, k+1, …` (sources `Ls`)
  have outer : ∀ (Ls : List α) (k : ℕ), k + Ls.length ≤ L.length → ∀ (M : List (List ℚ)), matShape L.length L.length M →
      matShape L.length L.length (((Ls.zipIdx k).map fun p => (p.2, p.1)).foldl (fun M (p9 : ℕ × α) => (pyEnumerate L).foldl (fun M (p10 : ℕ × α) =>
        if p9.2 != p10.2 then matSet M p10.1 p9.1 (v p9.2 p10.2) else M) M) M)
      ∧ ∀ r c, matGet (((Ls.zipIdx k).map fun p => (p.2, p.1)).foldl (fun M (p9 : ℕ × α) => (pyEnumerate L).foldl (fun M (p10 : ℕ × α) =>
        if p9.2 != p10.2 then matSet M p10.1 p9.1 (v p9.2 p10.2) else M) M) M) r c
          = match Ls[c - k]? with
            | some a => if k ≤ c ∧ r < L.length ∧ a ≠ L.getD r a then v a (L.getD r a) else matGet M r c
            | none => matGet M r c := by
    intro Ls
    induction Ls with
    | nil => intro k _ M hM; exact ⟨hM, fun r c => by simp⟩
    | cons a t ih =>
      intro k hk M hM
      simp only [List.length_cons] at hk
      simp only [List.zipIdx_cons, List.map_cons, List.foldl_cons]
      obtain ⟨i1, i2⟩ := innerLoop_spec (n := L.length) v a k (by omega) L 0 (by omega) M hM
      rw [← pyEnumerate_eq] at i1 i2
      obtain ⟨s1, s2⟩ := ih (k + 1) (by omega) _ i1
      refine ⟨s1, ?_⟩
      intro r c
      rw [s2, i2]
      simp only [Nat.sub_zero, Nat.zero_add, Nat.zero_le, true_and]
      by_cases hck : c = k
      · subst hck
        have : c - (c + 1) = 0 := by omega
        simp only [this, Nat.sub_self, List.getElem?_cons_zero, Nat.le_refl, true_and]
        cases t[0]? with
        | none => rfl
        | some a' =>
          have : ¬ (c + 1 ≤ c ∧ r < L.length ∧ a' ≠ L.getD r a') := by omega
          simp only [this, if_false]
      · by_cases hlt : c < k
        · have e1 : c - (k + 1) = 0 := by omega
          have e2 : c - k = 0 := by omega
          simp only [e1, e2, List.getElem?_cons_zero]
          have h3 : ¬ (c = k ∧ r < L.length ∧ a ≠ L.getD r a) := by omega
          have h4 : ¬ (k ≤ c ∧ r < L.length ∧ a ≠ L.getD r a) := by omega
          cases t[0]? with
          | none => simp only [h3, h4, if_false]
          | some a' =>
            have : ¬ (k + 1 ≤ c ∧ r < L.length ∧ a' ≠ L.getD r a') := by omega
            simp only [this, h3, h4, if_false]
        · have e : c - k = (c - (k + 1)) + 1 := by omega
          rw [e, List.getElem?_cons_succ]
          have h3 : ¬ (c = k ∧ r < L.length ∧ a ≠ L.getD r a) := by omega
          simp only [h3, if_false]
          cases t[c - (k + 1)]? with
          | none => rfl
          | some a' =>
            have : (k + 1 ≤ c) ↔ (k ≤ c) := by omega
            simp only [this]
  obtain ⟨s1, s2⟩ := outer L 0 (by omega) (pyZeros L.length L.length) (pyZeros_shape _ _)
  rw [← pyEnumerate_eq] at s1 s2
  have tshape : matShape L.length L.length (L.map fun rowD => L.map fun colD => if rowD == colD then (0 : ℚ) else v colD rowD) := by
    constructor
    · simp
    · intro row h
      rw [List.mem_map] at h
      obtain ⟨x, _, rfl⟩ := h
      simp
  apply mat_ext s1 tshape
  intro r hr c hc
  rw [s2, matGet_zeros]
  simp only [Nat.sub_zero, Nat.zero_le, true_and, hr, List.getElem?_eq_getElem hc]
  simp only [matGet, List.getD_eq_getElem?_getD, List.getElem?_map, List.getElem?_eq_getElem hr, List.getElem?_eq_getElem hc, Option.map_some,
    Option.getD_some]
  by_cases h : L[r] = L[c]
  · simp [h]
  · have h' : ¬ L[c] = L[r] := fun e => h e.symm
    simp [h, h']

end DadiVerif.DemesConv
