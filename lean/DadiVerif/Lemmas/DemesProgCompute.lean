import DadiVerif.Lemmas.DemesProgEvents
import DadiVerif.Lemmas.DemesProgParams
import DadiVerif.Lemmas.DemesProgGraph
/-! C16 (round 5) — the loop of `_compute_sfs` and the tail of `SFS`: the reference programs read the two dicts only through `d[k]` and
    `sorted(d.keys())[::-1]`; with those reads given by `Lemmas/DemesProgGraph.lean` the whole import is a function of the hand-written
    `demesPresent`, `demoEvents`, `paramRow` (closed form `importCF`). -/
namespace DadiVerif.DemesConv
open Gen.Demes

/-- `if T > 0: … phi = _integrate_phi(phi, xx, integration_params, pop_ids)` -/
def stepIntegrate {ν : Type} (θ γ η : ℚ) (phi0 : Trace ν) (pop_ids : List DName) (p35 : ℚ × List ν × List (List ℚ) × List Bool × ETime × ETime) :
    Option (Trace ν) :=
  (if (decide (p35.1 > (0 : ℚ))) then (do
      let t39 : Trace ν ← integratePhiRef phi0
          { nu := p35.2.1, T := p35.1, M := p35.2.2.1, gamma := List.map (fun (_ : Bool) => γ) p35.2.2.2.1,
            h := List.map (fun (_ : Bool) => η) p35.2.2.2.1, theta := θ, frozen := p35.2.2.2.1 } pop_ids
      pure t39) else (do
      pure phi0))

/-- `for event in events: phi, pop_ids = _apply_event(…)` -/
def stepEvents {ν : Type} (events : List DEvt) (init : (Trace ν) × (List DName)) : Option ((Trace ν) × (List DName)) :=
  events.foldlM (fun (acc40 : (Trace ν) × (List DName)) (event : DEvt) => do
      let t41 : (Trace ν) × (List DName) ← (applyEventSpec acc40.2 event).map fun r => (acc40.1 ++ r.1, r.2)
      pure (t41.1, t41.2)) init

/-- `if interval[1] > 0: …` — the reordering to the deme order of the interval that starts where this one ends -/
def stepReorder {ν : Type} (liveAt : ETime × ETime → List DName) (ivs : List (ETime × ETime)) (t : ETime) (r42 : (Trace ν) × (List DName)) :
    Option ((Trace ν) × (List DName)) :=
  (if (tgt t (some (0 : ℚ))) then (do
      let t44 : Nat ← pyIndex (ivs.map fun (x43 : ETime × ETime) => x43.1) t
      let t45 : ETime × ETime ← ivs[t44]?
      let r49 : (Trace ν) × (List DName) ← (if (r42.2 != liveAt t45) then (do
          let t48 : List Nat ← ((liveAt t45).mapM fun (x46 : DName) => do
                let t47 : Nat ← pyIndex r42.2 x46
                pure (t47 + 1))
          pure (r42.1 ++ [PCall.reorder t48], liveAt t45)) else (do
          pure (r42.1, r42.2)))
      pure (r49.1, r49.2)) else (do
      pure (r42.1, r42.2)))

/-- one pass of the loop of `_compute_sfs` on the state `(pop_ids, phi)`: `evAt t` = `demo_events[t]`, `liveAt iv` = `demes_present[iv]`,
    `ivs` = `integration_intervals`; the row is `(T, nu, M, frozen, interval)` -/
def cfStep {ν : Type} (evAt : ETime → List DEvt) (liveAt : ETime × ETime → List DName) (ivs : List (ETime × ETime)) (θ γ η : ℚ)
    (acc36 : List DName × Trace ν) (p35 : ℚ × List ν × List (List ℚ) × List Bool × ETime × ETime) : Option (List DName × Trace ν) := do
  let pop_ids : List DName := (if (acc36.1 == []) then liveAt p35.2.2.2.2 else acc36.1)
  let phi : Trace ν ← stepIntegrate θ γ η acc36.2 pop_ids p35
  let r42 : (Trace ν) × (List DName) ← stepEvents (evAt p35.2.2.2.2.2) (phi, pop_ids)
  let r50 : (Trace ν) × (List DName) ← stepReorder liveAt ivs p35.2.2.2.2.2 r42
  pure (r50.2, r50.1)

theorem stepIntegrate_eq {ν : Type} (θ γ η : ℚ) (phi0 : Trace ν) (pop_ids : List DName) (p35 : ℚ × List ν × List (List ℚ) × List Bool × ETime × ETime) :
    stepIntegrate θ γ η phi0 pop_ids p35 = if p35.1 > 0 then integratePhiRef phi0
          { nu := p35.2.1, T := p35.1, M := p35.2.2.1, gamma := List.map (fun (_ : Bool) => γ) p35.2.2.2.1,
            h := List.map (fun (_ : Bool) => η) p35.2.2.2.1, theta := θ, frozen := p35.2.2.2.1 } pop_ids else some phi0 := by
  unfold stepIntegrate
  by_cases h : p35.1 > 0
  · simp only [h, decide_true, if_true, bind_pure]
  · simp only [h, decide_false, Bool.false_eq_true, if_false]
    rfl

theorem stepEvents_nil {ν : Type} (init : Trace ν × List DName) : stepEvents [] init = some init := rfl

theorem stepEvents_cons {ν : Type} (e : DEvt) (t : List DEvt) (init : Trace ν × List DName) :
    stepEvents (e :: t) init = (applyEventSpec init.2 e).bind fun r => stepEvents t (init.1 ++ r.1, r.2) := by
  unfold stepEvents
  rw [List.foldlM_cons]
  cases applyEventSpec (ν := ν) init.2 e <;> rfl

theorem stepReorder_eq {ν : Type} (liveAt : ETime × ETime → List DName) (ivs : List (ETime × ETime)) (t : ETime) (r42 : (Trace ν) × (List DName)) :
    stepReorder liveAt ivs t r42 = if tgt t (some 0) = true then
        (pyIndex (ivs.map fun x43 => x43.1) t).bind fun t44 => (ivs[t44]?).bind fun t45 =>
          if (r42.2 != liveAt t45) = true then ((liveAt t45).mapM fun x46 => (pyIndex r42.2 x46).map (· + 1)).map fun t48 => (r42.1 ++ [PCall.reorder t48], liveAt t45)
          else some r42
      else some r42 := by
  unfold stepReorder
  have hm : ∀ iv : ETime × ETime, ((liveAt iv).mapM fun (x46 : DName) => (do
        let t47 : Nat ← pyIndex r42.2 x46
        pure (t47 + 1) : Option ℕ)) = (liveAt iv).mapM fun x46 => (pyIndex r42.2 x46).map (· + 1) := by
    intro iv
    apply mapM_congr_option
    intro x _
    cases pyIndex r42.2 x <;> rfl
  simp only [hm]
  by_cases h1 : tgt t (some 0) = true
  · simp only [h1, if_true]
    cases pyIndex (ivs.map fun x43 => x43.1) t with
    | none => rfl
    | some i =>
      simp only [bind, Option.bind]
      cases ivs[i]? with
      | none => rfl
      | some iv =>
        simp only
        by_cases h2 : (r42.2 != liveAt iv) = true
        · simp only [h2, if_true]
          cases (liveAt iv).mapM fun x46 => (pyIndex r42.2 x46).map (· + 1) <;> rfl
        · simp only [h2, if_false]
          rfl
  · simp only [h1, if_false]
    rfl

theorem cfStep_eq {ν : Type} (evAt : ETime → List DEvt) (liveAt : ETime × ETime → List DName) (ivs : List (ETime × ETime)) (θ γ η : ℚ)
    (acc36 : List DName × Trace ν) (p35 : ℚ × List ν × List (List ℚ) × List Bool × ETime × ETime) :
    cfStep evAt liveAt ivs θ γ η acc36 p35
      = (stepIntegrate θ γ η acc36.2 (if (acc36.1 == []) then liveAt p35.2.2.2.2 else acc36.1) p35).bind fun phi =>
        (stepEvents (evAt p35.2.2.2.2.2) (phi, if (acc36.1 == []) then liveAt p35.2.2.2.2 else acc36.1)).bind fun r42 =>
        (stepReorder liveAt ivs p35.2.2.2.2.2 r42).bind fun r50 => some (r50.2, r50.1) := rfl

/-- `_compute_sfs` with the reads of the two dicts abstracted -/
def computeCF {ν : Type} (evAt : ETime → List DEvt) (liveAt : ETime × ETime → List DName) (ivs : List (ETime × ETime))
    (nus : List (List ν)) (Ms : List (List (List ℚ))) (Ts : List ℚ) (frs : List (List Bool)) (θ γ η : ℚ) : Option (Trace ν × List DName) := do
  let t31 ← ivs[0]?
  let t32 ← (liveAt t31)[0]?
  let t33 ← nus[0]?
  let t34 ← t33[0]?
  let r51 ← List.foldlM (cfStep evAt liveAt ivs θ γ η) ([], [PCall.phi1D (some t34) θ γ η [t32]]) (pyZip5 Ts nus Ms frs ivs)
  pure (r51.2, r51.1)

theorem computeCF_eq {ν : Type} (evAt : ETime → List DEvt) (liveAt : ETime × ETime → List DName) (ivs : List (ETime × ETime))
    (nus : List (List ν)) (Ms : List (List (List ℚ))) (Ts : List ℚ) (frs : List (List Bool)) (θ γ η : ℚ) :
    computeCF evAt liveAt ivs nus Ms Ts frs θ γ η
      = (ivs[0]?).bind fun t31 => ((liveAt t31)[0]?).bind fun t32 => (nus[0]?).bind fun t33 => (t33[0]?).bind fun t34 =>
        (List.foldlM (cfStep evAt liveAt ivs θ γ η) ([], [PCall.phi1D (some t34) θ γ η [t32]]) (pyZip5 Ts nus Ms frs ivs)).bind fun r51 => some (r51.2, r51.1) := rfl

def optD (o : Option ℚ) (d : ℚ) : ℚ := match o with | none => d | some v => v

theorem computeSfsRef_eq {ν : Type} (evD : PyDD ETime DEvt) (dp : PyDD (ETime × ETime) DName) (nus : List (List ν)) (Ms : List (List (List ℚ)))
    (Ts : List ℚ) (frs : List (List Bool)) (θ : ℚ) (γ η : Option ℚ) :
    computeSfsRef evD dp nus Ms Ts frs θ γ η
      = computeCF (ddGet evD) (ddGet dp) (pySortedKeysDesc (ddKeys dp)) nus Ms Ts frs θ (optD γ 0) (optD η (1 / 2)) := by
  unfold computeSfsRef computeCF
  dsimp only
  simp only [applyEventRef_eq]
  cases γ <;> cases η <;>
  · refine bind_congr fun t31 => bind_congr fun t32 => bind_congr fun t33 => bind_congr fun t34 => ?_
    unfold optD
    dsimp only
    congr 2
    funext acc36 p35
    unfold cfStep stepIntegrate stepEvents stepReorder
    by_cases hT : p35.1 > 0
    · simp only [hT, decide_true, if_true]
      generalize integratePhiRef _ _ _ = X
      cases X <;> rfl
    · simp only [hT, decide_false, Bool.false_eq_true, if_false]

/-! ### the tail of `SFS` -/

/-- `demes_present[iv]` in terms of the graph -/
def liveNames (g : Graph InEpoch) (iv : ETime × ETime) : List DName :=
  if iv ∈ intervals g then (liveIn g iv.1 iv.2).map (·.name) else []

/-- `sorted(demes_present.items())[::-1]` in terms of the graph -/
def presItems (g : Graph InEpoch) : List ((ETime × ETime) × List DName) := (demesPresent g).map fun p => (p.1, p.2.map (·.name))

/-- **closed form of the import** (the tail of `SFS`): the history of `phi` as a function of the hand-written `demesPresent`, `demoEvents`,
    `paramRow` (= `plan` row + size closures), `applyEventSpec`, and the generated call table of `_integrate_phi` -/
def importCF (g : Graph InEpoch) (lib : LibEvents) (sp fz : List DName) (Ne : Option ℚ) (θ : ℚ) (γ η : Option ℚ) : Option (Trace NuEntry) :=
  if !((g.demes.any fun d => decide (d.start = none)) && ((g.demes.filter fun d => decide (d.start = none)).length == 1)) then none else
  if (presItems g).any (fun p => decide (p.2.length > 5)) then none else
  (neOf g Ne).bind fun N => ((presItems g).mapM (paramRow g fz N)).bind fun rows =>
  (computeCF (eventsAt (demoEvents g lib.toList sp)) (liveNames g) ((demesPresent g).map (·.1))
      (rows.map (·.2.2.1)) (rows.map (·.2.2.2)) (rows.map (·.1)) (rows.map (·.2.1)) θ (optD γ 0) (optD η (1 / 2))).bind fun r =>
  (sp.mapM fun x => (pyIndex r.2 x).map (· + 1)).map fun order => r.1 ++ [PCall.reorder order] ++ [PCall.fromPhi sp]

theorem raiseLoop_eq {α : Type} (c : α → Bool) (l : List α) :
    List.foldlM (fun (_ : Unit) (p : α) => (do
        pyRaiseIf (c p)
        pure () : Option Unit)) () l = if l.any c then none else some () := by
  induction l with
  | nil => rfl
  | cons a t ih =>
    rw [List.foldlM_cons]
    cases h : c a
    · simp only [pyRaiseIf, Bool.false_eq_true, if_false, List.any_cons, h, Bool.false_or]
      exact ih
    · simp [pyRaiseIf, h, bind, Option.bind]

theorem any_perm {α : Type} (c : α → Bool) {l l' : List α} (h : l.Perm l') : l.any c = l'.any c := by
  rw [Bool.eq_iff_iff, List.any_eq_true, List.any_eq_true]
  exact ⟨fun ⟨x, hx, hc⟩ => ⟨x, h.subset hx, hc⟩, fun ⟨x, hx, hc⟩ => ⟨x, h.symm.subset hx, hc⟩⟩

/-- **the tail of `SFS` is `importCF`** (deme names distinct) -/
theorem sfsImportRef_eq (hpres : ∀ s e i0 i1 : ETime, demePresent s e i0 i1 = (tge s i0 && tle e i1))
    (hmarg : ∀ (sp : List DName) (d : DName) (e : ETime) (ss : List ETime),
      marginalizeCond sp d e ss = ((!sp.contains d) && ((ss.length == 0) || (ss.all fun s => (!tle s e)))))
    (hrow : migRowIsDest = true) (hentry : ∀ Ne m : ℚ, migEntry Ne m = (2 * Ne) * m)
    (g : Graph InEpoch) (hnd : (g.demes.map (·.name)).Nodup) (lib : LibEvents) (sp fz : List DName) (Ne : Option ℚ) (θ : ℚ) (γ η : Option ℚ) :
    sfsImportRef lib g sp fz Ne θ γ η = importCF g lib sp fz Ne θ γ η := by
  obtain ⟨h1, h2, h3, h4, h5⟩ := getDemographicEventsRef_spec hpres hmarg g hnd lib sp
  unfold sfsImportRef importCF
  dsimp only
  rw [h1]
  by_cases hroot : ((g.demes.any fun d => decide (d.start = none)) && ((g.demes.filter fun d => decide (d.start = none)).length == 1)) = true
  · simp only [hroot, if_true, Bool.not_true, Bool.false_eq_true, if_false]
    rw [show ∀ {α β : Type} (a : α) (f : α → Option β), (some a >>= f) = f a from fun _ _ => rfl]
    dsimp only
    rw [raiseLoop_eq (fun p53 : (ETime × ETime) × List DName => decide (p53.2.length > 5)) (presOf g)]
    have hany : (presOf g).any (fun p53 => decide (p53.2.length > 5)) = (presItems g).any (fun p => decide (p.2.length > 5)) := by
      unfold presItems
      rw [← h3]
      exact any_perm _ (perm_sortDescBy _ _).symm
    rw [hany]
    by_cases h5' : (presItems g).any (fun p => decide (p.2.length > 5)) = true
    · simp [h5', bind, Option.bind]
    · simp only [h5', Bool.false_eq_true, if_false]
      rw [show ∀ {β : Type} (f : Unit → Option β), (some () >>= f) = f () from fun _ => rfl]
      rw [getIntegrationParametersRef_eq hrow hentry, h3]
      have hev : ddGet (evOf g lib sp) = eventsAt (demoEvents g lib.toList sp) := funext h2
      have hlive : ddGet (presOf g) = liveNames g := funext h5
      simp only [computeSfsRef_eq, hev, hlive, h4]
      unfold presItems
      cases neOf g Ne with
      | none => rfl
      | some N =>
        simp only [Option.bind_some]
        cases (List.map (fun p => (p.1, List.map (fun x => x.name) p.2)) (demesPresent g)).mapM (paramRow g fz N) with
        | none => rfl
        | some rows =>
          simp only [Option.map_some, Option.bind_some]
          rw [show ∀ {α β : Type} (a : α) (f : α → Option β), (some a >>= f) = f a from fun _ _ => rfl]
          dsimp only
          generalize computeCF _ _ _ _ _ _ _ θ (optD γ 0) (optD η (1 / 2)) = R
          cases R with
          | none => rfl
          | some r =>
            rw [show ∀ {α β : Type} (a : α) (f : α → Option β), (some a >>= f) = f a from fun _ _ => rfl]
            simp only [Option.bind_some]
            have hm : (sp.mapM fun (x56 : DName) => (do
                  let t57 ← pyIndex r.2 x56
                  pure (t57 + 1) : Option ℕ)) = sp.mapM fun x => (pyIndex r.2 x).map (· + 1) := by
              apply mapM_congr_option
              intro x _
              cases pyIndex r.2 x <;> rfl
            rw [hm]
            cases (sp.mapM fun x => (pyIndex r.2 x).map (· + 1)) <;> rfl
  · have : ((g.demes.any fun d => decide (d.start = none)) && ((g.demes.filter fun d => decide (d.start = none)).length == 1)) = false := by
      simpa using hroot
    simp [this, bind, Option.bind]

end DadiVerif.DemesConv
