import DadiVerif.Lemmas.FromPhiLimitConv
/-! C05, round 5 — from the sampling factor to the spectrum: the inbreeding path against the direct (binomial) path,
    entry by entry, in 1–3 dimensions.

* `inbAlpha_eq_xeff`: the generated beta-binomial parameters are α = x̃·(1−F)/F, β = (1−x̃)·(1−F)/F with x̃ the node, except
  that the first and the last node are replaced by 1e-20 and 1 − 1e-20 (the end-point patch of the code);
* `inbWeight_sub_limit`: |factor(F) − binomial(x̃)| ≤ `inbLimitConst m P`·F/(1−F) for 0 < F < 1;
* `inbWeight_zero`: for F = 0 the factor *is* the binomial factor of the direct path (the `F == 0` branch of the source);
* `sampleND_sub_le`: d-dimensional perturbation bound for trapezoid-weight operators whose weights lie in [−1,1];
* `inbOps_sub_directOps`: the entry-wise bound between `from_phi_inbreeding` and `from_phi(force_direct=True)`. -/
namespace DadiVerif.FromPhi
open Finset Gen.FromPhi

/-! ### the beta-binomial parameters the code passes -/

/-- the allele frequency the inbreeding functions use at node k: first node 1e-20, last node 1 − 1e-20, else the node -/
def inbXeff (N : ℕ) (x : ℕ → ℚ) (k : ℕ) : ℚ :=
  if k + 1 = N then 1 - 1 / 100000000000000000000 else if k = 0 then 1 / 100000000000000000000 else x k

theorem inbAlpha_eq_xeff (dim a : ℕ) (h : ValidInbAxis dim a) (N : ℕ) (x : ℕ → ℚ) (F : ℚ) (k : ℕ) :
    inbAlpha dim a N x F k = inbXeff N x k * ((1 - F) / F)
    ∧ inbBeta dim a N x F k = (1 - inbXeff N x k) * ((1 - F) / F) := by
  obtain ⟨h1, h3, ha⟩ := h
  have hd : dim = 1 ∨ dim = 2 ∨ dim = 3 := by omega
  unfold inbAlpha inbBeta inbXeff
  rcases hd with rfl | rfl | rfl
  · have : a = 0 := by omega
    subst this
    split_ifs <;> simp only [inbAlphaLast, inbBetaLast, inbAlphaFirst, inbBetaFirst, inbAlphaMid, inbBetaMid] <;>
      refine ⟨?_, ?_⟩ <;> first | trivial | ring
  · have : a = 0 ∨ a = 1 := by omega
    rcases this with rfl | rfl <;> split_ifs <;>
      simp only [inbAlphaLast, inbBetaLast, inbAlphaFirst, inbBetaFirst, inbAlphaMid, inbBetaMid] <;>
      refine ⟨?_, ?_⟩ <;> first | trivial | ring
  · have : a = 0 ∨ a = 1 ∨ a = 2 := by omega
    rcases this with rfl | rfl | rfl <;> split_ifs <;>
      simp only [inbAlphaLast, inbBetaLast, inbAlphaFirst, inbBetaFirst, inbAlphaMid, inbBetaMid] <;>
      refine ⟨?_, ?_⟩ <;> first | trivial | ring

theorem inbXeff_mem (N : ℕ) (x : ℕ → ℚ) (k : ℕ) (hx : 0 ≤ x k ∧ x k ≤ 1) : 0 ≤ inbXeff N x k ∧ inbXeff N x k ≤ 1 := by
  unfold inbXeff
  split_ifs
  · constructor <;> norm_num
  · constructor <;> norm_num
  · exact hx

/-- on a grid that starts at 0 and ends at 1 the patched frequency differs from the node by at most 1e-20 -/
theorem inbXeff_sub (N : ℕ) (x : ℕ → ℚ) (k : ℕ) (hN : 2 ≤ N) (h0 : x 0 = 0) (h1 : x (N - 1) = 1) (hk : k < N) :
    |inbXeff N x k - x k| ≤ 1 / 100000000000000000000 := by
  unfold inbXeff
  split_ifs with ha hb
  · have : k = N - 1 := by omega
    rw [this, h1]
    rw [abs_le]; constructor <;> norm_num
  · rw [hb, h0]
    rw [abs_le]; constructor <;> norm_num
  · simp

theorem inbZeroFactor_eq (dim a : ℕ) (h : ValidInbAxis dim a) (n i : ℕ) (x : ℚ) :
    inbZeroFHandled dim a = true ∧ inbZeroFactor dim a n i x = bern n i x := by
  obtain ⟨h1, h3, ha⟩ := h
  have hd : dim = 1 ∨ dim = 2 ∨ dim = 3 := by omega
  rcases hd with rfl | rfl | rfl
  · have : a = 0 := by omega
    subst this; exact ⟨rfl, by simp only [inbZeroFactor, bern]⟩
  · have : a = 0 ∨ a = 1 := by omega
    rcases this with rfl | rfl <;> exact ⟨rfl, by simp only [inbZeroFactor, bern]⟩
  · have : a = 0 ∨ a = 1 ∨ a = 2 := by omega
    rcases this with rfl | rfl | rfl <;> exact ⟨rfl, by simp only [inbZeroFactor, bern]⟩

/-- **F = 0 on an axis is binomial sampling**: the factor the source returns from its `F == 0` branch is the factor of the
    direct path (so a population with F = 0 among inbred ones is sampled exactly as `from_phi(force_direct=True)` samples it) -/
theorem inbWeight_zero (dim a : ℕ) (h : ValidInbAxis dim a) (n P N : ℕ) (het : Bool) (x : ℕ → ℚ) (k i : ℕ) :
    inbWeight dim a n P N 0 het x k i = bern n i (x k) * hetMult het (x k) := by
  obtain ⟨hz, hf⟩ := inbZeroFactor_eq dim a h n i (x k)
  unfold inbWeight hetMult
  simp only [if_true, hz, hf, inbHetFactor_eq dim a h]
  cases het <;> simp

theorem hetMult_abs_le (het : Bool) (y : ℚ) (hy : 0 ≤ y ∧ y ≤ 1) : |hetMult het y| ≤ 1 := by
  unfold hetMult
  cases het
  · simp
  · simp only [if_true]
    rw [abs_le]; constructor <;> nlinarith [hy.1, hy.2]

/-! ### the convolved probabilities lie in [0,1] -/

theorem convTerm_nonneg (P : ℕ) (f : ℕ → ℚ) (hf : ∀ v, 0 ≤ f v) (q : List ℕ) : 0 ≤ convTerm P f q := by
  rw [convTerm_eq]
  exact mul_nonneg (Nat.cast_nonneg _) (prod_nonneg fun v _ => pow_nonneg (hf v) _)

theorem betaBinomConv_mem (i m : ℕ) (a b : ℚ) (P : ℕ) (ha : 0 ≤ a) (hb : 0 ≤ b) (hab : 0 < a + b) :
    0 ≤ betaBinomConv i m a b P ∧ betaBinomConv i m a b P ≤ 1 := by
  have hnn : ∀ q, 0 ≤ convTerm P (fun v => betaBinom P v a b) q :=
    convTerm_nonneg P _ fun v => betaBinom_nonneg P v a b ha hb hab
  unfold betaBinomConv
  rw [sumL_part_eq]
  refine ⟨sum_nonneg fun q _ => hnn q, ?_⟩
  have htot : ∑ q ∈ allParts m P, convTerm P (fun v => betaBinom P v a b) q = 1 := by
    simp only [convTerm_eq]
    rw [conv_sum_core, betaBinom_sum P a b hab, one_pow]
  rw [← htot]
  exact sum_le_sum_of_subset_of_nonneg (filter_subset _ _) fun q _ _ => hnn q

theorem bern_sub_bern' (n i : ℕ) (y z : ℚ) (hy0 : 0 ≤ y) (hy1 : y ≤ 1) (hz0 : 0 ≤ z) (hz1 : z ≤ 1) :
    |bern n i y - bern n i z| ≤ (2 : ℚ) ^ n * n * |y - z| := by
  by_cases hi : i ≤ n
  · refine (bern_sub_bern n i hi y z hy0 hy1 hz0 hz1).trans ?_
    have h2 : (n.choose i : ℚ) ≤ (2 : ℚ) ^ n := by exact_mod_cast Nat.choose_le_two_pow n i
    have : 0 ≤ (n : ℚ) * |y - z| := mul_nonneg (Nat.cast_nonneg _) (abs_nonneg _)
    calc (n.choose i : ℚ) * n * |y - z| = (n.choose i : ℚ) * ((n : ℚ) * |y - z|) := by ring
      _ ≤ (2 : ℚ) ^ n * ((n : ℚ) * |y - z|) := mul_le_mul_of_nonneg_right h2 this
      _ = _ := by ring
  · have h0 : ∀ t : ℚ, bern n i t = 0 := fun t => by
      unfold bern; rw [choose_eq, Nat.choose_eq_zero_of_lt (by omega)]; simp
    rw [h0, h0, sub_zero, abs_zero]
    positivity

/-! ### the sampling factor of the inbreeding path in the limit F → 0⁺ -/

/-- **F → 0⁺, one node, one entry**: for 0 < F < 1, ploidy P > 0, sample size P·m and a node in [0,1] the factor of the
    inbreeding path differs from the binomial factor at the (end-point patched) frequency, times the ascertainment multiplier,
    by at most `inbLimitConst m P · F/(1−F)` -/
theorem inbWeight_sub_limit (dim a : ℕ) (h : ValidInbAxis dim a) (m P N : ℕ) (F : ℚ) (hF0 : 0 < F) (hF1 : F < 1) (het : Bool)
    (x : ℕ → ℚ) (k i : ℕ) (hP : 0 < P) (hx : 0 ≤ x k ∧ x k ≤ 1) :
    |inbWeight dim a (P * m) P N F het x k i - bern (P * m) i (inbXeff N x k) * hetMult het (x k)|
      ≤ inbLimitConst m P * (F / (1 - F)) := by
  have hne : F ≠ 0 := hF0.ne'
  have h1F : 0 < 1 - F := by linarith
  have hc : 0 < (1 - F) / F := div_pos h1F hF0
  have hdiv : P * m / P = m := Nat.mul_div_cancel_left m hP
  obtain ⟨hA, hB⟩ := inbAlpha_eq_xeff dim a h N x F k
  obtain ⟨hy0, hy1⟩ := inbXeff_mem N x k hx
  have hb := betaBinomConv_sub_bern m P i (inbXeff N x k) ((1 - F) / F) hy0 hy1 hc
  have hK : inbLimitConst m P / ((1 - F) / F) = inbLimitConst m P * (F / (1 - F)) := by
    field_simp
  rw [hK] at hb
  have hbase : inbWeight dim a (P * m) P N F het x k i
      = betaBinomConv i m (inbXeff N x k * ((1 - F) / F)) ((1 - inbXeff N x k) * ((1 - F) / F)) P * hetMult het (x k) := by
    unfold inbWeight hetMult
    simp only [if_neg hne, hdiv, hA, hB, inbHetFactor_eq dim a h]
    cases het <;> simp
  rw [hbase, ← sub_mul, abs_mul]
  calc _ ≤ inbLimitConst m P * (F / (1 - F)) * 1 :=
        mul_le_mul hb (hetMult_abs_le het (x k) hx) (abs_nonneg _) (by have := inbLimitConst_nonneg m P; positivity)
    _ = _ := mul_one _

/-- for every F ∈ [0,1) the factor lies in [−1,1] -/
theorem inbWeight_abs_le (dim a : ℕ) (h : ValidInbAxis dim a) (m P N : ℕ) (F : ℚ) (hF0 : 0 ≤ F) (hF1 : F < 1) (het : Bool)
    (x : ℕ → ℚ) (k i : ℕ) (hP : 0 < P) (hx : 0 ≤ x k ∧ x k ≤ 1) :
    |inbWeight dim a (P * m) P N F het x k i| ≤ 1 := by
  rcases hF0.eq_or_lt with hz | hpos
  · rw [← hz, inbWeight_zero dim a h, abs_mul]
    have h1 : |bern (P * m) i (x k)| ≤ 1 := by
      rw [abs_of_nonneg (bern_nonneg _ _ _ hx.1 hx.2)]; exact bern_le_one _ _ _ hx.1 hx.2
    calc _ ≤ (1 : ℚ) * 1 := mul_le_mul h1 (hetMult_abs_le het (x k) hx) (abs_nonneg _) zero_le_one
      _ = 1 := one_mul _
  · have hne : F ≠ 0 := hpos.ne'
    have hc : 0 < (1 - F) / F := div_pos (by linarith) hpos
    have hdiv : P * m / P = m := Nat.mul_div_cancel_left m hP
    obtain ⟨hA, hB⟩ := inbAlpha_eq_xeff dim a h N x F k
    obtain ⟨hy0, hy1⟩ := inbXeff_mem N x k hx
    have hbase : inbWeight dim a (P * m) P N F het x k i
        = betaBinomConv i m (inbXeff N x k * ((1 - F) / F)) ((1 - inbXeff N x k) * ((1 - F) / F)) P * hetMult het (x k) := by
      unfold inbWeight hetMult
      simp only [if_neg hne, hdiv, hA, hB, inbHetFactor_eq dim a h]
      cases het <;> simp
    have hmem := betaBinomConv_mem i m (inbXeff N x k * ((1 - F) / F)) ((1 - inbXeff N x k) * ((1 - F) / F)) P
      (mul_nonneg hy0 hc.le) (mul_nonneg (by linarith) hc.le) (by nlinarith)
    rw [hbase, abs_mul, abs_of_nonneg hmem.1]
    calc _ ≤ (1 : ℚ) * 1 := mul_le_mul hmem.2 (hetMult_abs_le het (x k) hx) (abs_nonneg _) zero_le_one
      _ = 1 := one_mul _

/-- distance between the factor of the inbreeding path (clamped F ∈ [0,1)) and the factor of the direct path, uniformly in the
    node and the entry, on a grid from 0 to 1: nothing for F = 0, else the F → 0⁺ bound plus the effect of the 1e-20 patch -/
def inbAxisEps (m P n : ℕ) (F : ℚ) : ℚ :=
  if F = 0 then 0 else inbLimitConst m P * (F / (1 - F)) + (2 : ℚ) ^ n * n * (1 / 100000000000000000000)

theorem inbAxisEps_nonneg (m P n : ℕ) (F : ℚ) (hF0 : 0 ≤ F) (hF1 : F < 1) : 0 ≤ inbAxisEps m P n F := by
  unfold inbAxisEps
  split_ifs
  · exact le_rfl
  · have := inbLimitConst_nonneg m P
    have : 0 ≤ F / (1 - F) := div_nonneg hF0 (by linarith)
    positivity

theorem inbWeight_sub_direct (dim a : ℕ) (h : ValidInbAxis dim a) (m P N : ℕ) (F : ℚ) (hF0 : 0 ≤ F) (hF1 : F < 1) (het : Bool)
    (x : ℕ → ℚ) (k i : ℕ) (hP : 0 < P) (hN : 2 ≤ N) (h0 : x 0 = 0) (h1 : x (N - 1) = 1) (hk : k < N) (hx : 0 ≤ x k ∧ x k ≤ 1) :
    |inbWeight dim a (P * m) P N F het x k i - bern (P * m) i (x k) * hetMult het (x k)| ≤ inbAxisEps m P (P * m) F := by
  unfold inbAxisEps
  split_ifs with hz
  · rw [hz, inbWeight_zero dim a h, sub_self, abs_zero]
  · have hpos : 0 < F := lt_of_le_of_ne hF0 (Ne.symm hz)
    have hA := inbWeight_sub_limit dim a h m P N F hpos hF1 het x k i hP hx
    obtain ⟨hy0, hy1⟩ := inbXeff_mem N x k hx
    have hB := bern_sub_bern' (P * m) i (inbXeff N x k) (x k) hy0 hy1 hx.1 hx.2
    have hC := inbXeff_sub N x k hN h0 h1 hk
    have hD : |bern (P * m) i (inbXeff N x k) * hetMult het (x k) - bern (P * m) i (x k) * hetMult het (x k)|
        ≤ (2 : ℚ) ^ (P * m) * ((P * m : ℕ) : ℚ) * (1 / 100000000000000000000) := by
      rw [← sub_mul, abs_mul]
      have hpos2 : (0 : ℚ) ≤ (2 : ℚ) ^ (P * m) * ((P * m : ℕ) : ℚ) := by positivity
      calc _ ≤ ((2 : ℚ) ^ (P * m) * ((P * m : ℕ) : ℚ) * |inbXeff N x k - x k|) * 1 :=
            mul_le_mul hB (hetMult_abs_le het (x k) hx) (abs_nonneg _) (by positivity)
        _ ≤ _ := by rw [mul_one]; exact mul_le_mul_of_nonneg_left hC hpos2
    have e : inbWeight dim a (P * m) P N F het x k i - bern (P * m) i (x k) * hetMult het (x k)
        = (inbWeight dim a (P * m) P N F het x k i - bern (P * m) i (inbXeff N x k) * hetMult het (x k))
          + (bern (P * m) i (inbXeff N x k) * hetMult het (x k) - bern (P * m) i (x k) * hetMult het (x k)) := by ring
    rw [e]
    exact (abs_add_le _ _).trans (add_le_add hA hD)

/-! ### d-dimensional perturbation of trapezoid-weight operators -/

/-- `op` and `op'` apply node weights `w ≥ 0` to (factor · density) on the same nodes; the factors lie in [−1,1] and differ by at
    most ε -/
def CloseOps (op op' : LineOp) (w : ℕ → ℚ) (ε : ℚ) : Prop :=
  ∃ B B' : ℕ → ℕ → ℚ,
    (∀ φ i, op.app φ i = ∑ k ∈ range op.nIn, w k * (B i k * φ k))
    ∧ (∀ φ i, op'.app φ i = ∑ k ∈ range op.nIn, w k * (B' i k * φ k))
    ∧ (∀ i k, k < op.nIn → |B i k| ≤ 1 ∧ |B' i k| ≤ 1 ∧ |B i k - B' i k| ≤ ε)
    ∧ (∀ k, k < op.nIn → 0 ≤ w k)

abbrev PairList := List (LineOp × LineOp × (ℕ → ℚ) × ℚ)

def plOps (L : PairList) : List LineOp := L.map (·.1)
def plOps' (L : PairList) : List LineOp := L.map (·.2.1)
def plW (L : PairList) : List (ℕ × (ℕ → ℚ)) := L.map fun t => (t.1.nIn, t.2.2.1)
def plEps (L : PairList) : ℚ := (L.map (·.2.2.2)).sum

theorem wSum_nonneg : ∀ (L : PairList), (∀ t ∈ L, CloseOps t.1 t.2.1 t.2.2.1 t.2.2.2) → ∀ φ : List ℕ → ℚ, (∀ js, 0 ≤ φ js) →
    0 ≤ wSum (plW L) φ := by
  intro L
  induction L with
  | nil => intro _ φ h; exact h []
  | cons t rest ih =>
    intro hL φ h
    obtain ⟨B, B', _, _, _, hw⟩ := hL t (List.mem_cons_self ..)
    simp only [plW, List.map_cons, wSum]
    refine sum_nonneg fun k hk => mul_nonneg (hw k (mem_range.mp hk)) ?_
    exact ih (fun t' ht' => hL t' (List.mem_cons_of_mem _ ht')) _ fun js => h _

/-- a spectrum computed with factors in [−1,1] is bounded by the weighted total of |density| -/
theorem sampleND_abs_le : ∀ (L : PairList), (∀ t ∈ L, CloseOps t.1 t.2.1 t.2.2.1 t.2.2.2) → ∀ (φ : List ℕ → ℚ) (idx : List ℕ),
    |sampleND (plOps' L) φ idx| ≤ wSum (plW L) (fun js => |φ js|) := by
  intro L
  induction L with
  | nil => intro _ φ idx; exact le_rfl
  | cons t rest ih =>
    intro hL φ idx
    have hL' : ∀ t' ∈ rest, CloseOps t'.1 t'.2.1 t'.2.2.1 t'.2.2.2 := fun t' ht' => hL t' (List.mem_cons_of_mem _ ht')
    obtain ⟨B, B', _, hB', hb, hw⟩ := hL t (List.mem_cons_self ..)
    simp only [plOps', plW, List.map_cons, wSum, sampleND]
    rw [hB']
    refine (abs_sum_le_sum_abs _ _).trans (sum_le_sum fun k hk => ?_)
    have hk' := mem_range.mp hk
    rw [abs_mul, abs_of_nonneg (hw k hk'), abs_mul]
    refine mul_le_mul_of_nonneg_left ?_ (hw k hk')
    have h1 := (hb (idx.headD 0) k hk').2.1
    have h2 := ih hL' (fun js => φ (k :: js)) idx.tail
    calc _ ≤ 1 * wSum (plW rest) (fun js => |φ (k :: js)|) := mul_le_mul h1 h2 (abs_nonneg _) zero_le_one
      _ = _ := one_mul _

/-- **two spectra computed with factors that differ by at most ε_a on axis a differ, entry by entry, by at most
    (Σ_a ε_a) · (weighted total of |density|)** -/
theorem sampleND_sub_le : ∀ (L : PairList), (∀ t ∈ L, CloseOps t.1 t.2.1 t.2.2.1 t.2.2.2) → ∀ (φ : List ℕ → ℚ) (idx : List ℕ),
    |sampleND (plOps L) φ idx - sampleND (plOps' L) φ idx| ≤ plEps L * wSum (plW L) (fun js => |φ js|) := by
  intro L
  induction L with
  | nil => intro _ φ idx; simp [plOps, plOps', plEps]
  | cons t rest ih =>
    intro hL φ idx
    have hL' : ∀ t' ∈ rest, CloseOps t'.1 t'.2.1 t'.2.2.1 t'.2.2.2 := fun t' ht' => hL t' (List.mem_cons_of_mem _ ht')
    obtain ⟨B, B', hB, hB', hb, hw⟩ := hL t (List.mem_cons_self ..)
    simp only [plOps, plOps', plW, plEps, List.map_cons, List.sum_cons, wSum, sampleND]
    rw [hB, hB', ← sum_sub_distrib, mul_sum]
    refine (abs_sum_le_sum_abs _ _).trans (sum_le_sum fun k hk => ?_)
    have hk' := mem_range.mp hk
    obtain ⟨hb1, hb2, hb3⟩ := hb (idx.headD 0) k hk'
    set S := sampleND (List.map (fun x => x.1) rest) (fun js => φ (k :: js)) idx.tail with hS
    set S' := sampleND (List.map (fun x => x.2.1) rest) (fun js => φ (k :: js)) idx.tail with hS'
    set W := wSum (List.map (fun t => (t.1.nIn, t.2.2.1)) rest) (fun js => |φ (k :: js)|) with hW
    have h1 : |S - S'| ≤ (List.map (fun x => x.2.2.2) rest).sum * W := ih hL' (fun js => φ (k :: js)) idx.tail
    have h2 : |S'| ≤ W := sampleND_abs_le rest hL' (fun js => φ (k :: js)) idx.tail
    have hW0 : 0 ≤ W := (abs_nonneg _).trans h2
    have e : t.2.2.1 k * (B (idx.headD 0) k * S) - t.2.2.1 k * (B' (idx.headD 0) k * S')
        = t.2.2.1 k * (B (idx.headD 0) k * (S - S') + (B (idx.headD 0) k - B' (idx.headD 0) k) * S') := by ring
    rw [e, abs_mul, abs_of_nonneg (hw k hk')]
    have h3 : |B (idx.headD 0) k * (S - S') + (B (idx.headD 0) k - B' (idx.headD 0) k) * S'|
        ≤ (List.map (fun x => x.2.2.2) rest).sum * W + t.2.2.2 * W := by
      refine (abs_add_le _ _).trans (add_le_add ?_ ?_)
      · rw [abs_mul]
        calc _ ≤ 1 * ((List.map (fun x => x.2.2.2) rest).sum * W) := mul_le_mul hb1 h1 (abs_nonneg _) zero_le_one
          _ = _ := one_mul _
      · rw [abs_mul]
        exact mul_le_mul hb3 h2 (abs_nonneg _) ((abs_nonneg _).trans hb3)
    calc t.2.2.1 k * |B (idx.headD 0) k * (S - S') + (B (idx.headD 0) k - B' (idx.headD 0) k) * S'|
        ≤ t.2.2.1 k * ((List.map (fun x => x.2.2.2) rest).sum * W + t.2.2.2 * W) := mul_le_mul_of_nonneg_left h3 (hw k hk')
      _ = (t.2.2.2 + (List.map (fun x => x.2.2.2) rest).sum) * (t.2.2.1 k * W) := by ring

/-! ### trapezoid weights of a non-decreasing grid -/

theorem tw_nonneg (N : ℕ) (x : ℕ → ℚ) (hm : ∀ k, k + 1 < N → x k ≤ x (k+1)) (k : ℕ) : 0 ≤ tw N x k := by
  unfold tw
  refine add_nonneg ?_ ?_
  · split_ifs with h
    · have := hm k h; linarith
    · exact le_rfl
  · split_ifs with h
    · have := hm (k - 1) (by omega)
      rw [show k - 1 + 1 = k by omega] at this
      linarith
    · exact le_rfl

theorem mono_of_step (N : ℕ) (x : ℕ → ℚ) (hm : ∀ k, k + 1 < N → x k ≤ x (k+1)) :
    ∀ j k, j ≤ k → k < N → x j ≤ x k := by
  intro j k hjk
  induction k with
  | zero => intro _; have : j = 0 := by omega
            rw [this]
  | succ k ih =>
    intro hk
    rcases Nat.lt_or_ge j (k+1) with h | h
    · exact (ih (by omega) (by omega)).trans (hm k hk)
    · have : j = k + 1 := by omega
      rw [this]

/-- grid of the unit interval: at least two nodes, the first 0, the last 1, non-decreasing -/
def UnitGrid (g : Array ℚ) : Prop :=
  2 ≤ g.size ∧ gridFn g 0 = 0 ∧ gridFn g (g.size - 1) = 1 ∧ ∀ k, k + 1 < g.size → gridFn g k ≤ gridFn g (k+1)

theorem UnitGrid.mem {g : Array ℚ} (h : UnitGrid g) (k : ℕ) (hk : k < g.size) : 0 ≤ gridFn g k ∧ gridFn g k ≤ 1 := by
  obtain ⟨h2, h0, h1, hm⟩ := h
  have hmono := mono_of_step g.size (gridFn g) hm
  constructor
  · rw [← h0]; exact hmono 0 k (Nat.zero_le _) hk
  · rw [← h1]; exact hmono k (g.size - 1) (by omega) (by omega)

/-! ### the inbreeding operators against the direct operators -/

theorem inbHetKey_eq (dim a : ℕ) (h : ValidInbAxis dim a) : inbHetKey dim a = hetKey dim a := by
  obtain ⟨h1, h3, ha⟩ := h
  have hd : dim = 1 ∨ dim = 2 ∨ dim = 3 := by omega
  rcases hd with rfl | rfl | rfl
  · have : a = 0 := by omega
    subst this; rfl
  · have : a = 0 ∨ a = 1 := by omega
    rcases this with rfl | rfl <;> rfl
  · have : a = 0 ∨ a = 1 ∨ a = 2 := by omega
    rcases this with rfl | rfl | rfl <;> rfl

theorem inbOp_close_directOp (dim a : ℕ) (h : ValidInbAxis dim a) (m P : ℕ) (g : Array ℚ) (F : ℚ) (hF0 : 0 ≤ F) (hF1 : F < 1)
    (het : Bool) (hP : 0 < P) (hg : UnitGrid g) :
    CloseOps (inbOp dim a (P * m) P g.size F het (gridFn g)) (directOp dim a (P * m) g.size het (gridFn g))
      (tw g.size (gridFn g)) (inbAxisEps m P (P * m) F) := by
  have hv : ValidAxis dim a := ⟨h.1, by have := h.2.1; omega, h.2.2⟩
  refine ⟨fun i k => inbWeight dim a (P * m) P g.size F het (gridFn g) k i,
    fun i k => bern (P * m) i (gridFn g k) * hetMult het (gridFn g k), ?_, ?_, ?_, ?_⟩
  · intro φ i
    rw [inbOp_app, trapz_eq_nodes]
    rfl
  · intro φ i
    rw [directOp_app, trapz_eq_nodes]
    refine sum_congr rfl fun k _ => ?_
    rw [directWeight_eq dim a hv]
  · intro i k hk
    have hk' : k < g.size := hk
    have hx := hg.mem k hk'
    refine ⟨inbWeight_abs_le dim a h m P g.size F hF0 hF1 het _ k i hP hx, ?_, ?_⟩
    · rw [abs_mul]
      have h1 : |bern (P * m) i (gridFn g k)| ≤ 1 := by
        rw [abs_of_nonneg (bern_nonneg _ _ _ hx.1 hx.2)]; exact bern_le_one _ _ _ hx.1 hx.2
      calc _ ≤ (1 : ℚ) * 1 := mul_le_mul h1 (hetMult_abs_le het _ hx) (abs_nonneg _) zero_le_one
        _ = 1 := one_mul _
    · exact inbWeight_sub_direct dim a h m P g.size F hF0 hF1 het _ k i hP hg.1 hg.2.1 hg.2.2.1 hk' hx
  · intro k _
    exact tw_nonneg _ _ hg.2.2.2 k

end DadiVerif.FromPhi
