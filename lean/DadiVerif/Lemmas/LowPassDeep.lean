import DadiVerif.Lemmas.LowPassAxis
import Mathlib.Algebra.Order.Ring.Abs
import Mathlib.Algebra.Order.BigOperators.Group.Finset
/-! C18 helper lemmas, part 9: the corrected model against the *plain projection*, for any number of populations.
    `AB` is a list of pairs (axis of the correction, reference axis); the ℓ¹ distance between the corrected model and the
    model pushed through the reference kernels is bounded by (no-call bound + Σ per-axis kernel deviation + deviation of
    the simulated tables)·‖model‖₁, and is exactly zero when the deviations vanish — whatever `sim_threshold`. -/
namespace DadiVerif.LowPass
open Finset

/-! ### more box sums -/

theorem sumBox_nonneg (ns : List ℕ) (f : List ℕ → ℚ) (h : ∀ i, inBox ns i → 0 ≤ f i) : 0 ≤ sumBox ns f := by
  have := sumBox_le ns (fun _ => 0) f h
  rwa [sumBox_zero] at this

theorem abs_sumBox_le (ns : List ℕ) (f : List ℕ → ℚ) : |sumBox ns f| ≤ sumBox ns (fun i => |f i|) := by
  induction ns generalizing f with
  | nil => exact le_refl _
  | cons n ns ih =>
    simp only [sumBox]
    calc |∑ i ∈ range n, sumBox ns fun r => f (i :: r)|
        ≤ ∑ i ∈ range n, |sumBox ns fun r => f (i :: r)| := Finset.abs_sum_le_sum_abs _ _
      _ ≤ ∑ i ∈ range n, sumBox ns fun r => |f (i :: r)| := Finset.sum_le_sum (fun i _ => ih _)

theorem sumBox_sub (ns : List ℕ) (f g : List ℕ → ℚ) :
    sumBox ns (fun i => f i - g i) = sumBox ns f - sumBox ns g := by
  have h := sumBox_add ns f (fun i => (-1) * g i)
  rw [sumBox_mul_left] at h
  have e : (fun i => f i - g i) = fun i => f i + (-1) * g i := by funext i; ring
  rw [e, h]; ring

theorem sumBox_mul_right (ns : List ℕ) (c : ℚ) (f : List ℕ → ℚ) :
    sumBox ns (fun i => f i * c) = sumBox ns f * c := by
  have e : (fun i => f i * c) = fun i => c * f i := by funext i; ring
  rw [e, sumBox_mul_left, mul_comm]

/-! ### the product kernel: sign and ℓ¹ stability -/

theorem kerND_nonneg (A : List Axis) (hA : ∀ a ∈ A, AxisOk a) :
    ∀ i, inBox (A.map (·.nIn)) i → ∀ j, inBox (A.map (·.nOut)) j → 0 ≤ kerND A i j := by
  induction A with
  | nil => intro i _ j _; simp [kerND]
  | cons a A ih =>
    intro i hi j hj
    cases i with
    | nil => simp [inBox] at hi
    | cons i0 is =>
      cases j with
      | nil => simp [inBox] at hj
      | cons j0 js =>
        simp only [List.map_cons, inBox] at hi hj
        have ha := hA a List.mem_cons_self
        have h1 := ha.K_nonneg i0 hi.1 j0 hj.1
        have h2 := ih (fun b hb => hA b (List.mem_cons_of_mem _ hb)) is hi.2 js hj.2
        simp only [kerND]
        positivity

/-- a pair (correction axis, reference axis): same sizes, both sub-stochastic, rows at ℓ¹ distance ≤ δ -/
structure PairOk (δ : ℚ) (ab : Axis × Axis) : Prop where
  nIn_eq : ab.1.nIn = ab.2.nIn
  nOut_eq : ab.1.nOut = ab.2.nOut
  ok1 : AxisOk ab.1
  ok2 : AxisOk ab.2
  dev : ∀ i, i < ab.1.nIn → ∑ j ∈ range ab.1.nOut, |ab.1.K i j - ab.2.K i j| ≤ δ

theorem pair_nIn (AB : List (Axis × Axis)) (δ : ℚ) (h : ∀ ab ∈ AB, PairOk δ ab) :
    (AB.map (·.2)).map (·.nIn) = (AB.map (·.1)).map (·.nIn) := by
  simp only [List.map_map]
  exact List.map_congr_left (fun ab hab => (h ab hab).nIn_eq.symm)

theorem pair_nOut (AB : List (Axis × Axis)) (δ : ℚ) (h : ∀ ab ∈ AB, PairOk δ ab) :
    (AB.map (·.2)).map (·.nOut) = (AB.map (·.1)).map (·.nOut) := by
  simp only [List.map_map]
  exact List.map_congr_left (fun ab hab => (h ab hab).nOut_eq.symm)

theorem pair_ok1 (AB : List (Axis × Axis)) (δ : ℚ) (h : ∀ ab ∈ AB, PairOk δ ab) : ∀ a ∈ AB.map (·.1), AxisOk a := by
  intro a ha
  simp only [List.mem_map] at ha
  obtain ⟨ab, hab, rfl⟩ := ha
  exact (h ab hab).ok1

theorem pair_ok2 (AB : List (Axis × Axis)) (δ : ℚ) (h : ∀ ab ∈ AB, PairOk δ ab) : ∀ a ∈ AB.map (·.2), AxisOk a := by
  intro a ha
  simp only [List.mem_map] at ha
  obtain ⟨ab, hab, rfl⟩ := ha
  exact (h ab hab).ok2

/-- Σ_j |Π_p K_p[i_p,j_p] − Π_p P_p[i_p,j_p]| ≤ (number of axes)·δ (telescoping; rows are sub-stochastic) -/
theorem kerND_l1 (δ : ℚ) (hδ : 0 ≤ δ) (AB : List (Axis × Axis)) (h : ∀ ab ∈ AB, PairOk δ ab) :
    ∀ i, inBox ((AB.map (·.1)).map (·.nIn)) i →
      sumBox ((AB.map (·.1)).map (·.nOut)) (fun j => |kerND (AB.map (·.1)) i j - kerND (AB.map (·.2)) i j|)
        ≤ (AB.length : ℚ) * δ := by
  induction AB with
  | nil => intro i _; simp [sumBox, kerND]
  | cons ab AB ih =>
    intro i hi
    cases i with
    | nil => simp [inBox] at hi
    | cons i0 is =>
      simp only [List.map_cons, inBox] at hi
      have hab := h ab List.mem_cons_self
      have hrest : ∀ x ∈ AB, PairOk δ x := fun x hx => h x (List.mem_cons_of_mem _ hx)
      have IH := ih hrest is hi.2
      have hA1 := pair_ok1 AB δ hrest
      obtain ⟨hr0, hr1⟩ := rowProd_unit (AB.map (·.1)) hA1 is hi.2
      simp only [List.map_cons, sumBox, kerND, List.length_cons]
      -- per first output index
      have step : ∀ j0 ∈ range ab.1.nOut,
          sumBox ((AB.map (·.1)).map (·.nOut)) (fun js =>
              |ab.1.K i0 j0 * kerND (AB.map (·.1)) is js - ab.2.K i0 j0 * kerND (AB.map (·.2)) is js|)
            ≤ |ab.1.K i0 j0 - ab.2.K i0 j0| * 1 + ab.2.K i0 j0 * ((AB.length : ℚ) * δ) := by
        intro j0 hj0
        have hj0' : j0 < ab.1.nOut := by simpa using hj0
        have hy : 0 ≤ ab.2.K i0 j0 :=
          hab.ok2.K_nonneg i0 (by rw [← hab.nIn_eq]; exact hi.1) j0 (by rw [← hab.nOut_eq]; exact hj0')
        calc sumBox ((AB.map (·.1)).map (·.nOut)) (fun js =>
              |ab.1.K i0 j0 * kerND (AB.map (·.1)) is js - ab.2.K i0 j0 * kerND (AB.map (·.2)) is js|)
            ≤ sumBox ((AB.map (·.1)).map (·.nOut)) (fun js =>
                |ab.1.K i0 j0 - ab.2.K i0 j0| * kerND (AB.map (·.1)) is js
                + ab.2.K i0 j0 * |kerND (AB.map (·.1)) is js - kerND (AB.map (·.2)) is js|) := by
              apply sumBox_le
              intro js hjs
              have hu := kerND_nonneg (AB.map (·.1)) hA1 is hi.2 js hjs
              have e : ab.1.K i0 j0 * kerND (AB.map (·.1)) is js - ab.2.K i0 j0 * kerND (AB.map (·.2)) is js
                  = (ab.1.K i0 j0 - ab.2.K i0 j0) * kerND (AB.map (·.1)) is js
                    + ab.2.K i0 j0 * (kerND (AB.map (·.1)) is js - kerND (AB.map (·.2)) is js) := by ring
              rw [e]
              calc _ ≤ |(ab.1.K i0 j0 - ab.2.K i0 j0) * kerND (AB.map (·.1)) is js|
                      + |ab.2.K i0 j0 * (kerND (AB.map (·.1)) is js - kerND (AB.map (·.2)) is js)| := abs_add_le _ _
                _ = _ := by rw [abs_mul, abs_mul, abs_of_nonneg hu, abs_of_nonneg hy]
          _ = |ab.1.K i0 j0 - ab.2.K i0 j0| * rowProd (AB.map (·.1)) is
                + ab.2.K i0 j0 * sumBox ((AB.map (·.1)).map (·.nOut)) (fun js =>
                    |kerND (AB.map (·.1)) is js - kerND (AB.map (·.2)) is js|) := by
              rw [sumBox_add, sumBox_mul_left, sumBox_mul_left, ← sumOut_eq_box, sumOut_kerND]
          _ ≤ _ := by
              have h1 : |ab.1.K i0 j0 - ab.2.K i0 j0| * rowProd (AB.map (·.1)) is ≤ |ab.1.K i0 j0 - ab.2.K i0 j0| * 1 :=
                mul_le_mul_of_nonneg_left hr1 (abs_nonneg _)
              have h2 := mul_le_mul_of_nonneg_left IH hy
              linarith
      calc ∑ j0 ∈ range ab.1.nOut, sumBox ((AB.map (·.1)).map (·.nOut)) (fun js =>
              |ab.1.K i0 j0 * kerND (AB.map (·.1)) is js - ab.2.K i0 j0 * kerND (AB.map (·.2)) is js|)
          ≤ ∑ j0 ∈ range ab.1.nOut, (|ab.1.K i0 j0 - ab.2.K i0 j0| * 1 + ab.2.K i0 j0 * ((AB.length : ℚ) * δ)) :=
            Finset.sum_le_sum step
        _ = (∑ j0 ∈ range ab.1.nOut, |ab.1.K i0 j0 - ab.2.K i0 j0|)
              + (∑ j0 ∈ range ab.1.nOut, ab.2.K i0 j0) * ((AB.length : ℚ) * δ) := by
            rw [Finset.sum_add_distrib, Finset.sum_mul]
            congr 1
            exact Finset.sum_congr rfl (fun _ _ => mul_one _)
        _ ≤ δ + 1 * ((AB.length : ℚ) * δ) := by
            have h1 := hab.dev i0 hi.1
            have h2 : ∑ j0 ∈ range ab.1.nOut, ab.2.K i0 j0 ≤ 1 := by
              rw [hab.nOut_eq]; exact hab.ok2.K_rowsum i0 (by rw [← hab.nIn_eq]; exact hi.1)
            have h3 : 0 ≤ (AB.length : ℚ) * δ := by positivity
            have := mul_le_mul_of_nonneg_right h2 h3
            linarith
        _ = ((AB.length : ℚ) + 1) * δ := by ring
        _ = ((AB.length + 1 : ℕ) : ℚ) * δ := by push_cast; ring

/-! ### corrected − projected -/

/-- the entry-wise difference as one box sum over source entries -/
theorem corrected_sub_projected (A B : List Axis) (hIn : B.map (·.nIn) = A.map (·.nIn)) (thr : ℚ)
    (model : List ℕ → ℚ) (sim : List ℕ → List ℕ → ℚ) (j : List ℕ) :
    corrected A thr model sim j - projected B model j
      = sumBox (A.map (·.nIn)) (fun i => model i *
          ((if Gen.LowPass.useSim (pncND A i) thr = true then sim i j else (1 - pncND A i) * kerND A i j)
            - kerND B i j)) := by
  unfold corrected projected Gen.LowPass.outputEntry
  rw [sumIn_eq_box, sumIn_eq_box, sumIn_eq_box, hIn, ← sumBox_add, ← sumBox_sub]
  apply sumBox_congr
  intro i _
  by_cases hu : Gen.LowPass.useSim (pncND A i) thr = true
  · simp only [hu, if_true, b2r, Gen.LowPass.analyticEntry, Gen.LowPass.simTerm]; ring
  · simp only [hu, b2r, Gen.LowPass.analyticEntry, Bool.false_eq_true, if_false]; ring

/-- **ℓ¹ bound, any number of populations.**  ε bounds the no-call probability on the support of the model, δ the per-axis
    ℓ¹ row deviation of the kernels from the reference kernels, σ the ℓ¹ deviation of the simulated tables (only where an
    entry is simulated) from the reference rows. -/
theorem corrected_l1 (δ ε σ : ℚ) (hδ : 0 ≤ δ) (hε0 : 0 ≤ ε) (hσ0 : 0 ≤ σ) (AB : List (Axis × Axis))
    (h : ∀ ab ∈ AB, PairOk δ ab) (thr : ℚ) (model : List ℕ → ℚ) (sim : List ℕ → List ℕ → ℚ)
    (hε : ∀ i, inBox ((AB.map (·.1)).map (·.nIn)) i → model i ≠ 0 → pncND (AB.map (·.1)) i ≤ ε)
    (hσ : ∀ i, inBox ((AB.map (·.1)).map (·.nIn)) i → model i ≠ 0 →
      Gen.LowPass.useSim (pncND (AB.map (·.1)) i) thr = true →
      sumBox ((AB.map (·.1)).map (·.nOut)) (fun j => |sim i j - kerND (AB.map (·.2)) i j|) ≤ σ) :
    sumBox ((AB.map (·.1)).map (·.nOut))
        (fun j => |corrected (AB.map (·.1)) thr model sim j - projected (AB.map (·.2)) model j|)
      ≤ (ε + (AB.length : ℚ) * δ + σ) * sumBox ((AB.map (·.1)).map (·.nIn)) (fun i => |model i|) := by
  set A := AB.map (·.1) with hAdef
  set B := AB.map (·.2) with hBdef
  have hIn := pair_nIn AB δ h
  have hA1 := pair_ok1 AB δ h
  set D : List ℕ → List ℕ → ℚ := fun i j =>
    (if Gen.LowPass.useSim (pncND A i) thr = true then sim i j else (1 - pncND A i) * kerND A i j) - kerND B i j with hD
  have hstep1 : sumBox (A.map (·.nOut)) (fun j => |corrected A thr model sim j - projected B model j|)
      ≤ sumBox (A.map (·.nOut)) (fun j => sumBox (A.map (·.nIn)) (fun i => |model i| * |D i j|)) := by
    apply sumBox_le
    intro j _
    rw [corrected_sub_projected A B hIn thr model sim j]
    calc _ ≤ sumBox (A.map (·.nIn)) (fun i => |model i * D i j|) := abs_sumBox_le _ _
      _ = _ := by
        apply sumBox_congr; intro i _; exact abs_mul _ _
  have hstep2 : sumBox (A.map (·.nOut)) (fun j => sumBox (A.map (·.nIn)) (fun i => |model i| * |D i j|))
      = sumBox (A.map (·.nIn)) (fun i => |model i| * sumBox (A.map (·.nOut)) (fun j => |D i j|)) := by
    rw [sumBox_swap (A.map (·.nOut)) (A.map (·.nIn)) (fun i j => |model i| * |D i j|)]
    apply sumBox_congr; intro i _
    rw [sumBox_mul_left]
  have hstep3 : sumBox (A.map (·.nIn)) (fun i => |model i| * sumBox (A.map (·.nOut)) (fun j => |D i j|))
      ≤ sumBox (A.map (·.nIn)) (fun i => |model i| * (ε + (AB.length : ℚ) * δ + σ)) := by
    apply sumBox_le
    intro i hi
    by_cases hm : model i = 0
    · simp [hm]
    · apply mul_le_mul_of_nonneg_left _ (abs_nonneg _)
      have hlen : 0 ≤ (AB.length : ℚ) * δ := by positivity
      by_cases hu : Gen.LowPass.useSim (pncND A i) thr = true
      · have := hσ i hi hm hu
        have e : (fun j => |D i j|) = fun j => |sim i j - kerND B i j| := by
          funext j; simp only [hD, hu, if_true]
        rw [e]; linarith
      · obtain ⟨hp0, hp1⟩ := pncND_unit A hA1 i hi
        have hpe := hε i hi hm
        obtain ⟨hr0, hr1⟩ := rowProd_unit A hA1 i hi
        have hk := kerND_l1 δ hδ AB h i hi
        calc sumBox (A.map (·.nOut)) (fun j => |D i j|)
            ≤ sumBox (A.map (·.nOut)) (fun j => pncND A i * kerND A i j + |kerND A i j - kerND B i j|) := by
              apply sumBox_le
              intro j hj
              have hu' := kerND_nonneg A hA1 i hi j hj
              simp only [hD, hu, Bool.false_eq_true, if_false]
              have e : (1 - pncND A i) * kerND A i j - kerND B i j
                  = (kerND A i j - kerND B i j) + (-(pncND A i * kerND A i j)) := by ring
              rw [e]
              calc _ ≤ |kerND A i j - kerND B i j| + |-(pncND A i * kerND A i j)| := abs_add_le _ _
                _ = _ := by rw [abs_neg, abs_of_nonneg (mul_nonneg hp0 hu')]; ring
          _ = pncND A i * rowProd A i + sumBox (A.map (·.nOut)) (fun j => |kerND A i j - kerND B i j|) := by
              rw [sumBox_add, sumBox_mul_left, ← sumOut_eq_box, sumOut_kerND]
          _ ≤ ε + (AB.length : ℚ) * δ + σ := by
              have : pncND A i * rowProd A i ≤ ε := by nlinarith
              linarith
  calc _ ≤ _ := hstep1
    _ = _ := hstep2
    _ ≤ _ := hstep3
    _ = _ := by rw [sumBox_mul_right]; ring

/-- entries of the product kernel only depend on the per-axis kernels inside the box -/
theorem kerND_congr (AB : List (Axis × Axis))
    (h : ∀ ab ∈ AB, ab.1.nIn = ab.2.nIn ∧ ab.1.nOut = ab.2.nOut ∧
      ∀ i, i < ab.1.nIn → ∀ j, j < ab.1.nOut → ab.1.K i j = ab.2.K i j) :
    ∀ i, inBox ((AB.map (·.1)).map (·.nIn)) i → ∀ j, inBox ((AB.map (·.1)).map (·.nOut)) j →
      kerND (AB.map (·.1)) i j = kerND (AB.map (·.2)) i j := by
  induction AB with
  | nil => intro i _ j _; rfl
  | cons ab AB ih =>
    intro i hi j hj
    cases i with
    | nil => simp [inBox] at hi
    | cons i0 is =>
      cases j with
      | nil => simp [inBox] at hj
      | cons j0 js =>
        simp only [List.map_cons, inBox] at hi hj
        simp only [List.map_cons, kerND]
        rw [(h ab List.mem_cons_self).2.2 i0 hi.1 j0 hj.1,
          ih (fun x hx => h x (List.mem_cons_of_mem _ hx)) is hi.2 js hj.2]

/-- **exact deep-coverage identity, any number of populations**: if on the support of the model the no-call probability
    vanishes, and the kernels agree with the reference kernels on the box, then for every threshold ≥ 0 (nothing on the
    support is simulated, so the simulated tables are irrelevant) the corrected model IS the reference projection. -/
theorem corrected_exact (AB : List (Axis × Axis))
    (h : ∀ ab ∈ AB, ab.1.nIn = ab.2.nIn ∧ ab.1.nOut = ab.2.nOut ∧
      ∀ i, i < ab.1.nIn → ∀ j, j < ab.1.nOut → ab.1.K i j = ab.2.K i j)
    (thr : ℚ) (hthr : 0 ≤ thr) (model : List ℕ → ℚ) (sim : List ℕ → List ℕ → ℚ)
    (hp : ∀ i, inBox ((AB.map (·.1)).map (·.nIn)) i → model i ≠ 0 → pncND (AB.map (·.1)) i = 0)
    (j : List ℕ) (hj : inBox ((AB.map (·.1)).map (·.nOut)) j) :
    corrected (AB.map (·.1)) thr model sim j = projected (AB.map (·.2)) model j := by
  have hIn : (AB.map (·.2)).map (·.nIn) = (AB.map (·.1)).map (·.nIn) := by
    simp only [List.map_map]
    exact List.map_congr_left (fun ab hab => (h ab hab).1.symm)
  rw [← sub_eq_zero, corrected_sub_projected _ _ hIn]
  rw [sumBox_congr _ _ (fun _ => 0) ?_]
  · exact sumBox_zero _
  · intro i hi
    by_cases hm : model i = 0
    · simp [hm]
    · have h0 := hp i hi hm
      have hu : Gen.LowPass.useSim (pncND (AB.map (·.1)) i) thr = false := by
        rw [h0]
        simp only [Gen.LowPass.useSim, decide_eq_false_iff_not, not_lt]
        exact hthr
      rw [hu, h0, kerND_congr AB h i hi j hj]
      simp

end DadiVerif.LowPass
