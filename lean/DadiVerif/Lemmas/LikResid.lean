import DadiVerif.Model.Likelihood
import Mathlib.Analysis.SpecialFunctions.Pow.Real
import Mathlib.Analysis.Real.Sqrt
import Mathlib.Tactic.Ring
import Mathlib.Tactic.Linarith
/-!
# Lemmas for C11 — the two residual functions, entry by entry (generated formulas unfolded)
-/
namespace DadiVerif.Lik
open Gen.Lik
noncomputable section

/-- the mask that the optional `mask` argument adds: `model ≤ mask ∧ data ≤ mask` -/
def levelMask (mk : Option ℝ) (m d : ℝ) : Bool :=
  match mk with
  | none => false
  | some k => decide (m ≤ k) && decide (d ≤ k)

theorem linResid_val (sqrt : ℝ → ℝ) (mk : Option ℝ) (m d : Cell ℝ) :
    (linResidCell sqrt mk m d).val = (m.val - d.val) / sqrt m.val := by
  cases mk <;> simp [linResidCell, Cell.div, Cell.sub, Cell.maSqrt, Cell.maskedWhere]

theorem linResid_mask (sqrt : ℝ → ℝ) (mk : Option ℝ) (m d : Cell ℝ) :
    (linResidCell sqrt mk m d).mask = (m.mask || d.mask || decide (m.val < 0) || levelMask mk m.val d.val) := by
  cases mk with
  | none =>
    simp only [linResidCell, Cell.div, Cell.sub, Cell.maSqrt, levelMask]
    cases m.mask <;> cases d.mask <;> simp
  | some k =>
    simp only [linResidCell, Cell.div, Cell.sub, Cell.maSqrt, Cell.maskedWhere, BCell.and, Cell.le, Cell.plain, levelMask]
    by_cases h1 : m.val < 0 <;> by_cases h2 : m.val ≤ k <;> by_cases h3 : d.val ≤ k <;>
      cases m.mask <;> cases d.mask <;> simp [h1, h2, h3]

/-- real powers with a rational exponent `n/d` -/
def rpw (n : Int) (d : Nat) (x : ℝ) : ℝ := x ^ ((n : ℝ) / (d : ℝ))

/-- the Anscombe transform `t(x) = x^(2/3) − x^(−1/3)/9` (powers as a parameter) -/
def anscombeT (pw : Int → Nat → ℝ → ℝ) (x : ℝ) : ℝ := pw 2 3 x - pw (-1) 3 x / 9

theorem anscombe_val (pw : Int → Nat → ℝ → ℝ) (mk : Option ℝ) (m d : Cell ℝ) :
    (anscombeCell pw mk m d).val = 3 / 2 * (anscombeT pw m.val - anscombeT pw d.val) / pw 1 6 m.val := by
  cases mk <;>
    simp [anscombeCell, anscombeT, Cell.div, Cell.sub, Cell.mul, Cell.neg, Cell.map, Cell.maPower, Cell.maskedWhere,
      Cell.nat, Cell.frac, Cell.plain] <;> ring

theorem anscombe_mask (pw : Int → Nat → ℝ → ℝ) (mk : Option ℝ) (m d : Cell ℝ) :
    (anscombeCell pw mk m d).mask
      = (m.mask || d.mask || !decide (0 < m.val) || !decide (0 < d.val) || levelMask mk m.val d.val) := by
  cases mk with
  | none =>
    simp only [anscombeCell, Cell.div, Cell.sub, Cell.mul, Cell.neg, Cell.map, Cell.maPower, Cell.nat, Cell.frac,
      Cell.plain, levelMask]
    by_cases h1 : 0 < m.val <;> by_cases h2 : 0 < d.val <;> cases m.mask <;> cases d.mask <;> simp [h1, h2]
  | some k =>
    simp only [anscombeCell, Cell.div, Cell.sub, Cell.mul, Cell.neg, Cell.map, Cell.maPower, Cell.nat, Cell.frac,
      Cell.plain, Cell.maskedWhere, BCell.and, BCell.or, Cell.le, Cell.eqc, levelMask]
    by_cases h0 : d.val = 0
    · have h2 : ¬ (0 < d.val) := by rw [h0]; exact lt_irrefl 0
      cases m.mask <;> cases d.mask <;> simp [h0]
    · by_cases h1 : 0 < m.val <;> by_cases h2 : 0 < d.val <;> by_cases h3 : m.val ≤ k <;> by_cases h4 : d.val ≤ k <;>
        cases m.mask <;> cases d.mask <;> simp [h0, h1, h2, h3, h4]

/-- the Anscombe transform with real powers is strictly increasing on the positive reals -/
theorem anscombeT_lt {x y : ℝ} (hx : 0 < x) (hxy : x < y) : anscombeT rpw x < anscombeT rpw y := by
  have h1 : x ^ ((2 : ℝ) / 3) < y ^ ((2 : ℝ) / 3) := Real.rpow_lt_rpow hx.le hxy (by norm_num)
  have h2 : y ^ ((-1 : ℝ) / 3) < x ^ ((-1 : ℝ) / 3) := Real.rpow_lt_rpow_of_neg hx hxy (by norm_num)
  simp only [anscombeT, rpw]
  push_cast
  linarith

theorem anscombeT_lt_iff {x y : ℝ} (hx : 0 < x) (hy : 0 < y) : anscombeT rpw x < anscombeT rpw y ↔ x < y := by
  constructor
  · intro h
    by_contra hn
    rcases (not_lt.mp hn).eq_or_lt with he | hlt
    · rw [he] at h; exact lt_irrefl _ h
    · exact lt_asymm h (anscombeT_lt hy hlt)
  · exact anscombeT_lt hx

/-! ### the domain: which visible entries are finite, and what is visible -/

/-- the linear residual of finite inputs is non-finite (division by an exact zero) exactly where `√model = 0`, i.e. `model ≤ 0` -/
theorem linResid_bad (mk : Option ℝ) (m d : Cell ℝ) :
    (linResidCell Real.sqrt mk m d).bad = (m.bad || d.bad || decide (m.val ≤ 0)) := by
  cases mk <;> simp only [linResidCell, Cell.div, Cell.sub, Cell.maSqrt, Cell.maskedWhere] <;>
    cases m.bad <;> cases d.bad <;> simp [Real.sqrt_eq_zero']

/-- a visible, finite entry of the linear residual has a positive model value -/
theorem linResid_visible_pos (mk : Option ℝ) (m d : Cell ℝ)
    (hb : (linResidCell Real.sqrt mk m d).bad = false) : 0 < m.val := by
  rw [linResid_bad] at hb
  simp only [Bool.or_eq_false_iff, decide_eq_false_iff_not, not_le] at hb
  exact hb.2

/-- a visible entry of the Anscombe residual has positive model and data values -/
theorem anscombe_visible_pos (pw : Int → Nat → ℝ → ℝ) (mk : Option ℝ) (m d : Cell ℝ)
    (hv : (anscombeCell pw mk m d).mask = false) : 0 < m.val ∧ 0 < d.val := by
  rw [anscombe_mask] at hv
  simp only [Bool.or_eq_false_iff, Bool.not_eq_false', decide_eq_true_eq] at hv
  exact ⟨hv.1.1.2, hv.1.2⟩

/-- …and is finite when the inputs are: the only division by a non-constant is by `model^(1/6) > 0` -/
theorem anscombe_bad_of_pos (mk : Option ℝ) (m d : Cell ℝ) (hm : 0 < m.val) :
    (anscombeCell rpw mk m d).bad = (m.bad || d.bad) := by
  have hp : rpw 1 6 m.val ≠ 0 := by
    have : 0 < rpw 1 6 m.val := by simpa [rpw] using Real.rpow_pos_of_pos hm _
    exact this.ne'
  cases mk <;>
    simp [anscombeCell, Cell.div, Cell.sub, Cell.mul, Cell.neg, Cell.map, Cell.maPower, Cell.maskedWhere,
      Cell.nat, Cell.frac, Cell.plain, hp] <;>
    cases m.bad <;> cases d.bad <;> simp

/-- an entry whose data value, or model value, is exactly zero is masked in the Anscombe residual, with or without a level -/
theorem anscombe_zero_masked (pw : Int → Nat → ℝ → ℝ) (mk : Option ℝ) (m d : Cell ℝ) (h : d.val = 0 ∨ m.val = 0) :
    (anscombeCell pw mk m d).mask = true := by
  rw [anscombe_mask]
  rcases h with h | h <;> simp [h]

/-- the level mask only ever hides entries whose model value is at or below the level -/
theorem levelMask_le (k m d : ℝ) (h : levelMask (some k) m d = true) : m ≤ k ∧ d ≤ k := by
  simpa [levelMask] using h

end
end DadiVerif.Lik
