import Mathlib.Analysis.SpecialFunctions.Integrals.Basic
/-!
# Theory side of C01: the continuum densities the code aims at give the classical spectra

* `betaNat a b = ∫₀¹ xᵃ(1−x)ᵇ = a!·b!/(a+b+1)!` (elementary: fundamental theorem of calculus for `x^(a+1)·(1−x)^(b+1)`, induction),
* `theory_neutral_sfs`: under the neutral equilibrium density θ/x the expected number of sites with i derived alleles in a
  sample of n is θ/i,
* `theory_snm_sfs`: the same for the density `phi_1D_snm` returns, ν·θ0/x·4β/(β+1)²,
* `theory_heterozygosity`: ∫ x(1−x)·θ0/(κ x) = θ0/(2κ).
-/
namespace DadiVerif
open intervalIntegral

/-- J(a,b) = ∫₀¹ xᵃ (1−x)ᵇ dx -/
noncomputable def betaNat (a b : ℕ) : ℝ := ∫ x in (0:ℝ)..1, x ^ a * (1 - x) ^ b

theorem betaNat_zero_right (a : ℕ) : betaNat a 0 = 1 / (a + 1) := by
  unfold betaNat
  simp only [pow_zero, mul_one]
  rw [integral_pow]
  simp

/-- integrating the derivative of `x^(a+1)·(1−x)^(b+1)`, which vanishes at both ends -/
theorem betaNat_rec (a b : ℕ) : ((a : ℝ) + 1) * betaNat a (b + 1) = ((b : ℝ) + 1) * betaNat (a + 1) b := by
  have hderiv : ∀ x ∈ Set.uIcc (0:ℝ) 1,
      HasDerivAt (fun x : ℝ => x ^ (a + 1) * (1 - x) ^ (b + 1))
        (((a : ℝ) + 1) * (x ^ a * (1 - x) ^ (b + 1)) - ((b : ℝ) + 1) * (x ^ (a + 1) * (1 - x) ^ b)) x := by
    intro x _
    have h1 : HasDerivAt (fun x : ℝ => x ^ (a + 1)) (((a + 1 : ℕ) : ℝ) * x ^ a) x := by
      simpa using hasDerivAt_pow (a + 1) x
    have h2 : HasDerivAt (fun x : ℝ => (1 - x) ^ (b + 1)) (((b + 1 : ℕ) : ℝ) * (1 - x) ^ b * (-1)) x := by
      have h0 : HasDerivAt (fun x : ℝ => 1 - x) (-1) x := by
        simpa using (hasDerivAt_id x).const_sub 1
      have h3 := (hasDerivAt_pow (b + 1) (1 - x)).comp x h0
      simpa [Function.comp_def] using h3
    refine (h1.mul h2).congr_deriv ?_
    push_cast
    ring
  have hint : IntervalIntegrable
      (fun x : ℝ => ((a : ℝ) + 1) * (x ^ a * (1 - x) ^ (b + 1)) - ((b : ℝ) + 1) * (x ^ (a + 1) * (1 - x) ^ b))
      MeasureTheory.volume 0 1 := by
    apply Continuous.intervalIntegrable
    fun_prop
  have h := integral_eq_sub_of_hasDerivAt hderiv hint
  have i1 : IntervalIntegrable (fun x : ℝ => ((a : ℝ) + 1) * (x ^ a * (1 - x) ^ (b + 1))) MeasureTheory.volume 0 1 := by
    apply Continuous.intervalIntegrable; fun_prop
  have i2 : IntervalIntegrable (fun x : ℝ => ((b : ℝ) + 1) * (x ^ (a + 1) * (1 - x) ^ b)) MeasureTheory.volume 0 1 := by
    apply Continuous.intervalIntegrable; fun_prop
  rw [intervalIntegral.integral_sub i1 i2, intervalIntegral.integral_const_mul, intervalIntegral.integral_const_mul] at h
  unfold betaNat
  simp at h
  linarith

/-- the Beta integral at natural exponents -/
theorem betaNat_eq (a b : ℕ) : betaNat a b = (a.factorial : ℝ) * b.factorial / (a + b + 1).factorial := by
  induction b generalizing a with
  | zero =>
    rw [betaNat_zero_right, Nat.add_zero, Nat.factorial_succ, Nat.factorial_zero]
    have : ((a.factorial : ℕ) : ℝ) ≠ 0 := by exact_mod_cast Nat.factorial_ne_zero a
    push_cast
    field_simp
  | succ b ih =>
    have hrec := betaNat_rec a b
    rw [ih (a + 1)] at hrec
    have ha : ((a : ℝ) + 1) ≠ 0 := by positivity
    have e : betaNat a (b + 1) = (((b : ℝ) + 1) * (((a + 1).factorial : ℝ) * b.factorial / (a + 1 + b + 1).factorial)) / (a + 1) := by
      rw [eq_div_iff ha]; linarith
    rw [e, show a + 1 + b + 1 = a + (b + 1) + 1 by omega, Nat.factorial_succ a, Nat.factorial_succ b]
    have h3 : (((a + (b + 1) + 1).factorial : ℕ) : ℝ) ≠ 0 := by exact_mod_cast Nat.factorial_ne_zero _
    push_cast
    field_simp

/-- polynomial form: C(n,i) ∫₀¹ x^(i−1) (1−x)^(n−i) = 1/i -/
theorem choose_mul_betaNat (n i : ℕ) (hi : 1 ≤ i) (hin : i ≤ n) :
    (n.choose i : ℝ) * betaNat (i - 1) (n - i) = 1 / i := by
  rw [betaNat_eq, show i - 1 + (n - i) + 1 = n by omega]
  have hc : ((n.choose i * i.factorial * (n - i).factorial : ℕ) : ℝ) = (n.factorial : ℝ) := by
    exact_mod_cast congrArg (fun k : ℕ => (k : ℝ)) (Nat.choose_mul_factorial_mul_factorial hin)
  have hfi : (i.factorial : ℝ) = (i : ℝ) * ((i - 1).factorial : ℝ) := by
    obtain ⟨k, rfl⟩ : ∃ k, i = k + 1 := ⟨i - 1, by omega⟩
    simp [Nat.factorial_succ]
  push_cast at hc
  rw [← hc, hfi]
  have h1 : ((i : ℝ)) ≠ 0 := by have : 0 < i := hi; positivity
  have h2 : (((i - 1).factorial : ℕ) : ℝ) ≠ 0 := by exact_mod_cast Nat.factorial_ne_zero _
  have h3 : (((n - i).factorial : ℕ) : ℝ) ≠ 0 := by exact_mod_cast Nat.factorial_ne_zero _
  have h4 : ((n.choose i : ℕ) : ℝ) ≠ 0 := by exact_mod_cast (Nat.choose_pos hin).ne'
  field_simp

/-- polynomial form of the neutral spectrum -/
theorem theory_neutral_sfs_poly (n i : ℕ) (hi : 1 ≤ i) (hin : i ≤ n) (θ : ℝ) :
    ∫ x in (0:ℝ)..1, θ * ((n.choose i : ℝ) * (x ^ (i - 1) * (1 - x) ^ (n - i))) = θ / i := by
  rw [intervalIntegral.integral_const_mul, intervalIntegral.integral_const_mul]
  have := choose_mul_betaNat n i hi hin
  unfold betaNat at this
  rw [this]; ring

/-- the `…·(c/x)` integrand equals the polynomial integrand on (0,1] -/
theorem integral_div_x (n i : ℕ) (hi : 1 ≤ i) (c : ℝ) :
    ∫ x in (0:ℝ)..1, (n.choose i : ℝ) * x ^ i * (1 - x) ^ (n - i) * (c / x)
      = ∫ x in (0:ℝ)..1, c * ((n.choose i : ℝ) * (x ^ (i - 1) * (1 - x) ^ (n - i))) := by
  rw [integral_of_le zero_le_one, integral_of_le zero_le_one]
  apply MeasureTheory.setIntegral_congr_fun measurableSet_Ioc
  intro x hx
  have hx0 : x ≠ 0 := ne_of_gt hx.1
  obtain ⟨k, rfl⟩ : ∃ k, i = k + 1 := ⟨i - 1, by omega⟩
  simp only [Nat.add_sub_cancel, pow_succ]
  field_simp

/-- **(1)** under the neutral equilibrium density θ/x the expected number of sites with i derived alleles in a sample of n
    chromosomes is θ/i -/
theorem theory_neutral_sfs (n i : ℕ) (hi : 1 ≤ i) (hin : i ≤ n) (θ : ℝ) :
    ∫ x in (0:ℝ)..1, (n.choose i : ℝ) * x ^ i * (1 - x) ^ (n - i) * (θ / x) = θ / i := by
  rw [integral_div_x n i hi θ, theory_neutral_sfs_poly n i hi hin θ]

/-- **(2)** the density `phi_1D_snm` aims at, ν·θ0/x · 4β/(β+1)², gives the spectrum ν·θ0·4β/(β+1)²/i -/
theorem theory_snm_sfs (n i : ℕ) (hi : 1 ≤ i) (hin : i ≤ n) (nu θ0 β : ℝ) :
    ∫ x in (0:ℝ)..1, (n.choose i : ℝ) * x ^ i * (1 - x) ^ (n - i) * (nu * θ0 / x * (4 * β / (β + 1) ^ 2))
      = nu * θ0 * (4 * β / (β + 1) ^ 2) / i := by
  have e : ∀ x : ℝ, nu * θ0 / x * (4 * β / (β + 1) ^ 2) = (nu * θ0 * (4 * β / (β + 1) ^ 2)) / x := by
    intro x; ring
  simp only [e]
  exact theory_neutral_sfs n i hi hin _

/-- **(3)** expected heterozygosity under the density θ0/(κ x): ∫ x(1−x)·θ0/(κ x) = θ0/(2κ)
    (the continuum limit H* = θ0/(2κ) of `C01_het_limit`) -/
theorem theory_heterozygosity (θ0 κ : ℝ) :
    ∫ x in (0:ℝ)..1, x * (1 - x) * (θ0 / (κ * x)) = θ0 / (2 * κ) := by
  have h := theory_neutral_sfs 2 1 (le_refl _) (by norm_num) (θ0 / κ)
  have e : ∀ x : ℝ, ((2:ℕ).choose 1 : ℝ) * x ^ 1 * (1 - x) ^ (2 - 1) * (θ0 / κ / x) = 2 * (x * (1 - x) * (θ0 / (κ * x))) := by
    intro x
    simp only [Nat.choose_one_right, pow_one, Nat.cast_ofNat]
    rw [div_div]; ring
  simp only [e] at h
  rw [intervalIntegral.integral_const_mul] at h
  have : ((1:ℕ):ℝ) = 1 := Nat.cast_one
  rw [this] at h
  rw [show θ0 / (2 * κ) = (θ0 / κ / 1) / 2 by rw [div_one, div_div]; ring_nf]
  linarith

end DadiVerif

namespace DadiVerif
/-- instance: doubletons in a sample of 5 under θ/x: θ/2 -/
example (θ : ℝ) : ∫ x in (0:ℝ)..1, ((5:ℕ).choose 2 : ℝ) * x ^ 2 * (1 - x) ^ (5 - 2) * (θ / x) = θ / (2:ℕ) :=
  theory_neutral_sfs 5 2 (by norm_num) (by norm_num) θ
end DadiVerif
