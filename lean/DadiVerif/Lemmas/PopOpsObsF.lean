import DadiVerif.Lemmas.PopOpsFoldPath
import DadiVerif.Lemmas.PopOpsOffCorner
/-! C10 (round 5): the observation relation for FOLDED spectra.  `unfold` reads the data UNDER the folded-out mask
    (`newdata = (data + reversed(data))/2`), so plain observational equality `Obs` (same mask, same data at unmasked entries) is not
    a congruence for it.  `ObsF` adds exactly what `unfold` reads: the data at every entry whose mask bit IS its folding bit
    (unmasked and folded-in, or masked and folded-out).  `unfold : ObsF → Obs`, `fold : Obs → ObsF`, hence every public operation
    on folded input (`fold ∘ core ∘ unfold`) respects `ObsF`. -/
namespace DadiVerif.PopOps

/-- same shape, same mask on the box, same data wherever the mask bit equals the folded-out bit -/
def ObsF (S T : FS) : Prop :=
  S.shape = T.shape ∧ ∀ j ∈ boxIdx S.shape, S.msk j = T.msk j ∧ (S.msk j = foldedOut S.shape j → S.dat j = T.dat j)

theorem ObsF.refl (S : FS) : ObsF S S := ⟨rfl, fun _ _ => ⟨rfl, fun _ => rfl⟩⟩

theorem ObsF.symm {S T : FS} (h : ObsF S T) : ObsF T S := by
  obtain ⟨hs, hb⟩ := h
  refine ⟨hs.symm, fun j hj => ?_⟩
  rw [← hs] at hj
  obtain ⟨h1, h2⟩ := hb j hj
  exact ⟨h1.symm, fun hm => (h2 (by rw [h1, hs]; exact hm)).symm⟩

theorem ObsF.trans {S T U : FS} (h : ObsF S T) (h' : ObsF T U) : ObsF S U := by
  obtain ⟨hs, hb⟩ := h
  obtain ⟨hs', hb'⟩ := h'
  refine ⟨hs.trans hs', fun j hj => ?_⟩
  obtain ⟨h1, h2⟩ := hb j hj
  obtain ⟨h1', h2'⟩ := hb' j (by rw [← hs]; exact hj)
  exact ⟨h1.trans h1', fun hm => (h2 hm).trans (h2' (by rw [← h1, ← hs]; exact hm))⟩

/-- **`unfold` turns `ObsF` into `Obs`** -/
theorem obsF_unfoldCore {S T : FS} (h : ObsF S T) : Obs (unfoldCore S) (unfoldCore T) := by
  obtain ⟨hs, hb⟩ := h
  refine ⟨hs, fun j hj => ?_⟩
  have hj' : j ∈ boxIdx S.shape := hj
  have hmj := mirror_mem_box S.shape j hj'
  obtain ⟨m1, d1⟩ := hb j hj'
  obtain ⟨m2, d2⟩ := hb _ hmj
  have hmsk : (unfoldCore S).msk j = (unfoldCore T).msk j := by
    show (Bool.xor (S.msk j) (foldedOut S.shape j) || Bool.xor (S.msk (mirror S.shape j)) (foldedOut S.shape (mirror S.shape j))
        || isCorner S.shape j)
      = (Bool.xor (T.msk j) (foldedOut T.shape j) || Bool.xor (T.msk (mirror T.shape j)) (foldedOut T.shape (mirror T.shape j))
        || isCorner T.shape j)
    rw [← hs, m1, m2]
  refine ⟨hmsk, fun hm => ?_⟩
  have hm' : (Bool.xor (S.msk j) (foldedOut S.shape j) || Bool.xor (S.msk (mirror S.shape j)) (foldedOut S.shape (mirror S.shape j))
        || isCorner S.shape j) = false := hm
  simp only [Bool.or_eq_false_iff] at hm'
  obtain ⟨⟨x1, x2⟩, _⟩ := hm'
  have e1 : S.msk j = foldedOut S.shape j := by
    revert x1; cases S.msk j <;> cases foldedOut S.shape j <;> simp
  have e2 : S.msk (mirror S.shape j) = foldedOut S.shape (mirror S.shape j) := by
    revert x2; cases S.msk (mirror S.shape j) <;> cases foldedOut S.shape (mirror S.shape j) <;> simp
  show (S.dat j + S.dat (mirror S.shape j)) / 2 = (T.dat j + T.dat (mirror T.shape j)) / 2
  rw [← hs, d1 e1, d2 e2]

theorem foldedOut_coef (sh : List Nat) (j : Idx) (h : foldedOut sh j = true) : foldCoef (nTotal sh) j.sum = 0 := by
  simp only [foldedOut, decide_eq_true_eq] at h
  unfold foldCoef
  rw [if_pos (by omega)]

/-- **`fold` turns `Obs` into `ObsF`** (folded-out entries hold exactly 0, whatever was under the mask) -/
theorem obs_foldCore {S T : FS} (h : Obs S T) : ObsF (foldCore S) (foldCore T) := by
  obtain ⟨hs, hb⟩ := h
  refine ⟨hs, fun j hj => ?_⟩
  have hj' : j ∈ boxIdx S.shape := hj
  have hmj := mirror_mem_box S.shape j hj'
  obtain ⟨m1, d1⟩ := hb j hj'
  obtain ⟨m2, d2⟩ := hb _ hmj
  have hmsk : (foldCore S).msk j = (foldCore T).msk j := by
    show (S.msk j || S.msk (mirror S.shape j) || foldedOut S.shape j || isCorner S.shape j)
      = (T.msk j || T.msk (mirror T.shape j) || foldedOut T.shape j || isCorner T.shape j)
    rw [← hs, m1, m2]
  refine ⟨hmsk, fun hm => ?_⟩
  rw [foldCore_dat_closed S j hj', foldCore_dat_closed T j (by show j ∈ boxIdx T.shape; rw [← hs]; exact hj'), ← hs]
  cases hfo : foldedOut S.shape j
  · have hm' : (S.msk j || S.msk (mirror S.shape j) || foldedOut S.shape j || isCorner S.shape j) = false := by
      have : (foldCore S).msk j = foldedOut (foldCore S).shape j := hm
      rw [show (foldCore S).shape = S.shape from rfl, hfo] at this
      exact this
    simp only [Bool.or_eq_false_iff] at hm'
    rw [d1 hm'.1.1.1, d2 hm'.1.1.2]
  · rw [foldedOut_coef S.shape j hfo, zero_mul, zero_mul]

theorem obs_update' (X : FS) (f : Bool) (l : Option (List String)) : Obs X { X with folded := f, labels := l } :=
  ⟨rfl, fun _ _ => ⟨rfl, fun _ => rfl⟩⟩

/-- the public `project` on folded input respects `ObsF` (it is `fold ∘ loop ∘ unfold`) -/
theorem obsF_project {S T : FS} (ms : List Nat) (hS : S.folded = true) (hT : T.folded = true) (h : ObsF S T) :
    (project ms S = none ∧ project ms T = none) ∨
    ∃ A B, project ms S = some A ∧ project ms T = some B ∧ ObsF A B := by
  have hnd : S.ndim = T.ndim := by unfold FS.ndim; rw [h.1]
  by_cases hc : (ms.length ≠ S.ndim || (List.zipWith (fun m s => decide (s < m + 1)) ms S.shape).any id) = true
  · left
    constructor
    · simp only [project, hc, if_true]
    · have hc' : (ms.length ≠ T.ndim || (List.zipWith (fun m s => decide (s < m + 1)) ms T.shape).any id) = true := by
        rw [← hnd, ← h.1]; exact hc
      simp only [project, hc', if_true]
  · right
    have hc' : ¬ (ms.length ≠ T.ndim || (List.zipWith (fun m s => decide (s < m + 1)) ms T.shape).any id) = true := by
      rw [← hnd, ← h.1]; exact hc
    refine ⟨_, _, by simp only [project, hc, hS]; rfl, by simp only [project, hc', hT]; rfl, ?_⟩
    apply obs_foldCore
    exact ((obs_update _ _ _).trans (obs_projectCore ms (obsF_unfoldCore h))).trans (obs_update' _ _ _)

/-! ### plain `Obs` is NOT a congruence for `unfold` -/

/-- a folded 1-population spectrum (n = 3): mask = corner 0, folded-out 2 and 3; one unit at count 1; `v` under the folded-out mask at 2 -/
def foldedWitness (v : ℚ) : FS :=
  { shape := [4], dat := fun i => if i = [1] then 1 else if i = [2] then v else 0,
    msk := fun i => i == [0] || i == [2] || i == [3], folded := true, labels := none }

/-- two folded spectra that nobody can tell apart (same mask, same data at every unmasked entry) whose unfoldings differ at an
    UNMASKED entry: `unfold` reads the value under the folded-out mask.  They are not `ObsF`-related. -/
theorem obs_not_congr_unfold :
    Obs (foldedWitness 0) (foldedWitness 7) ∧ ¬ Obs (unfoldCore (foldedWitness 0)) (unfoldCore (foldedWitness 7)) ∧
    ¬ ObsF (foldedWitness 0) (foldedWitness 7) := by
  have hbox : [1] ∈ boxIdx [4] := by decide
  have hbox2 : [2] ∈ boxIdx [4] := by decide
  refine ⟨⟨rfl, fun j _ => ⟨rfl, fun hm => ?_⟩⟩, ?_, ?_⟩
  · by_cases h2 : j = [2]
    · subst h2; simp [foldedWitness] at hm
    · simp [foldedWitness, h2]
  · rintro ⟨_, hb⟩
    obtain ⟨_, hd⟩ := hb [1] hbox
    have hm : (unfoldCore (foldedWitness 0)).msk [1] = false := by decide
    have := hd hm
    have e : mirror [4] [1] = [2] := by decide
    simp only [unfoldCore, foldedWitness, e] at this
    norm_num at this
  · rintro ⟨_, hb⟩
    obtain ⟨_, hd⟩ := hb [2] hbox2
    have hm : (foldedWitness 0).msk [2] = foldedOut (foldedWitness 0).shape [2] := by decide
    have := hd hm
    simp only [foldedWitness] at this
    norm_num at this

end DadiVerif.PopOps
