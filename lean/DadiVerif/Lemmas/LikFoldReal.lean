import DadiVerif.Lemmas.LikFold
import DadiVerif.Lemmas.Likelihood
import Mathlib.Data.Rat.Cast.CharZero
/-!
# C11 ↔ C09 over the reals: rational-valued spectra (every float is one) seen in the `ℝ` instance of the likelihood model

* the hand-written fold commutes with the embedding `ℚ → ℝ`, so the effective model of the `ℝ` theorems is the image of
  C09's folded spectrum (`effModel_cast_fold`);
* sums over the jointly unmasked entries of the `ℝ` model are the images of finite sums over positions (`sumM_joint_cast`);
* folding conserves model and data totals over the jointly unmasked entries when the joint mask is mirror-symmetric and
  contains the corners, hence the optimal scaling against folded data equals the one against the unfolded data.
-/
namespace DadiVerif.Lik
open Fold Gen.Fold Gen.Lik Finset
noncomputable section

def castCell (c : Cell ℚ) : Cell ℝ := ⟨(c.val : ℝ), c.mask, c.bad⟩
def castSpec (M : MSpec ℚ) : MSpec ℝ := ⟨M.shape, M.cells.map castCell, M.folded⟩

@[simp] theorem castSpec_folded (M : MSpec ℚ) : (castSpec M).folded = M.folded := rfl
@[simp] theorem castSpec_cells (M : MSpec ℚ) : (castSpec M).cells = M.cells.map castCell := rfl

theorem foldCell_cast (shape : List ℕ) (n k : ℕ) (x y : Cell ℚ) :
    foldCell shape n k (castCell x) (castCell y) = castCell (foldCell shape n k x y) := by
  simp only [foldCell, castCell, Cell.mk.injEq]
  refine ⟨?_, trivial, trivial⟩
  split_ifs <;> push_cast <;> ring

theorem foldCells_cast (shape : List ℕ) (cs : List (Cell ℚ)) :
    foldCells shape (cs.map castCell) = (foldCells shape cs).map castCell := by
  simp only [foldCells, List.length_map, ← List.map_reverse, List.zip_map, List.zipWith_map_right, List.map_zipWith]
  congr 1
  funext k p
  exact foldCell_cast shape cs.length k p.1 p.2

theorem foldSpec_cast (M : MSpec ℚ) : foldSpec (castSpec M) = castSpec (foldSpec M) := by
  simp only [foldSpec, castSpec, foldCells_cast]

/-- the model that is compared with the data, for rational-valued spectra -/
theorem effModel_cast (M D : MSpec ℚ) :
    effModel (castSpec M) (castSpec D) = castSpec (if D.folded && !M.folded then foldSpec M else M) := by
  unfold effModel
  by_cases h : (D.folded && !M.folded) = true
  · simp only [castSpec_folded, h, if_true, foldSpec_cast]
  · simp only [castSpec_folded, h]; rfl

/-- folded data, unfolded well-formed model: the effective model is (the image of) what C09's `Spectrum.fold` returns -/
theorem effModel_cast_fold (M D : MSpec ℚ) (hD : D.folded = true) (hM : M.folded = false)
    (hlen : M.cells.length = prodL M.shape) (hbad : ∀ c ∈ M.cells, c.bad = false)
    (F : Spec) (hF : Fold.foldSpec (toC09 M) = .ok F) :
    effModel (castSpec M) (castSpec D) = castSpec (ofC09 F)
    ∧ effModel (castSpec (ofC09 F)) (castSpec D) = castSpec (ofC09 F) := by
  have hf : (toC09 M).folded = false := hM
  rw [foldSpec_eq, hf] at hF
  simp only [Bool.false_eq_true, if_false, Res.ok.injEq] at hF
  subst hF
  rw [effModel_cast, effModel_cast, ← foldSpec_eq_C09 M hlen hbad]
  simp [hD, hM, foldSpec]

/-! ### sums over jointly unmasked entries as finite sums over positions -/

theorem joint_cons (a b : Cell ℝ) (m d : List (Cell ℝ)) :
    joint (a :: m) (b :: d) = (if (!a.mask && !b.mask) = true then [(a.val, b.val)] else []) ++ joint m d := by
  unfold joint
  by_cases h : (!a.mask && !b.mask) = true <;> simp [h]

theorem sum_joint_cast (m d : List (Cell ℚ)) (h : m.length = d.length) :
    sumM (joint (m.map castCell) (d.map castCell))
        = ((∑ k ∈ range m.length, (if (maskAt m k || maskAt d k) then 0 else valAt m k) : ℚ) : ℝ)
    ∧ sumD (joint (m.map castCell) (d.map castCell))
        = ((∑ k ∈ range m.length, (if (maskAt m k || maskAt d k) then 0 else valAt d k) : ℚ) : ℝ) := by
  induction m generalizing d with
  | nil => simp [joint]
  | cons a m ih =>
    cases d with
    | nil => simp at h
    | cons b d =>
      have hl : m.length = d.length := by simpa using h
      obtain ⟨i1, i2⟩ := ih d hl
      simp only [List.map_cons, joint_cons, List.length_cons, Finset.sum_range_succ', valAt_cons_succ, maskAt_cons_succ,
        valAt_cons_zero, maskAt_cons_zero]
      have eM : ∀ l1 l2 : List (ℝ × ℝ), sumM (l1 ++ l2) = sumM l1 + sumM l2 := by intro l1 l2; simp [sumM]
      have eD : ∀ l1 l2 : List (ℝ × ℝ), sumD (l1 ++ l2) = sumD l1 + sumD l2 := by intro l1 l2; simp [sumD]
      constructor
      · rw [eM, i1, Rat.cast_add]
        cases ha : a.mask <;> cases hb : b.mask <;> simp [castCell, ha, hb, add_comm]
      · rw [eD, i2, Rat.cast_add]
        cases ha : a.mask <;> cases hb : b.mask <;> simp [castCell, ha, hb, add_comm]

/-! ### folding conserves the totals over the jointly unmasked entries — when the joint mask is symmetric -/

/-- the joint mask (model ∨ data) is invariant under the allele-swap mirror `k ↦ N-1-k` -/
def JointSym (Mu Du : MSpec ℚ) : Prop :=
  ∀ k < Mu.cells.length,
    (maskAt Mu.cells (mirrorFlat Mu.cells.length k) || maskAt Du.cells (mirrorFlat Mu.cells.length k))
      = (maskAt Mu.cells k || maskAt Du.cells k)

/-- the joint mask contains the two corner entries -/
def JointCorners (Mu Du : MSpec ℚ) : Prop :=
  ∀ k < Mu.cells.length, cornerFlat Mu.cells.length k = true → (maskAt Mu.cells k || maskAt Du.cells k) = true

/-- both spectra have as many finite cells as the common shape says -/
structure WF2 (Mu Du : MSpec ℚ) : Prop where
  shape : Du.shape = Mu.shape
  lenM  : Mu.cells.length = prodL Mu.shape
  lenD  : Du.cells.length = prodL Du.shape
  badM  : ∀ c ∈ Mu.cells, c.bad = false
  badD  : ∀ c ∈ Du.cells, c.bad = false

/-- one half of the statement: the total of `fold(A)` over the entries visible in both `fold(A)` and `fold(B)` is the total of
    `A` over the entries visible in both `A` and `B` -/
theorem fold_joint_sum_aux (A B : MSpec ℚ) (hsh : B.shape = A.shape) (hA : A.cells.length = prodL A.shape)
    (_hB : B.cells.length = prodL B.shape)
    (hs : ∀ k < A.cells.length,
      (maskAt A.cells (mirrorFlat A.cells.length k) || maskAt B.cells (mirrorFlat A.cells.length k))
        = (maskAt A.cells k || maskAt B.cells k))
    (hc : ∀ k < A.cells.length, cornerFlat A.cells.length k = true → (maskAt A.cells k || maskAt B.cells k) = true) :
    ∑ k ∈ range A.cells.length, (if ((foldOut (toC09 A)).m k || (foldOut (toC09 B)).m k) then 0 else (foldOut (toC09 A)).x k)
      = ∑ k ∈ range A.cells.length, (if (maskAt A.cells k || maskAt B.cells k) then 0 else valAt A.cells k) := by
  have hN : (toC09 A).N = A.cells.length := by rw [toC09_N, hA]
  have hNB : (toC09 B).N = A.cells.length := by rw [toC09_N, hsh, hA]
  have key := foldOut_joint_total (toC09 A) (foldOut (toC09 B)).m
    (fun k => (toC09 B).m k || (toC09 B).m (mirrorFlat (toC09 A).N k) || cornerFlat (toC09 A).N k)
    (by
      intro k hk
      simp only [mirrorFlat_invol hk, cornerFlat_mirror hk]
      cases (toC09 B).m k <;> cases (toC09 B).m (mirrorFlat (toC09 A).N k) <;> rfl)
    (by
      intro k hk hf
      have hkB : k < (toC09 B).N := by rw [hNB, ← hN]; exact hk
      rw [foldOut_m (toC09 B) hkB]
      have e1 : (toC09 B).shape = (toC09 A).shape := hsh
      have e2 : (toC09 B).N = (toC09 A).N := by rw [hNB, hN]
      rw [e1, e2, hf]; simp)
  rw [hN] at key
  rw [key]
  refine Finset.sum_congr rfl (fun k hk => ?_)
  have hk' := mem_range.mp hk
  have h1 := hs k hk'
  have h2 := hc k hk'
  simp only [toC09_m, toC09_x]
  clear key hs hc
  generalize cornerFlat A.cells.length k = c at *
  generalize maskAt A.cells (mirrorFlat A.cells.length k) = a' at *
  generalize maskAt B.cells (mirrorFlat A.cells.length k) = b' at *
  generalize maskAt A.cells k = a at *
  generalize maskAt B.cells k = b at *
  revert h1 h2
  cases c <;> cases a <;> cases b <;> cases a' <;> cases b' <;> simp

theorem joint_fold_sums (Mu Du : MSpec ℚ) (wf : WF2 Mu Du) (hs : JointSym Mu Du) (hc : JointCorners Mu Du) :
    sumM (joint (castSpec (foldSpec Mu)).cells (castSpec (foldSpec Du)).cells)
        = sumM (joint (castSpec Mu).cells (castSpec Du).cells)
    ∧ sumD (joint (castSpec (foldSpec Mu)).cells (castSpec (foldSpec Du)).cells)
        = sumD (joint (castSpec Mu).cells (castSpec Du).cells) := by
  have hlen : Mu.cells.length = Du.cells.length := by rw [wf.lenM, wf.lenD, wf.shape]
  have hNM : (toC09 Mu).N = Mu.cells.length := by rw [toC09_N, wf.lenM]
  have hND : (toC09 Du).N = Mu.cells.length := by rw [toC09_N, ← wf.lenD, hlen]
  have hfl : (ofC09 (foldOut (toC09 Mu))).cells.length = (ofC09 (foldOut (toC09 Du))).cells.length := by
    rw [ofC09_length, ofC09_length, foldOut_N, foldOut_N, hNM, hND]
  obtain ⟨f1, f2⟩ := sum_joint_cast _ _ hfl
  obtain ⟨u1, u2⟩ := sum_joint_cast Mu.cells Du.cells hlen
  rw [foldSpec_eq_C09 Mu wf.lenM wf.badM, foldSpec_eq_C09 Du wf.lenD wf.badD]
  simp only [castSpec_cells]
  rw [f1, f2, u1, u2, ofC09_length, foldOut_N, hNM]
  have hs' : ∀ k < Du.cells.length,
      (maskAt Du.cells (mirrorFlat Du.cells.length k) || maskAt Mu.cells (mirrorFlat Du.cells.length k))
        = (maskAt Du.cells k || maskAt Mu.cells k) := by
    intro k hk; rw [← hlen] at hk ⊢; rw [Bool.or_comm, hs k hk, Bool.or_comm]
  have hc' : ∀ k < Du.cells.length, cornerFlat Du.cells.length k = true → (maskAt Du.cells k || maskAt Mu.cells k) = true := by
    intro k hk h; rw [← hlen] at hk h; rw [Bool.or_comm]; exact hc k hk h
  have a1 := fold_joint_sum_aux Mu Du wf.shape wf.lenM wf.lenD hs hc
  have a2 := fold_joint_sum_aux Du Mu wf.shape.symm wf.lenD wf.lenM hs' hc'
  rw [← hlen] at a2
  constructor
  · congr 1
    rw [← a1]
    refine Finset.sum_congr rfl (fun k hk => ?_)
    have hk' := mem_range.mp hk
    rw [ofC09_valAt _ (by rw [foldOut_N, hNM]; exact hk'), ofC09_maskAt _ (by rw [foldOut_N, hNM]; exact hk'),
      ofC09_maskAt _ (by rw [foldOut_N, hND]; exact hk')]
  · congr 1
    have a2' : ∑ k ∈ range Mu.cells.length, (if (maskAt Mu.cells k || maskAt Du.cells k) then 0 else valAt Du.cells k)
        = ∑ k ∈ range Mu.cells.length, (if (maskAt Du.cells k || maskAt Mu.cells k) then 0 else valAt Du.cells k) :=
      Finset.sum_congr rfl (fun k _ => by rw [Bool.or_comm])
    rw [a2', ← a2]
    refine Finset.sum_congr rfl (fun k hk => ?_)
    have hk' := mem_range.mp hk
    rw [ofC09_valAt _ (by rw [foldOut_N, hND]; exact hk'), ofC09_maskAt _ (by rw [foldOut_N, hNM]; exact hk'),
      ofC09_maskAt _ (by rw [foldOut_N, hND]; exact hk'), Bool.or_comm]

/-- **the optimal scaling does not depend on whether the comparison is made folded or unfolded** (joint mask symmetric,
    corners masked): `optimal_sfs_scaling(model, data.fold())` — which folds the model — is `optimal_sfs_scaling(model, data)` -/
theorem theta_fold_consistent (Mu Du : MSpec ℚ) (hM : Mu.folded = false) (hD : Du.folded = false) (wf : WF2 Mu Du)
    (hs : JointSym Mu Du) (hc : JointCorners Mu Du)
    (c1 : CornerOK (castSpec (foldSpec Mu)).cells (castSpec (foldSpec Du)).cells)
    (c2 : CornerOK (castSpec Mu).cells (castSpec Du).cells) :
    (optimalScaling (castSpec Mu) (castSpec (foldSpec Du))).val = (optimalScaling (castSpec Mu) (castSpec Du)).val := by
  obtain ⟨e1, e2⟩ := joint_fold_sums Mu Du wf hs hc
  have hE1 : effModel (castSpec Mu) (castSpec (foldSpec Du)) = castSpec (foldSpec Mu) := by
    rw [effModel_cast]; simp [foldSpec, hM]
  have hE2 : effModel (castSpec Mu) (castSpec Du) = castSpec Mu := by
    rw [effModel_cast]; simp [hD]
  rw [optimalScaling_eq, optimalScaling_eq, hE1, hE2, theta_val _ _ c1, theta_val _ _ c2, e1, e2]

/-! ### folded data with an arbitrary mask (e.g. singletons masked after folding) -/

/-- the entry of the folded spectrum that the unfolded entry `k` is added to -/
def foldImage (shape : List ℕ) (n k : ℕ) : ℕ :=
  if fo (Fold.totalFlat shape) (Fold.totalSamples shape) k then mirrorFlat n k else k

/-- The total of the folded model over the entries visible in both it and the (folded) data `D` is the total of the
    unfolded model over the entries that are visible together with their mirror image, are no corner, and whose image under
    folding is visible in `D` — provided `D`'s mask treats the two members of an ambiguous pair alike (always true of the
    mask `Spectrum.fold` produces). -/
theorem fold_joint_total_general (M D : MSpec ℚ) (hlenM : M.cells.length = prodL M.shape)
    (hlenD : D.cells.length = M.cells.length) (hbad : ∀ c ∈ M.cells, c.bad = false)
    (hamb : ∀ k < M.cells.length, 2 * Fold.totalFlat M.shape k = Fold.totalSamples M.shape →
      maskAt D.cells (mirrorFlat M.cells.length k) = maskAt D.cells k) :
    sumM (joint (castSpec (foldSpec M)).cells (castSpec D).cells)
      = ((∑ k ∈ range M.cells.length,
            (if !(maskAt M.cells k || maskAt M.cells (mirrorFlat M.cells.length k) || cornerFlat M.cells.length k
                  || maskAt D.cells (foldImage M.shape M.cells.length k)) then valAt M.cells k else 0) : ℚ) : ℝ) := by
  have hN : (toC09 M).N = M.cells.length := by rw [toC09_N, hlenM]
  have hfl : (ofC09 (foldOut (toC09 M))).cells.length = D.cells.length := by
    rw [ofC09_length, foldOut_N, hN, hlenD]
  rw [foldSpec_eq_C09 M hlenM hbad]
  simp only [castSpec_cells]
  rw [(sum_joint_cast _ _ hfl).1, ofC09_length, foldOut_N, hN]
  congr 1
  have key := foldOut_joint_total (toC09 M) (maskAt D.cells)
    (fun k => maskAt D.cells (foldImage M.shape (toC09 M).N k))
    (by
      intro k hk
      have hl := (toC09 M).loc hk
      have h1 := hl.tot; have h2 := hl.le
      have hk' : k < M.cells.length := by rw [← hN]; exact hk
      have ha := hamb k hk'
      rw [← hN] at ha
      simp only [foldImage, fo, toC09_shape] at h1 h2 ⊢
      by_cases f1 : 2 * Fold.totalFlat M.shape k > Fold.totalSamples M.shape <;>
        by_cases f2 : 2 * Fold.totalFlat M.shape (mirrorFlat (toC09 M).N k) > Fold.totalSamples M.shape
      · exfalso; omega
      · simp [f1, f2]
      · simp [f1, f2, mirrorFlat_invol hk]
      · simp only [f1, f2, decide_false, Bool.false_eq_true, if_false]
        exact ha (by omega))
    (by
      intro k _ hf
      simp only [foldImage, toC09_shape] at hf ⊢
      rw [hf]; simp)
  rw [hN] at key
  have e1 : ∀ k ∈ range M.cells.length,
      (if (maskAt (ofC09 (foldOut (toC09 M))).cells k || maskAt D.cells k) then 0 else valAt (ofC09 (foldOut (toC09 M))).cells k)
        = (if ((foldOut (toC09 M)).m k || maskAt D.cells k) then 0 else (foldOut (toC09 M)).x k) := by
    intro k hk
    have hk' := mem_range.mp hk
    rw [ofC09_valAt _ (by rw [foldOut_N, hN]; exact hk'), ofC09_maskAt _ (by rw [foldOut_N, hN]; exact hk')]
  rw [Finset.sum_congr rfl e1, key]
  refine Finset.sum_congr rfl (fun k _ => ?_)
  simp only [toC09_m, toC09_x]

end
end DadiVerif.Lik
