import DadiVerif.Lemmas.DataDictPi
/-! Infrastructure for C13, part 7: the composition `bootstraps_subsample_vcf` (sub-sample -> dictionary -> chunks -> bootstrap). -/
namespace DadiVerif
open DataDict Gen.DD

/-- the generated dictionary lookup is the lookup the sub-sampling model uses -/
theorem dictGet_eq_wanted (want : List (ℕ × ℕ)) (p : ℕ) : dictGet want p = wanted want p := rfl

/-- calls listed in `pop_ids` order that add up to two chromosomes per requested individual of that population -/
def SubsampledCalls (want : List (ℕ × ℕ)) (popIds : List ℕ) (cl : List (ℕ × ℕ)) : Prop :=
  List.Forall₂ (fun p c => c.1 + c.2 = 2 * wanted want p) popIds cl

theorem enoughCalls_self (proj : List ℕ) : enoughCalls proj proj = true := by
  induction proj with
  | nil => rfl
  | cons p ps ih => simp [enoughCalls, ih]

theorem mem_of_mem_fragment (size : ℕ) (snps : List Snp) (c : List Snp) (hc : c ∈ fragment size snps) (s : Snp) (hs : s ∈ c) :
    s ∈ snps := by
  unfold fragment at hc
  obtain ⟨ch, _, hc⟩ := List.mem_flatMap.mp hc
  unfold chunksOfChrom at hc
  obtain ⟨k, _, rfl⟩ := List.mem_map.mp hc
  exact (List.mem_filter.mp (List.mem_filter.mp hs).1).1

theorem lookup_forall₂ (want : List (ℕ × ℕ)) (res : List (ℕ × (ℕ × ℕ)))
    (hres : ∀ pc ∈ res, pc.2.1 + pc.2.2 = 2 * wanted want pc.1) (popIds : List ℕ) (cl : List (ℕ × ℕ))
    (hcl : popIds.mapM (fun p => (res.find? (·.1 == p)).map (·.2)) = some cl) :
    SubsampledCalls want popIds cl := by
  unfold SubsampledCalls
  induction popIds generalizing cl with
  | nil =>
    simp at hcl
    subst hcl
    exact List.Forall₂.nil
  | cons p ps ih =>
    rw [List.mapM_cons] at hcl
    cases hf : res.find? (·.1 == p) with
    | none => simp [hf] at hcl
    | some x =>
      cases hm : ps.mapM (fun p => (res.find? (·.1 == p)).map (·.2)) with
      | none => simp [hf, hm] at hcl
      | some t =>
        simp [hf, hm] at hcl
        subst hcl
        refine List.Forall₂.cons ?_ (ih t hm)
        have hx := List.find?_some hf
        have hmem := List.mem_of_find?_eq_some hf
        have := hres x hmem
        have e : x.1 = p := by simpa using hx
        rw [← e]; exact this

end DadiVerif
