/- C13, round 7: the genotype-token decisions of both branches of `make_data_dict_vcf` (generated `vcfSubDrawable`, `vcfNoSubSkip`,
   `vcfGtStride`, `vcfGtRefTok`, `vcfGtAltTok`) against the abstract level (`complete`, `countAllele`). -/
import DadiVerif.Model.DataDict
import Mathlib.Tactic.Ring
import Mathlib.Tactic.Linarith

namespace DadiVerif.DataDict
open DadiVerif.Gen.DD

/-- the generated test of the sub-sampling branch, on ANY texts: no '.' anywhere in GT, and the depth is neither `0` nor `.` -/
theorem vcfSubDrawable_iff (gt : List Char) (dp : Option (List Char)) :
    vcfSubDrawable gt dp = true ↔ ('.' ∉ gt ∧ dp ≠ some "0".toList ∧ dp ≠ some ".".toList) := by
  unfold vcfSubDrawable
  simp

theorem vcfNoSubSkip_iff (ad dp : Option (List Char)) :
    vcfNoSubSkip ad dp = true ↔ (ad = some "0,0".toList ∨ dp = some "0".toList ∨ dp = some ".".toList) := by
  unfold vcfNoSubSkip
  simp only [List.any_cons, List.any_nil, Bool.or_false, Bool.or_eq_true, beq_iff_eq]

theorem alleleChar_eq_dot (a : Nat) : alleleChar a = '.' ↔ a = 9 := by
  unfold alleleChar
  split <;> simp_all

theorem alleleChar_eq_zero (a : Nat) : alleleChar a = '0' ↔ a = 0 := by
  unfold alleleChar
  split <;> simp_all

theorem alleleChar_eq_one (a : Nat) : alleleChar a = '1' ↔ a = 1 := by
  unfold alleleChar
  split <;> simp_all

theorem mem_intersperse_ne {c sep : Char} (h : c ≠ sep) : ∀ l : List Char, c ∈ l.intersperse sep ↔ c ∈ l
  | [] => by simp
  | [x] => by simp
  | x :: y :: zs => by
      have ih := mem_intersperse_ne h (y :: zs)
      simp only [List.intersperse_cons_cons, List.mem_cons] at ih ⊢
      rw [ih]
      constructor
      · rintro (h1 | h1 | h1)
        · exact Or.inl h1
        · exact absurd h1 h
        · exact Or.inr h1
      · rintro (h1 | h1)
        · exact Or.inl h1
        · exact Or.inr (Or.inr h1)

/-- a missing allele anywhere in the genotype shows as a '.' in the GT text, and nothing else does -/
theorem dot_mem_gtText (al : List Nat) : '.' ∈ gtText al ↔ 9 ∈ al := by
  unfold gtText
  rw [mem_intersperse_ne (by decide)]
  simp [alleleChar_eq_dot]

/-- text level = abstract level: the generated test on the texts of an individual is `complete` -/
theorem indivDrawable_eq_complete (x : Indiv) : indivDrawable x = complete x := by
  rw [Bool.eq_iff_iff, indivDrawable, vcfSubDrawable_iff, dot_mem_gtText]
  unfold complete dpText
  cases hn : x.nodata
  · simp only [Bool.false_eq_true, if_false, ne_eq, reduceCtorEq, not_false_eq_true, and_self, and_true, List.any_eq_true, beq_iff_eq,
      Bool.not_false, Bool.and_true, Bool.not_eq_true', Bool.not_eq_eq_eq_not, Bool.not_true]
    constructor
    · intro h; by_contra hc
      simp only [Bool.not_eq_false, List.any_eq_true, beq_iff_eq] at hc
      obtain ⟨a, ha, rfl⟩ := hc; exact h ha
    · intro h h9
      have : (x.alleles.any fun x => x == 9) = true := List.any_eq_true.mpr ⟨9, h9, by simp⟩
      simp [this] at h
  · simp

theorem complete_iff (x : Indiv) : complete x = true ↔ (∀ a ∈ x.alleles, a ≠ 9) ∧ x.nodata = false := by
  unfold complete
  simp

end DadiVerif.DataDict
