import DadiVerif.Lemmas.PopOpsProjComb
import DadiVerif.Lemmas.PopOpsMask
/-! C10: the folded path of `marginalize` (unfold → sum axes → mask corners → fold) end to end, masks AND data:
    `marginalize(fold U) ≈ fold(marginalize U)` for a spectrum without masked entries. -/
namespace DadiVerif.PopOps

/-- every cell of the reduced box has a contributor -/
theorem dropAxes_fibre_nonempty (ks : List Nat) (sh : List Nat) (hpos : ∀ s ∈ sh, 1 ≤ s) (hks : ValidDrops ks sh.length)
    (j : Idx) (hj : j ∈ boxIdx (dropAxes ks sh)) : ∃ i ∈ boxIdx sh, dropAxes ks i = j := by
  induction ks generalizing sh with
  | nil => exact ⟨j, hj, rfl⟩
  | cons k ks ih =>
    obtain ⟨hk, hks'⟩ := hks
    rw [dropAxes_cons] at hj
    obtain ⟨i', hi', hij'⟩ := ih (sh.eraseIdx k) (fun s hs => hpos s (List.mem_of_mem_eraseIdx hs))
      (by rw [List.length_eraseIdx]; simpa [hk] using hks') hj
    obtain ⟨i, hi, hii'⟩ := eraseIdx_fibre_nonempty sh k hk hpos i' hi'
    exact ⟨i, hi, by rw [dropAxes_cons, hii', hij']⟩

theorem clean_marginalizeCore (ks : List Nat) (S : FS) (hc : Clean S) (hks : ValidDrops ks S.ndim) :
    Clean (marginalizeCore ks S) := by
  induction ks generalizing S with
  | nil => exact hc
  | cons k ks ih =>
    obtain ⟨hk, hks'⟩ := hks
    rw [marginalizeCore_cons]
    refine ih _ (clean_sumAxis k hk hc) ?_
    have : (sumAxis k S).ndim = S.ndim - 1 := by
      show (S.shape.eraseIdx k).length = _
      rw [List.length_eraseIdx]
      have : k < S.shape.length := hk
      simp [this, FS.ndim]
    rw [this]; exact hks'

theorem marginalize_folded (over : List Nat) (mc : Bool) (S : FS) (hf : S.folded = true)
    (hn : over.Nodup) (hv : ∀ k ∈ over, k < S.ndim) (hl : over.length < S.ndim) :
    marginalize over mc S = some (foldCore
      (if mc then maskCorners { marginalizeCore (sortDesc over) (unfoldCore S) with folded := false, labels := S.labels.map (dropAxes (sortDesc over)) }
       else { marginalizeCore (sortDesc over) (unfoldCore S) with folded := false, labels := S.labels.map (dropAxes (sortDesc over)) })) := by
  have hperm := sortDesc_perm over
  have hcond : ((sortDesc over).any (fun k => decide (S.ndim ≤ k)) || !(decide (sortDesc over).Nodup)
      || decide (S.ndim ≤ (sortDesc over).length)) = false := by
    have h1 : (sortDesc over).any (fun k => decide (S.ndim ≤ k)) = false := by
      rw [List.any_eq_false]; intro k hk
      have := hv k (hperm.mem_iff.1 hk); simp; omega
    have h2 : (sortDesc over).Nodup := hperm.nodup_iff.2 hn
    have h3 : ¬ S.ndim ≤ (sortDesc over).length := by rw [hperm.length_eq]; omega
    simp [h1, h2, h3]
  simp only [marginalize, hcond, hf]
  rfl

/-- the all-contributors-masked rule applied to the corner mask leaves (at most) corners -/
theorem allL_corner (ks : List Nat) (sh : List Nat) (hpos : ∀ s ∈ sh, 1 ≤ s) (hks : ValidDrops ks sh.length)
    (j : Idx) (hj : j ∈ boxIdx (dropAxes ks sh)) (h : allL (boxIdx sh) (dropAxes ks) (isCorner sh) j = true) :
    isCorner (dropAxes ks sh) j = true := by
  obtain ⟨i, hi, hij⟩ := dropAxes_fibre_nonempty ks sh hpos hks j hj
  simp only [allL, List.all_eq_true, List.mem_filter, beq_iff_eq, and_imp] at h
  rw [← hij]
  exact isCorner_dropAxes ks sh i (h i hi hij)

theorem mem_box_dropAxes_mirror (ks sh : List Nat) (j : Idx) (hj : j ∈ boxIdx (dropAxes ks sh)) :
    mirror (dropAxes ks sh) j ∈ boxIdx (dropAxes ks sh) := mirror_mem_box _ j hj

/-- **the folded path of `marginalize`, end to end**: for an unfolded spectrum `U` without masked entries,
    `marginalize(over)(fold U)` (which unfolds, sums, masks the corners and folds again) is observationally the fold of
    `marginalize(over)(U)`: same shape, same mask (= folded-out region ∪ corners), same data at every unmasked entry -/
theorem marginalize_fold_obs (over : List Nat) (U : FS) (hf : U.folded = false) (hc : Clean U)
    (hn : over.Nodup) (hv : ∀ k ∈ over, k < U.ndim) (hl : over.length < U.ndim) :
    ∃ R M, marginalize over true (foldCore U) = some R ∧ marginalize over true U = some M ∧
      Obs R (foldCore M) ∧ R.labels = (foldCore M).labels ∧ R.folded = true ∧
      ∀ j ∈ boxIdx R.shape, R.msk j = (foldedOut R.shape j || isCorner R.shape j) := by
  set ks := sortDesc over with hks
  have hvalid : ValidDrops ks U.shape.length :=
    validDrops_desc ks U.ndim (sortDesc_desc over hn) (fun k hk => hv k ((sortDesc_perm over).mem_iff.1 hk))
  have hR := marginalize_folded over true (foldCore U) rfl hn hv hl
  have hM := marginalize_unfolded over true U hf hn hv hl
  rw [← hks] at hR hM
  simp only [if_true] at hR hM
  set V := unfoldCore (foldCore U) with hV
  set sh' := dropAxes ks U.shape with hsh'
  have hVbox : V.box = U.box := rfl
  have hVmsk : ∀ i ∈ U.box, V.msk i = isCorner U.shape i := fun i hi => unfold_fold_msk U hc i hi
  have hVdat : ∀ i ∈ U.box, V.dat i = symDat U.shape U.dat i := fun i hi => unfold_fold_dat U i hi
  -- the two spectra before the final fold
  set X : FS := maskCorners { marginalizeCore ks V with folded := false, labels := (foldCore U).labels.map (dropAxes ks) } with hX
  set M : FS := maskCorners { marginalizeCore ks U with folded := false, labels := U.labels.map (dropAxes ks) } with hMd
  have hXsh : X.shape = sh' := marginalizeCore_shape ks V
  have hMsh : M.shape = sh' := marginalizeCore_shape ks U
  have hcm : Clean (marginalizeCore ks U) := clean_marginalizeCore ks U hc hvalid
  -- masks before the fold: exactly the corners, on both sides
  have hXmsk : ∀ j ∈ boxIdx sh', X.msk j = isCorner sh' j := by
    intro j hj
    show ((marginalizeCore ks V).msk j || isCorner (marginalizeCore ks V).shape j) = _
    rw [marginalizeCore_shape ks V, marginalizeCore_msk ks V j hj]
    show (allL U.box (dropAxes ks) V.msk j || isCorner sh' j) = _
    rw [allL_congr _ _ _ (isCorner U.shape) j (fun i hi _ => hVmsk i hi)]
    cases h1 : allL U.box (dropAxes ks) (isCorner U.shape) j
    · simp
    · rw [allL_corner ks U.shape hc.1 hvalid j hj h1]; rfl
  have hMmsk : ∀ j ∈ boxIdx sh', M.msk j = isCorner sh' j := by
    intro j hj
    show ((marginalizeCore ks U).msk j || isCorner (marginalizeCore ks U).shape j) = _
    rw [marginalizeCore_shape ks U, hcm.2 j (by show j ∈ boxIdx (marginalizeCore ks U).shape; rw [marginalizeCore_shape]; exact hj)]
    rw [Bool.false_or]
  have hfoldmsk : ∀ (Y : FS), Y.shape = sh' → (∀ j ∈ boxIdx sh', Y.msk j = isCorner sh' j) → ∀ j ∈ boxIdx sh',
      (foldCore Y).msk j = (foldedOut sh' j || isCorner sh' j) := by
    intro Y hY hYm j hj
    show (Y.msk j || Y.msk (mirror Y.shape j) || foldedOut Y.shape j || isCorner Y.shape j) = _
    rw [hY, hYm j hj, hYm _ (mirror_mem_box sh' j hj), isCorner_mirror sh' j hj]
    cases isCorner sh' j <;> cases foldedOut sh' j <;> rfl
  -- data before the fold at non-corner cells
  have hXdat : ∀ j ∈ boxIdx sh', isCorner sh' j = false → X.dat j = pushL U.box (dropAxes ks) (symDat U.shape U.dat) j := by
    intro j hj hnc
    have hm0 : (marginalizeCore ks V).msk j = false := by
      have := hXmsk j hj
      rw [hnc] at this
      have h2 : ((marginalizeCore ks V).msk j || isCorner (marginalizeCore ks V).shape j) = false := this
      rw [Bool.or_eq_false_iff] at h2; exact h2.1
    show (marginalizeCore ks V).dat j = _
    have hval := marginalizeCore_val ks V j hj
    unfold FS.val at hval
    rw [hm0] at hval
    simp only [Bool.false_eq_true, if_false] at hval
    rw [hval]
    show pushL U.box (dropAxes ks) (fun i => if V.msk i then 0 else V.dat i) j = _
    apply pushL_congr
    intro i hi hij
    have : isCorner U.shape i = false := by
      by_contra hcn
      have := isCorner_dropAxes ks U.shape i (by simpa using hcn)
      rw [hij, hnc] at this; exact absurd this (by simp)
    rw [hVmsk i hi, this, hVdat i hi]; simp
  have hMdat : ∀ j ∈ boxIdx sh', M.dat j = pushL U.box (dropAxes ks) U.dat j := by
    intro j hj
    show (marginalizeCore ks U).dat j = _
    have hval := marginalizeCore_val ks U j hj
    have hj' : j ∈ (marginalizeCore ks U).box := by show j ∈ boxIdx (marginalizeCore ks U).shape; rw [marginalizeCore_shape]; exact hj
    rw [hcm.val_eq j hj'] at hval
    rw [hval]
    exact pushL_val_clean hc _ j
  refine ⟨foldCore X, M, hR, hM, ?_, rfl, rfl, ?_⟩
  · refine ⟨by show X.shape = M.shape; rw [hXsh, hMsh], fun j hj => ?_⟩
    have hj' : j ∈ boxIdx sh' := by rw [← hXsh]; exact hj
    have hmj' := mirror_mem_box sh' j hj'
    have e1 := hfoldmsk X hXsh hXmsk j hj'
    have e2 := hfoldmsk M hMsh hMmsk j hj'
    refine ⟨by rw [e1, e2], fun hm => ?_⟩
    rw [e1, Bool.or_eq_false_iff] at hm
    have hnc : isCorner sh' j = false := hm.2
    have hncm : isCorner sh' (mirror sh' j) = false := by rw [isCorner_mirror sh' j hj']; exact hnc
    rw [foldCore_dat_closed X j hj, foldCore_dat_closed M j (by show j ∈ boxIdx M.shape; rw [hMsh]; exact hj')]
    rw [hXsh, hMsh, hXdat j hj' hnc, hXdat _ hmj' hncm, hMdat j hj', hMdat _ hmj']
    have key := fold_marg_sym ks U.shape U.dat j hj'
    rw [foldDat_closed _ _ j hj', foldDat_closed _ _ j hj'] at key
    exact key
  · intro j hj
    have hj' : j ∈ boxIdx sh' := by
      have : (foldCore X).shape = sh' := hXsh
      rw [← this]; exact hj
    have : (foldCore X).shape = sh' := hXsh
    rw [this]
    exact hfoldmsk X hXsh hXmsk j hj'

end DadiVerif.PopOps
