import DadiVerif.Lemmas.PopOps
/-! C10 (round 5): `Misc.combine_pops`, 3-population branch — for EVERY pair `idx = [a, b]` (also `[1, 2]`, whose loop nest reads the
    source through a 3-cycle, i.e. a permutation that is not its own inverse) the generated branch is ONE explicit re-indexing of the
    source spectrum along "merge axes a and b, put the merged axis first". -/
namespace DadiVerif.PopOps
open Finset

/-- re-indexing the enumeration of the source: if `σ` maps `boxA` bijectively onto `boxB` (inverse `τ`), summing `x ∘ σ` over the
    fibres of `g ∘ σ` in `boxA` is summing `x` over the fibres of `g` in `boxB` -/
theorem pushL_reindex (boxA boxB : List Idx) (hA : boxA.Nodup) (hB : boxB.Nodup) (σ τ : Idx → Idx)
    (hσ : ∀ v ∈ boxA, σ v ∈ boxB) (hτ : ∀ b ∈ boxB, τ b ∈ boxA) (hστ : ∀ b ∈ boxB, σ (τ b) = b) (hτσ : ∀ v ∈ boxA, τ (σ v) = v)
    (g : Idx → Idx) (x : Idx → ℚ) (j : Idx) :
    pushL boxA (fun v => g (σ v)) (fun v => x (σ v)) j = pushL boxB g x j := by
  rw [pushL_eq_sum _ hA, pushL_eq_sum _ hB]
  apply Finset.sum_nbij' σ τ
  · intro v hv; simpa using hσ v (by simpa using hv)
  · intro b hb; simpa using hτ b (by simpa using hb)
  · intro v hv; exact hτσ v (by simpa using hv)
  · intro b hb; exact hστ b (by simpa using hb)
  · intro v _; rfl

theorem mem_box3 (s0 s1 s2 : Nat) (i : Idx) : i ∈ boxIdx [s0, s1, s2] ↔ ∃ v0 v1 v2, i = [v0, v1, v2] ∧ v0 < s0 ∧ v1 < s1 ∧ v2 < s2 := by
  rw [mem_boxIdx]
  constructor
  · intro h
    match i, h with
    | [v0, v1, v2], h =>
      simp only [List.forall₂_cons, List.forall₂_nil_right_iff, and_true] at h
      exact ⟨v0, v1, v2, rfl, h.1, h.2.1, by simpa using h.2.2⟩
  · rintro ⟨v0, v1, v2, rfl, h0, h1, h2⟩
    exact List.Forall₂.cons h0 (List.Forall₂.cons h1 (List.Forall₂.cons h2 List.Forall₂.nil))

theorem pushL_congr_fun (box : List Idx) (f f' : Idx → Idx) (x : Idx → ℚ) (j : Idx) (h : ∀ i ∈ box, f i = f' i) :
    pushL box f x j = pushL box f' x j := by
  unfold pushL
  congr 2
  apply List.filter_congr
  intro i hi
  rw [h i hi]

/-- one branch of the table: if the loop nest enumerates the source box bijectively (`miscSrc r`, inverse `τ`) and its target
    subscripts are `g` of the source subscripts, the branch is the re-indexing of the source along `g` -/
theorem misc_row_push (x : Idx → ℚ) (s0 s1 s2 t0 t1 t2 : Nat) (r : Gen.MiscRow) (g τ : Idx → Idx)
    (hσ : ∀ v0 v1 v2, v0 < t0 → v1 < t1 → v2 < t2 → miscSrc r [v0, v1, v2] ∈ boxIdx [s0, s1, s2])
    (hτ : ∀ w0 w1 w2, w0 < s0 → w1 < s1 → w2 < s2 → τ [w0, w1, w2] ∈ boxIdx [t0, t1, t2] ∧ miscSrc r (τ [w0, w1, w2]) = [w0, w1, w2])
    (hτσ : ∀ v0 v1 v2, τ (miscSrc r [v0, v1, v2]) = [v0, v1, v2])
    (hagree : ∀ v0 v1 v2, miscDst r [v0, v1, v2] = g (miscSrc r [v0, v1, v2])) (j : Idx) :
    pushL (boxIdx [t0, t1, t2]) (miscDst r) (fun v => x (miscSrc r v)) j = pushL (boxIdx [s0, s1, s2]) g x j := by
  rw [pushL_congr_fun _ (miscDst r) (fun v => g (miscSrc r v)) _ _
    (fun v hv => by rw [mem_box3] at hv; obtain ⟨v0, v1, v2, rfl, _⟩ := hv; exact hagree v0 v1 v2)]
  apply pushL_reindex _ _ (nodup_boxIdx _) (nodup_boxIdx _) (miscSrc r) τ
  · intro v hv; rw [mem_box3] at hv; obtain ⟨v0, v1, v2, rfl, a0, a1, a2⟩ := hv; exact hσ v0 v1 v2 a0 a1 a2
  · intro w hw; rw [mem_box3] at hw; obtain ⟨w0, w1, w2, rfl, a0, a1, a2⟩ := hw; exact (hτ w0 w1 w2 a0 a1 a2).1
  · intro w hw; rw [mem_box3] at hw; obtain ⟨w0, w1, w2, rfl, a0, a1, a2⟩ := hw; exact (hτ w0 w1 w2 a0 a1 a2).2
  · intro v hv; rw [mem_box3] at hv; obtain ⟨v0, v1, v2, rfl, _⟩ := hv; exact hτσ v0 v1 v2

/-- shape of the result for `idx = [a, b]`: merged extent first, the remaining axis behind it -/
def miscShape (a b : Nat) (sh : List Nat) : List Nat := (mergeShape a b sh).getD a 0 :: (mergeShape a b sh).eraseIdx a

/-- **every pair**: for a 3-population spectrum and each of the three pairs `[0,1]`, `[0,2]`, `[1,2]` the branch of the GENERATED
    dispatch table that `Misc.combine_pops` takes produces `out[j] = Σ_{canonical a b i = j} fs[i]` (raw data, as the code reads
    `numpy.array(fs)`), extents (n_a+n_b+1, n_rest+1), a fresh unfolded unlabelled Spectrum with the two corners masked. -/
theorem miscCombine_pairs (S : FS) (s0 s1 s2 : Nat) (hsh : S.shape = [s0, s1, s2]) (h0 : 1 ≤ s0) (h1 : 1 ≤ s1) (h2 : 1 ≤ s2)
    (a b : Nat) (hab : a < b) (hb : b < 3) :
    ∃ out, miscCombine Gen.miscRows [a, b] S = some out ∧
      out.shape = miscShape a b S.shape ∧
      (∀ j, out.dat j = pushL S.box (miscCanonical a b) S.dat j) ∧
      out.msk = isCorner out.shape ∧ out.folded = false ∧ out.labels = none := by
  have hnd : S.ndim = 3 := by simp [FS.ndim, hsh]
  have hbox : S.box = boxIdx [s0, s1, s2] := by simp [FS.box, hsh]
  have hns : S.shape.map (· - 1) = [s0 - 1, s1 - 1, s2 - 1] := by simp [hsh]
  have e0 : s0 - 1 + 1 = s0 := by omega
  have e1 : s1 - 1 + 1 = s1 := by omega
  have e2 : s2 - 1 + 1 = s2 := by omega
  obtain ⟨rfl, rfl⟩ | ⟨rfl, rfl⟩ | ⟨rfl, rfl⟩ : (a = 0 ∧ b = 1) ∨ (a = 0 ∧ b = 2) ∨ (a = 1 ∧ b = 2) := by omega
  · have hrow : miscRow Gen.miscRows S.ndim [0, 1]
        = some ⟨3, some [0, 1], [0, 1, 2], [0, 1, 2], [[0, 1], [2]], [[0, 1], [2]]⟩ := by rw [hnd]; rfl
    unfold miscCombine
    rw [hrow]
    refine ⟨_, rfl, ?_, ?_, rfl, rfl, rfl⟩
    · simp [miscShape, mergeShape, Gen.c2NewShape, Gen.c2NewNs, hsh]
    · intro j
      simp only [hns, hbox, List.map_cons, List.map_nil, List.getD_cons_zero, List.getD_cons_succ, e0, e1, e2]
      refine misc_row_push S.dat s0 s1 s2 s0 s1 s2 _ (miscCanonical 0 1) (fun w => [w.getD 0 0, w.getD 1 0, w.getD 2 0]) ?_ ?_ ?_ ?_ j
      · intro v0 v1 v2 a0 a1 a2; rw [mem_box3]; exact ⟨v0, v1, v2, by simp [miscSrc], a0, a1, a2⟩
      · intro w0 w1 w2 a0 a1 a2; refine ⟨?_, by simp [miscSrc]⟩
        rw [mem_box3]; exact ⟨w0, w1, w2, by simp, a0, a1, a2⟩
      · intro v0 v1 v2; simp [miscSrc]
      · intro v0 v1 v2; simp [miscSrc, miscDst, sumAt, miscCanonical, merge2, Gen.c2NewIndex]
  · have hrow : miscRow Gen.miscRows S.ndim [0, 2]
        = some ⟨3, some [0, 2], [0, 2, 1], [0, 2, 1], [[0, 1], [2]], [[0, 2], [1]]⟩ := by rw [hnd]; rfl
    unfold miscCombine
    rw [hrow]
    refine ⟨_, rfl, ?_, ?_, rfl, rfl, rfl⟩
    · simp [miscShape, mergeShape, Gen.c2NewShape, Gen.c2NewNs, hsh]
    · intro j
      simp only [hns, hbox, List.map_cons, List.map_nil, List.getD_cons_zero, List.getD_cons_succ, e0, e1, e2]
      refine misc_row_push S.dat s0 s1 s2 s0 s2 s1 _ (miscCanonical 0 2) (fun w => [w.getD 0 0, w.getD 2 0, w.getD 1 0]) ?_ ?_ ?_ ?_ j
      · intro v0 v1 v2 a0 a1 a2; rw [mem_box3]; exact ⟨v0, v2, v1, by simp [miscSrc], a0, a2, a1⟩
      · intro w0 w1 w2 a0 a1 a2; refine ⟨?_, by simp [miscSrc]⟩
        rw [mem_box3]; exact ⟨w0, w2, w1, by simp, a0, a2, a1⟩
      · intro v0 v1 v2; simp [miscSrc]
      · intro v0 v1 v2; simp [miscSrc, miscDst, sumAt, miscCanonical, merge2, Gen.c2NewIndex]
  · -- idx = [1, 2]: the loop nest reads `fs_tmp[kk, ii, jj]` — a 3-cycle, whose inverse is a different permutation
    have hrow : miscRow Gen.miscRows S.ndim [1, 2]
        = some ⟨3, some [1, 2], [1, 2, 0], [2, 0, 1], [[0, 1], [2]], [[1, 2], [0]]⟩ := by rw [hnd]; rfl
    unfold miscCombine
    rw [hrow]
    refine ⟨_, rfl, ?_, ?_, rfl, rfl, rfl⟩
    · simp [miscShape, mergeShape, Gen.c2NewShape, Gen.c2NewNs, hsh]
    · intro j
      simp only [hns, hbox, List.map_cons, List.map_nil, List.getD_cons_zero, List.getD_cons_succ, e0, e1, e2]
      refine misc_row_push S.dat s0 s1 s2 s1 s2 s0 _ (miscCanonical 1 2) (fun w => [w.getD 1 0, w.getD 2 0, w.getD 0 0]) ?_ ?_ ?_ ?_ j
      · intro v0 v1 v2 a0 a1 a2; rw [mem_box3]; exact ⟨v2, v0, v1, by simp [miscSrc], a2, a0, a1⟩
      · intro w0 w1 w2 a0 a1 a2; refine ⟨?_, by simp [miscSrc]⟩
        rw [mem_box3]; exact ⟨w1, w2, w0, by simp, a1, a2, a0⟩
      · intro v0 v1 v2; simp [miscSrc]
      · intro v0 v1 v2; simp [miscSrc, miscDst, sumAt, miscCanonical, merge2, Gen.c2NewIndex]

end DadiVerif.PopOps
