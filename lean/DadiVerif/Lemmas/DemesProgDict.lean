import DadiVerif.Lemmas.DemesProgSort
import DadiVerif.Lemmas.DemesProgLoops
import Mathlib.Data.List.Nodup
/-! C16 (round 5) — `defaultdict(list)` in insertion order: what a sequence of `d[k].append(v)` leaves, and what `sorted(d.items())[::-1]`
    returns when the keys are known to lie in a strictly descending list. -/
namespace DadiVerif.DemesConv

section
variable {κ ν : Type} [DecidableEq κ]

theorem ddGet_nil (k : κ) : ddGet ([] : PyDD κ ν) k = [] := rfl

theorem ddGet_cons (p : κ × List ν) (d : PyDD κ ν) (k : κ) : ddGet (p :: d) k = if p.1 = k then p.2 else ddGet d k := by
  by_cases h : p.1 = k <;> simp [ddGet, List.find?_cons, h]

theorem any_key_iff (d : PyDD κ ν) (k : κ) : d.any (fun p => decide (p.1 = k)) = true ↔ k ∈ ddKeys d := by
  unfold ddKeys
  simp only [List.any_eq_true, decide_eq_true_eq, List.mem_map]

theorem ddGet_of_not_mem (d : PyDD κ ν) (k : κ) (h : k ∉ ddKeys d) : ddGet d k = [] := by
  induction d with
  | nil => rfl
  | cons p t ih =>
    rw [ddGet_cons]
    have : ¬ p.1 = k := fun e => h (by simp [ddKeys, e])
    rw [if_neg this]
    exact ih (fun hm => h (by simp only [ddKeys, List.map_cons, List.mem_cons]; exact Or.inr hm))

theorem ddKeys_ddAppend (d : PyDD κ ν) (k : κ) (v : ν) : ddKeys (ddAppend d k v) = if k ∈ ddKeys d then ddKeys d else ddKeys d ++ [k] := by
  unfold ddAppend
  by_cases h : k ∈ ddKeys d
  · rw [if_pos ((any_key_iff d k).2 h), if_pos h]
    unfold ddKeys
    rw [List.map_map]
    apply List.map_congr_left
    intro p _
    simp only [Function.comp]
    split_ifs <;> rfl
  · have : ¬ d.any (fun p => decide (p.1 = k)) = true := fun e => h ((any_key_iff d k).1 e)
    rw [if_neg this, if_neg h]
    simp [ddKeys]

theorem ddGet_mapAppend (d : PyDD κ ν) (k : κ) (v : ν) (k' : κ) :
    ddGet (d.map (fun p => if p.1 = k then (p.1, p.2 ++ [v]) else p)) k' = if k = k' ∧ k ∈ ddKeys d then ddGet d k' ++ [v] else ddGet d k' := by
  induction d with
  | nil => simp [ddGet_nil, ddKeys]
  | cons p t ih =>
    simp only [List.map_cons, ddGet_cons, ddKeys, List.mem_cons]
    by_cases hp : p.1 = k
    · subst hp
      by_cases hk : p.1 = k'
      · simp [hk]
      · simp only [if_true, hk, if_false, false_and]
        rw [ih]; simp [hk]
    · simp only [hp, if_false]
      by_cases hk : p.1 = k'
      · subst hk
        simp [Ne.symm hp]
      · simp only [hk, if_false]
        rw [ih]
        have : (k = p.1 ∨ k ∈ List.map (fun x => x.1) t) ↔ k ∈ ddKeys t := by
          constructor
          · rintro (e | e)
            · exact absurd e.symm hp
            · exact e
          · exact Or.inr
        simp only [this]

theorem ddGet_ddAppend (d : PyDD κ ν) (k : κ) (v : ν) (k' : κ) :
    ddGet (ddAppend d k v) k' = if k = k' then ddGet d k' ++ [v] else ddGet d k' := by
  unfold ddAppend
  by_cases h : k ∈ ddKeys d
  · rw [if_pos ((any_key_iff d k).2 h), ddGet_mapAppend]
    simp [h]
  · have hany : ¬ d.any (fun p => decide (p.1 = k)) = true := fun e => h ((any_key_iff d k).1 e)
    rw [if_neg hany]
    clear hany
    induction d with
    | nil =>
      simp only [List.nil_append, ddGet_cons, ddGet_nil]
    | cons p t ih =>
      have hp : ¬ p.1 = k := fun e => h (by simp [ddKeys, e])
      have ht : k ∉ ddKeys t := fun hm => h (by simp only [ddKeys, List.map_cons, List.mem_cons]; exact Or.inr hm)
      simp only [List.cons_append, ddGet_cons]
      by_cases hk : p.1 = k'
      · have : ¬ k = k' := fun e => hp (by rw [e]; exact hk)
        simp [hk, this]
      · simp only [hk, if_false]
        exact ih ht

/-- a run of `d[k].append(v)` statements -/
def ddAppendAll (d : PyDD κ ν) (l : List (κ × ν)) : PyDD κ ν := l.foldl (fun d p => ddAppend d p.1 p.2) d

theorem ddGet_appendAll (d : PyDD κ ν) (l : List (κ × ν)) (k : κ) :
    ddGet (ddAppendAll d l) k = ddGet d k ++ (l.filter fun p => decide (p.1 = k)).map (·.2) := by
  unfold ddAppendAll
  induction l generalizing d with
  | nil => simp
  | cons p t ih =>
    rw [List.foldl_cons, ih, ddGet_ddAppend, List.filter_cons]
    by_cases h : p.1 = k <;> simp [h]

theorem mem_keys_appendAll (d : PyDD κ ν) (l : List (κ × ν)) (k : κ) :
    k ∈ ddKeys (ddAppendAll d l) ↔ k ∈ ddKeys d ∨ k ∈ l.map (·.1) := by
  unfold ddAppendAll
  induction l generalizing d with
  | nil => simp
  | cons p t ih =>
    rw [List.foldl_cons, ih, ddKeys_ddAppend]
    by_cases h : p.1 ∈ ddKeys d
    · simp only [h, if_true, List.map_cons, List.mem_cons]
      constructor
      · rintro (h1 | h1)
        · exact Or.inl h1
        · exact Or.inr (Or.inr h1)
      · rintro (h1 | h1 | h1)
        · exact Or.inl h1
        · exact Or.inl (h1 ▸ h)
        · exact Or.inr h1
    · simp only [h, if_false, List.mem_append, List.mem_singleton, List.map_cons, List.mem_cons]
      tauto

theorem nodup_keys_appendAll (d : PyDD κ ν) (l : List (κ × ν)) (h : (ddKeys d).Nodup) : (ddKeys (ddAppendAll d l)).Nodup := by
  unfold ddAppendAll
  induction l generalizing d with
  | nil => exact h
  | cons p t ih =>
    rw [List.foldl_cons]
    apply ih
    rw [ddKeys_ddAppend]
    by_cases hm : p.1 ∈ ddKeys d
    · simp only [hm, if_true]; exact h
    · simp only [hm, if_false]
      exact List.Nodup.append h (List.nodup_singleton _) (by simpa [List.disjoint_singleton] using hm)

/-- with distinct keys a dict is determined by its keys and its reads -/
theorem dd_eq_of_nodup (d : PyDD κ ν) (h : (ddKeys d).Nodup) : d = (ddKeys d).map fun k => (k, ddGet d k) := by
  induction d with
  | nil => rfl
  | cons p t ih =>
    simp only [ddKeys, List.map_cons, List.nodup_cons] at h
    simp only [ddKeys, List.map_cons, ddGet_cons, if_true, List.cons.injEq, true_and]
    rw [List.map_map]
    conv_lhs => rw [ih h.2]
    unfold ddKeys
    rw [List.map_map]
    apply List.map_congr_left
    intro q hq
    have : ¬ p.1 = q.1 := fun e => h.1 (e ▸ List.mem_map_of_mem hq)
    simp [Function.comp, ddGet_cons, this]

/-! ### nested loops flattened -/

theorem foldl_flatMap' {α β σ : Type} (f : α → List β) (step : σ → β → σ) (l : List α) (init : σ) :
    l.foldl (fun acc x => (f x).foldl step acc) init = (l.flatMap f).foldl step init := by
  induction l generalizing init with
  | nil => rfl
  | cons a t ih => simp [List.foldl_cons, List.flatMap_cons, List.foldl_append, ih]

theorem foldl_filter' {α σ : Type} (c : α → Bool) (step : σ → α → σ) (l : List α) (init : σ) :
    l.foldl (fun acc x => if c x then step acc x else acc) init = (l.filter c).foldl step init := by
  induction l generalizing init with
  | nil => rfl
  | cons a t ih =>
    rw [List.foldl_cons, List.filter_cons]
    by_cases h : c a = true <;> simp [h, ih]
end

/-! ### `sorted(d.items())[::-1]` / `sorted(list(d.keys()))[::-1]` for keys inside a strictly descending list of intervals -/

theorem sortedItems_eq {ν : Type} (d : PyDD (ETime × ETime) ν) (K : List (ETime × ETime)) (hK : K.Pairwise fun a b => ivw b < ivw a)
    (hnd : (ddKeys d).Nodup) (hsub : ∀ k ∈ ddKeys d, k ∈ K) :
    pySortedItemsDesc d = K.filterMap (fun k => if k ∈ ddKeys d then some (k, ddGet d k) else none)
    ∧ pySortedKeysDesc (ddKeys d) = K.filter (fun k => decide (k ∈ ddKeys d)) := by
  have hKnd : K.Nodup := List.Pairwise.imp (fun hab e => by rw [e] at hab; exact lt_irrefl _ hab) hK
  constructor
  · unfold pySortedItemsDesc
    apply sortDescBy_unique (fun p : (ETime × ETime) × List ν => ivw p.1) _ (fun a b => ivGt_iff a.1 b.1)
    · rw [show (d.map fun p => ivw p.1) = (ddKeys d).map ivw by simp [ddKeys, List.map_map, Function.comp]]
      exact List.Nodup.map (fun a b => ivw_inj) hnd
    · -- same elements, no repetition on either side
      rw [List.perm_ext_iff_of_nodup]
      · intro x
        conv_rhs => rw [dd_eq_of_nodup d hnd]
        simp only [List.mem_filterMap, List.mem_map]
        constructor
        · rintro ⟨k, hk, hx⟩
          split_ifs at hx with hm
          · exact ⟨k, hm, (Option.some.inj hx)⟩
        · rintro ⟨k, hm, rfl⟩
          exact ⟨k, hsub k hm, by simp [hm]⟩
      · apply List.Nodup.filterMap ?_ hKnd
        intro a a' b hb hb'
        simp only [Option.mem_def] at hb hb'
        split_ifs at hb hb' with h1 h2
        · rw [← Option.some.inj hb] at hb'
          exact ((Prod.mk.inj (Option.some.inj hb')).1).symm
      · rw [dd_eq_of_nodup d hnd]
        exact List.Nodup.map (fun a b h => (Prod.mk.inj h).1) hnd
    · unfold DescK
      apply List.Pairwise.filterMap _ _ hK
      intro a a' haa b hb b' hb'
      split_ifs at hb hb' with h1 h2
      · simp only [Option.mem_def, Option.some.injEq] at hb hb'
        rw [← hb, ← hb']
        exact haa
      all_goals simp at hb hb'
  · unfold pySortedKeysDesc
    apply sortDescBy_unique ivw _ ivGt_iff
    · exact List.Nodup.map (fun a b => ivw_inj) hnd
    · rw [List.perm_ext_iff_of_nodup (hKnd.filter _) hnd]
      intro x
      simp only [List.mem_filter, decide_eq_true_eq]
      exact ⟨fun h => h.2, fun h => ⟨hsub x h, h⟩⟩
    · exact List.Pairwise.filter _ hK

end DadiVerif.DemesConv
