import DadiVerif.Lemmas.LowPassPart
/-! C18 helper lemmas, part 3: subsampling individuals (`combs`, `projInb`), rows of the projection matrix,
    the heterozygote error probability and the rows of the calling-error matrix. -/
set_option linter.unusedSimpArgs false
namespace DadiVerif.LowPass
open Finset

/-! ### combinations -/

theorem combs_ne_nil : ∀ (k : ℕ) (l : List ℕ), k ≤ l.length → combs k l ≠ []
  | 0, _, _ => by simp [combs]
  | k+1, [], h => by simp at h
  | k+1, a :: l, h => by
    have : k ≤ l.length := by simpa using h
    have := combs_ne_nil k l this
    simp [combs, this]

theorem combs_mem : ∀ (k : ℕ) (l c : List ℕ), c ∈ combs k l → c.length = k ∧ ∀ v ∈ c, v ∈ l
  | 0, _, c, h => by
    simp [combs] at h; subst h; simp
  | k+1, [], c, h => by simp [combs] at h
  | k+1, a :: l, c, h => by
    simp only [combs, List.mem_append, List.mem_map] at h
    rcases h with ⟨t, ht, rfl⟩ | h
    · obtain ⟨h1, h2⟩ := combs_mem k l t ht
      refine ⟨by simp [h1], ?_⟩
      intro v hv
      rcases List.mem_cons.mp hv with rfl | hv'
      · exact List.mem_cons_self
      · exact List.mem_cons_of_mem _ (h2 v hv')
    · obtain ⟨h1, h2⟩ := combs_mem (k+1) l c h
      exact ⟨h1, fun v hv => List.mem_cons_of_mem _ (h2 v hv)⟩

theorem sum_le_two_mul (c : List ℕ) (h : ∀ v ∈ c, v ≤ 2) : c.sum ≤ 2 * c.length := by
  induction c with
  | nil => simp
  | cons a c ih =>
    have := h a (List.mem_cons_self)
    have := ih (fun v hv => h v (List.mem_cons_of_mem _ hv))
    simp; omega

/-- every sum of k/2 genotypes is a valid index 0..k -/
theorem combSums_le (g : List ℕ) (hb : ∀ v ∈ g, v ≤ 2) (k : ℕ) : ∀ t ∈ combSums (k / 2) g, t ≤ k := by
  intro t ht
  simp only [combSums, List.mem_map] at ht
  obtain ⟨c, hc, rfl⟩ := ht
  obtain ⟨h1, h2⟩ := combs_mem _ _ _ hc
  have := sum_le_two_mul c (fun v hv => hb v (h2 v hv))
  omega

theorem sum_countP_eq (S : List ℕ) (N : ℕ) :
    ∑ s ∈ range N, ((S.countP (· == s) : ℕ) : ℚ) = ((S.countP (fun t => decide (t < N)) : ℕ) : ℚ) := by
  induction S with
  | nil => simp
  | cons a S ih =>
    simp only [List.countP_cons, Nat.cast_add, Finset.sum_add_distrib, ih]
    congr 1
    by_cases h : a < N
    · rw [Finset.sum_eq_single a]
      · simp [h]
      · intro b _ hb
        have : ¬ a = b := fun e => hb e.symm
        simp [this]
      · intro hna; simp at hna; omega
    · rw [Finset.sum_eq_zero]
      · simp [h]
      · intro b hb
        have : ¬ a = b := by simp at hb; omega
        simp [this]

theorem inbFromSums_nonneg (S : List ℕ) (k s : ℕ) : 0 ≤ inbFromSums S k s := by
  unfold inbFromSums; positivity

/-- `projection_inbreeding(g, k)` sums to one -/
theorem projInb_rowsum (g : List ℕ) (hb : ∀ v ∈ g, v ≤ 2) (k : ℕ) (hk : k / 2 ≤ g.length) :
    ∑ s ∈ range (k + 1), projInb g k s = 1 := by
  unfold projInb inbFromSums
  rw [← Finset.sum_div, sum_countP_eq]
  have hle := combSums_le g hb k
  have heq : (combSums (k / 2) g).countP (fun t => decide (t < k + 1))
      = (combSums (k / 2) g).countP (fun t => decide (t ≤ k)) := by
    congr 1; funext t; simp [Nat.lt_succ_iff]
  rw [heq]
  apply div_self
  have hne : combSums (k / 2) g ≠ [] := by
    simp only [combSums, ne_eq, List.map_eq_nil_iff]
    exact combs_ne_nil _ _ hk
  obtain ⟨t, ht⟩ := List.exists_mem_of_ne_nil _ hne
  have : 0 < (combSums (k / 2) g).countP (fun t => decide (t ≤ k)) :=
    List.countP_pos_iff.mpr ⟨t, ht, by simpa using hle t ht⟩
  exact_mod_cast this.ne'

theorem projInb_nonneg (g : List ℕ) (k s : ℕ) : 0 ≤ projInb g k s := inbFromSums_nonneg _ _ _

/-! ### the projection matrix -/

/-- the row the driver evaluates is the list of the entries -/
theorem projRow_eq (nseq nsub : ℕ) (F : ℚ) (af : ℕ) :
    projRow nseq nsub F af = (List.range (nsub + 1)).map (projEntry nseq nsub F af) := by
  unfold projRow
  by_cases h : F = 0
  · simp [projEntry, h]
  · simp [projEntry, h, List.map_map, Function.comp_def, projInb]

theorem projEntry_nonneg (N m : ℕ) (F : ℚ) (hF0 : 0 ≤ F) (hF1 : F < 1) (af j : ℕ) (haf : af ≤ 2 * N) :
    0 ≤ projEntry (2 * N) (2 * m) F af j := by
  unfold projEntry
  split_ifs with h
  · apply lsum_map_nonneg
    intro gp hgp
    have hN : 2 * N / 2 = N := by omega
    rw [hN] at hgp
    have := (pw_prob_pos af N haf F hF0 hF1 hgp).le
    have := projInb_nonneg gp.1 (2 * m) j
    unfold Gen.LowPass.projAccum
    positivity
  · exact hypW_nonneg _ _ _ _

/-- every row of `projection_matrix(2N, 2m, F)` sums to one (F = 0: hypergeometric; F > 0: a mixture over
    genotype partitions of the individual-subsampling distributions) -/
theorem projEntry_rowsum (N m : ℕ) (hm : m ≤ N) (F : ℚ) (hF0 : 0 ≤ F) (hF1 : F < 1) (af : ℕ) (haf : af ≤ 2 * N) :
    ∑ j ∈ range (2 * m + 1), projEntry (2 * N) (2 * m) F af j = 1 := by
  by_cases h : F = 0
  · have : ∀ j, projEntry (2 * N) (2 * m) F af j = hypW (2 * m) (2 * N) af j := by
      intro j; simp [projEntry, h]
    simp only [this]
    exact hypW_rowsum _ _ _ (by omega) haf
  · have : ∀ j, projEntry (2 * N) (2 * m) F af j
        = lsum ((pw af N F).map fun gp => (fun g pr j => projInb g (2 * m) j * pr) gp.1 gp.2 j) := by
      intro j
      have hN : 2 * N / 2 = N := by omega
      simp [projEntry, h, hN, Gen.LowPass.projAccum]
    simp only [this]
    refine pw_mixture_sum af N haf F hF0 hF1 (2 * m + 1) (fun g pr j => projInb g (2 * m) j * pr) ?_
    intro g hg pr
    rw [← Finset.sum_mul]
    obtain ⟨hl, _, hb, _, _⟩ := part_facts hg
    rw [projInb_rowsum g hb (2 * m) (by omega), one_mul]

/-! ### heterozygote error probability -/

theorem covTail_eq (c : List ℚ) : covTail c = ∑ k ∈ range (c.length - 1), covAt c (k + 1) := by
  unfold covTail covAt
  rw [lsum_eq_range]
  simp only [List.length_drop]
  exact Finset.sum_congr rfl (fun k _ => getD_drop_one c k)

theorem covAt_nonneg (c : List ℚ) (hc : ∀ v ∈ c, 0 ≤ v) (d : ℕ) : 0 ≤ covAt c d := by
  unfold covAt
  rw [List.getD_eq_getElem?_getD]
  cases h : c[d]? with
  | none => simp
  | some v => simpa using hc v (List.mem_of_getElem? h)

theorem hetErr_eq (c : List ℚ) :
    hetErr c = 2 * ∑ k ∈ range (c.length - 1), covAt c (k + 1) / covTail c * (1 / 2) ^ (k + 1) := by
  simp only [hetErr, Gen.LowPass.probHetErr, Gen.LowPass.covNorm, sumTo_eq, zpowR_natCast]

/-- 0 ≤ prob_het_err ≤ 1 whenever some depth ≥ 1 has positive probability -/
theorem hetErr_unit (c : List ℚ) (hc : ∀ v ∈ c, 0 ≤ v) (ht : 0 < covTail c) :
    0 ≤ hetErr c ∧ hetErr c ≤ 1 := by
  rw [hetErr_eq]
  have hterm0 : ∀ k ∈ range (c.length - 1), 0 ≤ covAt c (k + 1) / covTail c * (1 / 2) ^ (k + 1) := by
    intro k _
    have := covAt_nonneg c hc (k + 1)
    positivity
  constructor
  · have := Finset.sum_nonneg hterm0
    linarith
  · have hle : ∑ k ∈ range (c.length - 1), covAt c (k + 1) / covTail c * (1 / 2) ^ (k + 1)
        ≤ ∑ k ∈ range (c.length - 1), covAt c (k + 1) / covTail c * (1 / 2) := by
      apply Finset.sum_le_sum
      intro k _
      have h1 : 0 ≤ covAt c (k + 1) / covTail c := div_nonneg (covAt_nonneg c hc (k + 1)) ht.le
      have h2 : ((1:ℚ) / 2) ^ (k + 1) ≤ 1 / 2 := by
        rw [pow_succ]
        have : ((1:ℚ) / 2) ^ k ≤ 1 := pow_le_one₀ (by norm_num) (by norm_num)
        nlinarith
      exact mul_le_mul_of_nonneg_left h2 h1
    have hs : ∑ k ∈ range (c.length - 1), covAt c (k + 1) / covTail c * (1 / 2) = 1 / 2 := by
      rw [← Finset.sum_mul, ← Finset.sum_div, ← covTail_eq, div_self ht.ne']
      norm_num
    linarith

/-! ### rows of the calling-error matrix -/

/-- index arithmetic: with ne ≤ h heterozygote errors of which nr towards the reference, the target index is
    af + ne − 2·nr, which stays inside 0..2n because h ≤ af and af + h ≤ 2n -/
theorem afs_in_range {af n : ℕ} {g : List ℕ} (hg : g ∈ part af n 0 2) {ne nr : ℕ}
    (hne : ne ≤ g.count 1) (hnr : nr ≤ ne) :
    0 ≤ Gen.LowPass.afsAfterError (af : ℕ) (ne : ℕ) (nr : ℕ) ∧
      Gen.LowPass.afsAfterError (af : ℕ) (ne : ℕ) (nr : ℕ) ≤ ((2 * n : ℕ) : ℤ) := by
  obtain ⟨_, _, _, hx, hn⟩ := part_facts hg
  unfold Gen.LowPass.afsAfterError
  constructor <;> push_cast <;> omega

theorem callPart_eq (e : ℚ) (af t : ℕ) (g : List ℕ) (pr : ℚ) :
    callPart e af t g pr =
      ∑ ne ∈ range (g.count 1 + 1), ∑ nr ∈ range (ne + 1),
        if Gen.LowPass.afsAfterError (af : ℕ) (ne : ℕ) (nr : ℕ) = ((t : ℕ) : ℤ)
        then pr * binomPmf ne (g.count 1) e * binomPmf nr ne (1 / 2) else 0 := by
  unfold callPart
  simp only [Gen.LowPass.hetValue, Gen.LowPass.nErrorCount, Gen.LowPass.nRefCount, sumTo_eq,
    Gen.LowPass.callTerm, Gen.LowPass.pNerr, Gen.LowPass.pNref, pmfZ, Int.toNat_natCast]
  have e1 : ((↑(List.count 1 g) : ℤ) + 1).toNat = List.count 1 g + 1 := by omega
  rw [e1]
  refine Finset.sum_congr rfl (fun ne _ => ?_)
  have e2 : ((ne : ℤ) + 1).toNat = ne + 1 := by omega
  rw [e2]

theorem callPart_nonneg (e : ℚ) (he0 : 0 ≤ e) (he1 : e ≤ 1) (af t : ℕ) (g : List ℕ) (pr : ℚ) (hpr : 0 ≤ pr) :
    0 ≤ callPart e af t g pr := by
  rw [callPart_eq]
  apply Finset.sum_nonneg; intro ne _
  apply Finset.sum_nonneg; intro nr _
  split_ifs
  · have := binomPmf_nonneg ne (g.count 1) e he0 he1
    have := binomPmf_nonneg nr ne (1 / 2) (by norm_num) (by norm_num)
    positivity
  · exact le_refl _

/-- one partition's contribution to a row sums to its probability: nothing falls outside 0..2n -/
theorem callPart_rowsum (e : ℚ) {af n : ℕ} {g : List ℕ} (hg : g ∈ part af n 0 2) (pr : ℚ) :
    ∑ t ∈ range (2 * n + 1), callPart e af t g pr = pr := by
  simp only [callPart_eq]
  rw [Finset.sum_comm]
  have inner : ∀ ne ∈ range (g.count 1 + 1),
      ∑ t ∈ range (2 * n + 1), ∑ nr ∈ range (ne + 1),
        (if Gen.LowPass.afsAfterError (af : ℕ) (ne : ℕ) (nr : ℕ) = ((t : ℕ) : ℤ)
          then pr * binomPmf ne (g.count 1) e * binomPmf nr ne (1 / 2) else 0)
        = pr * binomPmf ne (g.count 1) e := by
    intro ne hne
    have hne' : ne ≤ g.count 1 := by simp at hne; omega
    rw [Finset.sum_comm]
    have : ∀ nr ∈ range (ne + 1),
        ∑ t ∈ range (2 * n + 1),
          (if Gen.LowPass.afsAfterError (af : ℕ) (ne : ℕ) (nr : ℕ) = ((t : ℕ) : ℤ)
            then pr * binomPmf ne (g.count 1) e * binomPmf nr ne (1 / 2) else 0)
          = pr * binomPmf ne (g.count 1) e * binomPmf nr ne (1 / 2) := by
      intro nr hnr
      have hnr' : nr ≤ ne := by simp at hnr; omega
      obtain ⟨h0, h1⟩ := afs_in_range hg hne' hnr'
      rw [Finset.sum_eq_single (Gen.LowPass.afsAfterError (af : ℕ) (ne : ℕ) (nr : ℕ)).toNat]
      · rw [if_pos]; omega
      · intro b _ hb
        rw [if_neg]; omega
      · intro hnot
        exfalso; apply hnot
        simp only [mem_range]; omega
    rw [Finset.sum_congr rfl this, ← Finset.mul_sum, binomPmf_sum, mul_one]
  rw [Finset.sum_congr rfl inner, ← Finset.mul_sum, binomPmf_sum, mul_one]

/-- with error probability 0 nothing moves -/
theorem callPart_zero_err {af n : ℕ} {g : List ℕ} (hg : g ∈ part af n 0 2) (t : ℕ) (pr : ℚ) :
    callPart 0 af t g pr = if t = af then pr else 0 := by
  rw [callPart_eq]
  have : ∀ ne ∈ range (g.count 1 + 1), ∑ nr ∈ range (ne + 1),
        (if Gen.LowPass.afsAfterError (af : ℕ) (ne : ℕ) (nr : ℕ) = ((t : ℕ) : ℤ)
          then pr * binomPmf ne (g.count 1) 0 * binomPmf nr ne (1 / 2) else 0)
      = if ne = 0 then (if t = af then pr else 0) else 0 := by
    intro ne hne
    have hne' : ne ≤ g.count 1 := by simp at hne; omega
    by_cases h0 : ne = 0
    · subst h0
      simp only [zero_add, Finset.sum_range_one, if_true]
      have hb : binomPmf 0 (g.count 1) 0 = 1 := by rw [binomPmf_zero_p _ _ (Nat.zero_le _)]; simp
      have hb2 : binomPmf 0 0 (1 / 2) = 1 := by simp [binomPmf, choose_eq]
      have hA : Gen.LowPass.afsAfterError ((af : ℕ) : ℤ) ((0 : ℕ) : ℤ) ((0 : ℕ) : ℤ) = ((af : ℕ) : ℤ) := by
        unfold Gen.LowPass.afsAfterError; simp
      rw [hA, hb, hb2]
      by_cases ht : t = af
      · subst ht; simp
      · rw [if_neg ht, if_neg]
        exact_mod_cast (fun h : af = t => ht h.symm)
    · rw [if_neg h0]
      apply Finset.sum_eq_zero
      intro nr _
      rw [binomPmf_zero_p _ _ hne', if_neg h0]
      simp
  rw [Finset.sum_congr rfl this, Finset.sum_eq_single 0]
  · simp
  · intro b _ hb; simp [hb]
  · intro h; simp at h

end DadiVerif.LowPass
