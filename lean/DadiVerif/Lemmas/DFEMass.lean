import DadiVerif.Model.DFE
import Mathlib.MeasureTheory.Measure.Real
import Mathlib.MeasureTheory.Constructions.BorelSpace.Order
import Mathlib.MeasureTheory.Constructions.BorelSpace.Real
import Mathlib.Tactic.Linarith
/-! C17, exact part of "total quadrature weight is one up to quadrature error": the regions `Reg.N`, `Reg.I`, `Reg.D`
    that `Cache1D.integrate` / `Cache2D.integrate` pair with the neutral spectrum, the cached grid and the most
    deleterious cached spectrum partition the positive half line, so for ANY finite measure (any distribution of
    fitness effects, with or without a density) the three (1-D) or nine (2-D) region masses add up to the total mass. -/
namespace DadiVerif.DFE
open MeasureTheory Set

/-- the set of |γ| a region stands for when the cached grid spans [a, b] (a = −neg_gammas[−1], b = −neg_gammas[0]):
    the bounds of the quad / dblquad calls (0, a), (b, ∞); the grid itself covers [a, b] -/
def regSet (a b : ℝ) : Reg → Set ℝ
  | .N => Ioo 0 a
  | .I => Icc a b
  | .D => Ioi b

theorem regSet_measurable (a b : ℝ) (r : Reg) : MeasurableSet (regSet a b r) := by
  cases r
  · exact measurableSet_Ioi
  · exact measurableSet_Icc
  · exact measurableSet_Ioo

theorem regSet_disjoint {a b : ℝ} (hab : a ≤ b) {r s : Reg} (h : r ≠ s) : Disjoint (regSet a b r) (regSet a b s) := by
  rw [Set.disjoint_left]
  intro x hx hx'
  cases r <;> cases s <;> simp only [regSet, mem_Ioo, mem_Icc, mem_Ioi] at hx hx' <;>
    first
    | exact absurd rfl h
    | (obtain ⟨h1, h2⟩ := hx; obtain ⟨h3, h4⟩ := hx'; linarith)
    | (obtain ⟨h1, h2⟩ := hx; linarith)
    | (obtain ⟨h3, h4⟩ := hx'; linarith)

theorem regSet_union {a b : ℝ} (ha : 0 < a) (hab : a ≤ b) :
    regSet a b .N ∪ regSet a b .I ∪ regSet a b .D = Ioi 0 := by
  ext x
  simp only [regSet, mem_union, mem_Ioo, mem_Icc, mem_Ioi]
  constructor
  · rintro ((h | h) | h)
    · exact h.1
    · linarith [h.1]
    · linarith
  · intro hx
    by_cases h1 : x < a
    · exact Or.inl (Or.inl ⟨hx, h1⟩)
    · by_cases h2 : x ≤ b
      · exact Or.inl (Or.inr ⟨not_lt.mp h1, h2⟩)
      · exact Or.inr (not_le.mp h2)

section
variable {Ω : Type} [MeasurableSpace Ω] (μ : Measure Ω) [IsFiniteMeasure μ]

theorem measureReal_union3 {A B C : Set Ω} (mB : MeasurableSet B) (mC : MeasurableSet C)
    (dAB : Disjoint A B) (dAC : Disjoint A C) (dBC : Disjoint B C) :
    μ.real (A ∪ B ∪ C) = μ.real A + μ.real B + μ.real C := by
  rw [measureReal_union (Disjoint.union_left dAC dBC) mC, measureReal_union dAB mB]
end

/-- 1-D: the masses of the three regions add up to the mass of the positive half line -/
theorem mass_regions_1d (μ : Measure ℝ) [IsFiniteMeasure μ] {a b : ℝ} (ha : 0 < a) (hab : a ≤ b) :
    μ.real (Ioi 0) = μ.real (regSet a b .N) + μ.real (regSet a b .I) + μ.real (regSet a b .D) := by
  rw [← regSet_union ha hab]
  exact measureReal_union3 μ (regSet_measurable a b _) (regSet_measurable a b _)
    (regSet_disjoint hab (by decide)) (regSet_disjoint hab (by decide)) (regSet_disjoint hab (by decide))

/-- 2-D: the masses of the nine regions add up to the mass of the positive quadrant -/
theorem mass_regions_2d (μ : Measure (ℝ × ℝ)) [IsFiniteMeasure μ] {a b : ℝ} (ha : 0 < a) (hab : a ≤ b) :
    μ.real (Ioi 0 ×ˢ Ioi 0)
      = μ.real (regSet a b .N ×ˢ regSet a b .N) + μ.real (regSet a b .N ×ˢ regSet a b .I) + μ.real (regSet a b .N ×ˢ regSet a b .D)
      + (μ.real (regSet a b .I ×ˢ regSet a b .N) + μ.real (regSet a b .I ×ˢ regSet a b .I) + μ.real (regSet a b .I ×ˢ regSet a b .D))
      + (μ.real (regSet a b .D ×ˢ regSet a b .N) + μ.real (regSet a b .D ×ˢ regSet a b .I) + μ.real (regSet a b .D ×ˢ regSet a b .D)) := by
  have m := regSet_measurable a b
  have d : ∀ {r s : Reg}, r ≠ s → Disjoint (regSet a b r) (regSet a b s) := fun h => regSet_disjoint hab h
  have row : ∀ r : Reg, μ.real (regSet a b r ×ˢ Ioi 0)
      = μ.real (regSet a b r ×ˢ regSet a b .N) + μ.real (regSet a b r ×ˢ regSet a b .I) + μ.real (regSet a b r ×ˢ regSet a b .D) := by
    intro r
    rw [← regSet_union ha hab, Set.prod_union, Set.prod_union]
    exact measureReal_union3 μ ((m r).prod (m _)) ((m r).prod (m _))
      (Set.disjoint_prod.mpr (Or.inr (d (by decide)))) (Set.disjoint_prod.mpr (Or.inr (d (by decide))))
      (Set.disjoint_prod.mpr (Or.inr (d (by decide))))
  rw [← row, ← row, ← row]
  conv_lhs => rw [← regSet_union ha hab, Set.union_prod, Set.union_prod]
  have mI : MeasurableSet (Ioi (0 : ℝ)) := measurableSet_Ioi
  rw [regSet_union ha hab]
  exact measureReal_union3 μ ((m _).prod mI) ((m _).prod mI)
    (Set.disjoint_prod.mpr (Or.inl (d (by decide)))) (Set.disjoint_prod.mpr (Or.inl (d (by decide))))
    (Set.disjoint_prod.mpr (Or.inl (d (by decide))))

end DadiVerif.DFE
