import Mathlib.Analysis.SpecialFunctions.Pow.Real
import Mathlib.Analysis.SpecialFunctions.Gamma.Basic
import Mathlib.Analysis.SpecialFunctions.Sqrt
import Mathlib.Tactic.Ring
import Mathlib.Tactic.FieldSimp
import Mathlib.Tactic.Positivity
import Mathlib.Tactic.Linarith
/-! Real-analysis facts for C17 (compiled bivariate densities vs their reference formulas): the textbook densities and
    the identities that connect the way PDFs.c writes them with the way scipy.stats documents them.  Nothing here
    depends on the generated files. -/
namespace DadiVerif.PDFs
noncomputable section

/-- standardised log-coordinate (log x − μ)/σ -/
def zlog (mu s x : ℝ) : ℝ := (Real.log x - mu) / s

/-- bivariate lognormal density with log-means μ₁, μ₂, log-standard deviations σ₁, σ₂ and correlation ρ of the logs -/
def bivLognormal (mu1 mu2 s1 s2 rho x y : ℝ) : ℝ :=
  Real.exp (-((zlog mu1 s1 x) ^ 2 - 2 * rho * zlog mu1 s1 x * zlog mu2 s2 y + (zlog mu2 s2 y) ^ 2) / (2 * (1 - rho ^ 2)))
    / (2 * Real.pi * s1 * s2 * Real.sqrt (1 - rho ^ 2) * x * y)

/-- univariate lognormal density -/
def lognormalDensity (mu s x : ℝ) : ℝ :=
  Real.exp (-(zlog mu s x) ^ 2 / 2) / (x * s * Real.sqrt (2 * Real.pi))

/-- gamma density with shape a and scale b; `G` stands for the value used for Γ(a) -/
def gammaDensityWith (G a b x : ℝ) : ℝ := x ^ (a - 1) * Real.exp (-x / b) / (b ^ a * G)

/-- gamma density with shape a and scale b -/
def gammaDensity (a b x : ℝ) : ℝ := gammaDensityWith (Real.Gamma a) a b x

theorem one_sub_sq_pos {rho : ℝ} (h : |rho| < 1) : 0 < 1 - rho ^ 2 := by
  have h2 : rho ^ 2 < 1 := by
    have := sq_lt_one_iff_abs_lt_one rho
    exact this.mpr h
  linarith

theorem bivLognormal_pos {mu1 mu2 s1 s2 rho x y : ℝ} (hx : 0 < x) (hy : 0 < y) (h1 : 0 < s1) (h2 : 0 < s2)
    (hr : |rho| < 1) : 0 < bivLognormal mu1 mu2 s1 s2 rho x y := by
  have := one_sub_sq_pos hr
  unfold bivLognormal
  have hs : 0 < Real.sqrt (1 - rho ^ 2) := Real.sqrt_pos.mpr this
  have := Real.pi_pos
  positivity

/-- the normalising denominator of the bivariate lognormal is not zero on the domain (so Lean's totalised division
    is the real division there) -/
theorem bivLognormal_den_ne {s1 s2 rho x y : ℝ} (hx : 0 < x) (hy : 0 < y) (h1 : 0 < s1) (h2 : 0 < s2)
    (hr : |rho| < 1) : 2 * Real.pi * s1 * s2 * Real.sqrt (1 - rho ^ 2) * x * y ≠ 0 ∧ 1 - rho ^ 2 ≠ 0 ∧ s1 ≠ 0 ∧ s2 ≠ 0 := by
  have h := one_sub_sq_pos hr
  have hs : 0 < Real.sqrt (1 - rho ^ 2) := Real.sqrt_pos.mpr h
  have := Real.pi_pos
  refine ⟨by positivity, h.ne', h1.ne', h2.ne'⟩

/-- symmetric parameters give a density symmetric in its two arguments -/
theorem bivLognormal_swap (mu s rho x y : ℝ) : bivLognormal mu mu s s rho x y = bivLognormal mu mu s s rho y x := by
  unfold bivLognormal
  congr 1
  · congr 1; ring
  · ring

/-- with ρ = 0 the bivariate lognormal is the product of its univariate marginals -/
theorem bivLognormal_rho_zero (mu1 mu2 s1 s2 x y : ℝ) :
    bivLognormal mu1 mu2 s1 s2 0 x y = lognormalDensity mu1 s1 x * lognormalDensity mu2 s2 y := by
  unfold bivLognormal lognormalDensity
  have hpi : Real.sqrt (2 * Real.pi) * Real.sqrt (2 * Real.pi) = 2 * Real.pi :=
    Real.mul_self_sqrt (by positivity)
  have e : -((zlog mu1 s1 x) ^ 2 - 2 * 0 * zlog mu1 s1 x * zlog mu2 s2 y + (zlog mu2 s2 y) ^ 2) / (2 * (1 - (0 : ℝ) ^ 2))
      = -(zlog mu1 s1 x) ^ 2 / 2 + -(zlog mu2 s2 y) ^ 2 / 2 := by ring
  rw [e, Real.exp_add, div_mul_div_comm]
  congr 1
  have : (1 : ℝ) - 0 ^ 2 = 1 := by norm_num
  rw [this, Real.sqrt_one]
  calc 2 * Real.pi * s1 * s2 * 1 * x * y = (2 * Real.pi) * (s1 * s2 * x * y) := by ring
    _ = (Real.sqrt (2 * Real.pi) * Real.sqrt (2 * Real.pi)) * (s1 * s2 * x * y) := by rw [hpi]
    _ = x * s1 * Real.sqrt (2 * Real.pi) * (y * s2 * Real.sqrt (2 * Real.pi)) := by ring

/-- scipy's `lognorm.pdf(x, s, scale=exp(mu)) = lognorm.pdf(x/exp(mu), s)/exp(mu)` with
    `lognorm.pdf(t, s) = 1/(s t sqrt(2π)) exp(-log²t/(2s²))` is the lognormal density -/
theorem lognorm_scipy_eq {mu s x : ℝ} (hx : 0 < x) :
    1 / (s * (x / Real.exp mu) * Real.sqrt (2 * Real.pi))
        * Real.exp (-(Real.log (x / Real.exp mu)) ^ 2 / (2 * s ^ 2)) / Real.exp mu
      = lognormalDensity mu s x := by
  unfold lognormalDensity zlog
  have he : Real.exp mu ≠ 0 := (Real.exp_pos mu).ne'
  rw [Real.log_div hx.ne' he, Real.log_exp]
  have e : -(Real.log x - mu) ^ 2 / (2 * s ^ 2) = -((Real.log x - mu) / s) ^ 2 / 2 := by
    rw [div_pow]; ring
  rw [e]
  have hsq : Real.sqrt (2 * Real.pi) ≠ 0 := (Real.sqrt_pos.mpr (by positivity)).ne'
  by_cases hs : s = 0
  · subst hs; simp
  · field_simp

/-- the way PDFs.c writes a gamma marginal, x^(a−1) e^(−x/b) / (b^a G), is scipy's
    `gamma.pdf(x, a, scale=b) = (x/b)^(a−1) e^(−x/b) / G / b` (x, b > 0) -/
theorem gamma_scipy_eq {x a b : ℝ} (G : ℝ) (hx : 0 < x) (hb : 0 < b) :
    (x / b) ^ (a - 1) * Real.exp (-(x / b)) / G / b = gammaDensityWith G a b x := by
  unfold gammaDensityWith
  rw [Real.div_rpow hx.le hb.le]
  have hba : b ^ a = b ^ (a - 1) * b := by
    have := Real.rpow_add hb (a - 1) 1
    rw [Real.rpow_one] at this
    rw [← this]; congr 1; ring
  have hb1 : b ^ (a - 1) ≠ 0 := (Real.rpow_pos_of_pos hb _).ne'
  have e : -(x / b) = -x / b := by ring
  rw [hba, e]
  by_cases hG : G = 0
  · subst hG; simp
  · field_simp

theorem gammaDensityWith_pos {G a b x : ℝ} (hG : 0 < G) (hx : 0 < x) (hb : 0 < b) : 0 < gammaDensityWith G a b x := by
  unfold gammaDensityWith
  have := Real.rpow_pos_of_pos hx (a - 1)
  have := Real.rpow_pos_of_pos hb a
  positivity

end
end DadiVerif.PDFs
