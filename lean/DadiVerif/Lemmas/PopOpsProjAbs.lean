import DadiVerif.Lemmas.PopOpsProj
/-! C10: a per-axis resampling (projection) of axis `k` commutes with ANY re-indexing `f` that carries axis `k` to an
    axis `k2` untouched (drop another axis, merge two other axes, permute the axes) — data and "any"-type masks. -/
namespace DadiVerif.PopOps
open Finset

/-- the mask of `_project_one_axis` as a function of the source mask -/
def projMsk (k nk m : Nat) (b : Idx → Bool) (j : Idx) : Bool :=
  (List.range nk).any fun h => decide (m - (nk - 1 - h) ≤ j.getD k 0 ∧ j.getD k 0 ≤ min h m) && b (j.set k h)

/-- the generated window `least ≤ j ≤ most` in closed form (truncated subtraction), for a source count inside the axis -/
theorem inWin_eq (n m h j : Nat) (hh : h ≤ n) : inWin n m h j = decide (m - (n - h) ≤ j ∧ j ≤ min h m) := by
  unfold inWin Gen.projLeast Gen.projMost
  rw [decide_eq_decide]
  constructor
  · rintro ⟨h1, h2⟩; constructor <;> omega
  · rintro ⟨h1, h2⟩; constructor <;> omega

theorem projectAxis_dat (k m : Nat) (S : FS) :
    (projectAxis k m S).dat = projDat (projW (S.shape.getD k 0 - 1) m) k (S.shape.getD k 0) S.dat := rfl

theorem projectAxis_msk (k m : Nat) (S : FS) :
    (projectAxis k m S).msk = projMsk k (S.shape.getD k 0) m S.msk := by
  funext j
  show ((List.range (S.shape.getD k 0)).any fun h => inWin (S.shape.getD k 0 - 1) m h (j.getD k 0) && S.msk (j.set k h)) = _
  unfold projMsk
  rw [Bool.eq_iff_iff, List.any_eq_true, List.any_eq_true]
  constructor
  · rintro ⟨h, hh, hb⟩
    rw [List.mem_range] at hh
    rw [inWin_eq _ _ _ _ (by omega)] at hb
    exact ⟨h, List.mem_range.2 hh, hb⟩
  · rintro ⟨h, hh, hb⟩
    rw [List.mem_range] at hh
    exact ⟨h, List.mem_range.2 hh, by rw [inWin_eq _ _ _ _ (by omega)]; exact hb⟩

theorem projectAxis_shape (k m : Nat) (S : FS) : (projectAxis k m S).shape = S.shape.set k (m + 1) := rfl

theorem projMsk_iff (k nk m : Nat) (b : Idx → Bool) (j : Idx) :
    projMsk k nk m b j = true ↔
      ∃ h, h < nk ∧ (m - (nk - 1 - h) ≤ j.getD k 0 ∧ j.getD k 0 ≤ min h m) ∧ b (j.set k h) = true := by
  unfold projMsk
  simp only [List.any_eq_true, List.mem_range, Bool.and_eq_true, decide_eq_true_eq]

theorem projMsk_or (k nk m : Nat) (b c : Idx → Bool) (j : Idx) :
    projMsk k nk m (fun i => b i || c i) j = (projMsk k nk m b j || projMsk k nk m c j) := by
  rw [Bool.eq_iff_iff, Bool.or_eq_true, projMsk_iff, projMsk_iff, projMsk_iff]
  constructor
  · rintro ⟨h, h1, h2, h3⟩
    rw [Bool.or_eq_true] at h3
    rcases h3 with h3 | h3
    · exact Or.inl ⟨h, h1, h2, h3⟩
    · exact Or.inr ⟨h, h1, h2, h3⟩
  · rintro (⟨h, h1, h2, h3⟩ | ⟨h, h1, h2, h3⟩)
    · exact ⟨h, h1, h2, by simp [h3]⟩
    · exact ⟨h, h1, h2, by simp [h3]⟩

theorem anyL_iff (box : List Idx) (f : Idx → Idx) (b : Idx → Bool) (j : Idx) :
    anyL box f b j = true ↔ ∃ i ∈ box, f i = j ∧ b i = true := by
  simp only [anyL, List.any_eq_true, List.mem_filter, beq_iff_eq]
  constructor
  · rintro ⟨i, ⟨h1, h2⟩, h3⟩; exact ⟨i, h1, h2, h3⟩
  · rintro ⟨i, h1, h2, h3⟩; exact ⟨i, ⟨h1, h2⟩, h3⟩

theorem set_mem_box' (sh : List Nat) (k s h : Nat) (j : Idx) (hj : j ∈ boxIdx (sh.set k s)) (hh : h < sh.getD k 0) :
    j.set k h ∈ boxIdx sh := by
  have := set_mem_box (sh.set k s) k h j hj (sh.getD k 0) hh
  rwa [List.set_set, set_getD_self] at this

/-- **data**: re-indexing along `f` after resampling axis `k` = resampling axis `k2` after re-indexing, whenever `f` carries
    axis `k` to axis `k2` (`hset`, `hget`) -/
theorem projDat_push_comm (w : Nat → Nat → ℚ) (sh : List Nat) (f : Idx → Idx) (k k2 m1 : Nat)
    (hset : ∀ i : Idx, i.length = sh.length → ∀ v, f (i.set k v) = (f i).set k2 v)
    (hget : ∀ i : Idx, i.length = sh.length → (f i).getD k2 0 = i.getD k 0)
    (x : Idx → ℚ) (j : Idx) (hk2 : k2 < j.length) (hjk : j.getD k2 0 < m1) :
    pushL (boxIdx (sh.set k m1)) f (projDat w k (sh.getD k 0) x) j
      = projDat w k2 (sh.getD k 0) (pushL (boxIdx sh) f x) j := by
  have hlen1 : ∀ i ∈ boxIdx (sh.set k m1), i.length = sh.length := fun i hi => by
    rw [mem_box_length _ _ hi, List.length_set]
  rw [pushL_eq_sum _ (nodup_boxIdx _)]
  unfold projDat
  simp_rw [sum_range_eq, pushL_eq_sum _ (nodup_boxIdx _)]
  have e : ∀ i : Idx, (if f i = j then ∑ h ∈ Finset.range (sh.getD k 0), w h (i.getD k 0) * x (i.set k h) else 0)
      = ∑ h ∈ Finset.range (sh.getD k 0), (if f i = j then w h (i.getD k 0) * x (i.set k h) else 0) := by
    intro i; split_ifs <;> simp
  simp_rw [e]
  rw [Finset.sum_comm]
  apply Finset.sum_congr rfl
  intro h hh
  rw [Finset.mem_range] at hh
  rw [Finset.mul_sum]
  have hmul : ∀ i' : Idx, w h (j.getD k2 0) * (if f i' = j.set k2 h then x i' else 0)
      = if f i' = j.set k2 h then w h (j.getD k2 0) * x i' else 0 := by
    intro i'; split_ifs <;> simp
  simp_rw [hmul]
  rw [← Finset.sum_filter, ← Finset.sum_filter]
  apply Finset.sum_nbij' (fun i => i.set k h) (fun i' => i'.set k (j.getD k2 0))
  · intro i hi
    simp only [Finset.mem_filter, List.mem_toFinset] at hi ⊢
    exact ⟨set_mem_box' sh k m1 h i hi.1 hh, by rw [hset i (hlen1 i hi.1), hi.2]⟩
  · intro i' hi'
    simp only [Finset.mem_filter, List.mem_toFinset] at hi' ⊢
    refine ⟨set_mem_box sh k _ i' hi'.1 m1 hjk, ?_⟩
    rw [hset i' (mem_box_length _ _ hi'.1), hi'.2, List.set_set, set_getD_self]
  · intro i hi
    simp only [Finset.mem_filter, List.mem_toFinset] at hi
    have : i.getD k 0 = j.getD k2 0 := by rw [← hi.2, hget i (hlen1 i hi.1)]
    show (i.set k h).set k (j.getD k2 0) = i
    rw [List.set_set, ← this, set_getD_self]
  · intro i' hi'
    simp only [Finset.mem_filter, List.mem_toFinset] at hi'
    have : i'.getD k 0 = h := by
      rw [← hget i' (mem_box_length _ _ hi'.1), hi'.2, getD_set_self _ _ _ _ hk2]
    show (i'.set k (j.getD k2 0)).set k h = i'
    rw [List.set_set, ← this, set_getD_self]
  · intro i hi
    simp only [Finset.mem_filter, List.mem_toFinset] at hi
    have : i.getD k 0 = j.getD k2 0 := by rw [← hi.2, hget i (hlen1 i hi.1)]
    rw [this]

/-- **mask** ("a cell is masked iff some contributor is"): the same commutation for Boolean flags -/
theorem projMsk_any_comm (sh : List Nat) (f : Idx → Idx) (k k2 m1 m : Nat)
    (hset : ∀ i : Idx, i.length = sh.length → ∀ v, f (i.set k v) = (f i).set k2 v)
    (hget : ∀ i : Idx, i.length = sh.length → (f i).getD k2 0 = i.getD k 0)
    (b : Idx → Bool) (j : Idx) (hk2 : k2 < j.length) (hjk : j.getD k2 0 < m1) :
    anyL (boxIdx (sh.set k m1)) f (projMsk k (sh.getD k 0) m b) j
      = projMsk k2 (sh.getD k 0) m (anyL (boxIdx sh) f b) j := by
  have hlen1 : ∀ i ∈ boxIdx (sh.set k m1), i.length = sh.length := fun i hi => by
    rw [mem_box_length _ _ hi, List.length_set]
  rw [Bool.eq_iff_iff, anyL_iff, projMsk_iff]
  constructor
  · rintro ⟨i, hi, hfi, hb⟩
    rw [projMsk_iff] at hb
    obtain ⟨h, hh, hw, hb⟩ := hb
    have e : i.getD k 0 = j.getD k2 0 := by rw [← hfi, hget i (hlen1 i hi)]
    refine ⟨h, hh, by rw [← e]; exact hw, ?_⟩
    rw [anyL_iff]
    exact ⟨i.set k h, set_mem_box' sh k m1 h i hi hh, by rw [hset i (hlen1 i hi), hfi], hb⟩
  · rintro ⟨h, hh, hw, hb⟩
    rw [anyL_iff] at hb
    obtain ⟨i', hi', hfi', hb⟩ := hb
    have e : i'.getD k 0 = h := by
      rw [← hget i' (mem_box_length _ _ hi'), hfi', getD_set_self _ _ _ _ hk2]
    refine ⟨i'.set k (j.getD k2 0), set_mem_box sh k _ i' hi' m1 hjk, ?_, ?_⟩
    · rw [hset i' (mem_box_length _ _ hi'), hfi', List.set_set, set_getD_self]
    · rw [projMsk_iff]
      refine ⟨h, hh, ?_, ?_⟩
      · have hkl : k < i'.length := by
          by_contra hc
          have h0 : i'.getD k 0 = 0 := by
            simp [List.getD_eq_getElem?_getD, List.getElem?_eq_none (show i'.length ≤ k by omega)]
          have : sh.getD k 0 = 0 := by
            simp [List.getD_eq_getElem?_getD, List.getElem?_eq_none (show sh.length ≤ k by rw [← mem_box_length _ _ hi']; omega)]
          omega
        rw [getD_set_self _ _ _ _ hkl]; exact hw
      · rw [List.set_set, ← e, set_getD_self]; exact hb

end DadiVerif.PopOps
