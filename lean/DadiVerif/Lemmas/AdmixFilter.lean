import DadiVerif.Lemmas.Admix
import Mathlib.Data.List.Sort
/-!
C06, round 4: `filter_pops` as the iteration the code performs
(`toremove = [1..ndim] minus tokeep; for p in sorted(toremove)[::-1]: phi = remove_pop(phi, xx, p)`)
is the marginalisation over exactly the populations that are not kept (`margMask`).
-/
set_option linter.unusedSimpArgs false
namespace DadiVerif.Admix
open Finset

/-- marginalise the axes whose mask entry is `false` (trapezoid rule on the grid `xx`), keep the others in order -/
def margMask (xx : Array ℚ) : List Bool → (Idx → ℚ) → (Idx → ℚ)
  | [], F => F
  | true :: ms, F => fun j => margMask xx ms (fun i => F (j.headD 0 :: i)) j.tail
  | false :: ms, F => fun j => ∑ k ∈ range xx.size, trapzW xx k * margMask xx ms (fun i => F (k :: i)) j

/-- `Numerics.trapz(·, xx, axis=a)` on entry functions -/
def remF (xx : Array ℚ) (a : ℕ) (F : Idx → ℚ) : Idx → ℚ := fun j => ∑ k ∈ range xx.size, trapzW xx k * F (j.insertIdx a k)

/-- the 0-based axes with mask entry `false`, ascending -/
def falseAxes : List Bool → List ℕ
  | [] => []
  | b :: ms => (if b then [] else [0]) ++ (falseAxes ms).map (· + 1)

theorem remF_succ_slice (xx : Array ℚ) (a h : ℕ) (F : Idx → ℚ) :
    (fun i => remF xx (a + 1) F (h :: i)) = remF xx a (fun i => F (h :: i)) := by
  funext i
  simp only [remF, List.insertIdx_succ_cons]

theorem foldl_remF_shift (xx : Array ℚ) (h : ℕ) : ∀ (axes : List ℕ) (F : Idx → ℚ),
    (fun i => (axes.map (· + 1)).foldl (fun G a => remF xx a G) F (h :: i))
      = axes.foldl (fun G a => remF xx a G) (fun i => F (h :: i)) := by
  intro axes
  induction axes with
  | nil => intro F; rfl
  | cons a as ih =>
    intro F
    simp only [List.map_cons, List.foldl_cons]
    rw [ih (remF xx (a + 1) F), remF_succ_slice]

/-- removing the masked-out axes from the last to the first is the marginal over exactly those axes -/
theorem foldl_remF_desc (xx : Array ℚ) : ∀ (mask : List Bool) (F : Idx → ℚ) (j : Idx), j.length = mask.count true →
    (falseAxes mask).reverse.foldl (fun G a => remF xx a G) F j = margMask xx mask F j := by
  intro mask
  induction mask with
  | nil => intro F j _; rfl
  | cons b ms ih =>
    intro F j hj
    cases b with
    | true =>
      simp only [falseAxes, if_true, List.nil_append, margMask]
      rw [← List.map_reverse]
      cases j with
      | nil => simp at hj
      | cons h t =>
        have := congrFun (foldl_remF_shift xx h (falseAxes ms).reverse F) t
        rw [this, ih _ _ (by simpa using hj)]
        rfl
    | false =>
      simp only [falseAxes, Bool.false_eq_true, if_false, List.reverse_append, List.reverse_cons, List.reverse_nil,
        List.nil_append, List.foldl_append, List.foldl_cons, List.foldl_nil, margMask, List.singleton_append]
      rw [← List.map_reverse]
      show ∑ k ∈ range xx.size, trapzW xx k * _ = _
      apply Finset.sum_congr rfl
      intro k _
      have := congrFun (foldl_remF_shift xx k (falseAxes ms).reverse F) j
      simp only [List.insertIdx_zero] at this ⊢
      rw [this, ih _ _ (by simpa using hj)]

/-! ### the list bookkeeping of `filter_pops` -/

theorem falseAxes_map_range : ∀ (d : ℕ) (g : ℕ → Bool),
    falseAxes ((List.range d).map g) = (List.range d).filter (fun a => !g a) := by
  intro d
  induction d with
  | zero => intro g; rfl
  | succ d ih =>
    intro g
    rw [List.range_succ_eq_map, List.map_cons, List.map_map, falseAxes, ih (g ∘ Nat.succ), List.filter_cons, List.filter_map]
    cases h : g 0 <;> simp [h, Function.comp_def]

theorem toRemove_eq : ∀ (keep acc rm : List ℕ), acc.Nodup →
    keep.foldlM (fun acc p => if acc.contains p then some (acc.erase p) else none) acc = some rm →
    rm = acc.filter (fun x => !keep.contains x) := by
  intro keep
  induction keep with
  | nil => intro acc rm _ h; simp at h; subst h; simp
  | cons p ps ih =>
    intro acc rm hnd h
    rw [List.foldlM_cons] at h
    by_cases hc : acc.contains p = true
    · rw [if_pos hc] at h
      have := ih (acc.erase p) rm (hnd.erase p) (by simpa using h)
      rw [this, hnd.erase_eq_filter, List.filter_filter]
      apply List.filter_congr
      intro x _
      simp only [List.contains_cons, Bool.not_or, Bool.and_comm]
      cases hx : (x == p) <;> simp [hx, bne]
    · rw [if_neg hc] at h; simp at h

theorem insertAsc_of_le (a : ℕ) : ∀ l : List ℕ, (∀ b ∈ l, a ≤ b) → insertAsc a l = a :: l := by
  intro l h
  cases l with
  | nil => rfl
  | cons b l => unfold insertAsc; rw [if_pos (h b (by simp))]

theorem sortAsc_of_sorted : ∀ l : List ℕ, l.Pairwise (· ≤ ·) → sortAsc l = l := by
  intro l
  induction l with
  | nil => intro _; rfl
  | cons a l ih =>
    intro h
    rw [List.pairwise_cons] at h
    show insertAsc a (sortAsc l) = a :: l
    rw [ih h.2, insertAsc_of_le a l h.1]

/-- `toremove`, sorted, is the ascending list of the populations that are not kept -/
theorem toRemove_sorted (d : ℕ) (keep rm : List ℕ) (h : toRemove d keep = some rm) :
    sortAsc rm = rm ∧ rm.map (· - 1) = (List.range d).filter (fun a => !keep.contains (a + 1)) := by
  unfold toRemove at h
  have hnd : ((List.range d).map (· + 1)).Nodup := (List.nodup_range).map (fun a b hab => by simpa using hab)
  have hrm := toRemove_eq keep _ rm hnd h
  constructor
  · apply sortAsc_of_sorted
    rw [hrm]
    apply List.Pairwise.sublist List.filter_sublist
    rw [List.pairwise_map]
    exact (List.pairwise_lt_range).imp (fun h => by omega)
  · rw [hrm, List.filter_map, List.map_map]
    have : ((fun x => x - 1) ∘ fun x => x + 1) = (id : ℕ → ℕ) := by funext x; simp
    rw [this, List.map_id]
    rfl

/-- a successful run of `remove_pop` over a list of population numbers acts on the entry function as the fold of `remF` -/
theorem foldlM_removePop_f (xx : Array ℚ) : ∀ (l : List ℕ) (A B : Dens),
    l.foldlM (fun acc p => removePop xx p acc) A = some B →
    B.f = (l.map (· - 1)).foldl (fun G a => remF xx a G) A.f := by
  intro l
  induction l with
  | nil => intro A B h; simp at h; subst h; rfl
  | cons p l ih =>
    intro A B h
    rw [List.foldlM_cons] at h
    cases hr : removePop xx p A with
    | none => rw [hr] at h; simp at h
    | some A' =>
      rw [hr] at h
      have hA' : A'.f = remF xx (p - 1) A.f := by
        unfold removePop at hr
        split at hr
        · exact absurd hr (by simp)
        · have := (Option.some.inj hr).symm
          subst this
          funext j
          rw [removeAxis_f]; rfl
      rw [ih A' B (by simpa using h), hA']
      rfl

/-- `filter_pops(phi, xx, tokeep)`, whenever it returns, is the trapezoid marginal over exactly the populations that are
    not in `tokeep` (in the order of the populations, whatever the order of `tokeep`) -/
theorem filterPops_marg (xx : Array ℚ) (keep : List ℕ) (P Q : Dens) (h : filterPops xx keep P = some Q) (j : Idx)
    (hj : j.length = ((List.range P.shape.length).map fun a => keep.contains (a + 1)).count true) :
    Q.f j = margMask xx ((List.range P.shape.length).map fun a => keep.contains (a + 1)) P.f j := by
  unfold filterPops at h
  split at h
  · exact absurd h (by simp)
  · rename_i rm hrm
    obtain ⟨hs, hmap⟩ := toRemove_sorted P.shape.length keep rm hrm
    rw [hs] at h
    have hf := foldlM_removePop_f xx rm.reverse P Q h
    rw [hf, List.map_reverse, hmap, ← falseAxes_map_range P.shape.length (fun a => keep.contains (a + 1))]
    exact foldl_remF_desc xx _ P.f j hj

end DadiVerif.Admix
