import DadiVerif.Lemmas.Pivots
/-!
# The implicit step preserves non-negativity when the scheme is an M-matrix

The Thomas sweep of `tridiag.c` on a system with non-positive off-diagonals, positive pivots and a non-negative
right-hand side produces a non-negative solution (`solveAux_nonneg`): the forward pass keeps `u ≥ 0` and `gam ≤ 0`,
the back substitution adds non-negative terms.  For a `Line` with non-negative flux coefficients this is exactly the
situation of `Line.pivSeq_pos`, so one implicit step maps non-negative densities to non-negative densities
(`Line.step_nonneg`), hence so do `mkLine` under the mesh-Péclet condition, `axisLine` without migration and selection
(unconditionally), a whole axis kernel `stepAxisFn`, mutation injection, a whole sweep and a whole integration.
-/
namespace DadiVerif
open Gen Finset

/-- all pivots of the forward sweep are positive -/
def PivotsPos (β cp : ℚ) : List Row → Prop
  | [] => True
  | row :: rest => 0 < (row.b - row.a * (cp / β)) ∧ PivotsPos (row.b - row.a * (cp / β)) row.c rest

theorem PivotsPos.ok : ∀ (rows : List Row) (β cp : ℚ), PivotsPos β cp rows → PivotsOk β cp rows := by
  intro rows
  induction rows with
  | nil => intro _ _ _; exact trivial
  | cons row rest ih => intro β cp h; exact ⟨ne_of_gt h.1, ih _ _ h.2⟩

/-- **Thomas sweep, sign structure**: off-diagonals ≤ 0, right-hand sides ≥ 0, pivots > 0, incoming `u[j-1] ≥ 0`
    ⇒ every entry of the result is ≥ 0. -/
theorem solveAux_nonneg : ∀ (rows : List Row) (β cp up : ℚ),
    PivotsPos β cp rows → 0 ≤ up →
    (∀ row ∈ rows, row.a ≤ 0 ∧ row.c ≤ 0 ∧ 0 ≤ row.r) →
    ∀ x ∈ solveAux β cp up rows, 0 ≤ x := by
  intro rows
  induction rows with
  | nil => intro _ _ _ _ _ _ x hx; simp [solveAux] at hx
  | cons row rest ih =>
    intro β cp up hp hup hs x hx
    obtain ⟨ha, hc, hr⟩ := hs row (List.mem_cons_self)
    have hbet : 0 < row.b - row.a * (cp / β) := hp.1
    set bet := row.b - row.a * (cp / β) with hbetdef
    have hu : 0 ≤ (row.r - row.a * up) / bet := by
      apply div_nonneg _ (le_of_lt hbet)
      nlinarith [mul_nonneg (neg_nonneg.mpr ha) hup]
    have hrest := ih bet row.c ((row.r - row.a * up) / bet) hp.2 hu
      (fun r hr' => hs r (List.mem_cons_of_mem _ hr'))
    simp only [solveAux] at hx
    rcases List.mem_cons.mp hx with h | h
    · rw [h]
      have hhead : 0 ≤ (solveAux bet row.c ((row.r - row.a * up) / bet) rest).headD 0 := by
        cases hl : solveAux bet row.c ((row.r - row.a * up) / bet) rest with
        | nil => simp
        | cons y ys =>
          simp only [List.headD_cons]
          exact hrest y (by rw [hl]; exact List.mem_cons_self)
      have hcb : row.c / bet ≤ 0 := div_nonpos_of_nonpos_of_nonneg hc (le_of_lt hbet)
      nlinarith [mul_nonneg (neg_nonneg.mpr hcb) hhead]
    · exact hrest x h

theorem thomas_nonneg (rows : List Row) (hp : PivotsPos 1 0 rows)
    (hs : ∀ row ∈ rows, row.a ≤ 0 ∧ row.c ≤ 0 ∧ 0 ≤ row.r) : ∀ x ∈ thomas rows, 0 ≤ x :=
  solveAux_nonneg rows 1 0 0 hp (le_refl _) hs

theorem pivotsPos_range'_conv (a b c r : ℕ → ℚ) : ∀ (n s : ℕ),
    (∀ i < n, 0 < pivSeq a b c (s+1+i)) →
    PivotsPos (pivSeq a b c s) (c s) ((List.range' (s+1) n).map fun j => (⟨a j, b j, c j, r j⟩ : Row)) := by
  intro n
  induction n with
  | zero => intro s _; exact trivial
  | succ n ih =>
    intro s h
    rw [List.range'_succ, List.map_cons]
    refine ⟨h 0 (by omega), ?_⟩
    exact ih (s+1) (fun i hi => by
      have := h (i+1) (by omega)
      rwa [show s + 1 + (i + 1) = s + 1 + 1 + i by omega] at this)

theorem Line.pivotsPos_of_pivSeq (L : Line) (φ : ℕ → ℚ) (h : ∀ j < L.N, 0 < pivSeq L.a L.b L.c j) :
    PivotsPos 1 0 (L.rows φ) := by
  unfold Line.rows
  cases hN : L.N with
  | zero => exact trivial
  | succ n =>
    rw [List.range_eq_range', List.range'_succ, List.map_cons]
    have ha : L.a 0 = 0 := by simp [Line.a]
    have e : L.b 0 - L.a 0 * ((0:ℚ) / 1) = pivSeq L.a L.b L.c 0 := by simp [pivSeq, ha]
    refine ⟨?_, ?_⟩
    · show 0 < L.b 0 - L.a 0 * ((0:ℚ) / 1)
      rw [e]; exact h 0 (by omega)
    · show PivotsPos (L.b 0 - L.a 0 * ((0:ℚ) / 1)) (L.c 0) _
      rw [e]
      exact pivotsPos_range'_conv L.a L.b L.c (fun j => φ j / L.dt) n 0 (fun i hi => by
        have := h (i+1) (by omega)
        rwa [show 0 + 1 + i = i + 1 by omega])

/-- **one implicit step of an M-matrix line preserves non-negativity** -/
theorem Line.step_nonneg (L : Line) (hinc : ∀ j, j + 1 < L.N → L.x j < L.x (j+1)) (hdt : 0 < L.dt)
    (hA : ∀ k, 1 ≤ k → k + 1 ≤ L.N → 0 ≤ L.At k) (hC : ∀ k, 1 ≤ k → k + 1 ≤ L.N → 0 ≤ L.Ct k)
    (hbc : ∀ j, 0 ≤ L.bc j) (φ : ℕ → ℚ) (hφ : ∀ j < L.N, 0 ≤ φ j) : ∀ x ∈ L.step φ, 0 ≤ x := by
  unfold Line.step
  apply thomas_nonneg
  · apply L.pivotsPos_of_pivSeq φ
    intro j hj
    have h := L.pivSeq_pos hinc hdt hA hC hbc j hj
    have : 0 < 1 / L.dt := one_div_pos.mpr hdt
    linarith
  · intro row hrow
    unfold Line.rows at hrow
    obtain ⟨j, hj, rfl⟩ := List.mem_map.mp hrow
    have hjN : j < L.N := List.mem_range.mp hj
    refine ⟨?_, ?_, ?_⟩
    · show L.a j ≤ 0
      unfold Line.a
      split_ifs with h0
      · exact le_refl _
      · have := mul_nonneg (L.df_nonneg hinc j hjN) (hA j (by omega) (by omega))
        linarith
    · show L.c j ≤ 0
      unfold Line.c
      split_ifs with h1
      · have := mul_nonneg (L.df_nonneg hinc j hjN) (hC (j+1) (by omega) (by omega))
        linarith
      · exact le_refl _
    · show 0 ≤ φ j / L.dt
      exact div_nonneg (hφ j hjN) (le_of_lt hdt)

theorem Line.stepFn_nonneg (L : Line) (hinc : ∀ j, j + 1 < L.N → L.x j < L.x (j+1)) (hdt : 0 < L.dt)
    (hA : ∀ k, 1 ≤ k → k + 1 ≤ L.N → 0 ≤ L.At k) (hC : ∀ k, 1 ≤ k → k + 1 ≤ L.N → 0 ≤ L.Ct k)
    (hbc : ∀ j, 0 ≤ L.bc j) (φ : ℕ → ℚ) (hφ : ∀ j < L.N, 0 ≤ φ j) (j : ℕ) : 0 ≤ listGetD (L.step φ) j := by
  unfold listGetD
  rcases Nat.lt_or_ge j (L.step φ).length with h | h
  · rw [← List.getElem_eq_getD (h := h) 0]
    exact L.step_nonneg hinc hdt hA hC hbc φ hφ _ (List.getElem_mem h)
  · simp [List.getD, List.getElem?_eq_none h]

/-! ### `mkLine`, `axisLine` -/

/-- the three M-matrix hypotheses of `Line.step_nonneg` for `mkLine` under the interval condition of `mkLine_pivotsOk` -/
theorem mkLine_mmatrix (xs : Array ℚ) (hg : GridOk xs) (V M : ℚ → ℚ) (delj : ℕ → ℚ) (nu : ℚ) (hnu : 0 < nu)
    (z o : Bool) (dt : ℚ)
    (hpe : ∀ i, i + 1 < xs.size →
      0 ≤ M (1/2 * (xs.getD (i+1) 0 + xs.getD i 0)) * delj i + V (xs.getD i 0) / (2 * (xs.getD (i+1) 0 - xs.getD i 0))
      ∧ 0 ≤ -M (1/2 * (xs.getD (i+1) 0 + xs.getD i 0)) * (1 - delj i)
            + V (xs.getD (i+1) 0) / (2 * (xs.getD (i+1) 0 - xs.getD i 0))) :
    let L := mkLine xs V M delj nu z o dt
    (∀ k, 1 ≤ k → k + 1 ≤ L.N → 0 ≤ L.At k) ∧ (∀ k, 1 ≤ k → k + 1 ≤ L.N → 0 ≤ L.Ct k) ∧ (∀ j, 0 ≤ L.bc j) := by
  intro L
  refine ⟨?_, ?_, ?_⟩
  · intro k hk1 hk2
    obtain ⟨i, rfl⟩ : ∃ i, k = i + 1 := ⟨k - 1, by omega⟩
    have hi : i + 1 < xs.size := hk2
    have h := (hpe i hi).1
    show 0 ≤ C.atemp (M (1/2 * (xs.getD (i+1-1+1) 0 + xs.getD (i+1-1) 0))) (delj (i+1-1)) (V (xs.getD (i+1-1) 0))
      (V (xs.getD (i+1) 0)) (xs.getD (i+1-1+1) 0 - xs.getD (i+1-1) 0)
    simp only [Nat.add_sub_cancel, C.atemp]
    exact h
  · intro k hk1 hk2
    obtain ⟨i, rfl⟩ : ∃ i, k = i + 1 := ⟨k - 1, by omega⟩
    have hi : i + 1 < xs.size := hk2
    have h := (hpe i hi).2
    show 0 ≤ C.ctemp (M (1/2 * (xs.getD (i+1-1+1) 0 + xs.getD (i+1-1) 0))) (delj (i+1-1)) (V (xs.getD (i+1-1) 0))
      (V (xs.getD (i+1) 0)) (xs.getD (i+1-1+1) 0 - xs.getD (i+1-1) 0)
    simp only [Nat.add_sub_cancel, C.ctemp]
    exact h
  · intro j
    have h2 := hg.1
    have hdx0 : 0 < xs.getD (0+1) 0 - xs.getD 0 0 := by have := hg.2 0 (by omega); linarith
    have hdxl : 0 < xs.getD (xs.size - 2 + 1) 0 - xs.getD (xs.size - 2) 0 := by
      have := hg.2 (xs.size - 2) (by omega); linarith
    have hnu' : 0 < 1 / 2 / nu := div_pos (by norm_num) hnu
    show 0 ≤ (if j = 0 ∧ z = true ∧ M (xs.getD 0 0) ≤ 0 then C.bcFirst nu (M (xs.getD 0 0)) (xs.getD (0+1) 0 - xs.getD 0 0) else 0)
      + (if j + 1 = xs.size ∧ o = true ∧ M (xs.getD (xs.size - 1) 0) ≥ 0
          then C.bcLast nu (M (xs.getD (xs.size - 1) 0)) (xs.getD (xs.size - 2 + 1) 0 - xs.getD (xs.size - 2) 0) else 0)
    apply add_nonneg
    · split_ifs with hc
      · simp only [C.bcFirst]
        apply div_nonneg _ (le_of_lt hdx0)
        have := hc.2.2
        nlinarith
      · exact le_refl _
    · split_ifs with hc
      · simp only [C.bcLast]
        apply div_nonneg _ (le_of_lt hdxl)
        have : 0 ≤ M (xs.getD (xs.size - 1) 0) := hc.2.2
        have e : -(-(1 / 2) / nu - M (xs.getD (xs.size - 1) 0)) = 1 / 2 / nu + M (xs.getD (xs.size - 1) 0) := by ring
        rw [e]; nlinarith
      · exact le_refl _

/-- `mkLine` under the M-matrix interval condition: one step keeps a non-negative density non-negative -/
theorem mkLine_step_nonneg (xs : Array ℚ) (hg : GridOk xs) (V M : ℚ → ℚ) (delj : ℕ → ℚ) (nu : ℚ) (hnu : 0 < nu)
    (z o : Bool) (dt : ℚ) (hdt : 0 < dt)
    (hpe : ∀ i, i + 1 < xs.size →
      0 ≤ M (1/2 * (xs.getD (i+1) 0 + xs.getD i 0)) * delj i + V (xs.getD i 0) / (2 * (xs.getD (i+1) 0 - xs.getD i 0))
      ∧ 0 ≤ -M (1/2 * (xs.getD (i+1) 0 + xs.getD i 0)) * (1 - delj i)
            + V (xs.getD (i+1) 0) / (2 * (xs.getD (i+1) 0 - xs.getD i 0)))
    (φ : ℕ → ℚ) (hφ : ∀ j < xs.size, 0 ≤ φ j) (j : ℕ) :
    0 ≤ listGetD ((mkLine xs V M delj nu z o dt).step φ) j := by
  obtain ⟨hA, hC, hbc⟩ := mkLine_mmatrix xs hg V M delj nu hnu z o dt hpe
  exact Line.stepFn_nonneg (mkLine xs V M delj nu z o dt) (fun j hj => hg.2 j hj) hdt hA hC hbc φ hφ j

/-- without migration and selection: unconditional -/
theorem axisLine_step_nonneg_nomig (xs : Array ℚ) (hg : GridOk xs) (hx0 : 0 ≤ xs.getD 0 0) (hx1 : xs.getD (xs.size - 1) 0 ≤ 1)
    (P : AxisParams) (hgam : P.gamma = 0) (hm : ∀ m ∈ P.ms, m = 0) (hnu : 0 < P.nu) (hβ : ∀ β, P.beta = some β → 0 < β)
    (ys : List ℚ) (use : Bool) (eps : ℕ → ℚ) (dt : ℚ) (hdt : 0 < dt)
    (φ : ℕ → ℚ) (hφ : ∀ j < xs.size, 0 ≤ φ j) (j : ℕ) :
    0 ≤ listGetD ((axisLine xs P ys use eps dt).step φ) j := by
  rw [axisLine_nomig xs P ys use eps dt hgam hm]
  have hV : ∀ i, i < xs.size → 0 ≤ P.V (xs.getD i 0) := by
    intro i hi
    have := hg.bounds i hi
    exact P.V_nonneg hnu hβ _ (by linarith) (by linarith)
  apply mkLine_step_nonneg xs hg P.V (fun _ => 0) (fun _ => 1/2) P.nu hnu _ _ dt hdt _ φ hφ
  intro i hi
  have hdx : 0 < xs.getD (i+1) 0 - xs.getD i 0 := by have := hg.2 i hi; linarith
  have h1 := hV i (by omega)
  have h2 := hV (i+1) hi
  constructor
  · have : 0 ≤ P.V (xs.getD i 0) / (2 * (xs.getD (i+1) 0 - xs.getD i 0)) := div_nonneg h1 (by linarith)
    linarith
  · have : 0 ≤ P.V (xs.getD (i+1) 0) / (2 * (xs.getD (i+1) 0 - xs.getD i 0)) := div_nonneg h2 (by linarith)
    linarith

/-- with migration and selection, delj = 1/2, under the interval condition `−V(x_i) ≤ M·dx ≤ V(x_{i+1})` -/
theorem axisLine_step_nonneg_peclet (xs : Array ℚ) (hg : GridOk xs) (P : AxisParams) (hnu : 0 < P.nu)
    (ys : List ℚ) (eps : ℕ → ℚ) (dt : ℚ) (hdt : 0 < dt)
    (hpe : ∀ i, i + 1 < xs.size →
      -(P.V (xs.getD i 0)) ≤ Mgen (1/2 * (xs.getD (i+1) 0 + xs.getD i 0)) P.ms ys P.gamma P.h * (xs.getD (i+1) 0 - xs.getD i 0)
      ∧ Mgen (1/2 * (xs.getD (i+1) 0 + xs.getD i 0)) P.ms ys P.gamma P.h * (xs.getD (i+1) 0 - xs.getD i 0)
          ≤ P.V (xs.getD (i+1) 0))
    (φ : ℕ → ℚ) (hφ : ∀ j < xs.size, 0 ≤ φ j) (j : ℕ) :
    0 ≤ listGetD ((axisLine xs P ys false eps dt).step φ) j := by
  have e : axisLine xs P ys false eps dt
      = mkLine xs P.V (fun u => Mgen u P.ms ys P.gamma P.h) (fun _ => 1/2) P.nu (ys.all (· == 0)) (ys.all (· == 1)) dt := by
    simp only [axisLine, Mkernel_getD, deljC_false]
  rw [e]
  apply mkLine_step_nonneg xs hg P.V _ (fun _ => 1/2) P.nu hnu _ _ dt hdt _ φ hφ
  intro i hi
  have hdx : 0 < xs.getD (i+1) 0 - xs.getD i 0 := by have := hg.2 i hi; linarith
  obtain ⟨h1, h2⟩ := hpe i hi
  set m := Mgen (1/2 * (xs.getD (i+1) 0 + xs.getD i 0)) P.ms ys P.gamma P.h
  set dx := xs.getD (i+1) 0 - xs.getD i 0
  have e1 : m * (1/2) + P.V (xs.getD i 0) / (2 * dx) = (m * dx + P.V (xs.getD i 0)) / (2 * dx) := by
    field_simp
  have e2 : -m * (1 - 1/2) + P.V (xs.getD (i+1) 0) / (2 * dx) = (P.V (xs.getD (i+1) 0) - m * dx) / (2 * dx) := by
    field_simp; ring
  constructor
  · show 0 ≤ m * (1/2) + P.V (xs.getD i 0) / (2 * dx)
    rw [e1]; exact div_nonneg (by linarith) (by linarith)
  · show 0 ≤ -m * (1 - 1/2) + P.V (xs.getD (i+1) 0) / (2 * dx)
    rw [e2]; exact div_nonneg (by linarith) (by linarith)

/-! ### a whole axis kernel, injection, sweep, integration (neutral, no migration) -/


/-- every population is neutral, receives no migrants, has positive size -/
def NeutralPops (P : StepParams) : Prop :=
  (∀ p ∈ P.pops, p.gamma = 0 ∧ (∀ m ∈ p.ms, m = 0) ∧ 0 < p.nu) ∧ (∀ β, P.beta = some β → 0 < β)

/-- every grid is increasing inside [0,1] -/
def GridsOk (grids : List (Array ℚ)) : Prop :=
  ∀ xs ∈ grids, GridOk xs ∧ 0 ≤ xs.getD 0 0 ∧ xs.getD (xs.size - 1) 0 ≤ 1

theorem stepAxisFn_nonneg_nomig (grids : List (Array ℚ)) (hG : GridsOk grids) (k : ℕ) (hk : k < grids.length)
    (P : AxisParams) (hgam : P.gamma = 0) (hm : ∀ m ∈ P.ms, m = 0) (hnu : 0 < P.nu) (hβ : ∀ β, P.beta = some β → 0 < β)
    (use : Bool) (eps : List ℕ → ℕ → ℚ) (dt : ℚ) (hdt : 0 < dt) (T : List ℕ → ℚ) (hT : ∀ idx, 0 ≤ T idx) :
    ∀ idx, 0 ≤ stepAxisFn grids k P use eps dt T idx := by
  intro idx
  unfold stepAxisFn stepFam
  have hmem : grids.getD k #[] ∈ grids := by
    rw [List.getD_eq_getElem?_getD, List.getElem?_eq_getElem hk]; simp
  obtain ⟨hg, hx0, hx1⟩ := hG _ hmem
  exact axisLine_step_nonneg_nomig _ hg hx0 hx1 P hgam hm hnu hβ _ use _ dt hdt _ (fun j _ => hT _) _

/-! ### injection, sweep, integration -/

/-- the generated `_inject_mutations_{d}D` increments are the canonical amount dt/x_k[1]·θ0/2·2^d/((x_k[2]−x_k[0])·Π_{l≠k} x_l[1]) -/
theorem injectAmt_eq_canon (d k : ℕ) (hd1 : 1 ≤ d) (hd : d ≤ 5) (hk : k < d) (dt θ : ℚ) (g : ℕ → ℕ → ℚ) :
    injectAmt d k dt θ g = some (injectCanon d k dt θ g) := by
  interval_cases d <;> interval_cases k <;>
    simp [injectAmt, injectCanon, Py.inject1D_0, Py.inject2D_0, Py.inject2D_1, Py.inject3D_0, Py.inject3D_1, Py.inject3D_2,
      Py.inject4D_0, Py.inject4D_1, Py.inject4D_2, Py.inject4D_3, Py.inject5D_0, Py.inject5D_1, Py.inject5D_2, Py.inject5D_3,
      Py.inject5D_4, List.range, List.range.loop, List.filter] <;> ring

theorem foldl_mul_pos : ∀ (l : List ℚ) (a : ℚ), 0 < a → (∀ x ∈ l, 0 < x) → 0 < l.foldl (· * ·) a := by
  intro l
  induction l with
  | nil => intro a ha _; simpa
  | cons x xs ih =>
    intro a ha h
    simp only [List.foldl_cons]
    exact ih (a * x) (mul_pos ha (h x List.mem_cons_self)) (fun y hy => h y (List.mem_cons_of_mem _ hy))

theorem injectCanon_nonneg (d k : ℕ) (dt θ : ℚ) (g : ℕ → ℕ → ℚ) (hdt : 0 ≤ dt) (hθ : 0 ≤ θ)
    (h1 : ∀ l, l < d → 0 < g l 1) (hk : k < d) (h2 : g k 0 < g k 2) : 0 ≤ injectCanon d k dt θ g := by
  unfold injectCanon
  apply div_nonneg
  · have : 0 ≤ dt / g k 1 := div_nonneg hdt (le_of_lt (h1 k hk))
    exact mul_nonneg (div_nonneg (mul_nonneg this hθ) (by norm_num)) (by positivity)
  · apply le_of_lt
    apply mul_pos (by linarith)
    apply foldl_mul_pos _ _ one_pos
    intro x hx
    obtain ⟨l, hl, rfl⟩ := List.mem_map.mp hx
    exact h1 l (List.mem_range.mp (List.mem_filter.mp hl).1)

theorem sumL_nonneg : ∀ (l : List ℚ), (∀ x ∈ l, 0 ≤ x) → 0 ≤ sumL l := by
  intro l
  induction l with
  | nil => intro _; simp
  | cons x xs ih =>
    intro h
    rw [sumL_cons]
    exact add_nonneg (h x List.mem_cons_self) (ih (fun y hy => h y (List.mem_cons_of_mem _ hy)))

/-- second grid point positive and third above the first, on every axis — what the injection formulas divide by -/
def InjectGridsOk (grids : List (Array ℚ)) : Prop :=
  ∀ l, l < grids.length → 0 < (grids.getD l #[]).getD 1 0 ∧ (grids.getD l #[]).getD 0 0 < (grids.getD l #[]).getD 2 0

theorem injectFn_nonneg (grids : List (Array ℚ)) (hd1 : 1 ≤ grids.length) (hd : grids.length ≤ 5)
    (hI : InjectGridsOk grids) (fr nm : List Bool) (dt θ : ℚ) (hdt : 0 ≤ dt) (hθ : 0 ≤ θ)
    (T : List ℕ → ℚ) (hT : ∀ idx, 0 ≤ T idx) : ∀ idx, 0 ≤ injectFn grids fr nm dt θ T idx := by
  intro idx
  unfold injectFn
  apply add_nonneg (hT idx)
  apply sumL_nonneg
  intro x hx
  obtain ⟨k, hk, rfl⟩ := List.mem_map.mp hx
  have hk' : k < grids.length := List.mem_range.mp hk
  split_ifs with h
  · rw [injectAmt_eq_canon _ k hd1 hd hk']
    simp only [Option.getD_some]
    exact injectCanon_nonneg _ k dt θ _ hdt hθ (fun l hl => (hI l hl).1) hk' (hI k hk').2
  · exact le_refl _

theorem sweepAxisFn_nonneg_nomig (grids : List (Array ℚ)) (hG : GridsOk grids) (fr : List Bool) (use : Bool)
    (eps : ℕ → List ℕ → ℕ → ℚ) (P : StepParams) (hP : NeutralPops P) (dt : ℚ) (hdt : 0 < dt)
    (acc : List ℕ → ℚ) (hacc : ∀ idx, 0 ≤ acc idx) (k : ℕ) (hk : k < grids.length) :
    ∀ idx, 0 ≤ sweepAxisFn grids fr use eps P.pops P.beta dt acc k idx := by
  unfold sweepAxisFn
  split_ifs with hf
  · exact hacc
  · cases hp : P.pops[k]? with
    | none => exact hacc
    | some p =>
      simp only []
      have hmem : p ∈ P.pops := List.mem_of_getElem? hp
      obtain ⟨hg, hm, hnu⟩ := hP.1 p hmem
      exact stepAxisFn_nonneg_nomig grids hG k hk (p.axis P.beta) hg hm hnu hP.2 use (eps k) dt hdt acc hacc

theorem sweepFn_nonneg_nomig (grids : List (Array ℚ)) (hG : GridsOk grids) (hd1 : 1 ≤ grids.length) (hd : grids.length ≤ 5)
    (hI : InjectGridsOk grids) (fr nm : List Bool) (use : Bool) (eps : ℕ → List ℕ → ℕ → ℚ)
    (P : StepParams) (hP : NeutralPops P) (hθ : 0 ≤ P.theta0) (dt : ℚ) (hdt : 0 < dt)
    (T : List ℕ → ℚ) (hT : ∀ idx, 0 ≤ T idx) : ∀ idx, 0 ≤ sweepFn grids fr nm use eps P dt T idx := by
  unfold sweepFn
  have key : ∀ (l : List ℕ), (∀ k ∈ l, k < grids.length) → ∀ (acc : List ℕ → ℚ), (∀ idx, 0 ≤ acc idx) →
      ∀ idx, 0 ≤ (l.foldl (sweepAxisFn grids fr use eps P.pops P.beta dt) acc) idx := by
    intro l
    induction l with
    | nil => intro _ acc hacc; simpa using hacc
    | cons k ks ih =>
      intro hl acc hacc
      simp only [List.foldl_cons]
      exact ih (fun j hj => hl j (List.mem_cons_of_mem _ hj)) _
        (sweepAxisFn_nonneg_nomig grids hG fr use eps P hP dt hdt acc hacc k (hl k List.mem_cons_self))
  exact key _ (fun k hk => List.mem_range.mp hk) _ (injectFn_nonneg grids hd1 hd hI fr nm dt P.theta0 (le_of_lt hdt) hθ T hT)

theorem computeDt_pos (tf nu s g h d : ℚ) (htf : 0 < tf) (hd : Py.computeDt tf nu s g h = some d) : 0 < d := by
  unfold Py.computeDt at hd
  split_ifs at hd with hm
  · injection hd with hd; rw [← hd]; exact div_pos htf hm

theorem optMin_pos (a b : Option ℚ) (ha : ∀ d, a = some d → 0 < d) (hb : ∀ d, b = some d → 0 < d) :
    ∀ d, optMin a b = some d → 0 < d := by
  intro d hd
  cases a with
  | none => cases b with
    | none => simp [optMin] at hd
    | some y => simp only [optMin] at hd; exact hb d hd
  | some x => cases b with
    | none => simp only [optMin] at hd; exact ha d hd
    | some y =>
      simp only [optMin, Option.some.injEq] at hd
      rw [← hd]; unfold ratMin
      split_ifs
      · exact ha x rfl
      · exact hb y rfl

theorem foldl_optMin_pos : ∀ (l : List (Option ℚ)) (acc : Option ℚ), (∀ d, acc = some d → 0 < d) →
    (∀ o ∈ l, ∀ d, o = some d → 0 < d) → ∀ d, l.foldl optMin acc = some d → 0 < d := by
  intro l
  induction l with
  | nil => intro acc ha _ d hd; exact ha d hd
  | cons o os ih =>
    intro acc ha hl d hd
    simp only [List.foldl_cons] at hd
    exact ih (optMin acc o) (optMin_pos acc o ha (hl o List.mem_cons_self)) (fun o' ho' => hl o' (List.mem_cons_of_mem _ ho')) d hd

theorem stepDt_pos (tf : ℚ) (htf : 0 < tf) (P : StepParams) : ∀ d, stepDt tf P = some d → 0 < d := by
  unfold stepDt
  apply foldl_optMin_pos
  · intro d hd; cases hd
  · intro o ho d hd
    obtain ⟨p, _, rfl⟩ := List.mem_map.mp ho
    exact computeDt_pos tf _ _ _ _ d htf hd

/-- **whole neutral integrations without migration keep non-negative densities non-negative** (constant parameters) -/
theorem integrateConst_nonneg_nomig (grids : List (Array ℚ)) (hG : GridsOk grids) (hd1 : 1 ≤ grids.length) (hd : grids.length ≤ 5)
    (hI : InjectGridsOk grids) (fr nm : List Bool) (use : Bool) (eps : ℕ → List ℕ → ℕ → ℚ)
    (tf : ℚ) (htf : 0 < tf) (P : StepParams) (hP : NeutralPops P) (hθ : 0 ≤ P.theta0) (T : ℚ) :
    ∀ (fuel : ℕ) (t : ℚ) (φ : List ℕ → ℚ), (∀ idx, 0 ≤ φ idx) →
      ∀ idx, 0 ≤ integrateConst (sweepFn grids fr nm use eps) tf P T fuel t φ idx := by
  intro fuel
  induction fuel with
  | zero => intro t φ hφ; exact hφ
  | succ n ih =>
    intro t φ hφ
    simp only [integrateConst]
    by_cases h : t < T
    · simp only [h, if_true]
      apply ih
      exact sweepFn_nonneg_nomig grids hG hd1 hd hI fr nm use eps P hP hθ _
        (thisDt_pos _ t T h (stepDt_pos tf htf P)) φ hφ
    · simp only [h, if_false]; exact hφ

/-- the same with time-dependent sizes and θ0 -/
theorem integrateFn_nonneg_nomig (grids : List (Array ℚ)) (hG : GridsOk grids) (hd1 : 1 ≤ grids.length) (hd : grids.length ≤ 5)
    (hI : InjectGridsOk grids) (fr nm : List Bool) (use : Bool) (eps : ℕ → List ℕ → ℕ → ℚ)
    (tf : ℚ) (htf : 0 < tf) (Pf : ℚ → StepParams) (hP : ∀ τ, NeutralPops (Pf τ)) (hθ : ∀ τ, 0 ≤ (Pf τ).theta0) (T : ℚ) :
    ∀ (fuel : ℕ) (t : ℚ) (Pc : StepParams) (φ : List ℕ → ℚ), (∀ idx, 0 ≤ φ idx) →
      ∀ idx, 0 ≤ integrateFn (sweepFn grids fr nm use eps) tf Pf T fuel t Pc φ idx := by
  intro fuel
  induction fuel with
  | zero => intro t Pc φ hφ; exact hφ
  | succ n ih =>
    intro t Pc φ hφ
    simp only [integrateFn]
    by_cases h : t < T
    · simp only [h, if_true]
      apply ih
      exact sweepFn_nonneg_nomig grids hG hd1 hd hI fr nm use eps _ (hP _) (hθ _) _
        (thisDt_pos _ t T h (stepDt_pos tf htf Pc)) φ hφ
    · simp only [h, if_false]; exact hφ

end DadiVerif
