import Mathlib.Algebra.BigOperators.Ring.Finset
import Mathlib.Algebra.BigOperators.Group.Finset.Sigma
import Mathlib.Algebra.BigOperators.Group.List.Basic
import Mathlib.Algebra.Order.Field.Rat
import Mathlib.Data.List.Forall2
import Mathlib.Tactic.Ring
import Mathlib.Tactic.Linarith
import DadiVerif.Model.PopOps
/-! C10 helper lemmas: explicit re-indexing `pushL` as a Finset sum, composition and total of re-indexings (DESIGN App. L,
    re-stated for the list-indexed model), index boxes, the index maps of marginalize / combine / reorder, labels. -/
namespace DadiVerif.PopOps
open Finset

theorem filter_map_sum (box : List Idx) (p : Idx → Bool) (x : Idx → ℚ) :
    ((box.filter p).map x).sum = (box.map fun i => if p i then x i else 0).sum := by
  induction box with
  | nil => simp
  | cons a l ih =>
    by_cases h : p a <;> simp [h, ih]

theorem pushL_eq_sum (box : List Idx) (hb : box.Nodup) (f : Idx → Idx) (x : Idx → ℚ) (j : Idx) :
    pushL box f x j = ∑ i ∈ box.toFinset, if f i = j then x i else 0 := by
  unfold pushL
  rw [filter_map_sum, ← List.sum_toFinset (fun i => if (f i == j) = true then x i else 0) hb]
  refine Finset.sum_congr rfl (fun i _ => ?_)
  simp

theorem list_sum_eq (box : List Idx) (hb : box.Nodup) (x : Idx → ℚ) :
    (box.map x).sum = ∑ i ∈ box.toFinset, x i := (List.sum_toFinset _ hb).symm

theorem pushL_comp (boxA boxB : List Idx) (hA : boxA.Nodup) (hB : boxB.Nodup) (f g : Idx → Idx)
    (hf : ∀ a ∈ boxA, f a ∈ boxB) (x : Idx → ℚ) (c : Idx) :
    pushL boxB g (pushL boxA f x) c = pushL boxA (fun a => g (f a)) x c := by
  rw [pushL_eq_sum _ hB, pushL_eq_sum _ hA]
  simp_rw [pushL_eq_sum _ hA]
  have : ∀ b : Idx, (if g b = c then ∑ a ∈ boxA.toFinset, (if f a = b then x a else 0) else 0)
      = ∑ a ∈ boxA.toFinset, (if f a = b then (if g b = c then x a else 0) else 0) := by
    intro b
    split_ifs with h
    · rfl
    · simp
  simp_rw [this]
  rw [Finset.sum_comm]
  refine Finset.sum_congr rfl (fun a ha => ?_)
  rw [Finset.sum_eq_single_of_mem (f a) (by simpa using hf a (by simpa using ha))]
  · simp
  · intro b _ hb; simp [Ne.symm hb]

theorem pushL_total (boxA boxB : List Idx) (hA : boxA.Nodup) (hB : boxB.Nodup) (f : Idx → Idx)
    (hf : ∀ a ∈ boxA, f a ∈ boxB) (x : Idx → ℚ) :
    (boxB.map (pushL boxA f x)).sum = (boxA.map x).sum := by
  rw [list_sum_eq _ hB, list_sum_eq _ hA]
  simp_rw [pushL_eq_sum _ hA]
  rw [Finset.sum_comm]
  refine Finset.sum_congr rfl (fun a ha => ?_)
  rw [Finset.sum_eq_single_of_mem (f a) (by simpa using hf a (by simpa using ha))]
  · simp
  · intro b _ hb; simp [Ne.symm hb]

theorem mem_boxIdx (sh : List Nat) (i : Idx) : i ∈ boxIdx sh ↔ List.Forall₂ (· < ·) i sh := by
  induction sh generalizing i with
  | nil => cases i <;> simp [boxIdx]
  | cons s ss ih =>
    cases i with
    | nil => simp [boxIdx]
    | cons c cs =>
      simp only [boxIdx, List.mem_flatMap, List.mem_range, List.mem_map, List.forall₂_cons]
      constructor
      · rintro ⟨a, ha, b, hb, hab⟩
        injection hab with h1 h2
        subst h1; subst h2
        exact ⟨ha, (ih _).1 hb⟩
      · rintro ⟨h1, h2⟩
        exact ⟨c, h1, cs, (ih _).2 h2, rfl⟩

theorem nodup_boxIdx (sh : List Nat) : (boxIdx sh).Nodup := by
  induction sh with
  | nil => simp [boxIdx]
  | cons s ss ih =>
    simp only [boxIdx]
    rw [List.nodup_flatMap]
    refine ⟨fun a _ => ?_, ?_⟩
    · exact ih.map (fun x y h => by injection h)
    · refine List.Pairwise.imp_of_mem ?_ (List.nodup_range (n := s))
      intro a b _ _ hab
      simp only [Function.onFun, List.disjoint_left, List.mem_map]
      rintro x ⟨u, _, rfl⟩ ⟨v, _, hv⟩
      injection hv with h1 _
      exact hab h1.symm


theorem forall2_eraseIdx {α β : Type} {R : α → β → Prop} {l : List α} {m : List β} (h : List.Forall₂ R l m) (k : Nat) :
    List.Forall₂ R (l.eraseIdx k) (m.eraseIdx k) := by
  induction h generalizing k with
  | nil => simp
  | cons hab _ ih =>
    cases k with
    | zero => simpa
    | succ k => simp only [List.eraseIdx_cons_succ]; exact List.Forall₂.cons hab (ih k)

theorem forall2_set {α β : Type} {R : α → β → Prop} {l : List α} {m : List β} (h : List.Forall₂ R l m) (k : Nat)
    {x : α} {y : β} (hxy : R x y) : List.Forall₂ R (l.set k x) (m.set k y) := by
  induction h generalizing k with
  | nil => simp
  | cons hab hrest ih =>
    cases k with
    | zero => simp only [List.set_cons_zero]; exact List.Forall₂.cons hxy hrest
    | succ k => simp only [List.set_cons_succ]; exact List.Forall₂.cons hab (ih k)

theorem forall2_getD_le {l m : List Nat} (h : List.Forall₂ (· ≤ ·) l m) (k : Nat) : l.getD k 0 ≤ m.getD k 0 := by
  induction h generalizing k with
  | nil => simp
  | cons hab _ ih =>
    cases k with
    | zero => simpa
    | succ k => simpa using ih k

theorem forall2_getD_lt {l m : List Nat} (h : List.Forall₂ (· < ·) l m) (k : Nat) (hk : k < m.length) : l.getD k 0 < m.getD k 0 := by
  induction h generalizing k with
  | nil => simp at hk
  | cons hab _ ih =>
    cases k with
    | zero => simpa
    | succ k => simp at hk; simpa using ih k hk

theorem forall2_lt_le {l m : List Nat} (h : List.Forall₂ (· < ·) l m) : List.Forall₂ (· ≤ ·) l (m.map (· - 1)) := by
  induction h with
  | nil => simp
  | cons hab _ ih => simp only [List.map_cons]; exact List.Forall₂.cons (by omega) ih

theorem forall2_le_lt {l m : List Nat} (h : List.Forall₂ (· ≤ ·) l m) : List.Forall₂ (· < ·) l (m.map (· + 1)) := by
  induction h with
  | nil => simp
  | cons hab _ ih => simp only [List.map_cons]; exact List.Forall₂.cons (by omega) ih

theorem forall2_sum_le {l m : List Nat} (h : List.Forall₂ (· ≤ ·) l m) : l.sum ≤ m.sum := by
  induction h with
  | nil => simp
  | cons hab _ ih => simp only [List.sum_cons]; omega

/-- dropping an axis maps the box into the box of the reduced shape -/
theorem eraseIdx_mem_box (sh : List Nat) (k : Nat) (i : Idx) (h : i ∈ boxIdx sh) : i.eraseIdx k ∈ boxIdx (sh.eraseIdx k) :=
  (mem_boxIdx _ _).2 (forall2_eraseIdx ((mem_boxIdx _ _).1 h) k)

theorem dropAxes_cons {α : Type} (k : Nat) (ks : List Nat) (l : List α) : dropAxes (k :: ks) l = dropAxes ks (l.eraseIdx k) := rfl

theorem dropAxes_mem_box (ks : List Nat) (sh : List Nat) (i : Idx) (h : i ∈ boxIdx sh) : dropAxes ks i ∈ boxIdx (dropAxes ks sh) := by
  induction ks generalizing sh i with
  | nil => exact h
  | cons k ks ih => exact ih _ _ (eraseIdx_mem_box sh k i h)

theorem merge2_eq (a b : Nat) (i : Idx) : merge2 a b i = (i.set a (i.getD a 0 + i.getD b 0)).eraseIdx b := rfl

theorem mergeShape_eq (a b : Nat) (sh : List Nat) :
    mergeShape a b sh = (((sh.map (· - 1)).set a ((sh.map (· - 1)).getD a 0 + (sh.map (· - 1)).getD b 0)).eraseIdx b).map (· + 1) := rfl

theorem merge2_mem_box (a b : Nat) (sh : List Nat) (i : Idx) (h : i ∈ boxIdx sh) : merge2 a b i ∈ boxIdx (mergeShape a b sh) := by
  rw [mem_boxIdx] at h ⊢
  rw [merge2_eq, mergeShape_eq]
  have h1 := forall2_lt_le h
  exact forall2_le_lt (forall2_eraseIdx (forall2_set h1 a (Nat.add_le_add (forall2_getD_le h1 a) (forall2_getD_le h1 b))) b)

theorem permIdx_mem_box (axes : List Nat) (sh : List Nat) (hax : ∀ a ∈ axes, a < sh.length) (i : Idx) (h : i ∈ boxIdx sh) :
    permIdx 0 axes i ∈ boxIdx (permIdx 0 axes sh) := by
  rw [mem_boxIdx] at h ⊢
  unfold permIdx
  induction axes with
  | nil => simp
  | cons a as ih =>
    simp only [List.map_cons]
    exact List.Forall₂.cons (forall2_getD_lt h a (hax a (by simp))) (ih (fun x hx => hax x (by simp [hx])))

theorem total_mem_box (sh : List Nat) (i : Idx) (h : i ∈ boxIdx sh) : [i.sum] ∈ boxIdx [nTotal sh + 1] := by
  rw [mem_boxIdx] at h ⊢
  have := forall2_sum_le (forall2_lt_le h)
  simp only [List.forall₂_cons, List.Forall₂.nil, and_true]
  unfold nTotal; omega



/-- a sum over the fibre of `c` only looks at `y` on that fibre -/
theorem pushL_congr (box : List Idx) (f : Idx → Idx) (x y : Idx → ℚ) (j : Idx)
    (h : ∀ i ∈ box, f i = j → x i = y i) : pushL box f x j = pushL box f y j := by
  unfold pushL
  congr 1
  apply List.map_congr_left
  intro i hi
  rw [List.mem_filter] at hi
  exact h i hi.1 (by simpa using hi.2)

theorem pushL_id (box : List Idx) (hb : box.Nodup) (x : Idx → ℚ) (j : Idx) (hj : j ∈ box) :
    pushL box (fun i => i) x j = x j := by
  rw [pushL_eq_sum _ hb]
  rw [Finset.sum_eq_single_of_mem j (by simpa using hj)]
  · simp
  · intro b _ hb; simp [hb]

theorem allL_comp (boxA boxB : List Idx) (f g : Idx → Idx) (hf : ∀ a ∈ boxA, f a ∈ boxB) (m : Idx → Bool) (c : Idx) :
    allL boxB g (allL boxA f m) c = allL boxA (fun a => g (f a)) m c := by
  rw [Bool.eq_iff_iff]
  simp only [allL, List.all_eq_true, List.mem_filter, beq_iff_eq, and_imp]
  constructor
  · intro h a ha hc
    exact h (f a) (hf a ha) hc a ha rfl
  · intro h b _ hc a ha hab
    exact h a ha (by rw [hab]; exact hc)

theorem anyL_comp (boxA boxB : List Idx) (f g : Idx → Idx) (hf : ∀ a ∈ boxA, f a ∈ boxB) (m : Idx → Bool) (c : Idx) :
    anyL boxB g (anyL boxA f m) c = anyL boxA (fun a => g (f a)) m c := by
  rw [Bool.eq_iff_iff]
  simp only [anyL, List.any_eq_true, List.mem_filter, beq_iff_eq]
  constructor
  · rintro ⟨b, ⟨_, hc⟩, a, ⟨ha, hab⟩, hm⟩
    exact ⟨a, ⟨ha, by rw [hab]; exact hc⟩, hm⟩
  · rintro ⟨a, ⟨ha, hc⟩, hm⟩
    exact ⟨f a, ⟨hf a ha, hc⟩, a, ⟨ha, rfl⟩, hm⟩

theorem allL_id (box : List Idx) (m : Idx → Bool) (j : Idx) (hj : j ∈ box) :
    allL box (fun i => i) m j = m j := by
  rw [Bool.eq_iff_iff]
  simp only [allL, List.all_eq_true, List.mem_filter, beq_iff_eq, and_imp]
  constructor
  · intro h; exact h j hj rfl
  · intro h a _ ha; rw [ha]; exact h

/-- in a masked sum a cell whose contributors are all masked holds 0 -/
theorem sumAxis_val (k : Nat) (S : FS) : (sumAxis k S).val = (sumAxis k S).dat := by
  funext j
  unfold FS.val
  split
  · rename_i h
    simp only [sumAxis, allL, List.all_eq_true, List.mem_filter, and_imp] at h
    simp only [sumAxis, pushL]
    symm
    apply List.sum_eq_zero
    intro v hv
    rw [List.mem_map] at hv
    obtain ⟨i, hi, rfl⟩ := hv
    rw [List.mem_filter] at hi
    simp [FS.val, h i hi.1 hi.2]
  · rfl

theorem marginalizeCore_cons (k : Nat) (ks : List Nat) (S : FS) :
    marginalizeCore (k :: ks) S = marginalizeCore ks (sumAxis k S) := rfl

theorem marginalizeCore_shape (ks : List Nat) (S : FS) : (marginalizeCore ks S).shape = dropAxes ks S.shape := by
  induction ks generalizing S with
  | nil => rfl
  | cons k ks ih => rw [marginalizeCore_cons, ih, dropAxes_cons]; rfl

theorem marginalizeCore_val (ks : List Nat) (S : FS) (j : Idx) (hj : j ∈ boxIdx (dropAxes ks S.shape)) :
    (marginalizeCore ks S).val j = pushL S.box (dropAxes ks) S.val j := by
  induction ks generalizing S with
  | nil => exact (pushL_id _ (nodup_boxIdx _) _ _ hj).symm
  | cons k ks ih =>
    rw [marginalizeCore_cons, ih (sumAxis k S) hj, sumAxis_val]
    show pushL (boxIdx (S.shape.eraseIdx k)) (dropAxes ks) (pushL S.box (fun i => i.eraseIdx k) S.val) j = _
    rw [pushL_comp S.box _ (nodup_boxIdx S.shape) (nodup_boxIdx _) _ _ (fun a ha => eraseIdx_mem_box S.shape k a ha)]
    rfl

theorem marginalizeCore_val_eq_dat (ks : List Nat) (hks : ks ≠ []) (S : FS) :
    (marginalizeCore ks S).val = (marginalizeCore ks S).dat := by
  induction ks generalizing S with
  | nil => exact absurd rfl hks
  | cons k ks ih =>
    rw [marginalizeCore_cons]
    cases ks with
    | nil => exact sumAxis_val k S
    | cons k' ks' => exact ih (by simp) _

theorem marginalizeCore_msk (ks : List Nat) (S : FS) (j : Idx) (hj : j ∈ boxIdx (dropAxes ks S.shape)) :
    (marginalizeCore ks S).msk j = allL S.box (dropAxes ks) S.msk j := by
  induction ks generalizing S with
  | nil => exact (allL_id _ _ _ hj).symm
  | cons k ks ih =>
    rw [marginalizeCore_cons, ih (sumAxis k S) hj]
    show allL (boxIdx (S.shape.eraseIdx k)) (dropAxes ks) (allL S.box (fun i => i.eraseIdx k) S.msk) j = _
    rw [allL_comp S.box _ _ _ (fun a ha => eraseIdx_mem_box S.shape k a ha)]
    rfl



theorem dropSet_none {α : Type} (S : List Nat) (p : Nat) (l : List α) (h : ∀ q ∈ S, q < p) : dropSet S p l = l := by
  induction l generalizing p with
  | nil => rfl
  | cons c cs ih =>
    have hp : S.contains p = false := by
      rw [List.contains_eq_mem]; simp; intro hm; exact absurd (h p hm) (by omega)
    simp only [dropSet, hp]
    rw [ih (p + 1) (fun q hq => by have := h q hq; omega)]
    simp

theorem dropSet_eraseIdx {α : Type} (ks : List Nat) (l : List α) (p k : Nat) (h : ∀ q ∈ ks, q < p + k) :
    dropSet ks p (l.eraseIdx k) = dropSet ((p + k) :: ks) p l := by
  induction l generalizing p k with
  | nil => simp [dropSet]
  | cons c cs ih =>
    cases k with
    | zero =>
      have h1 : ((p + 0) :: ks).contains p = true := by simp
      simp only [List.eraseIdx_cons_zero, dropSet, h1, if_true]
      rw [dropSet_none ks p cs (by simpa using h)]
      rw [dropSet_none ((p + 0) :: ks) (p + 1) cs]
      intro q hq
      rcases List.mem_cons.1 hq with rfl | hq
      · omega
      · have := h q hq; omega
    | succ k =>
      have h1 : ((p + (k + 1)) :: ks).contains p = ks.contains p := by
        rw [List.contains_eq_mem, List.contains_eq_mem]
        simp
      simp only [List.eraseIdx_cons_succ, dropSet, h1]
      have := ih (p + 1) k (fun q hq => by have := h q hq; omega)
      rw [show p + 1 + k = p + (k + 1) by omega] at this
      rw [this]

/-- deleting positions from the highest to the lowest deletes exactly the listed positions -/
theorem dropAxes_eq_dropSet {α : Type} (ks : List Nat) (hd : ks.Pairwise (· > ·)) (l : List α) :
    dropAxes ks l = dropSet ks 0 l := by
  induction ks generalizing l with
  | nil => rw [dropSet_none [] 0 l (by simp)]; rfl
  | cons k ks ih =>
    rw [List.pairwise_cons] at hd
    rw [dropAxes_cons, ih hd.2, dropSet_eraseIdx ks l 0 k (by simpa using hd.1)]
    simp

theorem dropSet_congr {α : Type} (S S' : List Nat) (h : ∀ q, q ∈ S ↔ q ∈ S') (p : Nat) (l : List α) :
    dropSet S p l = dropSet S' p l := by
  induction l generalizing p with
  | nil => rfl
  | cons c cs ih =>
    have : S.contains p = S'.contains p := by
      rw [List.contains_eq_mem, List.contains_eq_mem]; simp [h p]
    simp only [dropSet, this, ih]

theorem insertAsc_perm (a : Nat) (l : List Nat) : (insertAsc a l).Perm (a :: l) := by
  induction l with
  | nil => exact List.Perm.refl _
  | cons b l ih =>
    unfold insertAsc
    split
    · exact List.Perm.refl _
    · exact (List.Perm.cons b ih).trans (List.Perm.swap a b l)

theorem sortAsc_perm (l : List Nat) : (sortAsc l).Perm l := by
  induction l with
  | nil => exact List.Perm.refl _
  | cons a l ih => exact (insertAsc_perm a _).trans (List.Perm.cons a ih)

theorem insertAsc_sorted (a : Nat) (l : List Nat) (h : l.Pairwise (· ≤ ·)) : (insertAsc a l).Pairwise (· ≤ ·) := by
  induction l with
  | nil => simp [insertAsc]
  | cons b l ih =>
    unfold insertAsc
    rw [List.pairwise_cons] at h
    split
    · rename_i hab
      refine List.pairwise_cons.2 ⟨?_, List.pairwise_cons.2 h⟩
      intro x hx
      rcases List.mem_cons.1 hx with rfl | hx
      · exact hab
      · exact Nat.le_trans hab (h.1 x hx)
    · rename_i hab
      refine List.pairwise_cons.2 ⟨?_, ih h.2⟩
      intro x hx
      rcases List.mem_cons.1 ((insertAsc_perm a l).mem_iff.1 hx) with rfl | hx
      · omega
      · exact h.1 x hx

theorem sortAsc_sorted (l : List Nat) : (sortAsc l).Pairwise (· ≤ ·) := by
  induction l with
  | nil => simp [sortAsc]
  | cons a l ih => exact insertAsc_sorted a _ ih

theorem sortDesc_perm (l : List Nat) : (sortDesc l).Perm l :=
  (List.reverse_perm _).trans (sortAsc_perm l)

theorem sortDesc_desc (l : List Nat) (hn : l.Nodup) : (sortDesc l).Pairwise (· > ·) := by
  have h1 : (sortDesc l).Pairwise (· ≥ ·) := by
    unfold sortDesc; rw [List.pairwise_reverse]; exact sortAsc_sorted l
  have h2 : (sortDesc l).Nodup := (sortDesc_perm l).nodup_iff.2 hn
  refine (h1.and h2).imp ?_
  intro a b ⟨hab, hne⟩
  omega

/-- `marginalize` sorts `over` and deletes from the top: that is "delete the set `over`" -/
theorem dropAxes_sortDesc {α : Type} (over : List Nat) (hn : over.Nodup) (l : List α) :
    dropAxes (sortDesc over) l = dropSet over 0 l := by
  rw [dropAxes_eq_dropSet _ (sortDesc_desc over hn)]
  exact dropSet_congr _ _ (fun q => (sortDesc_perm over).mem_iff) 0 l



/-! filter_pops: the `toremove` program computes the complement -/
theorem toRemove_aux (keep : List Nat) (acc rm : List Nat) (hacc : acc.Nodup)
    (h : keep.foldlM (fun acc p => if p ≥ 1 ∧ acc.contains (p - 1) then some (acc.erase (p - 1)) else none) acc = some rm) :
    rm.Nodup ∧ ∀ q, q ∈ rm ↔ (q ∈ acc ∧ q + 1 ∉ keep) := by
  induction keep generalizing acc with
  | nil =>
    simp only [List.foldlM_nil, pure, Option.some.injEq] at h
    subst h; simp [hacc]
  | cons p ps ih =>
    simp only [List.foldlM_cons, bind] at h
    by_cases hp : p ≥ 1 ∧ acc.contains (p - 1) = true
    · rw [if_pos hp] at h
      simp only [Option.bind] at h
      obtain ⟨h1, h2⟩ := ih (acc.erase (p - 1)) (hacc.erase _) h
      refine ⟨h1, fun q => ?_⟩
      rw [h2 q, hacc.mem_erase_iff]
      simp only [List.mem_cons, not_or]
      constructor
      · rintro ⟨⟨hne, hq⟩, hps⟩; exact ⟨hq, by omega, hps⟩
      · rintro ⟨hq, hne, hps⟩; exact ⟨⟨by omega, hq⟩, hps⟩
    · rw [if_neg hp] at h
      simp [Option.bind] at h

theorem toRemove_spec (d : Nat) (keep rm : List Nat) (h : toRemove d keep = some rm) :
    rm.Nodup ∧ ∀ q, q ∈ rm ↔ (q < d ∧ q + 1 ∉ keep) := by
  have := toRemove_aux keep (List.range d) rm List.nodup_range h
  simpa using this

/-! reorder_pops -/
theorem pushL_inj (box : List Idx) (hb : box.Nodup) (f : Idx → Idx) (x : Idx → ℚ) (i : Idx) (hi : i ∈ box)
    (hinj : ∀ i' ∈ box, f i' = f i → i' = i) : pushL box f x (f i) = x i := by
  rw [pushL_eq_sum _ hb, Finset.sum_eq_single_of_mem i (by simpa using hi)]
  · simp
  · intro b hb' hne
    have : f b ≠ f i := fun h => hne (hinj b (by simpa using hb') h)
    simp [this]

theorem anyL_inj (box : List Idx) (f : Idx → Idx) (m : Idx → Bool) (i : Idx) (hi : i ∈ box)
    (hinj : ∀ i' ∈ box, f i' = f i → i' = i) : anyL box f m (f i) = m i := by
  rw [Bool.eq_iff_iff]
  simp only [anyL, List.any_eq_true, List.mem_filter, beq_iff_eq]
  constructor
  · rintro ⟨a, ⟨ha, hfa⟩, hm⟩
    rw [← hinj a ha hfa]; exact hm
  · intro hm; exact ⟨i, ⟨hi, rfl⟩, hm⟩

theorem mem_box_length (sh : List Nat) (i : Idx) (h : i ∈ boxIdx sh) : i.length = sh.length :=
  ((mem_boxIdx _ _).1 h).length_eq

/-- a permutation of the axes is injective on multi-indices of the right length -/
theorem permIdx_inj (axes : List Nat) (d : Nat) (hcov : ∀ a, a < d → a ∈ axes) (i i' : Idx) (hi : i.length = d) (hi' : i'.length = d)
    (h : permIdx 0 axes i' = permIdx 0 axes i) : i' = i := by
  apply List.ext_getElem (by omega)
  intro n h1 h2
  have hn : n ∈ axes := hcov n (by omega)
  obtain ⟨k, hk, hkn⟩ := List.mem_iff_getElem.1 hn
  have := congrArg (fun l => l[k]?) h
  simp only [permIdx, List.getElem?_map, List.getElem?_eq_getElem hk, hkn, Option.map_some] at this
  simpa [List.getD_eq_getElem?_getD, List.getElem?_eq_getElem h1, List.getElem?_eq_getElem h2] using this

/-! combine_two_pops / combine_pops -/
theorem accMask_eq_any (l : List Bool) : accMask l = l.any id := by
  unfold accMask
  have : ∀ acc, l.foldl Gen.c2MaskStep acc = (acc || l.any id) := by
    induction l with
    | nil => simp
    | cons b bs ih => intro acc; simp [List.foldl_cons, ih, Gen.c2MaskStep, Bool.or_assoc]
  simpa using this false

def combineIter (a : Nat) (rs : List Nat) (S : FS) : FS := rs.foldl (fun acc r => combineTwoCore a r acc) S

theorem combineIter_cons (a r : Nat) (rs : List Nat) (S : FS) :
    combineIter a (r :: rs) S = combineIter a rs (combineTwoCore a r S) := rfl

theorem mergeAll_cons (a r : Nat) (rs : List Nat) (i : Idx) : mergeAll a (r :: rs) i = mergeAll a rs (merge2 a r i) := rfl

/-- shape after iterated merging -/
def mergeAllShape (a : Nat) (rs : List Nat) (sh : List Nat) : List Nat := rs.foldl (fun acc r => mergeShape a r acc) sh

theorem combineIter_shape (a : Nat) (rs : List Nat) (S : FS) : (combineIter a rs S).shape = mergeAllShape a rs S.shape := by
  induction rs generalizing S with
  | nil => rfl
  | cons r rs ih => rw [combineIter_cons, ih]; rfl

theorem mergeAll_mem_box (a : Nat) (rs : List Nat) (sh : List Nat) (i : Idx) (h : i ∈ boxIdx sh) :
    mergeAll a rs i ∈ boxIdx (mergeAllShape a rs sh) := by
  induction rs generalizing sh i with
  | nil => exact h
  | cons r rs ih => exact ih _ _ (merge2_mem_box a r sh i h)

theorem combineTwoCore_unmasked (a b : Nat) (S : FS) (j : Idx) (hj : (combineTwoCore a b S).msk j = false) :
    (∀ i ∈ S.box, merge2 a b i = j → S.msk i = false) ∧
    (combineTwoCore a b S).dat j = pushL S.box (merge2 a b) S.dat j := by
  simp only [combineTwoCore, Bool.or_eq_false_iff, accMask_eq_any] at hj
  have h1 : ∀ i ∈ S.box, merge2 a b i = j → S.msk i = false := by
    intro i hi hij
    by_contra hm
    have : ((S.box.filter fun i => merge2 a b i == j).map S.msk).any id = true := by
      simp only [List.any_map, List.any_eq_true, List.mem_filter, beq_iff_eq]
      exact ⟨i, ⟨hi, hij⟩, by simpa using hm⟩
    rw [this] at hj; exact absurd hj.1 (by simp)
  refine ⟨h1, ?_⟩
  show pushL S.box (merge2 a b) S.val j = _
  apply pushL_congr
  intro i hi hij
  simp [FS.val, h1 i hi hij]

/-- iterated pairwise merging = ONE explicit re-indexing, on every cell that ends up unmasked -/
theorem combineIter_unmasked (a : Nat) (rs : List Nat) (S : FS) (j : Idx)
    (hjb : j ∈ boxIdx (mergeAllShape a rs S.shape)) (hj : (combineIter a rs S).msk j = false) :
    (∀ i ∈ S.box, mergeAll a rs i = j → S.msk i = false) ∧
    (combineIter a rs S).dat j = pushL S.box (mergeAll a rs) S.dat j := by
  induction rs generalizing S with
  | nil =>
    refine ⟨fun i _ hij => ?_, ?_⟩
    · have : i = j := hij
      rw [this]; exact hj
    · exact (pushL_id _ (nodup_boxIdx _) _ _ hjb).symm
  | cons r rs ih =>
    rw [combineIter_cons] at hj ⊢
    obtain ⟨h1, h2⟩ := ih (combineTwoCore a r S) hjb hj
    have hbox : ∀ i ∈ S.box, merge2 a r i ∈ (combineTwoCore a r S).box := fun i hi => merge2_mem_box a r S.shape i hi
    have hfib : ∀ i' ∈ (combineTwoCore a r S).box, mergeAll a rs i' = j →
        (∀ i ∈ S.box, merge2 a r i = i' → S.msk i = false) ∧
        (combineTwoCore a r S).dat i' = pushL S.box (merge2 a r) S.dat i' :=
      fun i' hi' hij => combineTwoCore_unmasked a r S i' (h1 i' hi' hij)
    refine ⟨fun i hi hij => ?_, ?_⟩
    · exact (hfib (merge2 a r i) (hbox i hi) hij).1 i hi rfl
    · rw [h2, pushL_congr _ _ _ (pushL S.box (merge2 a r) S.dat) j (fun i' hi' hij => (hfib i' hi' hij).2)]
      exact pushL_comp S.box _ (nodup_boxIdx S.shape) (nodup_boxIdx _) _ _ hbox _ _



theorem getD_set_ne {α : Type} (l : List α) (a k : Nat) (v d : α) (h : a ≠ k) : (l.set a v).getD k d = l.getD k d := by
  simp [List.getD_eq_getElem?_getD, List.getElem?_set_ne h]

theorem getD_set_self {α : Type} (l : List α) (a : Nat) (v d : α) (h : a < l.length) : (l.set a v).getD a d = v := by
  simp [List.getD_eq_getElem?_getD, List.getElem?_set_self h]

theorem getD_eraseIdx_lt {α : Type} (l : List α) (r k : Nat) (d : α) (h : k < r) : (l.eraseIdx r).getD k d = l.getD k d := by
  simp [List.getD_eq_getElem?_getD, List.getElem?_eraseIdx_of_lt h]

theorem set_getD_self {α : Type} (l : List α) (a : Nat) (d : α) : l.set a (l.getD a d) = l := by
  by_cases h : a < l.length
  · have : l.getD a d = l[a] := by simp [List.getD_eq_getElem?_getD, List.getElem?_eq_getElem h]
    rw [this]; exact List.set_getElem_self h
  · exact List.set_eq_of_length_le (by omega)

theorem dropAxes_set {α : Type} (rs : List Nat) (a : Nat) (ha : ∀ r ∈ rs, a < r) (l : List α) (v : α) :
    dropAxes rs (l.set a v) = (dropAxes rs l).set a v := by
  induction rs generalizing l with
  | nil => rfl
  | cons r rs ih =>
    rw [dropAxes_cons, dropAxes_cons, List.eraseIdx_set_gt (ha r (by simp))]
    exact ih (fun r' hr' => ha r' (by simp [hr'])) _

theorem mergeAll_eq_explicit (a : Nat) (rs : List Nat) (hd : rs.Pairwise (· > ·)) (ha : ∀ r ∈ rs, a < r) (i : Idx) :
    mergeAll a rs i = mergeExplicit a rs i := by
  induction rs generalizing i with
  | nil =>
    simp only [mergeExplicit, List.map_nil, List.sum_nil, Nat.add_zero]
    exact (set_getD_self i a 0).symm
  | cons r rs ih =>
    rw [List.pairwise_cons] at hd
    have har : a < r := ha r (by simp)
    have ha' : ∀ r' ∈ rs, a < r' := fun r' hr' => ha r' (by simp [hr'])
    rw [mergeAll_cons, ih hd.2 ha']
    set v := i.getD a 0 + i.getD r 0 with hv
    have F1 : merge2 a r i = (i.eraseIdx r).set a v := by
      rw [merge2_eq, List.eraseIdx_set_gt har]
    have F3 : (merge2 a r i).getD a 0 = v := by
      rw [merge2_eq, getD_eraseIdx_lt _ _ _ _ har]
      by_cases hl : a < i.length
      · exact getD_set_self _ _ _ _ hl
      · rw [List.set_eq_of_length_le (by omega)]
        have h1 : i.getD a 0 = 0 := by simp [List.getD_eq_getElem?_getD, List.getElem?_eq_none (show i.length ≤ a by omega)]
        have h2 : i.getD r 0 = 0 := by simp [List.getD_eq_getElem?_getD, List.getElem?_eq_none (show i.length ≤ r by omega)]
        rw [hv, h1, h2]
    have F4 : ∀ r' ∈ rs, (merge2 a r i).getD r' 0 = i.getD r' 0 := by
      intro r' hr'
      rw [merge2_eq, getD_eraseIdx_lt _ _ _ _ (hd.1 r' hr'), getD_set_ne _ _ _ _ _ (by have := ha' r' hr'; omega)]
    unfold mergeExplicit
    rw [F3, List.map_congr_left F4, F1, dropAxes_set rs a ha', List.set_set, dropAxes_cons]
    congr 1
    simp only [List.map_cons, List.sum_cons]
    omega

/-! labels of combine_pops -/
theorem c2NewIds_eq (a b : Nat) (l : List String) :
    Gen.c2NewIds a b l = (l.set a (l.getD a "" ++ "+" ++ l.getD b "")).eraseIdx b := rfl

/-- iterating the generated label program and then overwriting slot `a` (what `combine_pops` does)
    leaves: the merged axes removed, slot `a` = the given joined label -/
theorem labels_iter (a : Nat) (rs : List Nat) (ha : ∀ r ∈ rs, a < r) (l : List String) (joined : String) :
    (rs.foldl (fun acc r => Gen.c2NewIds a r acc) l).set a joined = (dropAxes rs l).set a joined := by
  induction rs generalizing l with
  | nil => rfl
  | cons r rs ih =>
    have har : a < r := ha r (by simp)
    have ha' : ∀ r' ∈ rs, a < r' := fun r' hr' => ha r' (by simp [hr'])
    rw [List.foldl_cons, ih ha', c2NewIds_eq, List.eraseIdx_set_gt har, dropAxes_set rs a ha', List.set_set, dropAxes_cons]

theorem combineIter_labels (a : Nat) (rs : List Nat) (S : FS) :
    (combineIter a rs S).labels = S.labels.map (fun l => rs.foldl (fun acc r => Gen.c2NewIds a r acc) l) := by
  induction rs generalizing S with
  | nil => simp [combineIter]
  | cons r rs ih =>
    rw [combineIter_cons, ih]
    cases h : S.labels <;> simp [combineTwoCore, h]



theorem pushL_mul_const' (box : List Idx) (f : Idx → Idx) (y : Idx → ℚ) (k : ℚ) (j : Idx) :
    pushL box f (fun c => y c * k) j = pushL box f y j * k := by
  unfold pushL
  rw [← List.sum_map_mul_right]

theorem pushL_add (box : List Idx) (f : Idx → Idx) (x y : Idx → ℚ) (j : Idx) :
    pushL box f (fun i => x i + y i) j = pushL box f x j + pushL box f y j := by
  unfold pushL
  induction (box.filter fun i => f i == j) with
  | nil => simp
  | cons a l ih => simp only [List.map_cons, List.sum_cons, ih]; ring

theorem sortAsc_asc (l : List Nat) (hn : l.Nodup) : (sortAsc l).Pairwise (· < ·) := by
  have h2 : (sortAsc l).Nodup := (sortAsc_perm l).nodup_iff.2 hn
  refine ((sortAsc_sorted l).and h2).imp ?_
  intro a b ⟨hab, hne⟩
  omega

/-! ### round 5: the GENERATED normalisations of `combine_two_pops` / `combine_pops` (caller order → what the list programs see) -/

/-- `tocombine = sorted([_-1 for _ in tocombine])`: whatever the order in which the caller lists the pair, the list programs
    see (smaller − 1, larger − 1) -/
theorem c2Pair_eq (p q : Nat) : Gen.c2Pair p q = (min p q - 1, max p q - 1) := by
  unfold Gen.c2Pair
  congr 1 <;> omega

theorem c2Pair_comm (p q : Nat) : Gen.c2Pair p q = Gen.c2Pair q p := by
  rw [c2Pair_eq, c2Pair_eq, Nat.min_comm, Nat.max_comm]

theorem cpOrder_eq (tc : List Nat) : Gen.cpOrder sortAsc tc = sortAsc tc := rfl

theorem cpPairs_cons (t0 : Nat) (rest : List Nat) :
    Gen.cpPairs sortAsc (t0 :: rest) = rest.reverse.map fun r => (t0, r) := by
  simp [Gen.cpPairs]

theorem cpLabelSlot_cons (t0 : Nat) (rest : List Nat) : Gen.cpLabelSlot (t0 :: rest) = t0 - 1 := by
  simp [Gen.cpLabelSlot]

theorem cpLabelSrc_eq (t : List Nat) : Gen.cpLabelSrc sortAsc t = t := rfl

theorem cpLabelSep_eq : Gen.cpLabelSep = "+" := rfl

/-- sorted lists with the same members are equal: the result of `sorted` does not depend on the order of its argument -/
theorem sortAsc_eq_of_perm {l l' : List Nat} (h : l.Perm l') : sortAsc l = sortAsc l' :=
  List.Perm.eq_of_pairwise (le := (· ≤ ·)) (fun _ _ _ _ h1 h2 => Nat.le_antisymm h1 h2) (sortAsc_sorted l) (sortAsc_sorted l')
    ((sortAsc_perm l).trans (h.trans (sortAsc_perm l').symm))

/-- the chain of `combine_two_pops([t0, r])` calls with `t0` below every `r`: the generated normalisation leaves (t0−1, r−1) -/
theorem foldl_c2Pair (t0 : Nat) (l : List Nat) (hmem : ∀ r ∈ l, t0 < r) (S : FS) :
    l.foldl (fun acc r => combineTwoCore (Gen.c2Pair t0 r).1 (Gen.c2Pair t0 r).2 acc) S
      = l.foldl (fun acc r => combineTwoCore (t0 - 1) (r - 1) acc) S := by
  induction l generalizing S with
  | nil => rfl
  | cons r l ih =>
    rw [List.foldl_cons, List.foldl_cons]
    have hr := hmem r (by simp)
    have e : Gen.c2Pair t0 r = (t0 - 1, r - 1) := by
      rw [c2Pair_eq, Nat.min_eq_left (by omega), Nat.max_eq_right (by omega)]
    rw [e]
    exact ih (fun r' hr' => hmem r' (by simp [hr'])) _

theorem pos_set {sh : List Nat} (hpos : ∀ s ∈ sh, 1 ≤ s) (k v : Nat) (hv : 1 ≤ v) : ∀ s ∈ sh.set k v, 1 ≤ s := by
  intro s hs
  rcases List.mem_or_eq_of_mem_set hs with h | h
  · exact hpos s h
  · omega

end DadiVerif.PopOps
