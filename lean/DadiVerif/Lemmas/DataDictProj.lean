import DadiVerif.Lemmas.DataDictMask
/-! Infrastructure for C13, part 12: statistics of a PROJECTED spectrum of completely called data.  A column with `i` derived
    alleles among `n` chromosomes contributes the hypergeometric row `w(m,n,i,·)` to the spectrum projected to `m`; a statistic that
    is linear in the spectrum is the sum over columns of its expectation under drawing `m` of the `n` chromosomes:
    row sums (Σ_j w = 1), means (Σ_j j·w = m·i/n), pairs (Σ_j j(m−j)·w = m(m−1)·i(n−i)/(n(n−1)), in DataDictPi). -/
namespace DadiVerif.DataDict
open Finset DadiVerif.Gen.DD

/-- the projected one-population spectrum of complete data, column by column -/
theorem spectrumAt_proj1 (m n : ℕ) (cols : List (List Bool)) (hlen : ∀ c ∈ cols, c.length = n) (j : ℕ) :
    spectrumAt true [m] (cols.map fun c => snpOfCols [c]) [j] = sumMap cols (fun c => projWeight m n (countTrue c) j) := by
  simp only [spectrumAt, specAt, if_true, rawAt_countDict, sumMap_map]
  apply sumMap_congr
  intro c hc
  have h1 : (snpOfCols [c]).nseg = biallelicLen := rfl
  simp only [contribAt, h1, ne_eq, not_true_eq_false, if_false, snpOfCols_polarized, skipEntry,
    Bool.not_true, Bool.and_false, Bool.false_eq_true, snpOfCols_derived, snpOfCols_successful,
    List.map_cons, List.map_nil, prodW, weightArgs, hlen c hc, mul_one]

theorem projWeight_nonneg (m n i j : ℕ) : 0 ≤ projWeight m n i j := by
  unfold projWeight
  split_ifs
  · exact le_refl _
  · exact div_nonneg (Nat.cast_nonneg _) (Nat.cast_nonneg _)
  · exact le_refl _

/-- the interior of a projection row: everything but "none derived" and "all derived" -/
theorem sumRange_interior (m n i : ℕ) (hm1 : 1 ≤ m) (hm : m ≤ n) (hi : i ≤ n) :
    sumRange (m + 1) (fun j => if j = 0 ∨ j = m then 0 else projWeight m n i j) = segProb m n i := by
  have hrow := projWeight_rowsum m n i hm hi
  rw [sumRange_eq] at hrow ⊢
  obtain ⟨M, rfl⟩ : ∃ M, m = M + 1 := ⟨m - 1, by omega⟩
  rw [Finset.sum_range_succ, Finset.sum_range_succ'] at hrow ⊢
  unfold segProb
  have e : ∑ k ∈ range M, (if k + 1 = 0 ∨ k + 1 = M + 1 then (0 : ℚ) else projWeight (M + 1) n i (k + 1))
      = ∑ k ∈ range M, projWeight (M + 1) n i (k + 1) := by
    apply Finset.sum_congr rfl
    intro k hk
    have : k < M := mem_range.mp hk
    have : ¬ (k + 1 = 0 ∨ k + 1 = M + 1) := by omega
    rw [if_neg this]
  rw [e]
  simp only [true_or, or_true, if_true]
  linarith

theorem segProb_nonneg (m n i : ℕ) (hm1 : 1 ≤ m) (hm : m ≤ n) (hi : i ≤ n) : 0 ≤ segProb m n i := by
  rw [← sumRange_interior m n i hm1 hm hi, sumRange_eq]
  apply Finset.sum_nonneg
  intro j _
  split_ifs
  · exact le_refl _
  · exact projWeight_nonneg m n i j

theorem segProb_le_one (m n i : ℕ) : segProb m n i ≤ 1 := by
  unfold segProb
  have := projWeight_nonneg m n i 0
  have := projWeight_nonneg m n i m
  linarith

/-- a column that does not segregate among the `n` chromosomes does not segregate in any sub-sample -/
theorem segProb_not_seg (m n i : ℕ) (hm1 : 1 ≤ m) (hm : m ≤ n) (h : i = 0 ∨ i = n) : segProb m n i = 0 := by
  unfold segProb
  rcases h with h | h
  · subst h
    have h0 : projWeight m n 0 0 = 1 := by
      rw [projWeight_of_le hm (le_refl 0)]; simp
    have hmm : projWeight m n 0 m = 0 := projWeight_of_gt (by omega)
    rw [h0, hmm]; ring
  · subst h
    have h0 : projWeight m i i 0 = 0 := by
      rw [projWeight_of_le hm (Nat.zero_le _)]
      have : (i - m).choose i = 0 := Nat.choose_eq_zero_of_lt (by omega)
      simp [this]
    have hmm : projWeight m i i m = 1 := by
      rw [projWeight_of_le hm hm]
      simp
    rw [h0, hmm]; ring

/-- integer core of the mean: Σ_{j ≤ i} C(m,j)·C(r,i−j)·j = m·C(m−1+r, i−1)   (m = M+1, i = I+1) -/
theorem mean_vandermonde (M r I : ℕ) :
    ∑ j ∈ range (I + 2), (M + 1).choose j * r.choose (I + 1 - j) * j = (M + 1) * (M + r).choose I := by
  rw [Finset.sum_range_succ']
  simp only [Nat.mul_zero, Nat.add_zero]
  have : ∀ k ∈ range (I + 1), (M + 1).choose (k + 1) * r.choose (I + 1 - (k + 1)) * (k + 1)
      = (M + 1) * (M.choose k * r.choose (I - k)) := by
    intro k _
    have e : I + 1 - (k + 1) = I - k := by omega
    rw [e]
    have := Nat.add_one_mul_choose_eq M k
    calc (M + 1).choose (k + 1) * r.choose (I - k) * (k + 1)
        = r.choose (I - k) * ((M + 1).choose (k + 1) * (k + 1)) := by ring
      _ = r.choose (I - k) * ((M + 1) * M.choose k) := by rw [← this]
      _ = (M + 1) * (M.choose k * r.choose (I - k)) := by ring
  rw [Finset.sum_congr rfl this, ← Finset.mul_sum, vandermonde_range]

/-- **the mean of a projection row**: Σ_j j·w(m,n,i,j) = m·i/n — the derived-allele frequency is unchanged in expectation -/
theorem projWeight_mean (m n i : ℕ) (hm1 : 1 ≤ m) (hmn : m ≤ n) (hi : i ≤ n) :
    sumRange (m + 1) (fun j => projWeight m n i j * (j : ℚ)) = (m : ℚ) * (i : ℚ) / (n : ℚ) := by
  rw [sumRange_eq]
  have big : ∑ j ∈ range (m + 1), projWeight m n i j * (j : ℚ)
      = ∑ j ∈ range (max m i + 1), projWeight m n i j * (j : ℚ) := by
    apply Finset.sum_subset
    · intro x hx; simp only [mem_range] at hx ⊢; omega
    · intro x _ hx2
      have : m < x := by simp only [mem_range] at hx2; omega
      rw [projWeight_of_gt_m this, zero_mul]
  have small : ∑ j ∈ range (i + 1), projWeight m n i j * (j : ℚ)
      = ∑ j ∈ range (max m i + 1), projWeight m n i j * (j : ℚ) := by
    apply Finset.sum_subset
    · intro x hx; simp only [mem_range] at hx ⊢; omega
    · intro x _ hx2
      have : i < x := by simp only [mem_range] at hx2; omega
      rw [projWeight_of_gt this, zero_mul]
  rw [big, ← small]
  have hn1 : 1 ≤ n := le_trans hm1 hmn
  have hn0 : (n : ℚ) ≠ 0 := by positivity
  have hC : ((n.choose i : ℕ) : ℚ) ≠ 0 := choose_pos_q hi
  have hterm : ∀ j ∈ range (i + 1), projWeight m n i j * (j : ℚ)
      = ((m.choose j * (n - m).choose (i - j) * j : ℕ) : ℚ) / ((n.choose i : ℕ) : ℚ) := by
    intro j hj
    have hji : j ≤ i := by simp only [mem_range] at hj; omega
    rw [projWeight_of_le hmn hji]
    push_cast
    ring
  rw [Finset.sum_congr rfl hterm, ← Finset.sum_div]
  cases i with
  | zero => simp
  | succ I =>
    obtain ⟨M, rfl⟩ : ∃ M, m = M + 1 := ⟨m - 1, by omega⟩
    have hsum := mean_vandermonde M (n - (M + 1)) I
    have hMr : M + (n - (M + 1)) = n - 1 := by omega
    rw [hMr] at hsum
    have hcast : ((∑ j ∈ range (I + 1 + 1), ((M + 1).choose j * (n - (M + 1)).choose (I + 1 - j) * j : ℕ) : ℕ) : ℚ)
        = (((M + 1) * (n - 1).choose I : ℕ) : ℚ) := by
      exact_mod_cast congrArg (Nat.cast (R := ℚ)) hsum
    rw [← Nat.cast_sum, hcast]
    obtain ⟨N, rfl⟩ : ∃ N, n = N + 1 := ⟨n - 1, by omega⟩
    have hrel := Nat.add_one_mul_choose_eq N I
    have hrelq : ((N + 1 : ℕ) : ℚ) * ((N.choose I : ℕ) : ℚ) = (((N + 1).choose (I + 1) : ℕ) : ℚ) * ((I + 1 : ℕ) : ℚ) := by
      exact_mod_cast congrArg (Nat.cast (R := ℚ)) hrel
    have e : N + 1 - 1 = N := by omega
    rw [e, div_eq_div_iff hC hn0]
    push_cast at hrelq ⊢
    linear_combination ((M : ℚ) + 1) * hrelq

theorem sumMap_le_sumMap {α : Type} (l : List α) (f g : α → ℚ) (h : ∀ a ∈ l, f a ≤ g a) : sumMap l f ≤ sumMap l g := by
  induction l with
  | nil => simp
  | cons a t ih =>
    simp only [sumMap_cons]
    have := h a (by simp)
    have := ih fun b hb => h b (by simp [hb])
    linarith

end DadiVerif.DataDict
