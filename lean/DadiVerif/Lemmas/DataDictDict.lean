import DadiVerif.Lemmas.DataDictBsv
/-! Infrastructure for C13, part 8: what Python's `dict` does with repeated keys — `data_dict[key] = value` for a key that is already
    present replaces the value and keeps the position of the first insertion.  `mkDict` (the model of the dictionary built line by
    line, `ddInsert` per line) is therefore: the keys in first-appearance order, each with the LAST entry written under it; as a
    multiset, the entries that are not overwritten later (`lastBy`).  Stated generically for a key function, then for `Snp`. -/
namespace DadiVerif.DataDict
open DadiVerif.Gen.DD

section generic
variable {α K : Type} [DecidableEq K] (κ : α → K)

/-- `d[κ s] = s` on a dictionary given as the list of its values in insertion order -/
def insBy (s : α) : List α → List α
  | [] => [s]
  | t :: rest => if κ t = κ s then s :: rest else t :: insBy s rest

/-- the entries that are not overwritten by a later entry with the same key, in the order of the input -/
def lastBy : List α → List α
  | [] => []
  | s :: t => if ∃ x ∈ t, κ x = κ s then lastBy t else s :: lastBy t

/-- the first entry written under each key, in the order of the input -/
def firstBy : List α → List α
  | [] => []
  | s :: t => s :: (firstBy t).filter fun x => κ x ≠ κ s

/-- the last entry of `l` written under the key of `x` (`x` itself if there is none) -/
def lastOf (l : List α) (x : α) : α := (l.reverse.find? fun y => κ y = κ x).getD x

theorem lastBy_sublist (l : List α) : (lastBy κ l).Sublist l := by
  induction l with
  | nil => exact List.Sublist.slnil
  | cons s t ih =>
    simp only [lastBy]
    split_ifs
    · exact ih.cons _
    · exact ih.cons_cons _

theorem mem_lastBy {l : List α} {x : α} (h : x ∈ lastBy κ l) : x ∈ l := (lastBy_sublist κ l).subset h

theorem lastBy_append_singleton (l : List α) (s : α) :
    lastBy κ (l ++ [s]) = (lastBy κ l).filter (fun x => κ x ≠ κ s) ++ [s] := by
  induction l with
  | nil => simp [lastBy]
  | cons a t ih =>
    simp only [List.cons_append, lastBy, ih]
    by_cases h1 : ∃ x ∈ t, κ x = κ a
    · have : ∃ x ∈ t ++ [s], κ x = κ a := by
        obtain ⟨x, hx, e⟩ := h1; exact ⟨x, by simp [hx], e⟩
      rw [if_pos this, if_pos h1]
    · rw [if_neg h1]
      by_cases h2 : κ a = κ s
      · have : ∃ x ∈ t ++ [s], κ x = κ a := ⟨s, by simp, h2.symm⟩
        rw [if_pos this]
        simp [h2]
      · have : ¬ ∃ x ∈ t ++ [s], κ x = κ a := by
          rintro ⟨x, hx, e⟩
          rcases List.mem_append.mp hx with hx | hx
          · exact h1 ⟨x, hx, e⟩
          · have : x = s := by simpa using hx
            subst this; exact h2 e.symm
        rw [if_neg this]
        simp [h2]

theorem insBy_keys_nodup (s : α) (d : List α) (hd : (d.map κ).Nodup) : ((insBy κ s d).map κ).Nodup := by
  induction d with
  | nil => simp [insBy]
  | cons t rest ih =>
    rw [List.map_cons, List.nodup_cons] at hd
    simp only [insBy]
    split_ifs with h
    · rw [List.map_cons, List.nodup_cons, ← h]; exact hd
    · rw [List.map_cons, List.nodup_cons]
      refine ⟨?_, ih hd.2⟩
      intro hm
      obtain ⟨y, hy, e⟩ := List.mem_map.mp hm
      have : y = s ∨ y ∈ rest := by
        clear ih hd e hm
        induction rest with
        | nil => left; simpa [insBy] using hy
        | cons r rs ih2 =>
          simp only [insBy] at hy
          split_ifs at hy
          · rcases List.mem_cons.mp hy with e | e
            · exact Or.inl e
            · exact Or.inr (by simp [e])
          · rcases List.mem_cons.mp hy with e | e
            · exact Or.inr (by simp [e])
            · rcases ih2 e with e | e
              · exact Or.inl e
              · exact Or.inr (by simp [e])
      rcases this with e' | e'
      · subst e'; exact h e.symm
      · exact hd.1 (List.mem_map.mpr ⟨y, e', e⟩)

theorem insBy_perm (s : α) (d : List α) (hd : (d.map κ).Nodup) :
    (insBy κ s d).Perm (d.filter (fun x => κ x ≠ κ s) ++ [s]) := by
  induction d with
  | nil => simp [insBy]
  | cons t rest ih =>
    rw [List.map_cons, List.nodup_cons] at hd
    simp only [insBy]
    split_ifs with h
    · -- `t` is the one entry under the key of `s`: nothing else in `rest` has that key
      have hrest : rest.filter (fun x => κ x ≠ κ s) = rest := by
        rw [List.filter_eq_self]
        intro x hx
        have : κ x ≠ κ s := fun e => hd.1 (List.mem_map.mpr ⟨x, hx, by rw [e, h]⟩)
        simpa using this
      simp only [List.filter_cons, h, ne_eq, not_true_eq_false, decide_false, Bool.false_eq_true, if_false, hrest]
      exact (List.perm_append_singleton s rest).symm
    · have := ih hd.2
      simp only [List.filter_cons, h, ne_eq, not_false_eq_true, decide_true, if_true, List.cons_append]
      exact this.cons t

/-- the dictionary built by writing the entries one after the other -/
def dictOf (l : List α) : List α := l.foldl (fun d s => insBy κ s d) []

theorem dictOf_append_singleton (l : List α) (s : α) : dictOf κ (l ++ [s]) = insBy κ s (dictOf κ l) := by
  simp [dictOf, List.foldl_append]

theorem dictOf_keys_nodup (l : List α) : ((dictOf κ l).map κ).Nodup := by
  induction l using List.reverseRecOn with
  | nil => simp [dictOf]
  | append_singleton l s ih => rw [dictOf_append_singleton]; exact insBy_keys_nodup κ s _ ih

/-- **last write wins**: as a multiset the dictionary holds exactly the entries that are not overwritten later -/
theorem dictOf_perm_lastBy (l : List α) : (dictOf κ l).Perm (lastBy κ l) := by
  induction l using List.reverseRecOn with
  | nil => simp [dictOf, lastBy]
  | append_singleton l s ih =>
    rw [dictOf_append_singleton, lastBy_append_singleton]
    exact (insBy_perm κ s _ (dictOf_keys_nodup κ l)).trans ((ih.filter _).append_right [s])

/-! #### the order: first-insertion position kept -/

theorem mem_firstBy_key (l : List α) (k : K) : (∃ x ∈ firstBy κ l, κ x = k) ↔ ∃ x ∈ l, κ x = k := by
  induction l with
  | nil => simp [firstBy]
  | cons s t ih =>
    simp only [firstBy, List.mem_cons, List.mem_filter]
    constructor
    · rintro ⟨x, hx | ⟨hx, _⟩, e⟩
      · exact ⟨x, Or.inl hx, e⟩
      · obtain ⟨y, hy, e'⟩ := ih.mp ⟨x, hx, e⟩; exact ⟨y, Or.inr hy, e'⟩
    · rintro ⟨x, hx | hx, e⟩
      · exact ⟨x, Or.inl hx, e⟩
      · by_cases hk : k = κ s
        · exact ⟨s, Or.inl rfl, hk.symm⟩
        · obtain ⟨y, hy, e'⟩ := ih.mpr ⟨x, hx, e⟩
          exact ⟨y, Or.inr ⟨hy, by simpa [e'] using hk⟩, e'⟩

theorem firstBy_keys_nodup (l : List α) : ((firstBy κ l).map κ).Nodup := by
  induction l with
  | nil => simp [firstBy]
  | cons s t ih =>
    simp only [firstBy, List.map_cons, List.nodup_cons]
    refine ⟨?_, (ih.sublist (List.Sublist.map κ List.filter_sublist))⟩
    intro hm
    obtain ⟨y, hy, e⟩ := List.mem_map.mp hm
    have := (List.mem_filter.mp hy).2
    simp at this
    exact this e

theorem firstBy_append_singleton (l : List α) (s : α) :
    firstBy κ (l ++ [s]) = if ∃ x ∈ l, κ x = κ s then firstBy κ l else firstBy κ l ++ [s] := by
  induction l with
  | nil => simp [firstBy]
  | cons a t ih =>
    simp only [List.cons_append, firstBy, ih]
    by_cases h1 : ∃ x ∈ t, κ x = κ s
    · have : ∃ x ∈ a :: t, κ x = κ s := by obtain ⟨x, hx, e⟩ := h1; exact ⟨x, by simp [hx], e⟩
      rw [if_pos h1, if_pos this]
    · rw [if_neg h1]
      by_cases h2 : κ a = κ s
      · have : ∃ x ∈ a :: t, κ x = κ s := ⟨a, by simp, h2⟩
        rw [if_pos this, List.filter_append]
        simp [h2]
      · have : ¬ ∃ x ∈ a :: t, κ x = κ s := by
          rintro ⟨x, hx, e⟩
          rcases List.mem_cons.mp hx with hx | hx
          · subst hx; exact h2 e
          · exact h1 ⟨x, hx, e⟩
        rw [if_neg this, List.filter_append]
        have : κ s ≠ κ a := fun e => h2 e.symm
        simp [this]

theorem lastOf_append_singleton (l : List α) (s x : α) :
    lastOf κ (l ++ [s]) x = if κ s = κ x then s else lastOf κ l x := by
  unfold lastOf
  rw [List.reverse_append]
  simp only [List.reverse_cons, List.reverse_nil, List.nil_append, List.cons_append, List.find?_cons]
  by_cases h : κ s = κ x <;> simp [h]

theorem lastOf_key (l : List α) (x : α) : κ (lastOf κ l x) = κ x := by
  unfold lastOf
  cases h : l.reverse.find? (fun y => decide (κ y = κ x)) with
  | none => rfl
  | some y => simpa using List.find?_some h

/-- replacing the entry under the key of `s` in a list with pairwise distinct keys -/
theorem insBy_map_of_mem (s : α) (m : List α) (g : α → α) (hg : ∀ x, κ (g x) = κ x) (hn : (m.map κ).Nodup)
    (hm : ∃ y ∈ m, κ y = κ s) :
    insBy κ s (m.map g) = m.map (fun x => if κ s = κ x then s else g x) := by
  induction m with
  | nil => obtain ⟨y, hy, _⟩ := hm; cases hy
  | cons t rest ih =>
    rw [List.map_cons, List.nodup_cons] at hn
    simp only [List.map_cons, insBy, hg]
    by_cases h : κ t = κ s
    · rw [if_pos h, if_pos h.symm]
      congr 1
      apply List.map_congr_left
      intro x hx
      have : κ s ≠ κ x := fun e => hn.1 (List.mem_map.mpr ⟨x, hx, by rw [← e, h]⟩)
      simp [this]
    · have h' : ¬ κ s = κ t := fun e => h e.symm
      rw [if_neg h, if_neg h']
      congr 1
      apply ih hn.2
      obtain ⟨y, hy, e⟩ := hm
      rcases List.mem_cons.mp hy with hy | hy
      · subst hy; exact absurd e h
      · exact ⟨y, hy, e⟩

theorem insBy_of_not_mem (s : α) (d : List α) (hd : ¬ ∃ y ∈ d, κ y = κ s) : insBy κ s d = d ++ [s] := by
  induction d with
  | nil => rfl
  | cons t rest ih =>
    have h : ¬ κ t = κ s := fun e => hd ⟨t, by simp, e⟩
    simp only [insBy, if_neg h, List.cons_append]
    rw [ih fun ⟨y, hy, e⟩ => hd ⟨y, by simp [hy], e⟩]

/-- **first-insertion position kept, last write wins**: the dictionary lists the keys in the order of their first appearance, each
    with the last entry written under it -/
theorem dictOf_eq (l : List α) : dictOf κ l = (firstBy κ l).map (lastOf κ l) := by
  induction l using List.reverseRecOn with
  | nil => simp [dictOf, firstBy]
  | append_singleton l s ih =>
    rw [dictOf_append_singleton, ih, firstBy_append_singleton]
    have hfun : (fun x => if κ s = κ x then s else lastOf κ l x) = lastOf κ (l ++ [s]) := by
      funext x; rw [lastOf_append_singleton]
    by_cases h : ∃ x ∈ l, κ x = κ s
    · rw [if_pos h, insBy_map_of_mem κ s _ _ (lastOf_key κ l) (firstBy_keys_nodup κ l) ((mem_firstBy_key κ l (κ s)).mpr h), hfun]
    · rw [if_neg h, insBy_of_not_mem]
      · rw [List.map_append, List.map_cons, List.map_nil, ← hfun]
        simp only [if_true]
        congr 1
        apply List.map_congr_left
        intro x hx
        have : ¬ κ s = κ x := by
          intro e
          obtain ⟨y, hy, e'⟩ := (mem_firstBy_key κ l (κ x)).mp ⟨x, hx, rfl⟩
          exact h ⟨y, hy, by rw [e', e]⟩
        simp [this]
      · rintro ⟨y, hy, e⟩
        obtain ⟨x, hx, rfl⟩ := List.mem_map.mp hy
        rw [lastOf_key κ l x] at e
        exact h ((mem_firstBy_key κ l (κ s)).mp ⟨x, hx, e⟩)

/-- with pairwise distinct keys nothing is overwritten -/
theorem lastBy_of_nodup (l : List α) (h : (l.map κ).Nodup) : lastBy κ l = l := by
  induction l with
  | nil => rfl
  | cons s t ih =>
    rw [List.map_cons, List.nodup_cons] at h
    have : ¬ ∃ x ∈ t, κ x = κ s := fun ⟨x, hx, e⟩ => h.1 (List.mem_map.mpr ⟨x, hx, e⟩)
    simp only [lastBy, if_neg this, ih h.2]

theorem lastBy_map {β : Type} (f : β → α) (l : List β) : lastBy κ (l.map f) = (lastBy (fun b => κ (f b)) l).map f := by
  induction l with
  | nil => rfl
  | cons b t ih =>
    simp only [List.map_cons, lastBy, ih]
    have : (∃ x ∈ t.map f, κ x = κ (f b)) ↔ ∃ x ∈ t, κ (f x) = κ (f b) := by simp
    by_cases h : ∃ x ∈ t, κ (f x) = κ (f b)
    · rw [if_pos (this.mpr h), if_pos h]
    · rw [if_neg (fun hh => h (this.mp hh)), if_neg h, List.map_cons]

end generic

/-! ### the data dictionary -/

/-- the key `CHROM_POS[.info]` of an entry -/
def keyT (s : Snp) : ℕ × ℕ × ℕ := (s.chrom, s.pos, s.info)

theorem sameKey_iff (a b : Snp) : sameKey a b = true ↔ keyT a = keyT b := by
  simp [sameKey, keyT, Bool.and_eq_true, and_assoc]

theorem ddInsert_eq (s : Snp) (d : List Snp) : ddInsert s d = insBy keyT s d := by
  induction d with
  | nil => rfl
  | cons t rest ih =>
    simp only [ddInsert, insBy, ih]
    by_cases h : keyT t = keyT s
    · rw [if_pos ((sameKey_iff t s).mpr h), if_pos h]
    · rw [if_neg (fun hh => h ((sameKey_iff t s).mp hh)), if_neg h]

theorem mkDict_eq_dictOf (snps : List Snp) : mkDict snps = dictOf keyT snps := by
  unfold mkDict dictOf
  congr 1
  funext d s
  exact ddInsert_eq s d

/-- the entries of the line-by-line list that are still in the dictionary at the end: those not overwritten by a later entry
    with the same `CHROM_POS[.info]` -/
def lastEntries (snps : List Snp) : List Snp := lastBy keyT snps

theorem mkDict_perm (snps : List Snp) : (mkDict snps).Perm (lastEntries snps) := by
  rw [mkDict_eq_dictOf]; exact dictOf_perm_lastBy keyT snps

theorem mem_mkDict {snps : List Snp} {s : Snp} (h : s ∈ mkDict snps) : s ∈ snps :=
  mem_lastBy keyT ((mkDict_perm snps).subset h)

theorem keysDistinct_iff (snps : List Snp) : keysDistinct snps ↔ (snps.map keyT).Nodup := by
  induction snps with
  | nil => simp [keysDistinct]
  | cons s t ih =>
    simp only [keysDistinct, List.map_cons, List.nodup_cons, ih, List.mem_map, not_exists, not_and]
    constructor
    · rintro ⟨h1, h2⟩
      refine ⟨fun x hx e => ?_, h2⟩
      have := h1 x hx
      rw [Bool.eq_false_iff] at this
      exact this ((sameKey_iff x s).mpr e)
    · rintro ⟨h1, h2⟩
      refine ⟨fun x hx => ?_, h2⟩
      rw [Bool.eq_false_iff]
      exact fun hh => h1 x hx ((sameKey_iff x s).mp hh)

end DadiVerif.DataDict
