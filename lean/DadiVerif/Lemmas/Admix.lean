import DadiVerif.Model.Admix
import Mathlib.Algebra.BigOperators.Ring.Finset
import Mathlib.Algebra.BigOperators.Field
import Mathlib.Algebra.BigOperators.Intervals
import Mathlib.Algebra.Order.Field.Rat
import Mathlib.Tactic.Ring
import Mathlib.Tactic.Linarith
import Mathlib.Tactic.FieldSimp
/-!
Helper lemmas for C06 (Props/C06.lean).  Everything is about the definitions of Model/Admix.lean, which the driver
executes, and through them about Generated/Admix.lean (`Gen.Admix.lowerIdx/upperIdx/fracLower/fracUpper/norm`,
`trapzTerm`, `split1Dval`).

Layers: (1) `Numerics.trapz` = Σ_k w_k y_k;  (2) one cell of `_admixture_intermediates` in natural-number indices
(`uNat`, `cell_idx`, `cell_frac`, `cell_norm`), its mass `deposit_mass`, where the bracket lies, the on-grid case;
(3) list bookkeeping and the mixed frequency `adZ`;  (4) densities: constructors, pulses, `phi_1D_to_2D`, remove, reorder.
-/
set_option linter.unnecessarySeqFocus false

namespace DadiVerif.Admix
open Finset

theorem sumTo_eq (n : ℕ) (f : ℕ → ℚ) : sumTo n f = ∑ k ∈ range n, f k := by
  induction n with
  | zero => simp [sumTo]
  | succ n ih => rw [sumTo, ih, Finset.sum_range_succ]

/-- `Numerics.trapz` (interval form, as coded) = Σ_k w_k·y_k with the trapezoid node weights -/
theorem trapzLine_eq_weights (xx : Array ℚ) (y : ℕ → ℚ) :
    trapzLine xx y = ∑ k ∈ range xx.size, trapzW xx k * y k := by
  unfold trapzLine
  rw [sumTo_eq]
  rcases Nat.eq_zero_or_pos xx.size with h0 | hpos
  · simp [h0]
  obtain ⟨n, hn⟩ : ∃ n, xx.size = n + 1 := ⟨xx.size - 1, by omega⟩
  rw [hn, Nat.add_sub_cancel]
  simp only [Gen.Admix.trapzTerm, trapzW, hn]
  have e1 : ∑ k ∈ range (n + 1), ((if k = 0 then (0:ℚ) else gv xx k - gv xx (k - 1)) / 2) * y k
      = ∑ k ∈ range n, ((gv xx (k + 1) - gv xx k) / 2) * y (k + 1) := by
    rw [Finset.sum_range_succ']
    simp
  have e2 : ∑ k ∈ range (n + 1), ((if k + 1 < n + 1 then gv xx (k + 1) - gv xx k else (0:ℚ)) / 2) * y k
      = ∑ k ∈ range n, ((gv xx (k + 1) - gv xx k) / 2) * y k := by
    rw [Finset.sum_range_succ]
    simp only [lt_self_iff_false, if_false, zero_div, zero_mul, add_zero]
    apply Finset.sum_congr rfl
    intro k hk
    rw [Finset.mem_range] at hk
    rw [if_pos (by omega)]
  have split : ∀ k, ((if k = 0 then (0:ℚ) else gv xx k - gv xx (k - 1)) + (if k + 1 < n + 1 then gv xx (k + 1) - gv xx k else 0)) / 2 * y k
      = ((if k = 0 then (0:ℚ) else gv xx k - gv xx (k - 1)) / 2) * y k + ((if k + 1 < n + 1 then gv xx (k + 1) - gv xx k else (0:ℚ)) / 2) * y k := by
    intro k; ring
  simp only [split]
  rw [Finset.sum_add_distrib, e1, e2, ← Finset.sum_add_distrib]
  apply Finset.sum_congr rfl
  intro k _
  ring

/-- the upper bracket index as a natural number: `max (min (searchsorted zz adz) (n-1)) 1` -/
def uNat (zz : Array ℚ) (adz : ℚ) : ℕ := max (min (searchsortedLeft zz adz) (zz.size - 1)) 1

theorem uNat_bounds (zz : Array ℚ) (adz : ℚ) (h2 : 2 ≤ zz.size) : 1 ≤ uNat zz adz ∧ uNat zz adz < zz.size := by
  unfold uNat; omega

theorem pyAt_nat (zz : Array ℚ) (k : ℕ) : pyAt zz (k : ℤ) = gv zz k := by
  simp [pyAt, gv]

theorem clamp_cast (s n : ℕ) (h2 : 2 ≤ n) :
    max (min (s : ℤ) ((n : ℤ) - 1)) 1 = ((max (min s (n - 1)) 1 : ℕ) : ℤ) := by omega

/-- `delz0` and `delz2` of the bracket, in natural-number indices -/
def delz0 (zz : Array ℚ) (l : ℕ) : ℚ := if l = 0 then 0 else gv zz l - gv zz (l - 1)
def delz2 (zz : Array ℚ) (u : ℕ) : ℚ := if u + 1 < zz.size then gv zz (u + 1) - gv zz u else 0

theorem cell_idx (zz : Array ℚ) (φ adz : ℚ) (h2 : 2 ≤ zz.size) :
    Gen.Admix.upperIdx zz φ adz = (uNat zz adz : ℤ) ∧ Gen.Admix.lowerIdx zz φ adz = ((uNat zz adz - 1 : ℕ) : ℤ) := by
  have hb := uNat_bounds zz adz h2
  have hu := clamp_cast (searchsortedLeft zz adz) zz.size h2
  constructor
  · simp only [Gen.Admix.upperIdx]; rw [hu]; rfl
  · simp only [Gen.Admix.lowerIdx]; rw [hu]
    show ((uNat zz adz : ℕ) : ℤ) - 1 = _
    omega

theorem cell_frac (zz : Array ℚ) (φ adz : ℚ) (h2 : 2 ≤ zz.size) :
    Gen.Admix.fracLower zz φ adz = (gv zz (uNat zz adz) - adz) / (gv zz (uNat zz adz) - gv zz (uNat zz adz - 1)) ∧
    Gen.Admix.fracUpper zz φ adz = (adz - gv zz (uNat zz adz - 1)) / (gv zz (uNat zz adz) - gv zz (uNat zz adz - 1)) := by
  have hb := uNat_bounds zz adz h2
  have hu := clamp_cast (searchsortedLeft zz adz) zz.size h2
  have hl : ((uNat zz adz : ℕ) : ℤ) - 1 = ((uNat zz adz - 1 : ℕ) : ℤ) := by omega
  constructor
  · simp only [Gen.Admix.fracLower]; rw [hu]
    change (pyAt zz (uNat zz adz : ℤ) - adz) / (pyAt zz (uNat zz adz : ℤ) - pyAt zz (((uNat zz adz : ℕ) : ℤ) - 1)) = _
    rw [hl, pyAt_nat, pyAt_nat]
  · simp only [Gen.Admix.fracUpper]; rw [hu]
    change (adz - pyAt zz (((uNat zz adz : ℕ) : ℤ) - 1)) / (pyAt zz (uNat zz adz : ℤ) - pyAt zz (((uNat zz adz : ℕ) : ℤ) - 1)) = _
    rw [hl, pyAt_nat, pyAt_nat]

theorem cell_norm (zz : Array ℚ) (φ adz : ℚ) (h2 : 2 ≤ zz.size) :
    Gen.Admix.norm zz φ adz = 2 * φ /
      (Gen.Admix.fracLower zz φ adz * delz0 zz (uNat zz adz - 1) + (gv zz (uNat zz adz) - gv zz (uNat zz adz - 1))
        + Gen.Admix.fracUpper zz φ adz * delz2 zz (uNat zz adz)) := by
  have hb := uNat_bounds zz adz h2
  have hu := clamp_cast (searchsortedLeft zz adz) zz.size h2
  have hl : ((uNat zz adz : ℕ) : ℤ) - 1 = ((uNat zz adz - 1 : ℕ) : ℤ) := by omega
  rw [(cell_frac zz φ adz h2).1, (cell_frac zz φ adz h2).2]
  simp only [Gen.Admix.norm]; rw [hu]
  change 2 * φ / ((pyAt zz (uNat zz adz : ℤ) - adz) / (pyAt zz (uNat zz adz : ℤ) - pyAt zz (((uNat zz adz : ℕ) : ℤ) - 1))
      * (if ((uNat zz adz : ℕ) : ℤ) - 1 = 0 then 0 else pyAt zz (((uNat zz adz : ℕ) : ℤ) - 1) - pyAt zz (((uNat zz adz : ℕ) : ℤ) - 1 - 1))
      + (if ((uNat zz adz : ℕ) : ℤ) = 0 then 0 else pyAt zz (uNat zz adz : ℤ) - pyAt zz (((uNat zz adz : ℕ) : ℤ) - 1))
      + (adz - pyAt zz (((uNat zz adz : ℕ) : ℤ) - 1)) / (pyAt zz (uNat zz adz : ℤ) - pyAt zz (((uNat zz adz : ℕ) : ℤ) - 1))
      * (if ((uNat zz adz : ℕ) : ℤ) = (zz.size : ℤ) - 1 then 0 else pyAt zz ((((uNat zz adz : ℕ) : ℤ) + 1) % (zz.size : ℤ)) - pyAt zz (uNat zz adz : ℤ))) = _
  rw [hl, pyAt_nat, pyAt_nat]
  have hu0 : ¬ ((uNat zz adz : ℕ) : ℤ) = 0 := by omega
  rw [if_neg hu0]
  have e0 : (if ((uNat zz adz - 1 : ℕ) : ℤ) = 0 then (0:ℚ) else gv zz (uNat zz adz - 1) - pyAt zz (((uNat zz adz - 1 : ℕ) : ℤ) - 1))
      = delz0 zz (uNat zz adz - 1) := by
    unfold delz0
    by_cases h : uNat zz adz - 1 = 0
    · rw [if_pos (by omega), if_pos h]
    · rw [if_neg (by omega), if_neg h]
      have : ((uNat zz adz - 1 : ℕ) : ℤ) - 1 = ((uNat zz adz - 1 - 1 : ℕ) : ℤ) := by omega
      rw [this, pyAt_nat]
  have e2 : (if ((uNat zz adz : ℕ) : ℤ) = (zz.size : ℤ) - 1 then (0:ℚ) else pyAt zz ((((uNat zz adz : ℕ) : ℤ) + 1) % (zz.size : ℤ)) - gv zz (uNat zz adz))
      = delz2 zz (uNat zz adz) := by
    unfold delz2
    by_cases h : uNat zz adz + 1 < zz.size
    · rw [if_neg (by omega), if_pos h]
      have : (((uNat zz adz : ℕ) : ℤ) + 1) % (zz.size : ℤ) = ((uNat zz adz + 1 : ℕ) : ℤ) := by
        rw [Int.emod_eq_of_lt (by omega) (by omega)]; push_cast; ring
      rw [this, pyAt_nat]
    · rw [if_pos (by omega), if_neg h]
  rw [e0, e2]


/-! ### the deposit of one cell -/

theorem trapzW_lower (zz : Array ℚ) (u : ℕ) (hu1 : 1 ≤ u) (hun : u < zz.size) :
    trapzW zz (u - 1) = (delz0 zz (u - 1) + (gv zz u - gv zz (u - 1))) / 2 := by
  unfold trapzW delz0
  have e : u - 1 + 1 = u := by omega
  rw [e, if_pos hun]

theorem trapzW_upper (zz : Array ℚ) (u : ℕ) (hu1 : 1 ≤ u) :
    trapzW zz u = ((gv zz u - gv zz (u - 1)) + delz2 zz u) / 2 := by
  unfold trapzW delz2
  rw [if_neg (by omega)]

/-- only the two bracket indices receive anything -/
theorem deposit_sum (zz : Array ℚ) (φ adz : ℚ) (h2 : 2 ≤ zz.size) (w : ℕ → ℚ) :
    ∑ k ∈ range zz.size, w k * depositAt zz φ adz k
      = w (uNat zz adz - 1) * (Gen.Admix.fracLower zz φ adz * Gen.Admix.norm zz φ adz)
        + w (uNat zz adz) * (Gen.Admix.fracUpper zz φ adz * Gen.Admix.norm zz φ adz) := by
  have hb := uNat_bounds zz adz h2
  obtain ⟨hU, hL⟩ := cell_idx zz φ adz h2
  unfold depositAt
  rw [hU, hL]
  simp only [mul_add, Finset.sum_add_distrib, Nat.cast_inj, mul_ite, mul_zero]
  rw [Finset.sum_ite_eq' , Finset.sum_ite_eq']
  rw [if_pos (Finset.mem_range.2 (by omega)), if_pos (Finset.mem_range.2 hb.2)]

theorem depositAt_lower (zz : Array ℚ) (φ adz : ℚ) (h2 : 2 ≤ zz.size) :
    depositAt zz φ adz (uNat zz adz - 1) = Gen.Admix.fracLower zz φ adz * Gen.Admix.norm zz φ adz := by
  have hb := uNat_bounds zz adz h2
  obtain ⟨hU, hL⟩ := cell_idx zz φ adz h2
  unfold depositAt
  rw [hU, hL, if_pos rfl, if_neg (by omega), add_zero]

theorem depositAt_upper (zz : Array ℚ) (φ adz : ℚ) (h2 : 2 ≤ zz.size) :
    depositAt zz φ adz (uNat zz adz) = Gen.Admix.fracUpper zz φ adz * Gen.Admix.norm zz φ adz := by
  have hb := uNat_bounds zz adz h2
  obtain ⟨hU, hL⟩ := cell_idx zz φ adz h2
  unfold depositAt
  rw [hU, hL, if_pos rfl, if_neg (by omega), zero_add]

/-- C06 support: nothing is deposited away from the bracket -/
theorem depositAt_off (zz : Array ℚ) (φ adz : ℚ) (h2 : 2 ≤ zz.size) (k : ℕ)
    (hl : k ≠ uNat zz adz - 1) (hu : k ≠ uNat zz adz) : depositAt zz φ adz k = 0 := by
  obtain ⟨hU, hL⟩ := cell_idx zz φ adz h2
  unfold depositAt
  rw [hU, hL, if_neg (by omega), if_neg (by omega), add_zero]

/-- what the cell needs for the deposit to be well defined: bracket of positive width, non-zero normaliser -/
def DepositOk (zz : Array ℚ) (φ adz : ℚ) : Prop :=
  gv zz (uNat zz adz) - gv zz (uNat zz adz - 1) ≠ 0 ∧
  Gen.Admix.fracLower zz φ adz * delz0 zz (uNat zz adz - 1) + (gv zz (uNat zz adz) - gv zz (uNat zz adz - 1))
        + Gen.Admix.fracUpper zz φ adz * delz2 zz (uNat zz adz) ≠ 0

theorem frac_sum (zz : Array ℚ) (φ adz : ℚ) (h2 : 2 ≤ zz.size)
    (h : gv zz (uNat zz adz) - gv zz (uNat zz adz - 1) ≠ 0) :
    Gen.Admix.fracLower zz φ adz + Gen.Admix.fracUpper zz φ adz = 1 := by
  rw [(cell_frac zz φ adz h2).1, (cell_frac zz φ adz h2).2]
  field_simp; ring

/-- the deposited frequency: the two bracket points weighted by the fractions give back `adz` (linear interpolation) -/
theorem frac_mean (zz : Array ℚ) (φ adz : ℚ) (h2 : 2 ≤ zz.size)
    (h : gv zz (uNat zz adz) - gv zz (uNat zz adz - 1) ≠ 0) :
    Gen.Admix.fracLower zz φ adz * gv zz (uNat zz adz - 1) + Gen.Admix.fracUpper zz φ adz * gv zz (uNat zz adz) = adz := by
  rw [(cell_frac zz φ adz h2).1, (cell_frac zz φ adz h2).2]
  field_simp; ring

/-- M8: trapezoid weights times the deposited values give back φ, for ANY mixed frequency -/
theorem deposit_mass (zz : Array ℚ) (φ adz : ℚ) (h2 : 2 ≤ zz.size) (hok : DepositOk zz φ adz) :
    ∑ k ∈ range zz.size, trapzW zz k * depositAt zz φ adz k = φ := by
  have hb := uNat_bounds zz adz h2
  rw [deposit_sum zz φ adz h2, trapzW_lower zz _ hb.1 hb.2, trapzW_upper zz _ hb.1, cell_norm zz φ adz h2]
  have hs := frac_sum zz φ adz h2 hok.1
  obtain ⟨_, hden⟩ := hok
  set fl := Gen.Admix.fracLower zz φ adz
  set fu := Gen.Admix.fracUpper zz φ adz
  set d0 := delz0 zz (uNat zz adz - 1)
  set d2 := delz2 zz (uNat zz adz)
  set d1 := gv zz (uNat zz adz) - gv zz (uNat zz adz - 1)
  have hfu : fu = 1 - fl := by linarith
  rw [hfu] at hden ⊢
  have key : (d0 + d1) / 2 * (fl * (2 * φ / (fl * d0 + d1 + (1 - fl) * d2))) + (d1 + d2) / 2 * ((1 - fl) * (2 * φ / (fl * d0 + d1 + (1 - fl) * d2)))
      = φ * ((fl * d0 + d1 + (1 - fl) * d2) * (fl * d0 + d1 + (1 - fl) * d2)⁻¹) := by ring
  rw [key, mul_inv_cancel₀ hden, mul_one]

/-! ### where the bracket lies -/

/-- strictly increasing grid with at least two points -/
def GridOk (zz : Array ℚ) : Prop := 2 ≤ zz.size ∧ ∀ j, j + 1 < zz.size → gv zz j < gv zz (j + 1)

theorem GridOk.lt {zz : Array ℚ} (hg : GridOk zz) : ∀ i j, i < j → j < zz.size → gv zz i < gv zz j := by
  intro i j hij
  induction j with
  | zero => omega
  | succ j ih =>
    intro hj
    have hstep := hg.2 j hj
    rcases Nat.lt_succ_iff_lt_or_eq.1 hij with h | h
    · exact lt_trans (ih h (by omega)) hstep
    · rw [h]; exact hstep

theorem gv_toList (zz : Array ℚ) (k : ℕ) : gv zz k = zz.toList.getD k 0 := by
  simp [gv, Array.getD_eq_getD_getElem?, List.getD_eq_getElem?_getD]

theorem ssList_prefix (l : List ℚ) (v : ℚ) : ∀ i, i < ssList l v → l.getD i 0 < v := by
  induction l with
  | nil => intro i hi; simp [ssList] at hi
  | cons z zs ih =>
    intro i hi
    unfold ssList at hi
    by_cases hz : z < v
    · rw [if_pos hz] at hi
      cases i with
      | zero => simpa using hz
      | succ i => simpa using ih i (by omega)
    · rw [if_neg hz] at hi; omega

theorem ssList_le (l : List ℚ) (v : ℚ) : ssList l v ≤ l.length := by
  induction l with
  | nil => simp [ssList]
  | cons z zs ih => unfold ssList; split <;> simp <;> omega

theorem ssList_stop (l : List ℚ) (v : ℚ) : ssList l v < l.length → ¬ l.getD (ssList l v) 0 < v := by
  induction l with
  | nil => intro h; simp [ssList] at h
  | cons z zs ih =>
    intro h
    unfold ssList at h ⊢
    by_cases hz : z < v
    · rw [if_pos hz] at h ⊢
      have := ih (by simpa using h)
      simpa using this
    · rw [if_neg hz]; simpa using hz

/-- if every earlier entry is below `v` and entry `j` is not, the scan stops at `j` -/
theorem ssList_eq (l : List ℚ) (v : ℚ) (j : ℕ) (hj : j < l.length) (hlt : ∀ i, i < j → l.getD i 0 < v)
    (hge : ¬ l.getD j 0 < v) : ssList l v = j := by
  have h1 : ¬ j < ssList l v := fun h => hge (ssList_prefix l v j h)
  have h2 : ¬ ssList l v < j := fun h => ssList_stop l v (by omega) (hlt _ h)
  omega

/-- the clamped `searchsorted` bracket contains every `adz` between the first and the last grid point -/
theorem bracket_contains (zz : Array ℚ) (adz : ℚ) (hg : GridOk zz) (hlo : gv zz 0 ≤ adz) (hhi : adz ≤ gv zz (zz.size - 1)) :
    gv zz (uNat zz adz - 1) ≤ adz ∧ adz ≤ gv zz (uNat zz adz) := by
  have h2 := hg.1
  have hlen : zz.toList.length = zz.size := by simp
  have hpre := ssList_prefix zz.toList adz
  have hstop := ssList_stop zz.toList adz
  have hle := ssList_le zz.toList adz
  unfold uNat searchsortedLeft
  set s := ssList zz.toList adz with hs
  rcases Nat.eq_zero_or_pos s with h0 | hpos
  · -- scan stops at 0: adz ≤ zz[0]
    have : ¬ zz.toList.getD 0 0 < adz := by have := hstop (by omega); rwa [h0] at this
    rw [← gv_toList] at this
    have e : max (min s (zz.size - 1)) 1 = 1 := by omega
    rw [e]
    refine ⟨hlo, ?_⟩
    have := hg.2 0 (by omega)
    simp only [zero_add] at this
    linarith [not_lt.1 ‹¬ gv zz 0 < adz›]
  · by_cases hn : s < zz.size
    · have e : max (min s (zz.size - 1)) 1 = s := by omega
      rw [e]
      have a := hpre (s - 1) (by omega)
      have b := hstop (by omega)
      rw [← gv_toList] at a b
      exact ⟨le_of_lt a, not_lt.1 b⟩
    · have a := hpre (zz.size - 1) (by omega)
      rw [← gv_toList] at a
      linarith

/-- inside the bracket the fractions are in [0,1], so the normaliser is positive: the deposit is well defined -/
theorem depositOk_of_range (zz : Array ℚ) (φ adz : ℚ) (hg : GridOk zz) (hlo : gv zz 0 ≤ adz) (hhi : adz ≤ gv zz (zz.size - 1)) :
    DepositOk zz φ adz := by
  have h2 := hg.1
  have hb := uNat_bounds zz adz h2
  obtain ⟨hL, hU⟩ := bracket_contains zz adz hg hlo hhi
  have hw : 0 < gv zz (uNat zz adz) - gv zz (uNat zz adz - 1) := by
    have := hg.lt (uNat zz adz - 1) (uNat zz adz) (by omega) hb.2
    linarith
  refine ⟨ne_of_gt hw, ?_⟩
  rw [(cell_frac zz φ adz h2).1, (cell_frac zz φ adz h2).2]
  have hfl : 0 ≤ (gv zz (uNat zz adz) - adz) / (gv zz (uNat zz adz) - gv zz (uNat zz adz - 1)) :=
    div_nonneg (by linarith) hw.le
  have hfu : 0 ≤ (adz - gv zz (uNat zz adz - 1)) / (gv zz (uNat zz adz) - gv zz (uNat zz adz - 1)) :=
    div_nonneg (by linarith) hw.le
  have hd0 : 0 ≤ delz0 zz (uNat zz adz - 1) := by
    unfold delz0
    split
    · exact le_refl _
    · have := hg.lt (uNat zz adz - 1 - 1) (uNat zz adz - 1) (by omega) (by omega); linarith
  have hd2 : 0 ≤ delz2 zz (uNat zz adz) := by
    unfold delz2
    split
    · have := hg.2 (uNat zz adz) (by assumption); linarith
    · exact le_refl _
  have := mul_nonneg hfl hd0
  have := mul_nonneg hfu hd2
  apply ne_of_gt
  linarith

/-- fractions are in [0,1] inside the bracket -/
theorem frac_nonneg (zz : Array ℚ) (φ adz : ℚ) (hg : GridOk zz) (hlo : gv zz 0 ≤ adz) (hhi : adz ≤ gv zz (zz.size - 1)) :
    0 ≤ Gen.Admix.fracLower zz φ adz ∧ 0 ≤ Gen.Admix.fracUpper zz φ adz := by
  have h2 := hg.1
  have hb := uNat_bounds zz adz h2
  obtain ⟨hL, hU⟩ := bracket_contains zz adz hg hlo hhi
  have hw : 0 < gv zz (uNat zz adz) - gv zz (uNat zz adz - 1) := by
    have := hg.lt (uNat zz adz - 1) (uNat zz adz) (by omega) hb.2
    linarith
  rw [(cell_frac zz φ adz h2).1, (cell_frac zz φ adz h2).2]
  exact ⟨div_nonneg (by linarith) hw.le, div_nonneg (by linarith) hw.le⟩

/-! ### mixed frequency exactly on a grid point: everything goes to that point -/

theorem trapzW_pos (zz : Array ℚ) (hg : GridOk zz) (k : ℕ) (hk : k < zz.size) : 0 < trapzW zz k := by
  unfold trapzW
  have h2 := hg.1
  by_cases h0 : k = 0
  · subst h0
    have := hg.2 0 (by omega)
    rw [if_pos rfl, if_pos (by omega)]
    simp only [zero_add] at this ⊢
    linarith
  · have hprev := hg.lt (k - 1) k (by omega) hk
    rw [if_neg h0]
    by_cases h1 : k + 1 < zz.size
    · have := hg.2 k h1
      rw [if_pos h1]; linarith
    · rw [if_neg h1]; linarith

theorem uNat_on_grid (zz : Array ℚ) (hg : GridOk zz) (j : ℕ) (hj : j < zz.size) : uNat zz (gv zz j) = max j 1 := by
  have h2 := hg.1
  have hs : searchsortedLeft zz (gv zz j) = j := by
    unfold searchsortedLeft
    apply ssList_eq _ _ j (by simpa using hj)
    · intro i hi; rw [← gv_toList]; exact hg.lt i j hi hj
    · rw [← gv_toList]; exact lt_irrefl _
  unfold uNat
  rw [hs]; omega

theorem deposit_on_grid (zz : Array ℚ) (φ : ℚ) (hg : GridOk zz) (j : ℕ) (hj : j < zz.size) (k : ℕ) :
    depositAt zz φ (gv zz j) k = if k = j then φ / trapzW zz j else 0 := by
  have h2 := hg.1
  have hu := uNat_on_grid zz hg j hj
  have hb := uNat_bounds zz (gv zz j) h2
  have hfr := cell_frac zz φ (gv zz j) h2
  have hnm := cell_norm zz φ (gv zz j) h2
  rcases Nat.eq_zero_or_pos j with h0 | hpos
  · -- j = 0: bracket (0,1), everything to the lower point
    subst h0
    have hu1 : uNat zz (gv zz 0) = 1 := by rw [hu]; rfl
    have hw : gv zz 1 - gv zz 0 ≠ 0 := by
      have := hg.2 0 (by omega); simp only [zero_add] at this; exact ne_of_gt (by linarith)
    have hfl : Gen.Admix.fracLower zz φ (gv zz 0) = 1 := by rw [hfr.1, hu1]; exact div_self hw
    have hfu : Gen.Admix.fracUpper zz φ (gv zz 0) = 0 := by rw [hfr.2, hu1]; simp
    have hn : Gen.Admix.norm zz φ (gv zz 0) = 2 * φ / (gv zz 1 - gv zz 0) := by
      rw [hnm, hfl, hfu, hu1]; simp [delz0]
    have hw0 : trapzW zz 0 = (gv zz 1 - gv zz 0) / 2 := by
      unfold trapzW; rw [if_pos rfl, if_pos (by omega)]; simp
    by_cases hk0 : k = 0
    · subst hk0
      have := depositAt_lower zz φ (gv zz 0) h2
      rw [hu1] at this
      rw [if_pos rfl, this, hfl, hn, hw0]; field_simp
    · rw [if_neg hk0]
      by_cases hk1 : k = 1
      · subst hk1
        have := depositAt_upper zz φ (gv zz 0) h2
        rw [hu1] at this
        rw [this, hfu, zero_mul]
      · exact depositAt_off zz φ _ h2 k (by rw [hu1]; omega) (by rw [hu1]; omega)
  · -- j ≥ 1: bracket (j-1, j), everything to the upper point
    have huj : uNat zz (gv zz j) = j := by rw [hu]; omega
    have hw : gv zz j - gv zz (j - 1) ≠ 0 := by
      have := hg.lt (j - 1) j (by omega) hj; exact ne_of_gt (by linarith)
    have hfl : Gen.Admix.fracLower zz φ (gv zz j) = 0 := by rw [hfr.1, huj]; simp
    have hfu : Gen.Admix.fracUpper zz φ (gv zz j) = 1 := by rw [hfr.2, huj]; exact div_self hw
    have hn : Gen.Admix.norm zz φ (gv zz j) = 2 * φ / ((gv zz j - gv zz (j - 1)) + delz2 zz j) := by
      rw [hnm, hfl, hfu, huj]; simp
    have hwj := trapzW_upper zz j hpos
    have hwpos := trapzW_pos zz hg j hj
    by_cases hkj : k = j
    · subst hkj
      have := depositAt_upper zz φ (gv zz k) h2
      rw [huj] at this
      rw [if_pos rfl, this, hfu, hn, hwj]
      rw [hwj] at hwpos
      have : gv zz k - gv zz (k - 1) + delz2 zz k ≠ 0 := by intro h; rw [h] at hwpos; simp at hwpos
      field_simp
    · rw [if_neg hkj]
      by_cases hkl : k = j - 1
      · subst hkl
        have := depositAt_lower zz φ (gv zz j) h2
        rw [huj] at this
        rw [this, hfl, zero_mul]
      · exact depositAt_off zz φ _ h2 k (by rw [huj]; exact hkl) (by rw [huj]; exact hkj)

/-! ### list bookkeeping -/

theorem set_insertIdx {α : Type} : ∀ (l : List α) (a : ℕ) (x y : α), a ≤ l.length → (l.insertIdx a x).set a y = l.insertIdx a y := by
  intro l
  induction l with
  | nil => intro a x y h; have : a = 0 := by simpa using h
           subst this; simp
  | cons z zs ih =>
    intro a x y h
    cases a with
    | zero => simp
    | succ a => simp only [List.insertIdx_succ_cons, List.set_cons_succ]; rw [ih a x y (by simpa using h)]

theorem getD_insertIdx_self {α : Type} : ∀ (l : List α) (a : ℕ) (x d : α), a ≤ l.length → (l.insertIdx a x).getD a d = x := by
  intro l
  induction l with
  | nil => intro a x d h; have : a = 0 := by simpa using h
           subst this; simp
  | cons z zs ih =>
    intro a x d h
    cases a with
    | zero => simp
    | succ a => simp only [List.insertIdx_succ_cons, List.getD_cons_succ]; exact ih a x d (by simpa using h)

theorem set_getD_self : ∀ (l : List ℕ) (a : ℕ), l.set a (l.getD a 0) = l := by
  intro l
  induction l with
  | nil => intro a; simp
  | cons z zs ih =>
    intro a
    cases a with
    | zero => simp
    | succ a => simp only [List.getD_cons_succ, List.set_cons_succ]; rw [ih a]

/-! ### the mixed frequency -/

theorem adZ_zero_coefs : ∀ (grids : List (Array ℚ)) (m : ℕ) (idx : Idx), adZ grids (List.replicate m 0) idx = 0 := by
  intro grids
  induction grids with
  | nil => intro m idx; simp [adZ]
  | cons g gs ih =>
    intro m idx
    cases m with
    | zero => simp [adZ]
    | succ m =>
      cases idx with
      | nil => simp [adZ, List.replicate_succ]
      | cons i is => simp [adZ, List.replicate_succ, ih m is]

/-- unit coefficient vector: the mixed frequency is the frequency of that one population -/
theorem adZ_unit : ∀ (dest : ℕ) (grids : List (Array ℚ)) (m : ℕ) (idx : Idx), dest ≤ m → dest < grids.length → dest < idx.length →
    adZ grids ((List.replicate m (0:ℚ)).insertIdx dest 1) idx = gv (grids.getD dest #[]) (idx.getD dest 0) := by
  intro dest
  induction dest with
  | zero =>
    intro grids m idx _ hg hi
    cases grids with
    | nil => simp at hg
    | cons g gs =>
      cases idx with
      | nil => simp at hi
      | cons i is => simp [adZ, adZ_zero_coefs]
  | succ dest ih =>
    intro grids m idx hm hg hi
    cases grids with
    | nil => simp at hg
    | cons g gs =>
      cases idx with
      | nil => simp at hi
      | cons i is =>
        cases m with
        | zero => omega
        | succ m =>
          simp only [List.replicate_succ, List.insertIdx_succ_cons, adZ, zero_mul, zero_add, List.getD_cons_succ]
          exact ih gs m is (by omega) (by simpa using hg) (by simpa using hi)

theorem fullCoefs_zero (dest m : ℕ) : fullCoefs dest (List.replicate m (0:ℚ)) = (List.replicate m (0:ℚ)).insertIdx dest 1 := by
  unfold fullCoefs; simp

/-- convex combination: non-negative coefficients with sum `s`, every used grid value in `[lo, hi]` -/
theorem adZ_bounds (lo hi : ℚ) : ∀ (coefs : List ℚ) (grids : List (Array ℚ)) (idx : Idx),
    coefs.length = grids.length → coefs.length = idx.length → (∀ c ∈ coefs, 0 ≤ c) →
    (∀ m, m < grids.length → lo ≤ gv (grids.getD m #[]) (idx.getD m 0) ∧ gv (grids.getD m #[]) (idx.getD m 0) ≤ hi) →
    lo * coefs.sum ≤ adZ grids coefs idx ∧ adZ grids coefs idx ≤ hi * coefs.sum := by
  intro coefs
  induction coefs with
  | nil => intro grids idx _ _ _ _; cases grids <;> simp [adZ]
  | cons c cs ih =>
    intro grids idx hg hi hc hv
    cases grids with
    | nil => simp at hg
    | cons g gs =>
      cases idx with
      | nil => simp at hi
      | cons i is =>
        have h0 := hv 0 (by simp)
        simp only [List.getD_cons_zero] at h0
        have hc0 : 0 ≤ c := hc c (by simp)
        obtain ⟨a, b⟩ := ih gs is (by simpa using hg) (by simpa using hi) (fun x hx => hc x (by simp [hx]))
          (fun m hm => by have := hv (m + 1) (by simpa using hm); simpa using this)
        simp only [adZ, List.sum_cons]
        constructor
        · nlinarith [mul_le_mul_of_nonneg_left h0.1 hc0]
        · nlinarith [mul_le_mul_of_nonneg_left h0.2 hc0]

/-- closed simplex of proportions -/
def Simplex (f : List ℚ) : Prop := (∀ x ∈ f, 0 ≤ x) ∧ f.sum ≤ 1

theorem sum_insertIdx' : ∀ (l : List ℚ) (a : ℕ) (x : ℚ), a ≤ l.length → (l.insertIdx a x).sum = x + l.sum := by
  intro l
  induction l with
  | nil => intro a x h; have : a = 0 := by simpa using h
           subst this; simp
  | cons z zs ih =>
    intro a x h
    cases a with
    | zero => simp
    | succ a => simp only [List.insertIdx_succ_cons, List.sum_cons]; rw [ih a x (by simpa using h)]; ring

theorem mem_insertIdx' {l : List ℚ} {a : ℕ} {x y : ℚ} (h : y ∈ l.insertIdx a x) : y = x ∨ y ∈ l := by
  induction l generalizing a with
  | nil => cases a <;> simp_all
  | cons z zs ih =>
    cases a with
    | zero => simpa using h
    | succ a =>
      simp only [List.insertIdx_succ_cons, List.mem_cons] at h ⊢
      rcases h with h | h
      · exact Or.inr (Or.inl h)
      · rcases ih h with h | h
        · exact Or.inl h
        · exact Or.inr (Or.inr h)

theorem fullCoefs_simplex (dest : ℕ) (f : List ℚ) (hd : dest ≤ f.length) (hs : Simplex f) :
    (∀ c ∈ fullCoefs dest f, 0 ≤ c) ∧ (fullCoefs dest f).sum = 1 ∧ (fullCoefs dest f).length = f.length + 1 := by
  unfold fullCoefs
  refine ⟨?_, ?_, ?_⟩
  · intro c hc
    rcases mem_insertIdx' hc with h | h
    · rw [h]; linarith [hs.2]
    · exact hs.1 c h
  · rw [sum_insertIdx' f dest _ hd]; ring
  · rw [List.length_insertIdx]; simp [hd]

/-- grid that runs from 0 to 1, strictly increasing -/
def Grid01 (g : Array ℚ) : Prop := GridOk g ∧ gv g 0 = 0 ∧ gv g (g.size - 1) = 1

theorem Grid01.range {g : Array ℚ} (h : Grid01 g) (k : ℕ) (hk : k < g.size) : 0 ≤ gv g k ∧ gv g k ≤ 1 := by
  obtain ⟨hg, h0, h1⟩ := h
  constructor
  · rcases Nat.eq_zero_or_pos k with hk0 | hk0
    · rw [hk0, h0]
    · have := hg.lt 0 k hk0 hk; linarith
  · by_cases hl : k = g.size - 1
    · rw [hl, h1]
    · have := hg.lt k (g.size - 1) (by omega) (by have := hg.1; omega); linarith

/-- proportions in the closed simplex, grids from 0 to 1, index inside the box: the mixed frequency is in [0,1] -/
theorem adZ_simplex (dest : ℕ) (f : List ℚ) (grids : List (Array ℚ)) (idx : Idx) (hd : dest ≤ f.length) (hs : Simplex f)
    (hgl : grids.length = f.length + 1) (hil : idx.length = f.length + 1)
    (hg : ∀ m, m < grids.length → Grid01 (grids.getD m #[]) ∧ idx.getD m 0 < (grids.getD m #[]).size) :
    0 ≤ adZ grids (fullCoefs dest f) idx ∧ adZ grids (fullCoefs dest f) idx ≤ 1 := by
  obtain ⟨hc, hsum, hlen⟩ := fullCoefs_simplex dest f hd hs
  have := adZ_bounds 0 1 (fullCoefs dest f) grids idx (by omega) (by omega) hc
    (fun m hm => (hg m hm).1.range _ (hg m hm).2)
  rw [hsum] at this
  simpa using this

/-! ### densities: marginals of constructors and pulses -/

theorem removeAxis_f (xx : Array ℚ) (ax : ℕ) (P : Dens) (j : Idx) :
    (removeAxis xx ax P).f j = ∑ k ∈ range xx.size, trapzW xx k * P.f (j.insertIdx ax k) := by
  simp only [removeAxis]
  rw [trapzLine_eq_weights]

theorem newPopRaw_f (grids : List (Array ℚ)) (zz : Array ℚ) (coefs : List ℚ) (P : Dens) (idx : Idx) (k : ℕ) :
    (newPopRaw grids zz coefs P).f (idx ++ [k]) = depositAt zz (P.f idx) (adZ grids coefs idx) k := by
  show depositAt zz (P.f (idx ++ [k]).dropLast) (adZ grids coefs (idx ++ [k]).dropLast) ((idx ++ [k]).getLastD 0) = _
  simp

/-- integrating the new population out of a constructor's result gives the input back -/
theorem newPop_marginal (grids : List (Array ℚ)) (zz : Array ℚ) (coefs : List ℚ) (P : Dens) (idx : Idx)
    (h2 : 2 ≤ zz.size) (hok : DepositOk zz (P.f idx) (adZ grids coefs idx)) :
    (removeAxis zz idx.length (newPopRaw grids zz coefs P)).f idx = P.f idx := by
  rw [removeAxis_f]
  simp only [List.insertIdx_length_self, newPopRaw_f]
  exact deposit_mass zz _ _ h2 hok

theorem pulseRaw_f (grids : List (Array ℚ)) (g : Array ℚ) (coefs : List ℚ) (dest : ℕ) (P : Dens) (idx : Idx) :
    (pulseRaw grids g g coefs dest P).f idx
      = ∑ j ∈ range g.size, trapzW g j * depositAt g (P.f (idx.set dest j)) (adZ grids coefs (idx.set dest j)) (idx.getD dest 0) := by
  simp only [pulseRaw]
  rw [trapzLine_eq_weights]

/-- integrating the destination out of a pulse's result = integrating it out of the input -/
theorem pulse_marginal (grids : List (Array ℚ)) (g : Array ℚ) (coefs : List ℚ) (dest : ℕ) (P : Dens) (j : Idx)
    (hd : dest ≤ j.length) (h2 : 2 ≤ g.size)
    (hok : ∀ k, k < g.size → DepositOk g (P.f (j.insertIdx dest k)) (adZ grids coefs (j.insertIdx dest k))) :
    (removeAxis g dest (pulseRaw grids g g coefs dest P)).f j = (removeAxis g dest P).f j := by
  rw [removeAxis_f, removeAxis_f]
  simp only [pulseRaw_f, set_insertIdx _ _ _ _ hd, getD_insertIdx_self _ _ _ _ hd, Finset.mul_sum]
  rw [Finset.sum_comm]
  apply Finset.sum_congr rfl
  intro k hk
  have := deposit_mass g _ _ h2 (hok k (Finset.mem_range.1 hk))
  calc ∑ x ∈ range g.size, trapzW g x * (trapzW g k * depositAt g (P.f (j.insertIdx dest k)) (adZ grids coefs (j.insertIdx dest k)) x)
      = trapzW g k * ∑ x ∈ range g.size, trapzW g x * depositAt g (P.f (j.insertIdx dest k)) (adZ grids coefs (j.insertIdx dest k)) x := by
        rw [Finset.mul_sum]; apply Finset.sum_congr rfl; intro x _; ring
    _ = _ := by rw [this]

/-- a pulse with all proportions 0 is the identity on the box -/
theorem pulse_zero (grids : List (Array ℚ)) (dest m : ℕ) (P : Dens) (idx : Idx)
    (hm : dest ≤ m) (hgl : dest < grids.length) (hil : dest < idx.length)
    (hg : GridOk (grids.getD dest #[])) (hbox : idx.getD dest 0 < (grids.getD dest #[]).size) :
    (pulse grids dest (List.replicate m 0) P).f idx = P.f idx := by
  unfold pulse
  rw [pulseRaw_f, fullCoefs_zero]
  set g := grids.getD dest #[] with hgdef
  have hterm : ∀ j ∈ range g.size,
      trapzW g j * depositAt g (P.f (idx.set dest j)) (adZ grids ((List.replicate m (0:ℚ)).insertIdx dest 1) (idx.set dest j)) (idx.getD dest 0)
        = if idx.getD dest 0 = j then P.f (idx.set dest j) else 0 := by
    intro j hj
    have hj' := Finset.mem_range.1 hj
    rw [adZ_unit dest grids m (idx.set dest j) hm hgl (by simpa using hil)]
    have : (idx.set dest j).getD dest 0 = j := by
      simp [List.getD_eq_getElem?_getD, hil]
    rw [this, ← hgdef, deposit_on_grid g _ hg j hj']
    by_cases h : idx.getD dest 0 = j
    · rw [if_pos h, if_pos h]
      have := trapzW_pos g hg j hj'
      field_simp
    · rw [if_neg h, if_neg h, mul_zero]
  rw [Finset.sum_congr rfl hterm, Finset.sum_ite_eq, if_pos (Finset.mem_range.2 hbox), set_getD_self]

/-- pure split / unit proportion vector `e_m`, new axis on the parent's own grid: the new population is a copy of population m -/
theorem newPop_copy (grids : List (Array ℚ)) (m n : ℕ) (P : Dens) (idx : Idx) (k : ℕ)
    (hm : m ≤ n) (hgl : m < grids.length) (hil : m < idx.length)
    (hg : GridOk (grids.getD m #[])) (hbox : idx.getD m 0 < (grids.getD m #[]).size) :
    (newPopRaw grids (grids.getD m #[]) ((List.replicate n (0:ℚ)).insertIdx m 1) P).f (idx ++ [k])
      = if k = idx.getD m 0 then P.f idx / trapzW (grids.getD m #[]) k else 0 := by
  rw [newPopRaw_f, adZ_unit m grids n idx hm hgl hil, deposit_on_grid _ _ hg _ hbox]
  by_cases h : k = idx.getD m 0
  · rw [if_pos h, if_pos h, h]
  · rw [if_neg h, if_neg h]

/-! ### phi_1D_to_2D -/

theorem split1D_f (xx : Array ℚ) (P : Dens) (i j : ℕ) :
    (split1D xx P).f [i, j] = if i = j ∧ 1 ≤ i ∧ i + 1 < xx.size then P.f [i] * 2 / (gv xx (i + 1) - gv xx (i - 1)) else 0 := by
  simp [split1D, Gen.Admix.split1Dval]

theorem trapzW_interior (xx : Array ℚ) (i : ℕ) (h1 : 1 ≤ i) (hn : i + 1 < xx.size) :
    trapzW xx i = (gv xx (i + 1) - gv xx (i - 1)) / 2 := by
  unfold trapzW
  rw [if_neg (by omega), if_pos hn]; ring

/-- integrating the new population (axis 1) out of `phi_1D_to_2D`: the parent's density at interior points, 0 at the
    two absorbing end points (the code does not carry `phi[0]`, `phi[-1]` over) -/
theorem split1D_marginal (xx : Array ℚ) (hg : GridOk xx) (P : Dens) (i : ℕ) (hi : i < xx.size) :
    (removeAxis xx 1 (split1D xx P)).f [i] = if 1 ≤ i ∧ i + 1 < xx.size then P.f [i] else 0 := by
  rw [removeAxis_f]
  have e : ∀ k, ([i] : Idx).insertIdx 1 k = [i, k] := fun k => by simp
  simp only [e, split1D_f]
  by_cases h : 1 ≤ i ∧ i + 1 < xx.size
  · rw [if_pos h]
    have hterm : ∀ k ∈ range xx.size, trapzW xx k * (if i = k ∧ 1 ≤ i ∧ i + 1 < xx.size then P.f [i] * 2 / (gv xx (i + 1) - gv xx (i - 1)) else 0)
        = if i = k then trapzW xx i * (P.f [i] * 2 / (gv xx (i + 1) - gv xx (i - 1))) else 0 := by
      intro k _
      by_cases hk : i = k
      · rw [if_pos ⟨hk, h⟩, if_pos hk, hk]
      · rw [if_neg (fun hh => hk hh.1), if_neg hk, mul_zero]
    rw [Finset.sum_congr rfl hterm, Finset.sum_ite_eq, if_pos (Finset.mem_range.2 hi), trapzW_interior xx i h.1 h.2]
    have : gv xx (i + 1) - gv xx (i - 1) ≠ 0 := by
      have := hg.lt (i - 1) (i + 1) (by omega) h.2; exact ne_of_gt (by linarith)
    field_simp
  · rw [if_neg h]
    apply Finset.sum_eq_zero
    intro k _
    rw [if_neg (fun hh => h hh.2), mul_zero]

/-- the result is symmetric: the two daughters are exchangeable (so the same holds when axis 0 is integrated out) -/
theorem split1D_symm (xx : Array ℚ) (P : Dens) (i j : ℕ) : (split1D xx P).f [i, j] = (split1D xx P).f [j, i] := by
  rw [split1D_f, split1D_f]
  by_cases h : i = j
  · subst h; rfl
  · rw [if_neg (fun hh => h hh.1), if_neg (fun hh => h hh.1.symm)]

/-! ### remove / reorder -/

/-- removing two populations in either order gives the same density (finite Fubini): `a ≤ b` are positions in the
    result, i.e. axes `a` and `b+1` of the input -/
theorem removeAxis_comm (xa xb : Array ℚ) (a b : ℕ) (P : Dens) (j : Idx) (hab : a ≤ b) (hb : b ≤ j.length) :
    (removeAxis xa a (removeAxis xb (b + 1) P)).f j = (removeAxis xb b (removeAxis xa a P)).f j := by
  simp only [removeAxis_f, Finset.mul_sum]
  rw [Finset.sum_comm]
  apply Finset.sum_congr rfl
  intro k _
  apply Finset.sum_congr rfl
  intro l _
  rw [List.insertIdx_comm l k hab hb]
  ring

/-- numpy transpose: the entry of the input at `i` is found at `j[k] = i[axes[k]]` -/
theorem reorderAxes_entry (axes : List ℕ) (P : Dens) (i : Idx) (hi : i.length = P.shape.length)
    (hcov : ∀ a, a < P.shape.length → a ∈ axes) :
    (reorderAxes axes P).f (axes.map fun a => i.getD a 0) = P.f i := by
  simp only [reorderAxes]
  congr 1
  apply List.ext_getElem
  · simp [hi]
  · intro n h1 h2
    simp only [List.length_map, List.length_range] at h1
    simp only [List.getElem_map, List.getElem_range]
    have hmem := hcov n h1
    have hlt := List.idxOf_lt_length_of_mem hmem
    rw [List.getD_eq_getElem?_getD, List.getElem?_map, List.getElem?_eq_getElem hlt]
    simp only [Option.map_some, Option.getD_some, List.getElem_idxOf hlt]
    rw [List.getD_eq_getElem?_getD, List.getElem?_eq_getElem h2]; rfl

theorem reorderAxes_shape (axes : List ℕ) (P : Dens) : (reorderAxes axes P).shape = axes.map fun a => P.shape.getD a 0 := rfl

/-- inverse permutation -/
def invAxes (axes : List ℕ) : List ℕ := (List.range axes.length).map fun a => axes.idxOf a

/-- reordering by a permutation and then by its inverse is the identity -/
theorem reorderAxes_inv (axes : List ℕ) (P : Dens) (i : Idx) (hi : i.length = P.shape.length)
    (hlen : axes.length = P.shape.length) (hnd : axes.Nodup) (hcov : ∀ a, a < P.shape.length → a ∈ axes)
    (hval : ∀ a ∈ axes, a < P.shape.length) :
    (reorderAxes (invAxes axes) (reorderAxes axes P)).f i = P.f i := by
  set j : Idx := axes.map fun a => i.getD a 0 with hj
  have hjl : j.length = (reorderAxes axes P).shape.length := by simp [hj, reorderAxes_shape]
  have hcov' : ∀ b, b < (reorderAxes axes P).shape.length → b ∈ invAxes axes := by
    intro b hb
    simp only [reorderAxes_shape, List.length_map] at hb
    unfold invAxes
    rw [List.mem_map]
    refine ⟨axes[b], ?_, hnd.idxOf_getElem b hb⟩
    rw [List.mem_range, hlen]; exact hval _ (List.getElem_mem hb)
  have step := reorderAxes_entry (invAxes axes) (reorderAxes axes P) j hjl hcov'
  have e : ((invAxes axes).map fun a => j.getD a 0) = i := by
    apply List.ext_getElem
    · simp [invAxes, hlen, hi]
    · intro n h1 h2
      simp only [invAxes, List.length_map, List.length_range] at h1
      have hmem := hcov n (by omega)
      have hlt := List.idxOf_lt_length_of_mem hmem
      simp only [invAxes, List.getElem_map, List.getElem_range]
      rw [hj, List.getD_eq_getElem?_getD, List.getElem?_map, List.getElem?_eq_getElem hlt]
      simp only [Option.map_some, Option.getD_some, List.getElem_idxOf hlt]
      rw [List.getD_eq_getElem?_getD, List.getElem?_eq_getElem h2]; rfl
  rw [e] at step
  rw [step, reorderAxes_entry axes P i hi hcov]

/-! ### the generated rows against the intended functions -/

theorem length_eq_four {α : Type} {l : List α} : l.length = 4 ↔ ∃ a b c d, l = [a, b, c, d] := by
  constructor
  · intro h
    match l, h with
    | [a, b, c, d], _ => exact ⟨a, b, c, d, rfl⟩
  · rintro ⟨a, b, c, d, rfl⟩; rfl

/-- decidable part of "row r is wired as intended": the axis written back is the destination in the name, population
    axis m uses public grid m, the temporary population lives on the destination's grid and the old destination is
    integrated with the destination's grid, the proportion parameters name all other populations in ascending order
    (constructors: new axis d on the extra grid d, proportions for populations 0..d-2). -/
def rowGridsOk (r : Gen.Admix.FnRow) : Bool :=
  r.dest == r.destName && r.gridOrder == List.range r.d && r.newGrid == r.dest && r.trapzGrid == r.dest
    && r.nf + 1 == r.d
    && (if r.isPulse then decide (r.dest < r.d) && r.srcNames == (List.range r.d).eraseIdx r.dest
        else r.dest == r.d && r.srcNames == List.range r.nf)

/-- position of `1 - Σ f` in the coefficient vector: the destination for a pulse, the last old population for a constructor -/
def restPos (r : Gen.Admix.FnRow) : ℕ := if r.isPulse then r.dest else r.nf

theorem map_getD_range {α : Type} (l : List α) (d : α) : (List.range l.length).map (fun g => l.getD g d) = l := by
  apply List.ext_getElem
  · simp
  · intro n h1 h2
    simp [List.getD_eq_getElem?_getD, List.getElem?_eq_getElem h2]

theorem map_getD_range_take {α : Type} (l : List α) (d : α) (n : ℕ) (h : n ≤ l.length) :
    (List.range n).map (fun g => l.getD g d) = l.take n := by
  apply List.ext_getElem
  · simp [h]
  · intro k h1 h2
    simp only [List.length_map, List.length_range] at h1
    have : k < l.length := by omega
    simp [List.getD_eq_getElem?_getD, List.getElem?_eq_getElem this]

/-- a pulse row that is wired as intended computes the intended `pulse` -/
theorem applyRow_pulse (r : Gen.Admix.FnRow) (f : List ℚ) (grids : List (Array ℚ)) (P : Dens)
    (hp : r.isPulse = true) (hw : rowGridsOk r = true) (hc : r.coefs f = fullCoefs r.dest f)
    (hs : shapesOk r f grids P = true) (hg : r.guard f = false) :
    applyRow r f grids P = .ok (pulse grids r.dest f P) := by
  simp only [rowGridsOk, hp, if_true, Bool.and_eq_true, beq_iff_eq, decide_eq_true_eq] at hw
  obtain ⟨⟨⟨⟨⟨_, hgo⟩, hng⟩, htg⟩, _⟩, _, _⟩ := hw
  simp only [shapesOk, hp, if_true, Bool.and_eq_true, beq_iff_eq] at hs
  have hgl : grids.length = r.d := hs.1.1.1.1.2
  have hfl : f.length = r.nf := hs.1.1.1.1.1.1
  unfold applyRow pulse
  have hs' : shapesOk r f grids P = true := by simp only [shapesOk, hp, if_true, Bool.and_eq_true, beq_iff_eq]; exact hs
  rw [hs', hg, hp, hc, hng, htg, hgo, ← hgl, map_getD_range]
  simp [hfl]

/-- a constructor row that is wired as intended computes the intended `newPop` on the first d grids, new axis on grid d -/
theorem applyRow_newPop (r : Gen.Admix.FnRow) (f : List ℚ) (grids : List (Array ℚ)) (P : Dens)
    (hp : r.isPulse = false) (hw : rowGridsOk r = true) (hc : r.coefs f = fullCoefs r.nf f)
    (hs : shapesOk r f grids P = true) (hg : r.guard f = false) :
    applyRow r f grids P = .ok (newPop (grids.take r.d) (grids.getD r.d #[]) f P) := by
  simp only [rowGridsOk, hp, Bool.false_eq_true, if_false, Bool.and_eq_true, beq_iff_eq] at hw
  obtain ⟨⟨⟨⟨⟨_, hgo⟩, hng⟩, _⟩, _⟩, hd, _⟩ := hw
  have hs0 := hs
  simp only [shapesOk, hp, Bool.false_eq_true, if_false, Bool.and_eq_true, beq_iff_eq] at hs
  have hgl : grids.length = r.d + 1 := hs.1.1.1.1.2
  have hfl : f.length = r.nf := hs.1.1.1.1.1.1
  unfold applyRow newPop
  rw [hs0, hg, hp, hc, hng, hd, hgo, map_getD_range_take _ _ _ (by omega), hfl]
  simp

end DadiVerif.Admix
