import DadiVerif.Lemmas.AdmixLoops
/-!
C06, round 6: the density as an array OBJECT (strided view onto flat memory).

`storeList` (basic-index stores through a view, one after the other) realises the functional update on every view whose
address map is injective on the index box — in any order of the stores, for any offset and any strides (transposed, Fortran,
every-second-entry, negative) — and touches nothing outside the view.  A *flattened* alias of the leading axes, on the other
hand, exists as a view only when the strides can be merged (`flatten_needs_merge`).
-/
set_option linter.unusedSimpArgs false
namespace DadiVerif.Admix

/-- distinct entries of the view live at distinct addresses (false for broadcast views with a stride 0, which numpy
    returns read-only) -/
def View.InjOn (v : View) : Prop :=
  ∀ i ∈ boxIdx v.shape, ∀ j ∈ boxIdx v.shape, v.addr i = v.addr j → i = j

theorem storeList_other (v : View) (val : Idx → ℚ) (l : List Idx) (b : Buf) (a : ℤ)
    (h : ∀ idx ∈ l, v.addr idx ≠ a) : storeList v val l b a = b a := by
  induction l generalizing b with
  | nil => rfl
  | cons j l ih =>
    simp only [storeList]
    rw [ih _ (fun idx hi => h idx (List.mem_cons_of_mem _ hi))]
    have hj : a ≠ v.addr j := fun e => h j List.mem_cons_self e.symm
    simp only [hj, if_false]

theorem storeList_at (v : View) (val : Idx → ℚ) (l : List Idx) (b : Buf) (idx : Idx) (hm : idx ∈ l)
    (hinj : ∀ j ∈ l, v.addr j = v.addr idx → j = idx) : storeList v val l b (v.addr idx) = val idx := by
  induction l generalizing b with
  | nil => cases hm
  | cons j l ih =>
    simp only [storeList]
    by_cases hl : idx ∈ l
    · exact ih _ hl (fun j' hj' => hinj j' (List.mem_cons_of_mem _ hj'))
    · have hj : idx = j := by
        rcases List.mem_cons.1 hm with h | h
        · exact h
        · exact absurd h hl
      subst hj
      rw [storeList_other v val l _ _ (fun j' hj' e => hl (by
        have := hinj j' (List.mem_cons_of_mem _ hj') e
        exact this ▸ hj'))]
      simp only [if_true]

/-- stores through an injective view: every stored entry reads back as the stored value, every entry of the view that is
    not stored keeps its value, memory outside the view is untouched — whatever the order of the list -/
theorem storeList_spec (v : View) (hinj : v.InjOn) (val : Idx → ℚ) (l : List Idx) (hl : ∀ i ∈ l, i ∈ boxIdx v.shape) (b : Buf) :
    (∀ idx ∈ l, storeList v val l b (v.addr idx) = val idx) ∧
    (∀ idx ∈ boxIdx v.shape, idx ∉ l → storeList v val l b (v.addr idx) = b (v.addr idx)) ∧
    (∀ a, (∀ idx ∈ boxIdx v.shape, v.addr idx ≠ a) → storeList v val l b a = b a) := by
  refine ⟨fun idx hi => ?_, fun idx hb hn => ?_, fun a ha => ?_⟩
  · exact storeList_at v val l b idx hi (fun j hj e => hinj j (hl j hj) idx (hl idx hi) e)
  · exact storeList_other v val l b _ (fun j hj e => hn (by
      have := hinj j (hl j hj) idx hb e
      exact this ▸ hj))
  · exact storeList_other v val l b a (fun j hj => ha j (hl j hj))

theorem visited_eq_box (L : Gen.Admix.LoopRow) (shape : List ℕ)
    (hlo : L.loopLo.all (· == 0) = true) (hhi : L.loopHiOff.all (· == 0) = true) : visited L shape = boxIdx shape := by
  unfold visited
  rw [List.filter_eq_self]
  intro idx _
  simp [skipped_false L shape idx hlo hhi]

/-- a pulse whose `memRows` entry is `memOk` and whose loops are the intended ones, on ANY injective view: the memory of the
    view afterwards is the functional result (what `applyRowL` computes from the density the view stood for), the returned
    density is the view, nothing else in memory changes -/
theorem applyInPlace_pulse (r : Gen.Admix.FnRow) (L : Gen.Admix.LoopRow) (m : Gen.Admix.MemRow) (hL : loopsOk r L = true)
    (hp : r.isPulse = true) (hn : m.name = r.name) (hpm : m.isPulse = r.isPulse) (hm : memOk m = true)
    (f : List ℚ) (grids : List (Array ℚ)) (b : Buf) (v : View) (hs : v.strides.length = v.shape.length) (hinj : v.InjOn)
    (Q : Dens) (hQ : applyRowL r L f grids (readView b v) = .ok Q) :
    ∃ b', applyInPlace r L m f grids b v = .ok b' (readView b' v) ∧
      (∀ idx ∈ boxIdx v.shape, b' (v.addr idx) = Q.f idx) ∧
      (∀ a, (∀ idx ∈ boxIdx v.shape, v.addr idx ≠ a) → b' a = b a) := by
  simp only [loopsOk, Bool.and_eq_true, beq_iff_eq] at hL
  obtain ⟨⟨⟨_, _⟩, hlo⟩, hhi⟩ := hL
  refine ⟨storeList v Q.f (boxIdx v.shape) b, ?_, ?_, ?_⟩
  · unfold applyInPlace
    simp only [hn, hpm, hm, hs, hQ, hp, visited_eq_box L v.shape hlo hhi, bne_self_eq_false, Bool.not_true, Bool.or_self,
      Bool.false_eq_true, if_false, if_true]
  · exact (storeList_spec v hinj Q.f _ (fun i hi => hi) b).1
  · exact (storeList_spec v hinj Q.f _ (fun i hi => hi) b).2.2

/-- any other function (`memOk`: no store into the argument or anything derived from it): memory unchanged, the result is new -/
theorem applyInPlace_new (r : Gen.Admix.FnRow) (L : Gen.Admix.LoopRow) (m : Gen.Admix.MemRow)
    (hp : r.isPulse = false) (hn : m.name = r.name) (hpm : m.isPulse = r.isPulse) (hm : memOk m = true)
    (f : List ℚ) (grids : List (Array ℚ)) (b : Buf) (v : View) (hs : v.strides.length = v.shape.length)
    (Q : Dens) (hQ : applyRowL r L f grids (readView b v) = .ok Q) :
    applyInPlace r L m f grids b v = .ok b Q := by
  unfold applyInPlace
  simp only [hn, hpm, hm, hs, hQ, hp, bne_self_eq_false, Bool.not_true, Bool.or_self, Bool.false_eq_true, if_false]

/-- why one loop over `phi.reshape(-1, n)` is not the loop nest: a view `w` of shape `[n0*n1, n2]` addressing the entries of
    the 3-D view `v` row by row exists only if the two leading strides of `v` can be merged (`s0 = n1*s1`); for every other
    layout numpy's `reshape` returns a copy and stores into it never reach `v` -/
theorem flatten_needs_merge (off s0 s1 s2 : ℤ) (n0 n1 n2 : ℕ) (h0 : 2 ≤ n0) (h1 : 2 ≤ n1) (h2 : 1 ≤ n2) (w : View)
    (hw : w.strides.length = 2)
    (h : ∀ i j k : ℕ, i < n0 → j < n1 → k < n2 →
      w.addr [i * n1 + j, k] = (⟨off, [s0, s1, s2], [n0, n1, n2]⟩ : View).addr [i, j, k]) :
    s0 = (n1 : ℤ) * s1 := by
  obtain ⟨woff, ws, wsh⟩ := w
  match ws, hw with
  | [t0, t1], _ =>
    have e00 := h 0 0 0 (by omega) (by omega) (by omega)
    have e01 := h 0 1 0 (by omega) (by omega) (by omega)
    have e10 := h 1 0 0 (by omega) (by omega) (by omega)
    simp only [View.addr, dotIS, Nat.cast_zero, Nat.cast_one, Nat.cast_add, Nat.cast_mul, zero_mul, one_mul, zero_add, add_zero] at e00 e01 e10
    have ht0 : t0 = s1 := by linarith
    have : (n1 : ℤ) * t0 = s0 := by linarith
    rw [← this, ht0]

end DadiVerif.Admix
