import DadiVerif.Lemmas.DataDictStats
/-! Infrastructure for C13, part 4: facts about one dictionary entry (polarisation as generated from
    `count_data_dict`), totals of single contributions, sub-sampling counts. -/
namespace DadiVerif.DataDict
open Finset DadiVerif.Gen.DD

/-- `derived_calls` is assigned for every SNP: the generated decision table selects one of the two alleles in every row -/
theorem derivedSel_isSome (s : Snp) : s.derivedSel.isSome = true := Snp.derivedSel_isSome' s

theorem derived_length (s : Snp) : s.derived.length = s.calls.length := by
  have := derivedSel_isSome s
  unfold Snp.derived
  cases h : s.derivedSel with
  | none => simp [h] at this
  | some k => simp

theorem successful_length (s : Snp) : s.successful.length = s.calls.length := by
  simp [Snp.successful]

theorem pick_le (k : ℕ) (c : ℕ × ℕ) : Snp.pick k c ≤ successfulCalls c.1 c.2 := by
  unfold Snp.pick successfulCalls
  split_ifs <;> omega

theorem derived_le_successful (s : Snp) : List.Forall₂ (· ≤ ·) s.derived s.successful := by
  have := derivedSel_isSome s
  unfold Snp.derived Snp.successful
  cases h : s.derivedSel with
  | none => simp [h] at this
  | some k =>
    simp only
    induction s.calls with
    | nil => exact List.Forall₂.nil
    | cons c t ih => exact List.Forall₂.cons (pick_le k c) ih

/-- a usable SNP spreads exactly one unit over the spectrum -/
theorem contribAt_total_usable (pol : Bool) (proj : List ℕ) (s : Snp) (hlen : s.calls.length = proj.length)
    (hu : usable pol proj s = true) : boxSum (shapeOf proj) (contribAt pol proj s) = 1 := by
  simp only [usable, Bool.and_eq_true, beq_iff_eq, Bool.not_eq_true'] at hu
  obtain ⟨⟨h1, h2⟩, h3⟩ := hu
  have : contribAt pol proj s = prodW proj s.successful s.derived := by
    funext idx
    simp [contribAt, h1, h2]
  rw [this, boxSum_prodW proj _ _ (by rw [successful_length, hlen]) (by rw [derived_length, hlen])]
  exact prodRows_one proj _ _ (by rw [successful_length, hlen]) (by rw [derived_length, hlen]) h3
    (derived_le_successful s)

/-- any other SNP contributes nothing anywhere -/
theorem contribAt_unusable (pol : Bool) (proj : List ℕ) (s : Snp) (hlen : s.calls.length = proj.length)
    (hu : usable pol proj s = false) (idx : List ℕ) (hidx : idx.length = proj.length) :
    contribAt pol proj s idx = 0 := by
  unfold contribAt
  split_ifs with h1 h2
  · rfl
  · rfl
  · have h3 : enoughCalls proj s.successful = false := by
      simp only [usable, Bool.and_eq_false_iff, beq_eq_false_iff_ne, Bool.not_eq_false'] at hu
      rcases hu with (hu | hu) | hu
      · exact absurd (by simpa using h1) hu
      · exact absurd hu h2
      · exact hu
    exact prodW_zero proj _ _ idx (by rw [successful_length, hlen]) (by rw [derived_length, hlen]) hidx h3

theorem shapeOf_length (proj : List ℕ) : (shapeOf proj).length = proj.length := by simp [shapeOf]

/-! ### sub-sampling -/

theorem countAllele_01 (l : List ℕ) (h : ∀ a ∈ l, a = 0 ∨ a = 1) : countAllele 0 l + countAllele 1 l = l.length := by
  induction l with
  | nil => rfl
  | cons a t ih =>
    have ht := ih fun b hb => h b (by simp [hb])
    simp only [countAllele] at ht ⊢
    rcases h a (by simp) with e | e <;> subst e <;> simp <;> omega

theorem chosenCalls_total (gts : List Indiv) (ploidy : ℕ)
    (hg : ∀ x ∈ gts, x.alleles.length = ploidy ∧ ∀ a ∈ x.alleles, a = 0 ∨ a = 1)
    (idx : List ℕ) (hidx : ∀ ii ∈ idx, ii < gts.length) (acc : ℕ × ℕ) :
    (chosenCallsFrom acc gts idx).1 + (chosenCallsFrom acc gts idx).2 = acc.1 + acc.2 + ploidy * idx.length := by
  induction idx generalizing acc with
  | nil => simp [chosenCallsFrom]
  | cons ii t ih =>
    have hii : ii < gts.length := hidx ii (by simp)
    have hget : gts[ii]? = some gts[ii] := List.getElem?_eq_getElem hii
    have hx := hg gts[ii] (List.getElem_mem hii)
    have h01 := countAllele_01 _ hx.2
    have step : chosenCallsFrom acc gts (ii :: t)
        = chosenCallsFrom (acc.1 + countAllele 0 gts[ii].alleles, acc.2 + countAllele 1 gts[ii].alleles) gts t := by
      simp [chosenCallsFrom, List.foldl_cons, hget]
    rw [step, ih (fun j hj => hidx j (by simp [hj])), List.length_cons]
    rw [hx.1] at h01
    simp only
    ring_nf
    omega

end DadiVerif.DataDict
