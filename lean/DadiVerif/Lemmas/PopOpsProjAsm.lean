import Mathlib.Data.List.Perm.Basic
import DadiVerif.Lemmas.PopOpsProjStep
/-! C10: assembly — the whole loop of `Spectrum.project` (any number of axes, any admissible sizes) against
    `marginalize` over any list of axes, `reorder_pops`, `combine_two_pops` / iterated merges, corner masking. -/
namespace DadiVerif.PopOps

/-! ### order of the projection steps is irrelevant -/

theorem projSteps_perm {ps qs : List (Nat × Nat)} (h : ps.Perm qs) (hn : (ps.map Prod.fst).Nodup) (S : FS) :
    projSteps ps S = projSteps qs S := by
  unfold projSteps
  apply List.Perm.foldl_eq' h
  intro x hx y hy z
  by_cases hxy : x.1 = y.1
  · have : x = y := List.inj_on_of_nodup_map hn hx hy hxy
    rw [this]
  · exact projectAxis_comm y.1 y.2 x.1 x.2 z (Ne.symm hxy)

/-! ### one bookkeeping operation against a list of projection steps -/

/-- the steps are executable on `S`: distinct axes, each inside the spectrum, each target size admissible -/
def Adm (S : FS) (ps : List (Nat × Nat)) : Prop :=
  (ps.map Prod.fst).Nodup ∧ ∀ p ∈ ps, p.1 < S.ndim ∧ p.2 + 1 ≤ S.shape.getD p.1 0

theorem Adm.tail {S : FS} {p : Nat × Nat} {ps : List (Nat × Nat)} (h : Adm S (p :: ps)) :
    Adm (projectAxis p.1 p.2 S) ps := by
  obtain ⟨h1, h2⟩ := h
  rw [List.map_cons, List.nodup_cons] at h1
  refine ⟨h1.2, fun q hq => ?_⟩
  obtain ⟨h3, h4⟩ := h2 q (by simp [hq])
  have hne : p.1 ≠ q.1 := fun he => h1.1 (by rw [he]; exact List.mem_map_of_mem hq)
  refine ⟨by show q.1 < (S.shape.set p.1 (p.2 + 1)).length; rw [List.length_set]; exact h3, ?_⟩
  show q.2 + 1 ≤ (S.shape.set p.1 (p.2 + 1)).getD q.1 0
  rw [getD_set_ne _ _ _ _ _ hne]; exact h4

theorem op_projSteps (op : FS → FS) (φ : Nat × Nat → Option (Nat × Nat)) (P : FS → Prop) (Q : Nat × Nat → Prop)
    (hP : ∀ S k m, P S → P (projectAxis k m S))
    (hsome : ∀ S p q, P S → Q p → p.1 < S.ndim → p.2 + 1 ≤ S.shape.getD p.1 0 → φ p = some q →
        Obs (op (projectAxis p.1 p.2 S)) (projectAxis q.1 q.2 (op S)))
    (hnone : ∀ S p, P S → Q p → p.1 < S.ndim → p.2 + 1 ≤ S.shape.getD p.1 0 → φ p = none →
        Obs (op (projectAxis p.1 p.2 S)) (op S))
    (ps : List (Nat × Nat)) (S : FS) (hS : P S) (hQ : ∀ p ∈ ps, Q p) (ha : Adm S ps) :
    Obs (op (projSteps ps S)) (projSteps (ps.filterMap φ) (op S)) := by
  induction ps generalizing S with
  | nil => exact Obs.refl _
  | cons p ps ih =>
    obtain ⟨h3, h4⟩ := ha.2 p (by simp)
    have ih' := ih (projectAxis p.1 p.2 S) (hP S _ _ hS) (fun q hq => hQ q (by simp [hq])) ha.tail
    rw [projSteps_cons]
    cases hφ : φ p with
    | none =>
      rw [List.filterMap_cons_none hφ]
      exact ih'.trans (obs_projSteps _ (hnone S p hS (hQ p (by simp)) h3 h4 hφ))
    | some q =>
      rw [List.filterMap_cons_some hφ, projSteps_cons]
      exact ih'.trans (obs_projSteps _ (hsome S p q hS (hQ p (by simp)) h3 h4 hφ))

/-! ### the steps of the loop, as lists -/

theorem stepsF_nil_left (p : Nat) (ms : List Nat) : stepsF p [] ms = [] := by simp [stepsF]

theorem stepsF_nil_right (p : Nat) (ss : List Nat) : stepsF p ss [] = [] := by cases ss <;> simp [stepsF]

theorem stepsF_cons (p s m : Nat) (ss ms : List Nat) :
    stepsF p (s :: ss) (m :: ms) = if m + 1 = s then stepsF (p + 1) ss ms else (p, m) :: stepsF (p + 1) ss ms := by
  simp [stepsF]

theorem stepsF_ge (p : Nat) (ss ms : List Nat) : ∀ x ∈ stepsF p ss ms, p ≤ x.1 := by
  induction ss generalizing p ms with
  | nil => simp [stepsF_nil_left]
  | cons s ss ih =>
    cases ms with
    | nil => simp [stepsF_nil_right]
    | cons m ms =>
      intro x hx
      rw [stepsF_cons] at hx
      split at hx
      · have := ih (p + 1) ms x hx; omega
      · rcases List.mem_cons.1 hx with rfl | hx
        · exact Nat.le_refl _
        · have := ih (p + 1) ms x hx; omega

theorem stepsF_nodup (p : Nat) (ss ms : List Nat) : ((stepsF p ss ms).map Prod.fst).Nodup := by
  induction ss generalizing p ms with
  | nil => simp [stepsF_nil_left]
  | cons s ss ih =>
    cases ms with
    | nil => simp [stepsF_nil_right]
    | cons m ms =>
      rw [stepsF_cons]
      split
      · exact ih _ _
      · rw [List.map_cons, List.nodup_cons]
        refine ⟨fun hmem => ?_, ih _ _⟩
        obtain ⟨x, hx, hx1⟩ := List.mem_map.1 hmem
        have := stepsF_ge (p + 1) ss ms x hx
        simp only at hx1
        omega

/-- closed form: axis `p+i` is projected to `ms[i]` unless that is its size -/
theorem stepsF_eq_filterMap (p : Nat) (ss ms : List Nat) (hl : ss.length = ms.length) :
    stepsF p ss ms = (List.range ms.length).filterMap
      (fun i => if ms.getD i 0 + 1 = ss.getD i 0 then none else some (p + i, ms.getD i 0)) := by
  induction ss generalizing p ms with
  | nil =>
    cases ms with
    | nil => simp [stepsF_nil_left]
    | cons m ms => simp at hl
  | cons s ss ih =>
    cases ms with
    | nil => simp at hl
    | cons m ms =>
      have hl' : ss.length = ms.length := by simpa using hl
      rw [stepsF_cons, ih (p + 1) ms hl', List.length_cons, List.range_succ_eq_map, List.filterMap_cons, List.filterMap_map]
      have e : (fun i => if (m :: ms).getD i 0 + 1 = (s :: ss).getD i 0 then none else some (p + i, (m :: ms).getD i 0)) ∘ Nat.succ
          = fun i => if ms.getD i 0 + 1 = ss.getD i 0 then none else some (p + 1 + i, ms.getD i 0) := by
        funext i
        simp only [Function.comp, List.getD_cons_succ]
        congr 2
        rw [Nat.succ_eq_add_one]; congr 1; omega
      rw [e]
      simp only [List.getD_cons_zero, Nat.add_zero]
      split <;> rfl

theorem forall2_getD_rel {R : Nat → Nat → Prop} {l m : List Nat} (h : List.Forall₂ R l m) (k : Nat) (hk : k < m.length) :
    R (l.getD k 0) (m.getD k 0) := by
  induction h generalizing k with
  | nil => simp at hk
  | cons hab _ ih =>
    cases k with
    | zero => simpa
    | succ k => simp at hk; simpa using ih k hk

/-- the requested sizes are admissible for the shape (what `project` checks before it starts) -/
def AdmSizes (ms sh : List Nat) : Prop := List.Forall₂ (fun m s => m + 1 ≤ s) ms sh

theorem AdmSizes.length_eq {ms sh : List Nat} (h : AdmSizes ms sh) : ms.length = sh.length := List.Forall₂.length_eq h

theorem adm_stepsF (S : FS) (ms : List Nat) (h : AdmSizes ms S.shape) : Adm S (stepsF 0 S.shape ms) := by
  refine ⟨stepsF_nodup _ _ _, fun x hx => ?_⟩
  rw [stepsF_eq_filterMap 0 _ _ h.length_eq.symm, List.mem_filterMap] at hx
  obtain ⟨i, hi, hx⟩ := hx
  rw [List.mem_range] at hi
  split at hx
  · simp at hx
  · simp only [Option.some.injEq] at hx
    subst hx
    have hi' : i < S.shape.length := by rw [← h.length_eq]; exact hi
    simp only [Nat.zero_add]
    exact ⟨hi', forall2_getD_rel h i hi'⟩

/-! ### marginalize -/

/-- how a projection step moves when axis `q` is summed away: the step on `q` itself disappears -/
def stepErase (q : Nat) (x : Nat × Nat) : Option (Nat × Nat) := if x.1 = q then none else some (shiftAxis q x.1, x.2)

theorem stepsF_shift (q p : Nat) (hq : q ≤ p) (ss ms : List Nat) :
    (stepsF (p + 1) ss ms).filterMap (stepErase q) = stepsF p ss ms := by
  induction ss generalizing p ms with
  | nil => simp [stepsF_nil_left]
  | cons s ss ih =>
    cases ms with
    | nil => simp [stepsF_nil_right]
    | cons m ms =>
      rw [stepsF_cons, stepsF_cons]
      split
      · exact ih (p + 1) (by omega) ms
      · have e : stepErase q (p + 1, m) = some (p, m) := by
          unfold stepErase shiftAxis
          simp only
          rw [if_neg (by omega), if_pos (by omega)]; rfl
        rw [List.filterMap_cons_some e, ih (p + 1) (by omega) ms]

theorem stepsF_eraseIdx (p : Nat) (ss ms : List Nat) (k' : Nat) (hl : ss.length = ms.length) :
    (stepsF p ss ms).filterMap (stepErase (p + k')) = stepsF p (ss.eraseIdx k') (ms.eraseIdx k') := by
  induction ss generalizing p ms k' with
  | nil => simp [stepsF_nil_left]
  | cons s ss ih =>
    cases ms with
    | nil => simp [stepsF_nil_right]
    | cons m ms =>
      have hl' : ss.length = ms.length := by simpa using hl
      cases k' with
      | zero =>
        simp only [List.eraseIdx_cons_zero, Nat.add_zero]
        rw [stepsF_cons]
        split
        · exact stepsF_shift p p (Nat.le_refl _) ss ms
        · have e : stepErase p (p, m) = none := by simp [stepErase]
          rw [List.filterMap_cons_none e]
          exact stepsF_shift p p (Nat.le_refl _) ss ms
      | succ k'' =>
        simp only [List.eraseIdx_cons_succ]
        rw [stepsF_cons, stepsF_cons]
        have hih := ih (p + 1) ms k'' hl'
        rw [show p + 1 + k'' = p + (k'' + 1) by omega] at hih
        split
        · exact hih
        · have e : stepErase (p + (k'' + 1)) (p, m) = some (p, m) := by
            unfold stepErase shiftAxis
            simp only
            rw [if_neg (by omega), if_neg (by omega)]
          rw [List.filterMap_cons_some e, hih]

/-- **one summed axis against the whole projection**: summing population `k'` after projecting (any axes, `k'` included)
    = projecting the remaining populations after summing `k'` -/
theorem sumAxis_projectCore (k' : Nat) (ms : List Nat) (S : FS) (hc : Clean S) (hk' : k' < S.ndim)
    (hadm : AdmSizes ms S.shape) :
    Obs (sumAxis k' (projectCore ms S)) (projectCore (ms.eraseIdx k') (sumAxis k' S)) := by
  rw [projectCore_eq_steps, projectCore_eq_steps]
  show Obs _ (projSteps (stepsF 0 (S.shape.eraseIdx k') (ms.eraseIdx k')) (sumAxis k' S))
  have hidx := stepsF_eraseIdx 0 S.shape ms k' hadm.length_eq.symm
  rw [Nat.zero_add] at hidx
  rw [← hidx]
  refine op_projSteps (sumAxis k') (stepErase k') (fun T => Clean T ∧ k' < T.ndim) (fun _ => True)
    (fun T k m hT => ⟨clean_projectAxis k m hT.1, by
      show k' < (T.shape.set k (m + 1)).length; rw [List.length_set]; exact hT.2⟩)
    ?_ ?_ _ S ⟨hc, hk'⟩ (fun _ _ => trivial) (adm_stepsF S ms hadm)
  · intro T p q hT _ h3 _ hφ
    unfold stepErase at hφ
    split at hφ
    · simp at hφ
    · rename_i hne
      simp only [Option.some.injEq] at hφ
      subst hφ
      exact sumAxis_projectAxis_ne p.1 k' p.2 T hT.1 hne h3 hT.2
  · intro T p hT _ h3 h4 hφ
    unfold stepErase at hφ
    split at hφ
    · rename_i he
      rw [← he]
      exact sumAxis_projectAxis_same p.1 p.2 T hT.1 h3 h4
    · simp at hφ

/-- the axes in `ks` can be removed one after the other from a `d`-dimensional array -/
def ValidDrops : List Nat → Nat → Prop
  | [], _ => True
  | k :: ks, d => k < d ∧ ValidDrops ks (d - 1)

theorem validDrops_desc (ks : List Nat) (d : Nat) (hd : ks.Pairwise (· > ·)) (hv : ∀ k ∈ ks, k < d) : ValidDrops ks d := by
  induction ks generalizing d with
  | nil => trivial
  | cons k ks ih =>
    rw [List.pairwise_cons] at hd
    refine ⟨hv k (by simp), ih (d - 1) hd.2 (fun k2 hk2 => ?_)⟩
    have := hd.1 k2 hk2
    have := hv k (by simp)
    omega

theorem AdmSizes.eraseIdx {ms sh : List Nat} (h : AdmSizes ms sh) (k : Nat) : AdmSizes (ms.eraseIdx k) (sh.eraseIdx k) :=
  forall2_eraseIdx h k

/-- **(1) marginalize vs project, any number of axes on both sides** (model of the loops, clean spectrum) -/
theorem marginalizeCore_projectCore (ks ms : List Nat) (S : FS) (hc : Clean S) (hks : ValidDrops ks S.ndim)
    (hadm : AdmSizes ms S.shape) :
    Obs (marginalizeCore ks (projectCore ms S)) (projectCore (dropAxes ks ms) (marginalizeCore ks S)) := by
  induction ks generalizing ms S with
  | nil => exact Obs.refl _
  | cons k ks ih =>
    obtain ⟨hk, hks'⟩ := hks
    rw [marginalizeCore_cons, marginalizeCore_cons, dropAxes_cons]
    have h1 := obs_marginalizeCore ks (sumAxis_projectCore k ms S hc hk hadm)
    have hnd : (sumAxis k S).ndim = S.ndim - 1 := by
      show (S.shape.eraseIdx k).length = _
      rw [List.length_eraseIdx]
      have : k < S.shape.length := hk
      simp [this, FS.ndim]
    have h2 := ih (ms.eraseIdx k) (sumAxis k S) (clean_sumAxis k hk hc) (by rw [hnd]; exact hks') (hadm.eraseIdx k)
    exact h1.trans h2

/-! ### reorder_pops -/

theorem projSteps_reorder (axes : List Nat) (ts : List (Nat × Nat)) (S : FS) (hp : axes.Perm (List.range S.ndim))
    (hts : ∀ t ∈ ts, t.1 < S.ndim) :
    Obs (reorderCore axes (projSteps (ts.map fun t => (axes.getD t.1 0, t.2)) S)) (projSteps ts (reorderCore axes S)) := by
  induction ts generalizing S with
  | nil => exact Obs.refl _
  | cons t ts ih =>
    rw [List.map_cons, projSteps_cons, projSteps_cons]
    have hnd : (projectAxis (axes.getD t.1 0) t.2 S).ndim = S.ndim := by
      show (S.shape.set _ _).length = _; rw [List.length_set]; rfl
    have h1 := ih (projectAxis (axes.getD t.1 0) t.2 S) (by rw [hnd]; exact hp)
      (fun t' ht' => by rw [hnd]; exact hts t' (by simp [ht']))
    exact h1.trans (obs_projSteps ts (reorderCore_projectAxis axes t.1 t.2 S hp (hts t (by simp))))

/-- **(2) reorder_pops vs project** (any masks): the requested sizes are permuted with the populations -/
theorem reorderCore_projectCore (axes ms : List Nat) (S : FS) (hp : axes.Perm (List.range S.ndim))
    (hadm : AdmSizes ms S.shape) :
    Obs (reorderCore axes (projectCore ms S)) (projectCore (permIdx 0 axes ms) (reorderCore axes S)) := by
  have hd : axes.length = S.shape.length := by rw [hp.length_eq]; simp [FS.ndim]
  have hml : ms.length = S.shape.length := hadm.length_eq
  rw [projectCore_eq_steps, projectCore_eq_steps]
  show Obs _ (projSteps (stepsF 0 (permIdx 0 axes S.shape) (permIdx 0 axes ms)) (reorderCore axes S))
  set ts := stepsF 0 (permIdx 0 axes S.shape) (permIdx 0 axes ms) with hts
  have hlen : (permIdx 0 axes S.shape).length = (permIdx 0 axes ms).length := by simp [permIdx]
  have hts_lt : ∀ t ∈ ts, t.1 < S.ndim := by
    intro t ht
    rw [hts, stepsF_eq_filterMap 0 _ _ hlen, List.mem_filterMap] at ht
    obtain ⟨i, hi, ht⟩ := ht
    rw [List.mem_range] at hi
    split at ht
    · simp at ht
    · simp only [Option.some.injEq] at ht
      subst ht
      simp only [Nat.zero_add]
      have : (permIdx 0 axes ms).length = axes.length := by simp [permIdx]
      rw [this, hd] at hi; exact hi
  have hperm : (stepsF 0 S.shape ms).Perm (ts.map fun t => (axes.getD t.1 0, t.2)) := by
    rw [hts, stepsF_eq_filterMap 0 _ _ hlen, stepsF_eq_filterMap 0 S.shape ms hml.symm]
    have hl2 : (permIdx 0 axes ms).length = axes.length := by simp [permIdx]
    rw [hl2, List.map_filterMap]
    have e : ∀ i ∈ List.range axes.length,
        Option.map (fun t : Nat × Nat => (axes.getD t.1 0, t.2))
          (if (permIdx 0 axes ms).getD i 0 + 1 = (permIdx 0 axes S.shape).getD i 0 then none
            else some (0 + i, (permIdx 0 axes ms).getD i 0))
        = (fun a => if ms.getD a 0 + 1 = S.shape.getD a 0 then none else some (0 + a, ms.getD a 0)) (axes.getD i 0) := by
      intro i hi
      rw [List.mem_range] at hi
      rw [permIdx_getD axes i hi, permIdx_getD axes i hi]
      simp only [Nat.zero_add]
      split <;> rfl
    rw [List.filterMap_congr e]
    have e2 : (List.range axes.length).filterMap
          (fun i => (fun a => if ms.getD a 0 + 1 = S.shape.getD a 0 then none else some (0 + a, ms.getD a 0)) (axes.getD i 0))
        = axes.filterMap (fun a => if ms.getD a 0 + 1 = S.shape.getD a 0 then none else some (0 + a, ms.getD a 0)) := by
      conv_rhs => rw [← map_getD_range axes]
      rw [List.filterMap_map]; rfl
    rw [e2, hml, ← hd]
    have hp' : (List.range axes.length).Perm axes := by rw [hd]; exact hp.symm
    exact hp'.filterMap _
  rw [projSteps_perm hperm (stepsF_nodup _ _ _)]
  exact projSteps_reorder axes ts S hp hts_lt

end DadiVerif.PopOps
