import DadiVerif.Model.AdmixFloat
import Mathlib.Algebra.Order.Field.Rat
import Mathlib.Tactic.Ring
import Mathlib.Tactic.Linarith
import Mathlib.Tactic.NormNum
import Mathlib.Algebra.Order.BigOperators.Group.List
import Mathlib.Algebra.Order.AbsoluteValue.Basic
/-!
C06, round 4 — the float proportion guard accepts the closed simplex.

What is assumed about round-off is exactly the structure `RoundNearest rnd e` below (for IEEE-754 binary64 with
round-to-nearest-even: `e = 2⁻⁵⁴`, half a unit in the last place of numbers in [1/2, 1)).  Under it the left-to-right
`sum` of at most four representable non-negative numbers whose EXACT sum is ≤ 1 is ≤ 1 in floating point, with no
slack: the spacing of floats above 1 is twice the spacing below 1, so the accumulated error of at most `2e` is absorbed
by the last rounding.
-/
namespace DadiVerif.Admix

/-- the properties of "round to nearest, ties to even" that the acceptance theorem uses -/
structure RoundNearest (rnd : ℚ → ℚ) (e : ℚ) : Prop where
  /-- rounding is monotone -/
  mono : ∀ x y, x ≤ y → rnd x ≤ rnd y
  /-- 0 and 1 are representable -/
  zero : rnd 0 = 0
  one : rnd 1 = 1
  /-- on [0,1] the rounding error is at most `e` (half an ulp of [1/2,1)) -/
  err : ∀ x, 0 ≤ x → x ≤ 1 → rnd x ≤ x + e
  /-- the midpoint `1 + 2e` between 1 and the next float is rounded to 1 (1 has an even significand), and so is
      everything below it -/
  tie : ∀ x, x ≤ 1 + 2 * e → rnd x ≤ 1
  e_nonneg : 0 ≤ e

/-- the `sum` algorithm never pushes a simplex vector above 1 -/
def FloatSumOk (rnd : ℚ → ℚ) (fsum : List ℚ → ℚ) : Prop :=
  ∀ l : List ℚ, l.length ≤ 4 → (∀ x ∈ l, 0 ≤ x ∧ rnd x = x) → l.sum ≤ 1 → fsum l ≤ 1

theorem RoundNearest.nonneg {rnd : ℚ → ℚ} {e : ℚ} (h : RoundNearest rnd e) (x : ℚ) (hx : 0 ≤ x) : 0 ≤ rnd x := by
  have := h.mono 0 x hx; rwa [h.zero] at this

theorem RoundNearest.le_one {rnd : ℚ → ℚ} {e : ℚ} (h : RoundNearest rnd e) (x : ℚ) (hx : x ≤ 1) : rnd x ≤ 1 := by
  have := h.mono x 1 hx; rwa [h.one] at this

/-- left-to-right float `sum` of ≤ 4 representable proportions in the closed simplex is ≤ 1 -/
theorem seqSum_ok (rnd : ℚ → ℚ) (e : ℚ) (h : RoundNearest rnd e) : FloatSumOk rnd (seqSum rnd) := by
  intro l hl hx hs
  have he := h.e_nonneg
  match l, hl with
  | [], _ => simp [seqSum]
  | [a], _ =>
    have ha := hx a (by simp)
    simp only [List.sum_cons, List.sum_nil, add_zero] at hs
    simp only [seqSum, List.foldl_cons, List.foldl_nil, zero_add]
    exact h.le_one a hs
  | [a, b], _ =>
    have ha := hx a (by simp)
    simp only [List.sum_cons, List.sum_nil, add_zero] at hs
    simp only [seqSum, List.foldl_cons, List.foldl_nil, zero_add, ha.2]
    exact h.le_one _ hs
  | [a, b, c], _ =>
    have ha := hx a (by simp)
    have hb := hx b (by simp)
    have hc := hx c (by simp)
    simp only [List.sum_cons, List.sum_nil, add_zero] at hs
    simp only [seqSum, List.foldl_cons, List.foldl_nil, zero_add, ha.2]
    have h2 := h.err (a + b) (by linarith [ha.1, hb.1]) (by linarith [hc.1])
    exact h.tie _ (by linarith)
  | [a, b, c, d], _ =>
    have ha := hx a (by simp)
    have hb := hx b (by simp)
    have hc := hx c (by simp)
    have hd := hx d (by simp)
    simp only [List.sum_cons, List.sum_nil, add_zero] at hs
    simp only [seqSum, List.foldl_cons, List.foldl_nil, zero_add, ha.2]
    have h2 := h.err (a + b) (by linarith [ha.1, hb.1]) (by linarith [hc.1, hd.1])
    have h2n := h.nonneg (a + b) (by linarith [ha.1, hb.1])
    by_cases hcase : rnd (a + b) + c ≤ 1
    · have h3 := h.err (rnd (a + b) + c) (by linarith [hc.1]) hcase
      exact h.tie _ (by linarith)
    · have h3 := h.tie (rnd (a + b) + c) (by linarith [hd.1])
      exact h.tie _ (by linarith [not_le.1 hcase])

theorem seqSum_id_eq_sum (l : List ℚ) : seqSum id l = l.sum := by
  unfold seqSum
  have : ∀ (s : ℚ) (l : List ℚ), l.foldl (fun s x => id (s + x)) s = s + l.sum := by
    intro s l
    induction l generalizing s with
    | nil => simp
    | cons x xs ih => simp only [List.foldl_cons, List.sum_cons, id]; rw [← add_assoc]; exact ih (s + x)
  rw [this 0 l, zero_add]

/-! ### CPython ≥ 3.12: Neumaier's compensated `sum` -/

/-- what is assumed IN ADDITION for the compensated sum: rounding is idempotent, the error on [0,1] is two-sided, the
    relative error of one operation is at most `u ≤ 1/8` (binary64: 2⁻⁵³), and Dekker's Fast2Sum is exact: for
    representable `a`, `b` with `|b| ≤ |a|` the float expression `(a - (a ⊕ b)) ⊕ b` is the rounding error of `a ⊕ b`
    (true in radix 2 with round-to-nearest, barring overflow) -/
structure RoundEFT (rnd : ℚ → ℚ) (e u : ℚ) : Prop extends RoundNearest rnd e where
  idem : ∀ x, rnd (rnd x) = rnd x
  err_lo : ∀ x, 0 ≤ x → x ≤ 1 → x - e ≤ rnd x
  rel : ∀ x, |rnd x - x| ≤ u * |x|
  u_nonneg : 0 ≤ u
  u_small : u ≤ 1 / 8
  fast2sum : ∀ a b, rnd a = a → rnd b = b → absR b ≤ absR a → rnd (rnd (a - rnd (a + b)) + b) = a + b - rnd (a + b)

theorem absR_total (a b : ℚ) : absR a ≤ absR b ∨ absR b ≤ absR a := le_total _ _

/-- the running sum of Neumaier's algorithm is the plain left-to-right sum -/
theorem neumaier_fst (rnd : ℚ → ℚ) : ∀ (l : List ℚ) (st : ℚ × ℚ),
    (l.foldl (neumaierStep rnd) st).1 = l.foldl (fun s x => rnd (s + x)) st.1 := by
  intro l
  induction l with
  | nil => intro st; rfl
  | cons x xs ih => intro st; simp only [List.foldl_cons]; rw [ih]; rfl

/-- one step on a representable state `t ∈ [0,1]`, representable `x ≥ 0`, `t + x ≤ 1 + 2e`: the new running sum is
    representable and in [0,1], the compensation receives the exact rounding error `t + x - rnd (t + x)`, which is
    representable, at least `-e` and at most `2e` -/
theorem neumaier_step (rnd : ℚ → ℚ) (e u : ℚ) (h : RoundEFT rnd e u) (t c x : ℚ) (ht : rnd t = t) (hx : rnd x = x)
    (ht0 : 0 ≤ t) (ht1 : t ≤ 1) (hx0 : 0 ≤ x) (hs : t + x ≤ 1 + 2 * e) :
    neumaierStep rnd (t, c) x = (rnd (t + x), rnd (c + (t + x - rnd (t + x)))) ∧
    rnd (rnd (t + x)) = rnd (t + x) ∧ 0 ≤ rnd (t + x) ∧ rnd (t + x) ≤ 1 ∧
    rnd (t + x - rnd (t + x)) = t + x - rnd (t + x) ∧ -e ≤ t + x - rnd (t + x) ∧ t + x - rnd (t + x) ≤ 2 * e := by
  have he := h.e_nonneg
  have hterm : (if absR x ≤ absR t then rnd (rnd (t - rnd (t + x)) + x) else rnd (rnd (x - rnd (t + x)) + t))
      = t + x - rnd (t + x) := by
    split
    · rename_i hle; exact h.fast2sum t x ht hx hle
    · rename_i hle
      have hle' : absR t ≤ absR x := (absR_total x t).resolve_left hle
      have := h.fast2sum x t hx ht hle'
      rw [add_comm x t] at this; exact this
  have hrep : rnd (t + x - rnd (t + x)) = t + x - rnd (t + x) := by
    rw [← hterm]; split <;> exact h.idem _
  refine ⟨?_, h.idem _, h.toRoundNearest.nonneg _ (by linarith), h.tie _ hs, hrep, ?_, ?_⟩
  · unfold neumaierStep
    simp only [hterm]
  · by_cases hc : t + x ≤ 1
    · have := h.err (t + x) (by linarith) hc; linarith
    · have := h.tie (t + x) hs; linarith [not_le.1 hc]
  · by_cases hc : t + x ≤ 1
    · have := h.err_lo (t + x) (by linarith) hc; linarith
    · have h1 : (1 : ℚ) ≤ rnd (t + x) := by
        have := h.mono 1 (t + x) (le_of_lt (not_le.1 hc)); rwa [h.one] at this
      linarith

theorem rel_bound {rnd : ℚ → ℚ} {e u : ℚ} (h : RoundEFT rnd e u) (x B : ℚ) (hB : |x| ≤ B) :
    rnd x - x ≤ u * B ∧ x - rnd x ≤ u * B := by
  have h1 := h.rel x
  have h2 : u * |x| ≤ u * B := mul_le_mul_of_nonneg_left hB h.u_nonneg
  have := abs_le.1 (le_trans h1 h2)
  constructor <;> linarith [this.1, this.2]

/-- four representable proportions of the closed simplex: Neumaier's `sum` is ≤ 1 -/
theorem neumaierSum_ok4 (rnd : ℚ → ℚ) (e u : ℚ) (h : RoundEFT rnd e u) (a b c d : ℚ)
    (ha : 0 ≤ a ∧ rnd a = a) (hb : 0 ≤ b ∧ rnd b = b) (hc : 0 ≤ c ∧ rnd c = c) (hd : 0 ≤ d ∧ rnd d = d)
    (hs : a + b + c + d ≤ 1) : neumaierSum rnd [a, b, c, d] ≤ 1 := by
  have he := h.e_nonneg
  have hu0 := h.u_nonneg
  have hu1 := h.u_small
  -- first item: exact
  have s1 : neumaierStep rnd (0, 0) a = (a, 0) := by
    obtain ⟨hst, -⟩ := neumaier_step rnd e u h 0 0 a h.zero ha.2 (le_refl _) (by norm_num) ha.1 (by linarith)
    rw [hst]; simp only [zero_add, ha.2, sub_self, h.zero]
  -- second item
  obtain ⟨s2, r2, n2, l2, q2, lo2, hi2⟩ := neumaier_step rnd e u h a 0 b ha.2 hb.2 ha.1 (by linarith) hb.1 (by linarith)
  set t2 := rnd (a + b) with ht2
  set e2 := a + b - t2 with he2
  have c2 : rnd (0 + e2) = e2 := by rw [zero_add]; exact q2
  -- third item
  obtain ⟨s3, r3, n3, l3, q3, lo3, hi3⟩ := neumaier_step rnd e u h t2 e2 c r2 hc.2 n2 l2 hc.1 (by linarith)
  set t3 := rnd (t2 + c) with ht3
  set e3 := t2 + c - t3 with he3
  set c3 := rnd (e2 + e3) with hc3
  have rc3 : rnd c3 = c3 := h.idem _
  -- fourth item
  obtain ⟨s4, r4, n4, l4, q4, lo4, hi4⟩ := neumaier_step rnd e u h t3 c3 d r3 hd.2 n3 l3 hd.1 (by linarith)
  set t4 := rnd (t3 + d) with ht4
  set e4 := t3 + d - t4 with he4
  set c4 := rnd (c3 + e4) with hc4
  have hfold : List.foldl (neumaierStep rnd) (0, 0) [a, b, c, d] = (t4, c4) := by
    simp only [List.foldl_cons, List.foldl_nil, s1, s2, c2, s3, s4]
  unfold neumaierSum
  simp only [hfold]
  split
  · exact l4
  · -- t4 + c4 = (a+b+c+d) + (c4 - (e2+e3+e4)) with |c4 - (e2+e3+e4)| ≤ 2e
    have b23 : |e2 + e3| ≤ 4 * e := abs_le.2 ⟨by linarith, by linarith⟩
    obtain ⟨p3, m3⟩ := rel_bound h (e2 + e3) (4 * e) b23
    have k1 : u * (4 * e) ≤ e / 2 := by nlinarith
    have b34 : |c3 + e4| ≤ 7 * e := abs_le.2 ⟨by linarith, by linarith⟩
    obtain ⟨p4, m4⟩ := rel_bound h (c3 + e4) (7 * e) b34
    have k2 : u * (7 * e) ≤ e := by nlinarith
    apply h.tie
    have : t4 + c4 = (a + b + c + d) + (c4 - (c3 + e4)) + (c3 - (e2 + e3)) := by
      simp only [he2, he3, he4]; ring
    rw [this]
    linarith

theorem neumaierStep_zero (rnd : ℚ → ℚ) (e u : ℚ) (h : RoundEFT rnd e u) (st : ℚ × ℚ) (h1 : rnd st.1 = st.1)
    (h2 : rnd st.2 = st.2) : neumaierStep rnd st 0 = st := by
  unfold neumaierStep
  have ha : absR (0 : ℚ) ≤ absR st.1 := by
    have z : absR (0 : ℚ) = 0 := by simp [absR]
    rw [z]; unfold absR; split
    · linarith
    · linarith [not_lt.1 ‹¬ st.1 < 0›]
  simp only [add_zero, h1, sub_self, h.zero, if_pos ha, h2]

theorem neumaier_state_rep (rnd : ℚ → ℚ) (e u : ℚ) (h : RoundEFT rnd e u) : ∀ (l : List ℚ) (st : ℚ × ℚ),
    rnd st.1 = st.1 → rnd st.2 = st.2 →
    rnd (l.foldl (neumaierStep rnd) st).1 = (l.foldl (neumaierStep rnd) st).1 ∧
    rnd (l.foldl (neumaierStep rnd) st).2 = (l.foldl (neumaierStep rnd) st).2 := by
  intro l
  induction l with
  | nil => intro st h1 h2; exact ⟨h1, h2⟩
  | cons x xs ih =>
    intro st _ _
    simp only [List.foldl_cons]
    exact ih _ (h.idem _) (h.idem _)

/-- appending a zero does not change Neumaier's sum -/
theorem neumaierSum_append_zero (rnd : ℚ → ℚ) (e u : ℚ) (h : RoundEFT rnd e u) (l : List ℚ) :
    neumaierSum rnd (l ++ [0]) = neumaierSum rnd l := by
  unfold neumaierSum
  obtain ⟨h1, h2⟩ := neumaier_state_rep rnd e u h l (0, 0) h.zero h.zero
  simp only [List.foldl_append, List.foldl_cons, List.foldl_nil, neumaierStep_zero rnd e u h _ h1 h2]

/-- CPython 3.12's float `sum` of ≤ 4 representable proportions in the closed simplex is ≤ 1 -/
theorem neumaierSum_ok (rnd : ℚ → ℚ) (e u : ℚ) (h : RoundEFT rnd e u) : FloatSumOk rnd (neumaierSum rnd) := by
  intro l hl hx hs
  have z : (0 : ℚ) ≤ 0 ∧ rnd 0 = 0 := ⟨le_refl _, h.zero⟩
  have pad := neumaierSum_append_zero rnd e u h
  match l, hl with
  | [], _ => simp [neumaierSum]
  | [a], _ =>
    simp only [List.sum_cons, List.sum_nil, add_zero] at hs
    have := neumaierSum_ok4 rnd e u h a 0 0 0 (hx a (by simp)) z z z (by linarith)
    rwa [show [a, 0, 0, 0] = ([a] ++ [0] ++ [0]) ++ [0] from rfl, pad, pad, pad] at this
  | [a, b], _ =>
    simp only [List.sum_cons, List.sum_nil, add_zero] at hs
    have := neumaierSum_ok4 rnd e u h a b 0 0 (hx a (by simp)) (hx b (by simp)) z z (by linarith)
    rwa [show [a, b, 0, 0] = ([a, b] ++ [0]) ++ [0] from rfl, pad, pad] at this
  | [a, b, c], _ =>
    simp only [List.sum_cons, List.sum_nil, add_zero] at hs
    have := neumaierSum_ok4 rnd e u h a b c 0 (hx a (by simp)) (hx b (by simp)) (hx c (by simp)) z (by linarith)
    rwa [show [a, b, c, 0] = [a, b, c] ++ [0] from rfl, pad] at this
  | [a, b, c, d], _ =>
    simp only [List.sum_cons, List.sum_nil, add_zero] at hs
    exact neumaierSum_ok4 rnd e u h a b c d (hx a (by simp)) (hx b (by simp)) (hx c (by simp)) (hx d (by simp)) (by linarith)

/-! ### the other direction: how far above 1 a sum must be for the float guard to fire -/

/-- left-to-right float sum of non-negative numbers is at least `(1-u)^n` times the exact sum -/
theorem seqSum_lower (rnd : ℚ → ℚ) (u : ℚ) (hu0 : 0 ≤ u) (hu1 : u ≤ 1) (hrel : ∀ x, |rnd x - x| ≤ u * |x|) :
    ∀ (l : List ℚ) (s : ℚ), 0 ≤ s → (∀ x ∈ l, 0 ≤ x) →
      (1 - u) ^ l.length * (s + l.sum) ≤ l.foldl (fun s x => rnd (s + x)) s := by
  have hstep : ∀ y, 0 ≤ y → (1 - u) * y ≤ rnd y := by
    intro y hy
    have := (abs_le.1 (hrel y)).1
    rw [abs_of_nonneg hy] at this
    linarith
  intro l
  induction l with
  | nil => intro s _ _; simp
  | cons x xs ih =>
    intro s hs hx
    have hx0 : 0 ≤ x := hx x (by simp)
    have hxs : ∀ y ∈ xs, 0 ≤ y := fun y hy => hx y (by simp [hy])
    have hsum : 0 ≤ xs.sum := List.sum_nonneg hxs
    have h1 := hstep (s + x) (by linarith)
    have hr : 0 ≤ rnd (s + x) := le_trans (mul_nonneg (by linarith) (by linarith)) h1
    have h2 := ih (rnd (s + x)) hr hxs
    simp only [List.foldl_cons, List.length_cons, List.sum_cons]
    refine le_trans ?_ h2
    have hp : 0 ≤ (1 - u) ^ xs.length := pow_nonneg (by linarith) _
    rw [pow_succ, mul_assoc]
    apply mul_le_mul_of_nonneg_left _ hp
    have : (1 - u) * xs.sum ≤ xs.sum := by nlinarith
    nlinarith

theorem seqSum_reject (rnd : ℚ → ℚ) (u : ℚ) (hu0 : 0 ≤ u) (hu1 : u ≤ 1) (hrel : ∀ x, |rnd x - x| ≤ u * |x|)
    (l : List ℚ) (hx : ∀ x ∈ l, 0 ≤ x) (hs : 1 < (1 - u) ^ l.length * l.sum) : 1 < seqSum rnd l := by
  have := seqSum_lower rnd u hu0 hu1 hrel l 0 (le_refl _) hx
  rw [zero_add] at this
  exact lt_of_lt_of_le hs this

end DadiVerif.Admix
