import DadiVerif.Lemmas.LowPassAxis
import DadiVerif.Lemmas.LowPassInb
import Mathlib.Topology.Instances.Rat
import Mathlib.Topology.Algebra.Order.Field
import Mathlib.Topology.Algebra.Monoid
import Mathlib.Topology.Order.Basic
/-! C18 helper lemmas, part 12: continuity at F = 0⁺ of everything the model computes through the genotype-partition
    probabilities — the ε–δ statement (`Filter.Tendsto` at `𝓝[>] 0` in the topology of ℚ) about the functions the driver
    runs: the code's F > 0 branch (`part_inbreeding_probability`) tends to the code's F = 0 branch. -/
namespace DadiVerif.LowPass
open Finset Filter Topology

/-! ### continuity of list sums -/

theorem continuous_lsum_map {α : Type} (l : List α) (f : α → ℚ → ℚ) (hf : ∀ a ∈ l, Continuous (f a)) :
    Continuous fun F => lsum (l.map fun a => f a F) := by
  induction l with
  | nil => simpa using continuous_const
  | cons a l ih =>
    simp only [List.map_cons, lsum_cons]
    exact (hf a List.mem_cons_self).add (ih (fun b hb => hf b (List.mem_cons_of_mem _ hb)))

theorem tendsto_lsum_map {α : Type} (l : List α) (f : α → ℚ → ℚ) (lim : α → ℚ) (𝓕 : Filter ℚ)
    (hf : ∀ a ∈ l, Tendsto (f a) 𝓕 (𝓝 (lim a))) :
    Tendsto (fun F => lsum (l.map fun a => f a F)) 𝓕 (𝓝 (lsum (l.map lim))) := by
  induction l with
  | nil => simpa using tendsto_const_nhds
  | cons a l ih =>
    simp only [List.map_cons, lsum_cons]
    exact (hf a List.mem_cons_self).add (ih (fun b hb => hf b (List.mem_cons_of_mem _ hb)))

/-! ### the partition probabilities -/

/-- the probability the code assigns to configuration `g` among the configurations of allele count `x` -/
def partProb (x n : ℕ) (F : ℚ) (g : List ℕ) : ℚ := partWeight F g / lsum ((part x n 0 2).map (partWeight F))

theorem pw_eq_map (x n : ℕ) (F : ℚ) : pw x n F = (part x n 0 2).map fun g => (g, partProb x n F g) := rfl

theorem continuous_polyWeight (g : List ℕ) : Continuous (polyWeight g) := by
  unfold polyWeight g00 g01 g11
  fun_prop

theorem Ioo_mem_nhdsGT_zero : Set.Ioo (0 : ℚ) 1 ∈ 𝓝[>] (0 : ℚ) := Ioo_mem_nhdsGT (by norm_num)

/-- **F → 0⁺, polymorphic allele counts**: the inbreeding branch's probability of every configuration tends to the F = 0
    branch's probability -/
theorem partProb_tendsto_poly (x n : ℕ) (hx0 : 0 < x) (hx1 : x < 2 * n) (g : List ℕ) (hg : g ∈ part x n 0 2) :
    Tendsto (fun F => partProb x n F g) (𝓝[>] 0) (𝓝 (partProb x n 0 g)) := by
  -- on (0, 1) the code's weights are the polynomials `polyWeight`
  have hev : (fun F => polyWeight g F / lsum ((part x n 0 2).map fun g' => polyWeight g' F))
      =ᶠ[𝓝[>] (0 : ℚ)] fun F => partProb x n F g := by
    filter_upwards [Ioo_mem_nhdsGT_zero] with F hF
    have hw : ∀ g' ∈ part x n 0 2, partWeight F g' = polyWeight g' F := by
      intro g' hg'
      obtain ⟨hl, hs, _, _, _⟩ := part_facts hg'
      have hguard : g'.sum ≠ 0 ∧ g'.sum ≠ 2 * g'.length := by rw [hs, hl]; omega
      simp only [partWeight, hF.1.ne', if_false]
      exact inbWeightOf_poly g' hguard F hF.1 hF.2
    unfold partProb
    rw [hw g hg, lsum_map_congr _ _ _ hw]
  refine Tendsto.congr' hev ?_
  -- the polynomial ratio is continuous at 0 and its value there is the F = 0 branch
  have hval : partProb x n 0 g = polyWeight g 0 / lsum ((part x n 0 2).map fun g' => polyWeight g' 0) :=
    (poly_limit_eq x n hx0 hx1 g hg).symm
  rw [hval]
  have hden : lsum ((part x n 0 2).map fun g' => polyWeight g' 0) ≠ 0 := by
    intro h0
    have hp := poly_limit_eq x n hx0 hx1 g hg
    rw [h0, div_zero] at hp
    have h1 := pw_total_pos x n (by omega) 0 (le_refl _) (by norm_num)
    have h2 := partWeight_pos g (part_facts hg).2.2.1 0 (le_refl _) (by norm_num)
    have : 0 < partWeight 0 g / lsum ((part x n 0 2).map (partWeight 0)) := div_pos h2 h1
    linarith
  have hc : ContinuousAt (fun F => polyWeight g F / lsum ((part x n 0 2).map fun g' => polyWeight g' F)) 0 :=
    ContinuousAt.div (continuous_polyWeight g).continuousAt
      (continuous_lsum_map _ (fun g' F => polyWeight g' F) (fun g' _ => continuous_polyWeight g')).continuousAt hden
  exact tendsto_nhdsWithin_of_tendsto_nhds hc.tendsto

/-- a monomorphic allele count has a single configuration -/
theorem part_singleton_of_all_eq (x n : ℕ) (g0 : List ℕ) (h0 : g0 ∈ part x n 0 2)
    (hall : ∀ l ∈ part x n 0 2, l = g0) : part x n 0 2 = [g0] := by
  have hnd := part_nodup n x 0 2
  have hrep : part x n 0 2 = List.replicate (part x n 0 2).length g0 := List.eq_replicate_iff.mpr ⟨rfl, hall⟩
  rw [hrep] at hnd h0 ⊢
  rw [List.nodup_replicate] at hnd
  have hlen : 0 < (part x n 0 2).length := by
    rcases Nat.eq_zero_or_pos (part x n 0 2).length with h | h
    · rw [h] at h0; simp at h0
    · exact h
  have : (part x n 0 2).length = 1 := by omega
  rw [this]; rfl

theorem all_two_of_sum (t : List ℕ) (hb : ∀ v ∈ t, v ≤ 2) (hn : t.sum = 2 * t.length) : ∀ v ∈ t, v = 2 := by
  induction t with
  | nil => intro v hv; simp at hv
  | cons a t ih =>
    have ha := hb a List.mem_cons_self
    have hb' : ∀ v ∈ t, v ≤ 2 := fun v hv => hb v (List.mem_cons_of_mem _ hv)
    have hle := sum_le_two_mul t hb'
    simp only [List.sum_cons, List.length_cons] at hn
    intro v hv
    rcases List.mem_cons.mp hv with rfl | hv'
    · omega
    · exact ih hb' (by omega) v hv'

theorem part_mono_singleton (x n : ℕ) (hx : x = 0 ∨ x = 2 * n) : ∃ g0, part x n 0 2 = [g0] := by
  obtain ⟨g0, hg0⟩ := List.exists_mem_of_ne_nil _ (part_ne_nil x n (by omega))
  refine ⟨g0, part_singleton_of_all_eq x n g0 hg0 ?_⟩
  intro l hl
  obtain ⟨hl1, hs1, hb1, hp1⟩ := (mem_part n x 0 2 l).mp hl
  obtain ⟨hl2, hs2, hb2, hp2⟩ := (mem_part n x 0 2 g0).mp hg0
  -- all entries are 0 (x = 0) or all are 2 (x = 2n)
  have key : ∀ (t : List ℕ), t.length = n → t.sum = x → (∀ v ∈ t, 0 ≤ v ∧ v ≤ 2) → ∀ v ∈ t, v = (if x = 0 then 0 else 2) := by
    intro t
    rcases hx with h | h
    · intro _ hs _ v hv
      have : v ≤ t.sum := List.single_le_sum (fun _ _ => Nat.zero_le _) v hv
      simp [h]; omega
    · intro hlt hs hb v hv
      have hn : t.sum = 2 * t.length := by omega
      have hpos : 0 < t.length := List.length_pos_of_mem hv
      have hx0 : x ≠ 0 := by omega
      simp only [hx0, if_false]
      exact all_two_of_sum t (fun w hw => (hb w hw).2) hn v hv
  have e1 : l = List.replicate n (if x = 0 then 0 else 2) := by
    rw [← hl1]; exact List.eq_replicate_iff.mpr ⟨rfl, key l hl1 hs1 hb1⟩
  have e2 : g0 = List.replicate n (if x = 0 then 0 else 2) := by
    rw [← hl2]; exact List.eq_replicate_iff.mpr ⟨rfl, key g0 hl2 hs2 hb2⟩
  rw [e1, e2]

/-- for a monomorphic allele count the single configuration has probability one, for every 0 ≤ F < 1 -/
theorem partProb_mono (x n : ℕ) (hx : x = 0 ∨ x = 2 * n) (F : ℚ) (hF0 : 0 ≤ F) (hF1 : F < 1) (g : List ℕ)
    (hg : g ∈ part x n 0 2) : partProb x n F g = 1 := by
  obtain ⟨g0, h0⟩ := part_mono_singleton x n hx
  have hgg : g = g0 := by rw [h0] at hg; simpa using hg
  have hpos := partWeight_pos g (part_facts hg).2.2.1 F hF0 hF1
  unfold partProb
  rw [h0, hgg] at *
  simp only [List.map_cons, List.map_nil, lsum_cons, lsum_nil, add_zero]
  exact div_self hpos.ne'

/-- **F → 0⁺, every allele count** 0 ≤ x ≤ 2n -/
theorem partProb_tendsto (x n : ℕ) (hx : x ≤ 2 * n) (g : List ℕ) (hg : g ∈ part x n 0 2) :
    Tendsto (fun F => partProb x n F g) (𝓝[>] 0) (𝓝 (partProb x n 0 g)) := by
  by_cases hmono : x = 0 ∨ x = 2 * n
  · rw [partProb_mono x n hmono 0 (le_refl _) (by norm_num) g hg]
    have hev : (fun _ : ℚ => (1 : ℚ)) =ᶠ[𝓝[>] (0 : ℚ)] fun F => partProb x n F g := by
      filter_upwards [Ioo_mem_nhdsGT_zero] with F hF
      exact (partProb_mono x n hmono F hF.1.le hF.2 g hg).symm
    exact Tendsto.congr' hev tendsto_const_nhds
  · exact partProb_tendsto_poly x n (by omega) (by omega) g hg

/-- every mixture over the genotype partitions with F-independent components is continuous at F = 0⁺ -/
theorem pw_mixture_tendsto (x n : ℕ) (hx : x ≤ 2 * n) (f : List ℕ → ℚ → ℚ) (hf : ∀ g, Continuous (f g)) :
    Tendsto (fun F => lsum ((pw x n F).map fun gp => f gp.1 gp.2)) (𝓝[>] 0)
      (𝓝 (lsum ((pw x n 0).map fun gp => f gp.1 gp.2))) := by
  simp only [pw_eq_map, List.map_map, Function.comp_def]
  exact tendsto_lsum_map (part x n 0 2) (fun g F => f g (partProb x n F g)) (fun g => f g (partProb x n 0 g)) _
    (fun g hg => ((hf g).tendsto _).comp (partProb_tendsto x n hx g hg))

/-! ### the matrices and the no-call probability -/

theorem callPart_linear (e : ℚ) (af t : ℕ) (g : List ℕ) (pr : ℚ) : callPart e af t g pr = pr * callPart e af t g 1 := by
  rw [callPart_eq, callPart_eq, Finset.mul_sum]
  refine Finset.sum_congr rfl (fun ne _ => ?_)
  rw [Finset.mul_sum]
  refine Finset.sum_congr rfl (fun nr _ => ?_)
  split_ifs <;> ring

/-- `calling_error_matrix(…, Fx)` is continuous at Fx = 0⁺ (its Fx = 0 value is the same mixture) -/
theorem callEntryE_tendsto (e : ℚ) (m : ℕ) (af t : ℕ) (haf : af ≤ 2 * m) :
    Tendsto (fun F => callEntryE e (2 * m) F af t) (𝓝[>] 0) (𝓝 (callEntryE e (2 * m) 0 af t)) := by
  simp only [callEntryE, half_two_mul]
  refine pw_mixture_tendsto af m haf (fun g pr => callPart e af t g pr) (fun g => ?_)
  have : (fun pr => callPart e af t g pr) = fun pr => pr * callPart e af t g 1 := funext (callPart_linear e af t g)
  rw [this]; fun_prop

/-- `probability_of_no_call_1D_GATK_multisample(…, Fx)` is continuous at Fx = 0⁺ -/
theorem nocall_tendsto (c : List ℚ) (N : ℕ) (af : ℕ) (haf : af ≤ 2 * N) :
    Tendsto (fun F => nocall c (2 * N) F af) (𝓝[>] 0) (𝓝 (nocall c (2 * N) 0 af)) := by
  simp only [nocall, half_two_mul]
  refine pw_mixture_tendsto af N haf (fun g pr => nocallPart c af g pr) (fun g => ?_)
  have : (fun pr => nocallPart c af g pr) = fun pr => pr *
      (covAt c 0 ^ g.count 2 * covA c ^ g.count 1
        + (g.count 2 : ℚ) * covAt c 1 * covAt c 0 ^ (g.count 2 - 1) * covA c ^ g.count 1
        + covAt c 0 ^ g.count 2 * ((g.count 1 : ℚ) * covB c * covA c ^ (g.count 1 - 1))) :=
    funext (nocallPart_eq c af g)
  rw [this]; fun_prop

/-- the row the driver evaluates is the list of the entries of `projMix0` -/
theorem projMixRow0_eq (nseq nsub af : ℕ) :
    projMixRow0 nseq nsub af = (List.range (nsub + 1)).map (projMix0 nseq nsub af) := by
  simp [projMixRow0, projMix0, List.map_map, Function.comp_def, projInb]

/-- the F > 0 branch of `projection_matrix` has a limit at F = 0⁺: the Hardy–Weinberg mixture of the
    individual-subsampling rows -/
theorem projEntry_tendsto (N nsub : ℕ) (af j : ℕ) (haf : af ≤ 2 * N) :
    Tendsto (fun F => projEntry (2 * N) nsub F af j) (𝓝[>] 0) (𝓝 (projMix0 (2 * N) nsub af j)) := by
  have hev : (fun F => lsum ((pw af N F).map fun gp => Gen.LowPass.projAccum (projInb gp.1 nsub j) gp.2))
      =ᶠ[𝓝[>] (0 : ℚ)] fun F => projEntry (2 * N) nsub F af j := by
    filter_upwards [self_mem_nhdsWithin] with F hF
    have hF' : F ≠ 0 := ne_of_gt hF
    simp [projEntry, hF']
  refine Tendsto.congr' hev ?_
  simp only [projMix0, half_two_mul]
  refine pw_mixture_tendsto af N haf (fun g pr => Gen.LowPass.projAccum (projInb g nsub j) pr) (fun g => ?_)
  unfold Gen.LowPass.projAccum
  fun_prop

/-- the single-individual genotype probabilities are Lipschitz in F at 0 with constants 1/4, 1/2, 1/4 -/
theorem inbP_lipschitz (p F : ℚ) (hp0 : 0 ≤ p) (hp1 : p ≤ 1) (hF0 : 0 < F) (hF1 : F < 1) :
    |Gen.LowPass.inbP00 p F - (1 - p) ^ 2| ≤ F / 4 ∧ |Gen.LowPass.inbP01 p F - 2 * p * (1 - p)| ≤ F / 2 ∧
    |Gen.LowPass.inbP11 p F - p ^ 2| ≤ F / 4 := by
  obtain ⟨e0, e1, e2⟩ := inbP_closed p F hF0.ne' hF1.ne
  have hq : p * (1 - p) ≤ 1 / 4 := by nlinarith [sq_nonneg (p - 1 / 2)]
  have hq0 : 0 ≤ p * (1 - p) := mul_nonneg hp0 (by linarith)
  rw [e0, e1, e2]
  unfold g00 g01 g11
  refine ⟨?_, ?_, ?_⟩
  · have : (1 - p) ^ 2 + F * p * (1 - p) - (1 - p) ^ 2 = F * (p * (1 - p)) := by ring
    rw [this, abs_of_nonneg (mul_nonneg hF0.le hq0)]; nlinarith
  · have : 2 * p * (1 - p) * (1 - F) - 2 * p * (1 - p) = -(F * (2 * (p * (1 - p)))) := by ring
    rw [this, abs_neg, abs_of_nonneg (by positivity)]; nlinarith
  · have : p ^ 2 + F * p * (1 - p) - p ^ 2 = F * (p * (1 - p)) := by ring
    rw [this, abs_of_nonneg (mul_nonneg hF0.le hq0)]; nlinarith

end DadiVerif.LowPass
