import DadiVerif.Lemmas.LowPassDeepPops
/-! C18 helper lemmas, part 19: the **entry-wise** deep-coverage bound.  When no depth below D ≥ 2 has mass, every entry of the
    corrected model is within ((1 + D) + Σ_p nsub_p)·2^{-D}·‖model‖₁ of the entry of the plain projection:
    * the no-call probability of every polymorphic allele count is ≤ (1 + D)·2^{-D} (sharper than the (1 + af·D)·2^{-D} of the
      ℓ¹ theorem: with h heterozygotes the probability is ≤ (1 + hD)·2^{-Dh}, largest at h = 1);
    * every entry of one population's kernel is within (1 − pe) + (nsub/2)·prob_het_err of the entry of its projection matrix
      (at most nsub/2 heterozygotes can be miscalled);
    * entries of a product kernel differ by at most the sum of the per-axis deviations. -/
namespace DadiVerif.LowPass
open Finset

/-! ### the no-call probability, sharper -/

theorem pow_mul_succ_le (q Dq : ℚ) (hq0 : 0 ≤ q) (hq : q ≤ 1 / 4) (hD : 0 ≤ Dq) (k : ℕ) :
    q ^ k * (1 + ((k : ℚ) + 1) * Dq) ≤ 1 + Dq := by
  induction k with
  | zero => simp
  | succ k ih =>
    have hqk : q ^ k ≤ 1 := pow_le_one₀ hq0 (by linarith)
    have hqk0 : 0 ≤ q ^ k := pow_nonneg hq0 k
    have e : q ^ (k + 1) * (1 + (((k + 1 : ℕ) : ℚ) + 1) * Dq)
        = q * (q ^ k * (1 + ((k : ℚ) + 1) * Dq)) + q * (q ^ k * Dq) := by
      rw [pow_succ]; push_cast; ring
    rw [e]
    have h1 : q * (q ^ k * (1 + ((k : ℚ) + 1) * Dq)) ≤ q * (1 + Dq) := mul_le_mul_of_nonneg_left ih hq0
    have h2 : q ^ k * Dq ≤ Dq := by nlinarith
    have h3 : q * (q ^ k * Dq) ≤ q * Dq := mul_le_mul_of_nonneg_left h2 hq0
    nlinarith

/-- the no-call probability of a polymorphic entry: ≤ (1 + D)·2^{-D} when no depth below D ≥ 2 has mass -/
theorem nocall_le_deep_sharp (c : List ℚ) (hc : ∀ v ∈ c, 0 ≤ v) (hs : lsum c ≤ 1) (D : ℕ) (hD : 2 ≤ D) (hdeep : DeepCov D c)
    (N : ℕ) (F : ℚ) (hF0 : 0 ≤ F) (hF1 : F < 1) (af : ℕ) (haf1 : 1 ≤ af) (haf : af ≤ 2 * N) :
    nocall c (2 * N) F af ≤ (1 + (D : ℚ)) * (1 / 2) ^ D := by
  simp only [nocall, half_two_mul]
  apply pw_mixture_le af N haf F hF0 hF1 _ (fun g pr => nocallPart c af g pr)
  intro g hg pr hpr
  obtain ⟨_, _, _, hx, _⟩ := part_facts hg
  rw [nocallPart_eq]
  have h0 : covAt c 0 = 0 := hdeep 0 (by omega)
  have h1 : covAt c 1 = 0 := hdeep 1 (by omega)
  have hA0 := covA_nonneg c hc
  have hB0 := covB_nonneg c hc
  have hl0 : 0 ≤ lsum c := by
    rw [lsum_eq_covAt]; exact Finset.sum_nonneg (fun d _ => covAt_nonneg c hc d)
  have hpw : (0 : ℚ) ≤ (1 / 2) ^ D := by positivity
  have hq4 : ((1 : ℚ) / 2) ^ D ≤ 1 / 4 := by
    calc ((1 : ℚ) / 2) ^ D ≤ (1 / 2) ^ 2 := half_pow_le 2 D hD
      _ = 1 / 4 := by norm_num
  have hA : covA c ≤ (1 / 2) ^ D := by
    have := covA_le_deep c hc D hdeep; nlinarith
  have hB : covB c ≤ (D : ℚ) * (1 / 2) ^ D := by
    have := covB_le_deep c hc D (by omega) hdeep
    have : (0 : ℚ) ≤ (D : ℚ) * (1 / 2) ^ D := by positivity
    nlinarith
  have hDq : (0 : ℚ) ≤ (D : ℚ) := Nat.cast_nonneg _
  rw [h0, h1]
  rcases Nat.eq_zero_or_pos (g.count 2) with ha | ha
  · have hh : g.count 1 = af := by omega
    obtain ⟨k, rfl⟩ : ∃ k, af = k + 1 := ⟨af - 1, by omega⟩
    rw [ha, hh]
    set q : ℚ := (1 / 2) ^ D with hqdef
    have hAk : covA c ^ k ≤ q ^ k := pow_le_pow_left₀ hA0 hA k
    have hAk0 : 0 ≤ covA c ^ k := pow_nonneg hA0 k
    have hk0 : (0 : ℚ) ≤ ((k + 1 : ℕ) : ℚ) := Nat.cast_nonneg _
    have hin : covA c + ((k + 1 : ℕ) : ℚ) * covB c ≤ q * (1 + ((k : ℚ) + 1) * (D : ℚ)) := by
      have : ((k + 1 : ℕ) : ℚ) * covB c ≤ ((k + 1 : ℕ) : ℚ) * ((D : ℚ) * q) := mul_le_mul_of_nonneg_left hB hk0
      push_cast at this ⊢
      nlinarith
    have hin0 : 0 ≤ covA c + ((k + 1 : ℕ) : ℚ) * covB c := by positivity
    have hbr : covA c ^ (k + 1) + ((k + 1 : ℕ) : ℚ) * covB c * covA c ^ (k + 1 - 1) ≤ (1 + (D : ℚ)) * q := by
      have e : covA c ^ (k + 1) + ((k + 1 : ℕ) : ℚ) * covB c * covA c ^ (k + 1 - 1)
          = covA c ^ k * (covA c + ((k + 1 : ℕ) : ℚ) * covB c) := by
        rw [Nat.add_sub_cancel, pow_succ]; ring
      rw [e]
      calc covA c ^ k * (covA c + ((k + 1 : ℕ) : ℚ) * covB c)
          ≤ q ^ k * (q * (1 + ((k : ℚ) + 1) * (D : ℚ))) :=
            mul_le_mul hAk hin hin0 (pow_nonneg hpw k)
        _ = q * (q ^ k * (1 + ((k : ℚ) + 1) * (D : ℚ))) := by ring
        _ ≤ q * (1 + (D : ℚ)) := mul_le_mul_of_nonneg_left (pow_mul_succ_le q (D : ℚ) hpw hq4 hDq k) hpw
        _ = (1 + (D : ℚ)) * q := by ring
    have : pr * ((0 : ℚ) ^ 0 * covA c ^ (k + 1) + ((0 : ℕ) : ℚ) * 0 * 0 ^ (0 - 1) * covA c ^ (k + 1)
        + (0 : ℚ) ^ 0 * (((k + 1 : ℕ) : ℚ) * covB c * covA c ^ (k + 1 - 1)))
        = pr * (covA c ^ (k + 1) + ((k + 1 : ℕ) : ℚ) * covB c * covA c ^ (k + 1 - 1)) := by simp
    rw [this]
    calc pr * (covA c ^ (k + 1) + ((k + 1 : ℕ) : ℚ) * covB c * covA c ^ (k + 1 - 1))
        ≤ pr * ((1 + (D : ℚ)) * q) := mul_le_mul_of_nonneg_left hbr hpr
      _ = (1 + (D : ℚ)) * q * pr := by ring
  · have hz : (0 : ℚ) ^ g.count 2 = 0 := zero_pow (by omega)
    rw [hz]
    simp only [zero_mul, mul_zero, add_zero]
    have : (0 : ℚ) ≤ (1 + (D : ℚ)) * (1 / 2) ^ D * pr := by positivity
    simpa using this

/-! ### one axis, entry by entry -/

/-- every entry of `(pe·P)·H` is within (1 − pe) + η of the entry of `P` when every diagonal entry H[k,k] ≥ 1 − η -/
theorem kernel_dev_entry (pe : ℚ) (hpe0 : 0 ≤ pe) (hpe1 : pe ≤ 1) (P H : ℕ → ℕ → ℚ) (nsub i j : ℕ) (hj : j < nsub + 1)
    (η : ℚ) (hη : 0 ≤ η)
    (hP0 : ∀ k, k < nsub + 1 → 0 ≤ P i k) (hP1 : ∑ k ∈ range (nsub + 1), P i k = 1)
    (hH0 : ∀ k, k < nsub + 1 → ∀ j, j < nsub + 1 → 0 ≤ H k j)
    (hH1 : ∀ k, k < nsub + 1 → ∑ j ∈ range (nsub + 1), H k j = 1)
    (hHd : ∀ k, k < nsub + 1 → 1 - η ≤ H k k) :
    |kernel pe P H nsub i j - P i j| ≤ (1 - pe) + η := by
  have hdiff : kernel pe P H nsub i j - P i j
      = ∑ k ∈ range (nsub + 1), P i k * (pe * H k j - (if j = k then 1 else 0)) := by
    rw [kernel_eq]
    have hsel : P i j = ∑ k ∈ range (nsub + 1), P i k * (if j = k then 1 else 0) := by
      rw [Finset.sum_eq_single j]
      · simp
      · intro k _ hkj; rw [if_neg (fun e => hkj e.symm)]; ring
      · intro hn; exact absurd (by simpa using hj) hn
    rw [hsel, ← Finset.sum_sub_distrib]
    exact Finset.sum_congr rfl (fun k _ => by ring)
  rw [hdiff]
  calc |∑ k ∈ range (nsub + 1), P i k * (pe * H k j - (if j = k then 1 else 0))|
      ≤ ∑ k ∈ range (nsub + 1), |P i k * (pe * H k j - (if j = k then 1 else 0))| := Finset.abs_sum_le_sum_abs _ _
    _ ≤ ∑ k ∈ range (nsub + 1), P i k * ((1 - pe) + η) := by
        apply Finset.sum_le_sum
        intro k hk
        have hk' : k < nsub + 1 := by simpa using hk
        rw [abs_mul, abs_of_nonneg (hP0 k hk')]
        apply mul_le_mul_of_nonneg_left _ (hP0 k hk')
        have hkk := hHd k hk'
        have hkj0 := hH0 k hk' j hj
        by_cases hjk : j = k
        · subst hjk
          simp only [if_true]
          have hle : H j j ≤ 1 := by
            rw [← hH1 j hk']
            exact Finset.single_le_sum (f := H j) (fun t ht => hH0 j hk' t (by simpa using ht)) (by simpa using hk')
          rw [abs_of_nonpos (by nlinarith)]
          nlinarith
        · simp only [hjk, if_false, sub_zero]
          rw [abs_of_nonneg (mul_nonneg hpe0 hkj0)]
          -- H[k,j] + H[k,k] ≤ row sum = 1
          have hsum : H k k + H k j ≤ 1 := by
            rw [← hH1 k hk', ← Finset.add_sum_erase (range (nsub + 1)) (H k) (by simpa using hk' : k ∈ range (nsub + 1))]
            have hjm : j ∈ (range (nsub + 1)).erase k := by
              simp only [mem_erase, mem_range]; exact ⟨hjk, hj⟩
            have := Finset.single_le_sum (f := H k) (s := (range (nsub + 1)).erase k)
              (fun t ht => hH0 k hk' t (by simp only [mem_erase, mem_range] at ht; exact ht.2)) hjm
            linarith
          nlinarith
    _ = (1 - pe) + η := by rw [← Finset.sum_mul, hP1, one_mul]

/-- the diagonal of `calling_error_matrix`, with the number of individuals: H[af, af] ≥ 1 − m·e -/
theorem callEntryE_diag_ge_ind (e : ℚ) (he0 : 0 ≤ e) (he1 : e ≤ 1) (m : ℕ) (F : ℚ) (hF0 : 0 ≤ F) (hF1 : F < 1)
    (af : ℕ) (haf : af ≤ 2 * m) : 1 - (m : ℚ) * e ≤ callEntryE e (2 * m) F af af := by
  simp only [callEntryE, half_two_mul]
  apply pw_mixture_ge af m haf F hF0 hF1 (1 - (m : ℚ) * e) (fun g pr => callPart e af af g pr)
  intro g hg pr hpr
  obtain ⟨_, _, _, _, hn⟩ := part_facts hg
  have h1 := callPart_diag_ge e he0 he1 af g pr hpr
  have h2 := one_sub_mul_le_pow e he0 he1 (g.count 1)
  have h3 : ((g.count 1 : ℕ) : ℚ) ≤ (m : ℚ) := by exact_mod_cast (by omega : g.count 1 ≤ m)
  have h4 : (1 - (m : ℚ) * e) ≤ (1 - e) ^ g.count 1 := by nlinarith
  calc (1 - (m : ℚ) * e) * pr ≤ (1 - e) ^ g.count 1 * pr := mul_le_mul_of_nonneg_right h4 hpr
    _ = pr * (1 - e) ^ g.count 1 := by ring
    _ ≤ _ := h1

/-! ### product kernels, entry by entry -/

theorem AxisOk.K_le_one {a : Axis} (ha : AxisOk a) (i : ℕ) (hi : i < a.nIn) (j : ℕ) (hj : j < a.nOut) : a.K i j ≤ 1 :=
  le_trans (Finset.single_le_sum (f := a.K i) (fun t ht => ha.K_nonneg i hi t (by simpa using ht)) (by simpa using hj))
    (ha.K_rowsum i hi)

theorem kerND_le_one (A : List Axis) (hA : ∀ a ∈ A, AxisOk a) :
    ∀ i, inBox (A.map (·.nIn)) i → ∀ j, inBox (A.map (·.nOut)) j → kerND A i j ≤ 1 := by
  induction A with
  | nil => intro i _ j _; simp [kerND]
  | cons a A ih =>
    intro i hi j hj
    cases i with
    | nil => simp [inBox] at hi
    | cons i0 is =>
      cases j with
      | nil => simp [inBox] at hj
      | cons j0 js =>
        simp only [List.map_cons, inBox] at hi hj
        have ha := hA a List.mem_cons_self
        have hrest : ∀ b ∈ A, AxisOk b := fun b hb => hA b (List.mem_cons_of_mem _ hb)
        have h1 := ha.K_nonneg i0 hi.1 j0 hj.1
        have h2 := ha.K_le_one i0 hi.1 j0 hj.1
        have h3 := kerND_nonneg A hrest is hi.2 js hj.2
        have h4 := ih hrest is hi.2 js hj.2
        simp only [kerND]
        nlinarith

/-- a pair (correction axis, reference axis) whose kernels differ by at most η entry by entry -/
structure PairOkE (η : ℚ) (ab : Axis × Axis) : Prop where
  nIn_eq : ab.1.nIn = ab.2.nIn
  nOut_eq : ab.1.nOut = ab.2.nOut
  ok1 : AxisOk ab.1
  ok2 : AxisOk ab.2
  dev : ∀ i, i < ab.1.nIn → ∀ j, j < ab.1.nOut → |ab.1.K i j - ab.2.K i j| ≤ η

theorem pairE_nIn (AB : List (Axis × Axis)) (η : Axis × Axis → ℚ) (h : ∀ ab ∈ AB, PairOkE (η ab) ab) :
    (AB.map (·.2)).map (·.nIn) = (AB.map (·.1)).map (·.nIn) := by
  simp only [List.map_map]
  exact List.map_congr_left (fun ab hab => (h ab hab).nIn_eq.symm)

theorem pairE_ok1 (AB : List (Axis × Axis)) (η : Axis × Axis → ℚ) (h : ∀ ab ∈ AB, PairOkE (η ab) ab) :
    ∀ a ∈ AB.map (·.1), AxisOk a := by
  intro a ha
  simp only [List.mem_map] at ha
  obtain ⟨ab, hab, rfl⟩ := ha
  exact (h ab hab).ok1

/-- |Π_p K_p[i_p,j_p] − Π_p P_p[i_p,j_p]| ≤ Σ_p η_p -/
theorem kerND_entry (η : Axis × Axis → ℚ) (AB : List (Axis × Axis)) (h : ∀ ab ∈ AB, PairOkE (η ab) ab) :
    ∀ i, inBox ((AB.map (·.1)).map (·.nIn)) i → ∀ j, inBox ((AB.map (·.1)).map (·.nOut)) j →
      |kerND (AB.map (·.1)) i j - kerND (AB.map (·.2)) i j| ≤ lsum (AB.map η) := by
  induction AB with
  | nil => intro i _ j _; simp [kerND]
  | cons ab AB ih =>
    intro i hi j hj
    cases i with
    | nil => simp [inBox] at hi
    | cons i0 is =>
      cases j with
      | nil => simp [inBox] at hj
      | cons j0 js =>
        simp only [List.map_cons, inBox] at hi hj
        have hab := h ab List.mem_cons_self
        have hrest : ∀ x ∈ AB, PairOkE (η x) x := fun x hx => h x (List.mem_cons_of_mem _ hx)
        have IH := ih hrest is hi.2 js hj.2
        have hA1 := pairE_ok1 AB η hrest
        have hx0 := kerND_nonneg (AB.map (·.1)) hA1 is hi.2 js hj.2
        have hx1 := kerND_le_one (AB.map (·.1)) hA1 is hi.2 js hj.2
        have hb0 : 0 ≤ ab.2.K i0 j0 :=
          hab.ok2.K_nonneg i0 (by rw [← hab.nIn_eq]; exact hi.1) j0 (by rw [← hab.nOut_eq]; exact hj.1)
        have hb1 : ab.2.K i0 j0 ≤ 1 :=
          hab.ok2.K_le_one i0 (by rw [← hab.nIn_eq]; exact hi.1) j0 (by rw [← hab.nOut_eq]; exact hj.1)
        have hd := hab.dev i0 hi.1 j0 hj.1
        simp only [List.map_cons, kerND, lsum_cons]
        have e : ab.1.K i0 j0 * kerND (AB.map (·.1)) is js - ab.2.K i0 j0 * kerND (AB.map (·.2)) is js
            = (ab.1.K i0 j0 - ab.2.K i0 j0) * kerND (AB.map (·.1)) is js
              + ab.2.K i0 j0 * (kerND (AB.map (·.1)) is js - kerND (AB.map (·.2)) is js) := by ring
        rw [e]
        calc _ ≤ |(ab.1.K i0 j0 - ab.2.K i0 j0) * kerND (AB.map (·.1)) is js|
                + |ab.2.K i0 j0 * (kerND (AB.map (·.1)) is js - kerND (AB.map (·.2)) is js)| := abs_add_le _ _
          _ = |ab.1.K i0 j0 - ab.2.K i0 j0| * kerND (AB.map (·.1)) is js
                + ab.2.K i0 j0 * |kerND (AB.map (·.1)) is js - kerND (AB.map (·.2)) is js| := by
              rw [abs_mul, abs_mul, abs_of_nonneg hx0, abs_of_nonneg hb0]
          _ ≤ η ab + lsum (AB.map η) := by
              have hη0 : 0 ≤ |ab.1.K i0 j0 - ab.2.K i0 j0| := abs_nonneg _
              have hI0 : 0 ≤ |kerND (AB.map (·.1)) is js - kerND (AB.map (·.2)) is js| := abs_nonneg _
              nlinarith

/-- **entry-wise bound, any number of populations**: ε bounds the no-call probability on the support of the model, η ab the
    entry-wise deviation of each axis kernel from its reference, σ the entry-wise deviation of a simulated table (only where
    simulated) -/
theorem corrected_entry (ε σ : ℚ) (hε0 : 0 ≤ ε) (hσ0 : 0 ≤ σ) (η : Axis × Axis → ℚ) (AB : List (Axis × Axis))
    (h : ∀ ab ∈ AB, PairOkE (η ab) ab) (hη0 : 0 ≤ lsum (AB.map η)) (thr : ℚ) (model : List ℕ → ℚ) (sim : List ℕ → List ℕ → ℚ)
    (hε : ∀ i, inBox ((AB.map (·.1)).map (·.nIn)) i → model i ≠ 0 → pncND (AB.map (·.1)) i ≤ ε)
    (j : List ℕ) (hj : inBox ((AB.map (·.1)).map (·.nOut)) j)
    (hσ : ∀ i, inBox ((AB.map (·.1)).map (·.nIn)) i → model i ≠ 0 →
      Gen.LowPass.useSim (pncND (AB.map (·.1)) i) thr = true → |sim i j - kerND (AB.map (·.2)) i j| ≤ σ) :
    |corrected (AB.map (·.1)) thr model sim j - projected (AB.map (·.2)) model j|
      ≤ (ε + lsum (AB.map η) + σ) * sumBox ((AB.map (·.1)).map (·.nIn)) (fun i => |model i|) := by
  set A := AB.map (·.1) with hAdef
  set B := AB.map (·.2) with hBdef
  have hIn := pairE_nIn AB η h
  have hA1 := pairE_ok1 AB η h
  rw [corrected_sub_projected A B hIn thr model sim j]
  calc _ ≤ sumBox (A.map (·.nIn)) (fun i => |model i *
            ((if Gen.LowPass.useSim (pncND A i) thr = true then sim i j else (1 - pncND A i) * kerND A i j) - kerND B i j)|) :=
          abs_sumBox_le _ _
    _ ≤ sumBox (A.map (·.nIn)) (fun i => |model i| * (ε + lsum (AB.map η) + σ)) := by
        apply sumBox_le
        intro i hi
        rw [abs_mul]
        by_cases hm : model i = 0
        · simp [hm]
        · apply mul_le_mul_of_nonneg_left _ (abs_nonneg _)
          by_cases hu : Gen.LowPass.useSim (pncND A i) thr = true
          · simp only [hu, if_true]
            have := hσ i hi hm hu
            linarith
          · simp only [hu, Bool.false_eq_true, if_false]
            obtain ⟨hp0, hp1⟩ := pncND_unit A hA1 i hi
            have hpe := hε i hi hm
            have hk0 := kerND_nonneg A hA1 i hi j hj
            have hk1 := kerND_le_one A hA1 i hi j hj
            have hk := kerND_entry η AB h i hi j hj
            have e : (1 - pncND A i) * kerND A i j - kerND B i j
                = (kerND A i j - kerND B i j) + (-(pncND A i * kerND A i j)) := by ring
            rw [e]
            calc _ ≤ |kerND A i j - kerND B i j| + |-(pncND A i * kerND A i j)| := abs_add_le _ _
              _ = |kerND A i j - kerND B i j| + pncND A i * kerND A i j := by
                  rw [abs_neg, abs_of_nonneg (mul_nonneg hp0 hk0)]
              _ ≤ ε + lsum (AB.map η) + σ := by nlinarith
    _ = _ := by rw [sumBox_mul_right]; ring

/-! ### the matrices the code builds -/

/-- entry-wise deviation allowed for one population: nsub·2^{-D} (read off the axis: nOut = nsub + 1) -/
def etaOf (D : ℕ) (ab : Axis × Axis) : ℚ := (((ab.1.nOut : ℕ) : ℚ) - 1) * (1 / 2) ^ D

theorem mkAxis_dev_entry (p : Pop) (hp : PopOk p) (D : ℕ) (hdeep : DeepCov D p.c) (i : ℕ) (hi : i < p.nseq + 1)
    (j : ℕ) (hj : j < p.nsub + 1) :
    |(mkAxis p.c p.nseq p.nsub p.F 1).K i j - (refAxis p).K i j| ≤ ((p.nsub : ℕ) : ℚ) * (1 / 2) ^ D := by
  obtain ⟨hc, hs, ht, hF0, hF1, N, m, e1, e2, _, hmN⟩ := hp
  obtain ⟨he0, he1⟩ := hetErr_unit p.c hc ht
  have heD := hetErr_le_deep p.c hc ht D hdeep
  rw [mkAxis_K_eq p.c _ _ p.F 1 i j hi hj, refAxis_K_eq p i j hi hj]
  have hη : 0 ≤ (m : ℚ) * hetErr p.c := by positivity
  have key := kernel_dev_entry 1 (by norm_num) (le_refl _) (projEntry p.nseq p.nsub p.F) (callEntryE (hetErr p.c) p.nsub p.F)
    p.nsub i j hj ((m : ℚ) * hetErr p.c) hη
    (by intro k _; rw [e1, e2]; exact projEntry_nonneg N m p.F hF0 hF1 i k (by omega))
    (by rw [e1, e2]; exact projEntry_rowsum N m hmN p.F hF0 hF1 i (by omega))
    (by intro k hk j _; rw [e2]; exact callEntryE_nonneg _ he0 he1 m p.F hF0 hF1 k j (by omega))
    (by intro k hk; rw [e2]; exact callEntryE_rowsum _ m p.F hF0 hF1 k (by omega))
    (by intro k hk; rw [e2]; exact callEntryE_diag_ge_ind (hetErr p.c) he0 he1 m p.F hF0 hF1 k (by omega))
  have hm0 : (0 : ℚ) ≤ (m : ℚ) := Nat.cast_nonneg _
  have : (m : ℚ) * hetErr p.c ≤ (m : ℚ) * (2 * (1 / 2) ^ D) := mul_le_mul_of_nonneg_left heD hm0
  have hcast : ((p.nsub : ℕ) : ℚ) = 2 * (m : ℚ) := by rw [e2]; push_cast; ring
  rw [hcast]
  linarith

theorem deepPairs_okE (D : ℕ) (hD : 1 ≤ D) (pops : List Pop) (h : PopsDeep D pops) :
    ∀ ab ∈ deepPairs pops, PairOkE (etaOf D ab) ab := by
  have hpe : peAll pops = 1 := peAll_deep pops (fun p hp => ⟨(h p hp).1, (h p hp).2.1, (h p hp).2.2 0 (by omega)⟩)
  intro ab hab
  simp only [deepPairs, List.mem_map] at hab
  obtain ⟨p, hp, rfl⟩ := hab
  obtain ⟨hok, hs, hdeep⟩ := h p hp
  have hok' := hok
  obtain ⟨hc, hsl, ht, hF0, hF1, N, m, e1, e2, _, hmN⟩ := hok
  rw [hpe]
  refine ⟨rfl, rfl, ?_, refAxis_ok p hok', ?_⟩
  · show AxisOk (mkAxis p.c p.nseq p.nsub p.F 1)
    rw [e1, e2]
    exact mkAxis_ok p.c hc hsl ht N m hmN p.F hF0 hF1 1 (by norm_num) (le_refl _)
  · intro i hi j hj
    have := mkAxis_dev_entry p hok' D hdeep i hi j hj
    have e : etaOf D (mkAxis p.c p.nseq p.nsub p.F 1, refAxis p) = ((p.nsub : ℕ) : ℚ) * (1 / 2) ^ D := by
      simp [etaOf, mkAxis]
    rw [e]; exact this

theorem lsum_eta_deepPairs (D : ℕ) (pops : List Pop) :
    lsum ((deepPairs pops).map (etaOf D)) = lsum (pops.map fun p => ((p.nsub : ℕ) : ℚ) * (1 / 2) ^ D) := by
  simp only [deepPairs, List.map_map]
  apply lsum_map_congr
  intro p _
  simp [etaOf, mkAxis]

theorem pops_pnc_le_sharp (D : ℕ) (hD : 2 ≤ D) (pops : List Pop) (h : PopsDeep D pops) :
    ∀ a ∈ axesOf pops, ∀ i, 1 ≤ i → i < a.nIn → a.pnc i ≤ (1 + (D : ℚ)) * (1 / 2) ^ D := by
  intro a ha i hi1 hi
  simp only [axesOf, List.mem_map] at ha
  obtain ⟨p, hp, rfl⟩ := ha
  obtain ⟨⟨hc, hs, _, hF0, hF1, N, m, e1, e2, _, _⟩, _, hdeep⟩ := h p hp
  have hi' : i < p.nseq + 1 := hi
  rw [mkAxis_pnc_eq p.c _ _ p.F _ i hi', e1]
  exact nocall_le_deep_sharp p.c hc hs D hD hdeep N p.F hF0 hF1 i hi1 (by omega)

/-- **entry-wise deep-coverage bound for the matrices the code builds** -/
theorem deep_entry_pops (pops : List Pop) (h : ∀ p ∈ pops, PopOk p ∧ lsum p.c = 1) (hD : 2 ≤ deepDepth pops)
    (thr σ : ℚ) (hσ0 : 0 ≤ σ) (model : List ℕ → ℚ) (sim : List ℕ → List ℕ → ℚ)
    (hcorner : ∀ i, (∀ k ∈ i, k = 0) → model i = 0)
    (j : List ℕ) (hj : inBox ((axesOf pops).map (·.nOut)) j)
    (hσ : ∀ i, inBox ((axesOf pops).map (·.nIn)) i → model i ≠ 0 →
      Gen.LowPass.useSim (pncND (axesOf pops) i) thr = true → |sim i j - kerND (refAxesOf pops) i j| ≤ σ) :
    |corrected (axesOf pops) thr model sim j - projected (refAxesOf pops) model j|
      ≤ (deepEntryBound pops + σ) * sumBox ((axesOf pops).map (·.nIn)) (fun i => |model i|) := by
  set D := deepDepth pops with hDdef
  have hdeep : PopsDeep D pops := fun p hp => ⟨(h p hp).1, (h p hp).2, deepCov_of_deepDepth pops p hp⟩
  have hpairs := deepPairs_okE D (by omega) pops hdeep
  have hA : ∀ a ∈ axesOf pops, AxisOk a := by
    rw [← deepPairs_fst]; exact pairE_ok1 _ _ hpairs
  have hpnc := pops_pnc_le_sharp D hD pops hdeep
  have hε0 : (0 : ℚ) ≤ (1 + (D : ℚ)) * (1 / 2) ^ D := by positivity
  have hη0 : 0 ≤ lsum ((deepPairs pops).map (etaOf D)) := by
    rw [lsum_eta_deepPairs]
    exact lsum_map_nonneg _ _ (fun p _ => by positivity)
  have key := corrected_entry ((1 + (D : ℚ)) * (1 / 2) ^ D) σ hε0 hσ0 (etaOf D) (deepPairs pops) hpairs hη0 thr model sim
  rw [deepPairs_fst, deepPairs_snd] at key
  have := key
    (fun i hi hm => pncND_le _ hε0 (axesOf pops) hA hpnc i hi (fun hall => hm (hcorner i hall)))
    j hj hσ
  rw [lsum_eta_deepPairs] at this
  simpa [deepEntryBound, ← hDdef] using this

end DadiVerif.LowPass
