import DadiVerif.Lemmas.PopOpsObs
/-! C10: masks — the exact mask of iterated `combine_two_pops` (both directions), corners under the index maps,
    and the mask bookkeeping of the folded path of `marginalize` (unfold → sum → mask corners → fold). -/
namespace DadiVerif.PopOps

/-! ### corners are carried to corners -/

theorem merge2_map_zero (a b : Nat) (sh : List Nat) :
    merge2 a b (sh.map fun _ => 0) = (mergeShape a b sh).map fun _ => 0 := by
  show _ = ((merge2 a b (sh.map (· - 1))).map (· + 1)).map fun _ => 0
  rw [List.map_map, merge2_eq, merge2_eq, getD_map_zero, getD_map_zero, map_eraseIdx', List.map_set, List.map_map]
  have e : ((fun _ => 0) ∘ fun x : Nat => x + 1) ∘ (fun x : Nat => x - 1) = fun _ => 0 := rfl
  have e2 : ((fun _ => 0) ∘ fun x : Nat => x + 1) ((sh.map (· - 1)).getD a 0 + (sh.map (· - 1)).getD b 0) = 0 := rfl
  rw [e, e2]

theorem merge2_map_pred (a b : Nat) (sh : List Nat) :
    merge2 a b (sh.map (· - 1)) = (mergeShape a b sh).map (· - 1) := by
  show _ = ((merge2 a b (sh.map (· - 1))).map (· + 1)).map (· - 1)
  rw [List.map_map]
  conv_lhs => rw [← List.map_id (merge2 a b (sh.map (· - 1)))]
  apply List.map_congr_left; intro x _; simp

theorem isCorner_merge2 (a b : Nat) (sh : List Nat) (i : Idx) (h : isCorner sh i = true) :
    isCorner (mergeShape a b sh) (merge2 a b i) = true := by
  rw [isCorner_iff] at h ⊢
  rcases h with rfl | rfl
  · left; exact merge2_map_zero a b sh
  · right; exact merge2_map_pred a b sh

theorem isCorner_mergeAll (a : Nat) (rs : List Nat) (sh : List Nat) (i : Idx) (h : isCorner sh i = true) :
    isCorner (mergeAllShape a rs sh) (mergeAll a rs i) = true := by
  induction rs generalizing sh i with
  | nil => exact h
  | cons r rs ih => exact ih _ _ (isCorner_merge2 a r sh i h)

theorem isCorner_eraseIdx (k : Nat) (sh : List Nat) (i : Idx) (h : isCorner sh i = true) :
    isCorner (sh.eraseIdx k) (i.eraseIdx k) = true := by
  rw [isCorner_iff] at h ⊢
  rcases h with rfl | rfl
  · left; exact (map_eraseIdx' _ _ _).symm
  · right; exact (map_eraseIdx' _ _ _).symm

theorem isCorner_dropAxes (ks : List Nat) (sh : List Nat) (i : Idx) (h : isCorner sh i = true) :
    isCorner (dropAxes ks sh) (dropAxes ks i) = true := by
  induction ks generalizing sh i with
  | nil => exact h
  | cons k ks ih => exact ih _ _ (isCorner_eraseIdx k sh i h)

/-! ### the mask of iterated merges, both directions -/

theorem anyL_or (box : List Idx) (f : Idx → Idx) (b c : Idx → Bool) (j : Idx) :
    anyL box f (fun i => b i || c i) j = (anyL box f b j || anyL box f c j) := by
  rw [Bool.eq_iff_iff, Bool.or_eq_true, anyL_iff, anyL_iff, anyL_iff]
  constructor
  · rintro ⟨i, hi, hij, hbc⟩
    rw [Bool.or_eq_true] at hbc
    rcases hbc with h | h
    · exact Or.inl ⟨i, hi, hij, h⟩
    · exact Or.inr ⟨i, hi, hij, h⟩
  · rintro (⟨i, hi, hij, h⟩ | ⟨i, hi, hij, h⟩)
    · exact ⟨i, hi, hij, by simp [h]⟩
    · exact ⟨i, hi, hij, by simp [h]⟩

/-- after at least one merge: a cell is masked iff some contributor (along the ONE re-indexing `mergeAll`) is masked, or it is
    one of the two corners of the result (every `combine_two_pops` constructs a Spectrum with masked corners) -/
theorem combineIter_msk (a r : Nat) (rs : List Nat) (S : FS) (j : Idx) :
    (combineIter a (r :: rs) S).msk j
      = (anyL S.box (mergeAll a (r :: rs)) S.msk j || isCorner (mergeAllShape a (r :: rs) S.shape) j) := by
  induction rs generalizing r S with
  | nil => exact combineTwoCore_msk a r S j
  | cons r2 rs ih =>
    rw [combineIter_cons, ih r2 (combineTwoCore a r S)]
    have hm : (combineTwoCore a r S).msk
        = fun i => anyL S.box (merge2 a r) S.msk i || isCorner (mergeShape a r S.shape) i := by
      funext i; exact combineTwoCore_msk a r S i
    have hbox : ∀ i ∈ S.box, merge2 a r i ∈ (combineTwoCore a r S).box := fun i hi => merge2_mem_box a r S.shape i hi
    rw [hm, anyL_or, anyL_comp S.box _ _ _ hbox]
    show (anyL S.box (mergeAll a (r :: r2 :: rs)) S.msk j
        || anyL (boxIdx (mergeShape a r S.shape)) (mergeAll a (r2 :: rs)) (isCorner (mergeShape a r S.shape)) j
        || isCorner (mergeAllShape a (r :: r2 :: rs) S.shape) j) = _
    have himp : anyL (boxIdx (mergeShape a r S.shape)) (mergeAll a (r2 :: rs)) (isCorner (mergeShape a r S.shape)) j = true →
        isCorner (mergeAllShape a (r :: r2 :: rs) S.shape) j = true := by
      rw [anyL_iff]
      rintro ⟨i, _, hij, hc⟩
      rw [← hij]
      exact isCorner_mergeAll a (r2 :: rs) _ i hc
    cases h1 : anyL (boxIdx (mergeShape a r S.shape)) (mergeAll a (r2 :: rs)) (isCorner (mergeShape a r S.shape)) j
    · simp
    · rw [himp h1]; simp

/-! ### the folded path of marginalize: masks -/

theorem mirror_map_zero (sh : List Nat) : mirror sh (sh.map fun _ => 0) = sh.map (· - 1) := by
  unfold mirror
  induction sh with
  | nil => rfl
  | cons s ss ih => simp only [List.map_cons, List.zipWith_cons_cons, ih]; simp

theorem mirror_map_pred (sh : List Nat) : mirror sh (sh.map (· - 1)) = sh.map fun _ => 0 := by
  unfold mirror
  induction sh with
  | nil => rfl
  | cons s ss ih => simp only [List.map_cons, List.zipWith_cons_cons, ih]; simp

theorem isCorner_mirror (sh : List Nat) (i : Idx) (hi : i ∈ boxIdx sh) : isCorner sh (mirror sh i) = isCorner sh i := by
  have key : ∀ i', isCorner sh i' = true → isCorner sh (mirror sh i') = true := by
    intro i' h
    rw [isCorner_iff] at h ⊢
    rcases h with rfl | rfl
    · right; exact mirror_map_zero sh
    · left; exact mirror_map_pred sh
  rw [Bool.eq_iff_iff]
  constructor
  · intro h
    have := key _ h
    rwa [mirror_mirror sh i hi] at this
  · exact key i

/-- the mask of `unfold(fold U)` for a spectrum without masked entries: exactly the two corners -/
theorem unfold_fold_msk (U : FS) (hc : Clean U) (i : Idx) (hi : i ∈ U.box) :
    (unfoldCore (foldCore U)).msk i = isCorner U.shape i := by
  have hmi := mirror_mem_box U.shape i hi
  have h1 : U.msk i = false := hc.2 i hi
  have h2 : U.msk (mirror U.shape i) = false := hc.2 _ hmi
  have h3 : mirror U.shape (mirror U.shape i) = i := mirror_mirror U.shape i hi
  have h4 := isCorner_mirror U.shape i hi
  show (Bool.xor ((foldCore U).msk i) (foldedOut U.shape i)
        || Bool.xor ((foldCore U).msk (mirror U.shape i)) (foldedOut U.shape (mirror U.shape i))
        || isCorner U.shape i) = _
  show (Bool.xor (U.msk i || U.msk (mirror U.shape i) || foldedOut U.shape i || isCorner U.shape i) (foldedOut U.shape i)
        || Bool.xor (U.msk (mirror U.shape i) || U.msk (mirror U.shape (mirror U.shape i)) || foldedOut U.shape (mirror U.shape i)
              || isCorner U.shape (mirror U.shape i)) (foldedOut U.shape (mirror U.shape i))
        || isCorner U.shape i) = _
  rw [h3, h1, h2, h4]
  cases foldedOut U.shape i <;> cases foldedOut U.shape (mirror U.shape i) <;> cases isCorner U.shape i <;> rfl

end DadiVerif.PopOps
