import DadiVerif.Lemmas.DemesProgLoops
/-! C16 (round 5) — what the reference program `applyEventRef` (`_apply_event`) does, event kind by event kind. -/
namespace DadiVerif.DemesConv
open Gen.Demes

/-- the loop `for parent in parents: remove_i = pop_ids.index(parent); pop_ids.pop(remove_i); phi = remove_pop(phi, xx, remove_i+1)` of a merger:
    the calls made and the populations left (`none`: a parent is not there) -/
def removeParents {ν : Type} : List DName → List DName → Option (List (PCall ν) × List DName)
  | [], ids => some ([], ids)
  | p :: ps, ids => (pyIndex ids p).bind fun i => (removeParents ps (ids.eraseIdx i)).map fun r => (PCall.removePop (i + 1) :: r.1, r.2)

/-- **what `_apply_event` does** with the populations `ids` (axis order): the calls it makes and the populations afterwards; `none`: it raises.
    * pulse: one `_admix_phi` call, same populations (membership is checked inside `_admix_phi`);
    * branch: the parent must be there; `_split_phi` with the child appended as last axis;
    * admixture / merger: the child must be new (otherwise the code runs into a NameError) and at most 5 populations may result; one
      `_admix_new_pop_phi` call with the child appended; a merger then removes its parents one by one (`remove_pop` of the axis each has then);
    * split: the parent must be there; one child: a renaming, no call; two or more: at most 5 populations, the first child takes the parent's
      axis, the SECOND is appended, further children are ignored; no child: IndexError;
    * marginalisation: the deme must be there; `remove_pop` of its axis. -/
def applyEventSpec {ν : Type} (ids : List DName) : DEvt → Option (List (PCall ν) × List DName)
  | DEvt.pulses so d pr => some ([PCall.admix pr ids so d], ids)
  | DEvt.branch p c => (pyIndex ids p).map fun _ => ([PCall.split ids p (ids ++ [c])], ids ++ [c])
  | DEvt.merge ps pr c =>
      if ids.contains c then none else if (ids ++ [c]).length > 5 then none else
      (removeParents ps (ids ++ [c])).map fun r => (PCall.admixNew pr ids ps (ids ++ [c]) :: r.1, r.2)
  | DEvt.admix ps pr c =>
      if ids.contains c then none else if (ids ++ [c]).length > 5 then none else some ([PCall.admixNew pr ids ps (ids ++ [c])], ids ++ [c])
  | DEvt.split p cs => (pyIndex ids p).bind fun i =>
      match cs with
      | [] => none
      | [c] => some ([], ids.set i c)
      | c0 :: c1 :: rest => if (c0 :: c1 :: rest).length + ids.length - 1 > 5 then none else
          some ([PCall.split ids p (ids.set i c0 ++ [c1])], ids.set i c0 ++ [c1])
  | DEvt.marginalize d => (pyIndex ids d).map fun i => ([PCall.removePop (i + 1)], ids.eraseIdx i)

theorem pyIndex_some {α : Type} [DecidableEq α] {l : List α} {x : α} {i : ℕ} (h : pyIndex l x = some i) : i < l.length ∧ l[i]? = some x := by
  unfold pyIndex at h
  split_ifs at h with hc
  · simp only [Option.some.injEq] at h
    subst h
    have hm : x ∈ l := by simpa using hc
    have hlt := List.idxOf_lt_length_iff.2 hm
    exact ⟨hlt, by rw [List.getElem?_eq_getElem hlt, List.getElem_idxOf]⟩

theorem take_cons_drop_set {α : Type} (l : List α) (i : ℕ) (c : α) (h : i < l.length) : l.take i ++ [c] ++ l.drop (i + 1) = l.set i c := by
  rw [List.set_eq_take_append_cons_drop, if_pos h]
  simp

theorem set_self_of_get {α : Type} (l : List α) (i : ℕ) (x : α) (h : l[i]? = some x) : l.set i x = l := by
  apply List.ext_getElem? 
  intro k
  by_cases hk : i = k
  · subst hk
    rw [List.getElem?_set_self' ]
    simp [h]
  · rw [List.getElem?_set_ne hk]

def removeStep {ν : Type} (acc : List DName × Trace ν) (parent : DName) : Option (List DName × Trace ν) :=
  (pyIndex acc.1 parent).map fun i => (acc.1.eraseIdx i, acc.2 ++ [PCall.removePop (i + 1)])

theorem removeStep_eq {ν : Type} : (fun (acc21 : (List DName) × (Trace ν)) (parent : DName) => (do
            let pop_ids : List DName := acc21.1
            let phi : Trace ν := acc21.2
            let t22 : Nat ← pyIndex pop_ids parent
            let remove_i : Nat := t22
            let pop_ids : List DName := pop_ids.eraseIdx remove_i
            let phi : Trace ν := (phi ++ [PCall.removePop (remove_i + 1)])
            pure (pop_ids, phi) : Option _)) = removeStep := by
  funext acc parent
  unfold removeStep
  dsimp only
  cases pyIndex acc.1 parent <;> rfl

theorem removeLoop_eq {ν : Type} (ps : List DName) (ids : List DName) (phi : Trace ν) :
    ps.foldlM removeStep (ids, phi) = (removeParents ps ids).map fun r => (r.2, phi ++ r.1) := by
  induction ps generalizing ids phi with
  | nil => simp [removeParents, pure]
  | cons p t ih =>
    rw [List.foldlM_cons]
    simp only [removeParents, removeStep]
    cases h : pyIndex ids p with
    | none => rfl
    | some i =>
      simp only [Option.map_some, Option.bind_some]
      rw [show ∀ (a : List DName × Trace ν) (f : List DName × Trace ν → Option (List DName × Trace ν)), (some a >>= f) = f a from fun _ _ => rfl, ih]
      cases removeParents (ν := ν) t (ids.eraseIdx i) <;> simp

/-- **closed form of `_apply_event`** -/
theorem applyEventRef_eq {ν : Type} (phi : Trace ν) (ids : List DName) (e : DEvt) (t : ETime) (dp : PyDD (ETime × ETime) DName) :
    applyEventRef phi ids e t dp = (applyEventSpec ids e).map fun r => (phi ++ r.1, r.2) := by
  unfold applyEventRef applyEventSpec
  cases e with
  | pulses so d pr => simp [bind, pure, Option.bind]
  | branch p c =>
    dsimp only
    cases h : pyIndex ids p with
    | none => simp [bind, Option.bind]
    | some i =>
      obtain ⟨hi, hg⟩ := pyIndex_some h
      have e1 : ids.take i ++ [p] ++ ids.drop (i + 1) = ids := by rw [take_cons_drop_set _ _ _ hi, set_self_of_get _ _ _ hg]
      have e2 : List.take i ids ++ p :: (List.drop (i + 1) ids ++ [c]) = ids ++ [c] := by
        conv_rhs => rw [← e1]
        simp
      simp [bind, pure, Option.bind, e2]
  | merge ps pr c =>
    dsimp only
    rw [removeStep_eq]
    by_cases hm : c ∈ ids
    · simp [hm, bind, Option.bind]
    · by_cases h5 : 5 < ids.length + 1
      · simp [hm, h5, bind, Option.bind, pyRaiseIf]
      · simp only [List.contains_eq_mem, hm, decide_false, Bool.not_false, if_true, List.length_append, List.length_singleton, gt_iff_lt, h5,
          pyRaiseIf, Bool.false_eq_true, if_false, List.dropLast_concat, bind, Option.bind, pure]
        rw [removeLoop_eq]
        cases removeParents (ν := ν) ps (ids ++ [c]) <;> simp
  | admix ps pr c =>
    dsimp only
    by_cases hm : c ∈ ids
    · simp [hm, bind, Option.bind]
    · by_cases h5 : 5 < ids.length + 1
      · simp [hm, h5, bind, Option.bind, pyRaiseIf]
      · simp [hm, h5, bind, Option.bind, pure, pyRaiseIf]
  | split p cs =>
    dsimp only
    cases h : pyIndex ids p with
    | none => simp [bind, Option.bind]
    | some i =>
      obtain ⟨hi, hg⟩ := pyIndex_some h
      match cs with
      | [] => by_cases h5 : 5 < ids.length - 1 <;> simp [bind, Option.bind, pure, pyRaiseIf, h5]
      | [c] =>
        have := take_cons_drop_set ids i c hi
        simp only [List.append_assoc, List.cons_append, List.nil_append] at this
        simp [bind, Option.bind, pure, this]
      | c0 :: c1 :: rest =>
        have := take_cons_drop_set ids i c0 hi
        simp only [List.append_assoc, List.cons_append, List.nil_append] at this
        by_cases h5 : 5 < rest.length + 1 + ids.length
        · simp [bind, Option.bind, pure, pyRaiseIf, h5]
        · have e2 : List.take i ids ++ c0 :: (List.drop (i + 1) ids ++ [c1]) = ids.set i c0 ++ [c1] := by
            rw [← this]; simp
          simp [bind, Option.bind, pure, pyRaiseIf, h5, e2]
  | marginalize d =>
    dsimp only
    cases h : pyIndex ids d <;> simp [bind, pure, Option.bind]

end DadiVerif.DemesConv
